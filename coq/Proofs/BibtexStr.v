(* Proofs/BibtexStr.v -- lemmas about Model/BibtexStr.v (property C12), part 1:
   the scanner, text length, prefix, substring, purify. *)
From Pybtex Require Import Base.Prelude Base.PyChar Base.PyStr Model.BibtexStr Spec.BibtexStrSpec.

Lemma substring_start_zero s l : bibtex_substring s 0 l = [].
Proof. reflexivity. Qed.

(* ------------------------------------------------------------------ generic *)
Lemma bind_Ok {X Y} (r : res X) (f : X -> res Y) y :
  bind r f = Ok y -> exists x, r = Ok x /\ f x = Ok y.
Proof. destruct r; cbn; intros H; try discriminate. eauto. Qed.

Lemma lb_eq c : is_lbrace c = true -> c = c_lbrace.
Proof. unfold is_lbrace. apply N.eqb_eq. Qed.
Lemma rb_eq c : is_rbrace c = true -> c = c_rbrace.
Proof. unfold is_rbrace. apply N.eqb_eq. Qed.

Ltac inv_ok :=
  repeat match goal with
  | H : bind _ _ = Ok _ |- _ =>
    let x := fresh "r" in let H1 := fresh "Hr" in let H2 := fresh "Hk" in
    apply bind_Ok in H; destruct H as (x & H1 & H2)
  | H : Ok _ = Ok _ |- _ => injection H as H; subst
  end.

Definition bs_head (s : str) : bool :=
  match s with b :: _ => N.eqb b c_bslash | [] => false end.

(* ------------------------------------------------------------------ depth *)
Lemma depth_from_app d a b :
  depth_from d (a ++ b) = match depth_from d a with Some d' => depth_from d' b | None => None end.
Proof.
  revert d; induction a as [|c a IH]; intros d; cbn [app depth_from]; [reflexivity|].
  destruct (N.eqb c c_lbrace); [apply IH|].
  destruct (N.eqb c c_rbrace); [|apply IH].
  destruct d; [reflexivity|apply IH].
Qed.

(* every token's level is the brace depth right after it, starting from depth [d] *)
Fixpoint toks_ok (d : nat) (ts : list tok) : Prop :=
  match ts with
  | [] => True
  | (t, l) :: r => depth_from d t = Some l /\ toks_ok l r
  end.

Lemma toks_ok_split d ts1 t l ts2 :
  toks_ok d (ts1 ++ (t, l) :: ts2) -> depth_from d (concat (map fst ts1) ++ t) = Some l.
Proof.
  revert d; induction ts1 as [|[t1 l1] ts1 IH]; intros d; cbn [app map concat fst toks_ok].
  - intros [H _]. exact H.
  - intros [H1 H2]. rewrite <- app_assoc, depth_from_app, H1. apply IH. exact H2.
Qed.

(* ------------------------------------------------------------------ scan: lossless, levels *)
Lemma scan_go_balanced : forall s level sp ts,
  scan_go s level sp = Ok ts ->
  match sp with
  | None => depth_from level s = Some 0 -> concat (map fst ts) = s /\ toks_ok level ts
  | Some (d, acc) =>
    depth_from (S d) s = Some 0 -> depth_from 1 (rev acc) = Some (S d) ->
    concat (map fst ts) = rev acc ++ s /\ toks_ok 1 ts
  end.
Proof.
  induction s as [|c t IH]; intros level sp ts H.
  - destruct sp as [[d acc]|]; cbn [scan_go] in H.
    + intros Hd. discriminate.
    + inv_ok. intros _. split; [reflexivity|exact I].
  - destruct sp as [[d acc]|]; cbn [scan_go] in H.
    + intros Hd Hacc. cbn [depth_from] in Hd.
      destruct (is_lbrace c) eqn:El.
      * destruct (Nat.ltb max_level (2 + d)); [discriminate|].
        apply lb_eq in El; subst c.
        apply IH in H. cbn beta iota in H. change (N.eqb c_lbrace c_lbrace) with true in Hd.
        cbn iota in Hd.
        destruct H as [H1 H2]; [exact Hd| |].
        { cbn [rev]. rewrite depth_from_app, Hacc. reflexivity. }
        split; [|exact H2]. rewrite H1. cbn [rev]. rewrite <- app_assoc. reflexivity.
      * unfold is_lbrace in El. rewrite El in Hd.
        destruct (is_rbrace c) eqn:Er.
        -- apply rb_eq in Er; subst c. change (N.eqb c_rbrace c_rbrace) with true in Hd. cbn iota in Hd.
           destruct d as [|d'].
           ++ inv_ok. apply IH in Hr. cbn beta iota in Hr. destruct (Hr Hd) as [H1 H2].
              split.
              ** cbn [map concat fst]. rewrite H1. reflexivity.
              ** cbn [toks_ok]. split; [exact Hacc|]. split; [reflexivity|exact H2].
           ++ apply IH in H. cbn beta iota in H.
              destruct H as [H1 H2]; [exact Hd| |].
              { cbn [rev]. rewrite depth_from_app, Hacc. reflexivity. }
              split; [|exact H2]. rewrite H1. cbn [rev]. rewrite <- app_assoc. reflexivity.
        -- unfold is_rbrace in Er. rewrite Er in Hd.
           apply IH in H. cbn beta iota in H.
           destruct H as [H1 H2]; [exact Hd| |].
           { cbn [rev]. rewrite depth_from_app, Hacc. cbn [depth_from]. rewrite El, Er. reflexivity. }
           split; [|exact H2]. rewrite H1. cbn [rev]. rewrite <- app_assoc. reflexivity.
    + intros Hd. cbn [depth_from] in Hd.
      destruct (is_lbrace c) eqn:El.
      * apply lb_eq in El; subst c. change (N.eqb c_lbrace c_lbrace) with true in Hd. cbn iota in Hd.
        match type of H with context [if ?b then _ else _] => destruct b eqn:Esp end.
        -- inv_ok. apply andb_prop in Esp as [E0 _]. apply Nat.eqb_eq in E0; subst level.
           apply IH in Hr. cbn beta iota in Hr. destruct (Hr Hd eq_refl) as [H1 H2].
           split.
           ++ cbn [map concat fst]. rewrite H1. reflexivity.
           ++ cbn [toks_ok]. split; [reflexivity|exact H2].
        -- destruct (Nat.ltb max_level (S level)); [discriminate|].
           inv_ok. apply IH in Hr. cbn beta iota in Hr. destruct (Hr Hd) as [H1 H2].
           split.
           ++ cbn [map concat fst]. rewrite H1. reflexivity.
           ++ cbn [toks_ok]. split; [reflexivity|exact H2].
      * unfold is_lbrace in El. rewrite El in Hd.
        destruct (is_rbrace c) eqn:Er.
        -- apply rb_eq in Er; subst c. change (N.eqb c_rbrace c_rbrace) with true in Hd. cbn iota in Hd.
           destruct level as [|l']; [discriminate|].
           cbn [andb Nat.ltb Nat.leb pred] in H. inv_ok.
           apply IH in Hr. cbn beta iota in Hr. destruct (Hr Hd) as [H1 H2].
           split.
           ++ cbn [map concat fst]. rewrite H1. reflexivity.
           ++ cbn [toks_ok]. split; [reflexivity|exact H2].
        -- unfold is_rbrace in Er. rewrite Er in Hd. cbn [andb] in H. inv_ok.
           apply IH in Hr. cbn beta iota in Hr. destruct (Hr Hd) as [H1 H2].
           split.
           ++ cbn [map concat fst]. rewrite H1. reflexivity.
           ++ cbn [toks_ok]. split; [|exact H2]. cbn [depth_from]. rewrite El, Er. reflexivity.
Qed.

Lemma scan_lossless_lemma s ts : balanced s -> scan s = Ok ts -> concat (map fst ts) = s.
Proof. intros Hb H. apply scan_go_balanced in H. apply H. exact Hb. Qed.

Lemma scan_levels_lemma s ts1 t l ts2 :
  balanced s -> scan s = Ok (ts1 ++ (t, l) :: ts2) ->
  depth_from 0 (concat (map fst ts1) ++ t) = Some l.
Proof.
  intros Hb H. apply scan_go_balanced in H. destruct (H Hb) as [_ H2].
  eapply toks_ok_split. exact H2.
Qed.

(* ------------------------------------------------------------------ scan: totality *)
Definition st_depth (level : nat) (sp : option (nat * str)) : nat :=
  match sp with None => level | Some (d, _) => S d end.

Lemma scan_go_total : forall s level sp,
  if too_deep max_level (st_depth level sp) s
  then scan_go s level sp = PyErr E_BIBTEX (-1)
  else exists ts, scan_go s level sp = Ok ts.
Proof.
  induction s as [|c t IH]; intros level sp.
  - destruct sp as [[d acc]|]; cbn [scan_go too_deep]; eauto.
  - destruct sp as [[d acc]|]; cbn [scan_go too_deep st_depth].
    + unfold is_lbrace, is_rbrace.
      destruct (N.eqb c c_lbrace) eqn:El.
      * change (2 + d) with (S (S d)).
        destruct (Nat.ltb max_level (S (S d))); cbn [orb]; [reflexivity|].
        apply (IH level (Some (S d, c :: acc))).
      * destruct (N.eqb c c_rbrace) eqn:Er.
        -- destruct d as [|d']; cbn [pred].
           ++ specialize (IH 0 None). cbn [st_depth] in IH.
              destruct (too_deep max_level 0 t).
              ** rewrite IH. reflexivity.
              ** destruct IH as [r Hr]. rewrite Hr. cbn [bind]. eauto.
           ++ apply (IH level (Some (d', c :: acc))).
        -- apply (IH level (Some (d, c :: acc))).
    + unfold is_lbrace, is_rbrace.
      destruct (N.eqb c c_lbrace) eqn:El.
      * destruct (Nat.eqb level 0 && bs_head t) eqn:Esp; unfold bs_head in Esp; rewrite Esp.
        -- apply andb_prop in Esp as [E0 _]. apply Nat.eqb_eq in E0; subst level.
           change (Nat.ltb max_level 1) with false. cbn [orb].
           specialize (IH 0 (Some (0, []))). cbn [st_depth] in IH.
           destruct (too_deep max_level 1 t).
           ++ rewrite IH. reflexivity.
           ++ destruct IH as [r Hr]. rewrite Hr. cbn [bind]. eauto.
        -- destruct (Nat.ltb max_level (S level)); cbn [orb]; [reflexivity|].
           specialize (IH (S level) None). cbn [st_depth] in IH.
           destruct (too_deep max_level (S level) t).
           ++ rewrite IH. reflexivity.
           ++ destruct IH as [r Hr]. rewrite Hr. cbn [bind]. eauto.
      * destruct (N.eqb c c_rbrace) eqn:Er; cbn [andb].
        -- destruct level as [|l']; cbn [Nat.ltb Nat.leb pred].
           ++ specialize (IH 0 None). cbn [st_depth] in IH.
              destruct (too_deep max_level 0 t).
              ** rewrite IH. reflexivity.
              ** destruct IH as [r Hr]. rewrite Hr. cbn [bind]. eauto.
           ++ specialize (IH l' None). cbn [st_depth] in IH.
              destruct (too_deep max_level l' t).
              ** rewrite IH. reflexivity.
              ** destruct IH as [r Hr]. rewrite Hr. cbn [bind]. eauto.
        -- specialize (IH level None). cbn [st_depth] in IH.
           destruct (too_deep max_level level t).
           ++ rewrite IH. reflexivity.
           ++ destruct IH as [r Hr]. rewrite Hr. cbn [bind]. eauto.
Qed.

Lemma scan_total_lemma s :
  (too_deep 100 0 s = true /\ scan s = PyErr E_BIBTEX (-1)) \/
  (too_deep 100 0 s = false /\ exists ts, scan s = Ok ts).
Proof.
  pose proof (scan_go_total s 0 None) as H. cbn [st_depth] in H. change max_level with 100 in H.
  unfold scan. destruct (too_deep 100 0 s); [left|right]; split; auto.
Qed.

(* ------------------------------------------------------------------ text length *)
Definition cnt (ts : list tok) : nat :=
  length (filter (fun t => negb (tok_is_brace (fst t))) ts).

Lemma cnt_cons x l r : cnt ((x, l) :: r) = (if tok_is_brace x then 0 else 1) + cnt r.
Proof. unfold cnt. cbn [filter fst]. destruct (tok_is_brace x); reflexivity. Qed.

Lemma cnt_app a b : cnt (a ++ b) = cnt a + cnt b.
Proof. unfold cnt. rewrite filter_app, app_length. reflexivity. Qed.

Lemma bs_head_not_brace x : bs_head x = true -> tok_is_brace x = false.
Proof.
  destruct x as [|b x]; cbn [bs_head]; [discriminate|]. intros H. apply N.eqb_eq in H; subst b.
  destruct x as [|b2 [|b3 x]]; reflexivity.
Qed.

Lemma bs_head_app_rb a t : bs_head (a ++ c_rbrace :: t) = true -> bs_head a = true.
Proof. destruct a; cbn [app bs_head]; [discriminate|auto]. Qed.

Lemma bs_head_snoc acc c t : bs_head (rev (c :: acc) ++ t) = bs_head (rev acc ++ c :: t).
Proof. cbn [rev]. rewrite <- app_assoc. reflexivity. Qed.

Lemma scan_go_len : forall s level sp ts,
  scan_go s level sp = Ok ts ->
  match sp with
  | None => cnt ts = text_len_go s level None
  | Some (d, acc) => bs_head (rev acc ++ s) = true -> cnt ts = text_len_go s level (Some d)
  end.
Proof.
  induction s as [|c t IH]; intros level sp ts H.
  - destruct sp as [[d acc]|]; cbn [scan_go] in H; inv_ok.
    + rewrite app_nil_r. intros Hb. rewrite !cnt_cons, (bs_head_not_brace _ Hb). reflexivity.
    + reflexivity.
  - destruct sp as [[d acc]|]; cbn [scan_go] in H; cbn [text_len_go].
    + intros Hb. unfold is_lbrace, is_rbrace in H.
      destruct (N.eqb c c_lbrace) eqn:El.
      * destruct (Nat.ltb max_level (2 + d)); [discriminate|].
        apply IH in H. cbn beta iota in H. apply H. rewrite bs_head_snoc. exact Hb.
      * destruct (N.eqb c c_rbrace) eqn:Er.
        -- apply N.eqb_eq in Er; subst c. destruct d as [|d'].
           ++ inv_ok. apply IH in Hr. cbn beta iota in Hr.
              rewrite !cnt_cons, (bs_head_not_brace _ (bs_head_app_rb _ _ Hb)), Hr. reflexivity.
           ++ apply IH in H. cbn beta iota in H. apply H. rewrite bs_head_snoc. exact Hb.
        -- apply IH in H. cbn beta iota in H. apply H. rewrite bs_head_snoc. exact Hb.
    + unfold is_lbrace, is_rbrace in H.
      destruct (N.eqb c c_lbrace) eqn:El.
      * apply N.eqb_eq in El; subst c.
        fold (bs_head t) in H |- *.
        destruct (Nat.eqb level 0 && bs_head t) eqn:Esp.
        -- inv_ok. apply andb_prop in Esp as [E0 Eb]. apply Nat.eqb_eq in E0; subst level.
           apply IH in Hr. cbn beta iota in Hr. rewrite cnt_cons. cbn [rev app] in Hr.
           rewrite (Hr Eb). reflexivity.
        -- destruct (Nat.ltb max_level (S level)); [discriminate|]. inv_ok.
           apply IH in Hr. cbn beta iota in Hr. rewrite cnt_cons, Hr. reflexivity.
      * destruct (N.eqb c c_rbrace) eqn:Er; cbn [andb] in H.
        -- apply N.eqb_eq in Er; subst c.
           destruct level as [|l']; cbn [Nat.ltb Nat.leb pred] in H |- *; inv_ok;
             apply IH in Hr; cbn beta iota in Hr; rewrite cnt_cons, Hr; reflexivity.
        -- inv_ok. apply IH in Hr. cbn beta iota in Hr. rewrite cnt_cons, Hr.
           cbn [tok_is_brace]. unfold is_brace, is_lbrace, is_rbrace. rewrite El, Er. reflexivity.
Qed.

Lemma len_counts_lemma s ts : scan s = Ok ts ->
  bibtex_len s = Ok (length (filter (fun t => negb (tok_is_brace (fst t))) ts)).
Proof. intros H. unfold bibtex_len. rewrite H. reflexivity. Qed.

Lemma len_spec_lemma s n : bibtex_len s = Ok n -> n = text_len s.
Proof.
  unfold bibtex_len. intros H. inv_ok. apply scan_go_len in Hr. exact Hr.
Qed.

(* ------------------------------------------------------------------ text prefix *)
Definition pfx (ts : list tok) (len n : Z) (ll : nat) : str :=
  let r := prefix_go ts len n ll in fst r ++ repeat c_rbrace (snd r).

Lemma pfx_nil len n ll : pfx [] len n ll = repeat c_rbrace ll.
Proof. reflexivity. Qed.

Lemma brace_count_cdepth : forall t l, brace_count t l = cdepth_from l t.
Proof.
  induction t as [|c t IH]; intros l; [reflexivity|]. cbn [brace_count cdepth_from].
  unfold is_lbrace, is_rbrace. destruct (N.eqb c c_lbrace); [apply IH|]. destruct (N.eqb c c_rbrace); apply IH.
Qed.

Lemma cdepth_from_app : forall a b d, cdepth_from d (a ++ b) = cdepth_from (cdepth_from d a) b.
Proof.
  induction a as [|c a IH]; intros b d; [reflexivity|]. cbn [app cdepth_from].
  destruct (N.eqb c c_lbrace); [apply IH|]. destruct (N.eqb c c_rbrace); apply IH.
Qed.

Lemma pfx_cons t l rest len n ll :
  pfx ((t, l) :: rest) len n ll =
  let lvl := cdepth_from ll t in
  let len' := if tok_is_brace t then len else (len + 1)%Z in
  if (n <=? len')%Z then t ++ repeat c_rbrace lvl else t ++ pfx rest len' n lvl.
Proof.
  unfold pfx. cbn [prefix_go]. cbv zeta. rewrite brace_count_cdepth.
  destruct (n <=? (if tok_is_brace t then len else (len + 1)))%Z; cbn [fst snd]; [reflexivity|].
  rewrite <- app_assoc. reflexivity.
Qed.

(* the output of bibtex_prefix computed directly on the string: the characters consumed,
   then one closing brace per brace still open at the cut (inside a never-closed special
   character: its own brace and the [d] braces open inside it) *)
Fixpoint F (s : str) (level : nat) (sp : option nat) (len n : Z) : str :=
  match s with
  | [] => match sp with None => repeat c_rbrace level | Some d => repeat c_rbrace (S d) end
  | c :: t =>
    match sp with
    | Some d =>
      if is_lbrace c then c :: F t level (Some (S d)) len n
      else if is_rbrace c then
        match d with
        | O => c :: (if (n <=? len + 1)%Z then [] else F t 0 None (len + 1) n)
        | S d' => c :: F t level (Some d') len n
        end
      else c :: F t level (Some d) len n
    | None =>
      if is_lbrace c then
        if Nat.eqb level 0 && bs_head t then c :: F t 0 (Some 0) len n
        else c :: F t (S level) None len n
      else if is_rbrace c && Nat.ltb 0 level then c :: F t (pred level) None len n
      else if is_brace c then c :: F t level None len n
      else c :: (if (n <=? len + 1)%Z then repeat c_rbrace level else F t level None (len + 1) n)
    end
  end.

Lemma F_head s level sp len n : bs_head (F s level sp len n) = bs_head s.
Proof.
  destruct s as [|c t].
  - destruct sp; cbn [F bs_head]; [reflexivity|]. destruct level; reflexivity.
  - cbn [F]. destruct sp as [d|].
    + destruct (is_lbrace c); [reflexivity|]. destruct (is_rbrace c); [|reflexivity].
      destruct d; reflexivity.
    + destruct (is_lbrace c).
      * destruct (Nat.eqb level 0 && bs_head t); reflexivity.
      * destruct (is_rbrace c && Nat.ltb 0 level); [reflexivity|].
        destruct (is_brace c); reflexivity.
Qed.

Lemma cdepth_one_nonrb c level : is_lbrace c = false -> (is_rbrace c && Nat.ltb 0 level) = false ->
  cdepth_from level [c] = level.
Proof.
  unfold is_lbrace, is_rbrace. intros El Er. cbn [cdepth_from]. rewrite El.
  destruct (N.eqb c c_rbrace); [|reflexivity]. destruct level; [reflexivity|discriminate].
Qed.

Lemma prefix_fused : forall s level sp ts len n, (len < n)%Z ->
  scan_go s level sp = Ok ts ->
  match sp with
  | None => pfx ts len n level = F s level None len n
  | Some (d, acc) => bs_head (rev acc ++ s) = true -> cdepth_from 1 (rev acc) = S d ->
                     pfx ts len n 1 = rev acc ++ F s level (Some d) len n
  end.
Proof.
  induction s as [|c t IH]; intros level sp ts len n Hlt H.
  - destruct sp as [[d acc]|]; cbn [scan_go] in H; inv_ok.
    + rewrite app_nil_r. intros Hb Hc. rewrite pfx_cons, (bs_head_not_brace _ Hb), Hc. cbv zeta. cbn [F].
      destruct (n <=? len + 1)%Z eqn:E; [reflexivity|].
      rewrite pfx_cons. cbn [tok_is_brace]. change (is_brace c_rbrace) with true. cbv iota zeta.
      rewrite E. rewrite pfx_nil. reflexivity.
    + reflexivity.
  - destruct sp as [[d acc]|]; cbn [scan_go] in H; cbn [F].
    + intros Hb Hc.
      assert (Hsnoc : forall k, cdepth_from (S d) [c] = k -> cdepth_from 1 (rev (c :: acc)) = k).
      { intros k Hk. cbn [rev]. rewrite cdepth_from_app, Hc. exact Hk. }
      destruct (is_lbrace c) eqn:El.
      * destruct (Nat.ltb max_level (2 + d)); [discriminate|].
        apply (IH _ _ _ _ _ Hlt) in H. cbn beta iota in H. rewrite H.
        -- cbn [rev]. rewrite <- app_assoc. reflexivity.
        -- rewrite bs_head_snoc. exact Hb.
        -- apply Hsnoc. cbn [cdepth_from]. unfold is_lbrace in El. rewrite El. reflexivity.
      * destruct (is_rbrace c) eqn:Er.
        -- apply rb_eq in Er; subst c. destruct d as [|d'].
           ++ inv_ok. rewrite pfx_cons, (bs_head_not_brace _ (bs_head_app_rb _ _ Hb)), Hc. cbv zeta.
              destruct (n <=? len + 1)%Z eqn:E; [reflexivity|].
              rewrite pfx_cons. cbn [tok_is_brace]. change (is_brace c_rbrace) with true. cbv iota zeta.
              rewrite E. apply Z.leb_gt in E.
              apply (IH _ _ _ _ _ E) in Hr. cbn beta iota in Hr.
              change (cdepth_from 1 [c_rbrace]) with 0. rewrite Hr. reflexivity.
           ++ apply (IH _ _ _ _ _ Hlt) in H. cbn beta iota in H. rewrite H.
              ** cbn [rev]. rewrite <- app_assoc. reflexivity.
              ** rewrite bs_head_snoc. exact Hb.
              ** apply Hsnoc. reflexivity.
        -- apply (IH _ _ _ _ _ Hlt) in H. cbn beta iota in H. rewrite H.
           ++ cbn [rev]. rewrite <- app_assoc. reflexivity.
           ++ rewrite bs_head_snoc. exact Hb.
           ++ apply Hsnoc. cbn [cdepth_from]. unfold is_lbrace, is_rbrace in El, Er. rewrite El, Er. reflexivity.
    + fold (bs_head t) in H.
      assert (Hn : (n <=? len)%Z = false) by (apply Z.leb_gt; exact Hlt).
      destruct (is_lbrace c) eqn:El.
      * apply lb_eq in El; subst c.
        destruct (Nat.eqb level 0 && bs_head t) eqn:Esp.
        -- inv_ok. apply andb_prop in Esp as [E0 Eb]. apply Nat.eqb_eq in E0; subst level.
           rewrite pfx_cons. cbn [tok_is_brace]. change (is_brace c_lbrace) with true. cbv iota zeta.
           rewrite Hn. apply (IH _ _ _ _ _ Hlt) in Hr. cbn beta iota in Hr. cbn [rev app] in Hr.
           change (cdepth_from 0 [c_lbrace]) with 1. rewrite (Hr Eb eq_refl). reflexivity.
        -- destruct (Nat.ltb max_level (S level)); [discriminate|]. inv_ok.
           rewrite pfx_cons. cbn [tok_is_brace]. change (is_brace c_lbrace) with true. cbv iota zeta.
           rewrite Hn. apply (IH _ _ _ _ _ Hlt) in Hr. cbn beta iota in Hr.
           change (cdepth_from level [c_lbrace]) with (S level). rewrite Hr. reflexivity.
      * destruct (is_rbrace c && Nat.ltb 0 level) eqn:Erl.
        -- inv_ok. apply andb_prop in Erl as [Er _]. apply rb_eq in Er; subst c.
           rewrite pfx_cons. cbn [tok_is_brace]. change (is_brace c_rbrace) with true. cbv iota zeta.
           rewrite Hn. apply (IH _ _ _ _ _ Hlt) in Hr. cbn beta iota in Hr.
           change (cdepth_from level [c_rbrace]) with (pred level). rewrite Hr. reflexivity.
        -- inv_ok. rewrite pfx_cons, (cdepth_one_nonrb c level El Erl). cbn [tok_is_brace]. cbv zeta.
           destruct (is_brace c) eqn:Eb.
           ++ rewrite Hn. apply (IH _ _ _ _ _ Hlt) in Hr. cbn beta iota in Hr. rewrite Hr. reflexivity.
           ++ destruct (n <=? len + 1)%Z eqn:E; [reflexivity|]. apply Z.leb_gt in E.
              apply (IH _ _ _ _ _ E) in Hr. cbn beta iota in Hr. rewrite Hr. reflexivity.
Qed.

Lemma scan_closers_special : forall d acc level,
  scan_go (repeat c_rbrace (S d)) level (Some (d, acc)) =
  Ok [(rev acc ++ repeat c_rbrace d, 1); ([c_rbrace], 0)].
Proof.
  induction d as [|d IH]; intros acc level.
  - cbn [repeat scan_go]. change (is_lbrace c_rbrace) with false. change (is_rbrace c_rbrace) with true.
    cbv iota. cbn [scan_go bind]. rewrite app_nil_r. reflexivity.
  - change (repeat c_rbrace (S (S d))) with (c_rbrace :: repeat c_rbrace (S d)). cbn [scan_go].
    change (is_lbrace c_rbrace) with false. change (is_rbrace c_rbrace) with true. cbv iota.
    rewrite IH. cbn [rev repeat]. rewrite <- app_assoc. reflexivity.
Qed.

Lemma scan_closers level :
  exists ts, scan_go (repeat c_rbrace level) level None = Ok ts /\ cnt ts = 0.
Proof.
  induction level as [|l IH]; cbn [repeat scan_go]; [eexists; split; reflexivity|].
  change (is_lbrace c_rbrace) with false. change (is_rbrace c_rbrace) with true.
  cbn [andb Nat.ltb Nat.leb pred]. destruct IH as (r & Hr & Hc). rewrite Hr. cbn [bind].
  eexists; split; [reflexivity|]. rewrite cnt_cons, Hc. reflexivity.
Qed.

Lemma bs_head_app a b : bs_head a = true -> bs_head (a ++ b) = true.
Proof. destruct a; cbn; [discriminate|auto]. Qed.

Definition sp_ok (sp : option (nat * str)) (s : str) : Prop :=
  match sp with Some (_, acc) => bs_head (rev acc ++ s) = true | None => True end.

Lemma prefix_rescan : forall s level sp ts len n, (len < n)%Z ->
  scan_go s level sp = Ok ts -> sp_ok sp s ->
  exists ts', scan_go (F s level (option_map fst sp) len n) level sp = Ok ts' /\
              (len + Z.of_nat (cnt ts') = Z.min n (len + Z.of_nat (cnt ts)))%Z.
Proof.
  induction s as [|c t IH]; intros level sp ts len n Hlt H Hok.
  - destruct sp as [[d acc]|]; cbn [scan_go] in H; inv_ok; cbn [option_map fst F sp_ok] in *.
    + rewrite app_nil_r in Hok.
      assert (Hc : cnt [(rev acc, 1); ([c_rbrace], 0)] = 1).
      { rewrite !cnt_cons, (bs_head_not_brace _ Hok). reflexivity. }
      rewrite Hc, scan_closers_special. eexists; split; [reflexivity|].
      rewrite !cnt_cons, (bs_head_not_brace _ (bs_head_app _ (repeat c_rbrace d) Hok)).
      cbn [tok_is_brace]. change (is_brace c_rbrace) with true. cbn [cnt filter length]. cbv iota; lia.
    + destruct (scan_closers level) as (r & Hr & Hc). exists r. split; [exact Hr|].
      rewrite Hc. cbn. cbv iota; lia.
  - destruct sp as [[d acc]|]; cbn [scan_go] in H; cbn [option_map fst F sp_ok] in *.
    + destruct (is_lbrace c) eqn:El.
      * destruct (Nat.ltb max_level (2 + d)) eqn:Emax; [discriminate|].
        cbn [scan_go]. rewrite El, Emax.
        apply (IH level (Some (S d, c :: acc)) ts len n Hlt H).
        cbn [sp_ok]. rewrite bs_head_snoc. exact Hok.
      * destruct (is_rbrace c) eqn:Er.
        -- destruct d as [|d'].
           ++ inv_ok. apply rb_eq in Er; subst c.
              pose proof (bs_head_not_brace _ (bs_head_app_rb _ _ Hok)) as Hnb.
              cbn [scan_go]. change (is_lbrace c_rbrace) with false. change (is_rbrace c_rbrace) with true.
              cbv iota.
              destruct (n <=? len + 1)%Z eqn:E.
              ** cbn [scan_go bind]. eexists; split; [reflexivity|].
                 apply Z.leb_le in E. rewrite !cnt_cons, Hnb. cbn [tok_is_brace].
                 change (is_brace c_rbrace) with true. cbn [cnt filter length]. cbv iota; lia.
              ** apply Z.leb_gt in E.
                 destruct (IH 0 None r (len + 1)%Z n E Hr I) as (r' & Hr' & Hc').
                 cbn [option_map] in Hr'. rewrite Hr'. cbn [bind]. eexists; split; [reflexivity|].
                 rewrite !cnt_cons, Hnb. cbn [tok_is_brace]. change (is_brace c_rbrace) with true.
                 cbv iota; lia.
           ++ cbn [scan_go]. rewrite El, Er.
              apply (IH level (Some (d', c :: acc)) ts len n Hlt H).
              cbn [sp_ok]. rewrite bs_head_snoc. exact Hok.
        -- cbn [scan_go]. rewrite El, Er.
           apply (IH level (Some (d, c :: acc)) ts len n Hlt H).
           cbn [sp_ok]. rewrite bs_head_snoc. exact Hok.
    + fold (bs_head t) in H.
      destruct (is_lbrace c) eqn:El.
      * destruct (Nat.eqb level 0 && bs_head t) eqn:Esp.
        -- inv_ok. cbn [scan_go]. rewrite El.
           match goal with |- context [match ?x with b :: _ => N.eqb b c_bslash | [] => false end] =>
             change (match x with b :: _ => N.eqb b c_bslash | [] => false end) with (bs_head x) end.
           rewrite F_head, Esp.
           apply andb_prop in Esp as [E0 Eb]. apply Nat.eqb_eq in E0; subst level.
           destruct (IH 0 (Some (0, [])) r len n Hlt Hr Eb) as (r' & Hr' & Hc').
           cbn [option_map fst] in Hr'. rewrite Hr'. cbn [bind]. eexists; split; [reflexivity|].
           apply lb_eq in El; subst c. rewrite !cnt_cons. cbn [tok_is_brace].
           change (is_brace c_lbrace) with true. cbv iota; lia.
        -- destruct (Nat.ltb max_level (S level)) eqn:Emax; [discriminate|]. inv_ok.
           cbn [scan_go]. rewrite El.
           match goal with |- context [match ?x with b :: _ => N.eqb b c_bslash | [] => false end] =>
             change (match x with b :: _ => N.eqb b c_bslash | [] => false end) with (bs_head x) end.
           rewrite F_head, Esp, Emax.
           destruct (IH (S level) None r len n Hlt Hr I) as (r' & Hr' & Hc').
           cbn [option_map] in Hr'. rewrite Hr'. cbn [bind]. eexists; split; [reflexivity|].
           apply lb_eq in El; subst c. rewrite !cnt_cons. cbn [tok_is_brace].
           change (is_brace c_lbrace) with true. cbv iota; lia.
      * destruct (is_rbrace c && Nat.ltb 0 level) eqn:Erl.
        -- inv_ok. cbn [scan_go]. rewrite El, Erl.
           destruct (IH (pred level) None r len n Hlt Hr I) as (r' & Hr' & Hc').
           cbn [option_map] in Hr'. rewrite Hr'. cbn [bind]. eexists; split; [reflexivity|].
           apply andb_prop in Erl as [Er _]. apply rb_eq in Er; subst c. rewrite !cnt_cons.
           cbn [tok_is_brace]. change (is_brace c_rbrace) with true. cbv iota; lia.
        -- inv_ok. destruct (is_brace c) eqn:Eb.
           ++ cbn [scan_go]. rewrite El, Erl.
              destruct (IH level None r len n Hlt Hr I) as (r' & Hr' & Hc').
              cbn [option_map] in Hr'. rewrite Hr'. cbn [bind]. eexists; split; [reflexivity|].
              rewrite !cnt_cons. cbn [tok_is_brace]. rewrite Eb. cbv iota; lia.
           ++ cbn [scan_go]. rewrite El, Erl.
              destruct (n <=? len + 1)%Z eqn:E.
              ** destruct (scan_closers level) as (r' & Hr' & Hc'). rewrite Hr'. cbn [bind].
                 eexists; split; [reflexivity|]. apply Z.leb_le in E.
                 rewrite !cnt_cons. cbn [tok_is_brace]. rewrite Eb, Hc'. cbv iota; lia.
              ** apply Z.leb_gt in E.
                 destruct (IH level None r (len + 1)%Z n E Hr I) as (r' & Hr' & Hc').
                 cbn [option_map] in Hr'. rewrite Hr'. cbn [bind]. eexists; split; [reflexivity|].
                 rewrite !cnt_cons. cbn [tok_is_brace]. rewrite Eb. cbv iota; lia.
Qed.

Lemma prefix_len_lemma s n p m :
  bibtex_prefix s n = Ok p -> bibtex_len s = Ok m ->
  bibtex_len p = Ok (Z.to_nat (Z.min n (Z.of_nat m))).
Proof.
  unfold bibtex_prefix, bibtex_len. intros Hp Hm.
  apply bind_Ok in Hm. destruct Hm as (r & Hr & Hm). injection Hm as Hm. subst m.
  destruct (0 <? n)%Z eqn:En.
  - apply Z.ltb_lt in En. apply bind_Ok in Hp. destruct Hp as (r2 & Hr2 & Hp).
    rewrite Hr in Hr2. injection Hr2 as Hr2. subst r2. injection Hp as Hp. subst p.
    pose proof (prefix_fused s 0 None r 0 n En Hr) as Hf. cbn beta iota in Hf.
    unfold pfx in Hf. cbv zeta in Hf. rewrite Hf.
    destruct (prefix_rescan s 0 None r 0 n En Hr I) as (r' & Hr' & Hc).
    cbn [option_map] in Hr'. fold (scan (F s 0 None 0 n)) in Hr'. rewrite Hr'. cbn [bind].
    f_equal. fold (cnt r'). fold (cnt r). lia.
  - apply Z.ltb_ge in En. injection Hp as Hp. subst p. cbn [scan scan_go bind filter length].
    f_equal. lia.
Qed.

Lemma prefix_nonpos_lemma s n : (n <= 0)%Z -> bibtex_prefix s n = Ok [].
Proof. intros H. unfold bibtex_prefix. apply Z.ltb_ge in H. rewrite H. reflexivity. Qed.

Lemma depth_closers k : depth_from k (repeat c_rbrace k) = Some 0.
Proof. induction k; cbn [repeat depth_from]; [reflexivity|]. exact IHk. Qed.

Lemma F_shape_bal : forall s level sp len n,
  depth_from (match sp with None => level | Some d => S d end) s = Some 0 ->
  exists p k r, F s level sp len n = p ++ repeat c_rbrace k /\ s = p ++ r /\
                depth_from (match sp with None => level | Some d => S d end) p = Some k.
Proof.
  induction s as [|c t IH]; intros level sp len n Hd.
  - destruct sp as [d|]; cbn [depth_from] in Hd; [discriminate|].
    exists [], level, []. repeat split.
  - destruct sp as [d|]; cbn [F]; cbn [depth_from] in Hd; unfold is_lbrace, is_rbrace.
    + destruct (N.eqb c c_lbrace) eqn:El.
      * destruct (IH level (Some (S d)) len n Hd) as (p & k & r & H1 & H2 & H3).
        exists (c :: p), k, r. rewrite H1, H2. repeat split. cbn [depth_from]. rewrite El. exact H3.
      * destruct (N.eqb c c_rbrace) eqn:Er.
        -- destruct d as [|d'].
           ++ destruct (n <=? len + 1)%Z.
              ** apply N.eqb_eq in Er; subst c. exists [], 1, (c_rbrace :: t). repeat split.
              ** destruct (IH 0 None (len + 1)%Z n Hd) as (p & k & r & H1 & H2 & H3).
                 exists (c :: p), k, r. rewrite H1, H2. repeat split. cbn [depth_from].
                 rewrite El, Er. exact H3.
           ++ destruct (IH level (Some d') len n Hd) as (p & k & r & H1 & H2 & H3).
              exists (c :: p), k, r. rewrite H1, H2. repeat split. cbn [depth_from].
              rewrite El, Er. exact H3.
        -- destruct (IH level (Some d) len n Hd) as (p & k & r & H1 & H2 & H3).
           exists (c :: p), k, r. rewrite H1, H2. repeat split. cbn [depth_from].
           rewrite El, Er. exact H3.
    + destruct (N.eqb c c_lbrace) eqn:El.
      * destruct (Nat.eqb level 0 && bs_head t) eqn:Esp.
        -- apply andb_prop in Esp as [E0 _]. apply Nat.eqb_eq in E0; subst level.
           destruct (IH 0 (Some 0) len n Hd) as (p & k & r & H1 & H2 & H3).
           exists (c :: p), k, r. rewrite H1, H2. repeat split. cbn [depth_from]. rewrite El. exact H3.
        -- destruct (IH (S level) None len n Hd) as (p & k & r & H1 & H2 & H3).
           exists (c :: p), k, r. rewrite H1, H2. repeat split. cbn [depth_from]. rewrite El. exact H3.
      * destruct (N.eqb c c_rbrace) eqn:Er.
        -- destruct level as [|l']; [discriminate|]. cbn [andb Nat.ltb Nat.leb pred].
           destruct (IH l' None len n Hd) as (p & k & r & H1 & H2 & H3).
           exists (c :: p), k, r. rewrite H1, H2. repeat split. cbn [depth_from]. rewrite El, Er. exact H3.
        -- cbn [andb]. unfold is_brace, is_lbrace, is_rbrace. rewrite El, Er. cbn [orb].
           destruct (n <=? len + 1)%Z.
           ++ exists [c], level, t. repeat split. cbn [depth_from]. rewrite El, Er. reflexivity.
           ++ destruct (IH level None (len + 1)%Z n Hd) as (p & k & r & H1 & H2 & H3).
              exists (c :: p), k, r. rewrite H1, H2. repeat split. cbn [depth_from].
              rewrite El, Er. exact H3.
Qed.

Lemma prefix_shape_lemma s n out :
  balanced s -> bibtex_prefix s n = Ok out ->
  exists p k, out = p ++ repeat c_rbrace k /\ is_prefix p s /\ depth_from 0 p = Some k.
Proof.
  unfold bibtex_prefix. intros Hb H. destruct (0 <? n)%Z eqn:En.
  - apply Z.ltb_lt in En. inv_ok.
    pose proof (prefix_fused s 0 None r 0 n En Hr) as Hf. cbn beta iota in Hf.
    unfold pfx in Hf. cbv zeta in Hf. rewrite Hf.
    destruct (F_shape_bal s 0 None 0 n Hb) as (p & k & r' & H1 & H2 & H3).
    exists p, k. split; [exact H1|]. split; [exists r'; exact H2|exact H3].
  - inv_ok. exists [], 0. repeat split. exists s. reflexivity.
Qed.

Lemma prefix_balanced_lemma s n out : balanced s -> bibtex_prefix s n = Ok out -> balanced out.
Proof.
  intros Hb H. destruct (prefix_shape_lemma s n out Hb H) as (p & k & H1 & _ & H3).
  unfold balanced. rewrite H1, depth_from_app, H3. apply depth_closers.
Qed.


(* ------------------------------------------------------------------ purify *)
Definition plainc (c : char) : bool := is_alnum c || N.eqb c c_space.

Lemma purify_tok_alphabet t : Forall (fun c => plainc c = true) (purify_tok t).
Proof.
  destruct t as [s l]. unfold purify_tok.
  destruct (Nat.eqb l 1 && _).
  - apply Forall_forall. intros x Hin. apply filter_In in Hin as [_ H]. unfold plainc. rewrite H. reflexivity.
  - destruct s as [|c [|c2 s]]; try constructor.
    destruct (is_alnum c) eqn:Ea.
    + constructor; [|constructor]. unfold plainc. rewrite Ea. reflexivity.
    + destruct (is_space c || N.eqb c c_hyphen || N.eqb c c_tilde); constructor; [reflexivity|constructor].
Qed.

Lemma Forall_flat_map_intro {X Y} (P : Y -> Prop) (f : X -> list Y) l :
  (forall x, Forall P (f x)) -> Forall P (flat_map f l).
Proof. intros H. induction l; cbn [flat_map]; [constructor|]. apply Forall_app. auto. Qed.

Lemma purify_alphabet_lemma s p : bibtex_purify s = Ok p -> Forall (fun c => plainc c = true) p.
Proof.
  unfold bibtex_purify. intros H. inv_ok. apply Forall_flat_map_intro. apply purify_tok_alphabet.
Qed.

Lemma plainc_not_brace c : plainc c = true -> is_lbrace c = false /\ is_rbrace c = false.
Proof.
  intros H. unfold is_lbrace, is_rbrace. split.
  - destruct (N.eqb_spec c c_lbrace) as [->|]; [vm_compute in H; discriminate|reflexivity].
  - destruct (N.eqb_spec c c_rbrace) as [->|]; [vm_compute in H; discriminate|reflexivity].
Qed.

Lemma scan_plain q level : Forall (fun c => plainc c = true) q ->
  scan_go q level None = Ok (map (fun c => ([c], level)) q).
Proof.
  induction 1 as [|c q Hc _ IH]; [reflexivity|].
  cbn [scan_go map]. destruct (plainc_not_brace c Hc) as [El Er]. rewrite El, Er. cbn [andb].
  rewrite IH. reflexivity.
Qed.

Lemma purify_plain q : Forall (fun c => plainc c = true) q ->
  flat_map purify_tok (map (fun c => ([c], 0)) q) = q.
Proof.
  induction 1 as [|c q Hc _ IH]; [reflexivity|].
  cbn [map flat_map]. rewrite IH. unfold purify_tok. cbn [Nat.eqb andb].
  unfold plainc in Hc. destruct (is_alnum c) eqn:Ea; [reflexivity|].
  cbn [orb] in Hc. apply N.eqb_eq in Hc; subst c. reflexivity.
Qed.

Lemma purify_idem_lemma s p : bibtex_purify s = Ok p -> bibtex_purify p = Ok p.
Proof.
  intros H. pose proof (purify_alphabet_lemma s p H) as Hp.
  unfold bibtex_purify, scan. rewrite (scan_plain p 0 Hp). cbn [bind]. rewrite (purify_plain p Hp).
  reflexivity.
Qed.

(* ------------------------------------------------------------------ substring *)
Ltac zb := repeat match goal with
  | H : (_ <? _)%Z = true |- _ => apply Z.ltb_lt in H
  | H : (_ <? _)%Z = false |- _ => apply Z.ltb_ge in H
  | H : (_ <=? _)%Z = true |- _ => apply Z.leb_le in H
  | H : (_ <=? _)%Z = false |- _ => apply Z.leb_gt in H
  | H : (_ =? _)%Z = true |- _ => apply Z.eqb_eq in H
  | H : (_ =? _)%Z = false |- _ => apply Z.eqb_neq in H
  end.

Lemma substring_spec_lemma s start len : bibtex_substring s start len = substring_spec s start len.
Proof.
  unfold bibtex_substring, substring_spec, pyslice, clamp_idx. cbv zeta.
  set (n := Z.of_nat (length s)).
  assert (Hn : (0 <= n)%Z) by lia.
  destruct (len <=? 0)%Z eqn:E1, (start =? 0)%Z eqn:E2, (n <? Z.abs start)%Z eqn:E3; cbn [orb];
  repeat match goal with |- context [if ?b then _ else _] => destruct b eqn:? end; zb;
  try reflexivity; try (exfalso; lia);
  try (match goal with |- firstn ?x _ = [] => replace x with 0%nat by lia; reflexivity end);
  try (f_equal; [lia | f_equal; lia]).
Qed.

Lemma substring_length_le_lemma s start len : length (bibtex_substring s start len) <= length s.
Proof.
  rewrite substring_spec_lemma. unfold substring_spec. cbv zeta.
  repeat match goal with |- context [if ?b then _ else _] => destruct b end; cbn [length]; try lia;
  rewrite firstn_length, skipn_length; lia.
Qed.

(* the selection is one contiguous piece of the string *)
Lemma substring_contiguous_lemma s start len :
  exists a b, s = a ++ bibtex_substring s start len ++ b.
Proof.
  rewrite substring_spec_lemma. unfold substring_spec. cbv zeta.
  repeat match goal with |- context [if ?b then _ else _] => destruct b end.
  - exists [], s. reflexivity.
  - eexists (firstn _ s), (skipn _ (skipn _ s)). rewrite firstn_skipn, firstn_skipn. reflexivity.
  - eexists (firstn _ s), (skipn _ (skipn _ s)). rewrite firstn_skipn, firstn_skipn. reflexivity.
Qed.

(* for every string (balanced or not) the output is a prefix followed by exactly the closing
   braces that prefix leaves open (clamped depth) *)
Lemma F_shape_exact : forall s level sp len n,
  exists p k r, F s level sp len n = p ++ repeat c_rbrace k /\ s = p ++ r /\
                k = cdepth_from (match sp with None => level | Some d => S d end) p.
Proof.
  induction s as [|c t IH]; intros level sp len n.
  - destruct sp as [d|]; cbn [F].
    + exists [], (S d), []. repeat split.
    + exists [], level, []. repeat split.
  - destruct sp as [d|]; cbn [F]; unfold is_lbrace, is_rbrace.
    + destruct (N.eqb c c_lbrace) eqn:El.
      * destruct (IH level (Some (S d)) len n) as (p & k & r & H1 & H2 & H3).
        exists (c :: p), k, r. rewrite H1, H2. repeat split. cbn [cdepth_from]. rewrite El. exact H3.
      * destruct (N.eqb c c_rbrace) eqn:Er.
        -- destruct d as [|d'].
           ++ destruct (n <=? len + 1)%Z.
              ** apply N.eqb_eq in Er; subst c. exists [], 1, (c_rbrace :: t). repeat split.
              ** destruct (IH 0 None (len + 1)%Z n) as (p & k & r & H1 & H2 & H3).
                 exists (c :: p), k, r. rewrite H1, H2. repeat split. cbn [cdepth_from pred].
                 rewrite El, Er. exact H3.
           ++ destruct (IH level (Some d') len n) as (p & k & r & H1 & H2 & H3).
              exists (c :: p), k, r. rewrite H1, H2. repeat split. cbn [cdepth_from pred].
              rewrite El, Er. exact H3.
        -- destruct (IH level (Some d) len n) as (p & k & r & H1 & H2 & H3).
           exists (c :: p), k, r. rewrite H1, H2. repeat split. cbn [cdepth_from].
           rewrite El, Er. exact H3.
    + destruct (N.eqb c c_lbrace) eqn:El.
      * destruct (Nat.eqb level 0 && bs_head t) eqn:Esp.
        -- apply andb_prop in Esp as [E0 _]. apply Nat.eqb_eq in E0; subst level.
           destruct (IH 0 (Some 0) len n) as (p & k & r & H1 & H2 & H3).
           exists (c :: p), k, r. rewrite H1, H2. repeat split. cbn [cdepth_from]. rewrite El. exact H3.
        -- destruct (IH (S level) None len n) as (p & k & r & H1 & H2 & H3).
           exists (c :: p), k, r. rewrite H1, H2. repeat split. cbn [cdepth_from]. rewrite El. exact H3.
      * destruct (N.eqb c c_rbrace) eqn:Er.
        -- destruct level as [|l']; cbn [andb Nat.ltb Nat.leb pred].
           ++ unfold is_brace, is_lbrace, is_rbrace. rewrite El, Er. cbn [orb].
              destruct (IH 0 None len n) as (p & k & r & H1 & H2 & H3).
              exists (c :: p), k, r. rewrite H1, H2. repeat split. cbn [cdepth_from pred].
              rewrite El, Er. exact H3.
           ++ destruct (IH l' None len n) as (p & k & r & H1 & H2 & H3).
              exists (c :: p), k, r. rewrite H1, H2. repeat split. cbn [cdepth_from pred].
              rewrite El, Er. exact H3.
        -- cbn [andb]. unfold is_brace, is_lbrace, is_rbrace. rewrite El, Er. cbn [orb].
           destruct (n <=? len + 1)%Z.
           ++ exists [c], level, t. repeat split. cbn [cdepth_from]. rewrite El, Er. reflexivity.
           ++ destruct (IH level None (len + 1)%Z n) as (p & k & r & H1 & H2 & H3).
              exists (c :: p), k, r. rewrite H1, H2. repeat split. cbn [cdepth_from].
              rewrite El, Er. exact H3.
Qed.

Lemma prefix_shape_exact_lemma s n out :
  bibtex_prefix s n = Ok out ->
  exists p k, out = p ++ repeat c_rbrace k /\ is_prefix p s /\ k = cdepth_from 0 p.
Proof.
  unfold bibtex_prefix. intros H. destruct (0 <? n)%Z eqn:En.
  - apply Z.ltb_lt in En. inv_ok.
    pose proof (prefix_fused s 0 None r 0 n En Hr) as Hf. cbn beta iota in Hf.
    unfold pfx in Hf. cbv zeta in Hf. rewrite Hf.
    destruct (F_shape_exact s 0 None 0 n) as (p & k & r' & H1 & H2 & H3).
    exists p, k. split; [exact H1|]. split; [exists r'; exact H2|exact H3].
  - inv_ok. exists [], 0. repeat split. exists s. reflexivity.
Qed.

Lemma cdepth_closers k : cdepth_from k (repeat c_rbrace k) = 0.
Proof. induction k; cbn [repeat cdepth_from]; [reflexivity|]. exact IHk. Qed.

(* it closes the braces it opened: the output ends at (clamped) depth 0 -- every string *)
Lemma prefix_closes_lemma s n out : bibtex_prefix s n = Ok out -> cdepth_from 0 out = 0.
Proof.
  intros H. destruct (prefix_shape_exact_lemma s n out H) as (p & k & H1 & _ & H3).
  rewrite H1, cdepth_from_app, <- H3. apply cdepth_closers.
Qed.

Lemma prefix_is_prefix_lemma s n out :
  bibtex_prefix s n = Ok out ->
  exists p k, out = p ++ repeat c_rbrace k /\ is_prefix p s /\ k <= cdepth_from 0 p.
Proof.
  intros H. destruct (prefix_shape_exact_lemma s n out H) as (p & k & H1 & H2 & H3).
  exists p, k. repeat split; auto. lia.
Qed.

(* ------------------------------------------------------------------ no foreign exception anywhere *)
Lemma primitives_total_lemma s :
  (too_deep 100 0 s = false /\
   (exists n, bibtex_len s = Ok n) /\ (forall k, exists p, bibtex_prefix s k = Ok p) /\
   (exists p, bibtex_purify s = Ok p) /\ (forall m, exists o, change_case s m = Ok o)) \/
  (too_deep 100 0 s = true /\
   bibtex_len s = PyErr E_BIBTEX (-1) /\
   (forall k, (0 < k)%Z -> bibtex_prefix s k = PyErr E_BIBTEX (-1)) /\
   bibtex_purify s = PyErr E_BIBTEX (-1) /\ (forall m, change_case s m = PyErr E_BIBTEX (-1))).
Proof.
  destruct (scan_total_lemma s) as [[Ht Hs]|[Ht [ts Hs]]]; [right|left]; (split; [exact Ht|]).
  - unfold bibtex_len, bibtex_prefix, bibtex_purify, change_case. rewrite Hs. cbn [bind].
    repeat split; auto. intros k Hk. apply Z.ltb_lt in Hk. rewrite Hk. reflexivity.
  - unfold bibtex_len, bibtex_prefix, bibtex_purify, change_case. rewrite Hs. cbn [bind].
    repeat split; eauto. intros k. destruct (0 <? k)%Z; eauto.
Qed.

(* ------------------------------------------------------------------ substring: negative start = mirror image *)
Lemma mirror_nat {X} (s : list X) a b L : b + L + a = length s ->
  firstn L (skipn b s) = rev (firstn L (skipn a (rev s))).
Proof.
  intros H. rewrite skipn_rev. replace (length s - a) with (b + L) by lia.
  rewrite firstn_rev, rev_involutive, firstn_length.
  replace (Nat.min (b + L) (length s) - L) with b by lia.
  rewrite skipn_firstn_comm. f_equal. lia.
Qed.

Lemma substring_mirror_lemma s k l : (0 < k)%Z ->
  bibtex_substring s (- k) l = rev (bibtex_substring (rev s) k l).
Proof.
  intros Hk. rewrite !substring_spec_lemma. unfold substring_spec. rewrite rev_length. cbv zeta.
  set (n := Z.of_nat (length s)).
  assert (Hn : n = Z.of_nat (length s)) by reflexivity.
  destruct (l <=? 0)%Z eqn:E1; [reflexivity|].
  replace (- k =? 0)%Z with false by (symmetry; apply Z.eqb_neq; lia).
  replace (k =? 0)%Z with false by (symmetry; apply Z.eqb_neq; lia).
  replace (Z.abs (- k)) with k by lia. replace (Z.abs k) with k by lia.
  destruct (n <? k)%Z eqn:E3; cbn [orb]; [reflexivity|].
  replace (0 <? - k)%Z with false by (symmetry; apply Z.ltb_ge; lia).
  replace (0 <? k)%Z with true by (symmetry; apply Z.ltb_lt; lia).
  zb. replace (- - k)%Z with k by lia.
  apply mirror_nat. lia.
Qed.

Lemma firstn_min_length {X} (l : list X) a : firstn (Nat.min a (length l)) l = firstn a l.
Proof.
  destruct (Nat.le_gt_cases a (length l)) as [H|H].
  - rewrite Nat.min_l by exact H. reflexivity.
  - rewrite Nat.min_r by lia. rewrite firstn_all, firstn_all2 by lia. reflexivity.
Qed.

(* positive start: plain 1-based selection, clamped at the end of the string *)
Lemma substring_positive_lemma s start len : (1 <= start)%Z ->
  bibtex_substring s start len = firstn (Z.to_nat len) (skipn (Z.to_nat (start - 1)) s).
Proof.
  intros Hs. rewrite substring_spec_lemma. unfold substring_spec. cbv zeta.
  set (n := Z.of_nat (length s)). assert (Hn : n = Z.of_nat (length s)) by reflexivity.
  replace (start =? 0)%Z with false by (symmetry; apply Z.eqb_neq; lia).
  replace (Z.abs start) with start by lia.
  replace (0 <? start)%Z with true by (symmetry; apply Z.ltb_lt; lia).
  destruct (len <=? 0)%Z eqn:E1; cbn [orb].
  - zb. replace (Z.to_nat len) with 0 by lia. reflexivity.
  - destruct (n <? start)%Z eqn:E3; zb.
    + rewrite skipn_all2 by lia. destruct (Z.to_nat len); reflexivity.
    + rewrite <- (firstn_min_length (skipn _ s) (Z.to_nat len)). f_equal. rewrite skipn_length. lia.
Qed.

(* ------------------------------------------------------------------ what the Spec's text length means *)
Definition count_nonbrace (g : str) : nat := length (filter (fun c => negb (is_brace c)) g).

Lemma text_len_special_go s : forall inner d k, depth_from k inner = Some 0 ->
  text_len_go (inner ++ c_rbrace :: s) d (Some k) = S (text_len_go s 0 None).
Proof.
  induction inner as [|c t IH]; intros d k Hd; cbn [depth_from] in Hd.
  - injection Hd as ->. reflexivity.
  - cbn [app text_len_go]. destruct (N.eqb c c_lbrace); [apply IH; exact Hd|].
    destruct (N.eqb c c_rbrace); [|apply IH; exact Hd].
    destruct k; [discriminate|apply IH; exact Hd].
Qed.

Lemma text_len_group_go s : forall g k, depth_from k g = Some 0 ->
  text_len_go (g ++ c_rbrace :: s) (S k) None = count_nonbrace g + text_len_go s 0 None.
Proof.
  induction g as [|c t IH]; intros k Hd; cbn [depth_from] in Hd.
  - injection Hd as ->. reflexivity.
  - cbn [app text_len_go]. unfold count_nonbrace, is_brace, is_lbrace, is_rbrace. cbn [filter].
    destruct (N.eqb c c_lbrace) eqn:El; cbn [orb negb Nat.eqb andb].
    + apply IH. exact Hd.
    + destruct (N.eqb c c_rbrace) eqn:Er; cbn [negb].
      * destruct k; [discriminate|]. cbn [pred]. apply IH. exact Hd.
      * cbn [length]. rewrite (IH k Hd). reflexivity.
Qed.

Lemma text_len_laws_lemma :
  text_len [] = 0 /\
  (forall c s, is_brace c = false -> text_len (c :: s) = S (text_len s)) /\
  (forall s, text_len (c_rbrace :: s) = text_len s) /\
  (forall inner s, balanced inner ->
     text_len (c_lbrace :: c_bslash :: inner ++ c_rbrace :: s) = S (text_len s)) /\
  (forall g s, balanced g -> bs_head g = false ->
     text_len (c_lbrace :: g ++ c_rbrace :: s) = count_nonbrace g + text_len s).
Proof.
  split; [reflexivity|]. split; [|split; [reflexivity|split]].
  - intros c s H. unfold is_brace, is_lbrace, is_rbrace in H. apply orb_false_elim in H as [El Er].
    unfold text_len. cbn [text_len_go]. rewrite El, Er. reflexivity.
  - intros inner s Hb. unfold text_len. cbn [text_len_go Nat.eqb andb].
    change (N.eqb c_lbrace c_lbrace) with true. change (N.eqb c_bslash c_bslash) with true.
    change (N.eqb c_bslash c_lbrace) with false. change (N.eqb c_bslash c_rbrace) with false. cbv iota.
    apply text_len_special_go. exact Hb.
  - intros g s Hb Hh. unfold text_len. cbn [text_len_go Nat.eqb andb].
    change (N.eqb c_lbrace c_lbrace) with true. cbv iota.
    assert (E : match g ++ c_rbrace :: s with b :: _ => N.eqb b c_bslash | [] => false end = false).
    { destruct g; [reflexivity|exact Hh]. }
    rewrite E. apply text_len_group_go. exact Hb.
Qed.
