(* Proofs/WritersName0.v -- names without a first name: Writer._format_name writes "von Last" (no comma), which
   Person(string) reads in the First-von-Last form (C02). *)
From Pybtex Require Import Base.Prelude Base.PyChar Base.PyStr Model.BibtexStr Model.Names Model.Scanner Model.BibParser Model.Writers
  Proofs.WritersTree Proofs.WritersPerson Proofs.WritersName Proofs.WritersNameList.
Local Open Scope N_scope.

(* expressible without a comma: no first / middle / lineage part; either a single last-name token and no von part,
   or a von part that begins and ends with a von token (then no last-name token but the final one may be a von token) *)
Definition expressible0 (p : person) : Prop :=
  p_first p = [] /\ p_middle p = [] /\ p_lineage p = [] /\
  Forall nplain_tok (p_prelast p) /\ Forall nplain_tok (p_last p) /\
  ((p_prelast p = [] /\ exists z b, p_last p = [z] /\ is_von_name z = Ok b) \/
   (isvon (hd [] (p_prelast p)) /\ isvon (last (p_prelast p) []) /\ p_prelast p <> [] /\ p_last p <> [] /\
    Forall nonvon (removelast (p_last p)))).

Lemma format_name0 p : expressible0 p -> format_name p = part_text (p_prelast p ++ p_last p).
Proof.
  intros (Hf & Hm & Hj & Hv & Hl & Hc). unfold format_name. rewrite Hf, Hm, Hj.
  change (part_text []) with (@nil char). cbn [nonempty orb].
  assert (Hne : p_last p <> []) by (destruct Hc as [(_ & z & b & -> & _)|(_ & _ & _ & H & _)]; [discriminate|exact H]).
  assert (N1 : nonempty (part_text (p_last p)) = true).
  { destruct (part_text (p_last p)) eqn:E; [exfalso; eapply ptext_nonnil; [exact Hl|exact Hne|exact E]|reflexivity]. }
  rewrite N1. now apply jn2.
Qed.

Lemma comma_one (s : str) : s <> [] -> forallb okchar s = true -> starts_nospace s -> ends_nospace s ->
  split_tex_comma s = Ok [s].
Proof.
  intros Hne Hok Hs He. unfold split_tex_comma, split_tex_string_gen.
  rewrite split_loop_nobrace; [|exact Hne|now apply ok_nobrace|apply re_split_nonnil].
  assert (R : re_split sep_comma s = [s]).
  { unfold re_split. pose proof (re_split_comma [] (Forall_nil _) s (ok_nocomma s Hok) (S (length s)) None []) as R.
    cbn [cjoin flat_map] in R. rewrite app_nil_r in R. rewrite R; [reflexivity|lia]. }
  rewrite R. cbn [map]. now rewrite strip_nice.
Qed.

Lemma bibtex_name_roundtrip0_pf p : expressible0 p -> person_of_string (format_name p) = Ok (p, false).
Proof.
  intros E. rewrite (format_name0 p E). destruct E as (Hf & Hm & Hj & Hv & Hl & Hc).
  assert (Hne : p_last p <> []) by (destruct Hc as [(_ & z & b & -> & _)|(_ & _ & _ & H & _)]; [discriminate|exact H]).
  assert (Hvl : Forall nplain_tok (p_prelast p ++ p_last p)) by (apply Forall_app; auto).
  assert (Nvl : p_prelast p ++ p_last p <> []) by (destruct (p_prelast p); [exact Hne|discriminate]).
  set (N := part_text (p_prelast p ++ p_last p)).
  assert (S1 : starts_nospace N) by (now apply ptext_starts).
  assert (S2 : ends_nospace N) by (now apply ptext_ends).
  assert (NN : N <> []) by (now apply ptext_nonnil).
  unfold person_of_string, person_init. rewrite (strip_nice N S1 S2).
  destruct N as [|c0 r0] eqn:EN; [congruence|]. rewrite <- EN in *. clear EN c0 r0.
  unfold parse_string. rewrite (comma_one N NN (ptext_ok _ Hvl) S1 S2). cbn [bind length Nat.ltb Nat.leb]. cbv iota.
  unfold N at 1. rewrite (split_space_plain _ (nplain_plain_toks _ Hvl)). cbn [bind].
  rewrite split_space_nil'. cbn [bind].
  destruct Hc as [(Ev & z & b & El & Hz)|(Hh & Hlast & Hvne & _ & Hnv)].
  - rewrite Ev, El. cbn [app]. unfold split_at. cbn [find_pos]. rewrite Hz. cbn [bind].
    destruct b; cbn [bind find_pos firstn skipn removelast last process_first_middle];
      (unfold process_von_last; cbn [removelast last app bind fst snd empty_person p_first p_middle p_prelast p_last p_lineage];
       destruct p; cbn in *; subst; reflexivity).
  - destruct (p_prelast p) as [|x v'] eqn:EV; [congruence|]. cbn [hd] in Hh. unfold isvon in Hh.
    unfold split_at. cbn [app find_pos]. rewrite Hh. cbn [bind firstn skipn process_first_middle].
    change (x :: v' ++ p_last p) with ((x :: v') ++ p_last p).
    pose proof (von_last_ok (x :: v') (p_last p) Hne (or_intror Hlast) Hnv) as VL. unfold str, char in *. rewrite VL. cbn [bind].
    rewrite !app_nil_r. destruct p; cbn in *; subst; reflexivity.
Qed.

(* a name without a first name is an instance of the general name domain of Proofs/WritersNameList.v *)
Lemma name_ok0_x p : expressible0 p -> Forall noand_tok (p_prelast p ++ p_last p) -> name_okx p.
Proof.
  intros E Ha. split; [|now apply bibtex_name_roundtrip0_pf].
  rewrite (format_name0 p E). destruct E as (_ & _ & _ & Hv & Hl & Hc).
  exists (p_prelast p ++ p_last p). split; [reflexivity|]. split.
  - assert (Hvl : Forall nplain_tok (p_prelast p ++ p_last p)) by (apply Forall_app; auto).
    clear -Hvl Ha. induction (p_prelast p ++ p_last p) as [|t r IH]; [constructor|].
    inversion Hvl; inversion Ha; subst. constructor; [now apply tok_gw|auto].
  - destruct Hc as [(_ & z & b & El & _)|(_ & _ & _ & H & _)].
    + rewrite El. destruct (p_prelast p); discriminate.
    + destruct (p_prelast p); [exact H|discriminate].
Qed.

(* plain-token names also survive the part-wise spelling of the YAML / BibTeXML writers *)
Lemma expressible_parts_ok p : expressible p -> parts_ok p.
Proof.
  intros (Hf & Hm & Hv & Hl & Hj & _). apply person_parts_plain_pf.
  repeat split; now apply nplain_plain_toks.
Qed.
Lemma expressible0_parts_ok p : expressible0 p -> parts_ok p.
Proof.
  intros (Ef & Em & Ej & Hv & Hl & _). apply person_parts_plain_pf. unfold plain_person. rewrite Ef, Em, Ej.
  repeat split; try constructor; now apply nplain_plain_toks.
Qed.
