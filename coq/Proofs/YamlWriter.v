(* Proofs/YamlWriter.v -- the YAML writer: to_bytes is the to_string document encoded in UTF-8,
   whatever encoding was asked for (finding FC17a). *)
From Pybtex Require Import Base.Prelude Base.PyChar Base.PyStr Model.Plugins Model.IO Model.EntryPoints Model.YamlWriter.

Definition encode_with (cd : codec) (r : res str) : res str :=
  do t <- r; match enc cd t with Some b => Ok b | None => Crash end.

(* strongest true variant: UTF-8, always *)
Lemma yaml_to_bytes_partial wd (dump_text dump_utf8 : wd -> res str) d :
  dump_consistent dump_text dump_utf8 ->
  yaml_to_bytes wd dump_utf8 d = encode_with codec_utf8 (yaml_to_string wd dump_text d).
Proof. intros H. unfold yaml_to_bytes, yaml_to_string, encode_with. apply H. Qed.

(* the statement of the property ("to_bytes is the to_string document encoded" in the writer's
   encoding) is false of the YAML writer for an encoding other than UTF-8 *)
Lemma yaml_to_bytes_refuted :
  exists (dump_text dump_utf8 : str -> res str) cd d,
    dump_consistent dump_text dump_utf8 /\
    (exists b, enc cd d = Some b) /\
    yaml_to_bytes str dump_utf8 d <> encode_with cd (yaml_to_string str dump_text d).
Proof.
  exists (fun d => Ok d), (fun d => match enc codec_utf8 d with Some b => Ok b | None => Crash end),
         codec_latin1, [233%N].
  split; [intros d; reflexivity|]. split; [eexists; reflexivity|]. vm_compute. discriminate.
Qed.

(* writing to a file writes exactly the to_bytes bytes (also for the YAML writer) *)
Lemma yaml_write_file_writes_to_bytes wd (dump_utf8 : wd -> res str) cd d :
  yaml_write_file wd dump_utf8 cd d WOpened
  = (do b <- yaml_to_bytes wd dump_utf8 d; Ok (None, Some (SBytes b))).
Proof.
  unfold yaml_write_file, write_file, yaml_write_stream, yaml_to_bytes.
  destruct (dump_utf8 d); cbn; try reflexivity. now rewrite app_nil_r.
Qed.
