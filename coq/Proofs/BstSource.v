(* Proofs/BstSource.v -- the comment / line-end layer of parse_string:
   text_of_string of a printed source (gaps with %-comments and any line ends) is a printed text
   with whitespace gaps; with Proofs/BstRoundtrip this gives the round trip through parse_string. *)
From Pybtex Require Import Base.Prelude Base.PyChar Base.PyStr Model.BstParser Spec.BstPrint
  Proofs.BstLex Proofs.BstRoundtrip Proofs.BstErrors.
Local Open Scope N_scope.

(* ---- str.splitlines on concatenations *)
Lemma splitlines_nil s : splitlines s = [] -> s = [].
Proof.
  destruct s as [|c t]; [reflexivity|]. cbn [splitlines].
  destruct (is_linebreak c); [discriminate|]. destruct (splitlines t); discriminate.
Qed.

Lemma splitlines_prefix a b : no_linebreak a = true ->
  splitlines (a ++ b) = match splitlines b with
                        | [] => match a with [] => [] | _ => [a] end
                        | l :: ls => (a ++ l) :: ls
                        end.
Proof.
  induction a as [|c a IH]; intros Ha.
  - cbn [app]. destruct (splitlines b); reflexivity.
  - unfold no_linebreak in Ha. cbn [forallb] in Ha. apply andb_prop in Ha as [Hc Ha]. apply negb_true_iff in Hc.
    cbn [app splitlines]. rewrite Hc. rewrite (IH Ha).
    destruct (splitlines b) as [|l ls]; [|reflexivity]. destruct a; reflexivity.
Qed.

Definition no_lf_head (b : str) : Prop := match b with c :: _ => (c =? 10) = false | [] => True end.
Definition cr_safe (k : brk) (b : str) : Prop := match k with BrCR => no_lf_head b | _ => True end.

Lemma splitlines_brk k b : brk_okb k = true -> cr_safe k b -> splitlines (brk_text k ++ b) = [] :: splitlines b.
Proof.
  destruct k as [| |c]; cbn [brk_okb brk_text app splitlines cr_safe].
  - intros _ _. reflexivity.
  - intros _ Hb. change (is_linebreak 13) with true. change (13 =? 13) with true. cbn iota.
    destruct b as [|d b']; [reflexivity|]. cbn [no_lf_head] in Hb. rewrite Hb. reflexivity.
  - intros H _. apply andb_prop in H as [H1 H2]. apply negb_true_iff in H2. rewrite H1, H2. reflexivity.
Qed.

(* ---- strip_comment on concatenations *)
Definition cplain (c : char) : bool := negb (c =? c_percent) && negb (c =? c_quote).
Lemma strip_go_plain a inq l : forallb cplain a = true ->
  strip_comment_go inq (a ++ l) = a ++ strip_comment_go inq l.
Proof.
  induction a as [|c a IH]; cbn [forallb app]; intros H; [reflexivity|].
  apply andb_prop in H as [Hc Ha]. unfold cplain in Hc. apply andb_prop in Hc as [H1 H2].
  apply negb_true_iff in H1, H2. cbn [strip_comment_go]. rewrite H1, H2. cbn [andb]. now rewrite IH.
Qed.
Lemma strip_go_instring s l : forallb not_quote s = true ->
  strip_comment_go true (s ++ l) = s ++ strip_comment_go true l.
Proof.
  induction s as [|c s IH]; cbn [forallb app]; intros H; [reflexivity|].
  apply andb_prop in H as [Hc Hs]. unfold not_quote in Hc. apply negb_true_iff in Hc.
  cbn [strip_comment_go]. rewrite Hc, andb_false_r. now rewrite IH.
Qed.

Definition transparent (a : str) : Prop := forall l, strip_comment (a ++ l) = a ++ strip_comment l.

Lemma transparent_plain a : forallb cplain a = true -> transparent a.
Proof. intros H l. unfold strip_comment. now apply strip_go_plain. Qed.
Lemma transparent_string s : forallb not_quote s = true -> transparent (ltok_text (LStr s)).
Proof.
  intros H l. unfold strip_comment. cbn [ltok_text app strip_comment_go].
  change (c_quote =? c_percent) with false. change (c_quote =? c_quote) with true. cbn [andb negb].
  rewrite <- app_assoc. rewrite (strip_go_instring s _ H). cbn [app strip_comment_go].
  change (c_quote =? c_percent) with false. change (c_quote =? c_quote) with true. cbn [andb negb].
  rewrite <- app_assoc. reflexivity.
Qed.

(* ---- join *)
Lemma join_prefix (a x : str) r : join [c_nl] ((a ++ x) :: r) = a ++ join [c_nl] (x :: r).
Proof. destruct r; cbn [join]; [reflexivity|]. now rewrite <- app_assoc. Qed.

(* ---- text_of_string on concatenations *)
Lemma text_prefix a b : no_linebreak a = true -> transparent a ->
  text_of_string (a ++ b) = a ++ text_of_string b.
Proof.
  intros Ha Ht. unfold text_of_string. rewrite (splitlines_prefix a b Ha).
  destruct (splitlines b) as [|l ls] eqn:E.
  - cbn [map join]. rewrite app_nil_r. destruct a as [|c a]; [reflexivity|].
    cbn [map join]. specialize (Ht []). rewrite app_nil_r in Ht. rewrite Ht. cbn. now rewrite app_nil_r.
  - cbn [map]. rewrite Ht. apply join_prefix.
Qed.

Lemma text_brk k b : brk_okb k = true -> cr_safe k b ->
  text_of_string (brk_text k ++ b) = match b with [] => [] | _ => c_nl :: text_of_string b end.
Proof.
  intros Hk Hs. unfold text_of_string. rewrite (splitlines_brk k b Hk Hs). cbn [map].
  destruct (splitlines b) as [|l ls] eqn:E.
  - apply splitlines_nil in E. subst b. reflexivity.
  - destruct b as [|c b]; [discriminate|]. reflexivity.
Qed.

Lemma text_comment cm k b : no_linebreak cm = true -> brk_okb k = true -> cr_safe k b ->
  text_of_string (c_percent :: cm ++ brk_text k ++ b) = text_of_string (brk_text k ++ b).
Proof.
  intros Hcm Hk Hs. unfold text_of_string.
  change (c_percent :: cm ++ brk_text k ++ b) with ((c_percent :: cm) ++ brk_text k ++ b).
  rewrite (splitlines_prefix (c_percent :: cm)).
  2:{ unfold no_linebreak in *. cbn [forallb]. now rewrite Hcm. }
  rewrite (splitlines_brk k b Hk Hs). cbn [map app]. reflexivity.
Qed.

(* ---- a gap *)
Lemma linebreak_is_space c : is_linebreak c = true -> is_space c = true.
Proof.
  unfold is_linebreak, is_space. intros H.
  repeat (apply orb_true_iff in H; destruct H as [H|H]); rewrite ?H; rewrite ?orb_true_r; try reflexivity.
  - apply andb_prop in H as [H1 H2]. apply N.leb_le in H1, H2.
    assert (E : (9 <=? c) && (c <=? 13) = true) by (apply andb_true_intro; split; apply N.leb_le; lia).
    rewrite E. reflexivity.
  - apply andb_prop in H as [H1 H2]. apply N.leb_le in H1, H2.
    assert (E : (28 <=? c) && (c <=? 32) = true) by (apply andb_true_intro; split; apply N.leb_le; lia).
    rewrite E. rewrite ?orb_true_r. reflexivity.
Qed.

Lemma starts_lf_head r X : starts_lf r = false -> no_lf_head X -> forallb gitem_okb r = true ->
  no_lf_head (flat_map gitem_text r ++ X).
Proof.
  destruct r as [|i r']; cbn [flat_map app]; [auto|]. intros Hs _ Hok.
  cbn [forallb] in Hok. apply andb_prop in Hok as [Hi _].
  destruct i as [c|k|cm k]; cbn [gitem_text gitem_okb starts_lf] in *.
  - cbn [app no_lf_head]. apply andb_prop in Hi as [_ Hl]. apply negb_true_iff in Hl.
    destruct (c =? 10) eqn:E; [|reflexivity]. apply N.eqb_eq in E. subst c. discriminate.
  - destruct k as [| |c]; cbn [brk_text app no_lf_head]; try reflexivity. exact Hs.
  - reflexivity.
Qed.

Lemma text_gap : forall items X, forallb gitem_okb items = true -> cr_okb items = true -> no_lf_head X ->
  exists g', forallb is_space g' = true /\
    text_of_string (sgap_text items ++ X) = g' ++ text_of_string X /\
    (items <> [] -> X <> [] -> g' <> []).
Proof.
  induction items as [|i r IH]; intros X Hok Hcr HX.
  - exists []. cbn. split; [reflexivity|]. split; [reflexivity|]. intros H; congruence.
  - cbn [forallb] in Hok. apply andb_prop in Hok as [Hi Hr].
    cbn [cr_okb] in Hcr. apply andb_prop in Hcr as [Hcr1 Hcr2]. apply negb_true_iff in Hcr1.
    destruct (IH X Hr Hcr2 HX) as (gr & Hgr & Heq & Hne).
    unfold sgap_text in *. cbn [flat_map]. rewrite <- app_assoc.
    set (Y := flat_map gitem_text r ++ X) in *.
    assert (HY : Y = [] -> X = []) by (unfold Y; intros H; apply app_eq_nil in H; tauto).
    assert (Hsafe : forall k, ends_cr i = false \/ k <> BrCR \/ starts_lf r = false -> (k = BrCR -> ends_cr i = true) -> cr_safe k Y).
    { intros k Hk Hki. destruct k; cbn [cr_safe]; auto.
      unfold Y. apply starts_lf_head; [|exact HX|exact Hr].
      specialize (Hki eq_refl). rewrite Hki in Hcr1. cbn [andb] in Hcr1. exact Hcr1. }
    assert (Hbrk : forall k, brk_okb k = true -> cr_safe k Y ->
       exists g', forallb is_space g' = true /\ text_of_string (brk_text k ++ Y) = g' ++ text_of_string X /\
                  (X <> [] -> g' <> [])).
    { intros k Hk Hs. rewrite (text_brk k Y Hk Hs). destruct Y as [|y Y'] eqn:EY.
      - exists []. split; [reflexivity|]. rewrite (HY eq_refl). split; [reflexivity|]. intros H; congruence.
      - exists (c_nl :: gr). split; [cbn [forallb]; rewrite Hgr; reflexivity|].
        split; [rewrite Heq; reflexivity|]. intros _; discriminate. }
    destruct i as [c|k|cm k]; cbn [gitem_okb gitem_text] in *.
    + apply andb_prop in Hi as [Hs Hl]. apply negb_true_iff in Hl.
      exists (c :: gr). split; [cbn [forallb]; now rewrite Hs, Hgr|].
      split; [|intros _ _; discriminate].
      rewrite (text_prefix [c] Y).
      * rewrite Heq. reflexivity.
      * unfold no_linebreak. cbn [forallb]. now rewrite Hl.
      * apply transparent_plain. cbn [forallb]. rewrite andb_true_r. unfold cplain.
        apply andb_true_intro; split; apply negb_true_iff.
        -- destruct (c =? c_percent) eqn:E; [|reflexivity]. apply N.eqb_eq in E. subst c. discriminate.
        -- destruct (c =? c_quote) eqn:E; [|reflexivity]. apply N.eqb_eq in E. subst c. discriminate.
    + assert (Hs : cr_safe k Y).
      { apply Hsafe; [destruct k; cbn [ends_cr] in *; auto; right; left; discriminate|intros ->; reflexivity]. }
      destruct (Hbrk k Hi Hs) as (g' & H1 & H2 & H3). exists g'. split; [exact H1|]. split; [exact H2|]. intros _; exact H3.
    + apply andb_prop in Hi as [Hcm Hk].
      assert (Hs : cr_safe k Y).
      { apply Hsafe; [destruct k; cbn [ends_cr] in *; auto; right; left; discriminate|intros ->; reflexivity]. }
      destruct (Hbrk k Hk Hs) as (g' & H1 & H2 & H3). exists g'. split; [exact H1|]. split; [|intros _; exact H3].
      cbn [app]. rewrite <- app_assoc. rewrite (text_comment cm k Y Hcm Hk Hs). exact H2.
Qed.

(* ---- printed tokens: on one line and transparent for strip_comment *)
Definition src_ltok (t : ltok) : Prop :=
  match t with
  | LName s => no_percent s = true
  | LStr s => no_linebreak s = true
  | _ => True
  end.
Definition ltok_ok (t : ltok) : Prop := wf_ltok t /\ src_ltok t.

Lemma name_char_not_break c : is_name_char c = true -> negb (is_linebreak c) = true.
Proof.
  intros H. apply negb_true_iff. destruct (is_linebreak c) eqn:E; [|reflexivity].
  apply linebreak_is_space in E. apply name_char_not_space in H. congruence.
Qed.
Lemma name_char_not_quote c : is_name_char c = true -> negb (c =? c_quote) = true.
Proof.
  unfold is_name_char. intros H. apply negb_true_iff in H.
  repeat (apply orb_false_iff in H; destruct H as [H ?]). now apply negb_true_iff.
Qed.

Lemma ltok_src_facts t : ltok_ok t -> no_linebreak (ltok_text t) = true /\ transparent (ltok_text t).
Proof.
  intros [Hwf Hsrc]. destruct t as [s|s|z| |]; cbn [wf_ltok src_ltok ltok_text] in *.
  - destruct Hwf as [_ Hall]. split.
    + unfold no_linebreak. revert Hall. apply forallb_impl. exact name_char_not_break.
    + apply transparent_plain. unfold no_percent in Hsrc.
      clear - Hall Hsrc. induction s as [|c s IH]; [reflexivity|].
      cbn [forallb] in *. apply andb_prop in Hall as [H1 H2]. apply andb_prop in Hsrc as [H3 H4].
      rewrite (IH H2 H4), andb_true_r. unfold cplain. rewrite H3. cbn [andb]. now apply name_char_not_quote.
  - split; [|now apply transparent_string].
    unfold no_linebreak in *. cbn [forallb]. rewrite forallb_app, Hsrc. reflexivity.
  - destruct (N_digits_spec (Z.abs_N z)) as (_ & Hall & _). unfold int_text.
    assert (Hd1 : forallb (fun c => negb (is_linebreak c)) (N_digits (Z.abs_N z)) = true).
    { revert Hall. apply forallb_impl. intros c Hc. apply name_char_not_break. now apply digit_is_name_char. }
    assert (Hd2 : forallb cplain (N_digits (Z.abs_N z)) = true).
    { revert Hall. apply forallb_impl. intros c Hc. apply digit_cases in Hc.
      repeat (destruct Hc as [->|Hc]; [reflexivity|]). subst; reflexivity. }
    split.
    + unfold no_linebreak. cbn [forallb]. rewrite forallb_app, Hd1. destruct (Z.ltb z 0); reflexivity.
    + apply transparent_plain. cbn [forallb]. rewrite forallb_app, Hd2. destruct (Z.ltb z 0); reflexivity.
  - split; [reflexivity|apply transparent_plain; reflexivity].
  - split; [reflexivity|apply transparent_plain; reflexivity].
Qed.

(* ---- a woven source *)
Lemma weave_s_cons gs t ts :
  weave (map sgap_text gs) (t :: ts) = sgap_text (sgap_hd gs) ++ ltok_text t ++ weave (map sgap_text (tl gs)) ts.
Proof. destruct gs as [|g gs']; reflexivity. Qed.

Lemma text_weave : forall ts gs prev, Forall ltok_ok ts -> slayout_okb prev gs ts = true ->
  exists gs', text_of_string (weave (map sgap_text gs) ts) = weave gs' ts /\ layout_okb prev gs' ts = true.
Proof.
  induction ts as [|t ts IH]; intros gs prev Hts Hlay.
  - cbn [slayout_okb] in Hlay. cbn [weave].
    destruct gs as [|g gs0]; cbn [map].
    + exists []. split; reflexivity.
    + apply andb_prop in Hlay as [Hlay Hcr].
      destruct (text_gap g [] Hlay Hcr I) as (g' & Hg' & Heq & _).
      rewrite app_nil_r in Heq. exists [g']. cbn [weave layout_okb]. split; [|exact Hg'].
      rewrite Heq. change (text_of_string []) with (@nil char). apply app_nil_r.
  - inversion Hts as [|? ? Ht Hts']; subst.
    cbn [slayout_okb] in Hlay. apply andb_prop in Hlay as [Hlay Hrest]. apply andb_prop in Hlay as [Hgap Hneed].
    apply andb_prop in Hgap as [Hgap Hcr].
    destruct (ltok_src_facts t Ht) as [Hnb Htr].
    destruct (IH (tl gs) (Some t) Hts' Hrest) as (gs'' & Heq2 & Hlay2).
    rewrite weave_s_cons.
    assert (HX : ltok_text t ++ weave (map sgap_text (tl gs)) ts <> []).
    { destruct (ltok_text_head t (proj1 Ht)) as (c & r & -> & _). discriminate. }
    assert (HX2 : no_lf_head (ltok_text t ++ weave (map sgap_text (tl gs)) ts)).
    { destruct (ltok_text_head t (proj1 Ht)) as (c & r & -> & Hc). cbn [app no_lf_head].
      destruct (c =? 10) eqn:E; [|reflexivity]. apply N.eqb_eq in E. subst c. discriminate. }
    destruct (text_gap (sgap_hd gs) (ltok_text t ++ weave (map sgap_text (tl gs)) ts) Hgap Hcr HX2) as (g' & Hg' & Heq & Hne).
    rewrite Heq, (text_prefix _ _ Hnb Htr), Heq2.
    exists (g' :: gs''). split; [reflexivity|].
    cbn [layout_okb gap_hd tl]. rewrite Hg', Hlay2, andb_true_r. cbn [andb].
    destruct (needs_gap prev t) eqn:En; [|reflexivity]. cbn [negb orb] in *.
    destruct (sgap_hd gs) as [|i r] eqn:Eg; [discriminate|].
    destruct g' as [|c g'']; [exfalso; apply Hne; [discriminate|exact HX|reflexivity]|reflexivity].
Qed.

(* ---- from programs to token lists *)
Lemma flat_items_ok : forall n items, (items_size items <= n)%nat ->
  forallb wf_tokb items = true -> forallb src_tokb items = true -> Forall ltok_ok (flat_items items).
Proof.
  induction n as [|n IH]; intros items Hsize Hwf Hsrc.
  - destruct items as [|t more]; [constructor|].
    exfalso. rewrite items_size_cons in Hsize. destruct t; cbn [tok_size] in Hsize; lia.
  - destruct items as [|t more]; [constructor|].
    cbn [forallb] in Hwf, Hsrc. apply andb_prop in Hwf as [Hwt Hwm]. apply andb_prop in Hsrc as [Hst Hsm].
    rewrite items_size_cons in Hsize.
    assert (Hszt : (1 <= tok_size t)%nat) by (destruct t; cbn; lia).
    assert (Hmore : Forall ltok_ok (flat_items more)) by (apply IH; [lia|assumption|assumption]).
    unfold flat_items in *. cbn [flat_map]. apply Forall_app. split; [|exact Hmore].
    destruct t as [z|s|s|s|b]; cbn [flat_tok wf_tokb src_tokb] in *.
    + constructor; [|constructor]. split; [apply Z.leb_le; exact Hwt|exact I].
    + constructor; [|constructor]. split; [exact Hwt|exact Hst].
    + constructor; [|constructor]. split.
      * split; [discriminate|]. cbn [forallb]. now rewrite Hwt.
      * cbn [src_ltok]. unfold no_percent in *. cbn [forallb]. now rewrite Hst.
    + apply andb_prop in Hwt as [H1 _]. constructor; [|constructor]. split; [now apply wf_nameb_wf|exact Hst].
    + constructor; [split; exact I|]. apply Forall_app. split.
      * apply IH; [cbn [tok_size] in Hsize; fold (items_size b) in Hsize; lia|assumption|assumption].
      * constructor; [split; exact I|constructor].
Qed.

Lemma flat_program_ok p : wf_programb p = true -> src_programb p = true -> Forall ltok_ok (flat_program p).
Proof.
  induction p as [|c more IH]; intros Hwf Hsrc; [constructor|].
  cbn [wf_programb src_programb forallb] in *.
  apply andb_prop in Hwf as [Hwc Hwm]. apply andb_prop in Hsrc as [Hsc Hsm].
  unfold flat_program in *. cbn [flat_map]. apply Forall_app. split; [|now apply IH].
  destruct (wf_command_parts c Hwc) as (Hname & _ & Hgroups).
  apply andb_prop in Hsc as [Hnp Hsg].
  destruct c as [name groups]. unfold flat_command. cbn [fst snd] in *.
  constructor; [split; [exact Hname|exact Hnp]|].
  clear - Hgroups Hsg. induction groups as [|g gs IH]; [constructor|].
  cbn [forallb] in *. apply andb_prop in Hgroups as [H1 H2]. apply andb_prop in Hsg as [H3 H4].
  cbn [flat_map]. apply Forall_app. split; [|now apply IH].
  unfold flat_group. constructor; [split; exact I|]. apply Forall_app. split.
  - apply (flat_items_ok (items_size g) g (le_n _) H1 H3).
  - constructor; [split; exact I|constructor].
Qed.

(* ---- the round trip through parse_string: comments, every kind of line end *)
Theorem bst_roundtrip : forall p gs,
  wf_programb p = true -> src_programb p = true -> slayout_okb None gs (flat_program p) = true ->
  parse_string (print_bst (map sgap_text gs) p) = Ok p.
Proof.
  intros p gs Hwf Hsrc Hlay. unfold parse_string, print_bst.
  destruct (text_weave (flat_program p) gs None (flat_program_ok p Hwf Hsrc) Hlay) as (gs' & Heq & Hlay').
  rewrite Heq. apply (text_roundtrip p gs' Hwf Hlay').
Qed.
