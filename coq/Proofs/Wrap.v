From Pybtex Require Import Base.Prelude Base.PyChar Base.PyStr Model.Wrap.
From Coq Require Import Sorting.Sorted.

Lemma ws_positions_spec s : forall i p, In p (ws_positions s i) ->
  i <= p < i + length s /\ (exists c, nth_error s (p - i) = Some c /\ is_space c = true).
Proof.
  induction s as [|c s IH]; intros i p; cbn; [tauto|].
  destruct (is_space c) eqn:E.
  - intros [<-|H].
    + split; [lia|]. exists c. rewrite Nat.sub_diag. auto.
    + apply IH in H as [H1 [c' [H2 H3]]]. split; [lia|]. exists c'.
      replace (p - i) with (S (p - S i)) by lia. auto.
  - intros H. apply IH in H as [H1 [c' [H2 H3]]]. split; [lia|]. exists c'.
    replace (p - i) with (S (p - S i)) by lia. auto.
Qed.

Lemma ws_positions_complete s : forall i k c, nth_error s k = Some c -> is_space c = true ->
  In (i + k) (ws_positions s i).
Proof.
  induction s as [|d s IH]; intros i k c; [destruct k; discriminate|].
  destruct k as [|k]; cbn.
  - intros [= ->] ->. left. lia.
  - intros H1 H2. replace (i + S k) with (S i + k) by lia.
    destruct (is_space d); [right|]; eapply IH; eauto.
Qed.

Lemma ws_positions_sorted s : forall i, StronglySorted lt (ws_positions s i).
Proof.
  induction s as [|c s IH]; intros i; cbn; [constructor|].
  destruct (is_space c); [|apply IH].
  constructor; [apply IH|]. apply Forall_forall. intros p H.
  apply ws_positions_spec in H. lia.
Qed.

Lemma find_break_spec ps w m p : find_break ps w m = Some p -> In p ps /\ m < p.
Proof.
  induction ps as [|q rest IH]; cbn [find_break]; [discriminate|].
  match goal with |- context [if ?b then _ else _] => destruct b eqn:E end.
  - intros [= <-]. apply andb_prop in E as [_ E]. apply Nat.ltb_lt in E. split; [left; reflexivity|exact E].
  - intros H. apply IH in H. cbn [In]. tauto.
Qed.

(* a break beyond the width is only taken when no whitespace in (minw, width] exists *)
Lemma find_break_beyond ps w m b : StronglySorted lt ps -> find_break ps w m = Some b -> w < b ->
  forall p, In p ps -> m < p -> p <= w -> False.
Proof.
  induction ps as [|p0 rest IH]; intros Hs; cbn [find_break]; [discriminate|].
  inversion Hs as [|? ? Hs' Hall]; subst. rewrite Forall_forall in Hall.
  match goal with |- context [if ?b then _ else _] => destruct b eqn:E end.
  - intros [= <-] Hw p [<-|Hin] Hm Hp; [lia|]. apply Hall in Hin. lia.
  - intros Hf Hw p [<-|Hin] Hm Hp.
    + assert (Em : Nat.ltb m p0 = true) by (apply Nat.ltb_lt; lia).
      rewrite Em, andb_true_r in E. destruct rest as [|q rest']; [discriminate|].
      apply Nat.ltb_ge in E. eapply (IH Hs' Hf Hw q); [left; reflexivity| |lia].
      specialize (Hall q (or_introl eq_refl)). lia.
    + eapply IH; eauto.
Qed.

(* stronger: a break beyond the width is only taken when there is no whitespace at all
   between the indent and the break *)
Lemma find_break_beyond_strong ps w m b : StronglySorted lt ps -> find_break ps w m = Some b -> w < b ->
  forall p, In p ps -> m < p -> p < b -> False.
Proof.
  induction ps as [|p0 rest IH]; intros Hs; cbn [find_break]; [discriminate|].
  inversion Hs as [|? ? Hs' Hall]; subst. rewrite Forall_forall in Hall.
  match goal with |- context [if ?b then _ else _] => destruct b eqn:E end.
  - intros [= <-] Hw p [<-|Hin] Hm Hp; [lia|]. apply Hall in Hin. lia.
  - intros Hf Hw p [<-|Hin] Hm Hp.
    + assert (Em : Nat.ltb m p0 = true) by (apply Nat.ltb_lt; lia).
      rewrite Em, andb_true_r in E. destruct rest as [|q rest']; [discriminate|].
      apply Nat.ltb_ge in E. eapply (IH Hs' Hf Hw q); [left; reflexivity| |lia].
      specialize (Hall q (or_introl eq_refl)). lia.
    + eapply IH; eauto.
Qed.

Lemma find_break_none ps w m : StronglySorted lt ps -> find_break ps w m = None ->
  forall p, In p ps -> p <= m.
Proof.
  induction ps as [|p0 rest IH]; intros Hs; cbn [find_break In]; [tauto|].
  inversion Hs as [|? ? Hs' Hall]; subst. rewrite Forall_forall in Hall.
  match goal with |- context [if ?b then _ else _] => destruct b eqn:E end; [discriminate|].
  intros Hf p [<-|Hin]; [|eauto].
  destruct rest as [|q rest'].
  - cbn in E. apply Nat.ltb_ge in E. lia.
  - specialize (IH Hs' Hf q (or_introl eq_refl)). specialize (Hall q (or_introl eq_refl)). lia.
Qed.

Lemma split_at_space s b c : nth_error s b = Some c -> is_space c = true ->
  nonspace s = nonspace (firstn b s) ++ nonspace (skipn (S b) s).
Proof.
  revert b; induction s as [|d s IH]; intros b; [destruct b; discriminate|].
  destruct b as [|b]; cbn.
  - intros [= ->] ->. reflexivity.
  - intros H1 H2. destruct (is_space d); cbn; [|f_equal]; eapply IH; eauto.
Qed.

Lemma split_at (s : str) b c : nth_error s b = Some c -> s = firstn b s ++ c :: skipn (S b) s.
Proof.
  revert b; induction s as [|d s IH]; intros b; [destruct b; discriminate|].
  destruct b as [|b]; cbn; [intros [= ->]; reflexivity|]. intros H. f_equal. exact (IH b H).
Qed.

(* ---- content ---- *)
Theorem iter_lines_content fuel : forall s w ind ls, forallb is_space ind = true ->
  iter_lines fuel s w ind = Some ls -> nonspace (concat ls) = nonspace s.
Proof.
  induction fuel as [|f IH]; intros s w ind ls Hind; cbn [iter_lines]; [discriminate|].
  destruct (Nat.ltb w (length s)).
  - destruct (find_break _ _ _) as [b|] eqn:Eb.
    + destruct (iter_lines f _ w ind) as [ls'|] eqn:Er; [|discriminate].
      intros [= <-]. cbn [concat]. rewrite nonspace_app.
      apply IH in Er; auto. rewrite Er, nonspace_app, (nonspace_all_space ind Hind). cbn.
      apply find_break_spec in Eb as [Hin _]. apply ws_positions_spec in Hin as [_ [c [H1 H2]]].
      rewrite Nat.sub_0_r in H1. symmetry. eapply split_at_space; eauto.
    + intros [= <-]. cbn. now rewrite app_nil_r.
  - intros [= <-]. destruct s; cbn; auto. now rewrite app_nil_r.
Qed.

Lemma nonspace_concat_rstrip ls : nonspace (concat (map rstrip ls)) = nonspace (concat ls).
Proof.
  induction ls as [|l ls IH]; cbn; [reflexivity|].
  now rewrite !nonspace_app, rstrip_nonspace, IH.
Qed.

Lemma wrap_lines_content s w ind ls : forallb is_space ind = true ->
  wrap_lines s w ind = Some ls -> nonspace (concat ls) = nonspace s.
Proof.
  unfold wrap_lines. intros Hind. destruct (iter_lines _ _ _ _) as [ls'|] eqn:E; [|discriminate].
  intros [= <-]. rewrite nonspace_concat_rstrip. eapply iter_lines_content; eauto.
Qed.

(* ---- totality ---- *)
Theorem iter_lines_total fuel : forall s w ind, length s < fuel -> iter_lines fuel s w ind <> None.
Proof.
  induction fuel as [|f IH]; intros s w ind Hl; [lia|]. cbn [iter_lines].
  destruct (Nat.ltb w (length s)); [|destruct s; discriminate].
  destruct (find_break _ _ _) as [b|] eqn:Eb; [|discriminate].
  apply find_break_spec in Eb as [Hin Hm]. apply ws_positions_spec in Hin as [Hr _].
  specialize (IH (ind ++ skipn (S b) s) w ind).
  destruct (iter_lines f _ w ind); [discriminate|]. exfalso. apply IH; auto.
  rewrite app_length, skipn_length. lia.
Qed.

Lemma wrap_total s w ind : exists out, wrap s w ind = Ok out.
Proof.
  unfold wrap, wrap_lines.
  destruct (iter_lines (S (length s)) s w ind) eqn:E.
  - cbn. eauto.
  - exfalso. eapply iter_lines_total; [|exact E]. lia.
Qed.

(* ---- re-assembly: breaks only at whitespace, one whitespace character per break,
        continuation lines carry exactly the indent ---- *)
Fixpoint rejoin (n : nat) (ls : list str) (seps : str) : str :=
  match ls with
  | [] => []
  | l :: rest =>
    match rest, seps with
    | [], _ => l
    | _, [] => l
    | _, c :: seps' => l ++ c :: skipn n (rejoin n rest seps')
    end
  end.

Lemma skipn_app_exact {X} (a b : list X) : skipn (length a) (a ++ b) = b.
Proof. induction a; cbn; auto. Qed.

Lemma rejoin_cons n l l2 rest c seps :
  rejoin n (l :: l2 :: rest) (c :: seps) = l ++ c :: skipn n (rejoin n (l2 :: rest) seps).
Proof. reflexivity. Qed.

Lemma iter_lines_nil fuel s w ind : iter_lines fuel s w ind = Some [] -> s = [].
Proof.
  destruct fuel as [|f]; cbn [iter_lines]; [discriminate|].
  destruct (Nat.ltb w (length s)).
  - destruct (find_break _ _ _); [destruct (iter_lines f _ _ _)|]; discriminate.
  - destruct s; [reflexivity|discriminate].
Qed.

(* The text is the lines glued back together: each break replaced one whitespace
   character (seps) and inserted exactly the indent.  The only character that can
   disappear altogether is a single trailing whitespace character, and only when the
   indent is empty (tail). *)
Theorem iter_lines_reassemble fuel : forall s w ind ls,
  iter_lines fuel s w ind = Some ls ->
  exists seps tail, length seps = pred (length ls) /\ forallb is_space (seps ++ tail) = true
               /\ rejoin (length ind) ls seps ++ tail = s
               /\ length tail <= 1 /\ (ind <> [] -> tail = []).
Proof.
  induction fuel as [|f IH]; intros s w ind ls; cbn [iter_lines]; [discriminate|].
  destruct (Nat.ltb w (length s)) eqn:Ew.
  - destruct (find_break _ _ _) as [b|] eqn:Eb.
    + destruct (iter_lines f _ w ind) as [ls'|] eqn:Er; [|discriminate].
      intros [= <-].
      pose proof Er as Er0.
      apply IH in Er as [seps [tl [H1 [H2 [H3 [H4 H5]]]]]].
      apply find_break_spec in Eb as [Hin Hm]. apply ws_positions_spec in Hin as [Hr [c [Hc1 Hc2]]].
      rewrite Nat.sub_0_r in Hc1.
      destruct ls' as [|l1 ls''].
      * apply iter_lines_nil in Er0. apply app_eq_nil in Er0 as [E1 E2].
        exists [], [c]. cbn [app length pred forallb rejoin]. rewrite Hc2.
        repeat split; auto.
        -- rewrite (split_at s b c Hc1) at 2. rewrite E2. reflexivity.
        -- intros Hne; contradiction.
      * exists (c :: seps), tl. rewrite rejoin_cons. cbn [length pred forallb app]. rewrite Hc2.
        repeat split; auto; try (cbn in H1; lia).
        rewrite (split_at s b c Hc1) at 2. rewrite <- app_assoc. cbn [app]. do 2 f_equal.
        destruct ind as [|i0 ind'].
        -- cbn [length skipn]. cbn [app] in H3. exact H3.
        -- rewrite H5 in * by discriminate. rewrite app_nil_r in *. rewrite H3.
           apply skipn_app_exact.
    + intros [= <-]. exists [], []. cbn. rewrite app_nil_r. repeat split; auto.
  - intros [= <-]. exists [], []. destruct s; cbn; rewrite ?app_nil_r; repeat split; auto.
Qed.

(* continuation lines start with the indent *)
Lemma iter_lines_head_indent fuel : forall ind r w l ls,
  iter_lines fuel (ind ++ r) w ind = Some (l :: ls) -> firstn (length ind) l = ind.
Proof.
  destruct fuel as [|f]; intros ind r w l ls; cbn [iter_lines]; [discriminate|].
  destruct (Nat.ltb w (length (ind ++ r))).
  - destruct (find_break _ _ _) as [b|] eqn:Eb.
    + destruct (iter_lines f _ w ind); [|discriminate]. intros [= <- _].
      apply find_break_spec in Eb as [_ Hm].
      rewrite firstn_firstn. replace (Nat.min (length ind) b) with (length ind) by lia.
      rewrite firstn_app, Nat.sub_diag, firstn_all. cbn. apply app_nil_r.
    + intros [= <- _]. rewrite firstn_app, Nat.sub_diag, firstn_all. cbn. apply app_nil_r.
  - destruct (ind ++ r) eqn:E; [discriminate|]. intros [= <- _]. rewrite <- E.
    rewrite firstn_app, Nat.sub_diag, firstn_all. cbn. apply app_nil_r.
Qed.

Theorem iter_lines_indent fuel : forall s w ind ls,
  iter_lines fuel s w ind = Some ls -> Forall (fun l => firstn (length ind) l = ind) (tl ls).
Proof.
  induction fuel as [|f IH]; intros s w ind ls; cbn [iter_lines]; [discriminate|].
  destruct (Nat.ltb w (length s)).
  - destruct (find_break _ _ _) as [b|].
    + destruct (iter_lines f _ w ind) as [ls'|] eqn:Er; [|discriminate].
      intros [= <-]. cbn [tl]. destruct ls' as [|l1 ls'']; [constructor|].
      constructor; [eapply iter_lines_head_indent; eauto|]. apply IH in Er. exact Er.
    + intros [= <-]. constructor.
  - intros [= <-]. destruct s; constructor.
Qed.

Lemma nth_error_firstn_lt {X} (l : list X) : forall n p, p < n -> nth_error (firstn n l) p = nth_error l p.
Proof.
  induction l as [|x l IH]; intros n p H; [destruct n, p; reflexivity|].
  destruct n as [|n]; [lia|]. destruct p as [|p]; cbn; [reflexivity|]. apply IH. lia.
Qed.

(* ---- width: a line longer than the width has no legal break point ---- *)
Theorem iter_lines_width fuel : forall s w ind ls,
  iter_lines fuel s w ind = Some ls ->
  forall l, In l ls -> w < length l ->
  forall p c, nth_error l p = Some c -> is_space c = true -> length ind < p -> p <= w -> False.
Proof.
  induction fuel as [|f IH]; intros s w ind ls; cbn [iter_lines]; [discriminate|].
  destruct (Nat.ltb w (length s)) eqn:Ew.
  - destruct (find_break _ _ _) as [b|] eqn:Eb.
    + destruct (iter_lines f _ w ind) as [ls'|] eqn:Er; [|discriminate].
      intros [= <-] l [<-|Hin] Hl p c Hp Hc Hm Hw; [|eapply IH; eauto].
      pose proof (find_break_spec _ _ _ _ Eb) as [Hbin Hbm].
      apply ws_positions_spec in Hbin as [Hbr _].
      rewrite firstn_length in Hl.
      assert (Hpb : p < b).
      { assert (Hx : nth_error (firstn b s) p <> None) by congruence. apply nth_error_Some in Hx. rewrite firstn_length in Hx. lia. }
      eapply (find_break_beyond _ _ _ _ (ws_positions_sorted s 0) Eb); [lia| |exact Hm|exact Hw].
      apply (ws_positions_complete s 0 p c); auto.
      rewrite nth_error_firstn_lt in Hp by exact Hpb. exact Hp.
    + intros [= <-] l [<-|[]] Hl p c Hp Hc Hm Hw.
      pose proof (find_break_none _ _ _ (ws_positions_sorted s 0) Eb p) as H.
      assert (In p (ws_positions s 0)) by (apply (ws_positions_complete s 0 p c); auto).
      apply H in H0. lia.
  - apply Nat.ltb_ge in Ew. intros [= <-] l Hin Hl. destruct s; [destruct Hin|].
    destruct Hin as [<-|[]]. lia.
Qed.

(* ---- width, strong form: a line longer than the width contains no whitespace after
        the indent at all, i.e. it could not have been broken anywhere ---- *)
Theorem iter_lines_width_strong fuel : forall s w ind ls,
  iter_lines fuel s w ind = Some ls ->
  forall l, In l ls -> w < length l ->
  forall p c, nth_error l p = Some c -> is_space c = true -> length ind < p -> False.
Proof.
  induction fuel as [|f IH]; intros s w ind ls; cbn [iter_lines]; [discriminate|].
  destruct (Nat.ltb w (length s)) eqn:Ew.
  - destruct (find_break _ _ _) as [b|] eqn:Eb.
    + destruct (iter_lines f _ w ind) as [ls'|] eqn:Er; [|discriminate].
      intros [= <-] l [<-|Hin] Hl p c Hp Hc Hm; [|eapply IH; eauto].
      pose proof (find_break_spec _ _ _ _ Eb) as [Hbin Hbm].
      apply ws_positions_spec in Hbin as [Hbr _].
      rewrite firstn_length in Hl.
      assert (Hpb : p < b).
      { assert (Hx : nth_error (firstn b s) p <> None) by congruence. apply nth_error_Some in Hx. rewrite firstn_length in Hx. lia. }
      eapply (find_break_beyond_strong _ _ _ _ (ws_positions_sorted s 0) Eb); [lia| |exact Hm|exact Hpb].
      apply (ws_positions_complete s 0 p c); auto.
      rewrite nth_error_firstn_lt in Hp by exact Hpb. exact Hp.
    + intros [= <-] l [<-|[]] Hl p c Hp Hc Hm.
      pose proof (find_break_none _ _ _ (ws_positions_sorted s 0) Eb p) as H.
      assert (In p (ws_positions s 0)) by (apply (ws_positions_complete s 0 p c); auto).
      apply H in H0. lia.
  - apply Nat.ltb_ge in Ew. intros [= <-] l Hin Hl. destruct s; [destruct Hin|].
    destruct Hin as [<-|[]]. lia.
Qed.

(* ---- no trailing whitespace after rstrip ---- *)
Lemma lstrip_head s : match lstrip s with [] => True | c :: _ => is_space c = false end.
Proof.
  induction s as [|c s IH]; cbn; [exact I|]. destruct (is_space c) eqn:E; [exact IH|exact E].
Qed.

Lemma rstrip_last s : rstrip s = [] \/ is_space (last (rstrip s) 0%N) = false.
Proof.
  unfold rstrip. pose proof (lstrip_head (rev s)) as H.
  destruct (lstrip (rev s)) as [|c t]; [left; reflexivity|right].
  cbn [rev]. rewrite last_last. exact H.
Qed.

Theorem wrap_lines_no_trailing_ws s w ind ls : wrap_lines s w ind = Some ls ->
  Forall (fun l => l = [] \/ is_space (last l 0%N) = false) ls.
Proof.
  unfold wrap_lines. destruct (iter_lines _ _ _ _) as [ls'|]; [|discriminate].
  intros [= <-]. apply Forall_forall. intros l Hin. apply in_map_iff in Hin as [l' [<- _]].
  apply rstrip_last.
Qed.

Lemma rstrip_length s : length (rstrip s) <= length s.
Proof.
  unfold rstrip. rewrite rev_length. rewrite <- (rev_length s).
  generalize (rev s). intros r. induction r as [|c r IH]; cbn; [lia|].
  destruct (is_space c); cbn; lia.
Qed.

Lemma rstrip_prefix_aux r : exists t, rev r = rev (lstrip r) ++ t /\ forallb is_space t = true.
Proof.
  induction r as [|c r IH]; cbn [lstrip rev]; [exists []; auto|].
  destruct (is_space c) eqn:E.
  - destruct IH as [t [H1 H2]]. exists (t ++ [c]). rewrite H1 at 1. rewrite app_assoc. split; auto.
    rewrite forallb_app, H2. cbn. now rewrite E.
  - exists []. cbn [rev]. rewrite app_nil_r. auto.
Qed.

Lemma rstrip_prefix s : exists t, s = rstrip s ++ t /\ forallb is_space t = true.
Proof.
  unfold rstrip. destruct (rstrip_prefix_aux (rev s)) as [t [H1 H2]].
  rewrite rev_involutive in H1. exists t. auto.
Qed.

Theorem wrap_lines_width s w ind ls : wrap_lines s w ind = Some ls ->
  forall l, In l ls -> w < length l ->
  forall p c, nth_error l p = Some c -> is_space c = true -> length ind < p -> p <= w -> False.
Proof.
  unfold wrap_lines. destruct (iter_lines _ _ _ _) as [ls'|] eqn:E; [|discriminate].
  intros [= <-] l Hin Hl p c Hp Hc Hm Hw.
  apply in_map_iff in Hin as [l' [<- Hin]].
  destruct (rstrip_prefix l') as [t [Ht _]].
  eapply (iter_lines_width _ _ _ _ _ E l' Hin); [| |exact Hc|exact Hm|exact Hw].
  - pose proof (rstrip_length l'). lia.
  - rewrite Ht. rewrite nth_error_app1; [exact Hp|].
    assert (Hx : nth_error (rstrip l') p <> None) by congruence. apply nth_error_Some in Hx. exact Hx.
Qed.

Theorem wrap_lines_width_strong s w ind ls : wrap_lines s w ind = Some ls ->
  forall l, In l ls -> w < length l ->
  forall p c, nth_error l p = Some c -> is_space c = true -> length ind < p -> False.
Proof.
  unfold wrap_lines. destruct (iter_lines _ _ _ _) as [ls'|] eqn:E; [|discriminate].
  intros [= <-] l Hin Hl p c Hp Hc Hm.
  apply in_map_iff in Hin as [l' [<- Hin]].
  destruct (rstrip_prefix l') as [t [Ht _]].
  eapply (iter_lines_width_strong _ _ _ _ _ E l' Hin); [| |exact Hc|exact Hm].
  - pose proof (rstrip_length l'). lia.
  - rewrite Ht. rewrite nth_error_app1; [exact Hp|].
    assert (Hx : nth_error (rstrip l') p <> None) by congruence. apply nth_error_Some in Hx. exact Hx.
Qed.

Theorem wrap_lines_reassemble s w ind ls : wrap_lines s w ind = Some ls ->
  exists raw seps tail,
    ls = map rstrip raw /\
    length seps = pred (length raw) /\ forallb is_space (seps ++ tail) = true /\
    rejoin (length ind) raw seps ++ tail = s /\ length tail <= 1 /\ (ind <> [] -> tail = []) /\
    Forall (fun l => firstn (length ind) l = ind) (tl raw).
Proof.
  unfold wrap_lines. destruct (iter_lines _ _ _ _) as [raw|] eqn:E; [|discriminate].
  intros [= <-]. destruct (iter_lines_reassemble _ _ _ _ _ E) as [seps [tail H]].
  exists raw, seps, tail. split; [reflexivity|]. repeat (split; [tauto|]).
  eapply iter_lines_indent; eauto.
Qed.

(* ---- only long texts are broken, and every break is forced ---- *)
Lemma wrap_lines_fits (s : str) w (ind : str) : length s <= w ->
  wrap_lines s w ind = Some (match s with [] => [] | _ => [rstrip s] end).
Proof.
  intros H. unfold wrap_lines. cbn [iter_lines].
  assert (E : Nat.ltb w (length s) = false) by (apply Nat.ltb_ge; exact H).
  rewrite E. destruct s; reflexivity.
Qed.

Lemma wrap_lines_broken_only_if_long (s : str) w (ind : str) ls :
  wrap_lines s w ind = Some ls -> 1 < length ls -> w < length s.
Proof.
  intros H L. destruct (Nat.le_gt_cases (length s) w) as [Hle|Hgt]; [|exact Hgt].
  rewrite (wrap_lines_fits s w ind Hle) in H. inversion H; subst. destruct s; cbn in L; lia.
Qed.

(* all whitespace after the chosen break position lies beyond the width *)
Lemma find_break_forced ps w m b : StronglySorted lt ps -> find_break ps w m = Some b ->
  forall q, In q ps -> b < q -> w < q.
Proof.
  induction ps as [|p0 rest IH]; intros Hs; cbn [find_break]; [discriminate|].
  inversion Hs as [|? ? Hs' Hall]; subst. rewrite Forall_forall in Hall.
  match goal with |- context [if ?b then _ else _] => destruct b eqn:E end.
  - intros [= <-] q [<-|Hin] Hq; [lia|].
    apply andb_prop in E as [E _]. destruct rest as [|q0 rest']; [destruct Hin|].
    apply Nat.ltb_lt in E. destruct Hin as [<-|Hin]; [exact E|].
    inversion Hs' as [|? ? _ Hall']; subst. rewrite Forall_forall in Hall'. apply Hall' in Hin. lia.
  - intros Hf q [<-|Hin] Hq.
    + apply find_break_spec in Hf as [Hf _]. apply Hall in Hf. lia.
    + eapply IH; eauto.
Qed.

Lemma iter_step_break_forced (s : str) w (ind : str) b :
  find_break (ws_positions s 0) w (length ind) = Some b ->
  forall q c, nth_error s q = Some c -> is_space c = true -> b < q -> w < q.
Proof.
  intros H q c Hn Hc Hq.
  eapply (find_break_forced _ _ _ _ (ws_positions_sorted s 0) H); [|exact Hq].
  exact (ws_positions_complete s 0 q c Hn Hc).
Qed.

Lemma iter_lines_break_forced f (s : str) w (ind : str) l l2 rest :
  iter_lines (S f) s w ind = Some (l :: l2 :: rest) ->
  exists b, l = firstn b s /\ w < length s /\
    iter_lines f (ind ++ skipn (S b) s) w ind = Some (l2 :: rest) /\
    (forall q c, nth_error s q = Some c -> is_space c = true -> b < q -> w < q).
Proof.
  cbn [iter_lines]. destruct (Nat.ltb w (length s)) eqn:E.
  - apply Nat.ltb_lt in E.
    destruct (find_break (ws_positions s 0) w (length ind)) as [b|] eqn:F; [|discriminate].
    destruct (iter_lines f (ind ++ skipn (S b) s) w ind) as [ls|] eqn:R; [|discriminate].
    intros [= <- <-]. exists b. repeat split; auto.
    intros q c Hn Hc Hq. eapply iter_step_break_forced; eauto.
  - destruct s; discriminate.
Qed.

Lemma newline_wraps buffer lines w : wrap (concat buffer) 79 (s2l "  ") = Ok w ->
  newline buffer lines = Ok ([], lines ++ [w; [c_nl]]).
Proof.
  intros H. unfold newline. change default_width with 79. change default_indent with (s2l "  ").
  rewrite H. reflexivity.
Qed.

(* ---- a run of write$ / newline$ operations (Interpreter.output / Interpreter.newline) ---- *)

Lemma run_output_total ops : forall buffer lines, exists out, run_output ops buffer lines = Ok out.
Proof.
  induction ops as [|[s|u] r IH]; intros buffer lines; cbn [run_output].
  - eexists; reflexivity.
  - apply IH.
  - unfold newline. destruct (wrap_total (concat buffer) default_width default_indent) as [w Hw].
    rewrite Hw. cbn [bind fst snd]. apply IH.
Qed.

Lemma run_output_writes_only ss : forall buffer lines,
  run_output (map inl ss) buffer lines = Ok (concat lines).
Proof.
  induction ss as [|s ss IH]; intros buffer lines; cbn [map run_output]; [reflexivity|apply IH].
Qed.

Lemma run_output_line ss u r : forall buffer lines w,
  wrap (concat (buffer ++ ss)) 79 (s2l "  ") = Ok w ->
  run_output (map inl ss ++ inr u :: r) buffer lines = run_output r [] (lines ++ [w; [c_nl]]).
Proof.
  induction ss as [|s ss IH]; intros buffer lines w Hw; cbn [map app run_output].
  - rewrite app_nil_r in Hw. rewrite (newline_wraps _ _ _ Hw). reflexivity.
  - apply IH. rewrite <- app_assoc. exact Hw.
Qed.

Lemma run_output_prefix ops : forall buffer lines out,
  run_output ops buffer lines = Ok out -> exists t, out = concat lines ++ t.
Proof.
  induction ops as [|[s|u] r IH]; intros buffer lines out; cbn [run_output].
  - intros [= <-]. exists []. now rewrite app_nil_r.
  - apply IH.
  - unfold newline. destruct (wrap_total (concat buffer) default_width default_indent) as [w Hw].
    rewrite Hw. cbn [bind fst snd]. intros H. destruct (IH _ _ _ H) as [t Ht].
    exists (w ++ [c_nl] ++ t). rewrite Ht, concat_app. cbn [concat]. rewrite app_nil_r, <- !app_assoc. reflexivity.
Qed.
