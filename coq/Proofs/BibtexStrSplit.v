(* Proofs/BibtexStrSplit.v -- lemmas about split_tex_string / _find_closing_brace
   (Model/BibtexStr.v), property C12. *)
From Pybtex Require Import Base.Prelude Base.PyChar Base.PyStr Model.BibtexStr Spec.BibtexStrSpec
  Proofs.BibtexStr.

(* [sep] is a piece of text the separator pattern matched: the model's matcher, asked at
   some position (previous character [prev], remaining text [s]), answered "a match of
   S k characters", and [sep] is that text *)
Definition matched (m : sep_matcher) (sep : str) : Prop :=
  exists prev s k, m prev s = S k /\ sep = firstn (S k) s.

Definition flat (pairs : list (str * str)) : str := flat_map (fun ps => fst ps ++ snd ps) pairs.

Lemma flat_app a b : flat (a ++ b) = flat a ++ flat b.
Proof. unfold flat. apply flat_map_app. Qed.

Definition nobrace (w : str) : Prop := Forall (fun c => is_brace c = false) w.

Lemma nobrace_app a b : nobrace (a ++ b) <-> nobrace a /\ nobrace b.
Proof. unfold nobrace. apply Forall_app. Qed.

Lemma nobrace_depth w d : nobrace w -> depth_from d w = Some d.
Proof.
  induction 1 as [|c w Hc _ IH]; [reflexivity|]. cbn [depth_from].
  unfold is_brace, is_lbrace, is_rbrace in Hc. apply orb_false_elim in Hc as [-> ->]. exact IH.
Qed.

(* ------------------------------------------------------------------ re.split *)
Lemma re_split_go_spec m : forall fuel prev s acc,
  exists pairs lastp,
    re_split_go fuel m prev s acc = map fst pairs ++ [lastp] /\
    rev acc ++ s = flat pairs ++ lastp /\
    Forall (matched m) (map snd pairs).
Proof.
  induction fuel as [|f IH]; intros prev s acc; cbn [re_split_go].
  - exists [], (rev acc ++ s). repeat split. constructor.
  - destruct s as [|c t].
    + exists [], (rev acc). rewrite app_nil_r. repeat split. constructor.
    + destruct (m prev (c :: t)) as [|k] eqn:Em.
      * destruct (IH (Some c) t (c :: acc)) as (pairs & lastp & H1 & H2 & H3).
        exists pairs, lastp. split; [exact H1|]. split; [|exact H3].
        rewrite <- H2. cbn [rev]. rewrite <- app_assoc. reflexivity.
      * destruct (IH (Some (nth k (c :: t) c)) (skipn (S k) (c :: t)) []) as (pairs & lastp & H1 & H2 & H3).
        exists ((rev acc, firstn (S k) (c :: t)) :: pairs), lastp.
        split; [cbn [map fst app]; rewrite H1; reflexivity|]. split.
        -- unfold flat in *. cbn [flat_map fst snd]. cbn [rev app] in H2. rewrite <- !app_assoc, <- H2.
           rewrite firstn_skipn. reflexivity.
        -- cbn [map snd]. constructor; [|exact H3]. exists prev, (c :: t), k. auto.
Qed.

Lemma re_split_spec m s :
  exists pairs lastp, re_split m s = map fst pairs ++ [lastp] /\ s = flat pairs ++ lastp /\
                      Forall (matched m) (map snd pairs).
Proof. unfold re_split. apply (re_split_go_spec m (S (length s)) None s []). Qed.

(* ------------------------------------------------------------------ partition('{'), _find_closing_brace *)
Lemma partition_brace_spec : forall s h b r, partition_brace s = (h, b, r) ->
  s = h ++ (if b then c_lbrace :: r else []) /\ Forall (fun c => is_lbrace c = false) h.
Proof.
  induction s as [|c t IH]; intros h b r H; cbn [partition_brace] in H.
  - injection H as <- <- <-. split; [reflexivity|constructor].
  - destruct (is_lbrace c) eqn:El.
    + injection H as <- <- <-. apply lb_eq in El. subst c. split; [reflexivity|constructor].
    + destruct (partition_brace t) as [[h' b'] r'] eqn:E. injection H as <- <- <-.
      destruct (IH h' b' r' eq_refl) as [H1 H2]. split; [cbn [app]; rewrite <- H1; reflexivity|].
      constructor; assumption.
Qed.

Lemma find_closing_brace_app s u r : find_closing_brace s = (u, r) -> s = u ++ r.
Proof.
  unfold find_closing_brace. destruct (Nat.eqb _ 0); intros H; injection H as <- <-.
  - rewrite app_nil_r. reflexivity.
  - symmetry. apply firstn_skipn.
Qed.

Lemma fcb_pos_spec : forall s level i last, depth_from (S level) s = Some 0 ->
  exists u r, s = u ++ r /\ fcb_pos s (S level) i last = i + length u /\ 0 < length u /\
              depth_from (S level) u = Some 0 /\ depth_from 0 r = Some 0.
Proof.
  induction s as [|c t IH]; intros level i last Hd; cbn [depth_from] in Hd; [discriminate|].
  cbn [fcb_pos]. unfold is_lbrace, is_rbrace.
  destruct (N.eqb c c_lbrace) eqn:El.
  - destruct (IH (S level) (S i) (S i) Hd) as (u & r & H1 & H2 & H3 & H4 & H5).
    exists (c :: u), r. split; [cbn [app]; f_equal; exact H1|]. split; [rewrite H2; cbn [length]; lia|].
    split; [cbn [length]; lia|]. split; [cbn [depth_from]; rewrite El; exact H4|exact H5].
  - destruct (N.eqb c c_rbrace) eqn:Er.
    + destruct level as [|l'].
      * exists [c], t. split; [reflexivity|]. split; [cbn [length]; lia|]. split; [cbn [length]; lia|].
        split; [cbn [depth_from]; rewrite El, Er; reflexivity|exact Hd].
      * destruct (IH l' (S i) (S i) Hd) as (u & r & H1 & H2 & H3 & H4 & H5).
        exists (c :: u), r. split; [cbn [app]; f_equal; exact H1|]. split; [rewrite H2; cbn [length]; lia|].
        split; [cbn [length]; lia|]. split; [cbn [depth_from]; rewrite El, Er; exact H4|exact H5].
    + destruct (IH level (S i) last Hd) as (u & r & H1 & H2 & H3 & H4 & H5).
      exists (c :: u), r. split; [cbn [app]; f_equal; exact H1|]. split; [rewrite H2; cbn [length]; lia|].
      split; [cbn [length]; lia|]. split; [cbn [depth_from]; rewrite El, Er; exact H4|exact H5].
Qed.

Lemma find_closing_brace_balanced s u r :
  depth_from 1 s = Some 0 -> find_closing_brace s = (u, r) ->
  depth_from 1 u = Some 0 /\ depth_from 0 r = Some 0.
Proof.
  intros Hd H. destruct (fcb_pos_spec s 0 0 0 Hd) as (u' & r' & H1 & H2 & H3 & H4 & H5).
  unfold find_closing_brace in H. rewrite H2 in H. cbn [Nat.add] in H.
  assert (E0 : Nat.eqb (length u') 0 = false) by (apply Nat.eqb_neq; lia).
  rewrite E0 in H. injection H as <- <-.
  rewrite H1. rewrite firstn_app, Nat.sub_diag, firstn_all, app_nil_r.
  rewrite skipn_app, Nat.sub_diag, skipn_all. cbn [skipn app]. auto.
Qed.

(* ------------------------------------------------------------------ the loop of split_tex_string *)
Lemma balanced_app a b : balanced a -> balanced b -> balanced (a ++ b).
Proof. unfold balanced. intros Ha Hb. rewrite depth_from_app, Ha. exact Hb. Qed.

Lemma nobrace_balanced w : nobrace w -> balanced w.
Proof. apply nobrace_depth. Qed.

Lemma nobrace_flat : forall pairs l, nobrace (flat pairs ++ l) ->
  Forall nobrace (map fst pairs) /\ Forall nobrace (map snd pairs) /\ nobrace l.
Proof.
  induction pairs as [|[p sp] pairs IH]; intros l H; [repeat split; [constructor|constructor|exact H]|].
  unfold flat in H. cbn [flat_map fst snd] in H. rewrite <- !app_assoc in H.
  apply nobrace_app in H as [Hp H]. apply nobrace_app in H as [Hs H].
  destruct (IH l H) as (H1 & H2 & H3). cbn [map fst snd]. repeat split; try constructor; assumption.
Qed.

Lemma nolb_nobrace : forall h X, Forall (fun c => is_lbrace c = false) h ->
  depth_from 0 (h ++ X) <> None -> nobrace h.
Proof.
  induction h as [|c h IH]; intros X Hh Hd; [constructor|].
  inversion Hh as [|? ? Hc Hh']; subst. cbn [app depth_from] in Hd. unfold is_lbrace in Hc. rewrite Hc in Hd.
  destruct (N.eqb c c_rbrace) eqn:Er; [congruence|].
  constructor; [unfold is_brace, is_lbrace, is_rbrace; rewrite Hc, Er; reflexivity|].
  apply (IH X Hh' Hd).
Qed.

Definition head_step (m : sep_matcher) (head : str) (result word_parts : list str) : list str * list str :=
  match head with
  | [] => (result, word_parts)
  | _ =>
    let hp := re_split m head in
    let firsts := removelast hp in
    let lastp := last hp [] in
    match firsts with
    | [] => (result, word_parts ++ [lastp])
    | w :: ws => (result ++ [concat (word_parts ++ [w])] ++ ws, [lastp])
    end
  end.

Lemma concat_snoc (l : list str) x : concat (l ++ [x]) = concat l ++ x.
Proof. rewrite concat_app. cbn [concat]. rewrite app_nil_r. reflexivity. Qed.

(* The loop invariant, for an abstract notion "P" of a well-formed piece and "H" of brace-free
   text (instantiated below with balanced / no brace, and with clamped depth 0 / no opening brace). *)
Section Loop.
Variable P H : str -> Prop.
Hypothesis P_app : forall a b, P a -> P b -> P (a ++ b).
Hypothesis H_P : forall w, H w -> P w.
Hypothesis H_flat : forall pairs l, H (flat pairs ++ l) ->
  Forall H (map fst pairs) /\ Forall H (map snd pairs) /\ H l.
Hypothesis P_group : forall head rest upto rest',
  Forall (fun c => is_lbrace c = false) head -> P (head ++ c_lbrace :: rest) ->
  find_closing_brace rest = (upto, rest') -> H head /\ P (c_lbrace :: upto) /\ P rest'.
Hypothesis P_nogroup : forall head, Forall (fun c => is_lbrace c = false) head -> P head -> H head.

Lemma head_step_spec m head pairs wp :
  exists pairs1 wp1,
    head_step m head (map fst pairs) wp = (map fst pairs1, wp1) /\
    flat pairs ++ concat wp ++ head = flat pairs1 ++ concat wp1 /\
    (Forall (matched m) (map snd pairs) -> Forall (matched m) (map snd pairs1)) /\
    ((wp = [] -> pairs = []) -> wp1 = [] -> pairs1 = [] /\ head = [] /\ wp = []) /\
    (Forall P (map fst pairs) -> Forall H (map snd pairs) -> P (concat wp) -> H head ->
       Forall P (map fst pairs1) /\ Forall H (map snd pairs1) /\ P (concat wp1)).
Proof.
  destruct head as [|c0 h0].
  - exists pairs, wp. cbn [head_step]. rewrite !app_nil_r. repeat split; auto.
  - unfold head_step. cbv iota. set (head := c0 :: h0).
    destruct (re_split_spec m head) as (hpairs & hl & H1 & H2 & H3).
    cbv zeta. rewrite H1, removelast_last, last_last.
    destruct hpairs as [|[w sp0] hps]; cbn [map fst].
    + exists pairs, (wp ++ [hl]). cbn [flat flat_map app] in H2. rewrite H2, concat_snoc.
      split; [reflexivity|]. split; [reflexivity|]. split; [auto|]. split.
      * intros _ E. apply app_eq_nil in E as [_ E]. discriminate.
      * intros Hb Hn Hw Hh. repeat split; try assumption. apply P_app; [exact Hw|].
        apply H_P. subst hl. exact Hh.
    + exists (pairs ++ (concat (wp ++ [w]), sp0) :: hps), [hl].
      split; [rewrite map_app; cbn [map fst app]; reflexivity|]. split.
      * rewrite flat_app, H2. unfold flat. cbn [flat_map fst snd concat]. rewrite concat_snoc, app_nil_r.
        rewrite <- !app_assoc. reflexivity.
      * split; [|split].
        -- intros Hm. rewrite map_app. apply Forall_app. split; [exact Hm|exact H3].
        -- intros _ E. discriminate.
        -- intros Hb Hn Hw Hh. rewrite H2 in Hh. destruct (H_flat _ _ Hh) as (N1 & N2 & N3).
           cbn [map fst snd] in N1, N2. inversion N1; subst. inversion N2; subst.
           rewrite !map_app. cbn [map fst snd concat]. rewrite app_nil_r. repeat split.
           ++ apply Forall_app. split; [exact Hb|]. constructor.
              ** rewrite concat_snoc. apply P_app; [exact Hw|apply H_P; assumption].
              ** eapply Forall_impl; [|eassumption]. apply H_P.
           ++ apply Forall_app. split; [exact Hn|]. constructor; assumption.
           ++ apply H_P. exact N3.
Qed.

Lemma split_loop_unfold m f s result wp :
  split_loop (S f) m s result wp =
  let '(head, brace, rest) := partition_brace s in
  let '(result1, wp1) := head_step m head result wp in
  if brace then
    let '(upto, rest') := find_closing_brace rest in
    split_loop f m rest' result1 (wp1 ++ [[c_lbrace]; upto])
  else Some (match wp1 with [] => result1 | _ => result1 ++ [concat wp1] end).
Proof. reflexivity. Qed.

Lemma split_loop_spec m : forall fuel s pairs wp out,
  split_loop fuel m s (map fst pairs) wp = Some out ->
  Forall (matched m) (map snd pairs) ->
  (wp = [] -> pairs = []) ->
  (out = [] /\ s = [] /\ wp = []) \/
  exists pairs' lastp,
    out = map fst pairs' ++ [lastp] /\
    flat pairs ++ concat wp ++ s = flat pairs' ++ lastp /\
    Forall (matched m) (map snd pairs') /\
    (Forall P (map fst pairs) -> Forall H (map snd pairs) -> P (concat wp) -> P s ->
       Forall P (map fst pairs') /\ Forall H (map snd pairs') /\ P lastp).
Proof.
  induction fuel as [|f IH]; intros s pairs wp out Hsl Hm Hwp; [discriminate|].
  rewrite split_loop_unfold in Hsl.
  destruct (partition_brace s) as [[head brace] rest] eqn:Ep.
  destruct (partition_brace_spec s head brace rest Ep) as [Hs Hnolb].
  destruct (head_step_spec m head pairs wp) as (pairs1 & wp1 & E1 & E2 & E3 & E4 & E5).
  rewrite E1 in Hsl. destruct brace.
  - destruct (find_closing_brace rest) as [upto rest'] eqn:Ef.
    pose proof (find_closing_brace_app rest upto rest' Ef) as Hrest.
    destruct (IH rest' pairs1 (wp1 ++ [[c_lbrace]; upto]) out Hsl (E3 Hm)) as [(_ & _ & Hbad)|(pairs' & lastp & O1 & O2 & O3 & O4)].
    + intros E. apply app_eq_nil in E as [_ E]. discriminate.
    + apply app_eq_nil in Hbad as [_ Hbad]. discriminate.
    + right. exists pairs', lastp. split; [exact O1|]. split; [|split; [exact O3|]].
      * rewrite <- O2, Hs, Hrest. rewrite concat_app. cbn [concat]. rewrite app_nil_r.
        rewrite (app_assoc (flat pairs)), (app_assoc (flat pairs ++ concat wp)).
        rewrite <- (app_assoc (flat pairs)), E2. rewrite <- !app_assoc. reflexivity.
      * intros Hb Hn Hw Hbs. rewrite Hs in Hbs.
        destruct (P_group head rest upto rest' Hnolb Hbs Ef) as (Hnb & Hg & Hr').
        destruct (E5 Hb Hn Hw Hnb) as (B1 & B2 & B3).
        apply O4; try assumption.
        rewrite concat_app. cbn [concat]. rewrite app_nil_r. apply P_app; [exact B3|exact Hg].
  - injection Hsl as Hsl. rewrite app_nil_r in Hs. subst head.
    destruct wp1 as [|w1 wp1'] eqn:Ew.
    + destruct (E4 Hwp eq_refl) as (P1 & P2 & P3). subst. left. auto.
    + right. exists pairs1, (concat (w1 :: wp1')). split; [symmetry; exact Hsl|]. split; [exact E2|].
      split; [exact (E3 Hm)|]. intros Hb Hn Hw Hbs.
      apply (E5 Hb Hn Hw (P_nogroup s Hnolb Hbs)).
Qed.
End Loop.

(* instance 1: balanced pieces, brace-free separators *)
Lemma bal_group head rest upto rest' :
  Forall (fun c => is_lbrace c = false) head -> balanced (head ++ c_lbrace :: rest) ->
  find_closing_brace rest = (upto, rest') -> nobrace head /\ balanced (c_lbrace :: upto) /\ balanced rest'.
Proof.
  intros Hnolb Hbs Ef.
  assert (Hnb : nobrace head).
  { apply (nolb_nobrace head (c_lbrace :: rest) Hnolb). unfold balanced in Hbs. congruence. }
  assert (Hd1 : depth_from 1 rest = Some 0).
  { unfold balanced in Hbs. rewrite depth_from_app, (nobrace_depth head 0 Hnb) in Hbs. exact Hbs. }
  destruct (find_closing_brace_balanced rest upto rest' Hd1 Ef) as [Hu Hr'].
  split; [exact Hnb|]. split; [exact Hu|exact Hr'].
Qed.

Lemma bal_nogroup head : Forall (fun c => is_lbrace c = false) head -> balanced head -> nobrace head.
Proof.
  intros Hnolb Hb. apply (nolb_nobrace head [] Hnolb). rewrite app_nil_r. unfold balanced in Hb. congruence.
Qed.

Definition split_loop_spec_bal :=
  split_loop_spec balanced nobrace balanced_app nobrace_balanced nobrace_flat bal_group bal_nogroup.

(* instance 2 (stray closing braces allowed): clamped depth 0 pieces, separators without opening brace *)
Definition cz (w : str) : Prop := cdepth_from 0 w = 0.
Definition nolb (w : str) : Prop := Forall (fun c => is_lbrace c = false) w.

Lemma cdepth_app : forall a b d, cdepth_from d (a ++ b) = cdepth_from (cdepth_from d a) b.
Proof.
  induction a as [|c a IH]; intros b d; [reflexivity|]. cbn [app cdepth_from].
  destruct (N.eqb c c_lbrace); [apply IH|]. destruct (N.eqb c c_rbrace); apply IH.
Qed.

Lemma nolb_cz w : nolb w -> cz w.
Proof.
  unfold cz. induction 1 as [|c w Hc _ IH]; [reflexivity|]. cbn [cdepth_from].
  unfold is_lbrace in Hc. rewrite Hc. destruct (N.eqb c c_rbrace); exact IH.
Qed.

Lemma cz_app a b : cz a -> cz b -> cz (a ++ b).
Proof. unfold cz. intros Ha Hb. rewrite cdepth_app, Ha. exact Hb. Qed.

Lemma nolb_flat : forall pairs l, nolb (flat pairs ++ l) ->
  Forall nolb (map fst pairs) /\ Forall nolb (map snd pairs) /\ nolb l.
Proof.
  unfold nolb. induction pairs as [|[p sp] pairs IH]; intros l Hl; [repeat split; [constructor|constructor|exact Hl]|].
  unfold flat in Hl. cbn [flat_map fst snd] in Hl. rewrite <- !app_assoc in Hl.
  apply Forall_app in Hl as [Hp Hl]. apply Forall_app in Hl as [Hs Hl].
  destruct (IH l Hl) as (H1 & H2 & H3). cbn [map fst snd]. repeat split; try constructor; assumption.
Qed.

Lemma depth_cdepth : forall w d k, depth_from d w = Some k -> cdepth_from d w = k.
Proof.
  induction w as [|c w IH]; intros d k Hd; cbn [depth_from] in Hd; cbn [cdepth_from].
  - injection Hd as ->. reflexivity.
  - destruct (N.eqb c c_lbrace); [apply IH; exact Hd|].
    destruct (N.eqb c c_rbrace); [|apply IH; exact Hd].
    destruct d; [discriminate|]. cbn [pred]. apply IH. exact Hd.
Qed.

Lemma fcb_pos_spec_c : forall s level i last, cdepth_from (S level) s = 0 ->
  exists u r, s = u ++ r /\ fcb_pos s (S level) i last = i + length u /\ 0 < length u /\
              depth_from (S level) u = Some 0 /\ cdepth_from 0 r = 0.
Proof.
  induction s as [|c t IH]; intros level i last Hd; cbn [cdepth_from] in Hd; [discriminate|].
  cbn [fcb_pos]. unfold is_lbrace, is_rbrace.
  destruct (N.eqb c c_lbrace) eqn:El.
  - destruct (IH (S level) (S i) (S i) Hd) as (u & r & H1 & H2 & H3 & H4 & H5).
    exists (c :: u), r. split; [cbn [app]; f_equal; exact H1|]. split; [rewrite H2; cbn [length]; lia|].
    split; [cbn [length]; lia|]. split; [cbn [depth_from]; rewrite El; exact H4|exact H5].
  - destruct (N.eqb c c_rbrace) eqn:Er.
    + destruct level as [|l'].
      * exists [c], t. split; [reflexivity|]. split; [cbn [length]; lia|]. split; [cbn [length]; lia|].
        split; [cbn [depth_from]; rewrite El, Er; reflexivity|exact Hd].
      * cbn [pred] in Hd. destruct (IH l' (S i) (S i) Hd) as (u & r & H1 & H2 & H3 & H4 & H5).
        exists (c :: u), r. split; [cbn [app]; f_equal; exact H1|]. split; [rewrite H2; cbn [length]; lia|].
        split; [cbn [length]; lia|]. split; [cbn [depth_from]; rewrite El, Er; exact H4|exact H5].
    + destruct (IH level (S i) last Hd) as (u & r & H1 & H2 & H3 & H4 & H5).
      exists (c :: u), r. split; [cbn [app]; f_equal; exact H1|]. split; [rewrite H2; cbn [length]; lia|].
      split; [cbn [length]; lia|]. split; [cbn [depth_from]; rewrite El, Er; exact H4|exact H5].
Qed.

Lemma cz_group head rest upto rest' :
  nolb head -> cz (head ++ c_lbrace :: rest) ->
  find_closing_brace rest = (upto, rest') -> nolb head /\ cz (c_lbrace :: upto) /\ cz rest'.
Proof.
  intros Hnolb Hbs Ef. split; [exact Hnolb|].
  assert (Hd1 : cdepth_from 1 rest = 0).
  { unfold cz in Hbs. rewrite cdepth_app, (nolb_cz head Hnolb) in Hbs. exact Hbs. }
  destruct (fcb_pos_spec_c rest 0 0 0 Hd1) as (u' & r' & H1 & H2 & H3 & H4 & H5).
  unfold find_closing_brace in Ef. rewrite H2 in Ef. cbn [Nat.add] in Ef.
  assert (E0 : Nat.eqb (length u') 0 = false) by (apply Nat.eqb_neq; lia).
  rewrite E0 in Ef. injection Ef as <- <-.
  rewrite H1. rewrite firstn_app, Nat.sub_diag, firstn_all, app_nil_r.
  rewrite skipn_app, Nat.sub_diag, skipn_all. cbn [skipn app firstn].
  split; [|exact H5]. unfold cz. cbn [cdepth_from]. change (N.eqb c_lbrace c_lbrace) with true. cbv iota.
  apply depth_cdepth. exact H4.
Qed.

Definition split_loop_spec_cz :=
  split_loop_spec cz nolb cz_app nolb_cz nolb_flat cz_group (fun head Hn _ => Hn).

(* ------------------------------------------------------------------ top level *)
Lemma split_raw_unfold m s :
  split_tex_string_gen m s false false =
  match split_loop (S (length s)) m s [] [] with None => OutOfFuel | Some r => Ok r end.
Proof. unfold split_tex_string_gen. destruct (split_loop _ m s [] []); reflexivity. Qed.

Lemma split_reassemble_lemma m s pieces :
  split_tex_string_gen m s false false = Ok pieces ->
  (s = [] /\ pieces = []) \/
  exists pairs lastp,
    pieces = map fst pairs ++ [lastp] /\
    s = flat_map (fun ps => fst ps ++ snd ps) pairs ++ lastp /\
    Forall (matched m) (map snd pairs).
Proof.
  rewrite split_raw_unfold. destruct (split_loop _ m s [] []) as [r|] eqn:E; [|discriminate].
  intros H. injection H as ->.
  destruct (split_loop_spec_bal m _ s [] [] pieces E (Forall_nil _) (fun _ => eq_refl))
    as [(H1 & H2 & _)|(pairs' & lastp & O1 & O2 & O3 & _)]; [left; auto|].
  right. exists pairs', lastp. cbn [flat flat_map concat app] in O2. auto.
Qed.

Lemma split_top_level_lemma m s pieces :
  balanced s -> split_tex_string_gen m s false false = Ok pieces ->
  (s = [] /\ pieces = []) \/
  exists pairs lastp,
    pieces = map fst pairs ++ [lastp] /\
    s = flat_map (fun ps => fst ps ++ snd ps) pairs ++ lastp /\
    Forall balanced pieces /\ Forall nobrace (map snd pairs).
Proof.
  intros Hb. rewrite split_raw_unfold. destruct (split_loop _ m s [] []) as [r|] eqn:E; [|discriminate].
  intros H. injection H as ->.
  destruct (split_loop_spec_bal m _ s [] [] pieces E (Forall_nil _) (fun _ => eq_refl))
    as [(H1 & H2 & _)|(pairs' & lastp & O1 & O2 & O3 & O4)]; [left; auto|].
  right. exists pairs', lastp. cbn [flat flat_map concat app] in O2.
  destruct (O4 (Forall_nil _) (Forall_nil _) eq_refl Hb) as (B1 & B2 & B3).
  split; [exact O1|]. split; [exact O2|]. split; [|exact B2].
  rewrite O1. apply Forall_app. split; [exact B1|]. constructor; [exact B3|constructor].
Qed.

(* the same with clamped depth: stray closing braces allowed, every group closed *)
Lemma split_top_level_c_lemma m s pieces :
  cdepth_from 0 s = 0 -> split_tex_string_gen m s false false = Ok pieces ->
  (s = [] /\ pieces = []) \/
  exists pairs lastp,
    pieces = map fst pairs ++ [lastp] /\
    s = flat_map (fun ps => fst ps ++ snd ps) pairs ++ lastp /\
    Forall (fun p => cdepth_from 0 p = 0) pieces /\
    Forall (Forall (fun c => is_lbrace c = false)) (map snd pairs).
Proof.
  intros Hb. rewrite split_raw_unfold. destruct (split_loop _ m s [] []) as [r|] eqn:E; [|discriminate].
  intros H. injection H as ->.
  destruct (split_loop_spec_cz m _ s [] [] pieces E (Forall_nil _) (fun _ => eq_refl))
    as [(H1 & H2 & _)|(pairs' & lastp & O1 & O2 & O3 & O4)]; [left; auto|].
  right. exists pairs', lastp. cbn [flat flat_map concat app] in O2.
  destruct (O4 (Forall_nil _) (Forall_nil _) eq_refl Hb) as (B1 & B2 & B3).
  split; [exact O1|]. split; [exact O2|]. split; [|exact B2].
  rewrite O1. apply Forall_app. split; [exact B1|]. constructor; [exact B3|constructor].
Qed.

(* ---- every string: a group that is never closed swallows the rest of the string ---- *)
Lemma fcb_pos_total : forall s level i last,
  (exists u r, s = u ++ r /\ fcb_pos s (S level) i last = i + length u /\ 0 < length u /\
               depth_from (S level) u = Some 0) \/
  fcb_pos s (S level) i last = i + length s.
Proof.
  induction s as [|c t IH]; intros level i last; [right; cbn; lia|].
  cbn [fcb_pos]. unfold is_lbrace, is_rbrace.
  destruct (N.eqb c c_lbrace) eqn:El.
  - destruct (IH (S level) (S i) (S i)) as [(u & r & H1 & H2 & H3 & H4)|H].
    + left. exists (c :: u), r. split; [cbn [app]; f_equal; exact H1|]. split; [rewrite H2; cbn [length]; lia|].
      split; [cbn [length]; lia|]. cbn [depth_from]. rewrite El. exact H4.
    + right. rewrite H. cbn [length]. lia.
  - destruct (N.eqb c c_rbrace) eqn:Er.
    + destruct level as [|l'].
      * left. exists [c], t. split; [reflexivity|]. split; [cbn [length]; lia|]. split; [cbn [length]; lia|].
        cbn [depth_from]. rewrite El, Er. reflexivity.
      * destruct (IH l' (S i) (S i)) as [(u & r & H1 & H2 & H3 & H4)|H].
        -- left. exists (c :: u), r. split; [cbn [app]; f_equal; exact H1|]. split; [rewrite H2; cbn [length]; lia|].
           split; [cbn [length]; lia|]. cbn [depth_from]. rewrite El, Er. exact H4.
        -- right. rewrite H. cbn [length]. lia.
    + destruct (IH level (S i) last) as [(u & r & H1 & H2 & H3 & H4)|H].
      * left. exists (c :: u), r. split; [cbn [app]; f_equal; exact H1|]. split; [rewrite H2; cbn [length]; lia|].
        split; [cbn [length]; lia|]. cbn [depth_from]. rewrite El, Er. exact H4.
      * right. rewrite H. cbn [length]. lia.
Qed.

Lemma find_closing_brace_total rest upto rest' : find_closing_brace rest = (upto, rest') ->
  cz (c_lbrace :: upto) \/ rest' = [].
Proof.
  intros Ef. unfold find_closing_brace in Ef.
  destruct (fcb_pos_total rest 0 0 0) as [(u & r & H1 & H2 & H3 & H4)|H].
  - left. rewrite H2 in Ef. cbn [Nat.add] in Ef.
    assert (E0 : Nat.eqb (length u) 0 = false) by (apply Nat.eqb_neq; lia).
    rewrite E0 in Ef. injection Ef as <- <-.
    rewrite H1. rewrite firstn_app, Nat.sub_diag, firstn_all, app_nil_r. cbn [firstn].
    unfold cz. cbn [cdepth_from]. change (N.eqb c_lbrace c_lbrace) with true. cbv iota.
    apply depth_cdepth. exact H4.
  - right. rewrite H in Ef. cbn [Nat.add] in Ef.
    destruct (Nat.eqb (length rest) 0); injection Ef as <- <-; [reflexivity|apply skipn_all].
Qed.

(* the loop invariant for every string: finished pieces return to clamped depth 0, separators
   contain no opening brace; the word under construction is at depth 0 too, unless a
   never-closed group has swallowed the rest of the string *)
Lemma split_loop_cz m : forall fuel s pairs wp out,
  split_loop fuel m s (map fst pairs) wp = Some out ->
  Forall (matched m) (map snd pairs) ->
  (wp = [] -> pairs = []) ->
  Forall cz (map fst pairs) -> Forall nolb (map snd pairs) -> (cz (concat wp) \/ s = []) ->
  (out = [] /\ s = [] /\ wp = []) \/
  exists pairs' lastp,
    out = map fst pairs' ++ [lastp] /\
    flat pairs ++ concat wp ++ s = flat pairs' ++ lastp /\
    Forall (matched m) (map snd pairs') /\
    Forall cz (map fst pairs') /\ Forall nolb (map snd pairs').
Proof.
  induction fuel as [|f IH]; intros s pairs wp out Hsl Hm Hwp Hb Hn Hw; [discriminate|].
  destruct s as [|c0 s0].
  - cbn in Hsl. destruct wp as [|w wp'].
    + injection Hsl as <-. rewrite (Hwp eq_refl). left. auto.
    + injection Hsl as <-. right. exists pairs, (concat (w :: wp')). rewrite app_nil_r. auto.
  - destruct Hw as [Hw|Hw]; [|discriminate]. remember (c0 :: s0) as s eqn:Es.
    rewrite split_loop_unfold in Hsl.
    destruct (partition_brace s) as [[head brace] rest] eqn:Ep.
    destruct (partition_brace_spec s head brace rest Ep) as [Hs Hnolb].
    destruct (head_step_spec cz nolb cz_app nolb_cz nolb_flat m head pairs wp)
      as (pairs1 & wp1 & E1 & E2 & E3 & E4 & E5).
    rewrite E1 in Hsl. destruct (E5 Hb Hn Hw Hnolb) as (B1 & B2 & B3). destruct brace.
    + destruct (find_closing_brace rest) as [upto rest'] eqn:Ef.
      pose proof (find_closing_brace_app rest upto rest' Ef) as Hrest.
      assert (Hw2 : cz (concat (wp1 ++ [[c_lbrace]; upto])) \/ rest' = []).
      { destruct (find_closing_brace_total rest upto rest' Ef) as [Hg|Hg]; [left|right; exact Hg].
        rewrite concat_app. cbn [concat]. rewrite app_nil_r. apply cz_app; [exact B3|exact Hg]. }
      destruct (IH rest' pairs1 (wp1 ++ [[c_lbrace]; upto]) out Hsl (E3 Hm)) as [(_ & _ & Hbad)|(pairs' & lastp & O1 & O2 & O3 & O4 & O5)]; try assumption.
      * intros E. apply app_eq_nil in E as [_ E]. discriminate.
      * apply app_eq_nil in Hbad as [_ Hbad]. discriminate.
      * right. exists pairs', lastp. split; [exact O1|]. split; [|auto].
        rewrite <- O2, Hs, Hrest. rewrite concat_app. cbn [concat]. rewrite app_nil_r.
        rewrite (app_assoc (flat pairs)), (app_assoc (flat pairs ++ concat wp)).
        rewrite <- (app_assoc (flat pairs)), E2. rewrite <- !app_assoc. reflexivity.
    + injection Hsl as Hsl. rewrite app_nil_r in Hs. subst head.
      destruct wp1 as [|w1 wp1'] eqn:Ew.
      * destruct (E4 Hwp eq_refl) as (P1 & P2 & P3). subst. discriminate.
      * right. exists pairs1, (concat (w1 :: wp1')). split; [symmetry; exact Hsl|]. split; [exact E2|]. auto.
Qed.

(* never splits inside braces, EVERY string: each piece but the last returns to (clamped)
   brace depth 0 and no separator contains an opening brace -- so every separator lies at
   depth 0; the last piece may be left open only by a group that is never closed *)
Lemma split_top_level_all_lemma m s pieces :
  split_tex_string_gen m s false false = Ok pieces ->
  (s = [] /\ pieces = []) \/
  exists pairs lastp,
    pieces = map fst pairs ++ [lastp] /\
    s = flat_map (fun ps => fst ps ++ snd ps) pairs ++ lastp /\
    Forall (fun p => cdepth_from 0 p = 0) (map fst pairs) /\
    Forall (Forall (fun c => is_lbrace c = false)) (map snd pairs) /\
    Forall (matched m) (map snd pairs).
Proof.
  rewrite split_raw_unfold. destruct (split_loop _ m s [] []) as [r|] eqn:E; [|discriminate].
  intros H. injection H as ->.
  destruct (split_loop_cz m _ s [] [] pieces E (Forall_nil _) (fun _ => eq_refl) (Forall_nil _) (Forall_nil _) (or_introl eq_refl))
    as [(H1 & H2 & _)|(pairs' & lastp & O1 & O2 & O3 & O4 & O5)]; [left; auto|].
  right. exists pairs', lastp. cbn [flat flat_map concat app] in O2. auto 6.
Qed.

(* totality: the model's fuel |s|+1 suffices, split_tex_string never raises *)
Lemma partition_brace_length_lt s h r : partition_brace s = (h, true, r) -> length r < length s.
Proof.
  intros H. destruct (partition_brace_spec s h true r H) as [Hs _]. rewrite Hs, app_length.
  cbn [length]. lia.
Qed.

Lemma split_loop_total m : forall fuel s result wp, length s < fuel ->
  exists out, split_loop fuel m s result wp = Some out.
Proof.
  induction fuel as [|f IH]; intros s result wp Hf; [lia|].
  rewrite split_loop_unfold.
  destruct (partition_brace s) as [[head brace] rest] eqn:Ep.
  destruct (head_step m head result wp) as [result1 wp1].
  destruct brace; [|eauto].
  destruct (find_closing_brace rest) as [upto rest'] eqn:Ef.
  apply IH. pose proof (find_closing_brace_app rest upto rest' Ef) as Hr.
  pose proof (partition_brace_length_lt s head rest Ep) as Hl.
  rewrite Hr, app_length in Hl. lia.
Qed.

Lemma split_total_lemma m s st fe : exists pieces, split_tex_string_gen m s st fe = Ok pieces.
Proof.
  unfold split_tex_string_gen.
  destruct (split_loop_total m (S (length s)) s [] [] (Nat.lt_succ_diag_r _)) as [out ->]. eauto.
Qed.

(* strip / filter_empty remove only surrounding whitespace / empty pieces *)
Definition all_space (a : str) : Prop := Forall (fun c => is_space c = true) a.

Lemma lstrip_spec s : exists a, s = a ++ lstrip s /\ all_space a.
Proof.
  induction s as [|c t IH]; [exists []; split; [reflexivity|constructor]|].
  cbn [lstrip]. destruct (is_space c) eqn:E.
  - destruct IH as (a & H1 & H2). exists (c :: a). split; [cbn [app]; f_equal; exact H1|constructor; assumption].
  - exists []. split; [reflexivity|constructor].
Qed.

Lemma rstrip_spec s : exists b, s = rstrip s ++ b /\ all_space b.
Proof.
  unfold rstrip. destruct (lstrip_spec (rev s)) as (a & H1 & H2). exists (rev a). split.
  - apply (f_equal (@rev _)) in H1. rewrite rev_involutive, rev_app_distr in H1. exact H1.
  - apply Forall_rev. exact H2.
Qed.

Lemma strip_spec s : exists a b, s = a ++ strip s ++ b /\ all_space a /\ all_space b.
Proof.
  unfold strip. destruct (lstrip_spec s) as (a & H1 & H2). destruct (rstrip_spec (lstrip s)) as (b & H3 & H4).
  exists a, b. split; [rewrite <- H3; exact H1|auto].
Qed.

Lemma split_strip_filter_lemma m s st fe pieces :
  split_tex_string_gen m s st fe = Ok pieces ->
  exists raw, split_tex_string_gen m s false false = Ok raw /\
    pieces = (if fe then filter (fun p => negb (match p with [] => true | _ => false end)) else (fun l => l))
               (if st then map strip raw else raw).
Proof.
  unfold split_tex_string_gen. destruct (split_loop _ m s [] []) as [r|]; [|discriminate].
  intros H. injection H as <-. exists r. split; [reflexivity|]. destruct fe, st; reflexivity.
Qed.

(* ------------------------------------------------------------------ what the four separators match *)
Lemma matched_comma sep : matched sep_comma sep -> sep = [c_comma].
Proof.
  intros (prev & s & k & H & ->). unfold sep_comma in H. destruct s as [|c t]; [discriminate|].
  destruct (N.eqb c c_comma) eqn:E; [|discriminate]. injection H as <-. apply N.eqb_eq in E. subst. reflexivity.
Qed.

Lemma matched_hyphen sep : matched sep_hyphen sep -> sep = [c_hyphen].
Proof.
  intros (prev & s & k & H & ->). unfold sep_hyphen in H. destruct s as [|c t]; [discriminate|].
  destruct (N.eqb c c_hyphen) eqn:E; [|discriminate]. injection H as <-. apply N.eqb_eq in E. subst. reflexivity.
Qed.

Lemma matched_and sep : matched sep_and sep ->
  exists b c d, sep = [c_space; b; c; d; c_space] /\ to_lower b = 97%N /\ to_lower c = 110%N /\ to_lower d = 100%N.
Proof.
  intros (prev & s & k & H & ->). unfold sep_and in H.
  destruct s as [|a [|b [|c [|d [|e t]]]]]; try discriminate.
  destruct (N.eqb a c_space && N.eqb (to_lower b) 97 && N.eqb (to_lower c) 110 && N.eqb (to_lower d) 100 && N.eqb e c_space) eqn:E;
    [|discriminate].
  injection H as <-. repeat (apply andb_prop in E as [E ?]).
  repeat match goal with H : N.eqb _ _ = true |- _ => apply N.eqb_eq in H end. subst.
  exists b, c, d. auto.
Qed.

Definition spacelike (c : char) : bool := is_space c || N.eqb c c_tilde || N.eqb c c_bslash.

Lemma space_run_spacelike_n : forall n s prev k, length s <= n -> space_run prev s = S k ->
  Forall (fun c => spacelike c = true) (firstn (S k) s).
Proof.
  induction n as [|n IH]; intros s prev k Hn H; (destruct s as [|c t]; [discriminate|]); cbn [length] in Hn; [lia|].
  cbn [space_run] in H.
  assert (Hrec : forall t' p m, length t' <= n -> space_run p t' = m ->
                 Forall (fun c => spacelike c = true) (firstn m t')).
  { intros t' p [|m] Hl Hm; [constructor|]. apply (IH t' p m Hl Hm). }
  destruct (is_space c) eqn:Es.
  - injection H as H. cbn [firstn]. constructor; [unfold spacelike; rewrite Es; reflexivity|].
    apply (Hrec t (Some c) k); [lia|exact H].
  - destruct (N.eqb c c_tilde) eqn:Et.
    + assert (Hk : S (space_run (Some c) t) = S k).
      { destruct prev as [p|]; [destruct (N.eqb p c_bslash); [discriminate|]|]; exact H. }
      injection Hk as Hk. cbn [firstn]. constructor; [unfold spacelike; rewrite Et, orb_true_r; reflexivity|].
      apply (Hrec t (Some c) k); [lia|exact Hk].
    + destruct (N.eqb c c_bslash) eqn:Eb; [|discriminate].
      destruct t as [|d t']; [discriminate|]. destruct (N.eqb d c_space) eqn:Ed; [|discriminate].
      injection H as H. destruct k as [|k']; [discriminate|]. injection H as H.
      cbn [firstn]. constructor; [unfold spacelike; rewrite Eb, !orb_true_r; reflexivity|].
      constructor; [apply N.eqb_eq in Ed; subst d; reflexivity|].
      cbn [length] in Hn. apply (Hrec t' (Some d) k'); [lia|exact H].
Qed.

Lemma space_run_spacelike s prev k : space_run prev s = S k ->
  Forall (fun c => spacelike c = true) (firstn (S k) s).
Proof. apply (space_run_spacelike_n (length s)). lia. Qed.

Lemma matched_space sep : matched sep_space sep -> sep <> [] /\ Forall (fun c => spacelike c = true) sep.
Proof.
  intros (prev & s & k & H & ->). unfold sep_space in H. split.
  - destruct s; [discriminate|]. cbn [firstn]. discriminate.
  - apply (space_run_spacelike s prev k H).
Qed.

(* ================================================================== round 3 *)
(* ------------------------------------------------------------------ _find_closing_brace, exactly *)
Lemma fcb_pos_min : forall s level i last,
  (exists u r, s = u ++ r /\ fcb_pos s (S level) i last = i + length u /\ 0 < length u /\
               depth_from (S level) u = Some 0 /\
               (forall p x, u = p ++ x -> x <> [] -> exists k, depth_from (S level) p = Some (S k))) \/
  (fcb_pos s (S level) i last = i + length s /\
   (forall p x, s = p ++ x -> exists k, depth_from (S level) p = Some (S k))).
Proof.
  induction s as [|c t IH]; intros level i last.
  - right. split; [cbn; lia|]. intros p x E. symmetry in E. apply app_eq_nil in E as [-> _]. exists level. reflexivity.
  - cbn [fcb_pos]. unfold is_lbrace, is_rbrace.
    assert (Hstep : forall lvl' (Hc : forall w, depth_from (S level) (c :: w) = depth_from (S lvl') w) i' last',
      (exists u r, t = u ++ r /\ fcb_pos t (S lvl') i' last' = i' + length u /\ 0 < length u /\
               depth_from (S lvl') u = Some 0 /\
               (forall p x, u = p ++ x -> x <> [] -> exists k, depth_from (S lvl') p = Some (S k))) \/
      (fcb_pos t (S lvl') i' last' = i' + length t /\
       (forall p x, t = p ++ x -> exists k, depth_from (S lvl') p = Some (S k))) ->
      i' = S i ->
      (exists u r, c :: t = u ++ r /\ fcb_pos t (S lvl') i' last' = i + length u /\ 0 < length u /\
               depth_from (S level) u = Some 0 /\
               (forall p x, u = p ++ x -> x <> [] -> exists k, depth_from (S level) p = Some (S k))) \/
      (fcb_pos t (S lvl') i' last' = i + length (c :: t) /\
       (forall p x, c :: t = p ++ x -> exists k, depth_from (S level) p = Some (S k)))).
    { intros lvl' Hc i' last' [(u & r & H1 & H2 & H3 & H4 & H5)|[H1 H2]] ->.
      - left. exists (c :: u), r. split; [cbn [app]; f_equal; exact H1|]. split; [rewrite H2; cbn [length]; lia|].
        split; [cbn [length]; lia|]. split; [rewrite Hc; exact H4|].
        intros p x E Hx. destruct p as [|c' p']; [exists level; reflexivity|].
        cbn [app] in E. injection E as <- E. rewrite Hc. apply (H5 p' x E Hx).
      - right. split; [rewrite H1; cbn [length]; lia|].
        intros p x E. destruct p as [|c' p']; [exists level; reflexivity|].
        cbn [app] in E. injection E as <- E. rewrite Hc. apply (H2 p' x E). }
    destruct (N.eqb c c_lbrace) eqn:El.
    + apply (Hstep (S level)); [intros w; cbn [depth_from]; rewrite El; reflexivity|apply IH|reflexivity].
    + destruct (N.eqb c c_rbrace) eqn:Er.
      * destruct level as [|l'].
        -- left. exists [c], t. split; [reflexivity|]. split; [cbn [length]; lia|]. split; [cbn [length]; lia|].
           split; [cbn [depth_from]; rewrite El, Er; reflexivity|].
           intros p x E Hx. destruct p as [|c' p']; [exists 0; reflexivity|].
           cbn [app] in E. injection E as _ E. symmetry in E. apply app_eq_nil in E as [_ E]. contradiction.
        -- apply (Hstep l'); [intros w; cbn [depth_from]; rewrite El, Er; reflexivity|apply IH|reflexivity].
      * apply (Hstep level); [intros w; cbn [depth_from]; rewrite El, Er; reflexivity|apply IH|reflexivity].
Qed.

(* the returned prefix is the SHORTEST prefix that closes the group opened before the string
   (every proper prefix of it is still inside the group), or -- when no prefix closes it --
   the whole string *)
Lemma find_closing_brace_spec_lemma s u r : find_closing_brace s = (u, r) ->
  s = u ++ r /\
  ((depth_from 1 u = Some 0 /\
    forall p x, u = p ++ x -> x <> [] -> exists k, depth_from 1 p = Some (S k)) \/
   (u = s /\ r = [] /\ forall p x, s = p ++ x -> exists k, depth_from 1 p = Some (S k))).
Proof.
  intros Ef. split; [apply (find_closing_brace_app s u r Ef)|].
  unfold find_closing_brace in Ef.
  destruct (fcb_pos_min s 0 0 0) as [(u' & r' & H1 & H2 & H3 & H4 & H5)|[H1 H2]].
  - left. rewrite H2 in Ef. cbn [Nat.add] in Ef.
    assert (E0 : Nat.eqb (length u') 0 = false) by (apply Nat.eqb_neq; lia).
    rewrite E0 in Ef. injection Ef as <- <-.
    rewrite H1. rewrite firstn_app, Nat.sub_diag, firstn_all, app_nil_r. cbn [firstn]. auto.
  - right. rewrite H1 in Ef. cbn [Nat.add] in Ef.
    destruct (Nat.eqb (length s) 0); injection Ef as <- <-.
    + auto.
    + rewrite firstn_all, skipn_all. auto.
Qed.

(* ------------------------------------------------------------------ split_name_list / abbreviate: the separators *)
Lemma join_cons_ne sep p rest : rest <> [] -> join sep (p :: rest) = p ++ sep ++ join sep rest.
Proof. destruct rest; [congruence|reflexivity]. Qed.

Lemma flat_join sep : forall pairs lastp, Forall (fun sp => sp = sep) (map snd pairs) ->
  flat pairs ++ lastp = join sep (map fst pairs ++ [lastp]).
Proof.
  induction pairs as [|[p sp] pairs IH]; intros lastp H; [reflexivity|].
  cbn [map snd fst] in *. inversion H as [|? ? Hs H']; subst.
  unfold flat in *. cbn [flat_map fst snd app]. rewrite <- !app_assoc, (IH lastp H').
  cbn [map app]. rewrite join_cons_ne; [reflexivity|]. destruct (map fst pairs); discriminate.
Qed.
