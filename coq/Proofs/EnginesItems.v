(* Proofs/EnginesItems.v -- the engine-level fact behind "one item per resolved citation" for ANY style
   whose last command is ITERATE {f}, where f -- directly, or (f = call.type$) through the entry's type
   function, in both cases possibly through a chain of functions called in first position -- executes,
   at the top level of a function body, `"\bibitem..." write$` and later `cite$ write$`:
   if the run succeeds, the text written (white space aside; wrapping only moves white space) grows,
   for each citation the engine holds, in order, by a segment that contains that \bibitem literal
   followed by the citation's key.  Also: no style code changes function / built-in bindings, the
   current entry or the database. *)
From Pybtex Require Import Base.Prelude Base.PyChar Base.PyStr Model.BibtexStr Model.Wrap Model.Bst.
From Pybtex Require Import Proofs.Wrap Proofs.EnginesSort Proofs.EnginesProbe.

Definition flat_buf (b : list value) : str := flat_map (fun v => match as_str v with Some s => s | None => [] end) b.
(* everything written so far, white space aside *)
Definition outx (st : state) : str := nonspace (concat (st_lines st)) ++ nonspace (flat_buf (st_buf st)).
Definition is_code (o : obj) : bool := match o with OFun _ | OBuiltin _ => true | _ => false end.

Record keeps (st st' : state) : Prop := mkKeeps {
  k_out : exists t, outx st' = outx st ++ t;
  k_code : forall n o, is_code o = true -> alookup str_eqb n (st_vars st) = Some o -> alookup str_eqb n (st_vars st') = Some o;
  k_none : forall n, alookup str_eqb n (st_vars st) = None -> alookup str_eqb n (st_vars st') = None;
  k_cur : st_cur st' = st_cur st;
  k_db : st_db st' = st_db st }.

Lemma keeps_refl st : keeps st st.
Proof. constructor; auto. exists []. now rewrite app_nil_r. Qed.
Lemma keeps_trans a b c : keeps a b -> keeps b c -> keeps a c.
Proof.
  intros [[t1 H1] H2 H2' H3 H4] [[t2 K1] K2 K2' K3 K4]. constructor; try congruence; auto.
  exists (t1 ++ t2). now rewrite K1, H1, app_assoc.
Qed.
Ltac kwrap := first [ apply keeps_refl
                    | constructor; [exists []; rewrite app_nil_r; reflexivity | intros ? ? _ Hk; exact Hk | intros ? Hk; exact Hk | reflexivity | reflexivity] ].
Lemma pop_keeps st v st' : pop st = Ok (v, st') -> keeps st st'.
Proof. unfold pop. destruct (st_stack st); [discriminate|]. intros H; inversion H; subst. kwrap. Qed.

Lemma flat_buf_app a b : flat_buf (a ++ b) = flat_buf a ++ flat_buf b.
Proof. unfold flat_buf. apply flat_map_app. Qed.
Lemma write_keeps st v : keeps st (set_out st (st_buf st ++ [v]) (st_lines st)).
Proof.
  constructor; try reflexivity; [|intros n o _ H; exact H|intros n H; exact H].
  exists (nonspace (flat_buf [v])). unfold outx. cbn [st_lines st_buf set_out].
  now rewrite flat_buf_app, nonspace_app, app_assoc.
Qed.
Lemma join_buffer_flat : forall b text, join_buffer b = Ok text -> text = flat_buf b.
Proof.
  induction b as [|v b IH]; cbn; intros text H; [now inversion H|].
  destruct (as_str v) as [s|]; [|discriminate].
  destruct (join_buffer b) as [t| | |]; cbn in H; try discriminate. inversion H; subst. now rewrite (IH t eq_refl).
Qed.
Lemma nonspace_join_nl ls : nonspace (join [c_nl] ls) = nonspace (concat ls).
Proof.
  induction ls as [|l r IH]; [reflexivity|].
  destruct r as [|l2 r]; [cbn; now rewrite app_nil_r|].
  change (join [c_nl] (l :: l2 :: r)) with (l ++ [c_nl] ++ join [c_nl] (l2 :: r)).
  change (concat (l :: l2 :: r)) with (l ++ concat (l2 :: r)).
  rewrite !nonspace_app, IH. reflexivity.
Qed.
Lemma wrap_nonspace s w : wrap s default_width default_indent = Ok w -> nonspace w = nonspace s.
Proof.
  unfold wrap. destruct (wrap_lines s default_width default_indent) as [ls|] eqn:E; [|discriminate].
  intros H; inversion H; subst. rewrite nonspace_join_nl. eapply wrap_lines_content; [|exact E]. reflexivity.
Qed.

(* overwriting a data variable keeps all code bindings *)
Lemma set_vars_data_keeps st n o o' : alookup str_eqb n (st_vars st) = Some o -> is_code o = false ->
  keeps st (set_vars st (aset str_eqb n o' (st_vars st))).
Proof.
  intros Hn Hd. constructor; try reflexivity; [exists []; now rewrite app_nil_r| |].
  - intros n' c Hc Hl. cbn [st_vars set_vars].
    destruct (str_eqb n' n) eqn:E.
    + destruct (str_eqb_spec n' n) as [->|]; [|discriminate]. rewrite Hn in Hl. inversion Hl; subst. congruence.
    + now rewrite (alookup_aset_other _ _ _ _ E).
  - intros n' Hl. cbn [st_vars set_vars].
    destruct (str_eqb n' n) eqn:E.
    + destruct (str_eqb_spec n' n) as [->|]; [|discriminate]. congruence.
    + now rewrite (alookup_aset_other _ _ _ _ E).
Qed.

Section Exec.
  Variable fmt_name : str -> str -> res str.
  Variable cw : char -> Z.

  Lemma assign_keeps st a b st' : assign st a b = Ok st' -> keeps st st'.
  Proof.
    unfold assign. intros H.
    destruct a as [z|s|nm|bd|n]; try discriminate.
    destruct (alookup str_eqb n (st_vars st)) as [[bi|v0|v0|nm|nm|nm| |bd]|] eqn:El; try discriminate.
    - destruct b; try discriminate. inversion H; subst. apply set_vars_data_keeps with (o := OInt v0); auto.
    - destruct (as_str b); try discriminate. inversion H; subst. apply set_vars_data_keeps with (o := OStr v0); auto.
    - destruct b; try discriminate. destruct (st_cur st) as [[key e]|]; try discriminate. inversion H; subst. kwrap.
    - destruct (as_str b); try discriminate. destruct (st_cur st) as [[key e]|]; try discriminate. inversion H; subst. kwrap.
  Qed.
  Lemma do_newline_keeps st st' : do_newline st = Ok st' -> keeps st st'.
  Proof.
    unfold do_newline. intros H.
    destruct (join_buffer (st_buf st)) as [text| | |] eqn:Ej; cbn [bind] in H; try discriminate.
    destruct (wrap text default_width default_indent) as [w| | |] eqn:Ew; cbn [bind] in H; try discriminate.
    inversion H; subst. constructor; try reflexivity; [|intros n o _ Hn; exact Hn|intros n Hn; exact Hn].
    exists []. rewrite app_nil_r. unfold outx. cbn [st_lines st_buf set_out flat_buf flat_map].
    rewrite app_nil_r, concat_app, nonspace_app. cbn [concat]. rewrite app_nil_r, nonspace_app.
    rewrite (wrap_nonspace _ _ Ew), (join_buffer_flat _ _ Ej).
    assert (Hnl : nonspace [c_nl] = []) by reflexivity. rewrite Hnl, app_nil_r. reflexivity.
  Qed.

  Section Step.
    Variable rec : state -> list instr -> res state.
    Variable wh : state -> value -> value -> res state.
    Hypothesis Hrec : forall st p st', rec st p = Ok st' -> keeps st st'.
    Hypothesis Hwh : forall st a b st', wh st a b = Ok st' -> keeps st st'.

    Lemma exec_value_keeps st v st' : exec_value rec st v = Ok st' -> keeps st st'.
    Proof. unfold exec_value. destruct v; try discriminate; apply Hrec. Qed.

    Ltac chain :=
      repeat match goal with
      | H : bind (pop ?s) _ = Ok _ |- keeps ?s _ =>
          let E := fresh "E" in
          destruct (pop s) as [[? ?]| | |] eqn:E; cbn [bind] in H; try discriminate;
          apply (keeps_trans _ _ _ (pop_keeps _ _ _ E)); clear E
      | H : bind ?r _ = Ok _ |- _ =>
          let E := fresh "E" in destruct r as [?| | |] eqn:E; cbn [bind] in H; try discriminate; clear E
      | H : match ?x with _ => _ end = Ok _ |- _ => destruct x; try discriminate
      end.
    Ltac finish :=
      match goal with
      | H : Ok _ = Ok _ |- _ => inversion H; subst; first [kwrap | apply write_keeps]
      | H : rec _ _ = Ok _ |- _ => eapply keeps_trans; [|eapply Hrec; exact H]; kwrap
      | H : wh _ _ _ = Ok _ |- _ => eapply keeps_trans; [|eapply Hwh; exact H]; kwrap
      | H : exec_value rec _ _ = Ok _ |- _ => eapply keeps_trans; [|eapply exec_value_keeps; exact H]; kwrap
      | H : assign _ _ _ = Ok _ |- _ => eapply keeps_trans; [|eapply assign_keeps; exact H]; kwrap
      | H : do_newline _ = Ok _ |- _ => eapply keeps_trans; [|eapply do_newline_keeps; exact H]; kwrap
      end.

    Lemma builtin_step_keeps b st st' : builtin_step fmt_name cw rec wh b st = Ok st' -> keeps st st'.
    Proof.
      intros H. destruct b; cbn [builtin_step] in H; chain; finish.
    Qed.

    Lemma exec_obj_keeps o st st' : exec_obj fmt_name cw rec wh o st = Ok st' -> keeps st st'.
    Proof.
      destruct o; cbn [exec_obj]; intros H; try (apply builtin_step_keeps in H; exact H); chain; finish.
    Qed.

    Lemma step_keeps st i st' : step fmt_name cw rec wh st i = Ok st' -> keeps st st'.
    Proof.
      destruct i; cbn [step]; intros H.
      - inversion H; subst; kwrap.
      - inversion H; subst; kwrap.
      - destruct (vlookup name (st_vars st)); [|discriminate]. now apply exec_obj_keeps in H.
      - chain; finish.
      - inversion H; subst; kwrap.
    Qed.
  End Step.

  Lemma exec_S f st i r : exec fmt_name cw (S f) st (i :: r) =
    (do st' <- step fmt_name cw (exec fmt_name cw f) (while_loop fmt_name cw f) st i; exec fmt_name cw f st' r).
  Proof. reflexivity. Qed.
  Lemma exec_nil fuel st : exec fmt_name cw fuel st [] = Ok st.
  Proof. destruct fuel; reflexivity. Qed.
  Lemma while_S f st pv fv : while_loop fmt_name cw (S f) st pv fv =
    (do st1 <- exec_value (exec fmt_name cw f) st pv;
     do (v, st2) <- pop st1;
     match v with
     | VInt z => if (z <=? 0)%Z then Ok st2
                 else do st3 <- exec_value (exec fmt_name cw f) st2 fv; while_loop fmt_name cw f st3 pv fv
     | _ => Crash
     end).
  Proof. reflexivity. Qed.

  Lemma exec_while_keeps : forall fuel,
    (forall st p st', exec fmt_name cw fuel st p = Ok st' -> keeps st st') /\
    (forall st a b st', while_loop fmt_name cw fuel st a b = Ok st' -> keeps st st').
  Proof.
    induction fuel as [|f [IHe IHw]]; split.
    - intros st [|i r] st' H; cbn in H; [inversion H; subst; apply keeps_refl|discriminate].
    - intros st a b st' H; cbn in H; discriminate.
    - intros st [|i r] st' H; [rewrite exec_nil in H; inversion H; subst; apply keeps_refl|]. rewrite exec_S in H.
      destruct (step fmt_name cw (exec fmt_name cw f) (while_loop fmt_name cw f) st i) as [s1| | |] eqn:E; cbn [bind] in H; try discriminate.
      eapply keeps_trans; [exact (step_keeps (exec fmt_name cw f) (while_loop fmt_name cw f) IHe IHw _ _ _ E)|]. exact (IHe _ _ _ H).
    - intros st a b st' H; rewrite while_S in H.
      destruct (exec_value (exec fmt_name cw f) st a) as [s1| | |] eqn:E1; cbn [bind] in H; try discriminate.
      destruct (pop s1) as [[v s2]| | |] eqn:E2; cbn [bind] in H; try discriminate.
      assert (P2 : keeps st s2).
      { eapply keeps_trans; [exact (exec_value_keeps (exec fmt_name cw f) IHe _ _ _ E1)|]. eapply pop_keeps; eauto. }
      destruct v; try discriminate. destruct (z <=? 0)%Z; [inversion H; subst; exact P2|].
      destruct (exec_value (exec fmt_name cw f) s2 b) as [s3| | |] eqn:E3; cbn [bind] in H; try discriminate.
      eapply keeps_trans; [exact P2|]. eapply keeps_trans; [exact (exec_value_keeps (exec fmt_name cw f) IHe _ _ _ E3)|]. exact (IHw _ _ _ _ H).
  Qed.

  Lemma exec_keeps fuel st p st' : exec fmt_name cw fuel st p = Ok st' -> keeps st st'.
  Proof. apply (proj1 (exec_while_keeps fuel)). Qed.

End Exec.

(* ---------------------------------------------------------------------------------- *)
(* the item marker                                                                     *)
Definition n_cite_ : str := Eval vm_compute in s2l "cite$".
Definition n_write_ : str := Eval vm_compute in s2l "write$".
Definition n_call_type : str := Eval vm_compute in s2l "call.type$".
Definition s_bibitem : str := Eval vm_compute in s2l "\bibitem".

(* the two built-ins the marker needs are what their names say (INTEGERS / STRINGS could shadow them) *)
Definition builtins_ok (vars : list (str * obj)) : Prop :=
  alookup str_eqb n_cite_ vars = Some (OBuiltin B_cite) /\ alookup str_eqb n_write_ vars = Some (OBuiltin B_write).

(* a function body that, at its top level, writes a literal starting with \bibitem and later the
   citation key -- or starts by calling a function that does (depth bounds the chain of calls) *)
Fixpoint emits (depth : nat) (vars : list (str * obj)) (body : list instr) : Prop :=
  (exists pre s mid post, body = pre ++ [IStr s; IId n_write_] ++ mid ++ [IId n_cite_; IId n_write_] ++ post /\
                          startswith s s_bibitem = true) \/
  match depth with
  | O => False
  | S d => exists g gbody post, body = IId g :: post /\ alookup str_eqb (lower g) vars = Some (OFun gbody) /\ emits d vars gbody
  end.

(* the text one item contributes: ... \bibitem-literal ... key ... *)
Definition item_segment (k : str) (seg : str) : Prop :=
  exists u s m t, seg = u ++ nonspace s ++ m ++ nonspace k ++ t /\ startswith s s_bibitem = true.

Section Items.
  Variable fmt_name : str -> str -> res str.
  Variable cw : char -> Z.

  (* running a prefix of a body *)
  Lemma exec_split : forall a b fuel st st', exec fmt_name cw fuel st (a ++ b) = Ok st' ->
    exists f' st1, keeps st st1 /\ exec fmt_name cw f' st1 b = Ok st'.
  Proof.
    induction a as [|i a IH]; intros b fuel st st' H.
    - exists fuel, st. split; [apply keeps_refl|exact H].
    - destruct fuel as [|f]; [discriminate|]. cbn [app] in H. rewrite exec_S in H.
      destruct (step fmt_name cw (exec fmt_name cw f) (while_loop fmt_name cw f) st i) as [s1| | |] eqn:E; cbn [bind] in H; try discriminate.
      destruct (IH b f s1 st' H) as (f' & st1 & K & H').
      exists f', st1. split; [|exact H']. eapply keeps_trans; [|exact K].
      exact (step_keeps fmt_name cw (exec fmt_name cw f) (while_loop fmt_name cw f)
                        (proj1 (exec_while_keeps fmt_name cw f)) (proj2 (exec_while_keeps fmt_name cw f)) _ _ _ E).
  Qed.

  (* v write$, v just pushed *)
  Lemma push_write fuel st v rest st' : alookup str_eqb n_write_ (st_vars st) = Some (OBuiltin B_write) ->
    exec fmt_name cw fuel (push v st) (IId n_write_ :: rest) = Ok st' ->
    exists f', exec fmt_name cw f' (set_out st (st_buf st ++ [v]) (st_lines st)) rest = Ok st'.
  Proof.
    intros Hw H. destruct fuel as [|f]; [discriminate|]. rewrite exec_S in H.
    cbn [step] in H. unfold vlookup in H. change (lower n_write_) with n_write_ in H.
    cbn [st_vars push set_stack] in H. rewrite Hw in H. cbn in H. exists f. exact H.
  Qed.

  Lemma literal_written fuel st s rest st' : alookup str_eqb n_write_ (st_vars st) = Some (OBuiltin B_write) ->
    exec fmt_name cw fuel st (IStr s :: IId n_write_ :: rest) = Ok st' ->
    exists f' st1, outx st1 = outx st ++ nonspace s /\ keeps st st1 /\ exec fmt_name cw f' st1 rest = Ok st'.
  Proof.
    intros Hw H. destruct fuel as [|f]; [discriminate|]. rewrite exec_S in H. cbn [step bind] in H.
    destruct (push_write f st (VStr s) rest st' Hw H) as (f' & H').
    exists f', (set_out st (st_buf st ++ [VStr s]) (st_lines st)). split; [|split; [apply write_keeps|exact H']].
    unfold outx. cbn [st_lines st_buf set_out]. rewrite flat_buf_app, nonspace_app, app_assoc. cbn. now rewrite app_nil_r.
  Qed.

  Lemma key_written fuel st k e rest st' : builtins_ok (st_vars st) -> st_cur st = Some (k, e) ->
    exec fmt_name cw fuel st (IId n_cite_ :: IId n_write_ :: rest) = Ok st' ->
    exists f' st1, outx st1 = outx st ++ nonspace k /\ keeps st st1 /\ exec fmt_name cw f' st1 rest = Ok st'.
  Proof.
    intros [Hc Hw] Hcur H. destruct fuel as [|f]; [discriminate|]. rewrite exec_S in H.
    cbn [step] in H. unfold vlookup in H. change (lower n_cite_) with n_cite_ in H. rewrite Hc in H.
    cbn [exec_obj builtin_step] in H. rewrite Hcur in H. cbn [bind] in H.
    destruct (push_write f st (VStr k) rest st' Hw H) as (f' & H').
    exists f', (set_out st (st_buf st ++ [VStr k]) (st_lines st)). split; [|split; [apply write_keeps|exact H']].
    unfold outx. cbn [st_lines st_buf set_out]. rewrite flat_buf_app, nonspace_app, app_assoc. cbn. now rewrite app_nil_r.
  Qed.

  Lemma keeps_builtins st st' : keeps st st' -> builtins_ok (st_vars st) -> builtins_ok (st_vars st').
  Proof. intros K [H1 H2]. split; apply (k_code _ _ K); auto. Qed.

  (* a body that `emits`, executed successfully on the entry of citation k *)
  Lemma emits_segment : forall depth vars body fuel st k e st',
    emits depth vars body -> builtins_ok (st_vars st) ->
    (forall n o, is_code o = true -> alookup str_eqb n vars = Some o -> alookup str_eqb n (st_vars st) = Some o) ->
    st_cur st = Some (k, e) ->
    exec fmt_name cw fuel st body = Ok st' ->
    keeps st st' /\ exists seg, outx st' = outx st ++ seg /\ item_segment k seg.
  Proof.
    induction depth as [|d IH]; intros vars body fuel st k e st' Hem Hb Hv Hcur H; cbn [emits] in Hem.
    1: destruct Hem as [Hem|[]]. 2: destruct Hem as [Hem|Hem].
    1,2: destruct Hem as (pre & s & mid & post & -> & Hs);
         destruct (exec_split _ _ _ _ _ H) as (f1 & s1 & K1 & H1); cbn [app] in H1;
         destruct (literal_written f1 s1 s _ st' (proj2 (keeps_builtins _ _ K1 Hb)) H1) as (f2 & s2 & O2 & K2 & H2);
         destruct (exec_split _ _ _ _ _ H2) as (f3 & s3 & K3 & H3); cbn [app] in H3;
         assert (K13 : keeps st s3) by (eapply keeps_trans; [exact K1|eapply keeps_trans; [exact K2|exact K3]]);
         assert (Hcur3 : st_cur s3 = Some (k, e)) by (rewrite (k_cur _ _ K13); exact Hcur);
         destruct (key_written f3 s3 k e _ st' (keeps_builtins _ _ K13 Hb) Hcur3 H3) as (f4 & s4 & O4 & K4 & H4);
         assert (K5 : keeps s4 st') by (apply (proj1 (exec_while_keeps fmt_name cw f4)) with (p := post); exact H4);
         (split; [eapply keeps_trans; [exact K13|eapply keeps_trans; [exact K4|exact K5]]|]);
         destruct (k_out _ _ K1) as [u Hu]; destruct (k_out _ _ K3) as [m Hm]; destruct (k_out _ _ K5) as [t Ht];
         exists (u ++ nonspace s ++ m ++ nonspace k ++ t); (split; [|exists u, s, m, t; auto]);
         rewrite Ht, O4, Hm, O2, Hu; rewrite <- !app_assoc; reflexivity.
    destruct Hem as (g & gbody & post & -> & Hg & Hem).
    destruct fuel as [|f]; [discriminate|]. rewrite exec_S in H. cbn [step] in H. unfold vlookup in H.
    rewrite (Hv _ (OFun gbody) eq_refl Hg) in H. cbn [exec_obj] in H.
    destruct (exec fmt_name cw f st gbody) as [s1| | |] eqn:E; cbn [bind] in H; try discriminate.
    destruct (IH vars gbody f st k e s1 Hem Hb Hv Hcur E) as (K1 & seg & Hseg & (u & s & m & t & -> & Hs)).
    assert (K2 : keeps s1 st') by (apply (proj1 (exec_while_keeps fmt_name cw f)) with (p := post); exact H).
    split; [eapply keeps_trans; eauto|]. destruct (k_out _ _ K2) as [t2 Ht2].
    exists (u ++ nonspace s ++ m ++ nonspace k ++ t ++ t2). split.
    - rewrite Ht2, Hseg. rewrite <- !app_assoc. reflexivity.
    - exists u, s, m, (t ++ t2). auto.
  Qed.
End Items.

(* ---------------------------------------------------------------------------------- *)
(* ITERATE {f}                                                                          *)
Definition emit_depth : nat := 4.
(* what f does for an entry of type t, judged on the variable table `vars` of the style:
   f is a user function that emits, or f is call.type$ and the type's function (default.type for an
   unknown type) emits *)
Definition good_call (vars : list (str * obj)) (f : str) (t : str) : Prop :=
  (exists body, alookup str_eqb (lower f) vars = Some (OFun body) /\ emits emit_depth vars body) \/
  (alookup str_eqb (lower f) vars = Some (OBuiltin B_call_type) /\
   ((exists tb, alookup str_eqb (lower t) vars = Some (OFun tb) /\ emits emit_depth vars tb) \/
    (alookup str_eqb (lower t) vars = None /\
     exists db, alookup str_eqb nm_default_type vars = Some (OFun db) /\ emits emit_depth vars db))).

(* the interpreter still has the style's code *)
Definition has_code (vars : list (str * obj)) (st : state) : Prop :=
  builtins_ok (st_vars st) /\
  (forall n o, is_code o = true -> alookup str_eqb n vars = Some o -> alookup str_eqb n (st_vars st) = Some o) /\
  (forall n, alookup str_eqb n vars = None -> alookup str_eqb n (st_vars st) = None).

Section Iterate.
  Variable fmt_name : str -> str -> res str.
  Variable cw : char -> Z.

  Lemma has_code_keeps vars st st' : keeps st st' -> has_code vars st -> has_code vars st'.
  Proof.
    intros K (Hb & Hc & Hn). split; [eapply keeps_builtins; eauto|]. split.
    - intros n o Ho Hl. apply (k_code _ _ K); auto.
    - intros n Hl. apply (k_none _ _ K); auto.
  Qed.

  Lemma exec_nil_ok fuel st st' : exec fmt_name cw fuel st [] = Ok st' -> st' = st.
  Proof. rewrite exec_nil. now inversion 1. Qed.

  Lemma visit_segment vars fuel f st k e st' d :
    has_code vars st -> st_db st = Some d -> alookup str_eqb k (r_entries d) = Some e ->
    good_call vars f (e_type e) ->
    visit fmt_name cw fuel f st k = Ok st' ->
    has_code vars st' /\ st_db st' = Some d /\ exists seg, outx st' = outx st ++ seg /\ item_segment k seg.
  Proof.
    intros Hcode Hdb He Hg H. unfold visit in H. rewrite Hdb, He in H.
    set (st0 := set_cur st (Some (k, e))) in *.
    assert (Hcode0 : has_code vars st0) by exact Hcode.
    assert (Hcur0 : st_cur st0 = Some (k, e)) by reflexivity.
    destruct Hcode0 as (Hb & Hc & Hn).
    assert (Fin : forall st1, keeps st0 st1 -> (exists seg, outx st1 = outx st0 ++ seg /\ item_segment k seg) ->
                  has_code vars st1 /\ st_db st1 = Some d /\ exists seg, outx st1 = outx st ++ seg /\ item_segment k seg).
    { intros st1 K Hs. split; [eapply has_code_keeps; [exact K|exact Hcode]|]. split; [rewrite (k_db _ _ K); exact Hdb|exact Hs]. }
    destruct fuel as [|f0]; [discriminate|]. rewrite exec_S in H. cbn [step] in H. unfold vlookup in H.
    destruct Hg as [(body & Hf & Hem)|(Hf & Ht)].
    - rewrite (Hc _ (OFun body) eq_refl Hf) in H. cbn [exec_obj] in H.
      destruct (exec fmt_name cw f0 st0 body) as [s1| | |] eqn:E; cbn [bind] in H; try discriminate.
      apply exec_nil_ok in H. subst st'.
      destruct (emits_segment fmt_name cw _ vars body f0 st0 k e s1 Hem Hb Hc Hcur0 E) as (K & Hs). apply Fin; auto.
    - rewrite (Hc _ (OBuiltin B_call_type) eq_refl Hf) in H. cbn [exec_obj builtin_step] in H. rewrite Hcur0 in H. unfold vlookup in H.
      destruct Ht as [(tb & Htb & Hem)|(Hnone & db & Hdb' & Hem)].
      + rewrite (Hc _ (OFun tb) eq_refl Htb) in H.
        destruct (exec fmt_name cw f0 st0 [IId (e_type e)]) as [s1| | |] eqn:E; cbn [bind] in H; try discriminate.
        apply exec_nil_ok in H. subst st'.
        destruct f0 as [|f1]; [discriminate|]. rewrite exec_S in E. cbn [step] in E. unfold vlookup in E.
        rewrite (Hc _ (OFun tb) eq_refl Htb) in E. cbn [exec_obj] in E.
        destruct (exec fmt_name cw f1 st0 tb) as [s2| | |] eqn:E2; cbn [bind] in E; try discriminate.
        apply exec_nil_ok in E. subst s1.
        destruct (emits_segment fmt_name cw _ vars tb f1 st0 k e s2 Hem Hb Hc Hcur0 E2) as (K & Hs). apply Fin; auto.
      + rewrite (Hn _ Hnone) in H. cbn [st_vars add_warn] in H. unfold vlookup in H.
        change (lower nm_default_type) with nm_default_type in H.
        set (stw := add_warn st0 [WType]) in *.
        assert (Kw : keeps st0 stw) by (unfold stw; kwrap).
        assert (Hdbw : alookup str_eqb nm_default_type (st_vars stw) = Some (OFun db)) by (apply (Hc _ (OFun db) eq_refl Hdb')).
        change (st_vars stw) with (st_vars st0) in Hdbw. rewrite Hdbw in H.
        destruct (exec fmt_name cw f0 stw [IId nm_default_type]) as [s1| | |] eqn:E; cbn [bind] in H; try discriminate.
        apply exec_nil_ok in H. subst st'.
        destruct f0 as [|f1]; [discriminate|]. rewrite exec_S in E. cbn [step] in E. unfold vlookup in E.
        change (lower nm_default_type) with nm_default_type in E. change (st_vars stw) with (st_vars st0) in E. rewrite Hdbw in E. cbn [exec_obj] in E.
        destruct (exec fmt_name cw f1 stw db) as [s2| | |] eqn:E2; cbn [bind] in E; try discriminate.
        apply exec_nil_ok in E. subst s1.
        destruct (emits_segment fmt_name cw _ vars db f1 stw k e s2 Hem Hb Hc Hcur0 E2) as (K & Hs).
        apply Fin; [eapply keeps_trans; eauto|exact Hs].
  Qed.

  (* ITERATE over the citations: one item segment per citation, in order *)
  Lemma visit_all_segments vars fuel f d : forall keys st st',
    has_code vars st -> st_db st = Some d ->
    (forall k, In k keys -> exists e, alookup str_eqb k (r_entries d) = Some e /\ good_call vars f (e_type e)) ->
    visit_all fmt_name cw fuel f keys st = Ok st' ->
    exists segs, outx st' = outx st ++ concat segs /\ Forall2 item_segment keys segs.
  Proof.
    induction keys as [|k r IH]; intros st st' Hcode Hdb Hk H; cbn [visit_all] in H.
    - inversion H; subst. exists []. split; [now rewrite app_nil_r|constructor].
    - destruct (visit fmt_name cw fuel f st k) as [s1| | |] eqn:E; cbn [bind] in H; try discriminate.
      destruct (Hk k (or_introl eq_refl)) as (e & He & Hg).
      destruct (visit_segment vars fuel f st k e s1 d Hcode Hdb He Hg E) as (Hcode1 & Hdb1 & seg & Hseg & Hitem).
      destruct (IH s1 st' Hcode1 Hdb1 (fun x Hx => Hk x (or_intror Hx)) H) as (segs & Hsegs & HF).
      exists (seg :: segs). split; [|constructor; auto]. rewrite Hsegs, Hseg. cbn. now rewrite <- app_assoc.
  Qed.

  Theorem iterate_items vars fuel st f o d st' :
    vlookup f (st_vars st) = Some o -> has_code vars st -> st_db st = Some d ->
    (forall k, In k (st_cites st) -> exists e, alookup str_eqb k (r_entries d) = Some e /\ good_call vars f (e_type e)) ->
    run_command fmt_name cw fuel st (Cmd nm_iterate [[IId f]]) = Ok st' ->
    exists segs, outx st' = outx st ++ concat segs /\ Forall2 item_segment (st_cites st) segs.
  Proof.
    intros Hf Hcode Hdb Hk H. rewrite (run_iterate fmt_name cw _ _ _ _ Hf), iterate_is_visit_all in H.
    eapply visit_all_segments; eauto.
  Qed.
End Iterate.
