(* Proofs/BstArity.v -- command names and argument counts: the table, case-insensitivity, and the
   finding F21 (fewer groups than the arity are accepted when another command follows). *)
From Pybtex Require Import Base.Prelude Base.PyChar Base.PyStr Model.BstParser Spec.BstPrint.
Local Open Scope N_scope.

(* the table of the model, spelt with code points there, is the documented one *)
Lemma commands_table :
  commands = [ (s2l "ENTRY", 3); (s2l "EXECUTE", 1); (s2l "FUNCTION", 2); (s2l "INTEGERS", 1);
               (s2l "ITERATE", 1); (s2l "MACRO", 2); (s2l "READ", 0); (s2l "REVERSE", 1);
               (s2l "SORT", 0); (s2l "STRINGS", 1) ]%nat.
Proof. reflexivity. Qed.

Lemma to_upper_lower c : to_upper (to_lower c) = to_upper c.
Proof.
  unfold to_upper, to_lower, is_upper, is_lower.
  destruct ((65 <=? c) && (c <=? 90)) eqn:E.
  - apply andb_prop in E as [E1 E2]. apply N.leb_le in E1, E2.
    assert (H1 : ((97 <=? c + 32) && (c + 32 <=? 122)) = true)
      by (apply andb_true_intro; split; apply N.leb_le; lia).
    assert (H2 : ((97 <=? c) && (c <=? 122)) = false).
    { apply andb_false_iff. left. apply N.leb_gt. lia. }
    rewrite H1, H2. lia.
  - reflexivity.
Qed.

(* command names are looked up without regard to (ASCII) case *)
Lemma arity_caseless name : arity (lower name) = arity name /\ arity (upper name) = arity name.
Proof.
  unfold arity, upper, lower. rewrite !map_map. split; f_equal; apply map_ext; intros c.
  - apply to_upper_lower.
  - apply to_upper_idem.
Qed.

(* ---- argument counts *)
Lemma parse_args_length fuel : forall n s ln gs st, parse_args fuel n s ln = Ok (gs, st) -> (length gs <= n)%nat.
Proof.
  induction n as [|k IH]; intros s ln gs st; cbn [parse_args].
  - intros H. injection H as <- _. cbn. lia.
  - destruct (optional [P_LBRACE] s ln) as [[o [s1 ln1]]|c l| |]; cbn [bind]; try discriminate.
    destruct o as [t|].
    2:{ intros H. injection H as <- _. cbn. lia. }
    destruct (parse_group fuel s1 ln1) as [[grp [s2 ln2]]|c l| |]; cbn [bind]; try discriminate.
    destruct (parse_args fuel k s2 ln2) as [[gs' st']|c l| |] eqn:E; cbn [bind]; try discriminate.
    intros H. injection H as <- _. cbn [fst length]. apply IH in E. lia.
Qed.

Definition arity_at_most (c : command) : Prop := exists n, arity (fst c) = Some n /\ (length (snd c) <= n)%nat.
Definition arity_exact (c : command) : Prop := arity (fst c) = Some (length (snd c)).

Lemma parse_command_arity fuel s ln c st : parse_command fuel s ln = Ok (c, st) -> arity_at_most c.
Proof.
  unfold parse_command.
  destruct (required [P_NAME] true s ln) as [[[p name] [s1 ln1]]|c0 l| |]; cbn [bind]; try discriminate.
  destruct (arity name) as [n|] eqn:Ear; [|discriminate].
  destruct (parse_args fuel n s1 ln1) as [[gs st']|c0 l| |] eqn:E; cbn [bind]; try discriminate.
  intros H. injection H as <- _. exists n. cbn [fst snd]. split; [exact Ear|]. now apply parse_args_length in E.
Qed.

Lemma parse_loop_arity : forall fuel s ln p, parse_loop fuel s ln = Ok p -> Forall arity_at_most p.
Proof.
  induction fuel as [|f IH]; intros s ln p; cbn [parse_loop]; [discriminate|].
  destruct (parse_command (S (length s)) s ln) as [[c [s1 ln1]]|c0 l| |] eqn:E; try discriminate.
  - destruct (parse_loop f s1 ln1) as [rest|c0 l| |] eqn:E2; cbn [bind]; try discriminate.
    intros H. injection H as <-. constructor; [eapply parse_command_arity; exact E|eapply IH; exact E2].
  - destruct (c0 =? cls_eof); [|discriminate]. intros H. injection H as <-. constructor.
Qed.

(* what does hold: an accepted command never has MORE groups than its arity, and its name is one
   of the ten *)
Theorem arity_respected_partial : forall src p, parse_string src = Ok p -> Forall arity_at_most p.
Proof. intros src p H. unfold parse_string, parse_text in H. eapply parse_loop_arity; exact H. Qed.

(* what the property text asks for and the code does not do (F21): a command followed by fewer
   groups than its arity is accepted when another command follows *)
Theorem arity_respected_refuted : exists src p, parse_string src = Ok p /\ ~ Forall arity_exact p.
Proof.
  exists (s2l "FUNCTION {a} READ"), [ (s2l "FUNCTION", [[TId (s2l "a")]]); (s2l "READ", []) ].
  split; [vm_compute; reflexivity|].
  intros H. inversion H as [|? ? Hc _]; subst. vm_compute in Hc. discriminate.
Qed.
