(* Proofs/BstAccepted.v -- every accepted program is well-formed (wf_programb): its names are NAME
   tokens, its commands carry exactly their arity's groups, its integers print with at most 4300
   digits, its strings contain no double quote.  With Proofs/BstSound: accepted = printed form of a
   well-formed program. *)
From Pybtex Require Import Base.Prelude Base.PyChar Base.PyStr Model.BstParser Spec.BstPrint
  Proofs.BstLex Proofs.BstRoundtrip Proofs.BstErrors Proofs.BstArity Proofs.BstSound.
Local Open Scope N_scope.

(* ---- the canonical decimal form is never longer than the digits that were read *)
Lemma digits_fuel_length : forall fuel L n acc, n < 10 ^ N.of_nat L -> (1 <= L)%nat ->
  (length (digits_fuel fuel n acc) <= L + length acc)%nat.
Proof.
  induction fuel as [|f IH]; intros L n acc Hn HL; cbn [digits_fuel]; [lia|].
  destruct (n / 10 =? 0) eqn:E; [cbn [length]; lia|].
  apply N.eqb_neq in E.
  destruct L as [|[|L']]; [lia| |].
  - exfalso. apply E. apply N.div_small. exact Hn.
  - assert (Hq : n / 10 < 10 ^ N.of_nat (S L')).
    { apply N.div_lt_upper_bound; [discriminate|]. rewrite <- N.pow_succ_r'. now rewrite <- Nat2N.inj_succ. }
    specialize (IH (S L') (n / 10) ((48 + n mod 10) :: acc) Hq ltac:(lia)). cbn [length] in IH. lia.
Qed.

Lemma digits_value_bound ds : forallb is_digit ds = true ->
  exists n, digits_value ds = Z.of_N n /\ n < 10 ^ N.of_nat (length ds).
Proof.
  induction ds as [|d a IH] using rev_ind; intros H.
  - exists 0. split; reflexivity.
  - rewrite forallb_app in H. apply andb_prop in H as [Ha Hd]. cbn in Hd. rewrite andb_true_r in Hd.
    destruct (IH Ha) as (n & Hv & Hb). apply digit_cases in Hd.
    exists (n * 10 + (d - 48)). split.
    + rewrite digits_value_snoc, Hv. lia.
    + rewrite app_length. cbn [length]. rewrite Nat.add_1_r, Nat2N.inj_succ, N.pow_succ_r'.
      assert (d - 48 <= 9) by (repeat (destruct Hd as [->|Hd]; [cbv; discriminate|]); subst; cbv; discriminate).
      lia.
Qed.

Lemma py_int_digits_ok t z : py_int t = Ok z -> digits_okb z = true.
Proof.
  unfold py_int.
  destruct (match t with [] => (false, t) | m :: u => if m =? c_hyphen then (true, u) else (false, t) end) as [neg ds].
  destruct ds as [|d ds]; [discriminate|].
  destruct (forallb is_digit (d :: ds)) eqn:Hall; cbn [negb]; [|discriminate].
  destruct (max_str_digits <? Z.of_nat (length (d :: ds)))%Z eqn:Hlen; [discriminate|].
  apply Z.ltb_ge in Hlen. intros H. injection H as <-.
  destruct (digits_value_bound _ Hall) as (n & Hv & Hb).
  assert (Habs : Z.abs_N (if neg then (- digits_value (d :: ds))%Z else digits_value (d :: ds)) = n).
  { rewrite Hv. destruct neg; [rewrite Zabs2N.inj_opp|]; apply N2Z.id || (rewrite <- (N2Z.id n) at 2; apply Zabs2N.abs_N_nonneg; lia). }
  unfold digits_okb. rewrite Habs. apply Z.leb_le.
  assert (Hl : (length (N_digits n) <= length (d :: ds))%nat).
  { unfold N_digits. pose proof (digits_fuel_length (S (N.to_nat (N.log2 n))) (length (d :: ds)) n [] Hb ltac:(cbn; lia)) as H.
    cbn [length] in *. lia. }
  lia.
Qed.

(* ---- literals *)
Lemma literal_wf p v s' t : match_pat p (v ++ s') = Some (v, s') -> literal p v = Ok t -> wf_tokb t = true.
Proof.
  intros Hm Hl. destruct p; cbn [literal] in Hl; try discriminate.
  - destruct (match_name_inv _ _ Hm) as [[Hne Hall] _]. unfold process_identifier in Hl.
    destruct v as [|c tl]; [discriminate|]. destruct (c =? 39) eqn:Ec; injection Hl as <-; cbn [wf_tokb].
    + cbn [forallb] in Hall. now apply andb_prop in Hall as [_ H].
    + cbn [wf_nameb hd]. rewrite Hall, Ec. reflexivity.
  - destruct (match_string_shape _ _ _ Hm) as (body & -> & Hb).
    unfold process_string_literal in Hl. rewrite N.eqb_refl in Hl.
    change (c_quote :: body ++ [c_quote]) with ((c_quote :: body) ++ [c_quote]) in Hl.
    rewrite last_last, N.eqb_refl in Hl. cbn [andb] in Hl. rewrite removelast_last in Hl. injection Hl as <-. exact Hb.
  - unfold process_int_literal in Hl.
    destruct (py_int (strip_hash v)) as [z|? ?| |] eqn:Ez; cbn [bind] in Hl; try discriminate.
    injection Hl as <-. cbn [wf_tokb]. eapply py_int_digits_ok; exact Ez.
Qed.

Lemma parse_group_wf : forall fuel s ln items st, parse_group fuel s ln = Ok (items, st) -> forallb wf_tokb items = true.
Proof.
  induction fuel as [|f IH]; intros s ln items st; cbn [parse_group]; [discriminate|].
  destruct (required group_pats false s ln) as [[[p v] [s1 ln1]]|c l| |] eqn:E; cbn [bind]; try discriminate.
  destruct (required_shape _ _ _ _ _ _ _ _ E) as (g & -> & Hg & Hm).
  assert (Hlit : forall t, literal p v = Ok t ->
     (do r <- parse_group f s1 ln1; Ok (t :: fst r, snd r)) = Ok (items, st) -> forallb wf_tokb items = true).
  { intros t Hl. destruct (parse_group f s1 ln1) as [[items' st']|c l| |] eqn:E1; cbn [bind fst snd]; try discriminate.
    intros H. injection H as <- _. cbn [forallb]. rewrite (literal_wf _ _ _ _ Hm Hl), (IH _ _ _ _ E1). reflexivity. }
  destruct p.
  - destruct (literal P_NAME v) as [t|c l| |] eqn:El; cbn [bind]; try discriminate. now apply Hlit.
  - destruct (literal P_STRING v) as [t|c l| |] eqn:El; cbn [bind]; try discriminate. now apply Hlit.
  - destruct (literal P_INTEGER v) as [t|c l| |] eqn:El; cbn [bind]; try discriminate. now apply Hlit.
  - destruct (parse_group f s1 ln1) as [[body [s2 ln2]]|c l| |] eqn:E1; cbn [bind]; try discriminate.
    destruct (parse_group f s2 ln2) as [[items' st']|c l| |] eqn:E2; cbn [bind fst snd]; try discriminate.
    intros H. injection H as <- _. cbn [forallb wf_tokb]. rewrite (IH _ _ _ _ E1), (IH _ _ _ _ E2). reflexivity.
  - intros H. injection H as <- _. reflexivity.
Qed.

Lemma parse_args_wf fuel : forall n s ln gs st, parse_args fuel n s ln = Ok (gs, st) -> forallb (forallb wf_tokb) gs = true.
Proof.
  induction n as [|k IH]; intros s ln gs st; cbn [parse_args].
  - intros H. injection H as <- _. reflexivity.
  - destruct (required [P_LBRACE] false s ln) as [[[p v] [s1 ln1]]|c l| |]; cbn [bind]; try discriminate.
    destruct (parse_group fuel s1 ln1) as [[grp [s2 ln2]]|c l| |] eqn:E1; cbn [bind]; try discriminate.
    destruct (parse_args fuel k s2 ln2) as [[gs2 st2]|c l| |] eqn:E2; cbn [bind fst snd]; try discriminate.
    intros H. injection H as <- _. cbn [forallb]. rewrite (parse_group_wf _ _ _ _ _ E1), (IH _ _ _ _ E2). reflexivity.
Qed.

Lemma parse_command_wf fuel s ln c st : parse_command fuel s ln = Ok (c, st) -> wf_commandb c = true.
Proof.
  unfold parse_command.
  destruct (required [P_NAME] true s ln) as [[[p name] [s1 ln1]]|c0 l| |] eqn:E; cbn [bind]; try discriminate.
  destruct (required_shape _ _ _ _ _ _ _ _ E) as (g & -> & Hg & Hm).
  assert (p = P_NAME).
  { unfold required, get_token in E. destruct (eat_whitespace (g ++ name ++ s1) ln) as [r l0]. destruct r; [discriminate|].
    cbn [first_match] in E. destruct (match_pat P_NAME (c0 :: r)) as [[? ?]|]; cbn [bind fst snd] in E; [|discriminate].
    now injection E as <- _ _ _. }
  subst p. destruct (match_name_inv _ _ Hm) as [[Hne Hall] _].
  destruct (arity name) as [n|] eqn:Ear; [|discriminate].
  destruct (parse_args fuel n s1 ln1) as [[gs st']|c0 l| |] eqn:Ea; cbn [bind fst snd]; try discriminate.
  intros H. injection H as <- _. unfold wf_commandb. cbn [fst snd]. rewrite Ear.
  rewrite (parse_args_length _ _ _ _ _ _ Ea), Nat.eqb_refl, (parse_args_wf _ _ _ _ _ _ Ea), !andb_true_r.
  destruct name; [congruence|exact Hall].
Qed.

Lemma parse_loop_wf : forall fuel s ln p, parse_loop fuel s ln = Ok p -> wf_programb p = true.
Proof.
  induction fuel as [|f IH]; intros s ln p; cbn [parse_loop]; [discriminate|].
  destruct (parse_command (S (length s)) s ln) as [[c [s1 ln1]]|c0 l| |] eqn:E; try discriminate.
  - destruct (parse_loop f s1 ln1) as [rest|c0 l| |] eqn:E2; cbn [bind]; try discriminate.
    intros H. injection H as <-. cbn [wf_programb forallb]. fold (wf_programb rest).
    rewrite (parse_command_wf _ _ _ _ _ E), (IH _ _ _ E2). reflexivity.
  - destruct (c0 =? cls_eof); [|discriminate]. intros H. injection H as <-. reflexivity.
Qed.

(* accepted = the printed form of a well-formed program *)
Theorem accepted_is_wf_and_printed : forall src p, parse_string src = Ok p ->
  wf_programb p = true /\
  exists g, layout_of (flat_program p) (text_of_string src) g /\ forallb is_space g = true.
Proof.
  intros src p H. split; [|now apply accepted_is_printed].
  unfold parse_string, parse_text in H. eapply parse_loop_wf; exact H.
Qed.
