(* Proofs/WritersPerson.v -- a person written as the texts of its parts (tokens joined by one space)
   and re-read by Person(first=.., middle=.., ...) (split_tex_string on each text) is the same person (C02). *)
From Pybtex Require Import Base.Prelude Base.PyChar Base.PyStr Model.BibtexStr Model.Names Model.Scanner Model.BibParser Model.Writers
  Proofs.WritersTree.
Local Open Scope N_scope.

(* a plain character: not whitespace, not one of ~ \ { } *)
Definition plain (c : char) : bool :=
  negb (is_space c || (c =? c_tilde) || (c =? c_bslash) || is_lbrace c || is_rbrace c).
Definition plain_tok (t : str) : Prop := t <> [] /\ forallb plain t = true.
Definition plain_person (p : person) : Prop :=
  Forall plain_tok (p_first p) /\ Forall plain_tok (p_middle p) /\ Forall plain_tok (p_prelast p) /\
  Forall plain_tok (p_last p) /\ Forall plain_tok (p_lineage p).

Lemma plain_facts c : plain c = true ->
  is_space c = false /\ (c =? c_tilde) = false /\ (c =? c_bslash) = false /\ is_lbrace c = false /\ is_rbrace c = false.
Proof.
  unfold plain. intros H. apply negb_true_iff in H.
  apply orb_false_iff in H as [H H5]. apply orb_false_iff in H as [H H4].
  apply orb_false_iff in H as [H H3]. apply orb_false_iff in H as [H1 H2]. auto.
Qed.

Definition sepjoin (ts : list str) : str := flat_map (fun u => c_space :: u) ts.
Lemma join_sepjoin t ts : join [c_space] (t :: ts) = t ++ sepjoin ts.
Proof.
  revert t; induction ts as [|u us IH]; intros t; [cbn; now rewrite app_nil_r|].
  change (join [c_space] (t :: u :: us)) with (t ++ [c_space] ++ join [c_space] (u :: us)).
  rewrite IH. reflexivity.
Qed.

Lemma space_run_plain prev c t : plain c = true -> space_run prev (c :: t) = 0%nat.
Proof. intros H. destruct (plain_facts c H) as (H1 & H2 & H3 & _). cbn [space_run]. now rewrite H1, H2, H3. Qed.

Lemma space_run_space_plain prev d t : plain d = true -> space_run prev (c_space :: d :: t) = 1%nat.
Proof.
  intros H. destruct (plain_facts d H) as (H1 & H2 & H3 & _).
  cbn [space_run]. change (is_space c_space) with true. cbv iota. now rewrite H1, H2, H3.
Qed.

Lemma re_split_plain : forall ts, Forall plain_tok ts -> forall t, forallb plain t = true ->
  forall fuel prev acc, (length (t ++ sepjoin ts) < fuel)%nat ->
  re_split_go fuel sep_space prev (t ++ sepjoin ts) acc = (rev acc ++ t) :: ts.
Proof.
  induction ts as [|u us IHts]; intros Hts t.
  - induction t as [|c t IHt]; intros Ht fuel prev acc Hf; (destruct fuel as [|f]; [cbn in Hf; lia|]).
    + cbn. now rewrite app_nil_r.
    + cbn [forallb] in Ht. apply andb_prop in Ht as [Hc Ht].
      cbn [app re_split_go]. unfold sep_space at 1. rewrite space_run_plain by exact Hc.
      rewrite IHt; [|exact Ht|cbn [app length] in Hf; lia]. cbn [rev]. now rewrite <- app_assoc.
  - inversion Hts as [|? ? [Hune Hu] Hus]; subst.
    induction t as [|c t IHt]; intros Ht fuel prev acc Hf; (destruct fuel as [|f]; [cbn in Hf; lia|]).
    + destruct u as [|d u']; [congruence|]. cbn [forallb] in Hu. apply andb_prop in Hu as [Hd Hu'].
      cbn [app sepjoin flat_map re_split_go]. unfold sep_space at 1.
      rewrite space_run_space_plain by exact Hd.
      cbn [nth skipn]. fold (sepjoin us).
      rewrite (IHts Hus (d :: u')); [|cbn; now rewrite Hd|cbn [app length sepjoin flat_map] in Hf; rewrite app_length in Hf; cbn [app length]; fold (sepjoin us) in Hf; rewrite app_length; cbn [length] in *; lia].
      cbn [rev app]. now rewrite app_nil_r.
    + cbn [forallb] in Ht. apply andb_prop in Ht as [Hc Ht].
      cbn [app re_split_go]. unfold sep_space at 1. rewrite space_run_plain by exact Hc.
      rewrite IHt; [|exact Ht|cbn [app length] in Hf; lia]. cbn [rev]. now rewrite <- app_assoc.
Qed.

Lemma partition_brace_none s : forallb plain s = true \/ forallb (fun c => negb (is_lbrace c)) s = true ->
  forallb (fun c => negb (is_lbrace c)) s = true -> partition_brace s = (s, false, []).
Proof.
  intros _. induction s as [|c s IH]; cbn; intros H; [reflexivity|].
  apply andb_prop in H as [Hc H]. apply negb_true_iff in Hc. rewrite Hc, IH by exact H. reflexivity.
Qed.

Lemma forallb_app' {X} (p : X -> bool) a b : forallb p (a ++ b) = forallb p a && forallb p b.
Proof. induction a; cbn; [reflexivity|]. now rewrite IHa, andb_assoc. Qed.

Lemma sepjoin_nolbrace ts : Forall plain_tok ts -> forallb (fun c => negb (is_lbrace c)) (sepjoin ts) = true.
Proof.
  induction 1 as [|u us [_ Hu] _ IH]; [reflexivity|]. cbn [sepjoin flat_map]. fold (sepjoin us).
  cbn [app forallb]. change (negb (is_lbrace c_space)) with true. cbn [andb].
  rewrite forallb_app', IH, andb_true_r.
  clear -Hu. induction u as [|c u IHu]; cbn in *; [reflexivity|]. apply andb_prop in Hu as [Hc Hu].
  destruct (plain_facts c Hc) as (_ & _ & _ & H4 & _). now rewrite H4, IHu.
Qed.
Lemma plain_nolbrace t : forallb plain t = true -> forallb (fun c => negb (is_lbrace c)) t = true.
Proof.
  induction t as [|c u IHu]; cbn; [reflexivity|]. intros Hu. apply andb_prop in Hu as [Hc Hu].
  destruct (plain_facts c Hc) as (_ & _ & _ & H4 & _). now rewrite H4, IHu.
Qed.

Lemma lstrip_head c t : is_space c = false -> lstrip (c :: t) = c :: t.
Proof. intros H. cbn. now rewrite H. Qed.

Lemma strip_plain t : forallb plain t = true -> strip t = t.
Proof.
  intros H. unfold strip, rstrip.
  assert (L : lstrip t = t).
  { destruct t as [|c t]; [reflexivity|]. cbn in H. apply andb_prop in H as [Hc _]. apply lstrip_head. now destruct (plain_facts c Hc). }
  rewrite L.
  assert (R : lstrip (rev t) = rev t).
  { destruct (rev t) as [|c r] eqn:E; [reflexivity|]. apply lstrip_head.
    assert (Hin : In c t) by (apply in_rev; rewrite E; now left).
    rewrite forallb_forall in H. now destruct (plain_facts c (H c Hin)). }
  rewrite R. apply rev_involutive.
Qed.

Lemma concat1 (x : str) : concat [x] = x.
Proof. cbn. apply app_nil_r. Qed.

Definition nonempty_str (p : list char) : bool := negb match p with [] => true | _ :: _ => false end.

Lemma split_finish (tokens : list str) : tokens <> [] -> Forall plain_tok tokens ->
  match (let '(result1, wp1) :=
           match removelast tokens with
           | [] => ([], [last tokens []])
           | w :: ws => (concat [w] :: ws, [last tokens []])
           end in
         Some match wp1 with [] => result1 | _ :: _ => result1 ++ [concat wp1] end)
  with
  | Some r => Ok (filter nonempty_str (map strip r))
  | None => OutOfFuel
  end = Ok tokens.
Proof.
  intros NE T.
  pose proof (app_removelast_last (l:=tokens) [] NE) as A.
  assert (G : forall r, r = tokens -> Ok (filter nonempty_str (map strip r)) = Ok tokens).
  { intros r ->. f_equal.
    assert (S1 : map strip tokens = tokens).
    { clear -T. induction T as [|x l [_ Hx] _ IH]; cbn; [reflexivity|]. now rewrite strip_plain, IH. }
    rewrite S1. clear -T. induction T as [|x l [Hx _] _ IH]; cbn; [reflexivity|]. destruct x; [congruence|]. cbn. now rewrite IH. }
  destruct (removelast tokens) as [|w ws]; cbn [app] in A |- *; rewrite ?concat1; apply G; cbn [app]; symmetry; exact A.
Qed.

Lemma split_space_plain ts : Forall plain_tok ts -> split_tex_space (part_text ts) = Ok ts.
Proof.
  intros H. destruct ts as [|t ts]; [vm_compute; reflexivity|].
  inversion H as [|? ? [Hne Ht] Hts]; subst.
  unfold part_text. rewrite join_sepjoin.
  unfold split_tex_space, split_tex_string_gen.
  cbn [split_loop].
  rewrite partition_brace_none; [|right|]; try (rewrite forallb_app', plain_nolbrace, sepjoin_nolbrace by assumption; reflexivity).
  destruct t as [|c t']; [congruence|]. cbn [app].
  change (c :: t' ++ sepjoin ts) with ((c :: t') ++ sepjoin ts).
  unfold re_split. rewrite (re_split_plain ts Hts (c :: t') Ht); [|lia]. cbn [rev app].
  apply (split_finish ((c :: t') :: ts)); [discriminate|exact H].
Qed.

Lemma person_parts_plain_pf p : plain_person p -> parts_ok p.
Proof.
  intros (H1 & H2 & H3 & H4 & H5). unfold parts_ok, reparse_person, person_of_parts, person_init.
  change (strip []) with ([] : str). cbn [bind].
  rewrite !split_space_plain by assumption. cbn. now destruct p.
Qed.

(* the plain-token hypothesis cannot simply be dropped: a non-final token ending in a backslash fuses with
   the joining space into a control space "\ ", which is itself a separator -- the backslash is lost *)
Definition backslash_person : person := mkPerson [[97; 92]; [98]] [] [] [[67]] [].
Lemma person_parts_backslash_refuted_pf :
  Forall (fun t => t <> [] /\ forallb (fun c => negb (is_space c || (c =? c_tilde) || is_lbrace c || is_rbrace c)) t = true)
         (p_first backslash_person ++ p_last backslash_person) /\
  reparse_person backslash_person = Ok (mkPerson [[97]; [98]] [] [] [[67]] []) /\
  reparse_person backslash_person <> Ok backslash_person.
Proof.
  split; [repeat constructor; discriminate|]. split; [vm_compute; reflexivity|]. intro H; discriminate H.
Qed.
