(* Proofs/Citations.v -- lemmas about Model/Citations.v (property C05) *)
From Pybtex Require Import Base.Prelude Base.PyChar Base.PyStr Model.Citations.

Lemma add_extra_partition E cites m :
  fst (add_extra E cites m) = expand E cites ++ crossrefs E (expand E cites) m.
Proof. reflexivity. Qed.
