(* Proofs/Citations.v -- the selection functions of Model/Citations.v meet Spec/Citations.v (property C05) *)
From Pybtex Require Import Base.Prelude Base.PyChar Base.PyStr Model.Citations Spec.Citations Proofs.CitationsBase.

Lemma add_extra_partition E cites m :
  fst (add_extra E cites m) = expand E cites ++ crossrefs E (expand E cites) m.
Proof. reflexivity. Qed.

(* ------------------------------------------------------------------ expand *)
(* the loop with its `citation_set` accumulator, on a flat list *)
Fixpoint dedup_aux (seen : cis) (l : list key) : list key :=
  match l with
  | [] => []
  | k :: r => if cis_mem k seen then dedup_aux seen r else k :: dedup_aux (cis_add k seen) r
  end.

Lemma dedup_aux_ext s1 s2 l : (forall x, cis_mem x s1 = cis_mem x s2) -> dedup_aux s1 l = dedup_aux s2 l.
Proof.
  revert s1 s2. induction l as [|k l IH]; intros s1 s2 H; cbn; [reflexivity|].
  rewrite (H k). destruct (cis_mem k s2); [apply IH; exact H|].
  f_equal. apply IH. intros x. rewrite !cis_mem_add, H. reflexivity.
Qed.

Lemma expand_star_spec ks cset :
  fst (expand_star ks cset) = dedup_aux cset ks /\
  forall x, cis_mem x (snd (expand_star ks cset)) = cis_mem x cset || existsb (keyb x) ks.
Proof.
  revert cset. induction ks as [|k ks IH]; intros cset; cbn.
  - split; [reflexivity|]. intros x. now rewrite orb_false_r.
  - destruct (cis_mem k cset) eqn:Hk.
    + destruct (IH cset) as [H1 H2]. split; [exact H1|]. intros x. rewrite H2.
      destruct (keyb x k) eqn:Exk; [|reflexivity]. cbn.
      rewrite (cis_mem_congr _ _ _ Exk), Hk. reflexivity.
    + destruct (IH (cis_add k cset)) as [H1 H2].
      destruct (expand_star ks (cis_add k cset)) as [o s]. cbn in *. split; [now rewrite H1|].
      intros x. rewrite H2, cis_mem_add. destruct (keyb x k), (cis_mem x cset); reflexivity.
Qed.

Lemma dedup_aux_app s l1 l2 s' :
  (forall x, cis_mem x s' = cis_mem x s || existsb (keyb x) l1) ->
  dedup_aux s (l1 ++ l2) = dedup_aux s l1 ++ dedup_aux s' l2.
Proof.
  revert s. induction l1 as [|k l1 IH]; intros s H; cbn.
  - apply dedup_aux_ext. intros x. rewrite H. cbn. now rewrite orb_false_r.
  - destruct (cis_mem k s) eqn:Hk.
    + apply IH. intros x. rewrite H. cbn. destruct (keyb x k) eqn:Exk; [|reflexivity]. cbn.
      rewrite (cis_mem_congr _ _ _ Exk), Hk. reflexivity.
    + cbn. f_equal. apply IH. intros x. rewrite H, cis_mem_add. cbn.
      destruct (keyb x k), (cis_mem x s); reflexivity.
Qed.

Definition star_or (E : edict) (c : key) : list key := if str_eqb c star then ed_keys E else [c].

Lemma expand_loop_flat E cites cset :
  expand_loop E cites cset = dedup_aux cset (flat_map (star_or E) cites).
Proof.
  revert cset. induction cites as [|c r IH]; intros cset; cbn [expand_loop flat_map]; [reflexivity|].
  unfold star_or at 1. destruct (str_eqb c star) eqn:Es.
  - destruct (expand_star_spec (ed_keys E) cset) as [H1 H2].
    destruct (expand_star (ed_keys E) cset) as [o s]. cbn in H1, H2.
    rewrite (dedup_aux_app cset (ed_keys E) _ s H2), IH, H1. reflexivity.
  - cbn [app dedup_aux]. destruct (cis_mem c cset); [apply IH|]. f_equal. apply IH.
Qed.

Lemma dedup_aux_filter s l : dedup_aux s l = filter (fun x => negb (cis_mem x s)) (dedup_ci l).
Proof.
  revert s. induction l as [|k l IH]; intros s; cbn [dedup_aux dedup_ci filter]; [reflexivity|].
  destruct (cis_mem k s) eqn:Hk; cbn [negb].
  - rewrite IH, filter_filter. apply filter_ext_strong. intros x _.
    destruct (cis_mem x s) eqn:Hx; cbn; [reflexivity|].
    destruct (keyb k x) eqn:Ekx; [|reflexivity].
    rewrite (cis_mem_congr _ _ _ Ekx) in Hk. congruence.
  - f_equal. rewrite IH, filter_filter. apply filter_ext_strong. intros x _.
    rewrite cis_mem_add, (keyb_sym x k). destruct (keyb k x), (cis_mem x s); reflexivity.
Qed.

Lemma expand_is_explicit_spec E cites : expand E cites = explicit_spec E cites.
Proof.
  unfold expand, explicit_spec. rewrite expand_loop_flat, dedup_aux_filter.
  cbn. apply filter_true.
Qed.

(* consequences of the spec: no two selected keys agree up to case; same keys as the flat list *)
Lemma existsb_filter_keyb k p l : existsb (keyb k) (filter p l) = true -> existsb (keyb k) l = true.
Proof.
  induction l as [|x l IH]; cbn; [auto|]. destruct (p x); cbn.
  - destruct (keyb k x); cbn; auto.
  - intros H. rewrite (IH H). apply orb_true_r.
Qed.
Lemma nodup_cib_filter p l : nodup_cib l = true -> nodup_cib (filter p l) = true.
Proof.
  induction l as [|x l IH]; cbn; [auto|]. intros H. apply andb_prop in H as [H1 H2].
  destruct (p x); cbn; [|auto]. rewrite (IH H2), andb_true_r.
  destruct (existsb (keyb x) (filter p l)) eqn:Ex; [|reflexivity].
  apply existsb_filter_keyb in Ex. rewrite Ex in H1. discriminate.
Qed.
Lemma dedup_ci_nodup l : nodup_cib (dedup_ci l) = true.
Proof.
  induction l as [|k l IH]; cbn; [reflexivity|].
  rewrite (nodup_cib_filter _ _ IH), andb_true_r.
  assert (H : forall l', existsb (keyb k) (filter (fun x => negb (keyb k x)) l') = false).
  { induction l' as [|y l' IH']; cbn; [reflexivity|]. destruct (keyb k y) eqn:E; cbn; [exact IH'|]. now rewrite E. }
  now rewrite H.
Qed.
Lemma dedup_ci_mem x l : existsb (keyb x) (dedup_ci l) = existsb (keyb x) l.
Proof.
  induction l as [|k l IH]; cbn; [reflexivity|]. rewrite <- IH.
  destruct (keyb x k) eqn:Exk; cbn; [reflexivity|].
  generalize (dedup_ci l) as d. induction d as [|y d IHd]; cbn; [reflexivity|].
  destruct (keyb k y) eqn:Eky; cbn.
  - rewrite IHd. rewrite keyb_sym in Exk. rewrite (keyb_congr_l _ _ x Eky) in Exk.
    rewrite keyb_sym, Exk. reflexivity.
  - now rewrite IHd.
Qed.

(* ------------------------------------------------------------------ crossrefs *)
Lemma cnt_get_set x k n cnt : cnt_get x (cnt_set k n cnt) = if keyb x k then n else cnt_get x cnt.
Proof.
  unfold cnt_get. induction cnt as [|p r IH]; cbn [cnt_set find fst snd].
  - destruct (keyb x k); reflexivity.
  - destruct (keyb k (fst p)) eqn:Ekp; cbn [find fst snd].
    + destruct (keyb x k) eqn:Exk; [reflexivity|].
      rewrite <- (keyb_congr_r _ _ x Ekp), Exk. reflexivity.
    + destruct (keyb x (fst p)) eqn:Exp.
      * destruct (keyb x k) eqn:Exk; [|reflexivity].
        rewrite keyb_sym in Exk. rewrite (keyb_congr_l _ _ (fst p) Exk), Exp in Ekp. discriminate.
      * exact IH.
Qed.

Definition refs_hit (E : edict) (x c : key) : bool :=
  match parent_of E c with Some q => keyb x q | None => false end.
Lemma refs_unfold E x cs : refs E x cs = length (filter (refs_hit E x) cs).
Proof. reflexivity. Qed.
Lemma refs_app E x pre c : refs E x (pre ++ [c]) = refs E x pre + (if refs_hit E x c then 1 else 0).
Proof.
  rewrite !refs_unfold, filter_app, app_length. cbn. destruct (refs_hit E x c); reflexivity.
Qed.
Lemma refs_congr E a b cs : keyb a b = true -> refs E a cs = refs E b cs.
Proof.
  intros H. rewrite !refs_unfold. f_equal. apply filter_ext_strong. intros c _.
  unfold refs_hit. destruct (parent_of E c); [|reflexivity]. apply keyb_congr_l. exact H.
Qed.

Lemma yields_cons_inr {X Y} (r : Y) (ev : list (X + Y)) : yields (inr r :: ev) = yields ev.
Proof. reflexivity. Qed.
Lemma yields_cons_inl {X Y} (k : X) (ev : list (X + Y)) : yields (inl k :: ev) = k :: yields ev.
Proof. reflexivity. Qed.

Lemma threshold_ge1 m : 1 <= threshold m.
Proof. unfold threshold. lia. Qed.
Lemma threshold_le m n : (m <=? Z.of_nat (S n))%Z = (threshold m <=? S n).
Proof.
  unfold threshold. destruct (Z.leb_spec m (Z.of_nat (S n))); destruct (Nat.leb_spec (Z.to_nat (Z.max m 1)) (S n)); try reflexivity; lia.
Qed.

Lemma xref_loop_spec E m cited : forall rest pre cnt cset,
  (forall x, cnt_get x cnt = refs E x pre) ->
  (forall x, cis_mem x cset = existsb (keyb x) cited || (threshold m <=? refs E x pre)) ->
  yields (xref_loop E m rest cnt cset) = threshold_hits E (threshold m) cited pre rest.
Proof.
  induction rest as [|c r IH]; intros pre cnt cset Hcnt Hset; cbn [xref_loop threshold_hits]; [reflexivity|].
  assert (Hnone : parent_of E c = None ->
            (forall x, cnt_get x cnt = refs E x (pre ++ [c])) /\
            (forall x, cis_mem x cset = existsb (keyb x) cited || (threshold m <=? refs E x (pre ++ [c])))).
  { intros Hp. split; intros x; rewrite refs_app; unfold refs_hit; rewrite Hp, Nat.add_0_r; auto. }
  unfold parent_of in *.
  destruct (ed_get c E) as [[ck [p|]]|] eqn:Ec.
  2:{ destruct (Hnone eq_refl) as [H1 H2]. cbn [app]. apply IH; assumption. }
  2:{ destruct (Hnone eq_refl) as [H1 H2]. cbn [app]. apply IH; assumption. }
  destruct (ed_get p E) as [[pk pcr]|] eqn:Ep.
  2:{ destruct (Hnone eq_refl) as [H1 H2]. rewrite yields_cons_inr. cbn [app]. apply IH; assumption. }
  clear Hnone.
  assert (Hhit : forall x, refs_hit E x c = keyb x pk).
  { intros x. unfold refs_hit, parent_of. rewrite Ec, Ep. reflexivity. }
  assert (Hn : refs E pk (pre ++ [c]) = S (cnt_get pk cnt)).
  { rewrite refs_app, Hhit, keyb_refl, Hcnt. lia. }
  assert (Hcnt' : forall x, cnt_get x (cnt_set pk (S (cnt_get pk cnt)) cnt) = refs E x (pre ++ [c])).
  { intros x. rewrite cnt_get_set, refs_app, Hhit. destruct (keyb x pk) eqn:Ex.
    - rewrite (refs_congr E x pk pre Ex), Hcnt. lia.
    - rewrite Hcnt. lia. }
  pose proof (threshold_ge1 m) as Hge.
  set (t := threshold m) in *. set (n := cnt_get pk cnt) in *.
  assert (Hnr : refs E pk pre = n) by (symmetry; apply Hcnt).
  rewrite Hn, threshold_le, (Hset pk), Hnr. fold t.
  destruct (existsb (keyb pk) cited) eqn:Hc.
  - (* the parent is itself cited: never added *)
    cbn [orb negb]. rewrite !andb_false_r. cbn [app]. apply IH; [exact Hcnt'|].
    intros x. rewrite Hset, refs_app, Hhit. destruct (keyb x pk) eqn:Ex.
    + rewrite (existsb_keyb_congr _ _ _ Ex), Hc. reflexivity.
    + now rewrite Nat.add_0_r.
  - cbn [orb]. destruct (Nat.eqb_spec (S n) t) as [Heq|Hne].
    + (* threshold reached here *)
      assert (E1 : (t <=? S n) = true) by (apply Nat.leb_le; lia).
      assert (E2 : (t <=? n) = false) by (apply Nat.leb_gt; lia).
      rewrite E1, E2. cbn [negb andb]. rewrite yields_cons_inl. cbn [app]. f_equal.
      apply IH; [exact Hcnt'|].
      intros x. rewrite cis_mem_add, Hset, refs_app, Hhit. destruct (keyb x pk) eqn:Ex.
      * rewrite (refs_congr E x pk pre Ex), Hnr.
        replace (t <=? n + 1) with true by (symmetry; apply Nat.leb_le; lia).
        now rewrite orb_true_r.
      * now rewrite Nat.add_0_r.
    + assert (E3 : (t <=? S n) && negb (t <=? n) = false).
      { destruct (Nat.leb_spec t (S n)); destruct (Nat.leb_spec t n); cbn; try reflexivity; lia. }
      rewrite E3. cbn [andb app]. apply IH; [exact Hcnt'|].
      intros x. rewrite Hset, refs_app, Hhit. destruct (keyb x pk) eqn:Ex.
      * rewrite (existsb_keyb_congr _ _ _ Ex), Hc, (refs_congr E x pk pre Ex), Hnr. cbn [orb].
        destruct (Nat.leb_spec t n); destruct (Nat.leb_spec t (n + 1)); try reflexivity; lia.
      * now rewrite Nat.add_0_r.
Qed.

Lemma crossrefs_is_spec E cs m : crossrefs E cs m = crossrefs_spec E cs m.
Proof.
  unfold crossrefs, xref_events, crossrefs_spec. apply xref_loop_spec.
  - intros x. reflexivity.
  - intros x. rewrite cis_mem_of_list. cbn.
    pose proof (threshold_ge1 m). destruct (Nat.leb_spec (threshold m) 0); [lia|]. now rewrite orb_false_r.
Qed.

(* ---- consequences of the position-wise form: nothing added twice, nothing cited added *)
Lemma threshold_hits_in E t cited : 1 <= t -> forall rest pre k,
  In k (threshold_hits E t cited pre rest) ->
  refs E k pre < t /\ existsb (keyb k) cited = false /\ exists c, In c rest /\ parent_of E c = Some k.
Proof.
  intros Ht. induction rest as [|c r IH]; intros pre k Hin; cbn [threshold_hits] in Hin; [contradiction|].
  apply in_app_or in Hin as [Hin|Hin].
  - destruct (parent_of E c) as [pk|] eqn:Hp; [|contradiction].
    destruct (Nat.eqb_spec (refs E pk (pre ++ [c])) t) as [Heq|]; [|contradiction].
    destruct (existsb (keyb pk) cited) eqn:Hc; [contradiction|].
    destruct Hin as [<-|[]]. rewrite refs_app in Heq. unfold refs_hit in Heq. rewrite Hp, keyb_refl in Heq.
    split; [lia|]. split; [exact Hc|]. exists c. split; [now left|exact Hp].
  - destruct (IH _ _ Hin) as (H1 & H2 & c' & H3 & H4). rewrite refs_app in H1.
    split; [lia|]. split; [exact H2|]. exists c'. split; [now right|exact H4].
Qed.

Lemma threshold_hits_nodup E t cited : 1 <= t -> forall rest pre,
  nodup_cib (threshold_hits E t cited pre rest) = true.
Proof.
  intros Ht. induction rest as [|c r IH]; intros pre; cbn [threshold_hits]; [reflexivity|].
  destruct (parent_of E c) as [pk|] eqn:Hp; [|apply IH].
  destruct (Nat.eqb_spec (refs E pk (pre ++ [c])) t) as [Heq|]; [|apply IH].
  destruct (existsb (keyb pk) cited); [apply IH|].
  cbn. rewrite IH, andb_true_r.
  destruct (existsb (keyb pk) (threshold_hits E t cited (pre ++ [c]) r)) eqn:Ex; [|reflexivity].
  apply existsb_exists in Ex as (k' & Hin & Hk).
  destruct (threshold_hits_in E t cited Ht _ _ _ Hin) as (H1 & _).
  rewrite <- (refs_congr E pk k' _ Hk) in H1. lia.
Qed.

Lemma nodup_cib_app a b :
  nodup_cib a = true -> nodup_cib b = true -> (forall x, In x b -> existsb (keyb x) a = false) ->
  nodup_cib (a ++ b) = true.
Proof.
  induction a as [|k a IH]; cbn; intros Ha Hb H; [exact Hb|].
  apply andb_prop in Ha as [Ha1 Ha2]. rewrite IH; auto.
  - rewrite andb_true_r, existsb_app. apply negb_true_iff in Ha1. rewrite Ha1. cbn.
    destruct (existsb (keyb k) b) eqn:Ex; [|reflexivity].
    apply existsb_exists in Ex as (x & Hx & Hk). specialize (H x Hx). cbn in H.
    rewrite keyb_sym, Hk in H. discriminate.
  - intros x Hx. specialize (H x Hx). cbn in H. apply orb_false_elim in H. tauto.
Qed.

Lemma add_extra_nodup E cites m : nodup_cib (fst (add_extra E cites m)) = true.
Proof.
  rewrite add_extra_partition, crossrefs_is_spec, expand_is_explicit_spec.
  apply nodup_cib_app.
  - apply dedup_ci_nodup.
  - apply threshold_hits_nodup, threshold_ge1.
  - intros x Hx. unfold crossrefs_spec in Hx.
    destruct (threshold_hits_in _ _ _ (threshold_ge1 m) _ _ _ Hx) as (_ & H & _). exact H.
Qed.

(* every added entry is in the database, under its stored spelling *)
Lemma parent_of_stored E c k : parent_of E c = Some k -> ed_get k E = Some (k, snd (match ed_get k E with Some e => e | None => (k, None) end)) /\ ed_mem k E = true.
Proof.
  unfold parent_of. destruct (ed_get c E) as [[ck [p|]]|]; try discriminate.
  destruct (ed_get p E) as [[pk pcr]|] eqn:Ep; [|discriminate]. intros [= <-].
  pose proof (ed_get_stored _ _ _ Ep) as Hs. cbn in Hs. rewrite ed_mem_get, Hs. cbn. auto.
Qed.

(* ------------------------------------------------------------------ reports *)
Lemma xref_loop_reports E m : forall cs cnt cset,
  reports (xref_loop E m cs cnt cset) = map (fun cp => RBadXref (fst cp) (snd cp)) (dangling_of E cs).
Proof.
  induction cs as [|c r IH]; intros cnt cset; cbn [xref_loop dangling_of flat_map]; [reflexivity|].
  fold (dangling_of E r). rewrite map_app.
  destruct (ed_get c E) as [[ck [p|]]|] eqn:Ec; cbn [app map]; try apply IH.
  rewrite ed_mem_get. destruct (ed_get p E) as [[pk pcr]|] eqn:Ep; cbn [app map].
  - destruct ((m <=? Z.of_nat (S (cnt_get pk cnt)))%Z && negb (cis_mem pk cset)); [cbn|]; apply IH.
  - cbn. f_equal. apply IH.
Qed.

Lemma remove_missing_yields E cs : yields (remove_missing E cs) = filter (fun c => ed_mem c E) cs.
Proof. induction cs as [|c r IH]; cbn; [reflexivity|]. destruct (ed_mem c E); cbn; now rewrite <- IH. Qed.
Lemma remove_missing_reports E cs : reports (remove_missing E cs) = map RMissing (missing_of E cs).
Proof. unfold missing_of. induction cs as [|c r IH]; cbn; [reflexivity|]. destruct (ed_mem c E); cbn; now rewrite <- IH. Qed.

Lemma missing_of_app E a b : missing_of E (a ++ b) = missing_of E a ++ missing_of E b.
Proof. apply filter_app. Qed.
Lemma crossrefs_in_db E cs m k : In k (crossrefs_spec E cs m) -> ed_mem k E = true.
Proof.
  intros H. destruct (threshold_hits_in _ _ _ (threshold_ge1 m) _ _ _ H) as (_ & _ & c & _ & Hp).
  apply parent_of_stored in Hp. tauto.
Qed.
Lemma missing_of_crossrefs E cs m : missing_of E (crossrefs_spec E cs m) = [].
Proof.
  unfold missing_of. assert (H := crossrefs_in_db E cs m). induction (crossrefs_spec E cs m) as [|k l IH]; cbn; [reflexivity|].
  rewrite (H k (or_introl eq_refl)). cbn. apply IH. intros; apply H; now right.
Qed.

Lemma missing_reports_app a b : missing_reports (a ++ b) = missing_reports a ++ missing_reports b.
Proof. apply flat_map_app. Qed.
Lemma badxref_reports_app a b : badxref_reports (a ++ b) = badxref_reports a ++ badxref_reports b.
Proof. apply flat_map_app. Qed.
Lemma missing_reports_map_missing l : missing_reports (map RMissing l) = l.
Proof. unfold missing_reports, badxref_reports. induction l; cbn; congruence. Qed.
Lemma badxref_reports_map_missing l : badxref_reports (map RMissing l) = [].
Proof. unfold missing_reports, badxref_reports. induction l; cbn; congruence. Qed.
Lemma missing_reports_map_bad l : missing_reports (map (fun cp => RBadXref (fst cp) (snd cp)) l) = [].
Proof. unfold missing_reports, badxref_reports. induction l; cbn; congruence. Qed.
Lemma badxref_reports_map_bad l : badxref_reports (map (fun cp => RBadXref (fst cp) (snd cp)) l) = l.
Proof. unfold badxref_reports. induction l as [|[c p] l IH]; cbn; congruence. Qed.

(* ------------------------------------------------------------------ reading *)
Lemma read_db_inv (P : bibdata -> Prop) w db :
  P (bd_init w) -> (forall bd e, P bd -> P (add_entry bd e)) -> P (read_db w db).
Proof.
  unfold read_db. intros H0 Hs. generalize (bd_init w) H0. induction db as [|e db IH]; cbn; intros bd Hbd; [exact Hbd|].
  apply IH. apply Hs. exact Hbd.
Qed.

Definition only_repeated (rs : list report) : Prop :=
  missing_reports rs = [] /\ badxref_reports rs = [].
Lemma read_db_reports w db : only_repeated (bd_reports (read_db w db)).
Proof.
  apply read_db_inv.
  - destruct w; cbn; split; reflexivity.
  - intros bd [k cr] [H1 H2]. unfold add_entry. destruct (negb (want_entry bd k)); [split; assumption|].
    destruct (ed_mem k (bd_entries bd)); cbn; [|split; assumption].
    split; [rewrite missing_reports_app, H1|rewrite badxref_reports_app, H2]; reflexivity.
Qed.

Lemma selection_reports E cites m final rs0 rs :
  only_repeated rs0 ->
  (let (cs, rs1) := add_extra E cites m in
   let ev := remove_missing E cs in (yields ev, rs0 ++ rs1 ++ reports ev)) = (final, rs) ->
  let ex := explicit_spec E cites in
  final = filter (fun c => ed_mem c E) (ex ++ crossrefs_spec E ex m) /\
  missing_reports rs = missing_of E ex /\
  badxref_reports rs = dangling_of E ex.
Proof.
  intros [R1 R2]. unfold add_extra. rewrite <- expand_is_explicit_spec.
  fold (crossrefs E (expand E cites) m). rewrite crossrefs_is_spec.
  unfold xref_events. rewrite xref_loop_reports, remove_missing_yields, remove_missing_reports.
  intros [= <- <-]. cbn zeta. split; [reflexivity|].
  rewrite !missing_reports_app, !badxref_reports_app, R1, R2, missing_reports_map_bad, badxref_reports_map_bad,
    missing_reports_map_missing, badxref_reports_map_missing, missing_of_app, missing_of_crossrefs, !app_nil_r.
  cbn. split; reflexivity.
Qed.

Lemma command_read_reports db cites m final rs :
  command_read_raw db cites m = (final, rs) ->
  let E := bd_entries (read_db (Some cites) db) in
  let ex := explicit_spec E cites in
  final = filter (fun c => ed_mem c E) (ex ++ crossrefs_spec E ex m) /\
  missing_reports rs = missing_of E ex /\
  badxref_reports rs = dangling_of E ex /\
  (forall k, In k final -> ed_mem k E = true) /\
  (forall c, In c ex -> ed_mem c E = false -> In c (missing_reports rs) /\ ~ In c final).
Proof.
  unfold command_read_raw. intros H.
  destruct (selection_reports _ cites m final _ rs (read_db_reports (Some cites) db) H) as (H1 & H2 & H3).
  cbn zeta. split; [exact H1|]. split; [exact H2|]. split; [exact H3|]. split.
  - intros k Hk. rewrite H1 in Hk. apply filter_In in Hk. tauto.
  - intros c Hc Hm. split.
    + rewrite H2. unfold missing_of. apply filter_In. rewrite Hm. auto.
    + rewrite H1. intros Hin. apply filter_In in Hin. destruct Hin as [_ Hin]. congruence.
Qed.

(* the Python engine's front end: same statement, keys emitted under their stored spelling *)
Lemma format_bibliography_reports E cites m final rs :
  format_bibliography_raw E (Some cites) m = (final, rs) ->
  let ex := explicit_spec E cites in
  final = map (stored_key E) (filter (fun c => ed_mem c E) (ex ++ crossrefs_spec E ex m)) /\
  missing_reports rs = missing_of E ex /\
  badxref_reports rs = dangling_of E ex.
Proof.
  unfold format_bibliography_raw. intros H.
  destruct (add_extra E cites m) as [cs rs1] eqn:Ea.
  assert (H' : (let (cs, rs1) := add_extra E cites m in
            let ev := remove_missing E cs in (yields ev, [] ++ rs1 ++ reports ev)) = (yields (remove_missing E cs), rs)).
  { rewrite Ea. cbn. injection H as _ <-. reflexivity. }
  destruct (selection_reports E cites m _ [] rs (conj eq_refl eq_refl) H') as (H1 & H2 & H3).
  injection H as <- _. rewrite H1. auto.
Qed.

(* ------------------------------------------------------------------ spelling *)
Lemma cis_add_in x k s : In x (cis_add k s) -> x = k \/ In x s.
Proof.
  unfold cis_add. destruct (cis_mem k s).
  - intros H. apply in_map_iff in H as (y & Hy & Hin). destruct (keyb k y); [left; congruence|right; congruence].
  - intros H. apply in_app_or in H as [H|[H|[]]]; auto.
Qed.
Lemma cis_of_list_in x l : In x (cis_of_list l) -> In x l.
Proof.
  unfold cis_of_list. assert (G : forall s, In x (fold_left (fun s k => cis_add k s) l s) -> In x s \/ In x l).
  { induction l as [|k l IH]; cbn; intros s H; [auto|].
    apply IH in H as [H|H]; [|auto]. apply cis_add_in in H as [H|H]; auto. }
  intros H. apply G in H as [[]|H]. exact H.
Qed.

Lemma bd_cites_read cites db : bd_cites (read_db (Some cites) db) = cis_of_list cites.
Proof.
  apply read_db_inv; [reflexivity|]. intros bd [k cr] H. unfold add_entry.
  destruct (negb (want_entry bd k)); [exact H|]. destruct (ed_mem k (bd_entries bd)); exact H.
Qed.

Lemma stored_spelling db cites k cr :
  In (k, cr) (bd_entries (read_db (Some cites) db)) -> existsb (keyb k) cites = true -> In k cites.
Proof.
  revert k cr.
  apply (read_db_inv (fun bd => bd_cites bd = cis_of_list cites /\
            forall k cr, In (k, cr) (bd_entries bd) -> existsb (keyb k) cites = true -> In k cites)).
  - split; [reflexivity|]. intros k cr [].
  - intros bd [k0 cr0] [Hc H]. unfold add_entry.
    destruct (negb (want_entry bd k0)); [split; assumption|].
    destruct (ed_mem k0 (bd_entries bd)); cbn; [split; assumption|]. split; [exact Hc|].
    intros k cr Hin Hex. apply in_app_or in Hin as [Hin|[Hin|[]]]; [eapply H; eassumption|].
    injection Hin as <- <-. unfold get_canonical_key, cis_canon in *. rewrite Hc in *.
    destruct (find (keyb k0) (cis_of_list cites)) as [c|] eqn:Ef.
    + apply find_some in Ef as [Ef _]. apply cis_of_list_in. exact Ef.
    + assert (Hm : cis_mem k0 (cis_of_list cites) = false).
      { unfold cis_mem. destruct (existsb (keyb k0) (cis_of_list cites)) eqn:Ex; [|reflexivity].
        apply existsb_exists in Ex as (y & Hy & Hk). rewrite (find_none _ _ Ef y Hy) in Hk. discriminate. }
      rewrite cis_mem_of_list in Hm. congruence.
Qed.

Lemma stored_spelling_consistent db cites k cr c :
  consistent cites -> In (k, cr) (bd_entries (read_db (Some cites) db)) -> In c cites -> keyb c k = true -> k = c.
Proof.
  intros Hcons Hin Hc Hk. assert (Hex : existsb (keyb k) cites = true).
  { apply existsb_exists. exists c. split; [exact Hc|]. now rewrite keyb_sym. }
  pose proof (stored_spelling _ _ _ _ Hin Hex) as Hk'. symmetry. apply Hcons; assumption.
Qed.

Lemma crossrefs_sound_lemma E cs m k : In k (crossrefs E cs m) ->
  ed_mem k E = true /\ existsb (keyb k) cs = false /\ exists c, In c cs /\ parent_of E c = Some k.
Proof.
  intros H. rewrite crossrefs_is_spec in H. split; [eapply crossrefs_in_db; exact H|].
  destruct (threshold_hits_in _ _ _ (threshold_ge1 m) _ _ _ H) as (_ & H1 & H2). auto.
Qed.
Lemma citation_spelling_lemma db cites k cr :
  In (k, cr) (bd_entries (read_db (Some cites) db)) ->
  (existsb (keyb k) cites = true -> In k cites) /\
  (consistent cites -> forall c, In c cites -> keyb c k = true -> k = c).
Proof.
  intros H. split; [exact (stored_spelling _ _ _ _ H)|].
  intros Hc c. exact (stored_spelling_consistent _ _ _ _ c Hc H).
Qed.

(* ------------------------------------------------------------------ F13: parent before its only cited child *)
Definition f13_db : list entry := [(s2l "P", None); (s2l "C", Some (s2l "P"))].
Lemma f13_witness :
  map lower (fst (command_read_raw f13_db [s2l "C"] 1)) <> map lower (fst (select_unfiltered f13_db [s2l "C"] 1)) /\
  snd (command_read_raw f13_db [s2l "C"] 1) = [RBadXref (s2l "C") (s2l "P")] /\
  snd (select_unfiltered f13_db [s2l "C"] 1) = [].
Proof. vm_compute. split; [discriminate|auto]. Qed.
Lemma filtered_refuted : exists db cites m,
  map lower (fst (command_read_raw db cites m)) <> map lower (fst (select_unfiltered db cites m)).
Proof. exists f13_db, [s2l "C"], 1%Z. exact (proj1 f13_witness). Qed.
