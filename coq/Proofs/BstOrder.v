(* Proofs/BstOrder.v -- SORT then ITERATE: the documented effect of SORT on the iteration order *)
From Pybtex Require Import Base.Prelude Base.PyChar Base.PyStr Model.BibtexStr Model.Wrap Model.Bst Proofs.Bst Proofs.BstSort.
From Coq Require Import Permutation Sorted.

Section Order.
  Variable fmt_name : str -> str -> res str.
  Variable cw : char -> Z.

  Lemma sort_then_iterate n st d f cite write :
    vlookup f (st_vars st) = Some (OFun [IId cite; IId write]) ->
    vlookup cite (st_vars st) = Some (OBuiltin B_cite) ->
    vlookup write (st_vars st) = Some (OBuiltin B_write) ->
    st_db st = Some d ->
    (forall k, In k (st_cites st) -> alookup str_eqb k (r_entries d) <> None) ->
    (forall c, In c (st_cites st) -> key_of st c <> None) ->
    exists ks st',
      map snd ks = st_cites st /\ Forall (fun p => key_of st (snd p) = Some (fst p)) ks /\
      run fmt_name cw (3 + n) st [Cmd nm_sort []; Cmd nm_iterate [[IId f]]] = Ok st' /\
      st_buf st' = st_buf st ++ map VStr (map snd (stable_sort ks)) /\
      StronglySorted key_le (stable_sort ks) /\
      (forall k, filter (has_key k) (stable_sort ks) = filter (has_key k) ks) /\
      Permutation (st_cites st) (st_cites st').
  Proof.
    intros Hf Hc Hw Hd Hall Hkeys.
    destruct (sort_stable_permutation fmt_name cw (3 + n) st Hkeys)
      as (ks & st1 & M & F & R & E & P & S & Stab & P2).
    assert (Hall1 : forall k, In k (st_cites st1) -> alookup str_eqb k (r_entries d) <> None).
    { intros k Hk. apply Hall. eapply Permutation_in; [apply Permutation_sym; exact P2|exact Hk]. }
    subst st1.
    destruct (iterate_order fmt_name cw n (set_cites st (map snd (stable_sort ks))) d f cite write Hf Hc Hw Hd Hall1)
      as (st2 & R2 & B2 & C2).
    exists ks, st2. repeat split; auto.
    - cbn [run]. rewrite R. cbn [bind]. rewrite R2. reflexivity.
    - rewrite C2. exact P2.
  Qed.
End Order.
