(* Proofs/BstStream.v -- the other entry point: parse_stream over the lines of a text stream
   (io.StringIO / an open file: lines end after LF and keep it; each line is rstrip()ped, then
   comment-stripped).  On printed sources it agrees with parse_string. *)
From Pybtex Require Import Base.Prelude Base.PyChar Base.PyStr Model.BstParser Spec.BstPrint
  Proofs.BstLex Proofs.BstRoundtrip Proofs.BstErrors Proofs.BstSource.
Local Open Scope N_scope.

(* ---- rstrip, structurally *)
Lemma lstrip_snoc u c : lstrip (u ++ [c]) = match lstrip u with [] => if is_space c then [] else [c] | y => y ++ [c] end.
Proof.
  induction u as [|x u IH]; cbn [app lstrip].
  - destruct (is_space c); reflexivity.
  - destruct (is_space x) eqn:E; [exact IH|]. reflexivity.
Qed.
Lemma rstrip_cons c x : rstrip (c :: x) = match rstrip x with [] => if is_space c then [] else [c] | y => c :: y end.
Proof.
  unfold rstrip. cbn [rev]. rewrite lstrip_snoc.
  destruct (lstrip (rev x)) as [|y ys] eqn:E; cbn [rev].
  - destruct (is_space c); reflexivity.
  - rewrite rev_app_distr. cbn [rev app].
    destruct (rev ys ++ [y]) eqn:E2; [destruct (rev ys); discriminate|reflexivity].
Qed.
Lemma rstrip_nil : rstrip [] = []. Proof. reflexivity. Qed.

(* the first line of Y is blank *)
Fixpoint fl_blank (Y : str) : bool :=
  match Y with [] => true | c :: t => if c =? 10 then true else is_space c && fl_blank t end.

(* a token-like prefix: non-empty, last character not whitespace *)
Definition ends_nonspace (a : str) : Prop := exists a' c, a = a' ++ [c] /\ is_space c = false.
Lemma rstrip_prefix a l : ends_nonspace a -> rstrip (a ++ l) = a ++ rstrip l /\ rstrip (a ++ l) <> [].
Proof.
  intros (a' & c & -> & Hc). induction a' as [|x a' IH]; cbn [app].
  - rewrite rstrip_cons. destruct (rstrip l); rewrite ?Hc; split; try reflexivity; discriminate.
  - destruct IH as [IH1 IH2]. rewrite rstrip_cons.
    destruct (rstrip ((a' ++ [c]) ++ l)) eqn:E; [congruence|]. rewrite <- IH1. split; [reflexivity|discriminate].
Qed.

(* ---- lines of a stream *)
Definition no_lf (a : str) : bool := forallb (fun c => negb (c =? 10)) a.
Lemma lk_nil s : lines_keepends s = [] -> s = [].
Proof.
  destruct s as [|c t]; [reflexivity|]. cbn [lines_keepends].
  destruct (c =? 10); [discriminate|]. destruct (lines_keepends t); discriminate.
Qed.
Lemma lk_prefix a b : no_lf a = true ->
  lines_keepends (a ++ b) = match lines_keepends b with
                            | [] => match a with [] => [] | _ => [a] end
                            | l :: ls => (a ++ l) :: ls
                            end.
Proof.
  induction a as [|c a IH]; intros Ha.
  - cbn [app]. destruct (lines_keepends b); reflexivity.
  - unfold no_lf in Ha. cbn [forallb] in Ha. apply andb_prop in Ha as [Hc Ha]. apply negb_true_iff in Hc.
    cbn [app lines_keepends]. rewrite Hc, (IH Ha).
    destruct (lines_keepends b) as [|l ls]; [|reflexivity]. destruct a; reflexivity.
Qed.
Lemma lk_lf b : lines_keepends (10 :: b) = [10] :: lines_keepends b.
Proof. reflexivity. Qed.

Definition F (l : str) : str := strip_comment (rstrip l).
Definition T2 (s : str) : str := text_of_lines (lines_keepends s).
Lemma T2_unfold s : T2 s = join [c_nl] (map F (lines_keepends s)).
Proof. reflexivity. Qed.

Lemma fl_blank_spec Y l ls : lines_keepends Y = l :: ls -> (fl_blank Y = true <-> rstrip l = []).
Proof.
  revert l ls. induction Y as [|c t IH]; intros l ls; cbn [lines_keepends fl_blank]; [discriminate|].
  destruct (c =? 10) eqn:E.
  - intros H. injection H as <- _. apply N.eqb_eq in E. subst c. split; [reflexivity|auto].
  - destruct (lines_keepends t) as [|l' ls'] eqn:El; intros H; injection H as <- <-.
    + apply lk_nil in El. subst t. cbn [fl_blank]. rewrite andb_true_r, rstrip_cons, rstrip_nil.
      destruct (is_space c); split; auto; discriminate.
    + rewrite rstrip_cons. specialize (IH _ _ eq_refl).
      destruct (rstrip l') eqn:Er.
      * destruct IH as [_ IH]. rewrite (IH eq_refl), andb_true_r. destruct (is_space c); split; auto; discriminate.
      * split; [|discriminate]. intros H. apply andb_prop in H as [_ H]. apply IH in H. discriminate.
Qed.

(* ---- T2 on concatenations *)
Lemma T2_prefix a b : no_lf a = true -> ends_nonspace a -> transparent a -> T2 (a ++ b) = a ++ T2 b.
Proof.
  intros Ha He Ht. rewrite !T2_unfold, (lk_prefix a b Ha).
  assert (HF : forall l, F (a ++ l) = a ++ F l).
  { intros l. unfold F. rewrite (proj1 (rstrip_prefix a l He)). apply Ht. }
  destruct (lines_keepends b) as [|l ls].
  - destruct a as [|c a]; [destruct He as (a' & c & H & _); destruct a'; discriminate|].
    cbn [map join]. specialize (HF []). rewrite app_nil_r in HF. rewrite HF. unfold F. cbn. now rewrite app_nil_r.
  - cbn [map]. rewrite HF. apply join_prefix.
Qed.

Lemma F_lf : F [10] = [].
Proof. reflexivity. Qed.

Lemma T2_lf b : T2 (10 :: b) = match b with [] => [] | _ => c_nl :: T2 b end.
Proof.
  rewrite !T2_unfold, lk_lf. cbn [map]. rewrite F_lf.
  destruct (lines_keepends b) as [|l ls] eqn:E.
  - apply lk_nil in E. subst b. reflexivity.
  - destruct b as [|c b]; [discriminate|]. reflexivity.
Qed.

Lemma F_comment cm : F (c_percent :: cm ++ [10]) = [].
Proof.
  unfold F. destruct (rstrip_prefix [c_percent] (cm ++ [10])) as [H _].
  { exists [], c_percent. split; reflexivity. }
  cbn [app] in H. rewrite H. reflexivity.
Qed.

Lemma T2_comment cm b : no_lf cm = true -> T2 (c_percent :: cm ++ 10 :: b) = T2 (10 :: b).
Proof.
  intros Hcm. rewrite !T2_unfold.
  change (c_percent :: cm ++ 10 :: b) with ((c_percent :: cm) ++ 10 :: b).
  rewrite (lk_prefix (c_percent :: cm)); [|unfold no_lf in *; cbn [forallb]; now rewrite Hcm].
  rewrite lk_lf. cbn [map]. change ((c_percent :: cm) ++ [10]) with (c_percent :: cm ++ [10]).
  rewrite F_comment, F_lf. reflexivity.
Qed.

Lemma space_cplain c : is_space c = true -> cplain c = true.
Proof.
  intros H. unfold cplain. apply andb_true_intro; split; apply negb_true_iff.
  - destruct (c =? c_percent) eqn:E; [|reflexivity]. apply N.eqb_eq in E. subst c. discriminate.
  - destruct (c =? c_quote) eqn:E; [|reflexivity]. apply N.eqb_eq in E. subst c. discriminate.
Qed.

Lemma T2_ws c b : is_space c = true -> (c =? 10) = false ->
  T2 (c :: b) = if fl_blank b then T2 b else c :: T2 b.
Proof.
  intros Hs Hl. rewrite !T2_unfold. cbn [lines_keepends]. rewrite Hl.
  destruct (lines_keepends b) as [|l ls] eqn:E.
  - apply lk_nil in E. subst b. cbn [fl_blank map join]. unfold F. rewrite rstrip_cons, rstrip_nil, Hs. reflexivity.
  - cbn [map]. pose proof (fl_blank_spec b l ls E) as Hb. unfold F at 1. rewrite rstrip_cons.
    destruct (rstrip l) as [|y ys] eqn:Er.
    + rewrite (proj2 Hb eq_refl), Hs. unfold F. rewrite Er. reflexivity.
    + destruct (fl_blank b); [destruct Hb as [Hb _]; specialize (Hb eq_refl); discriminate|].
      unfold strip_comment. change (c :: y :: ys) with ([c] ++ (y :: ys)).
      rewrite (strip_go_plain [c] false (y :: ys)); [|cbn [forallb]; now rewrite (space_cplain c Hs)].
      rewrite <- Er. change (strip_comment_go false (rstrip l)) with (F l). apply join_prefix.
Qed.

(* ---- gaps as seen by a stream: whitespace characters (LF among them) and comments closed by LF *)
Inductive satom := SA_ws (c : char) | SA_com (cm : str).
Definition satom_text (a : satom) : str := match a with SA_ws c => [c] | SA_com cm => c_percent :: cm ++ [10] end.
Definition satom_ok (a : satom) : Prop := match a with SA_ws c => is_space c = true | SA_com cm => no_lf cm = true end.
Definition satoms_text (l : list satom) : str := flat_map satom_text l.

Definition tok_head (X : str) : Prop := match X with [] => True | c :: _ => is_space c = false end.

Lemma T2_gap : forall atoms X, Forall satom_ok atoms -> tok_head X ->
  exists g', forallb is_space g' = true /\ T2 (satoms_text atoms ++ X) = g' ++ T2 X /\
             (atoms <> [] -> X <> [] -> g' <> []).
Proof.
  induction atoms as [|a r IH]; intros X Hok HX.
  - exists []. split; [reflexivity|]. split; [reflexivity|]. congruence.
  - inversion Hok as [|? ? Ha Hr]; subst. destruct (IH X Hr HX) as (gr & Hgr & Heq & Hne).
    unfold satoms_text in *. cbn [flat_map]. rewrite <- app_assoc.
    set (Y := flat_map satom_text r ++ X) in *.
    assert (HY : Y = [] -> X = []) by (unfold Y; intros H; apply app_eq_nil in H; tauto).
    assert (Hlf : exists g', forallb is_space g' = true /\ T2 (10 :: Y) = g' ++ T2 X /\ (X <> [] -> g' <> [])).
    { rewrite T2_lf. destruct Y as [|y Y'] eqn:EY.
      - exists []. split; [reflexivity|]. rewrite (HY eq_refl). split; [reflexivity|]. congruence.
      - exists (c_nl :: gr). split; [cbn [forallb]; now rewrite Hgr|]. split; [now rewrite Heq|discriminate]. }
    destruct a as [c|cm]; cbn [satom_text satom_ok] in *.
    + cbn [app]. destruct (c =? 10) eqn:E10.
      * apply N.eqb_eq in E10. subst c. destruct Hlf as (g' & H1 & H2 & H3). exists g'. auto.
      * rewrite (T2_ws c Y Ha E10). destruct (fl_blank Y) eqn:Eb.
        -- exists gr. split; [exact Hgr|]. split; [exact Heq|]. intros _ HXne. apply Hne; [|exact HXne].
           intros Hr0. subst r. unfold Y in Eb. cbn [flat_map app] in Eb.
           destruct X as [|x X']; [congruence|]. cbn [tok_head] in HX. cbn [fl_blank] in Eb.
           destruct (x =? 10) eqn:Ex; [apply N.eqb_eq in Ex; subst x; discriminate|].
           rewrite HX in Eb. discriminate.
        -- exists (c :: gr). split; [cbn [forallb]; now rewrite Ha, Hgr|]. split; [now rewrite Heq|discriminate].
    + replace ((c_percent :: cm ++ [10]) ++ Y) with (c_percent :: cm ++ 10 :: Y)
        by (cbn [app]; rewrite <- app_assoc; reflexivity).
      rewrite (T2_comment cm Y Ha).
      destruct Hlf as (g' & H1 & H2 & H3). exists g'. auto.
Qed.

(* ---- from structured gaps to stream atoms *)
Lemma conv_item i : gitem_okb i = true -> stream_item_okb i = true ->
  exists atoms, satoms_text atoms = gitem_text i /\ Forall satom_ok atoms /\ atoms <> [].
Proof.
  destruct i as [c|k|cm k]; cbn [gitem_okb stream_item_okb gitem_text]; intros Hok Hst.
  - apply andb_prop in Hok as [Hs _]. exists [SA_ws c]. split; [reflexivity|]. split; [repeat constructor; exact Hs|discriminate].
  - destruct k as [| |c]; cbn [brk_okb brk_text] in *.
    + exists [SA_ws 13; SA_ws 10]. split; [reflexivity|]. split; [repeat constructor|discriminate].
    + exists [SA_ws 13]. split; [reflexivity|]. split; [repeat constructor|discriminate].
    + apply andb_prop in Hok as [Hl _]. exists [SA_ws c]. split; [reflexivity|].
      split; [repeat constructor; now apply linebreak_is_space|discriminate].
  - apply andb_prop in Hok as [Hcm Hk].
    assert (Hnolf : no_lf cm = true).
    { unfold no_lf. revert Hcm. apply forallb_impl. intros c Hc. apply negb_true_iff in Hc. apply negb_true_iff.
      destruct (c =? 10) eqn:E; [|reflexivity]. apply N.eqb_eq in E. subst c. discriminate. }
    destruct k as [| |c]; cbn [brk_text] in *; try discriminate.
    + exists [SA_com (cm ++ [13])]. split; [cbn; rewrite <- !app_assoc; reflexivity|].
      assert (H13 : no_lf (cm ++ [13]) = true).
      { unfold no_lf in *. rewrite forallb_app. apply andb_true_intro. split; [exact Hnolf|reflexivity]. }
      split; [|discriminate]. constructor; [exact H13|constructor].
    + apply N.eqb_eq in Hst. subst c. exists [SA_com cm]. split; [cbn; rewrite app_nil_r; reflexivity|].
      split; [repeat constructor; exact Hnolf|discriminate].
Qed.

Lemma conv_gap : forall g, forallb gitem_okb g = true -> forallb stream_item_okb g = true ->
  exists atoms, satoms_text atoms = sgap_text g /\ Forall satom_ok atoms /\ (g <> [] -> atoms <> []).
Proof.
  induction g as [|i r IH]; intros Hok Hst.
  - exists []. split; [reflexivity|]. split; [constructor|congruence].
  - cbn [forallb] in *. apply andb_prop in Hok as [Hi Hr]. apply andb_prop in Hst as [Hsi Hsr].
    destruct (conv_item i Hi Hsi) as (a1 & Ht1 & Ho1 & Hn1). destruct (IH Hr Hsr) as (a2 & Ht2 & Ho2 & _).
    exists (a1 ++ a2). unfold satoms_text, sgap_text in *. cbn [flat_map]. rewrite flat_map_app, Ht1, Ht2.
    split; [reflexivity|]. split; [now apply Forall_app|]. intros _. destruct a1; [congruence|discriminate].
Qed.

Lemma T2_sgap g X : forallb gitem_okb g = true -> forallb stream_item_okb g = true -> tok_head X ->
  exists g', forallb is_space g' = true /\ T2 (sgap_text g ++ X) = g' ++ T2 X /\ (g <> [] -> X <> [] -> g' <> []).
Proof.
  intros Hok Hst HX. destruct (conv_gap g Hok Hst) as (atoms & Ht & Ho & Hn).
  destruct (T2_gap atoms X Ho HX) as (g' & H1 & H2 & H3). exists g'. rewrite <- Ht. split; [exact H1|]. split; [exact H2|].
  intros Hg. apply H3. now apply Hn.
Qed.

(* ---- printed tokens end with a character that is not whitespace *)
Lemma ltok_ends_nonspace t : wf_ltok t -> ends_nonspace (ltok_text t).
Proof.
  destruct t as [s|s|z| |]; cbn [wf_ltok ltok_text]; intros H.
  - destruct H as [Hne Hall]. destruct (exists_last Hne) as (a & c & ->). exists a, c. split; [reflexivity|].
    rewrite forallb_app in Hall. apply andb_prop in Hall as [_ Hc]. cbn in Hc. rewrite andb_true_r in Hc.
    now apply name_char_not_space.
  - exists (c_quote :: s), c_quote. split; reflexivity.
  - destruct (N_digits_spec (Z.abs_N z)) as (Hne & Hall & _). unfold int_text.
    destruct (exists_last Hne) as (a & c & Heq). rewrite Heq.
    exists (c_hash :: (if Z.ltb z 0 then [c_hyphen] else []) ++ a), c.
    split; [cbn [app]; rewrite <- !app_assoc; reflexivity|].
    rewrite Heq, forallb_app in Hall. apply andb_prop in Hall as [_ Hc]. cbn in Hc. rewrite andb_true_r in Hc.
    now apply digit_not_space.
  - exists [], c_lbrace. split; reflexivity.
  - exists [], c_rbrace. split; reflexivity.
Qed.

Lemma no_linebreak_no_lf a : no_linebreak a = true -> no_lf a = true.
Proof.
  unfold no_linebreak, no_lf. apply forallb_impl. intros c Hc. apply negb_true_iff in Hc. apply negb_true_iff.
  destruct (c =? 10) eqn:E; [|reflexivity]. apply N.eqb_eq in E. subst c. discriminate.
Qed.

(* ---- a woven source, seen through a stream *)
Lemma T2_weave : forall ts gs prev, Forall ltok_ok ts -> slayout_okb prev gs ts = true ->
  stream_gaps_okb gs = true ->
  exists gs', T2 (weave (map sgap_text gs) ts) = weave gs' ts /\ layout_okb prev gs' ts = true.
Proof.
  induction ts as [|t ts IH]; intros gs prev Hts Hlay Hst.
  - cbn [slayout_okb] in Hlay. cbn [weave].
    destruct gs as [|g gs0]; cbn [map].
    + exists []. split; reflexivity.
    + apply andb_prop in Hlay as [Hlay _]. cbn [stream_gaps_okb forallb] in Hst. apply andb_prop in Hst as [Hsg _].
      destruct (T2_sgap g [] Hlay Hsg I) as (g' & Hg' & Heq & _).
      rewrite app_nil_r in Heq. exists [g']. cbn [weave layout_okb]. split; [|exact Hg'].
      rewrite Heq. change (T2 []) with (@nil char). apply app_nil_r.
  - inversion Hts as [|? ? Ht Hts']; subst.
    cbn [slayout_okb] in Hlay. apply andb_prop in Hlay as [Hlay Hrest]. apply andb_prop in Hlay as [Hgap Hneed].
    apply andb_prop in Hgap as [Hgap _].
    destruct (ltok_src_facts t Ht) as [Hnb Htr].
    assert (Hst_hd : forallb stream_item_okb (sgap_hd gs) = true).
    { destruct gs as [|g gs0]; [reflexivity|]. cbn [stream_gaps_okb forallb] in Hst. now apply andb_prop in Hst as [H _]. }
    assert (Hst_tl : stream_gaps_okb (tl gs) = true).
    { destruct gs as [|g gs0]; [reflexivity|]. cbn [stream_gaps_okb forallb] in Hst. now apply andb_prop in Hst as [_ H]. }
    destruct (IH (tl gs) (Some t) Hts' Hrest Hst_tl) as (gs'' & Heq2 & Hlay2).
    rewrite weave_s_cons.
    assert (HX : ltok_text t ++ weave (map sgap_text (tl gs)) ts <> []).
    { destruct (ltok_text_head t (proj1 Ht)) as (c & r & -> & _). discriminate. }
    assert (HX2 : tok_head (ltok_text t ++ weave (map sgap_text (tl gs)) ts)).
    { destruct (ltok_text_head t (proj1 Ht)) as (c & r & -> & Hc). exact Hc. }
    destruct (T2_sgap (sgap_hd gs) _ Hgap Hst_hd HX2) as (g' & Hg' & Heq & Hne).
    rewrite Heq, (T2_prefix _ _ (no_linebreak_no_lf _ Hnb) (ltok_ends_nonspace t (proj1 Ht)) Htr), Heq2.
    exists (g' :: gs''). split; [reflexivity|].
    cbn [layout_okb gap_hd tl]. rewrite Hg', Hlay2, andb_true_r. cbn [andb].
    destruct (needs_gap prev t) eqn:En; [|reflexivity]. cbn [negb orb] in *.
    destruct (sgap_hd gs) as [|i r] eqn:Eg; [discriminate|].
    destruct g' as [|c g'']; [exfalso; apply Hne; [discriminate|exact HX|reflexivity]|reflexivity].
Qed.

(* ---- parse_stream over the lines of a stream on printed sources, and agreement with parse_string *)
Theorem stream_roundtrip : forall p gs,
  wf_programb p = true -> src_programb p = true -> slayout_okb None gs (flat_program p) = true ->
  stream_gaps_okb gs = true ->
  parse_stream (lines_keepends (print_bst (map sgap_text gs) p)) = Ok p.
Proof.
  intros p gs Hwf Hsrc Hlay Hst. unfold parse_stream, print_bst.
  destruct (T2_weave (flat_program p) gs None (flat_program_ok p Hwf Hsrc) Hlay Hst) as (gs' & Heq & Hlay').
  unfold T2 in Heq. rewrite Heq. apply (text_roundtrip p gs' Hwf Hlay').
Qed.

Theorem entry_points_agree : forall p gs,
  wf_programb p = true -> src_programb p = true -> slayout_okb None gs (flat_program p) = true ->
  stream_gaps_okb gs = true ->
  parse_stream (lines_keepends (print_bst (map sgap_text gs) p)) = parse_string (print_bst (map sgap_text gs) p).
Proof. intros. rewrite stream_roundtrip, bst_roundtrip by assumption. reflexivity. Qed.
