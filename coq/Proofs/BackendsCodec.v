(* Proofs/BackendsCodec.v -- the depth round trip of Text.from_latex under hypotheses about the
   codec (latexcodec's ulatex encoder / decoder) instead of the identity codec *)
From Pybtex Require Import Base.Prelude Base.PyChar Base.PyStr Model.RtTypes Model.Backends
  Proofs.Backends Proofs.BackendsLatex Proofs.BackendsDepth Proofs.BackendsTotal.
Local Open Scope N_scope.

(* the LaTeX rendering of a parser-built tree as a token list: strings, { and } *)
Inductive tok := TS (s : str) | TL | TR.
Fixpoint toks (t : rt) : list tok :=
  match t with
  | RStr s => [TS s]
  | RText ps => flat_map toks ps
  | RProt ps => TL :: flat_map toks ps ++ [TR]
  | _ => []
  end.
Definition tr (f : str -> str) (k : tok) : str :=
  match k with TS s => f s | TL => [c_lbrace] | TR => [c_rbrace] end.
Definition lin (f : str -> str) (t : rt) : str := flat_map (tr f) (toks t).

Lemma render_toks_parts f T ps :
  Forall (fun t => sp t = true -> render f T BLatex t = Ok (lin f t)) ps ->
  forallb sp ps = true -> render_parts f T BLatex ps = Ok (flat_map (tr f) (flat_map toks ps)).
Proof.
  induction 1 as [|p r Hp Hr IH]; intros Hs; [reflexivity|].
  cbn [forallb] in Hs. apply andb_prop in Hs as [Hs1 Hs2].
  cbn [render_parts flat_map]. rewrite (Hp Hs1), (IH Hs2). cbn [bind]. rewrite flat_map_app. reflexivity.
Qed.

Lemma render_toks f T t : sp t = true -> render f T BLatex t = Ok (lin f t).
Proof.
  induction t using rt_ind'; intros Hs; cbn [sp] in Hs; try discriminate; rewrite render_unfold.
  - unfold lin. cbn [toks flat_map tr format_str]. rewrite app_nil_r. reflexivity.
  - unfold lin. cbn [toks]. apply render_toks_parts; assumption.
  - rewrite (render_toks_parts f T ps H Hs). cbn [bind format_protected]. unfold lin. cbn [toks flat_map tr].
    rewrite flat_map_app. cbn [flat_map tr]. rewrite app_nil_r. reflexivity.
Qed.

(* the characters of the strings of a parser-built tree are those of its profile *)
Definition tok_ok (P : char -> bool) (k : tok) : bool := match k with TS s => forallb P s | _ => true end.

Lemma toks_ok P t : forall d, sp t = true -> (forall c, In c (map fst (tp d t)) -> P c = true) ->
  forallb (tok_ok P) (toks t) = true.
Proof.
  assert (Hl : forall ps, Forall (fun t => forall d, sp t = true -> (forall c, In c (map fst (tp d t)) -> P c = true) ->
                 forallb (tok_ok P) (toks t) = true) ps ->
               forall d, forallb sp ps = true -> (forall c, In c (map fst (flat_map (tp d) ps)) -> P c = true) ->
               forallb (tok_ok P) (flat_map toks ps) = true).
  { induction 1 as [|p r Hp Hr IH]; intros d Hs Hc; [reflexivity|].
    cbn [forallb] in Hs. apply andb_prop in Hs as [Hs1 Hs2].
    cbn [flat_map]. rewrite forallb_app. rewrite (Hp d Hs1), (IH d Hs2); [reflexivity| |].
    - intros c Hin. apply Hc. cbn [flat_map]. rewrite map_app. apply in_or_app. right. exact Hin.
    - intros c Hin. apply Hc. cbn [flat_map]. rewrite map_app. apply in_or_app. left. exact Hin. }
  induction t using rt_ind'; intros d Hs Hc; cbn [sp] in Hs; try discriminate; cbn [toks].
  - cbn [forallb tok_ok]. rewrite andb_true_r. apply forallb_forall. intros c Hin. apply Hc.
    cbn [tp]. unfold at_depth. rewrite map_map. cbn [fst]. rewrite map_id. exact Hin.
  - apply (Hl ps H d Hs). exact Hc.
  - cbn [forallb tok_ok]. rewrite forallb_app. cbn [forallb tok_ok]. rewrite andb_true_r.
    apply (Hl ps H (S d) Hs). exact Hc.
Qed.

Lemma dp_chars s : forall d c, In c (map fst (dp d s)) -> In c s /\ is_brace c = false.
Proof.
  induction s as [|x s IH]; intros d c Hin; [destruct Hin|].
  cbn [dp] in Hin. unfold is_brace.
  destruct (x =? c_lbrace) eqn:E1; [destruct (IH _ _ Hin); split; [right|]; assumption|].
  destruct (x =? c_rbrace) eqn:E2; [destruct (IH _ _ Hin); split; [right|]; assumption|].
  cbn [map fst] in Hin. destruct Hin as [<-|Hin].
  - split; [left; reflexivity|]. rewrite E1, E2. reflexivity.
  - destruct (IH _ _ Hin). split; [right|]; assumption.
Qed.

Section Codec.
Variables enc dec : str -> str.
Variable alpha : char -> bool.       (* the value alphabet on which the codec behaves *)
Variable T : tables.

(* the hypotheses about latexcodec (sampled against the library on every run) *)
Hypothesis enc_skeleton : forall s, skeleton (enc s) = skeleton s.
Hypothesis enc_nil : enc [] = [].
Hypothesis enc_app : forall a b, forallb alpha a = true -> forallb alpha b = true -> enc (a ++ b) = enc a ++ enc b.
Hypothesis dec_enc : forall s, forallb alpha s = true -> dec (enc s) = s.
(* the decoder leaves braces where they are and decodes the brace-free stretches between them *)
Hypothesis dec_braces : forall a b r, forallb alpha a = true -> is_brace b = true -> dec (enc a ++ b :: r) = dec (enc a) ++ b :: dec r.
Hypothesis alpha_nobrace : forall c, alpha c = true -> is_brace c = false.

Lemma skeleton_nil_nobrace s : skeleton s = [] -> nobrace s = true.
Proof.
  induction s as [|c s IH]; [reflexivity|]. cbn [skeleton filter nobrace forallb].
  destruct (is_brace c); [discriminate|]. intros H. cbn. apply IH. exact H.
Qed.

Lemma alpha_str_nobrace s : forallb alpha s = true -> nobrace s = true.
Proof.
  induction s as [|c s IH]; [reflexivity|]. cbn [forallb]. intros H. apply andb_prop in H as [H1 H2].
  change (nobrace (c :: s)) with (negb (is_brace c) && nobrace s).
  rewrite (alpha_nobrace c H1), (IH H2). reflexivity.
Qed.

Lemma nobrace_skeleton s : nobrace s = true -> skeleton s = [].
Proof.
  induction s as [|c s IH]; [reflexivity|]. cbn [nobrace forallb skeleton filter]. intros H.
  apply andb_prop in H as [H1 H2]. apply negb_true_iff in H1. rewrite H1. apply IH. exact H2.
Qed.

Lemma enc_alpha_nobrace s : forallb alpha s = true -> nobrace (enc s) = true.
Proof.
  intros H. apply skeleton_nil_nobrace. rewrite enc_skeleton. apply nobrace_skeleton. apply alpha_str_nobrace. exact H.
Qed.

(* decoding the encoded token stream gives back the plain token stream *)
Lemma dec_toks ts : forall acc, forallb alpha acc = true -> forallb (tok_ok alpha) ts = true ->
  dec (enc acc ++ flat_map (tr enc) ts) = acc ++ flat_map (tr (fun s => s)) ts.
Proof.
  induction ts as [|k ts IH]; intros acc Ha Hts.
  - cbn [flat_map]. rewrite !app_nil_r. apply dec_enc. exact Ha.
  - cbn [forallb] in Hts. apply andb_prop in Hts as [Hk Hts]. cbn [flat_map]. destruct k as [s| |]; cbn [tr tok_ok] in *.
    + rewrite app_assoc, <- (enc_app acc s Ha Hk), IH.
      * rewrite <- app_assoc. reflexivity.
      * rewrite forallb_app, Ha, Hk. reflexivity.
      * exact Hts.
    + cbn [app]. rewrite (dec_braces acc c_lbrace _ Ha eq_refl).
      rewrite (dec_enc acc Ha). pose proof (IH [] eq_refl Hts) as E. rewrite enc_nil in E. cbn [app] in E.
      rewrite E. reflexivity.
    + cbn [app]. rewrite (dec_braces acc c_rbrace _ Ha eq_refl).
      rewrite (dec_enc acc Ha). pose proof (IH [] eq_refl Hts) as E. rewrite enc_nil in E. cbn [app] in E.
      rewrite E. reflexivity.
Qed.

(* Text.from_latex(v).render(latex): every character of the decoded value keeps its brace depth,
   read through the decoder again *)
Lemma latex_depth_roundtrip_codec_holds v :
  balanced (dec v) -> (forall c, In c (dec v) -> alpha c = true \/ is_brace c = true) ->
  exists t out, from_latex dec v = Ok t /\ render enc T BLatex t = Ok out /\
    dec out = lin (fun s => s) t /\ depth_profile (dec out) = depth_profile (dec v).
Proof.
  intros Hb Hal. unfold from_latex.
  destruct (parse_latex_total (dec v) Hb) as [t Et].
  destruct (parse_latex_spec (dec v) t Et) as [Hs Ht].
  destruct (latex_depth_roundtrip_holds T (dec v) t Et) as [out0 [Er0 Hd0]].
  rewrite (render_toks (fun s => s) T t Hs) in Er0. injection Er0 as <-.
  exists t, (lin enc t). split; [exact Et|]. split; [apply render_toks; exact Hs|].
  assert (Hk : forallb (tok_ok alpha) (toks t) = true).
  { apply (toks_ok alpha t 0%nat Hs). intros c Hin. rewrite Ht in Hin. unfold depth_profile in Hin.
    destruct (dp_chars _ _ _ Hin) as [Hc Hnb]. destruct (Hal c Hc) as [Ha|Hbr]; [exact Ha|congruence]. }
  assert (E : dec (lin enc t) = lin (fun s => s) t).
  { pose proof (dec_toks (toks t) [] eq_refl Hk) as E. rewrite enc_nil in E. exact E. }
  split; [exact E|]. rewrite E. exact Hd0.
Qed.

End Codec.

(* the hypotheses are satisfiable: the identity codec on the alphabet of all non-brace characters *)
Lemma codec_hyps_identity :
  let id := fun s : str => s in let alpha := fun c => negb (is_brace c) in
  (forall s, skeleton (id s) = skeleton s) /\ id [] = [] /\
  (forall a b, forallb alpha a = true -> forallb alpha b = true -> id (a ++ b) = id a ++ id b) /\
  (forall s, forallb alpha s = true -> id (id s) = s) /\
  (forall a b r, forallb alpha a = true -> is_brace b = true -> id (id a ++ b :: r) = id (id a) ++ b :: id r) /\
  (forall c, alpha c = true -> is_brace c = false).
Proof.
  cbv zeta. repeat split; intros; try reflexivity. apply negb_true_iff. assumption.
Qed.
