(* Proofs/EnginesSort.v -- SORT (Interpreter.command_sort = list.sort(key=sort.key$)) is a stable
   permutation into sort-key order; ITERATE / REVERSE visit every citation once, in order. *)
From Pybtex Require Import Base.Prelude Base.PyChar Base.PyStr Model.BibtexStr Model.Wrap Model.Bst.
From Coq Require Import Permutation Sorted.

(* ---- the order on sort keys: Python's str comparison = lexicographic on code points *)
Lemma str_ltb_irrefl a : str_ltb a a = false.
Proof. induction a as [|x a IH]; cbn; [reflexivity|]. rewrite N.ltb_irrefl, N.eqb_refl. exact IH. Qed.

Lemma str_ltb_asym a : forall b, str_ltb a b = true -> str_ltb b a = false.
Proof.
  induction a as [|x a IH]; intros [|y b]; cbn; try congruence.
  destruct (N.ltb x y) eqn:Hxy.
  - intros _. apply N.ltb_lt in Hxy.
    assert (H1 : N.ltb y x = false) by (apply N.ltb_ge; lia). assert (H2 : N.eqb y x = false) by (apply N.eqb_neq; lia).
    now rewrite H1, H2.
  - destruct (N.eqb x y) eqn:Exy; [|congruence].
    apply N.eqb_eq in Exy; subst y. rewrite N.ltb_irrefl, N.eqb_refl. apply IH.
Qed.

Lemma str_ltb_trans a : forall b c, str_ltb a b = true -> str_ltb b c = true -> str_ltb a c = true.
Proof.
  induction a as [|x a IH]; intros [|y b] [|z c]; cbn; try congruence.
  destruct (N.ltb x y) eqn:Hxy.
  - intros _. apply N.ltb_lt in Hxy. destruct (N.ltb y z) eqn:Hyz.
    + intros _. apply N.ltb_lt in Hyz. assert (H : N.ltb x z = true) by (apply N.ltb_lt; lia). now rewrite H.
    + destruct (N.eqb y z) eqn:Eyz; [|congruence]. apply N.eqb_eq in Eyz; subst z.
      intros _. assert (H : N.ltb x y = true) by (apply N.ltb_lt; lia). now rewrite H.
  - destruct (N.eqb x y) eqn:Exy; [|congruence]. apply N.eqb_eq in Exy; subst y.
    intros Hab. destruct (N.ltb x z) eqn:Hxz; [reflexivity|].
    destruct (N.eqb x z) eqn:Exz; [|congruence]. apply IH. exact Hab.
Qed.

(* totality: when a is not below b then b <= a *)
Lemma str_ltb_total a : forall b, str_ltb a b = false -> str_ltb b a = false -> a = b.
Proof.
  induction a as [|x a IH]; intros [|y b]; cbn; try congruence.
  destruct (N.ltb x y) eqn:Hxy; [congruence|]. destruct (N.eqb x y) eqn:Exy.
  - apply N.eqb_eq in Exy; subst y. rewrite N.ltb_irrefl, N.eqb_refl. intros H1 H2. f_equal. now apply IH.
  - intros _. apply N.ltb_ge in Hxy. apply N.eqb_neq in Exy.
    assert (H : N.ltb y x = true) by (apply N.ltb_lt; lia). now rewrite H.
Qed.

Lemma str_leb_refl a : str_leb a a = true.
Proof. unfold str_leb. now rewrite str_ltb_irrefl. Qed.
Lemma str_leb_total a b : str_leb a b = false -> str_leb b a = true.
Proof. unfold str_leb. intros H. apply negb_false_iff in H. now rewrite (str_ltb_asym _ _ H). Qed.
Lemma str_leb_trans a b c : str_leb a b = true -> str_leb b c = true -> str_leb a c = true.
Proof.
  unfold str_leb. intros H1 H2. apply negb_true_iff in H1, H2. apply negb_true_iff.
  destruct (str_ltb c a) eqn:Hca; [|reflexivity].
  (* c < a, not b < a, not c < b *)
  destruct (str_ltb a b) eqn:Hab.
  - rewrite (str_ltb_trans _ _ _ Hca Hab) in H2. discriminate.
  - assert (a = b) by (now apply str_ltb_total). subst b. congruence.
Qed.
Lemma str_leb_antisym a b : str_leb a b = true -> str_leb b a = true -> a = b.
Proof. unfold str_leb. intros H1 H2. apply negb_true_iff in H1, H2. now apply str_ltb_total. Qed.

(* ---- insertion sort on (key, citation) pairs *)
Definition key_le (x y : str * str) : Prop := str_leb (fst x) (fst y) = true.

Lemma insert_sorted_perm x l : Permutation (insert_sorted x l) (x :: l).
Proof.
  induction l as [|y l IH]; cbn; [reflexivity|].
  destruct (str_leb (fst x) (fst y)); [reflexivity|].
  rewrite IH. apply perm_swap.
Qed.
Lemma stable_sort_perm l : Permutation (stable_sort l) l.
Proof.
  induction l as [|x l IH]; cbn; [reflexivity|].
  unfold stable_sort in *. cbn. rewrite insert_sorted_perm. now constructor.
Qed.

Lemma insert_sorted_hd x l z : HdRel key_le z l -> key_le z x -> HdRel key_le z (insert_sorted x l).
Proof.
  intros Hl Hx. destruct l as [|y l]; cbn; [now constructor|].
  destruct (str_leb (fst x) (fst y)); constructor; [exact Hx|]. now inversion Hl.
Qed.
Lemma insert_sorted_sorted x l : Sorted key_le l -> Sorted key_le (insert_sorted x l).
Proof.
  induction l as [|y l IH]; cbn; intros Hs; [repeat constructor|].
  destruct (str_leb (fst x) (fst y)) eqn:E.
  - constructor; [exact Hs|]. constructor. exact E.
  - inversion Hs; subst. constructor; [now apply IH|].
    apply insert_sorted_hd; [assumption|]. unfold key_le. now apply str_leb_total.
Qed.
Lemma stable_sort_sorted l : Sorted key_le (stable_sort l).
Proof.
  induction l as [|x l IH]; [constructor|]. unfold stable_sort in *. cbn. now apply insert_sorted_sorted.
Qed.
Lemma key_le_trans : Relations_1.Transitive key_le.
Proof. intros x y z. unfold key_le. apply str_leb_trans. Qed.
Lemma stable_sort_strongly_sorted l : StronglySorted key_le (stable_sort l).
Proof. apply Sorted_StronglySorted; [exact key_le_trans|apply stable_sort_sorted]. Qed.

(* stability: the elements carrying one and the same key keep their relative order *)
Definition has_key (k : str) (p : str * str) : bool := str_eqb (fst p) k.
Lemma insert_sorted_stable k x l :
  filter (has_key k) (insert_sorted x l) = filter (has_key k) (x :: l).
Proof.
  induction l as [|y l IH]; [reflexivity|]. cbn [insert_sorted].
  destruct (str_leb (fst x) (fst y)) eqn:E; [reflexivity|].
  cbn [filter]. rewrite IH. cbn [filter].
  destruct (has_key k x) eqn:Hx; destruct (has_key k y) eqn:Hy; try reflexivity.
  (* both carry k: impossible, x would have been placed before y *)
  unfold has_key in Hx, Hy.
  destruct (str_eqb_spec (fst x) k) as [Ex|]; [|discriminate].
  destruct (str_eqb_spec (fst y) k) as [Ey|]; [|discriminate].
  rewrite Ex, Ey, str_leb_refl in E. discriminate.
Qed.
Lemma stable_sort_stable k l : filter (has_key k) (stable_sort l) = filter (has_key k) l.
Proof.
  induction l as [|x l IH]; [reflexivity|]. unfold stable_sort in *. cbn [fold_right].
  rewrite insert_sorted_stable. cbn [filter]. now rewrite IH.
Qed.

Lemma stable_sort_facts ks :
  Permutation (stable_sort ks) ks /\ StronglySorted key_le (stable_sort ks) /\
  (forall k, filter (has_key k) (stable_sort ks) = filter (has_key k) ks).
Proof. repeat split; [apply stable_sort_perm|apply stable_sort_strongly_sorted|intros k; apply stable_sort_stable]. Qed.

(* ---- what SORT does to the interpreter *)
Lemma sort_keys_snd st : forall keys ks, sort_keys st keys = Ok ks -> map snd ks = keys.
Proof.
  induction keys as [|k r IH]; cbn; intros ks H; [now inversion H|].
  destruct (alookup str_eqb nm_sort_key_ (frame st k)) as [v|]; [|discriminate].
  destruct (as_str v) as [s|]; [|discriminate].
  destruct (sort_keys st r) as [t| | |] eqn:E; cbn in H; try discriminate.
  inversion H; subst. cbn. f_equal. now apply IH.
Qed.
Lemma sort_keys_fst st : forall keys ks, sort_keys st keys = Ok ks ->
  Forall (fun p => exists v, alookup str_eqb nm_sort_key_ (frame st (snd p)) = Some v /\ as_str v = Some (fst p)) ks.
Proof.
  induction keys as [|k r IH]; cbn; intros ks H; [inversion H; constructor|].
  destruct (alookup str_eqb nm_sort_key_ (frame st k)) as [v|] eqn:Ev; [|discriminate].
  destruct (as_str v) as [s|] eqn:Es; [|discriminate].
  destruct (sort_keys st r) as [t| | |] eqn:E; cbn in H; try discriminate.
  inversion H; subst. constructor; [|now apply IH]. cbn. exists v. now rewrite Ev.
Qed.

Section Cmd.
  Variable fmt_name : str -> str -> res str.
  Variable cw : char -> Z.

  Lemma run_sort fuel st : run_command fmt_name cw fuel st (Cmd nm_sort []) =
    (do ks <- sort_keys st (st_cites st); Ok (set_cites st (map snd (stable_sort ks)))).
  Proof. reflexivity. Qed.

  Lemma run_read_lemma fuel st : run_command fmt_name cw fuel st (Cmd nm_read []) =
    match st_reads st with
    | [] => Unmodelled
    | d :: more => Ok (add_warn (set_cites (set_db st (Some d) more) (r_cites d)) (repeat WRead (r_warnings d)))
    end.
  Proof. reflexivity. Qed.

  (* SORT: the citation list becomes the stable sort of itself by sort.key$ *)
  Lemma command_sort_spec fuel st st' : run_command fmt_name cw fuel st (Cmd nm_sort []) = Ok st' ->
    exists ks, sort_keys st (st_cites st) = Ok ks /\ map snd ks = st_cites st /\
      st' = set_cites st (map snd (stable_sort ks)) /\
      Permutation (stable_sort ks) ks /\ StronglySorted key_le (stable_sort ks) /\
      (forall k, filter (has_key k) (stable_sort ks) = filter (has_key k) ks).
  Proof.
    rewrite run_sort. destruct (sort_keys st (st_cites st)) as [ks| | |] eqn:E; cbn; try discriminate.
    intros H; inversion H; subst. exists ks. repeat split.
    - eapply sort_keys_snd; eauto.
    - apply stable_sort_perm.
    - apply stable_sort_strongly_sorted.
    - intros k. apply stable_sort_stable.
  Qed.

  Lemma command_sort_permutation fuel st st' : run_command fmt_name cw fuel st (Cmd nm_sort []) = Ok st' ->
    Permutation (st_cites st') (st_cites st).
  Proof.
    intros H. destruct (command_sort_spec _ _ _ H) as (ks & _ & Hs & -> & Hp & _).
    cbn. rewrite <- Hs. now apply Permutation_map.
  Qed.

  (* ---- ITERATE / REVERSE *)
  (* one visit: current entry := the citation's entry, then the function is executed once *)
  Definition visit (fuel : nat) (fname : str) (st : state) (key : str) : res state :=
    match st_db st with
    | None => Crash
    | Some d =>
      match alookup str_eqb key (r_entries d) with
      | None => Crash
      | Some e => exec fmt_name cw fuel (set_cur st (Some (key, e))) [IId fname]
      end
    end.
  Fixpoint visit_all (fuel : nat) (fname : str) (keys : list str) (st : state) : res state :=
    match keys with
    | [] => Ok st
    | k :: r => do st' <- visit fuel fname st k; visit_all fuel fname r st'
    end.
  Lemma iterate_is_visit_all fuel f : forall keys st, iterate fmt_name cw fuel f keys st = visit_all fuel f keys st.
  Proof.
    induction keys as [|k r IH]; intros st; cbn; [reflexivity|]. unfold visit.
    destruct (st_db st) as [d|]; [|reflexivity].
    destruct (alookup str_eqb k (r_entries d)) as [e|]; [|reflexivity].
    destruct (exec fmt_name cw fuel (set_cur st (Some (k, e))) [IId f]); cbn; auto.
  Qed.

  (* a successful ITERATE is a chain of states, one visit per citation, in citation order *)
  Lemma visit_all_chain fuel f : forall keys st st', visit_all fuel f keys st = Ok st' ->
    exists sts, length sts = length keys /\
      (forall i k, nth_error keys i = Some k ->
         exists s1 s2, nth_error (st :: sts) i = Some s1 /\ nth_error sts i = Some s2 /\ visit fuel f s1 k = Ok s2) /\
      last sts st = st'.
  Proof.
    induction keys as [|k r IH]; intros st st' H; cbn in H.
    - inversion H; subst. exists []. repeat split. intros [|i] k Hk; discriminate.
    - destruct (visit fuel f st k) as [s1| | |] eqn:E; cbn in H; try discriminate.
      destruct (IH _ _ H) as (sts & Hl & Hv & Hlast). exists (s1 :: sts). repeat split.
      + cbn. now rewrite Hl.
      + intros [|i] k' Hk; cbn in Hk.
        * inversion Hk; subst. exists st, s1. now repeat split.
        * destruct (Hv _ _ Hk) as (a & b & Ha & Hb & Hab). exists a, b. now repeat split.
      + rewrite <- Hlast. destruct sts as [|a sts]; [reflexivity|]. clear. revert a. induction sts as [|b sts IHs]; intros a; [reflexivity|]. cbn in *. apply IHs.
  Qed.

  Lemma run_iterate fuel st f o : vlookup f (st_vars st) = Some o ->
    run_command fmt_name cw fuel st (Cmd nm_iterate [[IId f]]) = iterate fmt_name cw fuel f (st_cites st) st.
  Proof. intros H. cbn. unfold name_of, lit_of. cbn. now rewrite H. Qed.
  Lemma run_reverse fuel st f o : vlookup f (st_vars st) = Some o ->
    run_command fmt_name cw fuel st (Cmd nm_reverse [[IId f]]) = iterate fmt_name cw fuel f (rev (st_cites st)) st.
  Proof. intros H. cbn. unfold name_of, lit_of. cbn. now rewrite H. Qed.

  Lemma iterate_command_chain fuel st f o st' :
    vlookup f (st_vars st) = Some o ->
    run_command fmt_name cw fuel st (Cmd nm_iterate [[IId f]]) = Ok st' ->
    exists sts, length sts = length (st_cites st) /\
      (forall i k, nth_error (st_cites st) i = Some k ->
         exists s1 s2, nth_error (st :: sts) i = Some s1 /\ nth_error sts i = Some s2 /\ visit fuel f s1 k = Ok s2) /\
      last sts st = st'.
  Proof.
    intros Hf H. rewrite (run_iterate _ _ _ _ Hf), iterate_is_visit_all in H.
    exact (visit_all_chain _ _ _ _ _ H).
  Qed.
  Lemma reverse_command_chain fuel st f o st' :
    vlookup f (st_vars st) = Some o ->
    run_command fmt_name cw fuel st (Cmd nm_reverse [[IId f]]) = Ok st' ->
    exists sts, length sts = length (st_cites st) /\
      (forall i k, nth_error (rev (st_cites st)) i = Some k ->
         exists s1 s2, nth_error (st :: sts) i = Some s1 /\ nth_error sts i = Some s2 /\ visit fuel f s1 k = Ok s2) /\
      last sts st = st'.
  Proof.
    intros Hf H. rewrite (run_reverse _ _ _ _ Hf), iterate_is_visit_all in H.
    destruct (visit_all_chain _ _ _ _ _ H) as (sts & Hl & Hv & Hlast).
    exists sts. rewrite rev_length in Hl. auto.
  Qed.
End Cmd.
