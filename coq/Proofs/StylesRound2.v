(* Proofs/StylesRound2.v -- entries end with a terminator unless empty or ending in a bare word; the sort key;
   names() reads the entry's own persons only; empty bibliographies (property C07). *)
From Pybtex Require Import Base.Prelude Base.PyChar Base.PyStr Model.RtTypes Model.Citations Model.Template Model.Styles
  Proofs.Template Proofs.TemplateEmit Proofs.Styles.

(* ------------------------------------------------------------------------------ *)
(* the last truthy value of a list of formatted children *)
Definition last_truthy (vs : list tval) : option tval :=
  match rev (filter truthy vs) with w :: _ => Some w | [] => None end.

Lemma ends_term_app a b : b <> [] -> ends_term (a ++ b) = ends_term b.
Proof.
  intros Hb. unfold ends_term. rewrite rev_app_distr.
  destruct (rev_nonempty_last b Hb) as (x & r & ->). reflexivity.
Qed.

Lemma join_flat_last sep parts : parts <> [] -> exists pre, join_flat sep parts = pre ++ last parts [].
Proof.
  induction parts as [|x r IH]; [congruence|]. intros _. destruct r as [|y r'].
  - exists []. reflexivity.
  - destruct (IH ltac:(discriminate)) as (pre & Hp).
    exists (x ++ sep ++ pre). change (join_flat sep (x :: y :: r')) with (x ++ sep ++ join_flat sep (y :: r')).
    rewrite Hp. change (last (x :: y :: r') []) with (last (y :: r') []). now rewrite <- !app_assoc.
Qed.

Lemma last_map_vflat (l : list tval) : l <> [] -> last (map vflat l) [] = vflat (last l (VT [])).
Proof.
  induction l as [|x r IH]; [congruence|]. intros _. destruct r as [|y r']; [reflexivity|].
  change (last (map vflat (x :: y :: r')) []) with (last (map vflat (y :: r')) []).
  change (last (x :: y :: r') (VT [])) with (last (y :: r') (VT [])). apply IH. discriminate.
Qed.

Lemma last_rev_hd {X} (l : list X) d : last l d = hd d (rev l).
Proof.
  induction l as [|x r IH]; [reflexivity|]. destruct r as [|y r']; [reflexivity|].
  change (last (x :: y :: r') d) with (last (y :: r') d). rewrite IH. cbn [rev].
  destruct (rev r' ++ [y]) eqn:E; [destruct (rev r'); discriminate|reflexivity].
Qed.

Lemma last_in {X} (l : list X) d : l <> [] -> In (last l d) l.
Proof.
  induction l as [|x r IH]; [congruence|]. intros _. destruct r as [|y r']; [now left|].
  right. change (last (x :: y :: r') d) with (last (y :: r') d). apply IH. discriminate.
Qed.

(* a join ends with its last truthy member *)
Lemma join_vals_ends sep sep2 ls vs :
  join_vals sep sep2 ls vs <> [] ->
  exists w pre, last_truthy vs = Some w /\ truthy w = true /\ join_vals sep sep2 ls vs = pre ++ vflat w.
Proof.
  unfold join_vals, last_truthy.
  set (tv := filter truthy vs).
  assert (Htv : Forall (fun v => truthy v = true) tv).
  { apply Forall_forall. intros v Hv. apply filter_In in Hv. tauto. }
  destruct tv as [|v0 tr] eqn:E; [cbn; congruence|]. intros _.
  set (l := v0 :: tr) in *.
  assert (Hl : l <> []) by discriminate.
  assert (Hw : exists w, rev l = w :: tl (rev l) /\ last l (VT []) = w).
  { rewrite last_rev_hd. destruct (rev l) eqn:R; [apply (f_equal (@rev _)) in R; rewrite rev_involutive in R; now subst|eauto]. }
  destruct Hw as (w & Hr & Hlast). rewrite Hr. exists w.
  assert (Htw : truthy w = true).
  { rewrite Forall_forall in Htv. apply Htv. rewrite <- Hlast. now apply last_in. }
  assert (Hlm : last (map vflat l) [] = vflat w) by (rewrite last_map_vflat by exact Hl; now rewrite Hlast).
  destruct l as [|a [|b [|c r]]] eqn:El; [congruence| | |].
  - exists []. split; [reflexivity|split; [exact Htw|]]. cbn in Hlm. now rewrite <- Hlm.
  - destruct (join_flat_last (match sep2 with Some s => s | None => sep end) (map vflat [a; b]) ltac:(discriminate)) as (pre & Hp).
    exists pre. split; [reflexivity|split; [exact Htw|]]. rewrite <- Hlm. exact Hp.
  - exists (join_flat sep (removelast (map vflat (a :: b :: c :: r))) ++ match ls with Some s => s | None => sep end).
    split; [reflexivity|split; [exact Htw|]]. rewrite <- Hlm. cbn [join_flat]. now rewrite <- app_assoc.
Qed.

(* an entry (toplevel / join / words of blocks) ends with a sentence terminator unless it is empty (F24)
   or its last non-empty block is not itself terminated -- a trailing bare word (F30) *)
Lemma join_vals_terminated sep sep2 ls vs :
  join_vals sep sep2 ls vs <> [] ->
  (forall w, last_truthy vs = Some w -> ends_term (vflat w) = true) ->
  ends_term (join_vals sep sep2 ls vs) = true.
Proof.
  intros Hne Hlast. destruct (join_vals_ends _ _ _ _ Hne) as (w & pre & Hw & Ht & ->).
  rewrite ends_term_app; [now apply Hlast|]. destruct w as [f|]; [|discriminate]. cbn in *. now destruct f.
Qed.

Lemma toplevel_terminated_lemma c cs vs v :
  evals c cs = TOk vs -> eval c (TToplevel cs) = TOk v -> vflat v <> [] ->
  (forall w, last_truthy vs = Some w -> ends_term (vflat w) = true) ->
  ends_term (vflat v) = true.
Proof.
  intros Hvs Hv Hne Hlast. rewrite eval_toplevel, Hvs in Hv. cbn in Hv. inversion Hv; subst. cbn [vflat] in *.
  now apply join_vals_terminated.
Qed.

Lemma words_terminated_lemma c sep cs vs v :
  evals c cs = TOk vs -> eval c (TWords sep cs) = TOk v -> vflat v <> [] ->
  (forall w, last_truthy vs = Some w -> ends_term (vflat w) = true) ->
  ends_term (vflat v) = true.
Proof.
  intros Hvs Hv Hne Hlast. rewrite eval_words, Hvs in Hv. cbn in Hv. inversion Hv; subst. cbn [vflat] in *.
  now apply join_vals_terminated.
Qed.

(* F30 witness: the shape of unsrt's inproceedings -- words ['In', sentence [...]] -- with an empty block *)
Definition s_booktitle : str := [98; 111; 111; 107; 116; 105; 116; 108; 101]%N.
Definition in_like : tnode :=
  TToplevel [TSentence false false true (plain [c_comma; c_space]) [TField s_title AId false];
             TWords space [TLit true (plain [73; 110]%N);
                           TSentence false false true (plain [c_comma; c_space]) [TField s_booktitle AId false]]].
Definition in_ctx : ctx := mkC (mkE [107%N] [] [(s_title, [84%N]); (s_booktitle, [])] []) None [] NSPlain false.
Lemma trailing_bare_word_refuted_lemma :
  exists r, eval_top in_ctx in_like = TOk r /\ fstr r = [84; 46; 60; 110; 101; 119; 98; 108; 111; 99; 107; 62; 73; 110]%N /\
            r <> [] /\ ends_term r = false.
Proof. eexists. split; [vm_compute; reflexivity|]. split; [reflexivity|]. split; [discriminate|reflexivity]. Qed.

(* ------------------------------------------------------------------------------ *)
(* the sort key: person keys ignore case (str.lower of the joined name); braces are NOT removed and the
   year and title parts are compared as they are *)
Lemma lower_app a b : lower (a ++ b) = lower a ++ lower b.
Proof. apply map_app. Qed.
Lemma lower_idem s : lower (lower s) = lower s.
Proof. unfold lower. rewrite map_map. apply map_ext. apply to_lower_idem. Qed.
Lemma lower_join sep l : lower (join sep l) = join (lower sep) (map lower l).
Proof.
  induction l as [|x r IH]; [reflexivity|]. destruct r as [|y r']; [reflexivity|].
  change (join sep (x :: y :: r')) with (x ++ sep ++ join sep (y :: r')).
  change (join (lower sep) (map lower (x :: y :: r'))) with (lower x ++ lower sep ++ join (lower sep) (map lower (y :: r'))).
  now rewrite !lower_app, IH.
Qed.

Definition lower_person (p : person) : person :=
  mkP (map lower (p_first p)) (map lower (p_middle p)) (map lower (p_prelast p)) (map lower (p_last p)) (map lower (p_lineage p)).

Lemma person_key_ignores_case p : person_key (lower_person p) = person_key p.
Proof.
  unfold person_key, lower_person. cbn [p_first p_middle p_prelast p_last p_lineage].
  rewrite <- !map_app. rewrite !lower_join. cbn [map]. rewrite !lower_join. rewrite !map_map.
  rewrite !(map_ext (fun x => lower (lower x)) lower) by apply lower_idem. reflexivity.
Qed.

Lemma person_key_is_lower p : lower (person_key p) = person_key p.
Proof. unfold person_key. apply lower_idem. Qed.

Lemma persons_key_ignores_case ps : persons_key (map lower_person ps) = persons_key ps.
Proof. unfold persons_key. rewrite map_map. f_equal. apply map_ext. apply person_key_ignores_case. Qed.

Lemma persons_key_case_lemma ps :
  persons_key (map lower_person ps) = persons_key ps /\ lower (persons_key ps) = persons_key ps.
Proof.
  split; [apply persons_key_ignores_case|]. unfold persons_key. rewrite lower_join, map_map.
  rewrite (map_ext (fun x => lower (person_key x)) person_key) by apply person_key_is_lower. reflexivity.
Qed.

(* ------------------------------------------------------------------------------ *)
(* FC14a: names(role) reads the persons of the entry itself -- the database is not consulted, so a role
   inherited through crossref is reported missing although field(role) finds it *)
Lemma names_ignores_database e db db' tbl ns ab role s s2 ls :
  eval (mkC e db tbl ns ab) (TNames role s s2 ls) = eval (mkC e db' tbl ns ab) (TNames role s s2 ls).
Proof. reflexivity. Qed.

Definition fc14_parent : entry := mkE [112%N] s_book [] [(s_editor, [mkP [] [] [] [[69%N]] []])].
Definition fc14_child : entry := mkE [99%N] s_inbook [(s_crossref, [112%N])] [].
Lemma names_inherit_refuted_lemma :
  let c := mkC fc14_child (Some [fc14_child; fc14_parent]) [] NSPlain false in
  eval c (TField s_editor AId false) = TOk (VT (plain [69%N])) /\
  eval c (TNames s_editor [] None None) = TMissing s_editor [99%N].
Proof. split; vm_compute; reflexivity. Qed.

(* ------------------------------------------------------------------------------ *)
(* empty citation list / empty database: the empty bibliography *)
Lemma empty_citations_lemma cf tbl tp db : format_bibliography cf tbl tp db (Some []) = TOk [].
Proof.
  unfold format_bibliography, resolved, format_bibliography_raw, add_extra, expand. cbn.
  destruct (cf_strict cf); cbn; unfold format_entries; destruct (cf_sort cf), (cf_label cf); reflexivity.
Qed.
Lemma empty_database_lemma cf tbl tp cites :
  (forall c, cites = Some c -> c = []) -> format_bibliography cf tbl tp [] cites = TOk [].
Proof.
  intros H. destruct cites as [c|]; [rewrite (H c eq_refl); apply empty_citations_lemma|].
  unfold format_bibliography, resolved, format_bibliography_raw, add_extra, expand. cbn.
  destruct (cf_strict cf); cbn; unfold format_entries; destruct (cf_sort cf), (cf_label cf); reflexivity.
Qed.
Lemma no_citation_no_entry_lemma cf tbl tp db cites out :
  format_bibliography cf tbl tp db cites = TOk out -> fst (resolved db cites (cf_mincross cf)) = [] -> out = [].
Proof.
  intros H E. apply one_entry_per_citation_lemma in H as [Hlen _]. rewrite E in Hlen. now destruct out.
Qed.
