(* Proofs/NameFormatParse.v -- the name-format parser of Model/NameFormat.v:
   totality (fuel suffices, no foreign exception), accepted strings are brace-balanced and
   every level-1 group has at most one, legal, run of letters. *)
From Pybtex Require Import Base.Prelude Base.PyChar Base.PyStr Model.BibtexStr Model.Names Model.NameFormat Spec.NameFormat.

Definition okerr {X} (r : res X) : Prop := match r with Ok _ | PyErr _ _ => True | _ => False end.

Lemma lbrace_is c : lbrace c = is_lbrace c. Proof. reflexivity. Qed.
Lemma rbrace_is c : rbrace c = is_rbrace c. Proof. reflexivity. Qed.
Lemma is_lbrace_eq c : is_lbrace c = true -> c = c_lbrace.
Proof. apply N.eqb_eq. Qed.
Lemma is_rbrace_eq c : is_rbrace c = true -> c = c_rbrace.
Proof. apply N.eqb_eq. Qed.
Lemma lr_excl c : is_lbrace c = true -> is_rbrace c = false.
Proof. intros H. apply is_lbrace_eq in H. subst. reflexivity. Qed.

(* ---- walk ---- *)
Lemma walk_app a : forall b d, walk (a ++ b) d = match walk a d with Some d' => walk b d' | None => None end.
Proof.
  induction a as [|c a IH]; intros b d; cbn [app walk]; [reflexivity|].
  destruct (lbrace c); [apply IH|]. destruct (rbrace c); [|apply IH].
  destruct d; [reflexivity|apply IH].
Qed.

Lemma walk_shift s : forall d d' k, walk s d = Some d' -> walk s (d + k) = Some (d' + k).
Proof.
  induction s as [|c s IH]; intros d d' k H; cbn [walk] in *.
  - inversion H; reflexivity.
  - destruct (lbrace c); [apply (IH (S d)); exact H|].
    destruct (rbrace c); [|apply IH; exact H].
    destruct d; [discriminate|]. cbn [Nat.add]. apply IH; exact H.
Qed.

Lemma walk_nonbrace a : forall b d, forallb nonbrace a = true -> walk (a ++ b) d = walk b d.
Proof.
  induction a as [|c a IH]; intros b d H; cbn [app walk]; [reflexivity|].
  cbn [forallb] in H. apply andb_prop in H as [H1 H2].
  unfold nonbrace, is_brace in H1. rewrite lbrace_is, rbrace_is.
  destruct (is_lbrace c); [discriminate|]. destruct (is_rbrace c); [discriminate|]. apply IH; exact H2.
Qed.

(* ---- span_len ---- *)
Lemma span_len_le p s : span_len p s <= length s.
Proof. induction s as [|c s IH]; cbn; [lia|]. destruct (p c); cbn; lia. Qed.

Lemma span_len_all p s : forallb p (firstn (span_len p s) s) = true.
Proof.
  induction s as [|c s IH]; cbn; [reflexivity|].
  destruct (p c) eqn:E; cbn; [rewrite E; exact IH|reflexivity].
Qed.

Lemma span_len_max p s : match skipn (span_len p s) s with c :: _ => p c = false | [] => True end.
Proof.
  induction s as [|c s IH]; cbn; [exact I|].
  destruct (p c) eqn:E; cbn; [exact IH|exact E].
Qed.

Lemma firstn_skipn_len {X} n (l : list X) : n <= length l -> length (skipn n l) = length l - n.
Proof. intros _. apply skipn_length. Qed.

(* ---- parse_braced_string ---- *)
Lemma braced_go_spec s : forall d acc inner r, braced_go s d acc = Ok (inner, r) ->
  exists body, s = body ++ c_rbrace :: r /\ inner = rev acc ++ body /\ walk body d = Some 0.
Proof.
  induction s as [|c s IH]; intros d acc inner r H; cbn [braced_go] in H; [discriminate|].
  destruct (is_rbrace c) eqn:Er.
  - apply is_rbrace_eq in Er; subst c. destruct d as [|d].
    + inversion H; subst. exists []. cbn. rewrite app_nil_r. auto.
    + apply IH in H as (body & -> & -> & W). exists (c_rbrace :: body). cbn [app rev].
      rewrite <- app_assoc. cbn. auto.
  - destruct (is_lbrace c) eqn:El.
    + apply is_lbrace_eq in El; subst c. apply IH in H as (body & -> & -> & W).
      exists (c_lbrace :: body). cbn [app rev]. rewrite <- app_assoc. cbn. auto.
    + apply IH in H as (body & -> & -> & W). exists (c :: body). cbn [app rev walk].
      rewrite <- app_assoc, lbrace_is, rbrace_is, El, Er. cbn. auto.
Qed.

Lemma braced_go_okerr s : forall d acc, okerr (braced_go s d acc).
Proof.
  induction s as [|c s IH]; intros d acc; cbn [braced_go]; [exact I|].
  destruct (is_rbrace c); [destruct d; [exact I|apply IH]|]. destruct (is_lbrace c); apply IH.
Qed.

Lemma parse_braced_spec s inner r : parse_braced_string s = Ok (inner, r) ->
  s = inner ++ c_rbrace :: r /\ walk inner 0 = Some 0.
Proof.
  unfold parse_braced_string. intros H. apply braced_go_spec in H as (body & -> & -> & W). cbn. auto.
Qed.

(* ---- parse_name_part ---- *)
Definition fc_wf (fc : option str) : Prop :=
  match fc with None => True | Some v => format_chars_ok false v = true end.

Lemma walk_group inner rest d : walk inner 0 = Some 0 ->
  walk (c_lbrace :: inner ++ c_rbrace :: rest) d = walk rest d.
Proof.
  intros W. cbn [walk]. change (lbrace c_lbrace) with true. cbn iota.
  rewrite walk_app. apply (walk_shift _ _ _ (S d)) in W. cbn [Nat.add] in W. rewrite W.
  cbn [walk]. change (lbrace c_rbrace) with false. change (rbrace c_rbrace) with true. reflexivity.
Qed.

Lemma alpha_nonbrace c : is_alpha c = true -> nonbrace c = true.
Proof.
  unfold is_alpha, is_upper, is_lower, nonbrace, is_brace, is_lbrace, is_rbrace, c_lbrace, c_rbrace.
  intros H. apply orb_prop in H.
  destruct (N.eqb_spec c 123) as [->|]; [destruct H as [H|H]; vm_compute in H; discriminate|].
  destruct (N.eqb_spec c 125) as [->|]; [destruct H as [H|H]; vm_compute in H; discriminate|].
  reflexivity.
Qed.

Lemma digit_props c : is_digit c = true -> nonbrace c = true /\ is_alpha c = false.
Proof.
  unfold is_digit, is_alpha, is_upper, is_lower, nonbrace, is_brace, is_lbrace, is_rbrace, c_lbrace, c_rbrace.
  intros H. apply andb_prop in H as [H1 H2]. apply N.leb_le in H1, H2.
  split.
  - destruct (N.eqb_spec c 123); [lia|]. destruct (N.eqb_spec c 125); [lia|]. reflexivity.
  - assert ((65 <=? c) = false)%N by (apply N.leb_gt; lia).
    assert ((97 <=? c) = false)%N by (apply N.leb_gt; lia).
    rewrite H, H0. reflexivity.
Qed.

Definition plain (c : char) : bool := nonbrace c && negb (is_alpha c).

Lemma forallb_impl {X} (p q : X -> bool) l : (forall x, p x = true -> q x = true) ->
  forallb p l = true -> forallb q l = true.
Proof.
  intros PQ. induction l as [|x l IH]; cbn; [auto|]. intros H. apply andb_prop in H as [H1 H2].
  rewrite (PQ _ H1), (IH H2). reflexivity.
Qed.

Lemma m_non_letters_chars s k : m_non_letters s = S k ->
  S k <= length s /\ forallb plain (firstn (S k) s) = true.
Proof.
  unfold m_non_letters. destruct s as [|c t]; [discriminate|].
  destruct (nonbrace c && negb (is_word c)) eqn:E.
  - intros H; inversion H; subst. cbn. split; [lia|].
    apply andb_prop in E as [E1 E2]. unfold plain. rewrite E1. cbn.
    unfold is_word, is_alnum in E2. destruct (is_alpha c); [discriminate|reflexivity].
  - intros H. split; [rewrite <- H; apply span_len_le|].
    rewrite <- H. eapply forallb_impl; [|apply span_len_all].
    intros x Hx. apply digit_props in Hx as [A B]. unfold plain. rewrite A, B. reflexivity.
Qed.

Lemma plain_nonbrace l : forallb plain l = true -> forallb nonbrace l = true.
Proof. apply forallb_impl. intros x H. apply andb_prop in H as [H _]. exact H. Qed.

Lemma format_chars_ok_false a v : format_chars_ok a v = true -> a = false /\ format_chars_ok false v = true.
Proof. unfold format_chars_ok. destruct a; cbn; [discriminate|auto]. Qed.

Lemma npg_spec fuel : forall s pre fc dl post pre' fc' dl' post' r,
  name_part_go fuel s pre fc dl post = Ok ((pre', fc', dl', post'), r) -> fc_wf fc ->
  exists body, s = body ++ c_rbrace :: r /\ walk body 0 = Some 0 /\ fc_wf fc'.
Proof.
  induction fuel as [|f IH]; intros s pre fc dl post pre' fc' dl' post' r H WF; [discriminate|].
  cbn [name_part_go] in H. destruct s as [|c t]; [discriminate|].
  destruct (is_lbrace c) eqn:El.
  { apply is_lbrace_eq in El; subst c.
    destruct (parse_braced_string t) as [[inner r1]| | |] eqn:B; cbn [bind fst snd] in H; try discriminate.
    apply parse_braced_spec in B as [-> W].
    assert (exists body, r1 = body ++ c_rbrace :: r /\ walk body 0 = Some 0 /\ fc_wf fc') as (body & -> & W2 & F).
    { destruct fc; apply IH in H; auto. }
    exists (c_lbrace :: inner ++ c_rbrace :: body). split; [cbn; rewrite <- app_assoc; reflexivity|].
    split; [rewrite walk_group; auto|auto]. }
  destruct (m_non_letters (c :: t)) as [|k] eqn:NL.
  2:{ apply m_non_letters_chars in NL as [Len All].
      assert (exists body, skipn (S k) (c :: t) = body ++ c_rbrace :: r /\ walk body 0 = Some 0 /\ fc_wf fc') as (body & E & W2 & F).
      { destruct fc; apply IH in H; auto. }
      exists (firstn (S k) (c :: t) ++ body). split; [rewrite <- app_assoc, <- E, firstn_skipn; reflexivity|].
      split; [rewrite walk_nonbrace; auto using plain_nonbrace|auto]. }
  destruct (m_format_chars (c :: t)) as [|k] eqn:FC.
  2:{ set (v := lower (firstn (S k) (c :: t))) in *.
      destruct (format_chars_ok _ v) eqn:OK; [|discriminate].
      apply format_chars_ok_false in OK as [_ OK].
      assert (All : forallb nonbrace (firstn (S k) (c :: t)) = true).
      { rewrite <- FC. eapply forallb_impl; [|apply span_len_all]. apply alpha_nonbrace. }
      destruct (skipn (S k) (c :: t)) as [|d r'] eqn:SK; [discriminate|].
      destruct (is_lbrace d) eqn:Ed.
      - apply is_lbrace_eq in Ed; subst d.
        destruct (parse_braced_string r') as [[inner r1]| | |] eqn:B; cbn [bind fst snd] in H; try discriminate.
        apply parse_braced_spec in B as [-> W].
        apply IH in H as (body & -> & W2 & F); [|exact OK].
        exists (firstn (S k) (c :: t) ++ c_lbrace :: inner ++ c_rbrace :: body).
        split; [rewrite <- (firstn_skipn (S k) (c :: t)) at 1; rewrite SK, <- !app_assoc; cbn; rewrite <- app_assoc; reflexivity|].
        split; [rewrite walk_nonbrace by exact All; rewrite walk_group; auto|auto].
      - apply IH in H as (body & E & W2 & F); [|exact OK].
        exists (firstn (S k) (c :: t) ++ body).
        split; [rewrite <- app_assoc, <- E, <- SK, firstn_skipn; reflexivity|].
        split; [rewrite walk_nonbrace; auto|auto]. }
  destruct (is_rbrace c) eqn:Er; [|discriminate].
  apply is_rbrace_eq in Er; subst c. inversion H; subst. exists []. cbn. auto.
Qed.

Lemma okerr_bind {X Y} (r : res X) (k : X -> res Y) :
  okerr r -> (forall x, r = Ok x -> okerr (k x)) -> okerr (bind r k).
Proof. destruct r; cbn; auto; intros []. Qed.

Lemma parse_braced_okerr s : okerr (parse_braced_string s).
Proof. apply braced_go_okerr. Qed.

Lemma parse_braced_len s inner r : parse_braced_string s = Ok (inner, r) -> length r < length s.
Proof. intros H. apply parse_braced_spec in H as [-> _]. rewrite app_length. cbn. lia. Qed.

Lemma npg_okerr fuel : forall s pre fc dl post, length s < fuel -> okerr (name_part_go fuel s pre fc dl post).
Proof.
  induction fuel as [|f IH]; intros s pre fc dl post L; [lia|].
  cbn [name_part_go]. destruct s as [|c t]; [exact I|]. cbn [length] in L.
  destruct (is_lbrace c).
  { apply okerr_bind; [apply parse_braced_okerr|]. intros [inner r1] B. apply parse_braced_len in B. cbn [fst snd].
    destruct fc; apply IH; lia. }
  destruct (m_non_letters (c :: t)) as [|k] eqn:NL.
  2:{ assert (length (skipn (S k) (c :: t)) < f) by (rewrite skipn_length; cbn [length]; lia).
      destruct fc; apply IH; auto. }
  destruct (m_format_chars (c :: t)) as [|k] eqn:FC.
  2:{ destruct (format_chars_ok _ _); [|exact I].
      assert (L2 : length (skipn (S k) (c :: t)) < f) by (rewrite skipn_length; cbn [length]; lia).
      destruct (skipn (S k) (c :: t)) as [|d r']; [exact I|]. cbn [length] in L2.
      destruct (is_lbrace d).
      - apply okerr_bind; [apply parse_braced_okerr|]. intros [inner r1] B. apply parse_braced_len in B. cbn [fst snd].
        apply IH; lia.
      - apply IH. cbn [length]. lia. }
  destruct (is_rbrace c); exact I.
Qed.

Lemma parse_name_part_spec s pre fc dl post r : parse_name_part s = Ok ((pre, fc, dl, post), r) ->
  exists body, s = body ++ c_rbrace :: r /\ walk body 0 = Some 0 /\ fc_wf fc.
Proof. unfold parse_name_part. intros H. eapply npg_spec; [exact H|exact I]. Qed.

Lemma parse_name_part_okerr s : okerr (parse_name_part s).
Proof. apply npg_okerr. lia. Qed.

Lemma mk_name_part_okerr pre fc dl post : fc_wf fc -> okerr (mk_name_part (pre, fc, dl, post)).
Proof.
  unfold mk_name_part, fc_wf. destruct fc as [v|]; [|intros _; exact I].
  destruct v as [|a [|b [|x v]]]; cbn; try discriminate; try (intros _; exact I).
  intros H. apply andb_prop in H as [H _]. rewrite H. exact I.
Qed.

(* ---- parse (top level) ---- *)
Lemma parse_go_balanced fuel : forall s ps, parse_go fuel s = Ok ps -> balanced s.
Proof.
  unfold balanced. induction fuel as [|f IH]; intros s ps H; [discriminate|].
  cbn [parse_go] in H. destruct s as [|c t]; [reflexivity|].
  destruct (m_text (c :: t)) as [|k] eqn:T.
  - destruct (is_lbrace c) eqn:El; [|discriminate]. apply is_lbrace_eq in El; subst c.
    destruct (parse_name_part t) as [[[[[pre fc] dl] post] r]| | |] eqn:P; cbn [bind fst snd] in H; try discriminate.
    apply parse_name_part_spec in P as (body & -> & W & F).
    destruct (mk_name_part _); cbn [bind] in H; try discriminate.
    destruct (parse_go f r) eqn:R; cbn [bind] in H; try discriminate.
    rewrite walk_group by exact W. eapply IH; exact R.
  - destruct (parse_go f (skipn (S k) (c :: t))) eqn:R; cbn [bind] in H; try discriminate.
    rewrite <- (firstn_skipn (S k) (c :: t)). rewrite walk_nonbrace; [eapply IH; exact R|].
    rewrite <- T. apply span_len_all.
Qed.

Lemma parse_go_okerr fuel : forall s, length s < fuel -> okerr (parse_go fuel s).
Proof.
  induction fuel as [|f IH]; intros s L; [lia|].
  cbn [parse_go]. destruct s as [|c t]; [exact I|]. cbn [length] in L.
  destruct (m_text (c :: t)) as [|k] eqn:T.
  - destruct (is_lbrace c); [|exact I].
    apply okerr_bind; [apply parse_name_part_okerr|]. intros [[[[pre fc] dl] post] r] P.
    apply parse_name_part_spec in P as (body & E & W & F). cbn [fst snd].
    apply okerr_bind; [apply mk_name_part_okerr; exact F|]. intros np _.
    apply okerr_bind; [apply IH; subst t; rewrite app_length in L; cbn [length] in L; lia|]. intros; exact I.
  - apply okerr_bind; [apply IH; rewrite skipn_length; cbn [length]; lia|]. intros; exact I.
Qed.

Theorem parse_format_okerr f : okerr (parse_format f).
Proof. apply parse_go_okerr. lia. Qed.

Theorem parse_format_balanced f ps : parse_format f = Ok ps -> balanced f.
Proof. apply parse_go_balanced. Qed.

Theorem unbalanced_rejected f : ~ balanced f -> exists c l, parse_format f = PyErr c l.
Proof.
  intros NB. pose proof (parse_format_okerr f) as K. pose proof (parse_format_balanced f) as B.
  destruct (parse_format f) as [ps|c l| |]; try contradiction; [exfalso; eauto|eauto].
Qed.

(* ---- the letters at brace level 1 ---- *)
Lemma l1_plain a : forall b runs, forallb plain a = true -> l1_scan (a ++ b) 1 runs [] = l1_scan b 1 runs [].
Proof.
  induction a as [|c a IH]; intros b runs H; [reflexivity|].
  cbn [forallb] in H. apply andb_prop in H as [H1 H2]. unfold plain in H1. apply andb_prop in H1 as [NB NA].
  unfold nonbrace, is_brace in NB. apply negb_true_iff in NA.
  cbn [app l1_scan]. rewrite NA, lbrace_is, rbrace_is.
  destruct (is_lbrace c); [discriminate|]. destruct (is_rbrace c); [discriminate|]. cbn [flush]. apply IH; exact H2.
Qed.

Lemma l1_alpha a : forall b runs cur, forallb is_alpha a = true -> l1_scan (a ++ b) 1 runs cur = l1_scan b 1 runs (rev a ++ cur).
Proof.
  induction a as [|c a IH]; intros b runs cur H; [reflexivity|].
  cbn [forallb] in H. apply andb_prop in H as [H1 H2].
  cbn [app l1_scan rev]. rewrite H1, IH by exact H2. rewrite <- app_assoc. reflexivity.
Qed.

Lemma l1_nonbrace0 a : forall b, forallb nonbrace a = true -> l1_scan (a ++ b) 0 [] [] = l1_scan b 0 [] [].
Proof.
  induction a as [|c a IH]; intros b H; [reflexivity|].
  cbn [forallb] in H. apply andb_prop in H as [H1 H2]. unfold nonbrace, is_brace in H1.
  cbn [app l1_scan]. rewrite lbrace_is. destruct (is_lbrace c); [discriminate|]. apply IH; exact H2.
Qed.

Lemma l1_braced s : forall d acc inner r runs cur, braced_go s d acc = Ok (inner, r) ->
  l1_scan s (S (S d)) runs cur = l1_scan r 1 runs [].
Proof.
  induction s as [|c s IH]; intros d acc inner r runs cur H; cbn [braced_go] in H; [discriminate|].
  cbn [l1_scan]. rewrite lbrace_is, rbrace_is.
  destruct (is_rbrace c) eqn:Er.
  - assert (El : is_lbrace c = false) by (apply is_rbrace_eq in Er; subst; reflexivity). rewrite El.
    destruct d as [|d]; [inversion H; subst; reflexivity|]. eapply IH; exact H.
  - destruct (is_lbrace c); eapply IH; exact H.
Qed.

Lemma l1_flush_step d t runs cur : is_alpha d = false ->
  l1_scan (d :: t) 1 runs cur = l1_scan (d :: t) 1 (flush runs cur) [].
Proof. intros H. cbn [l1_scan]. rewrite H. reflexivity. Qed.

Lemma flvj_cases a : flvj a = true -> a = 102%N \/ a = 108%N \/ a = 118%N \/ a = 106%N.
Proof.
  unfold flvj. intros H. repeat (apply orb_prop in H as [H|H]); apply N.eqb_eq in H; auto.
Qed.

Lemma format_chars_ok_legal u : format_chars_ok false (lower u) = true -> legal_letters u = true.
Proof.
  unfold legal_letters. generalize (lower u) as v. intros v H.
  unfold format_chars_ok in H. cbn [negb andb] in H.
  destruct v as [|a [|b [|x v]]]; try discriminate.
  - apply flvj_cases in H as [ -> | [ -> | [ -> | -> ] ] ]; reflexivity.
  - apply andb_prop in H as [E H]. apply N.eqb_eq in E; subst b.
    apply flvj_cases in H as [ -> | [ -> | [ -> | -> ] ] ]; reflexivity.
Qed.

Definition l1_inv (fc : option str) (runs : list str) : Prop :=
  match fc with
  | None => runs = []
  | Some _ => exists u, runs = [u] /\ legal_letters u = true
  end.

Lemma l1_inv_legal fc runs : l1_inv fc runs -> legal_group runs = true.
Proof. destruct fc; cbn; [intros (u & -> & L); exact L|intros ->; reflexivity]. Qed.

Lemma npg_l1 fuel : forall s pre fc dl post raw r runs,
  name_part_go fuel s pre fc dl post = Ok (raw, r) -> l1_inv fc runs ->
  exists runs', l1_scan s 1 runs [] = runs' :: l1_scan r 0 [] [] /\ legal_group runs' = true.
Proof.
  induction fuel as [|f IH]; intros s pre fc dl post raw r runs H INV; [discriminate|].
  cbn [name_part_go] in H. destruct s as [|c t]; [discriminate|].
  destruct (is_lbrace c) eqn:El.
  { destruct (parse_braced_string t) as [[inner r1]| | |] eqn:B; cbn [bind fst snd] in H; try discriminate.
    assert (E : l1_scan (c :: t) 1 runs [] = l1_scan r1 1 runs []).
    { cbn [l1_scan]. rewrite lbrace_is, El.
      assert (NA : is_alpha c = false).
      { destruct (is_alpha c) eqn:A; [|reflexivity]. apply alpha_nonbrace in A. unfold nonbrace, is_brace in A. rewrite El in A. discriminate. }
      rewrite NA. cbn [flush]. eapply l1_braced; exact B. }
    rewrite E. destruct fc; eapply IH; eauto. }
  destruct (m_non_letters (c :: t)) as [|k] eqn:NL.
  2:{ apply m_non_letters_chars in NL as [Len All].
      assert (E : l1_scan (c :: t) 1 runs [] = l1_scan (skipn (S k) (c :: t)) 1 runs []).
      { transitivity (l1_scan (firstn (S k) (c :: t) ++ skipn (S k) (c :: t)) 1 runs []);
          [rewrite firstn_skipn; reflexivity|apply l1_plain; exact All]. }
      rewrite E. destruct fc; eapply IH; eauto. }
  destruct (m_format_chars (c :: t)) as [|k] eqn:FC.
  2:{ destruct (format_chars_ok _ _) eqn:OK; [|discriminate].
      apply format_chars_ok_false in OK as [NF OK].
      destruct fc; [discriminate|]. cbn in INV. subst runs.
      apply format_chars_ok_legal in OK.
      set (ls := firstn (S k) (c :: t)) in *.
      assert (All : forallb is_alpha ls = true) by (subst ls; rewrite <- FC; apply span_len_all).
      assert (NE : rev ls <> []).
      { subst ls. cbn [firstn rev]. intros E. apply app_eq_nil in E as [_ E]. discriminate. }
      pose proof (span_len_max is_alpha (c :: t)) as MX. fold (m_format_chars (c :: t)) in MX. rewrite FC in MX.
      assert (E0 : l1_scan (c :: t) 1 [] [] = l1_scan (skipn (S k) (c :: t)) 1 [] (rev ls)).
      { transitivity (l1_scan (ls ++ skipn (S k) (c :: t)) 1 [] []);
          [subst ls; rewrite firstn_skipn; reflexivity|rewrite l1_alpha by exact All; rewrite app_nil_r; reflexivity]. }
      rewrite E0.
      destruct (skipn (S k) (c :: t)) as [|d r'] eqn:SK; [discriminate|].
      assert (FL : flush [] (rev ls) = [ls]).
      { unfold flush. destruct (rev ls) eqn:R; [contradiction|]. rewrite <- R, rev_involutive. reflexivity. }
      rewrite l1_flush_step by exact MX. rewrite FL.
      destruct (is_lbrace d) eqn:Ed.
      - destruct (parse_braced_string r') as [[inner r1]| | |] eqn:B; cbn [bind fst snd] in H; try discriminate.
        assert (E : l1_scan (d :: r') 1 [ls] [] = l1_scan r1 1 [ls] []).
        { cbn [l1_scan]. rewrite MX, lbrace_is, Ed. cbn [flush]. eapply l1_braced; exact B. }
        rewrite E. eapply IH; [exact H|]. cbn. eauto.
      - eapply IH; [exact H|]. cbn. eauto. }
  destruct (is_rbrace c) eqn:Er; [|discriminate]. inversion H; subst.
  exists runs. split; [|eapply l1_inv_legal; exact INV].
  cbn [l1_scan]. rewrite lbrace_is, rbrace_is, El, Er.
  assert (NA : is_alpha c = false).
  { destruct (is_alpha c) eqn:A; [|reflexivity]. apply alpha_nonbrace in A. unfold nonbrace, is_brace in A. rewrite Er, orb_true_r in A. discriminate. }
  rewrite NA. reflexivity.
Qed.

Lemma parse_go_letters fuel : forall s ps, parse_go fuel s = Ok ps ->
  forallb legal_group (l1_scan s 0 [] []) = true.
Proof.
  induction fuel as [|f IH]; intros s ps H; [discriminate|].
  cbn [parse_go] in H. destruct s as [|c t]; [reflexivity|].
  destruct (m_text (c :: t)) as [|k] eqn:T.
  - destruct (is_lbrace c) eqn:El; [|discriminate].
    destruct (parse_name_part t) as [[raw r]| | |] eqn:P; cbn [bind fst snd] in H; try discriminate.
    destruct (mk_name_part _); cbn [bind] in H; try discriminate.
    destruct (parse_go f r) eqn:R; cbn [bind] in H; try discriminate.
    cbn [l1_scan]. rewrite lbrace_is, El.
    unfold parse_name_part in P. eapply npg_l1 in P as (runs' & E & LG); [|reflexivity].
    rewrite E. cbn [forallb]. rewrite LG. eapply IH; exact R.
  - destruct (parse_go f (skipn (S k) (c :: t))) eqn:R; cbn [bind] in H; try discriminate.
    rewrite <- (firstn_skipn (S k) (c :: t)). rewrite l1_nonbrace0; [eapply IH; exact R|].
    rewrite <- T. apply span_len_all.
Qed.

Theorem parse_format_letters f ps : parse_format f = Ok ps ->
  forallb legal_group (level1_letter_runs f) = true.
Proof. apply parse_go_letters. Qed.

Theorem bad_letters_rejected f : forallb legal_group (level1_letter_runs f) = false ->
  exists c l, parse_format f = PyErr c l.
Proof.
  intros NB. pose proof (parse_format_okerr f) as K. pose proof (parse_format_letters f) as B.
  destruct (parse_format f) as [ps|c l| |]; try contradiction; [|eauto].
  rewrite (B _ eq_refl) in NB. discriminate.
Qed.
