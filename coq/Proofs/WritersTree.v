(* Proofs/WritersTree.v -- the YAML and BibTeXML glue round trips (C02). *)
From Pybtex Require Import Base.Prelude Base.PyChar Base.PyStr Model.BibtexStr Model.Names Model.Scanner Model.BibParser Model.Writers
  Proofs.WritersDict.
Local Open Scope N_scope.

(* a person survives being written as the texts of its parts and re-read by Person(first=.., ...) *)
Definition parts_ok (p : person) : Prop := reparse_person p = Ok p.

Lemma person_init_empty : person_init [] [] [] [] [] [] = Ok (empty_person, false).
Proof. vm_compute. reflexivity. Qed.

Lemma person_tree_read p :
  match person_tree p with
  | TMap m => person_of_kwargs (map (fun kv => (fst kv, str_leaf (snd kv))) m)
  | _ => Crash
  end = reparse_person p.
Proof.
  unfold person_tree, person_parts, reparse_person, person_of_parts.
  generalize (part_text (p_first p)) (part_text (p_middle p)) (part_text (p_prelast p))
             (part_text (p_last p)) (part_text (p_lineage p)).
  intros a b c d e. unfold person_of_kwargs.
  destruct a, b, c, d, e; cbn -[person_init]; rewrite person_init_empty; reflexivity.
Qed.

(* ---- generic helpers *)
Lemma NoDup_app_intro {X} (a b : list X) :
  NoDup a -> NoDup b -> (forall x, In x a -> In x b -> False) -> NoDup (a ++ b).
Proof.
  induction a as [|x a IH]; cbn; intros Ha Hb Hd; [exact Hb|].
  inversion Ha as [|? ? Hn Ha']; subst. constructor.
  - intros Hin. apply in_app_or in Hin as [Hin|Hin]; [now apply Hn|]. apply (Hd x); [now left|exact Hin].
  - apply IH; auto. intros y Hy1 Hy2. apply (Hd y); [now right|exact Hy2].
Qed.

Lemma NoDup_app_l {X} (a b : list X) : NoDup (a ++ b) -> NoDup a.
Proof. induction a as [|x a IH]; cbn; intros H; [constructor|]. inversion H; subst. constructor; [|auto]. intros Hin; apply H2; apply in_or_app; now left. Qed.
Lemma NoDup_app_r {X} (a b : list X) : NoDup (a ++ b) -> NoDup b.
Proof. induction a as [|x a IH]; cbn; intros H; [exact H|]. inversion H; subst. auto. Qed.
Lemma NoDup_app_disj {X} (a b : list X) x : NoDup (a ++ b) -> In x a -> In x b -> False.
Proof.
  induction a as [|y a IH]; cbn; intros H Ha Hb; [contradiction|].
  inversion H; subst. destruct Ha as [->|Ha]; [apply H2; apply in_or_app; now right|]. eauto.
Qed.

Lemma fold_od_map {V W} (g : str * V -> W) (l : list (str * V)) (a : list (str * W)) :
  fold_left (fun acc kv => od_set (fst kv) (g kv) acc) l a =
  fold_left (fun acc kv => od_set (fst kv) (snd kv) acc) (map (fun kv => (fst kv, g kv)) l) a.
Proof. revert a; induction l as [|kv l IH]; intros a; cbn; [reflexivity|]. apply IH. Qed.

Lemma keys_map_val {V W} (g : str * V -> W) (l : list (str * V)) : keys (map (fun kv => (fst kv, g kv)) l) = keys l.
Proof. unfold keys. rewrite map_map. reflexivity. Qed.

Lemma in_keys_lkeys {V} k (l : list (str * V)) : In k (keys l) -> In (lower k) (lkeys l).
Proof. unfold keys, lkeys. rewrite !in_map_iff. intros (kv & <- & H). exists kv; auto. Qed.

(* ---- add_person *)
Lemma add_person_fresh r p acc : ~ In (lower r) (lkeys acc) -> add_person r p acc = acc ++ [(r, [p])].
Proof.
  induction acc as [|[r' ps] acc IH]; cbn; [reflexivity|]. intros H.
  destruct (str_eqb_spec (lower r) (lower r')) as [E|_]; [exfalso; apply H; left; now rewrite E|].
  rewrite IH; [reflexivity|]. intros Hin; apply H; now right.
Qed.
Lemma add_person_last r p acc ps : ~ In (lower r) (lkeys acc) -> add_person r p (acc ++ [(r, ps)]) = acc ++ [(r, ps ++ [p])].
Proof.
  induction acc as [|[r' ps'] acc IH]; cbn.
  - intros _. now rewrite str_eqb_refl.
  - intros H. destruct (str_eqb_spec (lower r) (lower r')) as [E|_]; [exfalso; apply H; left; now rewrite E|].
    rewrite IH; [reflexivity|]. intros Hin; apply H; now right.
Qed.

(* =====================================================================================
   YAML *)
Definition yaml_ok_entry (e : wentry) : Prop :=
  Forall (fun kv => is_role_lower (lower (fst kv)) = false /\ str_eqb (lower (fst kv)) k_type = false) (we_fields e) /\
  Forall (fun rp => is_role_lower (lower (fst rp)) = true /\ Forall parts_ok (snd rp)) (we_persons e).
Definition yaml_ok (d : wdb) : Prop := Forall yaml_ok_entry (wd_entries d).

Definition fields_items (e : wentry) : list (str * tree) := map (fun kv => (fst kv, TStr (snd kv))) (we_fields e).
Definition roles_items (e : wentry) : list (str * tree) := map (fun rp => (fst rp, TSeq (map person_tree (snd rp)))) (we_persons e).

Lemma entry_tree_eq e : wf_entry e -> yaml_ok_entry e ->
  entry_tree e = TMap ((k_type, TStr (we_otype e)) :: fields_items e ++ roles_items e).
Proof.
  intros (Hf & Hp & _) (Yf & Yp). unfold entry_tree, fields_items, roles_items.
  rewrite (fold_od_map (fun kv => TStr (snd kv))).
  rewrite (fold_od_map (fun rp => TSeq (map person_tree (snd rp)))).
  assert (Nf : NoDup (keys (we_fields e))) by now apply lkeys_nodup_keys.
  assert (Np : NoDup (keys (we_persons e))) by now apply lkeys_nodup_keys.
  assert (Tf : ~ In k_type (keys (we_fields e))).
  { unfold keys. rewrite in_map_iff. intros ([k v] & E & Hin). cbn in E; subst k.
    rewrite Forall_forall in Yf. destruct (Yf _ Hin) as [_ H]. cbn in H. vm_compute in H. discriminate. }
  assert (Tp : ~ In k_type (keys (we_persons e))).
  { unfold keys. rewrite in_map_iff. intros ([k v] & E & Hin). cbn in E; subst k.
    rewrite Forall_forall in Yp. destruct (Yp _ Hin) as [H _]. cbn in H. vm_compute in H. discriminate. }
  assert (Dj : forall x, In x (keys (we_fields e)) -> In x (keys (we_persons e)) -> False).
  { unfold keys. intros x. rewrite !in_map_iff. intros ([k v] & E & Hin) ([k' v'] & E' & Hin'). cbn in E, E'; subst.
    rewrite Forall_forall in Yf, Yp. destruct (Yf _ Hin) as [H _]. destruct (Yp _ Hin') as [H' _]. cbn in H, H'. congruence. }
  rewrite (fold_od_set_nodup (map (fun kv : str * str => (fst kv, TStr (snd kv))) (we_fields e))).
  - rewrite fold_od_set_nodup; [now rewrite <- app_assoc|].
    unfold keys. rewrite !map_app, !map_map. cbn [map fst app].
    change (NoDup (k_type :: keys (we_fields e) ++ keys (we_persons e))). constructor.
    + intros Hin. apply in_app_or in Hin as [Hin|Hin]; auto.
    + apply NoDup_app_intro; auto.
  - unfold keys. rewrite !map_map. cbn [map fst app].
    change (NoDup (k_type :: keys (we_fields e))). constructor; auto.
Qed.

Definition yaml_pstep (role : str) :=
  fun (acc : res (list (str * list person))) (names : tree) =>
    do a <- acc;
    match names with
    | TMap m => do p <- person_of_kwargs (map (fun kv => (fst kv, str_leaf (snd kv))) m); Ok (add_person role p a)
    | _ => Crash
    end.

Lemma yaml_pstep_tree role a p : parts_ok p -> yaml_pstep role (Ok a) (person_tree p) = Ok (add_person role p a).
Proof.
  intros H. unfold yaml_pstep. cbn [bind].
  pose proof (person_tree_read p) as R. unfold person_tree in *. rewrite R, H. reflexivity.
Qed.

Lemma yaml_persons_fold role : forall ps done acc, Forall parts_ok ps -> ~ In (lower role) (lkeys acc) ->
  fold_left (yaml_pstep role) (map person_tree ps) (Ok (acc ++ [(role, done)])) = Ok (acc ++ [(role, done ++ ps)]).
Proof.
  induction ps as [|p ps IH]; intros done acc Hp Hr; cbn [map fold_left]; [now rewrite app_nil_r|].
  inversion Hp; subst. rewrite yaml_pstep_tree by assumption. rewrite add_person_last by assumption.
  rewrite IH by assumption. now rewrite <- app_assoc.
Qed.

Lemma yaml_persons_ok role ps acc : ps <> [] -> Forall parts_ok ps -> ~ In (lower role) (lkeys acc) ->
  yaml_persons role (TSeq (map person_tree ps)) acc = Ok (acc ++ [(role, ps)]).
Proof.
  intros Hne Hp Hr. unfold yaml_persons. fold (yaml_pstep role).
  destruct ps as [|p ps]; [congruence|]. cbn [map fold_left]. inversion Hp; subst.
  rewrite yaml_pstep_tree by assumption. rewrite add_person_fresh by assumption.
  apply (yaml_persons_fold role ps [p] acc); assumption.
Qed.

Definition yaml_step :=
  fun (acc : res (list (str * str) * list (str * list person))) (kv : str * tree) =>
    do a <- acc;
    let kl := lower (fst kv) in
    if is_role_lower kl then do ps <- yaml_persons (fst kv) (snd kv) (snd a); Ok (fst a, ps)
    else if str_eqb kl k_type then Ok a
    else match snd kv with
         | TStr s => Ok (ci_set (fst kv) s (fst a), snd a)
         | _ => Crash
         end.

Lemma yaml_fold_fields : forall F af ap,
  Forall (fun kv => is_role_lower (lower (fst kv)) = false /\ str_eqb (lower (fst kv)) k_type = false) F ->
  NoDup (lkeys af ++ lkeys F) ->
  fold_left yaml_step (map (fun kv => (fst kv, TStr (snd kv))) F) (Ok (af, ap)) = Ok (af ++ F, ap).
Proof.
  induction F as [|[k v] F IH]; intros af ap HF Hn; cbn [map fold_left]; [now rewrite app_nil_r|].
  inversion HF as [|? ? [H1 H2] HF']; subst. cbn [fst snd] in H1, H2.
  unfold yaml_step at 2. cbn [bind fst snd]. rewrite H1, H2.
  rewrite ci_set_fresh.
  - rewrite IH; [now rewrite <- app_assoc|assumption|].
    unfold lkeys in *. rewrite map_app. cbn. rewrite <- app_assoc. exact Hn.
  - intros Hin. cbn in Hn. apply NoDup_remove_2 in Hn. apply Hn. apply in_or_app; now left.
Qed.

Lemma yaml_fold_roles : forall R af ap,
  Forall (fun rp => is_role_lower (lower (fst rp)) = true /\ Forall parts_ok (snd rp)) R ->
  Forall (fun rp => snd rp <> []) R ->
  NoDup (lkeys ap ++ lkeys R) ->
  fold_left yaml_step (map (fun rp => (fst rp, TSeq (map person_tree (snd rp)))) R) (Ok (af, ap)) = Ok (af, ap ++ R).
Proof.
  induction R as [|[r ps] R IH]; intros af ap HR Hne Hn; cbn [map fold_left]; [now rewrite app_nil_r|].
  inversion HR as [|? ? [H1 H2] HR']; subst. inversion Hne as [|? ? Hne1 Hne']; subst. cbn [fst snd] in H1, H2, Hne1.
  unfold yaml_step at 2. cbn [bind fst snd]. rewrite H1.
  rewrite yaml_persons_ok; auto.
  - cbn [bind]. rewrite IH; [now rewrite <- app_assoc|assumption|assumption|].
    unfold lkeys in *. rewrite map_app. cbn. rewrite <- app_assoc. exact Hn.
  - intros Hin. cbn in Hn. apply NoDup_remove_2 in Hn. apply Hn. apply in_or_app; now left.
Qed.

Lemma yaml_entry_ok e : wf_entry e -> yaml_ok_entry e -> yaml_entry (we_key e) (entry_tree e) = Ok e.
Proof.
  intros W Y. rewrite entry_tree_eq by assumption. destruct W as (Hf & Hp & Hne). destruct Y as (Yf & Yp).
  unfold yaml_entry. cbn [od_get]. replace (str_eqb k_type k_type) with true by (vm_compute; reflexivity).
  fold yaml_step. cbn [fold_left].
  assert (E0 : yaml_step (Ok ([], [])) (k_type, TStr (we_otype e)) = Ok ([], [])) by (vm_compute; reflexivity).
  rewrite E0. rewrite fold_left_app. unfold fields_items, roles_items.
  rewrite yaml_fold_fields; [|assumption|exact Hf].
  rewrite yaml_fold_roles; [|assumption|assumption|exact Hp].
  cbn. now destruct e.
Qed.

Definition norm_preamble (d : wdb) : wdb :=
  mkWDb (wd_entries d) (match concat (wd_preamble d) with [] => [] | s => [s] end).

Definition lk (es : list wentry) : list str := map (fun e => lower (we_key e)) es.

Lemma add_entry_fresh e a : ~ In (lower (we_key e)) (lk a) -> add_entry_strict (we_key e) e a = Ok (a ++ [e]).
Proof.
  intros H. unfold add_entry_strict. rewrite has_key_false by exact H.
  fold (rekey e). now rewrite rekey_id.
Qed.

Definition yaml_estep :=
  fun (acc : res (list wentry)) (ke : str * tree) =>
    do a <- acc; do e <- yaml_entry (fst ke) (snd ke); add_entry_strict (fst ke) e a.

Lemma yaml_fold_entries : forall l acc, Forall wf_entry l -> Forall yaml_ok_entry l -> NoDup (lk acc ++ lk l) ->
  fold_left yaml_estep (map (fun e => (we_key e, entry_tree e)) l) (Ok acc) = Ok (acc ++ l).
Proof.
  induction l as [|e l IH]; intros acc W Y Hn; cbn [map fold_left]; [now rewrite app_nil_r|].
  inversion W; subst. inversion Y; subst.
  unfold yaml_estep at 2. cbn [bind fst snd]. rewrite yaml_entry_ok by assumption. cbn [bind].
  rewrite add_entry_fresh.
  - rewrite IH; [now rewrite <- app_assoc|assumption|assumption|].
    unfold lk in *. rewrite map_app. cbn. rewrite <- app_assoc. exact Hn.
  - intros Hin. cbn in Hn. apply NoDup_remove_2 in Hn. apply Hn. apply in_or_app; now left.
Qed.

Lemma entries_keys_nodup es : NoDup (lk es) -> NoDup (keys (map (fun e => (we_key e, entry_tree e)) es)).
Proof.
  intros H. unfold keys. rewrite map_map. cbn [fst]. unfold lk in H.
  replace (map (fun e => lower (we_key e)) es) with (map lower (map we_key es)) in H by now rewrite map_map.
  apply NoDup_map_inv' in H. exact H.
Qed.

Lemma yaml_glue_roundtrip_pf d : wf_db d -> yaml_ok d -> from_tree_yaml (to_tree_yaml d) = Ok (norm_preamble d).
Proof.
  intros [Hk He] Y. unfold to_tree_yaml, norm_preamble.
  rewrite od_of_pairs_nodup by now apply entries_keys_nodup.
  unfold from_tree_yaml. cbn [od_get].
  replace (str_eqb k_entries k_entries) with true by (vm_compute; reflexivity).
  fold yaml_estep.
  destruct (concat (wd_preamble d)) as [|c pre]; cbn [od_get].
  - cbn [bind]. rewrite yaml_fold_entries; auto.
  - replace (str_eqb k_preamble k_entries) with false by (vm_compute; reflexivity).
    replace (str_eqb k_preamble k_preamble) with true by (vm_compute; reflexivity).
    cbn [bind]. rewrite yaml_fold_entries; auto.
Qed.

(* =====================================================================================
   BibTeXML *)
Definition xml_ok_entry (e : wentry) : Prop :=
  Forall (fun kv => is_role_lower (fst kv) = false) (we_fields e) /\
  Forall (fun rp => is_role_lower (fst rp) = true /\ Forall parts_ok (snd rp)) (we_persons e).
Definition xml_ok (d : wdb) : Prop := Forall xml_ok_entry (wd_entries d).

Lemma xml_person_read_leaf f role p a :
  xml_person_read (S f) role (xml_person p) a = do q <- reparse_person p; Ok (add_person role q a).
Proof.
  unfold xml_person, person_parts, reparse_person, person_of_parts.
  generalize (part_text (p_first p)) (part_text (p_middle p)) (part_text (p_prelast p))
             (part_text (p_last p)) (part_text (p_lineage p)).
  intros x1 x2 x3 x4 x5. unfold person_of_kwargs.
  destruct x1, x2, x3, x4, x5; cbn -[person_init add_person]; rewrite person_init_empty; cbn -[person_init add_person]; reflexivity.
Qed.

Lemma xml_size_S x : exists m, xml_size x = S m.
Proof. destruct x. cbn. eauto. Qed.

Definition xml_pstep (f : nat) (role : str) :=
  fun (acc : res (list (str * list person))) (c : xml) => do a <- acc; xml_person_read f role c a.

Lemma xml_pstep_leaf f role a p : parts_ok p -> xml_pstep (S f) role (Ok a) (xml_person p) = Ok (add_person role p a).
Proof. intros H. unfold xml_pstep. cbn [bind]. rewrite xml_person_read_leaf, H. reflexivity. Qed.

Lemma xml_persons_fold f role : forall ps done acc, Forall parts_ok ps -> ~ In (lower role) (lkeys acc) ->
  fold_left (xml_pstep (S f) role) (map xml_person ps) (Ok (acc ++ [(role, done)])) = Ok (acc ++ [(role, done ++ ps)]).
Proof.
  induction ps as [|p ps IH]; intros done acc Hp Hr; cbn [map fold_left]; [now rewrite app_nil_r|].
  inversion Hp; subst. rewrite xml_pstep_leaf by assumption. rewrite add_person_last by assumption.
  rewrite IH by assumption. now rewrite <- app_assoc.
Qed.

Lemma filter_person_all ps : filter (fun c => str_eqb (x_tag c) k_person) (map xml_person ps) = map xml_person ps.
Proof. induction ps as [|p ps IH]; cbn [map filter]; [reflexivity|]. cbn [xml_person container x_tag]. rewrite str_eqb_refl, IH. reflexivity. Qed.

Lemma xml_role_unfold g role p ps acc :
  xml_person_read (S g) role (container role None 3 (map xml_person (p :: ps))) acc =
  fold_left (xml_pstep g role) (map xml_person (p :: ps)) (Ok acc).
Proof.
  cbn [xml_person_read container x_children]. rewrite filter_person_all. reflexivity.
Qed.

Lemma xml_role_read f role ps acc : ps <> [] -> Forall parts_ok ps -> ~ In (lower role) (lkeys acc) ->
  xml_person_read (S (S f)) role (container role None 3 (map xml_person ps)) acc = Ok (acc ++ [(role, ps)]).
Proof.
  intros Hne Hp Hr. destruct ps as [|p ps]; [congruence|].
  rewrite xml_role_unfold. cbn [map fold_left]. inversion Hp; subst.
  rewrite xml_pstep_leaf by assumption. rewrite add_person_fresh by assumption.
  apply (xml_persons_fold f role ps [p] acc); assumption.
Qed.

Definition xml_step :=
  fun (acc : res (list (str * str) * list (str * list person))) (field : xml) =>
    do a <- acc;
    let name := x_tag field in
    if is_role_lower name then do ps <- xml_person_read (S (xml_size field)) name field (snd a); Ok (fst a, ps)
    else Ok (ci_set name (match x_text field with Some t => t | None => [] end) (fst a), snd a).

Lemma xml_fold_fields : forall F af ap,
  Forall (fun kv => is_role_lower (fst kv) = false) F -> NoDup (lkeys af ++ lkeys F) ->
  fold_left xml_step (map (fun kv => leaf (fst kv) (snd kv)) F) (Ok (af, ap)) = Ok (af ++ F, ap).
Proof.
  induction F as [|[k v] F IH]; intros af ap HF Hn; cbn [map fold_left]; [now rewrite app_nil_r|].
  inversion HF as [|? ? H1 HF']; subst. cbn [fst snd] in H1.
  unfold xml_step at 2. cbn [bind fst snd leaf x_tag x_text]. rewrite H1.
  assert (E : match match v with [] => None | _ :: _ => Some v end with Some t => t | None => [] end = v) by now destruct v.
  rewrite E. rewrite ci_set_fresh.
  - rewrite IH; [now rewrite <- app_assoc|assumption|].
    unfold lkeys in *. rewrite map_app. cbn. rewrite <- app_assoc. exact Hn.
  - intros Hin. cbn in Hn. apply NoDup_remove_2 in Hn. apply Hn. apply in_or_app; now left.
Qed.

Definition xml_roles (R : list (str * list person)) : list xml :=
  flat_map (fun rp => match snd rp with [] => [] | ps => [container (fst rp) None 3 (map xml_person ps)] end) R.

Lemma xml_fold_roles : forall R af ap,
  Forall (fun rp => is_role_lower (fst rp) = true /\ Forall parts_ok (snd rp)) R ->
  Forall (fun rp => snd rp <> []) R ->
  NoDup (lkeys ap ++ lkeys R) ->
  fold_left xml_step (xml_roles R) (Ok (af, ap)) = Ok (af, ap ++ R).
Proof.
  induction R as [|[r ps] R IH]; intros af ap HR Hne Hn; [cbn; now rewrite app_nil_r|].
  inversion HR as [|? ? [H1 H2] HR']; subst. inversion Hne as [|? ? Hne1 Hne']; subst. cbn [fst snd] in H1, H2, Hne1.
  unfold xml_roles. cbn [flat_map fst snd]. destruct ps as [|p ps]; [congruence|].
  cbn [app fold_left]. fold (xml_roles R).
  unfold xml_step at 2. cbn [bind fst snd]. cbn [container x_tag]. rewrite H1.
  destruct (xml_size_S (XEl r None (Some (indent_text 4)) (map xml_person (p :: ps)))) as [m Em].
  change (XEl r None (Some (indent_text 4)) (map xml_person (p :: ps))) with (container r None 3 (map xml_person (p :: ps))) in *.
  rewrite Em. rewrite xml_role_read; auto.
  - cbn [bind]. rewrite IH; [now rewrite <- app_assoc|assumption|assumption|].
    unfold lkeys in *. rewrite map_app. cbn. rewrite <- app_assoc. exact Hn.
  - intros Hin. cbn in Hn. apply NoDup_remove_2 in Hn. apply Hn. apply in_or_app; now left.
Qed.

Lemma xml_entry_ok e : wf_entry e -> xml_ok_entry e -> xml_entry_read (xml_entry e) = Ok e.
Proof.
  intros (Hf & Hp & Hne) (Xf & Xp).
  unfold xml_entry. fold (xml_roles (we_persons e)).
  unfold xml_entry_read. cbn [container x_id x_children]. fold xml_step.
  set (kids := map (fun kv => leaf (fst kv) (snd kv)) (we_fields e) ++ xml_roles (we_persons e)).
  unfold kids. rewrite fold_left_app.
  rewrite xml_fold_fields; [|assumption|exact Hf].
  rewrite xml_fold_roles; [|assumption|assumption|exact Hp].
  cbn. now destruct e.
Qed.

Definition xml_estep :=
  fun (acc : res (list wentry)) (c : xml) => do a <- acc; do e <- xml_entry_read c; add_entry_strict (we_key e) e a.

Lemma xml_fold_entries : forall l acc, Forall wf_entry l -> Forall xml_ok_entry l -> NoDup (lk acc ++ lk l) ->
  fold_left xml_estep (map xml_entry l) (Ok acc) = Ok (acc ++ l).
Proof.
  induction l as [|e l IH]; intros acc W Y Hn; cbn [map fold_left]; [now rewrite app_nil_r|].
  inversion W; subst. inversion Y; subst.
  unfold xml_estep at 2. cbn [bind]. rewrite xml_entry_ok by assumption. cbn [bind].
  rewrite add_entry_fresh.
  - rewrite IH; [now rewrite <- app_assoc|assumption|assumption|].
    unfold lk in *. rewrite map_app. cbn. rewrite <- app_assoc. exact Hn.
  - intros Hin. cbn in Hn. apply NoDup_remove_2 in Hn. apply Hn. apply in_or_app; now left.
Qed.

Lemma filter_entry_all es : filter (fun c => str_eqb (x_tag c) k_entry) (map xml_entry es) = map xml_entry es.
Proof. induction es as [|e es IH]; cbn [map filter]; [reflexivity|]. cbn [xml_entry container x_tag]. rewrite str_eqb_refl, IH. reflexivity. Qed.

Definition drop_preamble (d : wdb) : wdb := mkWDb (wd_entries d) [].

Lemma xml_glue_roundtrip_pf d : wf_db d -> xml_ok d -> from_tree_xml (to_tree_xml d) = Ok (drop_preamble d).
Proof.
  intros [Hk He] X. unfold from_tree_xml, drop_preamble. fold xml_estep.
  assert (C : x_children (to_tree_xml d) = map xml_entry (wd_entries d)).
  { unfold to_tree_xml. destruct (map xml_entry (wd_entries d)); reflexivity. }
  rewrite C, filter_entry_all. rewrite xml_fold_entries; auto.
Qed.
