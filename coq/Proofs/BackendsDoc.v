(* Proofs/BackendsDoc.v -- whole documents: BaseBackend.write_to_stream (property C09, observe_at) *)
From Pybtex Require Import Base.Prelude Base.PyChar Base.PyStr Model.RtTypes Model.Backends
  Proofs.Backends Proofs.BackendsMd Proofs.BackendsHtml Proofs.BackendsHtmlWf Proofs.BackendsLatex.
Local Open Scope N_scope.

(* the entries part of a document: one write_entry per entry, in order, around the rendered text *)
Definition entries_text (b : backend) (php : bool) (es : list fentry) (texts : list str) : str :=
  concat (map (fun p => write_entry b php (e_key (fst p)) (e_label (fst p)) (snd p)) (combine es texts)).

Definition rendered enc T b (es : list fentry) (texts : list str) : Prop :=
  Forall2 (fun e x => render enc T b (e_text e) = Ok x) es texts.

Lemma write_entries_spec enc T b php es : forall body, write_entries enc T b php es = Ok body ->
  exists texts, rendered enc T b es texts /\ body = entries_text b php es texts.
Proof.
  induction es as [|e es IH]; intros body H.
  - cbn in H. injection H as <-. exists []. split; [constructor|reflexivity].
  - cbn [write_entries] in H.
    destruct (render enc T b (e_text e)) as [x| | |] eqn:Ex; try discriminate. cbn [bind] in H.
    destruct (write_entries enc T b php es) as [y| | |] eqn:Ey; try discriminate. cbn [bind] in H.
    injection H as <-. destruct (IH y eq_refl) as [texts [Hr ->]].
    exists (x :: texts). split; [constructor; assumption|reflexivity].
Qed.

(* write_to_stream = prologue, then one write_entry per entry in order, then epilogue *)
Lemma write_to_stream_spec enc T b php encoding preamble es out :
  write_to_stream enc T b php encoding preamble es = Ok out ->
  exists p texts, write_prologue b encoding preamble es = Ok p /\ rendered enc T b es texts /\
    out = p ++ entries_text b php es texts ++ write_epilogue b.
Proof.
  unfold write_to_stream. intros H.
  destruct (write_prologue b encoding preamble es) as [p| | |] eqn:Ep; try discriminate. cbn [bind] in H.
  destruct (write_entries enc T b php es) as [body| | |] eqn:Eb; try discriminate. cbn [bind] in H.
  injection H as <-. destruct (write_entries_spec _ _ _ _ _ _ Eb) as [texts [Hr ->]].
  exists p, texts. auto.
Qed.

(* Markdown and plain text have no prologue or epilogue: the document is the entries, in order *)
Lemma md_plain_document_holds enc T b php encoding preamble es out : b = BMarkdown \/ b = BPlain ->
  write_to_stream enc T b php encoding preamble es = Ok out ->
  exists texts, rendered enc T b es texts /\ out = entries_text b php es texts.
Proof.
  intros Hb H. destruct (write_to_stream_spec _ _ _ _ _ _ _ _ H) as [p [texts [Ep [Hr ->]]]].
  exists texts. split; [exact Hr|].
  destruct Hb as [-> | ->]; cbn in Ep; injection Ep as <-; cbn [write_epilogue app]; rewrite app_nil_r; reflexivity.
Qed.

(* ---- the longest label ---- *)
Lemma max_label_spec es : forall e0, exists e, In e (e0 :: es) /\
  max_label (e_label e0) (e_width e0) es = e_label e /\
  forall e', In e' (e0 :: es) -> (e_width e' <= e_width e)%Z.
Proof.
  induction es as [|e1 es IH]; intros e0.
  - exists e0. split; [left; reflexivity|]. split; [reflexivity|].
    intros e' [<-|[]]. lia.
  - cbn [max_label]. destruct (e_width e0 <? e_width e1)%Z eqn:E.
    + apply Z.ltb_lt in E. destruct (IH e1) as [e [Hin [Hm Hmax]]].
      exists e. split; [right; exact Hin|]. split; [exact Hm|].
      intros e' [<-|Hin']; [|apply Hmax; exact Hin'].
      specialize (Hmax e1 (or_introl eq_refl)). lia.
    + apply Z.ltb_ge in E. destruct (IH e0) as [e [Hin [Hm Hmax]]].
      exists e. split.
      * destruct Hin as [<-|Hin]; [left; reflexivity|right; right; exact Hin].
      * split; [exact Hm|]. intros e' [<-|[<-|Hin']].
        -- apply Hmax. left. reflexivity.
        -- specialize (Hmax e0 (or_introl eq_refl)). lia.
        -- apply Hmax. right. exact Hin'.
Qed.

Lemma longest_label_spec es ll : longest_label es = Ok ll ->
  (es = [] /\ ll = []) \/
  exists e, In e es /\ e_label e = ll /\ forall e', In e' es -> (e_width e' <= e_width e)%Z.
Proof.
  destruct es as [|e0 es]; cbn [longest_label]; intros H; injection H as <-.
  - left. split; reflexivity.
  - right. destruct (max_label_spec es e0) as [e [Hin [Hm Hmax]]]. exists e. auto.
Qed.

(* ---- LaTeX ---- *)
Definition latex_entry (key label text : str) : str :=
  [c_nl; c_nl] ++ (lit "\bibitem[") ++ label ++ (lit "]{") ++ key ++ [c_rbrace; c_nl] ++ text.

(* \begin{thebibliography}{longest label}, one \bibitem[label]{key} per entry in order, \end{thebibliography};
   the longest label is the label of an entry of maximal width, or empty when there is no entry *)
Definition is_longest (es : list fentry) (ll : str) : Prop :=
  (es = [] /\ ll = []) \/
  exists e, In e es /\ e_label e = ll /\ forall e', In e' es -> (e_width e' <= e_width e)%Z.

Lemma latex_document_holds enc T php encoding preamble es out :
  write_to_stream enc T BLatex php encoding preamble es = Ok out ->
  exists ll texts, is_longest es ll /\ rendered enc T BLatex es texts /\
    out = (if is_empty preamble then [] else preamble ++ [c_nl]) ++
          (lit "\begin{thebibliography}{") ++ ll ++ [c_rbrace] ++
          concat (map (fun p => latex_entry (e_key (fst p)) (e_label (fst p)) (snd p)) (combine es texts)) ++
          [c_nl; c_nl] ++ (lit "\end{thebibliography}") ++ [c_nl].
Proof.
  intros H. destruct (write_to_stream_spec _ _ _ _ _ _ _ _ H) as [p [texts [Ep [Hr ->]]]].
  cbn [write_prologue] in Ep. destruct (longest_label es) as [ll| | |] eqn:El; try discriminate.
  cbn [bind] in Ep. injection Ep as <-.
  exists ll, texts. split; [exact (longest_label_spec es ll El)|]. split; [exact Hr|].
  unfold entries_text. cbn [write_epilogue app]. repeat (rewrite <- app_assoc; cbn [app]). reflexivity.
Qed.

(* every entry list whose texts render is written -- the empty one included *)
Lemma latex_total enc T php encoding preamble es texts :
  rendered enc T BLatex es texts -> exists out, write_to_stream enc T BLatex php encoding preamble es = Ok out.
Proof.
  intros Hr. unfold write_to_stream. cbn [write_prologue].
  assert (Hll : exists ll, longest_label es = Ok ll) by (destruct es; eexists; reflexivity).
  destruct Hll as [ll Ell]. rewrite Ell. cbn [bind].
  assert (Hw : forall es texts, rendered enc T BLatex es texts -> exists body, write_entries enc T BLatex php es = Ok body).
  { induction 1 as [|e x es' ts Hx Hrest IH]; [exists []; reflexivity|].
    destruct IH as [body Eb]. cbn [write_entries]. rewrite Hx, Eb. cbn [bind]. eexists. reflexivity. }
  destruct (Hw _ _ Hr) as [body Eb]. rewrite Eb. cbn [bind]. eexists. reflexivity.
Qed.

Lemma balanced_open A x rest : bal 0 A = Some 1%nat -> balanced x -> balanced rest ->
  balanced (A ++ x ++ [c_rbrace] ++ rest).
Proof.
  intros HA Hx Hr. unfold balanced. rewrite bal_app, HA, bal_app, (balanced_at x 1 Hx).
  cbn [app bal]. change (c_rbrace =? c_lbrace) with false. change (c_rbrace =? c_rbrace) with true. cbv iota. exact Hr.
Qed.

Definition entry_balanced (e : fentry) : bool := balanced_b (e_key e) && balanced_b (e_label e) && lt_ok (e_text e).

Lemma latex_document_balanced_holds enc T php encoding preamble es out :
  (forall s, skeleton (enc s) = skeleton s) -> latex_tables_ok T = true ->
  balanced preamble -> forallb entry_balanced es = true ->
  write_to_stream enc T BLatex php encoding preamble es = Ok out -> balanced out.
Proof.
  intros Henc HT Hpre Hes H.
  destruct (latex_document_holds _ _ _ _ _ _ _ H) as [ll [texts [Hlong [Hr ->]]]].
  rewrite forallb_forall in Hes.
  assert (Hl : balanced ll).
  { destruct Hlong as [[_ ->]|[e [Hin [<- _]]]]; [apply balanced_nil|].
    specialize (Hes e Hin). unfold entry_balanced in Hes. apply andb_prop in Hes as [H1 _].
    apply andb_prop in H1 as [_ H2]. apply balanced_b_spec. exact H2. }
  apply balanced_app; [destruct (is_empty preamble); [apply balanced_nil|apply balanced_app; [exact Hpre|reflexivity]]|].
  apply balanced_open; [reflexivity|exact Hl|].
  apply balanced_app; [|reflexivity].
  clear H Hlong Hl ll. revert texts Hr. induction es as [|e0 es IH]; intros texts Hr.
  - inversion Hr; subst. apply balanced_nil.
  - inversion Hr as [|? x ? ts Hx Hrest]; subst. cbn [combine map concat fst snd].
    pose proof (Hes e0 (or_introl eq_refl)) as H0. unfold entry_balanced in H0.
    apply andb_prop in H0 as [H0 Ht]. apply andb_prop in H0 as [Hk Hlb].
    apply balanced_b_spec in Hk, Hlb.
    apply balanced_app; [|apply IH; [intros y Hy; apply Hes; right; exact Hy|exact Hrest]].
    unfold latex_entry.
    apply (balanced_app [c_nl; c_nl]); [reflexivity|].
    apply (balanced_app (lit "\bibitem[")); [reflexivity|].
    apply balanced_app; [exact Hlb|].
    change ([c_rbrace; c_nl] ++ x) with ([c_rbrace] ++ ([c_nl] ++ x)).
    apply balanced_open; [reflexivity|exact Hk|].
    apply (balanced_app [c_nl]); [reflexivity|].
    eapply latex_balanced_holds; eauto.
Qed.

(* ---- HTML ---- *)
Definition plain_label (l : str) : bool :=
  forallb (fun c => negb (c =? c_lt) && negb (c =? c_gt) && negb (c =? c_amp)) l.

Lemma plain_label_emits l : plain_label l = true -> emits l (map HC l).
Proof.
  unfold emits. induction l as [|c l IH]; intros H; [reflexivity|].
  cbn [plain_label forallb] in H. apply andb_prop in H as [H1 H2].
  apply andb_prop in H1 as [H1 Ha]. apply andb_prop in H1 as [Hl Hg]. apply negb_true_iff in Hl, Hg, Ha.
  cbn [hscan map]. rewrite Hl, Ha, Hg, (IH H2). reflexivity.
Qed.

Lemma plain_label_wf l : plain_label l = true -> wellformed l.
Proof.
  unfold wellformed. induction l as [|c l IH]; intros H; [reflexivity|].
  cbn [plain_label forallb] in H. apply andb_prop in H as [H1 H2].
  apply andb_prop in H1 as [H1 Ha]. apply andb_prop in H1 as [Hl Hg]. apply negb_true_iff in Hl, Hg, Ha.
  cbn [wf_scan]. rewrite Hl, Ha, Hg. apply IH. exact H2.
Qed.

Lemma html_entry_split php k label x :
  write_entry BHtml php k label x =
  ((lit "<dt>") ++ label ++ (lit "</dt>")) ++ [c_nl] ++ ((lit "<dd>") ++ x ++ (lit "</dd>")) ++ [c_nl].
Proof. unfold write_entry. rewrite <- !app_assoc. reflexivity. Qed.

Lemma html_entry_piece php k label x atoms :
  plain_label label = true -> wellformed x -> emits x atoms ->
  wellformed (write_entry BHtml php k label x) /\
  emits (write_entry BHtml php k label x) (map HC label ++ [HC c_nl] ++ atoms ++ [HC c_nl]).
Proof.
  intros Hl Wx Ex. rewrite html_entry_split.
  assert (W1 : wellformed ((lit "<dt>") ++ label ++ (lit "</dt>")))
    by exact (wellformed_element (lit "dt") label eq_refl (plain_label_wf _ Hl)).
  assert (W2 : wellformed ((lit "<dd>") ++ x ++ (lit "</dd>")))
    by exact (wellformed_element (lit "dd") x eq_refl Wx).
  assert (E1 : emits ((lit "<dt>") ++ label ++ (lit "</dt>")) (map HC label)).
  { replace (map HC label) with ([] ++ map HC label ++ []) by (rewrite app_nil_r; reflexivity).
    apply emits_app; [reflexivity|]. apply emits_app; [apply plain_label_emits; exact Hl|reflexivity]. }
  assert (E2 : emits ((lit "<dd>") ++ x ++ (lit "</dd>")) atoms).
  { replace atoms with ([] ++ atoms ++ []) by (rewrite app_nil_r; reflexivity).
    apply emits_app; [reflexivity|]. apply emits_app; [exact Ex|reflexivity]. }
  split.
  - apply wellformed_app; [exact W1|]. apply (wellformed_app [c_nl]); [reflexivity|].
    apply wellformed_app; [exact W2|reflexivity].
  - apply emits_app; [exact E1|]. apply (emits_app [c_nl] _ [HC c_nl]); [reflexivity|].
    apply emits_app; [exact E2|reflexivity].
Qed.

Definition html_entry_ok (e : fentry) : bool := plain_label (e_label e) && wf_names (e_text e) && names_ok (e_text e).

(* what a reader sees in the entries part: per entry the label, a line end, the text, a line end *)
Definition html_entries_atoms (T : tables) (es : list fentry) : list hatom :=
  flat_map (fun e => map HC (e_label e) ++ [HC c_nl] ++ hplain T (e_text e) ++ [HC c_nl]) es.

(* the element skeleton of the document: the document without the DOCTYPE declaration and the
   <head> block (fixed text, HTML 4.01 void <meta> elements) *)
Definition html_open : str := (lit "<html>") ++ [c_nl] ++ (lit "<body>") ++ [c_nl] ++ (lit "<dl>") ++ [c_nl].
Definition html_close : str := (lit "</dl></body></html>") ++ [c_nl].
Definition html_skeleton (body : str) : str := html_open ++ body ++ html_close.

Lemma html_skeleton_wf body : wellformed body -> wellformed (html_skeleton body).
Proof.
  intros Hb. unfold html_skeleton, wellformed. rewrite wf_app.
  assert (E : wf_scan [] WText html_open = Some ([lit "dl"; lit "body"; lit "html"], WText)) by reflexivity.
  rewrite E, wf_app, (wellformed_at body _ Hb). reflexivity.
Qed.

Lemma html_document_holds enc T php encoding preamble es out :
  html_symbols_ok T = true -> html_symbols_wf T = true -> forallb html_entry_ok es = true ->
  write_to_stream enc T BHtml php encoding preamble es = Ok out ->
  exists body, out = html_prologue encoding ++ body ++ write_epilogue BHtml /\
    wellformed body /\ wellformed (html_skeleton body) /\ chardata body = Some (html_entries_atoms T es).
Proof.
  intros Hs1 Hs2 Hes H.
  destruct (write_to_stream_spec _ _ _ _ _ _ _ _ H) as [p [texts [Ep [Hr ->]]]].
  cbn [write_prologue] in Ep. injection Ep as <-.
  exists (entries_text BHtml php es texts). split; [reflexivity|].
  assert (Hb : wellformed (entries_text BHtml php es texts) /\ emits (entries_text BHtml php es texts) (html_entries_atoms T es)).
  { clear H. revert texts Hr. induction es as [|e0 es IH]; intros texts Hr.
    - inversion Hr; subst. split; reflexivity.
    - inversion Hr as [|? x ? ts Hx Hrest]; subst. cbn [forallb] in Hes. apply andb_prop in Hes as [H0 Hes'].
      destruct (IH Hes' ts Hrest) as [IHw IHe].
      unfold html_entry_ok in H0. apply andb_prop in H0 as [H0 Hn]. apply andb_prop in H0 as [Hl Hw].
      pose proof (html_wellformed_holds enc T Hs2 (e_text e0) x Hw Hx) as Wx.
      assert (Ex : emits x (hplain T (e_text e0))).
      { pose proof (html_chardata_holds enc T Hs1 (e_text e0) x Hn Hx) as C. unfold chardata in C. unfold emits.
        destruct (hscan HText x) as [[xs st]|]; [|discriminate]. destruct st; try discriminate. congruence. }
      destruct (html_entry_piece php (e_key e0) (e_label e0) x _ Hl Wx Ex) as [P1 P2].
      unfold entries_text in *. cbn [combine map concat fst snd]. split.
      + apply wellformed_app; [exact P1|exact IHw].
      + cbn [html_entries_atoms flat_map]. fold (html_entries_atoms T es).
        apply emits_app; [|exact IHe].
        exact P2. }
  destruct Hb as [Hw He]. split; [exact Hw|]. split; [apply html_skeleton_wf; exact Hw|].
  unfold chardata. rewrite He. reflexivity.
Qed.

(* ---- one back-end object used several times: what an operation returns does not depend on what
   the object did before (its attributes are assigned by write_to_stream before they are read) ---- *)
Lemma step_result_stateless enc T b php encoding st st0 op :
  snd (step enc T b php encoding st op) = snd (step enc T b php encoding st0 op).
Proof. destruct op; reflexivity. Qed.

Lemma history_independent_holds enc T b php encoding ops : forall st st0,
  run_history enc T b php encoding st ops = map (fun op => snd (step enc T b php encoding st0 op)) ops.
Proof.
  induction ops as [|op r IH]; intros st st0; [reflexivity|].
  cbn [run_history map]. destruct (step enc T b php encoding st op) as [st' x] eqn:E.
  f_equal; [|apply IH].
  change x with (snd (st', x)). rewrite <- E. apply step_result_stateless.
Qed.

Lemma history_document_alone enc T b php encoding st ops k pre es :
  nth_error ops k = Some (OpDoc pre es) ->
  nth_error (run_history enc T b php encoding st ops) k = Some (write_to_stream enc T b php encoding pre es).
Proof.
  intros H. rewrite (history_independent_holds enc T b php encoding ops st st).
  rewrite nth_error_map, H. reflexivity.
Qed.
