(* Proofs/Aux.v -- lemmas about Model/Aux.v *)
From Pybtex Require Import Base.Prelude Base.PyChar Base.PyStr Model.Aux.

Lemma parse_aux_no_crash_placeholder : forall fs m f, parse_aux 0 fs m f = NoFuel.
Proof. reflexivity. Qed.
