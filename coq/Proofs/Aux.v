(* Proofs/Aux.v -- the parser of Model/Aux.v refines a context-free "flat" semantics over the
   flattened document of Spec/Aux.v; the statements of Props/C20.v follow from the flat one. *)
From Pybtex Require Import Base.Prelude Base.PyChar Base.PyStr Model.Aux Spec.Aux.

(* ---- the flat semantics: the state without the context object *)
Record flat := mkflat {
  f_style : option str; f_data : option (list str); f_cits : list str;
  f_canon : list (str * str); f_errs : list err }.
Definition flat_init : flat := mkflat None None [] [] [].
Definition obs (a : aux) : flat := mkflat (a_style a) (a_data a) (a_cits a) (a_canon a) (a_errs a).

Inductive fout := FRet (fl : flat) | FRaise (e : err) (fl : flat) | FCrash | FNoFuel.
Definition obs_out (r : outcome aux) : fout :=
  match r with
  | Ret a => FRet (obs a)
  | Raise e a => FRaise e (obs a)
  | CrashO => FCrash
  | NoFuel => FNoFuel
  end.
Definition fbind (r : fout) (f : flat -> fout) : fout :=
  match r with FRet fl => f fl | other => other end.

Definition f_add_err (fl : flat) (e : err) : flat :=
  mkflat (f_style fl) (f_data fl) (f_cits fl) (f_canon fl) (f_errs fl ++ [e]).
Definition f_report (m : mode) (e : err) (fl : flat) : fout :=
  match m with Strict => FRaise e fl | _ => FRet (f_add_err fl e) end.

Fixpoint f_cite_keys (m : mode) (c : ctx) (keys : list str) (fl : flat) : fout :=
  match keys with
  | [] => FRet fl
  | key :: rest =>
    fbind (match dict_get (lower key) (f_canon fl) with
           | Some existing =>
             if str_eqb key existing then FRet fl
             else f_report m (mkerr (EMismatch key existing) (Some c)) fl
           | None => FRet fl
           end)
          (fun fl1 => f_cite_keys m c rest
             (mkflat (f_style fl1) (f_data fl1) (f_cits fl1 ++ [key])
                     (dict_set (lower key) key (f_canon fl1)) (f_errs fl1)))
  end.

Definition f_step (m : mode) (v : visit) (fl : flat) : fout :=
  match v_cmd v with
  | CCitation => f_cite_keys m (ctx_of v) (keys_of v) fl
  | CBibstyle =>
    match f_style fl with
    | Some _ => f_report m (mkerr EStyle (Some (ctx_of v))) fl
    | None => FRet (mkflat (Some (v_val v)) (f_data fl) (f_cits fl) (f_canon fl) (f_errs fl))
    end
  | CBibdata =>
    match f_data fl with
    | Some _ => f_report m (mkerr EData (Some (ctx_of v))) fl
    | None => FRet (mkflat (f_style fl) (Some (split_on [c_comma] (v_val v))) (f_cits fl) (f_canon fl) (f_errs fl))
    end
  | CInput => FRet fl
  end.

Fixpoint run_visits (m : mode) (vs : list visit) (fl : flat) : fout :=
  match vs with
  | [] => FRet fl
  | v :: r => fbind (f_step m v fl) (run_visits m r)
  end.

(* a nested file: its visits, then what stopped the flattening (if anything) *)
Definition spec_nested (m : mode) (e : list visit * status) (fl : flat) : fout :=
  fbind (run_visits m (fst e) fl)
    (fun fl' => match snd e with
                | Complete => FRet fl'
                | Missing n => FRaise (mkerr (EOpen n) None) fl'
                | Deep => FNoFuel
                end).

(* the whole document: as a nested file, then the two fatal errors, located at the top
   file without a line *)
Definition spec_aux (fuel : nat) (fs : str -> option str) (m : mode) (top : str) : fout :=
  fbind (spec_nested m (expand fuel fs top) flat_init)
    (fun fl => match f_data fl, f_style fl with
               | None, _ => FRaise (mkerr ENoData (Some (mkctx top None None))) fl
               | Some _, None => FRaise (mkerr ENoStyle (Some (mkctx top None None))) fl
               | Some _, Some _ => FRet fl
               end).

(* ================= Part A: the parser refines the flat semantics ================= *)

Definition ctx_pres (r : outcome aux) (c : option ctx) : Prop :=
  forall st', r = Ret st' -> a_ctx st' = c.

Lemma obs_set_ctx st c : obs (set_ctx st c) = obs st.
Proof. reflexivity. Qed.

Lemma obs_out_obind (r : outcome aux) (K : aux -> outcome aux) (X : fout) (F : flat -> fout) :
  obs_out r = X ->
  (forall a, r = Ret a -> obs_out (K a) = F (obs a)) ->
  obs_out (obind r K) = fbind X F.
Proof.
  intros HX HK. subst X. destruct r as [a|e a| |]; cbn; auto.
Qed.

Lemma aux_error_flat m k st c :
  a_ctx st = Some c ->
  obs_out (aux_error m k st) = f_report m (mkerr k (Some c)) (obs st) /\
  ctx_pres (aux_error m k st) (Some c).
Proof.
  intros Hc. unfold aux_error. rewrite Hc. split.
  - destruct m; reflexivity.
  - intros st' H. destruct m; cbn in H; inversion H; subst; cbn; exact Hc.
Qed.

Lemma cite_keys_flat m c : forall keys st,
  a_ctx st = Some c ->
  obs_out (cite_keys m keys st) = f_cite_keys m c keys (obs st) /\
  ctx_pres (cite_keys m keys st) (Some c).
Proof.
  induction keys as [|key rest IH]; intros st Hc.
  - cbn. split; [reflexivity|]. intros st' H; inversion H; subst; exact Hc.
  - cbn [cite_keys f_cite_keys].
    set (r1 := match dict_get (lower key) (a_canon st) with
               | Some existing => if str_eqb key existing then Ret st else aux_error m (EMismatch key existing) st
               | None => Ret st end).
    assert (H1 : obs_out r1 =
                 match dict_get (lower key) (f_canon (obs st)) with
                 | Some existing => if str_eqb key existing then FRet (obs st)
                                    else f_report m (mkerr (EMismatch key existing) (Some c)) (obs st)
                 | None => FRet (obs st) end /\ ctx_pres r1 (Some c)).
    { subst r1. cbn [f_canon obs].
      destruct (dict_get (lower key) (a_canon st)) as [ex|].
      - destruct (str_eqb key ex).
        + split; [reflexivity|]. intros st' H; inversion H; subst; exact Hc.
        + apply aux_error_flat; exact Hc.
      - split; [reflexivity|]. intros st' H; inversion H; subst; exact Hc. }
    destruct H1 as [H1 P1]. split.
    + apply obs_out_obind; [exact H1|].
      intros a Ha. specialize (P1 a Ha).
      destruct (IH (add_citation a key)) as [IH1 _]; [exact P1|].
      rewrite IH1. reflexivity.
    + intros st' H. destruct r1 as [a| | |] eqn:E; cbn in H; try discriminate.
      specialize (P1 a eq_refl).
      destruct (IH (add_citation a key)) as [_ IH2]; [exact P1|]. apply IH2; exact H.
Qed.

Lemma handle_command_flat rec m v st :
  a_ctx st = Some (ctx_of v) -> v_cmd v <> CInput ->
  obs_out (handle_command rec m (v_cmd v) (v_val v) st) = f_step m v (obs st) /\
  ctx_pres (handle_command rec m (v_cmd v) (v_val v) st) (Some (ctx_of v)).
Proof.
  intros Hc Hn. unfold handle_command, f_step.
  destruct (v_cmd v) eqn:E; try congruence.
  - unfold handle_citation, keys_of. apply cite_keys_flat; exact Hc.
  - unfold handle_bibdata. cbn [f_data obs]. destruct (a_data st).
    + apply aux_error_flat; exact Hc.
    + split; [reflexivity|]. intros st' H; inversion H; subst; exact Hc.
  - unfold handle_bibstyle. cbn [f_style obs]. destruct (a_style st).
    + apply aux_error_flat; exact Hc.
    + split; [reflexivity|]. intros st' H; inversion H; subst; exact Hc.
Qed.

Lemma run_visits_app m : forall vs1 vs2 fl,
  run_visits m (vs1 ++ vs2) fl = fbind (run_visits m vs1 fl) (run_visits m vs2).
Proof.
  induction vs1 as [|v r IH]; intros vs2 fl; cbn; [reflexivity|].
  destruct (f_step m v fl); cbn; auto.
Qed.

Lemma spec_nested_cons m v vs s fl :
  spec_nested m (v :: vs, s) fl = fbind (f_step m v fl) (spec_nested m (vs, s)).
Proof. unfold spec_nested. cbn. destruct (f_step m v fl); reflexivity. Qed.

Lemma spec_nested_seq m (e1 e2 : list visit * status) fl :
  spec_nested m (match e1 with
                 | (vs, Complete) => let (vs', s') := e2 in (vs ++ vs', s')
                 | (vs, s) => (vs, s) end) fl
  = fbind (spec_nested m e1 fl) (spec_nested m e2).
Proof.
  destruct e1 as [vs s], e2 as [vs' s']. unfold spec_nested.
  destruct s; cbn [fst snd].
  - rewrite run_visits_app. destruct (run_visits m vs fl); reflexivity.
  - destruct (run_visits m vs fl); reflexivity.
  - destruct (run_visits m vs fl); reflexivity.
Qed.

Section Lines.
  Variable rec : str -> aux -> outcome aux.
  Variable erec : str -> list visit * status.
  Variable m : mode.
  Hypothesis Hrec : forall name st c, a_ctx st = Some c ->
    obs_out (rec name st) = spec_nested m (erec name) (obs st) /\ ctx_pres (rec name st) (Some c).

  Lemma parse_lines_flat name : forall lines n st c,
    a_ctx st = Some c -> c_file c = name ->
    obs_out (parse_lines rec m lines n st) = spec_nested m (expand_lines erec name lines n) (obs st) /\
    (forall st', parse_lines rec m lines n st = Ret st' -> exists c', a_ctx st' = Some c' /\ c_file c' = name).
  Proof.
    induction lines as [|l rest IH]; intros n st c Hc Hf.
    - cbn. split; [reflexivity|]. intros st' H; inversion H; subst. eauto.
    - cbn [parse_lines expand_lines]. unfold parse_line. rewrite Hc.
      set (c1 := mkctx (c_file c) (Some n) (Some (strip l))).
      set (st1 := set_ctx st (Some c1)).
      assert (Hc1 : a_ctx st1 = Some c1) by reflexivity.
      assert (Hf1 : c_file c1 = name) by exact Hf.
      destruct (match_command l) as [[cmd v]|] eqn:EM.
      + destruct cmd eqn:Ecmd.
        * (* citation *)
          set (vis := mkvisit name n (strip l) CCitation v).
          assert (Hcv : a_ctx st1 = Some (ctx_of vis)) by (unfold ctx_of, vis; cbn; subst c1; rewrite Hf; reflexivity).
          destruct (handle_command_flat rec m vis st1 Hcv) as [HA HB]; [cbn; congruence|].
          destruct (expand_lines erec name rest (S n)) as [vs' s'] eqn:EE.
          rewrite spec_nested_cons. split.
          -- apply obs_out_obind; [exact HA|].
             intros a Ha. destruct (IH (S n) a (ctx_of vis)) as [I1 _]; [apply HB; exact Ha|reflexivity|].
             rewrite EE in I1. exact I1.
          -- intros st' H. cbn [v_cmd v_val vis] in HB.
             destruct (handle_command rec m CCitation v st1) as [a| | |] eqn:EH; cbn in H; try discriminate.
             destruct (IH (S n) a (ctx_of vis)) as [_ I2]; [apply HB; reflexivity|reflexivity|]. apply I2; exact H.
        * (* bibdata *)
          set (vis := mkvisit name n (strip l) CBibdata v).
          assert (Hcv : a_ctx st1 = Some (ctx_of vis)) by (unfold ctx_of, vis; cbn; subst c1; rewrite Hf; reflexivity).
          destruct (handle_command_flat rec m vis st1 Hcv) as [HA HB]; [cbn; congruence|].
          destruct (expand_lines erec name rest (S n)) as [vs' s'] eqn:EE.
          rewrite spec_nested_cons. split.
          -- apply obs_out_obind; [exact HA|].
             intros a Ha. destruct (IH (S n) a (ctx_of vis)) as [I1 _]; [apply HB; exact Ha|reflexivity|].
             rewrite EE in I1. exact I1.
          -- intros st' H. cbn [v_cmd v_val vis] in HB.
             destruct (handle_command rec m CBibdata v st1) as [a| | |] eqn:EH; cbn in H; try discriminate.
             destruct (IH (S n) a (ctx_of vis)) as [_ I2]; [apply HB; reflexivity|reflexivity|]. apply I2; exact H.
        * (* bibstyle *)
          set (vis := mkvisit name n (strip l) CBibstyle v).
          assert (Hcv : a_ctx st1 = Some (ctx_of vis)) by (unfold ctx_of, vis; cbn; subst c1; rewrite Hf; reflexivity).
          destruct (handle_command_flat rec m vis st1 Hcv) as [HA HB]; [cbn; congruence|].
          destruct (expand_lines erec name rest (S n)) as [vs' s'] eqn:EE.
          rewrite spec_nested_cons. split.
          -- apply obs_out_obind; [exact HA|].
             intros a Ha. destruct (IH (S n) a (ctx_of vis)) as [I1 _]; [apply HB; exact Ha|reflexivity|].
             rewrite EE in I1. exact I1.
          -- intros st' H. cbn [v_cmd v_val vis] in HB.
             destruct (handle_command rec m CBibstyle v st1) as [a| | |] eqn:EH; cbn in H; try discriminate.
             destruct (IH (S n) a (ctx_of vis)) as [_ I2]; [apply HB; reflexivity|reflexivity|]. apply I2; exact H.
        * (* @input *)
          cbn [handle_command].
          destruct (Hrec v st1 c1 Hc1) as [HA HB].
          rewrite (spec_nested_seq m (erec v) (expand_lines erec name rest (S n))). split.
          -- apply obs_out_obind; [exact HA|].
             intros a Ha. destruct (IH (S n) a c1) as [I1 _]; [apply HB; exact Ha|exact Hf1|]. exact I1.
          -- intros st' H. destruct (rec v st1) as [a| | |] eqn:EH; cbn in H; try discriminate.
             destruct (IH (S n) a c1) as [_ I2]; [apply HB; reflexivity|exact Hf1|]. apply I2; exact H.
      + cbn [obind]. apply (IH (S n) st1 c1 Hc1 Hf1).
  Qed.
End Lines.

(* a nested file: its visits are run, the context object of the caller is back afterwards *)
Lemma parse_file_nested fs m : forall fuel name st c,
  a_ctx st = Some c ->
  obs_out (parse_file fuel fs m name false st) = spec_nested m (expand fuel fs name) (obs st) /\
  ctx_pres (parse_file fuel fs m name false st) (Some c).
Proof.
  induction fuel as [|f IH]; intros name st c Hc.
  - cbn. split; [reflexivity|]. intros st' H; discriminate.
  - cbn [parse_file expand]. rewrite Hc.
    destruct (fs name) as [content|].
    + set (st0 := set_ctx st (Some (mkctx name None None))).
      destruct (parse_lines_flat (fun name s => parse_file f fs m name false s) (expand f fs) m IH name
                  (lines_of content) 1 st0 (mkctx name None None) eq_refl eq_refl) as [HA HB].
      destruct (parse_lines (fun name s => parse_file f fs m name false s) m (lines_of content) 1 st0)
        as [a| e a | |] eqn:EP; cbn [obind andb].
      * split; [exact HA|]. intros st' H; inversion H; subst; reflexivity.
      * split; [exact HA|]. intros st' H; discriminate.
      * split; [exact HA|]. intros st' H; discriminate.
      * split; [exact HA|]. intros st' H; discriminate.
    + split; [reflexivity|]. intros st' H; discriminate.
Qed.

Theorem parse_aux_flat fuel fs m top :
  obs_out (parse_aux fuel fs m top) = spec_aux fuel fs m top.
Proof.
  unfold parse_aux, spec_aux. destruct fuel as [|f]; [reflexivity|].
  cbn [parse_file expand]. cbn [a_ctx aux_init].
  destruct (fs top) as [content|]; [|reflexivity].
  set (st0 := set_ctx aux_init (Some (mkctx top None None))).
  destruct (parse_lines_flat (fun name s => parse_file f fs m name false s) (expand f fs) m
              (parse_file_nested fs m f) top
              (lines_of content) 1 st0 (mkctx top None None) eq_refl eq_refl) as [HA HB].
  change (obs st0) with flat_init in HA.
  destruct (parse_lines (fun name s => parse_file f fs m name false s) m (lines_of content) 1 st0)
    as [a| e a | |] eqn:EP; cbn [obind]; cbn [obs_out] in HA; rewrite <- HA; cbn [fbind]; try reflexivity.
  destruct (HB a eq_refl) as [c' [Hc' Hf']]. rewrite Hc'. cbn [obind andb].
  cbn [a_data a_style set_ctx f_data f_style obs].
  destruct (a_data a); [destruct (a_style a)|]; cbn; rewrite ?Hf'; reflexivity.
Qed.

(* ================= Part B: what the flat semantics computes ================= *)

Lemma str_eqb_sym a b : str_eqb a b = str_eqb b a.
Proof.
  destruct (str_eqb_spec a b) as [->|H]; [now rewrite str_eqb_refl|].
  destruct (str_eqb_spec b a) as [->|H']; [congruence|reflexivity].
Qed.

Lemma dict_get_set a b v : forall d,
  dict_get a (dict_set b v d) = if str_eqb a b then Some v else dict_get a d.
Proof.
  induction d as [|[k' v'] r IH]; cbn [dict_set dict_get].
  - destruct (str_eqb a b); reflexivity.
  - destruct (str_eqb_spec b k') as [->|Hbk]; cbn [dict_get].
    + destruct (str_eqb a k'); reflexivity.
    + destruct (str_eqb_spec a k') as [->|Hak].
      * destruct (str_eqb_spec k' b) as [->|_]; [congruence|reflexivity].
      * exact IH.
Qed.

(* the dict of canonical keys holds, for every key, the most recent spelling cited *)
Definition canon_rel (d : list (str * str)) (hist : list str) : Prop :=
  forall k, dict_get (lower k) d = find (same_key k) hist.

Lemma canon_rel_step d hist key :
  canon_rel d hist -> canon_rel (dict_set (lower key) key d) (key :: hist).
Proof.
  intros H k. rewrite dict_get_set. cbn [find]. unfold same_key at 1.
  rewrite (str_eqb_sym (lower key) (lower k)).
  destruct (str_eqb (lower k) (lower key)); [reflexivity|apply H].
Qed.

Definition occ_of (v : visit) (keys : list str) : list (str * visit) := map (fun k => (k, v)) keys.

Definition errs_rel (m : mode) (before after expected : list err) : Prop :=
  match m with
  | Strict => after = before /\ expected = []
  | _ => after = before ++ expected
  end.

Lemma f_cite_keys_inv m v : forall keys fl hist,
  canon_rel (f_canon fl) hist ->
  match f_cite_keys m (ctx_of v) keys fl with
  | FRet fl' =>
    f_style fl' = f_style fl /\ f_data fl' = f_data fl /\ f_cits fl' = f_cits fl ++ keys /\
    canon_rel (f_canon fl') (rev keys ++ hist) /\
    errs_rel m (f_errs fl) (f_errs fl') (mismatches hist (occ_of v keys))
  | FRaise e fl' => m = Strict /\ exists rest, mismatches hist (occ_of v keys) = e :: rest
  | FCrash | FNoFuel => False
  end.
Proof.
  induction keys as [|key rest IH]; intros fl hist HC.
  - cbn. rewrite app_nil_r. repeat split; auto. destruct m; cbn; auto using app_nil_r.
    all: now rewrite app_nil_r.
  - cbn [f_cite_keys occ_of map mismatches]. fold (occ_of v rest).
    rewrite (HC key).
    assert (Hstep : forall fl1 pre,
      f_style fl1 = f_style fl -> f_data fl1 = f_data fl -> f_cits fl1 = f_cits fl -> f_canon fl1 = f_canon fl ->
      errs_rel m (f_errs fl) (f_errs fl1) pre ->
      match f_cite_keys m (ctx_of v) rest
              (mkflat (f_style fl1) (f_data fl1) (f_cits fl1 ++ [key]) (dict_set (lower key) key (f_canon fl1)) (f_errs fl1)) with
      | FRet fl' =>
        f_style fl' = f_style fl /\ f_data fl' = f_data fl /\ f_cits fl' = f_cits fl ++ key :: rest /\
        canon_rel (f_canon fl') (rev (key :: rest) ++ hist) /\
        errs_rel m (f_errs fl) (f_errs fl') (pre ++ mismatches (key :: hist) (occ_of v rest))
      | FRaise e fl' => m = Strict /\ exists rest0, pre ++ mismatches (key :: hist) (occ_of v rest) = e :: rest0
      | FCrash | FNoFuel => False
      end).
    { intros fl1 pre Hs Hd Hci Hca He.
      specialize (IH (mkflat (f_style fl1) (f_data fl1) (f_cits fl1 ++ [key]) (dict_set (lower key) key (f_canon fl1)) (f_errs fl1)) (key :: hist)).
      cbn [f_canon f_style f_data f_cits f_errs] in IH.
      rewrite Hca in *. specialize (IH (canon_rel_step _ _ _ HC)).
      destruct (f_cite_keys m (ctx_of v) rest _) as [fl'|e fl'| |]; auto.
      - destruct IH as (I1 & I2 & I3 & I4 & I5). repeat split; try congruence.
        + rewrite I3, Hci, <- app_assoc. reflexivity.
        + cbn [rev]. rewrite <- app_assoc. exact I4.
        + destruct m; cbn in *.
          * rewrite I5, He, <- app_assoc. reflexivity.
          * destruct He as [He1 He2], I5 as [I5a I5b]. subst pre. rewrite I5b. split; [congruence|reflexivity].
          * rewrite I5, He, <- app_assoc. reflexivity.
      - destruct IH as [IHm [rest0 IHr]]. split; [exact IHm|].
        subst m. cbn in He. destruct He as [_ ->]. cbn. eauto. }
    destruct (find (same_key key) hist) as [ex|].
    + destruct (str_eqb key ex).
      * cbn [fbind app]. apply (Hstep fl []); auto. destruct m; cbn; auto using app_nil_r.
        all: now rewrite app_nil_r.
      * destruct m; cbn [f_report fbind].
        -- apply (Hstep (f_add_err fl _) [_]); auto. cbn. reflexivity.
        -- split; [reflexivity|]. cbn. eauto.
        -- apply (Hstep (f_add_err fl _) [_]); auto. cbn. reflexivity.
    + cbn [fbind app]. apply (Hstep fl []); auto. destruct m; cbn; auto using app_nil_r.
      all: now rewrite app_nil_r.
Qed.

Definition osome {X} (o : option X) : bool := match o with Some _ => true | None => false end.
Definition first_val (cur : option str) (c : cmdname) (vs : list visit) : option str :=
  match cur with Some s => Some s | None => option_map v_val (find (is_cmd c) vs) end.
Definition first_data (cur : option (list str)) (vs : list visit) : option (list str) :=
  match cur with
  | Some d => Some d
  | None => option_map (fun v => split_on [c_comma] (v_val v)) (find (is_cmd CBibdata) vs)
  end.

Lemma is_cmd_true c v : v_cmd v = c -> is_cmd c v = true.
Proof. intros <-. unfold is_cmd. destruct (v_cmd v); reflexivity. Qed.
Lemma is_cmd_false c v : v_cmd v <> c -> is_cmd c v = false.
Proof. unfold is_cmd. destruct c, (v_cmd v); congruence. Qed.
Ltac simp_is_cmd EC :=
  repeat match goal with
  | |- context [is_cmd ?c ?v] =>
    first [ rewrite (is_cmd_true c v EC)
          | rewrite (is_cmd_false c v ltac:(rewrite EC; discriminate)) ]
  end.

Lemma run_visits_inv m : forall vs fl hist,
  canon_rel (f_canon fl) hist ->
  match run_visits m vs fl with
  | FRet fl' =>
    f_cits fl' = f_cits fl ++ citation_keys vs /\
    f_style fl' = first_val (f_style fl) CBibstyle vs /\
    f_data fl' = first_data (f_data fl) vs /\
    canon_rel (f_canon fl') (rev (citation_keys vs) ++ hist) /\
    errs_rel m (f_errs fl) (f_errs fl') (reports (osome (f_style fl)) (osome (f_data fl)) hist vs)
  | FRaise e fl' =>
    m = Strict /\ exists rest, reports (osome (f_style fl)) (osome (f_data fl)) hist vs = e :: rest
  | FCrash | FNoFuel => False
  end.
Proof.
  induction vs as [|v r IH]; intros fl hist HC.
  - cbn. rewrite app_nil_r. repeat split; auto.
    + unfold first_val. destruct (f_style fl); reflexivity.
    + unfold first_data. destruct (f_data fl); reflexivity.
    + destruct m; cbn; auto using app_nil_r. all: now rewrite app_nil_r.
  - cbn [run_visits reports]. unfold f_step. unfold citation_keys, first_val, first_data. cbn [filter find].
    destruct (v_cmd v) eqn:EC; simp_is_cmd EC.
    + (* citation *)
      pose proof (f_cite_keys_inv m v (keys_of v) fl hist HC) as HK.
      destruct (f_cite_keys m (ctx_of v) (keys_of v) fl) as [fl1|e fl1| |]; cbn [fbind]; auto.
      * destruct HK as (K1 & K2 & K3 & K4 & K5).
        specialize (IH fl1 (rev (keys_of v) ++ hist) K4).
        rewrite K1, K2 in IH.
        destruct (run_visits m r fl1) as [fl'|e fl'| |]; auto.
        -- destruct IH as (I1 & I2 & I3 & I4 & I5). cbn [flat_map]. repeat split.
           ++ rewrite I1, K3, <- app_assoc. reflexivity.
           ++ exact I2.
           ++ exact I3.
           ++ rewrite rev_app_distr, <- app_assoc. exact I4.
           ++ fold (occ_of v (keys_of v)).
              destruct m; cbn [errs_rel] in *.
              ** rewrite I5, K5, <- app_assoc. reflexivity.
              ** destruct K5 as [K5a K5b], I5 as [I5a I5b]. rewrite K5b, I5b. split; [congruence|reflexivity].
              ** rewrite I5, K5, <- app_assoc. reflexivity.
        -- destruct IH as [Im [rest Ir]]. split; [exact Im|]. subst m. cbn [errs_rel] in K5. destruct K5 as [_ K5].
           fold (occ_of v (keys_of v)). rewrite K5, Ir. cbn [app]. eauto.
      * destruct HK as [Km [rest Kr]]. split; [exact Km|]. fold (occ_of v (keys_of v)). rewrite Kr. cbn [app]. eauto.
    + (* bibdata *)
      destruct (f_data fl) as [d|] eqn:ED; cbn [osome].
      * destruct m; cbn [f_report fbind].
        -- specialize (IH (f_add_err fl (mkerr EData (Some (ctx_of v)))) hist HC). cbn [f_add_err f_style f_data f_cits f_canon f_errs] in IH.
           rewrite ED in IH. cbn [osome] in IH.
           destruct (run_visits Capture r _) as [fl'|e fl'| |]; auto.
           ++ destruct IH as (I1 & I2 & I3 & I4 & I5). repeat split; auto.
              cbn [errs_rel] in *. rewrite I5, <- app_assoc. reflexivity.
           ++ destruct IH as [Im _]; discriminate.
        -- split; [reflexivity|]. cbn. eauto.
        -- specialize (IH (f_add_err fl (mkerr EData (Some (ctx_of v)))) hist HC). cbn [f_add_err f_style f_data f_cits f_canon f_errs] in IH.
           rewrite ED in IH. cbn [osome] in IH.
           destruct (run_visits Lenient r _) as [fl'|e fl'| |]; auto.
           ++ destruct IH as (I1 & I2 & I3 & I4 & I5). repeat split; auto.
              cbn [errs_rel] in *. rewrite I5, <- app_assoc. reflexivity.
           ++ destruct IH as [Im _]; discriminate.
      * cbn [fbind app].
        specialize (IH (mkflat (f_style fl) (Some (split_on [c_comma] (v_val v))) (f_cits fl) (f_canon fl) (f_errs fl)) hist HC).
        cbn [f_style f_data f_cits f_canon f_errs osome] in IH. cbn [option_map].
        destruct (run_visits m r _) as [fl'|e fl'| |]; auto.
    + (* bibstyle *)
      destruct (f_style fl) as [s|] eqn:ES; cbn [osome].
      * destruct m; cbn [f_report fbind].
        -- specialize (IH (f_add_err fl (mkerr EStyle (Some (ctx_of v)))) hist HC). cbn [f_add_err f_style f_data f_cits f_canon f_errs] in IH.
           rewrite ES in IH. cbn [osome] in IH.
           destruct (run_visits Capture r _) as [fl'|e fl'| |]; auto.
           ++ destruct IH as (I1 & I2 & I3 & I4 & I5). repeat split; auto.
              cbn [errs_rel] in *. rewrite I5, <- app_assoc. reflexivity.
           ++ destruct IH as [Im _]; discriminate.
        -- split; [reflexivity|]. cbn. eauto.
        -- specialize (IH (f_add_err fl (mkerr EStyle (Some (ctx_of v)))) hist HC). cbn [f_add_err f_style f_data f_cits f_canon f_errs] in IH.
           rewrite ES in IH. cbn [osome] in IH.
           destruct (run_visits Lenient r _) as [fl'|e fl'| |]; auto.
           ++ destruct IH as (I1 & I2 & I3 & I4 & I5). repeat split; auto.
              cbn [errs_rel] in *. rewrite I5, <- app_assoc. reflexivity.
           ++ destruct IH as [Im _]; discriminate.
      * cbn [fbind app].
        specialize (IH (mkflat (Some (v_val v)) (f_data fl) (f_cits fl) (f_canon fl) (f_errs fl)) hist HC).
        cbn [f_style f_data f_cits f_canon f_errs osome] in IH. cbn [option_map].
        destruct (run_visits m r _) as [fl'|e fl'| |]; auto.
    + (* @input never occurs among the visits; it is skipped *)
      cbn [fbind]. specialize (IH fl hist HC).
      destruct (run_visits m r fl) as [fl'|e fl'| |]; auto.
Qed.

(* ================= Part C: the parser against the flattened document ================= *)

Lemma canon_rel_nil : canon_rel [] [].
Proof. intros k. reflexivity. Qed.

(* what the returned / raised state holds, in terms of the visits vs *)
Definition facts (m : mode) (vs : list visit) (a : aux) : Prop :=
  a_cits a = citation_keys vs /\
  a_style a = option_map v_val (find (is_cmd CBibstyle) vs) /\
  a_data a = option_map (fun v => split_on [c_comma] (v_val v)) (find (is_cmd CBibdata) vs) /\
  errs_rel m [] (a_errs a) (reports false false [] vs).

Theorem parse_aux_char fuel fs m top :
  let vs := fst (expand fuel fs top) in
  let s := snd (expand fuel fs top) in
  match parse_aux fuel fs m top with
  | Ret a => s = Complete /\ facts m vs a /\ a_style a <> None /\ a_data a <> None
  | Raise e a =>
    (m = Strict /\ exists rest, reports false false [] vs = e :: rest) \/
    (facts m vs a /\
     ((s = Complete /\ a_data a = None /\ e = fatal ENoData top) \/
      (s = Complete /\ a_data a <> None /\ a_style a = None /\ e = fatal ENoStyle top) \/
      (exists n, s = Missing n /\ e = mkerr (EOpen n) None)))
  | CrashO => False
  | NoFuel => s = Deep /\ (m = Strict -> reports false false [] vs = [])
  end.
Proof.
  intros vs s.
  pose proof (parse_aux_flat fuel fs m top) as HF.
  unfold spec_aux, spec_nested in HF. fold vs s in HF.
  pose proof (run_visits_inv m vs flat_init [] canon_rel_nil) as HI.
  cbn [f_style f_data f_cits f_errs flat_init osome app first_val first_data] in HI.
  destruct (run_visits m vs flat_init) as [fl'|e' fl'| |]; cbn [fbind] in HF; try contradiction.
  - destruct HI as (I1 & I2 & I3 & _ & I5).
    assert (HFa : forall a, obs a = fl' -> facts m vs a).
    { intros a <-. repeat split; assumption. }
    destruct s eqn:ES; cbn [fbind] in HF.
    + destruct (f_data fl') as [d|] eqn:ED; [destruct (f_style fl') as [st|] eqn:ESt|].
      * destruct (parse_aux fuel fs m top) as [a|e a| |]; cbn in HF; inversion HF; subst.
        cbn [f_data f_style obs] in ED, ESt. repeat split; try apply HFa; auto; congruence.
      * destruct (parse_aux fuel fs m top) as [a|e a| |]; cbn in HF; inversion HF; subst.
        cbn [f_data f_style obs] in ED, ESt. right. split; [apply HFa; reflexivity|].
        right; left. repeat split; auto; congruence.
      * destruct (parse_aux fuel fs m top) as [a|e a| |]; cbn in HF; inversion HF; subst.
        cbn [f_data f_style obs] in ED. right. split; [apply HFa; reflexivity|].
        left. repeat split; auto.
    + destruct (parse_aux fuel fs m top) as [a|e a| |]; cbn in HF; inversion HF; subst.
      right. split; [apply HFa; reflexivity|]. right; right. eauto.
    + destruct (parse_aux fuel fs m top) as [a|e a| |]; cbn in HF; inversion HF; subst.
      split; [reflexivity|]. intros ->. cbn in I5. apply I5.
  - destruct HI as [Hm Hr].
    destruct (parse_aux fuel fs m top) as [a|e a| |]; cbn in HF; inversion HF; subst. left. auto.
Qed.


Lemma citations_spec_l fuel fs m top a :
  parse_aux fuel fs m top = Ret a -> a_cits a = citation_keys (doc_visits fuel fs top).
Proof.
  intros H. pose proof (parse_aux_char fuel fs m top) as C. rewrite H in C.
  destruct C as (_ & (F1 & _) & _). exact F1.
Qed.

Lemma style_is_first_l fuel fs m top a :
  parse_aux fuel fs m top = Ret a ->
  exists v, find (is_cmd CBibstyle) (doc_visits fuel fs top) = Some v /\ a_style a = Some (v_val v).
Proof.
  intros H. pose proof (parse_aux_char fuel fs m top) as C. rewrite H in C.
  destruct C as (_ & (_ & F2 & _) & N & _). unfold doc_visits.
  destruct (find (is_cmd CBibstyle) (fst (expand fuel fs top))) as [v|]; cbn in F2; [eauto|congruence].
Qed.

Lemma data_is_first_split_l fuel fs m top a :
  parse_aux fuel fs m top = Ret a ->
  exists v, find (is_cmd CBibdata) (doc_visits fuel fs top) = Some v /\
            a_data a = Some (split_on [c_comma] (v_val v)).
Proof.
  intros H. pose proof (parse_aux_char fuel fs m top) as C. rewrite H in C.
  destruct C as (_ & (_ & _ & F3 & _) & _ & N). unfold doc_visits.
  destruct (find (is_cmd CBibdata) (fst (expand fuel fs top))) as [v|]; cbn in F3; [eauto|congruence].
Qed.

Lemma complete_when_read_l fuel fs m top a :
  parse_aux fuel fs m top = Ret a -> doc_status fuel fs top = Complete.
Proof.
  intros H. pose proof (parse_aux_char fuel fs m top) as C. rewrite H in C. apply C.
Qed.

(* the errors reported when reporting does not raise: exactly `reports`, in order -- also when
   the document then ends in a fatal error or an input that cannot be opened *)
Lemma errors_spec_l fuel fs m top :
  m <> Strict ->
  match parse_aux fuel fs m top with
  | Ret a | Raise _ a => a_errs a = reports false false [] (doc_visits fuel fs top)
  | _ => True
  end.
Proof.
  intros Hm. pose proof (parse_aux_char fuel fs m top) as C.
  destruct (parse_aux fuel fs m top) as [a|e a| |]; auto.
  - destruct C as (_ & (_ & _ & _ & F4) & _). unfold doc_visits. destruct m; cbn [errs_rel app] in F4; [exact F4|congruence|exact F4].
  - destruct C as [[C _]|[(_ & _ & _ & F4) _]]; [congruence|]. unfold doc_visits. destruct m; cbn [errs_rel app] in F4; [exact F4|congruence|exact F4].
Qed.

(* ---- `reports` by kind: pure list facts *)
Lemma mismatches_kind : forall occ hist, forallb is_kind_mismatch (mismatches hist occ) = true.
Proof.
  induction occ as [|[k v] r IH]; intros hist; cbn [mismatches]; [reflexivity|].
  rewrite forallb_app, IH, andb_true_r.
  destruct (find (same_key k) hist); [destruct (str_eqb k s)|]; reflexivity.
Qed.

Lemma mismatches_app : forall o1 o2 hist,
  mismatches hist (o1 ++ o2) = mismatches hist o1 ++ mismatches (rev (map fst o1) ++ hist) o2.
Proof.
  induction o1 as [|[k v] r IH]; intros o2 hist; cbn [app mismatches map rev fst]; [reflexivity|].
  rewrite IH, <- !app_assoc. reflexivity.
Qed.

Lemma filter_all {X} (p : X -> bool) l : forallb p l = true -> filter p l = l.
Proof.
  induction l as [|x l IH]; cbn; [reflexivity|]. intros H; apply andb_prop in H as [H1 H2].
  rewrite H1, IH; auto.
Qed.
Lemma filter_none {X} (p q : X -> bool) l :
  forallb p l = true -> (forall x, p x = true -> q x = false) -> filter q l = [].
Proof.
  induction l as [|x l IH]; cbn; [reflexivity|]. intros H Hpq; apply andb_prop in H as [H1 H2].
  rewrite (Hpq x H1). auto.
Qed.

Lemma map_fst_occ_of v keys : map fst (occ_of v keys) = keys.
Proof. unfold occ_of. rewrite map_map. cbn. apply map_id. Qed.

Lemma reports_mismatch : forall vs hs hd hist,
  filter is_kind_mismatch (reports hs hd hist vs) = mismatches hist (occurrences vs).
Proof.
  induction vs as [|v r IH]; intros hs hd hist; [reflexivity|].
  cbn [reports]. unfold occurrences in *. cbn [filter].
  destruct (v_cmd v) eqn:EC; simp_is_cmd EC.
  - cbn [flat_map]. rewrite filter_app, IH. fold (occ_of v (keys_of v)).
    rewrite mismatches_app, map_fst_occ_of, (filter_all _ _ (mismatches_kind _ _)). reflexivity.
  - rewrite filter_app, IH. destruct hd; reflexivity.
  - rewrite filter_app, IH. destruct hs; reflexivity.
  - apply IH.
Qed.


Lemma reports_style : forall vs hs hd hist,
  filter is_kind_style (reports hs hd hist vs) =
  map (err_at EStyle) (if hs then filter (is_cmd CBibstyle) vs else tl (filter (is_cmd CBibstyle) vs)).
Proof.
  induction vs as [|v r IH]; intros hs hd hist; [destruct hs; reflexivity|].
  cbn [reports filter].
  destruct (v_cmd v) eqn:EC; simp_is_cmd EC.
  - rewrite filter_app, IH.
    rewrite (filter_none is_kind_mismatch is_kind_style _ (mismatches_kind _ _)); [reflexivity|].
    intros [k c]; destruct k; cbn; congruence.
  - rewrite filter_app, IH. destruct hd; reflexivity.
  - rewrite filter_app, IH. destruct hs; reflexivity.
  - apply IH.
Qed.

Lemma reports_data : forall vs hs hd hist,
  filter is_kind_data (reports hs hd hist vs) =
  map (err_at EData) (if hd then filter (is_cmd CBibdata) vs else tl (filter (is_cmd CBibdata) vs)).
Proof.
  induction vs as [|v r IH]; intros hs hd hist; [destruct hd; reflexivity|].
  cbn [reports filter].
  destruct (v_cmd v) eqn:EC; simp_is_cmd EC.
  - rewrite filter_app, IH.
    rewrite (filter_none is_kind_mismatch is_kind_data _ (mismatches_kind _ _)); [reflexivity|].
    intros [k c]; destruct k; cbn; congruence.
  - rewrite filter_app, IH. destruct hd; reflexivity.
  - rewrite filter_app, IH. destruct hs; reflexivity.
  - apply IH.
Qed.

(* every report is of one of the three kinds *)
Lemma reports_kinds : forall vs hs hd hist,
  forallb (fun e => is_kind_mismatch e || is_kind_style e || is_kind_data e) (reports hs hd hist vs) = true.
Proof.
  induction vs as [|v r IH]; intros hs hd hist; [reflexivity|].
  cbn [reports]. destruct (v_cmd v); rewrite ?forallb_app, ?IH, ?andb_true_r; auto.
  - pose proof (mismatches_kind (map (fun k => (k, v)) (keys_of v)) hist) as H.
    rewrite forallb_forall in *. intros e He. rewrite (H e He). reflexivity.
  - destruct hd; reflexivity.
  - destruct hs; reflexivity.
Qed.

(* ---- missing \bibdata / \bibstyle *)
Lemma missing_is_fatal_l fuel fs m top :
  doc_status fuel fs top = Complete ->
  find (is_cmd CBibdata) (doc_visits fuel fs top) = None \/
  find (is_cmd CBibstyle) (doc_visits fuel fs top) = None ->
  exists e a, parse_aux fuel fs m top = Raise e a /\
    (m <> Strict ->
     (find (is_cmd CBibdata) (doc_visits fuel fs top) = None -> e = fatal ENoData top) /\
     (find (is_cmd CBibdata) (doc_visits fuel fs top) <> None -> e = fatal ENoStyle top)).
Proof.
  unfold doc_status, doc_visits. intros HS HN.
  pose proof (parse_aux_char fuel fs m top) as C.
  destruct (parse_aux fuel fs m top) as [a|e a| |]; cbn zeta in C.
  - destruct C as (_ & (_ & F2 & F3 & _) & N2 & N3). exfalso.
    destruct HN as [HN|HN]; rewrite HN in *; cbn in *; congruence.
  - exists e, a. split; [reflexivity|]. intros Hm.
    destruct C as [[C _]|[(_ & F2 & F3 & _) C]]; [congruence|].
    destruct C as [(_ & D & ->)|[(_ & D & S & ->)|(n & HM & _)]].
    + split; [reflexivity|]. intros H. rewrite D in F3.
      destruct (find (is_cmd CBibdata) (fst (expand fuel fs top))); cbn in F3; congruence.
    + split; [|reflexivity]. intros H. rewrite H in F3. cbn in F3. congruence.
    + congruence.
  - contradiction.
  - destruct C as [C _]. congruence.
Qed.

(* ---- strict mode raises exactly the first error the other modes would report *)
Lemma strict_raises_first_l fuel fs top e rest :
  reports false false [] (doc_visits fuel fs top) = e :: rest ->
  exists a, parse_aux fuel fs Strict top = Raise e a.
Proof.
  unfold doc_visits. intros HR.
  pose proof (parse_aux_char fuel fs Strict top) as C.
  destruct (parse_aux fuel fs Strict top) as [a|e' a| |]; cbn zeta in C.
  - destruct C as (_ & (_ & _ & _ & F4) & _). cbn in F4. destruct F4; congruence.
  - destruct C as [[_ [rest' C]]|[(_ & _ & _ & F4) _]].
    + rewrite HR in C. inversion C; subst. eauto.
    + cbn in F4. destruct F4; congruence.
  - contradiction.
  - destruct C as [_ C]. specialize (C eq_refl). congruence.
Qed.

Lemma f_cite_keys_strict_ret m c : forall keys fl fl',
  f_cite_keys Strict c keys fl = FRet fl' -> f_cite_keys m c keys fl = FRet fl'.
Proof.
  induction keys as [|key rest IH]; intros fl fl' H; cbn [f_cite_keys] in *; [exact H|].
  destruct (dict_get (lower key) (f_canon fl)) as [ex|].
  - destruct (str_eqb key ex); cbn [fbind f_report] in *; [apply IH; exact H|discriminate].
  - cbn [fbind] in *. apply IH; exact H.
Qed.

Lemma run_visits_strict_ret m : forall vs fl fl',
  run_visits Strict vs fl = FRet fl' -> run_visits m vs fl = FRet fl'.
Proof.
  induction vs as [|v r IH]; intros fl fl' H; cbn [run_visits] in *; [exact H|].
  unfold f_step in *. destruct (v_cmd v).
  - destruct (f_cite_keys Strict (ctx_of v) (keys_of v) fl) as [fl1| | |] eqn:E; cbn [fbind] in H; try discriminate.
    rewrite (f_cite_keys_strict_ret m _ _ _ _ E). cbn [fbind]. apply IH; exact H.
  - destruct (f_data fl); cbn [f_report fbind] in *; [discriminate|apply IH; exact H].
  - destruct (f_style fl); cbn [f_report fbind] in *; [discriminate|apply IH; exact H].
  - cbn [fbind] in *. apply IH; exact H.
Qed.

Lemma strict_agrees_l fuel fs m top :
  reports false false [] (doc_visits fuel fs top) = [] ->
  obs_out (parse_aux fuel fs Strict top) = obs_out (parse_aux fuel fs m top).
Proof.
  unfold doc_visits. intros HR. rewrite !parse_aux_flat. unfold spec_aux, spec_nested.
  pose proof (run_visits_inv Strict (fst (expand fuel fs top)) flat_init [] canon_rel_nil) as HI.
  destruct (run_visits Strict (fst (expand fuel fs top)) flat_init) as [fl'|e fl'| |] eqn:E; try contradiction.
  - rewrite (run_visits_strict_ret m _ _ _ E). reflexivity.
  - destruct HI as [_ [rest HI]]. cbn in HI. congruence.
Qed.

(* ---- the caller's context object is back after a nested file *)
Lemma context_restored_l fuel fs m name st c st' :
  a_ctx st = Some c -> parse_file fuel fs m name false st = Ret st' -> a_ctx st' = Some c.
Proof.
  intros Hc H. destruct (parse_file_nested fs m fuel name st c Hc) as [_ P]. apply P; exact H.
Qed.

Lemma never_crashes_l fuel fs m top : parse_aux fuel fs m top <> CrashO.
Proof.
  intros H. pose proof (parse_aux_char fuel fs m top) as C. rewrite H in C. exact C.
Qed.

(* ---- errors, once reported, are never touched again: parsing only appends *)
Definition grows (st : aux) (r : outcome aux) : Prop :=
  match r with
  | Ret st' | Raise _ st' => exists new, a_errs st' = a_errs st ++ new
  | _ => True
  end.

Lemma grows_obind st r K :
  grows st r -> (forall a, r = Ret a -> grows a (K a)) -> grows st (obind r K).
Proof.
  intros G HK. destruct r as [a|e a| |]; cbn; auto.
  destruct G as [n1 G]. specialize (HK a eq_refl).
  unfold grows in *. destruct (K a) as [b|e b| |]; auto; destruct HK as [n2 HK];
    exists (n1 ++ n2); rewrite HK, G, app_assoc; reflexivity.
Qed.

Lemma grows_ret st : grows st (Ret st).
Proof. exists []. now rewrite app_nil_r. Qed.

Lemma grows_aux_error m k st : grows st (aux_error m k st).
Proof.
  unfold aux_error. destruct (a_ctx st); cbn; auto.
  destruct m; cbn; eauto. exists []. now rewrite app_nil_r.
Qed.

Lemma grows_cite_keys m : forall keys st, grows st (cite_keys m keys st).
Proof.
  induction keys as [|key rest IH]; intros st; cbn [cite_keys]; [apply grows_ret|].
  apply grows_obind.
  - destruct (dict_get (lower key) (a_canon st)); [destruct (str_eqb key s)|];
      auto using grows_ret, grows_aux_error.
  - intros a _. specialize (IH (add_citation a key)). exact IH.
Qed.

Section Grows.
  Variable rec : str -> aux -> outcome aux.
  Variable m : mode.
  Hypothesis Hrec : forall name st, grows st (rec name st).

  Lemma grows_handle_command c v st : grows st (handle_command rec m c v st).
  Proof.
    destruct c; cbn [handle_command].
    - apply grows_cite_keys.
    - unfold handle_bibdata. destruct (a_data st); [apply grows_aux_error|]. exists []. cbn. now rewrite app_nil_r.
    - unfold handle_bibstyle. destruct (a_style st); [apply grows_aux_error|]. exists []. cbn. now rewrite app_nil_r.
    - apply Hrec.
  Qed.

  Lemma grows_parse_lines : forall lines n st, grows st (parse_lines rec m lines n st).
  Proof.
    induction lines as [|l rest IH]; intros n st; cbn [parse_lines]; [apply grows_ret|].
    apply grows_obind; [|intros a _; apply IH].
    unfold parse_line. destruct (a_ctx st); cbn; auto.
    destruct (match_command l) as [[cm vv]|].
    - apply (grows_handle_command cm vv (set_ctx st _)).
    - exists []. cbn. now rewrite app_nil_r.
  Qed.
End Grows.

Lemma grows_parse_file fs m : forall fuel name top st, grows st (parse_file fuel fs m name top st).
Proof.
  induction fuel as [|f IH]; intros name top st; cbn [parse_file]; [exact I|].
  destruct (fs name) as [content|]; [|exists []; cbn; now rewrite app_nil_r].
  change (a_errs st) with (a_errs (set_ctx st (Some (mkctx name None None)))).
  apply (grows_obind (set_ctx st (Some (mkctx name None None)))).
  - apply grows_parse_lines. intros n s. apply IH.
  - intros a _. apply (grows_obind a).
    + destruct (a_ctx st); [exists []; cbn; now rewrite app_nil_r|].
      destruct (a_ctx a); cbn; auto. exists []. now rewrite app_nil_r.
    + intros b _. destruct (top && _); [exists []; now rewrite app_nil_r|].
      destruct (top && _); [exists []; now rewrite app_nil_r|apply grows_ret].
Qed.

(* ---- the named statements about reported errors *)
Lemma errors_by_kind_l fuel fs m top :
  m <> Strict ->
  match parse_aux fuel fs m top with
  | Ret a | Raise _ a =>
    let vs := doc_visits fuel fs top in
    filter is_kind_style (a_errs a) = map (err_at EStyle) (tl (filter (is_cmd CBibstyle) vs)) /\
    filter is_kind_data (a_errs a) = map (err_at EData) (tl (filter (is_cmd CBibdata) vs)) /\
    filter is_kind_mismatch (a_errs a) = mismatches [] (occurrences vs) /\
    forallb (fun e => is_kind_mismatch e || is_kind_style e || is_kind_data e) (a_errs a) = true
  | _ => True
  end.
Proof.
  intros Hm. pose proof (errors_spec_l fuel fs m top Hm) as H.
  destruct (parse_aux fuel fs m top) as [a|e a| |]; auto; cbn zeta; rewrite H;
    rewrite reports_style, reports_data, reports_mismatch, reports_kinds; auto.
Qed.

Lemma same_reading_of_obs r1 r2 : obs_out r1 = obs_out r2 -> same_reading r1 r2.
Proof.
  destruct r1 as [a|e a| |], r2 as [b|e' b| |]; cbn; intros H; inversion H; auto;
    unfold same_fields; repeat split; auto.
Qed.

Lemma strict_agrees_r fuel fs m top :
  reports false false [] (doc_visits fuel fs top) = [] ->
  same_reading (parse_aux fuel fs Strict top) (parse_aux fuel fs m top).
Proof. intros H. apply same_reading_of_obs, strict_agrees_l, H. Qed.
