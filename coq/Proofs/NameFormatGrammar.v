(* Proofs/NameFormatGrammar.v -- growth theorems for C11: brace-level-0 text is kept verbatim;
   well-formed {...} parts are accepted and split into exactly pre-text, letters, separator
   and post-text. *)
From Pybtex Require Import Base.Prelude Base.PyChar Base.PyStr Model.BibtexStr Model.Names Model.NameFormat
  Spec.NameFormat Proofs.NameFormatParse.

Definition part_text (p : part) : str := match p with PText t => t | PName _ => [] end.

Lemma level0_nonbrace a : forall b, forallb nonbrace a = true -> level0_text (a ++ b) 0 = a ++ level0_text b 0.
Proof.
  induction a as [|c a IH]; intros b H; [reflexivity|].
  cbn [forallb] in H. apply andb_prop in H as [H1 H2]. unfold nonbrace, is_brace in H1.
  cbn [app level0_text]. rewrite lbrace_is, rbrace_is.
  destruct (is_lbrace c); [discriminate|]. destruct (is_rbrace c); [discriminate|]. rewrite IH by exact H2. reflexivity.
Qed.

Lemma level0_inner body : forall rest d d', walk body d = Some d' ->
  level0_text (body ++ rest) (S d) = level0_text rest (S d').
Proof.
  induction body as [|c body IH]; intros rest d d' W; cbn [walk] in W.
  - inversion W; reflexivity.
  - cbn [app level0_text]. destruct (lbrace c); [apply IH; exact W|].
    destruct (rbrace c).
    + destruct d as [|d0]; [discriminate|]. cbn [pred]. apply IH; exact W.
    + apply IH; exact W.
Qed.

Lemma level0_group body rest : walk body 0 = Some 0 ->
  level0_text (c_lbrace :: body ++ c_rbrace :: rest) 0 = level0_text rest 0.
Proof.
  intros W. cbn [level0_text]. change (lbrace c_lbrace) with true. cbv iota.
  rewrite (level0_inner body _ 0 0 W). cbn [level0_text].
  change (lbrace c_rbrace) with false. change (rbrace c_rbrace) with true. reflexivity.
Qed.

Lemma parse_go_level0 fuel : forall s ps, parse_go fuel s = Ok ps ->
  concat (map part_text ps) = level0_text s 0.
Proof.
  induction fuel as [|f IH]; intros s ps H; [discriminate|].
  cbn [parse_go] in H. destruct s as [|c t]; [inversion H; reflexivity|].
  destruct (m_text (c :: t)) as [|k] eqn:T.
  - destruct (is_lbrace c) eqn:El; [|discriminate]. apply is_lbrace_eq in El; subst c.
    destruct (parse_name_part t) as [[[[[pre fc] dl] post] r]| | |] eqn:P; cbn [bind fst snd] in H; try discriminate.
    apply parse_name_part_spec in P as (body & -> & W & F).
    destruct (mk_name_part _); cbn [bind] in H; try discriminate.
    destruct (parse_go f r) eqn:R; cbn [bind] in H; try discriminate.
    inversion H; subst. cbn [map part_text concat app]. rewrite level0_group by exact W. eapply IH; exact R.
  - destruct (parse_go f (skipn (S k) (c :: t))) eqn:R; cbn [bind] in H; try discriminate.
    inversion H; subst. cbn [map part_text concat].
    transitivity (level0_text (firstn (S k) (c :: t) ++ skipn (S k) (c :: t)) 0); [|rewrite firstn_skipn; reflexivity].
    rewrite level0_nonbrace; [f_equal; eapply IH; exact R|].
    rewrite <- T. apply span_len_all.
Qed.

Theorem level0_verbatim_thm f ps : parse_format f = Ok ps -> concat (map part_text ps) = level0_text f 0.
Proof. apply parse_go_level0. Qed.

(* ---- fuel irrelevance for parse_name_part ---- *)
Lemma npg_fuel f1 : forall f2 s pre fc dl post, length s < f1 -> length s < f2 ->
  name_part_go f1 s pre fc dl post = name_part_go f2 s pre fc dl post.
Proof.
  induction f1 as [|f1 IH]; intros f2 s pre fc dl post L1 L2; [lia|].
  destruct f2 as [|f2]; [lia|].
  cbn [name_part_go]. destruct s as [|c t]; [reflexivity|]. cbn [length] in L1, L2.
  destruct (is_lbrace c).
  { destruct (parse_braced_string t) as [[inner r1]| | |] eqn:B; cbn [bind fst snd]; try reflexivity.
    apply parse_braced_len in B. destruct fc; apply IH; lia. }
  destruct (m_non_letters (c :: t)) as [|k] eqn:NL.
  2:{ assert (length (skipn (S k) (c :: t)) < f1 /\ length (skipn (S k) (c :: t)) < f2) as [A B]
        by (rewrite skipn_length; cbn [length]; lia).
      destruct fc; apply IH; auto. }
  destruct (m_format_chars (c :: t)) as [|k] eqn:FC; [reflexivity|].
  destruct (format_chars_ok _ _); [|reflexivity].
  assert (length (skipn (S k) (c :: t)) < f1 /\ length (skipn (S k) (c :: t)) < f2) as [A B]
    by (rewrite skipn_length; cbn [length]; lia).
  destruct (skipn (S k) (c :: t)) as [|d r']; [reflexivity|]. cbn [length] in A, B.
  destruct (is_lbrace d).
  - destruct (parse_braced_string r') as [[inner r1]| | |] eqn:Bq; cbn [bind fst snd]; try reflexivity.
    apply parse_braced_len in Bq. apply IH; lia.
  - apply IH; cbn [length]; lia.
Qed.

(* parse_name_part continued in a given state, with canonical fuel *)
Definition npg (s pre : str) (fc dl : option str) (post : str) : res (raw_part * str) :=
  name_part_go (S (length s)) s pre fc dl post.

Definition vapp (pre : str) (fc : option str) (post v : str) : str * str :=
  match fc with None => (pre ++ v, post) | Some _ => (pre, post ++ v) end.

Lemma npg_unfold_brace f t inner r pre fc dl post : parse_braced_string t = Ok (inner, r) ->
  name_part_go (S f) (c_lbrace :: t) pre fc dl post =
  name_part_go f r (fst (vapp pre fc post (c_lbrace :: inner ++ [c_rbrace]))) fc dl (snd (vapp pre fc post (c_lbrace :: inner ++ [c_rbrace]))).
Proof.
  intros B. cbn [name_part_go]. change (is_lbrace c_lbrace) with true. cbv iota.
  rewrite B. cbn [bind fst snd]. destruct fc; reflexivity.
Qed.

Lemma npg_unfold_tokens f (s : str) k pre fc dl post : is_lbrace (hd 0%N s) = false -> m_non_letters s = S k ->
  name_part_go (S f) s pre fc dl post =
  name_part_go f (skipn (S k) s) (fst (vapp pre fc post (firstn (S k) s))) fc dl (snd (vapp pre fc post (firstn (S k) s))).
Proof.
  intros NB NL. destruct s as [|c t]; [discriminate|]. cbn [hd] in NB.
  cbn [name_part_go]. rewrite NB, NL. destruct fc; reflexivity.
Qed.

Lemma npg_braced t inner r pre fc dl post : parse_braced_string t = Ok (inner, r) ->
  npg (c_lbrace :: t) pre fc dl post =
  npg r (fst (vapp pre fc post (c_lbrace :: inner ++ [c_rbrace]))) fc dl (snd (vapp pre fc post (c_lbrace :: inner ++ [c_rbrace]))).
Proof.
  intros B. unfold npg. rewrite (npg_unfold_brace _ _ _ _ _ _ _ _ B).
  pose proof (parse_braced_len _ _ _ B) as L. apply npg_fuel; cbn [length]; lia.
Qed.

Lemma npg_tokens (s : str) k pre fc dl post : is_lbrace (hd 0%N s) = false -> m_non_letters s = S k ->
  npg s pre fc dl post =
  npg (skipn (S k) s) (fst (vapp pre fc post (firstn (S k) s))) fc dl (snd (vapp pre fc post (firstn (S k) s))).
Proof.
  intros NB NL. unfold npg. rewrite (npg_unfold_tokens _ _ _ _ _ _ _ NB NL).
  assert (length (skipn (S k) s) < length s).
  { rewrite skipn_length. destruct s; [discriminate|]. cbn [length]. lia. }
  apply npg_fuel; lia.
Qed.

Lemma npg_close r pre fc dl post : npg (c_rbrace :: r) pre fc dl post = Ok ((pre, fc, dl, post), r).
Proof. reflexivity. Qed.
