(* Proofs/NameFormatGrammar.v -- growth theorems for C11: brace-level-0 text is kept verbatim;
   well-formed {...} parts are accepted and split into exactly pre-text, letters, separator
   and post-text. *)
From Pybtex Require Import Base.Prelude Base.PyChar Base.PyStr Model.BibtexStr Model.Names Model.NameFormat
  Spec.NameFormat Proofs.NameFormatParse.

Definition part_text (p : part) : str := match p with PText t => t | PName _ => [] end.

Lemma level0_nonbrace a : forall b, forallb nonbrace a = true -> level0_text (a ++ b) 0 = a ++ level0_text b 0.
Proof.
  induction a as [|c a IH]; intros b H; [reflexivity|].
  cbn [forallb] in H. apply andb_prop in H as [H1 H2]. unfold nonbrace, is_brace in H1.
  cbn [app level0_text]. rewrite lbrace_is, rbrace_is.
  destruct (is_lbrace c); [discriminate|]. destruct (is_rbrace c); [discriminate|]. rewrite IH by exact H2. reflexivity.
Qed.

Lemma level0_inner body : forall rest d d', walk body d = Some d' ->
  level0_text (body ++ rest) (S d) = level0_text rest (S d').
Proof.
  induction body as [|c body IH]; intros rest d d' W; cbn [walk] in W.
  - inversion W; reflexivity.
  - cbn [app level0_text]. destruct (lbrace c); [apply IH; exact W|].
    destruct (rbrace c).
    + destruct d as [|d0]; [discriminate|]. cbn [pred]. apply IH; exact W.
    + apply IH; exact W.
Qed.

Lemma level0_group body rest : walk body 0 = Some 0 ->
  level0_text (c_lbrace :: body ++ c_rbrace :: rest) 0 = level0_text rest 0.
Proof.
  intros W. cbn [level0_text]. change (lbrace c_lbrace) with true. cbv iota.
  rewrite (level0_inner body _ 0 0 W). cbn [level0_text].
  change (lbrace c_rbrace) with false. change (rbrace c_rbrace) with true. reflexivity.
Qed.

Lemma parse_go_level0 fuel : forall s ps, parse_go fuel s = Ok ps ->
  concat (map part_text ps) = level0_text s 0.
Proof.
  induction fuel as [|f IH]; intros s ps H; [discriminate|].
  cbn [parse_go] in H. destruct s as [|c t]; [inversion H; reflexivity|].
  destruct (m_text (c :: t)) as [|k] eqn:T.
  - destruct (is_lbrace c) eqn:El; [|discriminate]. apply is_lbrace_eq in El; subst c.
    destruct (parse_name_part t) as [[[[[pre fc] dl] post] r]| | |] eqn:P; cbn [bind fst snd] in H; try discriminate.
    apply parse_name_part_spec in P as (body & -> & W & F).
    destruct (mk_name_part _); cbn [bind] in H; try discriminate.
    destruct (parse_go f r) eqn:R; cbn [bind] in H; try discriminate.
    inversion H; subst. cbn [map part_text concat app]. rewrite level0_group by exact W. eapply IH; exact R.
  - destruct (parse_go f (skipn (S k) (c :: t))) eqn:R; cbn [bind] in H; try discriminate.
    inversion H; subst. cbn [map part_text concat].
    transitivity (level0_text (firstn (S k) (c :: t) ++ skipn (S k) (c :: t)) 0); [|rewrite firstn_skipn; reflexivity].
    rewrite level0_nonbrace; [f_equal; eapply IH; exact R|].
    rewrite <- T. apply span_len_all.
Qed.

Theorem level0_verbatim_thm f ps : parse_format f = Ok ps -> concat (map part_text ps) = level0_text f 0.
Proof. apply parse_go_level0. Qed.

(* ---- fuel irrelevance for parse_name_part ---- *)
Lemma npg_fuel f1 : forall f2 s pre fc dl post, length s < f1 -> length s < f2 ->
  name_part_go f1 s pre fc dl post = name_part_go f2 s pre fc dl post.
Proof.
  induction f1 as [|f1 IH]; intros f2 s pre fc dl post L1 L2; [lia|].
  destruct f2 as [|f2]; [lia|].
  cbn [name_part_go]. destruct s as [|c t]; [reflexivity|]. cbn [length] in L1, L2.
  destruct (is_lbrace c).
  { destruct (parse_braced_string t) as [[inner r1]| | |] eqn:B; cbn [bind fst snd]; try reflexivity.
    apply parse_braced_len in B. destruct fc; apply IH; lia. }
  destruct (m_non_letters (c :: t)) as [|k] eqn:NL.
  2:{ assert (length (skipn (S k) (c :: t)) < f1 /\ length (skipn (S k) (c :: t)) < f2) as [A B]
        by (rewrite skipn_length; cbn [length]; lia).
      destruct fc; apply IH; auto. }
  destruct (m_format_chars (c :: t)) as [|k] eqn:FC; [reflexivity|].
  destruct (format_chars_ok _ _); [|reflexivity].
  assert (length (skipn (S k) (c :: t)) < f1 /\ length (skipn (S k) (c :: t)) < f2) as [A B]
    by (rewrite skipn_length; cbn [length]; lia).
  destruct (skipn (S k) (c :: t)) as [|d r']; [reflexivity|]. cbn [length] in A, B.
  destruct (is_lbrace d).
  - destruct (parse_braced_string r') as [[inner r1]| | |] eqn:Bq; cbn [bind fst snd]; try reflexivity.
    apply parse_braced_len in Bq. apply IH; lia.
  - apply IH; cbn [length]; lia.
Qed.

(* parse_name_part continued in a given state, with canonical fuel *)
Definition npg (s pre : str) (fc dl : option str) (post : str) : res (raw_part * str) :=
  name_part_go (S (length s)) s pre fc dl post.

Definition vapp (pre : str) (fc : option str) (post v : str) : str * str :=
  match fc with None => (pre ++ v, post) | Some _ => (pre, post ++ v) end.

Lemma npg_unfold_brace f t inner r pre fc dl post : parse_braced_string t = Ok (inner, r) ->
  name_part_go (S f) (c_lbrace :: t) pre fc dl post =
  name_part_go f r (fst (vapp pre fc post (c_lbrace :: inner ++ [c_rbrace]))) fc dl (snd (vapp pre fc post (c_lbrace :: inner ++ [c_rbrace]))).
Proof.
  intros B. cbn [name_part_go]. change (is_lbrace c_lbrace) with true. cbv iota.
  rewrite B. cbn [bind fst snd]. destruct fc; reflexivity.
Qed.

Lemma npg_unfold_tokens f (s : str) k pre fc dl post : is_lbrace (hd 0%N s) = false -> m_non_letters s = S k ->
  name_part_go (S f) s pre fc dl post =
  name_part_go f (skipn (S k) s) (fst (vapp pre fc post (firstn (S k) s))) fc dl (snd (vapp pre fc post (firstn (S k) s))).
Proof.
  intros NB NL. destruct s as [|c t]; [discriminate|]. cbn [hd] in NB.
  cbn [name_part_go]. rewrite NB, NL. destruct fc; reflexivity.
Qed.

Lemma npg_braced t inner r pre fc dl post : parse_braced_string t = Ok (inner, r) ->
  npg (c_lbrace :: t) pre fc dl post =
  npg r (fst (vapp pre fc post (c_lbrace :: inner ++ [c_rbrace]))) fc dl (snd (vapp pre fc post (c_lbrace :: inner ++ [c_rbrace]))).
Proof.
  intros B. unfold npg. rewrite (npg_unfold_brace _ _ _ _ _ _ _ _ B).
  pose proof (parse_braced_len _ _ _ B) as L. apply npg_fuel; cbn [length]; lia.
Qed.

Lemma npg_tokens (s : str) k pre fc dl post : is_lbrace (hd 0%N s) = false -> m_non_letters s = S k ->
  npg s pre fc dl post =
  npg (skipn (S k) s) (fst (vapp pre fc post (firstn (S k) s))) fc dl (snd (vapp pre fc post (firstn (S k) s))).
Proof.
  intros NB NL. unfold npg. rewrite (npg_unfold_tokens _ _ _ _ _ _ _ NB NL).
  assert (length (skipn (S k) s) < length s).
  { rewrite skipn_length. destruct s; [discriminate|]. cbn [length]. lia. }
  apply npg_fuel; lia.
Qed.

Lemma npg_close r pre fc dl post : npg (c_rbrace :: r) pre fc dl post = Ok ((pre, fc, dl, post), r).
Proof. reflexivity. Qed.

(* ---- completeness of parse_braced_string ---- *)
Lemma braced_go_complete body : forall d acc r, walk body d = Some 0 ->
  braced_go (body ++ c_rbrace :: r) d acc = Ok (rev acc ++ body, r).
Proof.
  induction body as [|c body IH]; intros d acc r W; cbn [walk] in W.
  - inversion W; subst. cbn. rewrite app_nil_r. reflexivity.
  - cbn [app braced_go]. rewrite lbrace_is, rbrace_is in W.
    destruct (is_lbrace c) eqn:El.
    + rewrite (lr_excl _ El). rewrite IH by exact W. cbn [rev]. rewrite <- app_assoc. reflexivity.
    + destruct (is_rbrace c).
      * destruct d as [|d0]; [discriminate|]. rewrite IH by exact W. cbn [rev]. rewrite <- app_assoc. reflexivity.
      * rewrite IH by exact W. cbn [rev]. rewrite <- app_assoc. reflexivity.
Qed.

Lemma parse_braced_complete body r : walk body 0 = Some 0 ->
  parse_braced_string (body ++ c_rbrace :: r) = Ok (body, r).
Proof. intros W. unfold parse_braced_string. rewrite braced_go_complete by exact W. reflexivity. Qed.

(* ---- verbatim text is consumed into the current accumulator ---- *)
Definition nodigit_start (s : str) : Prop := match s with c :: _ => is_digit c = false | [] => True end.

Lemma vchar_props c : vchar c = true ->
  is_lbrace c = false /\ is_rbrace c = false /\ is_alpha c = false /\ N.eqb c c_underscore = false.
Proof.
  unfold vchar. rewrite lbrace_is, rbrace_is. intros H.
  apply andb_prop in H as [H H4]. apply andb_prop in H as [H H3]. apply andb_prop in H as [H1 H2].
  apply negb_true_iff in H1, H2, H3, H4. auto.
Qed.

Lemma digit_run_in_verb s : verb s -> forall rest, nodigit_start rest ->
  span_len is_digit (s ++ rest) <= length s /\ verb (skipn (span_len is_digit (s ++ rest)) s).
Proof.
  induction 1 as [|c s V VS IH|body s W VS IH]; intros rest ND.
  - cbn [app]. destruct rest as [|c r]; cbn [span_len]; [split; [lia|constructor]|].
    cbn in ND. rewrite ND. split; [cbn; lia|constructor].
  - cbn [app span_len]. destruct (is_digit c).
    + destruct (IH rest ND) as [A B]. cbn [length skipn]. split; [lia|exact B].
    + cbn [skipn]. split; [lia|constructor; assumption].
  - cbn [app span_len]. change (is_digit 123%N) with false. cbn [skipn]. split; [lia|constructor; assumption].
Qed.

Lemma vapp_assoc pre fc post a b :
  vapp (fst (vapp pre fc post a)) fc (snd (vapp pre fc post a)) b = vapp pre fc post (a ++ b).
Proof. destruct fc; cbn [vapp fst snd]; rewrite <- app_assoc; reflexivity. Qed.

Lemma vapp_nil pre fc post : vapp pre fc post [] = (pre, post).
Proof. destruct fc; cbn [vapp]; rewrite app_nil_r; reflexivity. Qed.

Lemma npg_verb n : forall v, length v <= n -> verb v -> forall rest pre fc dl post, nodigit_start rest ->
  npg (v ++ rest) pre fc dl post = npg rest (fst (vapp pre fc post v)) fc dl (snd (vapp pre fc post v)).
Proof.
  induction n as [|n IH]; intros v L V rest pre fc dl post ND.
  - destruct v; [|cbn in L; lia]. rewrite vapp_nil. reflexivity.
  - destruct V as [|c s VC VS|body s W VS].
    + rewrite vapp_nil. reflexivity.
    + apply vchar_props in VC as (NL & NR & NA & NU). cbn [length] in L.
      destruct (nonbrace c && negb (is_word c)) eqn:E.
      * assert (M : m_non_letters ((c :: s) ++ rest) = 1) by (cbn [app m_non_letters]; rewrite E; reflexivity).
        rewrite (npg_tokens ((c :: s) ++ rest) 0 _ _ _ _ NL M). cbn [app firstn skipn].
        rewrite IH; [|lia|exact VS|exact ND]. rewrite vapp_assoc. reflexivity.
      * assert (D : is_digit c = true).
        { unfold nonbrace, is_brace in E. rewrite NL, NR in E. cbn in E. apply negb_false_iff in E.
          unfold is_word, is_alnum in E. rewrite NA, NU in E. cbn in E. rewrite orb_false_r in E. exact E. }
        destruct (digit_run_in_verb s VS rest ND) as [A B].
        set (k := span_len is_digit (s ++ rest)) in *.
        assert (M : m_non_letters ((c :: s) ++ rest) = S k).
        { cbn [app m_non_letters]. rewrite E. cbn [span_len]. rewrite D. reflexivity. }
        rewrite (npg_tokens ((c :: s) ++ rest) k _ _ _ _ NL M). cbn [app firstn skipn].
        rewrite firstn_app, skipn_app. replace (k - length s) with 0 by lia. cbn [firstn skipn]. rewrite app_nil_r.
        rewrite IH; [|rewrite skipn_length; lia|exact B|exact ND]. rewrite vapp_assoc.
        change (c :: firstn k s) with ([c] ++ firstn k s). rewrite <- app_assoc, firstn_skipn. reflexivity.
    + cbn [length] in L. rewrite app_length in L. cbn [length] in L.
      change ((123%N :: body ++ 125%N :: s) ++ rest) with (c_lbrace :: (body ++ 125%N :: s) ++ rest).
      rewrite <- app_assoc. cbn [app].
      rewrite (npg_braced _ _ _ _ _ _ _ (parse_braced_complete body (s ++ rest) W)).
      rewrite IH; [|lia|exact VS|exact ND]. rewrite vapp_assoc.
      cbn [app]. rewrite <- app_assoc. reflexivity.
Qed.

(* ---- the letters of a part ---- *)
Definition nonalpha_start (s : str) : Prop := match s with c :: _ => is_alpha c = false | [] => True end.

Lemma span_len_app p a : forall b, forallb p a = true ->
  match b with c :: _ => p c = false | [] => True end -> span_len p (a ++ b) = length a.
Proof.
  induction a as [|x a IH]; intros b H NB.
  - cbn [app length]. destruct b as [|c b]; [reflexivity|]. cbn [span_len]. rewrite NB. reflexivity.
  - cbn [forallb] in H. apply andb_prop in H as [H1 H2]. cbn [app span_len length]. rewrite H1, IH by assumption. reflexivity.
Qed.

Lemma alpha_not_digit c : is_alpha c = true -> is_digit c = false.
Proof. intros A. destruct (is_digit c) eqn:D; [|reflexivity]. apply digit_props in D as [_ D]. congruence. Qed.

Lemma npg_unfold_letters f (ls rest2 : str) pre dl post :
  ls <> [] -> forallb is_alpha ls = true -> nonalpha_start rest2 -> format_chars_ok false (lower ls) = true ->
  name_part_go (S f) (ls ++ rest2) pre None dl post =
  match rest2 with
  | [] => PyErr E_EOF (-1)
  | d :: r' =>
    if is_lbrace d then do br <- parse_braced_string r'; name_part_go f (snd br) pre (Some (lower ls)) (Some (fst br)) post
    else name_part_go f rest2 pre (Some (lower ls)) dl post
  end.
Proof.
  intros NE AL NA OK. destruct ls as [|c ls']; [contradiction|].
  assert (A : is_alpha c = true) by (cbn [forallb] in AL; apply andb_prop in AL as [A _]; exact A).
  assert (SP : m_format_chars ((c :: ls') ++ rest2) = S (length ls')).
  { unfold m_format_chars. rewrite span_len_app; [reflexivity|exact AL|exact NA]. }
  assert (NL : m_non_letters ((c :: ls') ++ rest2) = 0).
  { cbn [app m_non_letters span_len]. unfold is_word, is_alnum. rewrite A, (alpha_not_digit _ A). cbn. rewrite andb_false_r. reflexivity. }
  assert (LB : is_lbrace c = false).
  { apply alpha_nonbrace in A. unfold nonbrace, is_brace in A. destruct (is_lbrace c); [discriminate|reflexivity]. }
  assert (F : firstn (S (length ls')) ((c :: ls') ++ rest2) = c :: ls').
  { change (S (length ls')) with (length (c :: ls')). rewrite firstn_app, Nat.sub_diag, firstn_all. cbn [firstn]. apply app_nil_r. }
  assert (K : skipn (S (length ls')) ((c :: ls') ++ rest2) = rest2).
  { change (S (length ls')) with (length (c :: ls')). rewrite skipn_app, Nat.sub_diag, skipn_all. reflexivity. }
  remember ((c :: ls') ++ rest2) as s eqn:Es.
  assert (Hs : exists t, s = c :: t) by (subst s; eexists; reflexivity). destruct Hs as [t Et].
  rewrite Et in *. cbn [name_part_go]. rewrite LB, NL, SP, F, K. cbn [negb]. rewrite OK. reflexivity.
Qed.

Lemma npg_letters (ls rest2 : str) pre dl post :
  ls <> [] -> forallb is_alpha ls = true -> nonalpha_start rest2 -> format_chars_ok false (lower ls) = true ->
  npg (ls ++ rest2) pre None dl post =
  match rest2 with
  | [] => PyErr E_EOF (-1)
  | d :: r' =>
    if is_lbrace d then do br <- parse_braced_string r'; npg (snd br) pre (Some (lower ls)) (Some (fst br)) post
    else npg rest2 pre (Some (lower ls)) dl post
  end.
Proof.
  intros NE AL NA OK. unfold npg at 1. rewrite npg_unfold_letters by assumption.
  assert (LL : 0 < length ls) by (destruct ls; [contradiction|cbn; lia]).
  destruct rest2 as [|d r']; [reflexivity|].
  destruct (is_lbrace d).
  - destruct (parse_braced_string r') as [[inner r1]| | |] eqn:B; cbn [bind fst snd]; try reflexivity.
    apply parse_braced_len in B. apply npg_fuel; rewrite ?app_length; cbn [length]; lia.
  - apply npg_fuel; rewrite ?app_length; cbn [length]; lia.
Qed.

(* the legal letter groups, seen from the independent definition *)
Lemma to_lower_alpha a x : to_lower a = x -> is_lower x = true -> is_alpha a = true.
Proof.
  unfold to_lower, is_alpha. destruct (is_upper a) eqn:U; [reflexivity|]. intros -> L. rewrite L. apply orb_true_r.
Qed.

Lemma legal_letters_inv u : legal_letters u = true ->
  u <> [] /\ forallb is_alpha u = true /\ format_chars_ok false (lower u) = true.
Proof.
  unfold legal_letters. cbn [map existsb s2l]. intros H. rewrite orb_false_r in H. rewrite !orb_true_iff in H.
  assert (C : exists x, flvj x = true /\ is_lower x = true /\ (lower u = [x] \/ lower u = [x; x])).
  { repeat destruct H as [H|H];
      match type of H with str_eqb _ ?l = true =>
        destruct (str_eqb_spec (lower u) l) as [E|]; [|discriminate] end;
      rewrite E; cbn; eexists; (split; [|split; [|eauto]]); reflexivity. }
  destruct C as (x & FX & LX & [E|E]).
  - destruct u as [|a [|b u']]; cbn [lower map] in E; try discriminate. injection E as E1.
    split; [discriminate|]. split; [cbn [forallb]; rewrite (to_lower_alpha _ _ E1 LX); reflexivity|].
    cbn [lower map]. rewrite E1. cbn. exact FX.
  - destruct u as [|a [|b [|c u']]]; cbn [lower map] in E; try discriminate. injection E as E1 E2.
    split; [discriminate|]. split; [cbn [forallb]; rewrite (to_lower_alpha _ _ E1 LX), (to_lower_alpha _ _ E2 LX); reflexivity|].
    cbn [lower map]. rewrite E1, E2. cbn. rewrite N.eqb_refl. exact FX.
Qed.

(* ---- well-formed parts are accepted and split exactly ---- *)
Lemma verb_start_nonalpha (post rest : str) : verb post -> nonalpha_start rest -> nonalpha_start (post ++ rest).
Proof.
  intros V NR. destruct V as [|c s VC _|body s _ _]; cbn [app nonalpha_start]; [exact NR| |reflexivity].
  apply vchar_props in VC as (_ & _ & NA & _). exact NA.
Qed.

Theorem group_without_letters pre r : verb pre ->
  parse_name_part (pre ++ c_rbrace :: r) = Ok ((pre, None, None, []), r).
Proof.
  intros V. change (parse_name_part (pre ++ c_rbrace :: r)) with (npg (pre ++ c_rbrace :: r) [] None None []).
  rewrite (npg_verb (length pre) pre (le_n _) V); [|reflexivity]. cbn [vapp fst snd app]. apply npg_close.
Qed.

Theorem group_with_separator pre ls dl post r :
  verb pre -> legal_letters ls = true -> walk dl 0 = Some 0 -> verb post ->
  parse_name_part (pre ++ ls ++ c_lbrace :: dl ++ c_rbrace :: post ++ c_rbrace :: r)
  = Ok ((pre, Some (lower ls), Some dl, post), r).
Proof.
  intros VP LG WD VQ. apply legal_letters_inv in LG as (NE & AL & OK).
  change (parse_name_part ?s) with (npg s [] None None []).
  assert (ND : nodigit_start (ls ++ c_lbrace :: dl ++ c_rbrace :: post ++ c_rbrace :: r)).
  { destruct ls as [|c ls']; [contradiction|]. cbn [app nodigit_start]. cbn [forallb] in AL.
    apply andb_prop in AL as [A _]. apply alpha_not_digit; exact A. }
  rewrite (npg_verb (length pre) pre (le_n _) VP _ _ _ _ _ ND). cbn [vapp fst snd app].
  rewrite npg_letters; [|exact NE|exact AL|reflexivity|exact OK].
  change (is_lbrace c_lbrace) with true. cbv iota.
  rewrite (parse_braced_complete dl (post ++ c_rbrace :: r) WD). cbn [bind fst snd].
  rewrite (npg_verb (length post) post (le_n _) VQ); [|reflexivity]. cbn [vapp fst snd app]. apply npg_close.
Qed.

Theorem group_default_separator pre ls post r :
  verb pre -> legal_letters ls = true -> verb post -> is_lbrace (hd 0%N post) = false ->
  parse_name_part (pre ++ ls ++ post ++ c_rbrace :: r) = Ok ((pre, Some (lower ls), None, post), r).
Proof.
  intros VP LG VQ NB. apply legal_letters_inv in LG as (NE & AL & OK).
  change (parse_name_part ?s) with (npg s [] None None []).
  assert (ND : nodigit_start (ls ++ post ++ c_rbrace :: r)).
  { destruct ls as [|c ls']; [contradiction|]. cbn [app nodigit_start]. cbn [forallb] in AL.
    apply andb_prop in AL as [A _]. apply alpha_not_digit; exact A. }
  rewrite (npg_verb (length pre) pre (le_n _) VP _ _ _ _ _ ND). cbn [vapp fst snd app].
  assert (NA : nonalpha_start (post ++ c_rbrace :: r)) by (apply verb_start_nonalpha; [exact VQ|reflexivity]).
  rewrite npg_letters; [|exact NE|exact AL|exact NA|exact OK].
  assert (LB : is_lbrace (hd 0%N (post ++ c_rbrace :: r)) = false).
  { destruct post; [reflexivity|exact NB]. }
  destruct (post ++ c_rbrace :: r) as [|d r'] eqn:E; [destruct post; discriminate|].
  cbn [hd] in LB. rewrite LB. rewrite <- E.
  rewrite (npg_verb (length post) post (le_n _) VQ); [|reflexivity]. cbn [vapp fst snd app]. apply npg_close.
Qed.

(* ---- whole format strings ---- *)
Lemma wf_group_parsed body r : wf_group body ->
  exists raw, parse_name_part (body ++ c_rbrace :: r) = Ok (raw, r).
Proof.
  intros [pre V|pre ls dl post VP LG WD VQ|pre ls post VP LG VQ NB].
  - eexists. apply group_without_letters; exact V.
  - eexists. rewrite <- !app_assoc. cbn [app]. rewrite <- !app_assoc. cbn [app].
    apply group_with_separator; assumption.
  - eexists. rewrite <- !app_assoc. apply group_default_separator; assumption.
Qed.

Lemma mk_name_part_ok_or_crash raw : (exists np, mk_name_part raw = Ok np) \/ mk_name_part raw = Crash.
Proof.
  destruct raw as [[[pre fc] dl] post]. unfold mk_name_part.
  destruct fc as [[|a [|b [|x v]]]|]; eauto. destruct (N.eqb a b); eauto.
Qed.

Lemma wf_skip_text s : wf_format s -> forall k, k <= span_len nonbrace s -> wf_format (skipn k s).
Proof.
  induction 1 as [|c s NL NR W IH|body s G W IH]; intros k K.
  - destruct k; constructor.
  - destruct k as [|k]; [constructor; assumption|]. cbn [skipn]. apply IH.
    cbn [span_len] in K. destruct (nonbrace c); cbn in K; lia.
  - cbn [span_len] in K. change (nonbrace 123%N) with false in K. cbv iota in K. assert (k = 0) by lia. subst k.
    cbn [skipn]. constructor; assumption.
Qed.

Lemma parse_go_accepts fuel : forall s, length s < fuel -> wf_format s -> exists ps, parse_go fuel s = Ok ps.
Proof.
  induction fuel as [|f IH]; intros s L W; [lia|].
  cbn [parse_go]. destruct s as [|c t]; [eauto|]. cbn [length] in L.
  destruct (m_text (c :: t)) as [|k] eqn:T.
  - inversion W as [|c' s' NL NR W'|body s' G W']; subst.
    + exfalso. unfold m_text in T. cbn [span_len] in T. unfold nonbrace, is_brace in T.
      rewrite <- lbrace_is, <- rbrace_is, NL, NR in T. cbn in T. discriminate.
    + change (is_lbrace 123%N) with true. cbv iota.
      destruct (wf_group_parsed body s' G) as [raw P]. match goal with |- context [parse_name_part ?x] =>
        assert (P' : parse_name_part x = Ok (raw, s')) by exact P; rewrite P' end. cbn [bind fst snd].
      destruct raw as [[[pre fc] dl] post].
      pose proof (parse_name_part_spec _ _ _ _ _ _ P) as (_ & _ & _ & F).
      pose proof (mk_name_part_okerr pre fc dl post F) as OK.
      destruct (mk_name_part_ok_or_crash (pre, fc, dl, post)) as [[np M]|M]; [|rewrite M in OK; contradiction].
      rewrite M. cbn [bind].
      destruct (IH s') as [ps R]; [rewrite app_length in L; cbn [length] in L; lia|exact W'|].
      rewrite R. cbn [bind]. eauto.
  - destruct (IH (skipn (S k) (c :: t))) as [ps R].
    + rewrite skipn_length. cbn [length]. lia.
    + apply wf_skip_text; [exact W|]. unfold m_text in T. lia.
    + rewrite R. cbn [bind]. eauto.
Qed.

Theorem wellformed_accepted_thm f : wf_format f -> exists ps, parse_format f = Ok ps.
Proof. intros W. apply parse_go_accepts; [lia|exact W]. Qed.

(* ---- NamePart.__init__ on the parser's tuples: letters, abbreviation flag, trailing ties ---- *)
Definition no_trailing_tilde (q : str) : Prop := match rev q with c :: _ => N.eqb c c_tilde = false | [] => True end.

Definition tie_of (post : str) : nat :=
  if endswith post [c_tilde; c_tilde] then 2 else if endswith post [c_tilde] then 1 else 0.

Lemma mk_name_part_letters pre v dl post : format_chars_ok false v = true ->
  mk_name_part (pre, Some v, dl, post) =
  Ok (mkNP pre (Some (hd 0%N v)) (Nat.eqb (length v) 1) dl (rstrip_tilde post) (tie_of post)).
Proof.
  unfold format_chars_ok, mk_name_part, tie_of. cbn [negb andb].
  destruct v as [|a [|b [|x v]]]; try discriminate; intros H; cbn [hd length Nat.eqb is_nil andb negb].
  - reflexivity.
  - apply andb_prop in H as [E _]. rewrite E. reflexivity.
Qed.

Lemma trailing_ties q : no_trailing_tilde q ->
  (tie_of q = 0 /\ rstrip_tilde q = q) /\
  (tie_of (q ++ [c_tilde]) = 1 /\ rstrip_tilde (q ++ [c_tilde]) = q) /\
  (tie_of (q ++ [c_tilde; c_tilde]) = 2 /\ rstrip_tilde (q ++ [c_tilde; c_tilde]) = q).
Proof.
  unfold no_trailing_tilde, tie_of, endswith, rstrip_tilde. intros H.
  rewrite !rev_app_distr. cbn [rev app].
  pose proof (rev_involutive q) as Q. destruct (rev q) as [|c r]; cbn [rev] in Q; subst q.
  - cbn. auto.
  - assert (H' : N.eqb c_tilde c = false) by (rewrite N.eqb_sym; exact H).
    cbn [startswith lstrip_tilde]. rewrite ?N.eqb_refl, ?H, ?H'. cbn [andb rev]. rewrite ?H, ?H'. cbn [andb rev]. auto.
Qed.

(* ---- the statements of Props/C11.v ---- *)
Theorem level0_verbatim_full f ps : parse_format f = Ok ps ->
  concat (map part_text ps) = level0_text f 0 /\ (forall t p, format_part (PText t) p = Ok t).
Proof. intros H. split; [exact (level0_verbatim_thm f ps H)|reflexivity]. Qed.

Theorem group_parsed (pre ls dl post r : str) :
  verb pre -> legal_letters ls = true -> verb post ->
  (walk dl 0 = Some 0 ->
   parse_name_part (pre ++ ls ++ c_lbrace :: dl ++ c_rbrace :: post ++ c_rbrace :: r) = Ok ((pre, Some (lower ls), Some dl, post), r)) /\
  (is_lbrace (hd 0%N post) = false ->
   parse_name_part (pre ++ ls ++ post ++ c_rbrace :: r) = Ok ((pre, Some (lower ls), None, post), r)) /\
  parse_name_part (pre ++ c_rbrace :: r) = Ok ((pre, None, None, []), r).
Proof.
  intros VP LG VQ. split; [|split].
  - intros WD. apply group_with_separator; assumption.
  - intros NB. apply group_default_separator; assumption.
  - apply group_without_letters; assumption.
Qed.

Theorem letters_and_ties_thm pre v dl q : format_chars_ok false v = true -> no_trailing_tilde q ->
  mk_name_part (pre, Some v, dl, q) = Ok (mkNP pre (Some (hd 0%N v)) (Nat.eqb (length v) 1) dl q 0) /\
  mk_name_part (pre, Some v, dl, q ++ [c_tilde]) = Ok (mkNP pre (Some (hd 0%N v)) (Nat.eqb (length v) 1) dl q 1) /\
  mk_name_part (pre, Some v, dl, q ++ [c_tilde; c_tilde]) = Ok (mkNP pre (Some (hd 0%N v)) (Nat.eqb (length v) 1) dl q 2).
Proof.
  intros OK NT. rewrite !mk_name_part_letters by exact OK.
  destruct (trailing_ties q NT) as ((T0 & R0) & (T1 & R1) & (T2 & R2)).
  rewrite T0, R0, T1, R1, T2, R2. auto.
Qed.
