(* Proofs/RichInj.v -- the rendering determines a normal text (converse of eq_sound). *)
From Pybtex Require Import Base.Prelude Base.PyChar Base.PyStr Model.RtTypes Model.RichText
  Spec.Flat Spec.FlatOps Proofs.RichText.

Inductive key := KS | KY (n : str) | KM (m : markup).
Definition pkey (p : pair) : key :=
  match snd p with
  | m :: _ => KM m
  | [] => match fst p with ACh _ => KS | ASym n => KY n end
  end.
Definition tkey (t : rt) : key :=
  match t with
  | RStr _ | RText _ => KS
  | RSym n => KY n
  | RTag n _ => KM (MTag n)
  | RHRef u e _ => KM (MHRef u e)
  | RProt _ => KM MProt
  end.

Definition FF (l : list rt) : flat_text := concat (map flat l).

Lemma allkey p : not_text p = true -> Forall (fun x => pkey x = tkey p) (flat p).
Proof.
  destruct p; cbn [not_text]; try discriminate; intros _; cbn [flat tkey]; apply Forall_forall; intros x Hx.
  - apply in_map_iff in Hx as [c [<- _]]. reflexivity.
  - destruct Hx as [<-|[]]. reflexivity.
  - apply in_map_iff in Hx as [y [<- _]]. reflexivity.
  - apply in_map_iff in Hx as [y [<- _]]. reflexivity.
  - apply in_map_iff in Hx as [y [<- _]]. reflexivity.
Qed.

(* unique decomposition of a sequence into a maximal block of one key and the rest *)
Lemma block_unique (k : key) : forall A A' R R' : flat_text,
  Forall (fun x => pkey x = k) A -> Forall (fun x => pkey x = k) A' ->
  (forall x R0, R = x :: R0 -> pkey x <> k) -> (forall x R0, R' = x :: R0 -> pkey x <> k) ->
  A ++ R = A' ++ R' -> A = A' /\ R = R'.
Proof.
  induction A as [|x A IH]; intros A' R R' HA HA' HR HR' E.
  - destruct A' as [|y A']; [split; [reflexivity|exact E]|]. cbn in E. exfalso.
    apply (HR y (A' ++ R') E). now inversion HA'.
  - destruct A' as [|y A'].
    + cbn in E. exfalso. apply (HR' x (A ++ R) (eq_sym E)). now inversion HA.
    + cbn in E. inversion E; subst. inversion HA; inversion HA'; subst.
      destruct (IH A' R R') as [-> ->]; auto.
Qed.

Lemma tinfo_eqb_refl a : tinfo_eqb a a = true.
Proof. destruct a; cbn; rewrite ?str_eqb_refl, ?Bool.eqb_reflx; reflexivity. Qed.

Lemma tkey_typeinfo p q : not_text p = true -> not_text q = true -> tkey p = tkey q ->
  typeinfo p = typeinfo q \/ (exists n, p = RSym n /\ q = RSym n).
Proof.
  destruct p, q; cbn; try discriminate; intros _ _ E; inversion E; subst; auto.
Qed.

Lemma nonempty_flat p : nonempty p = true -> exists x r, flat p = x :: r.
Proof.
  unfold nonempty. intro H. destruct (flat p) as [|x r] eqn:E; [|eauto].
  apply (f_equal (@length _)) in E. rewrite flat_length in E. cbn in E. rewrite E in H. discriminate.
Qed.

Definition part_ok (p : rt) : bool := nonempty p && not_text p && normal p.
Lemma part_ok_inv p : part_ok p = true -> nonempty p = true /\ not_text p = true /\ normal p = true.
Proof. unfold part_ok. intro H. apply andb_prop in H as [H H3]. apply andb_prop in H as [H1 H2]. auto. Qed.

(* the first pair of the rest has another key than a non-Symbol part before it *)
Lemma rest_head p r : (forall n, p <> RSym n) -> not_text p = true ->
  normal_parts (p :: r) = true -> forall x R0, FF r = x :: R0 -> pkey x <> tkey p.
Proof.
  intros Hns Hnt Hn x R0 E. unfold normal_parts in Hn. apply andb_prop in Hn as [Hf Ha].
  cbn [forallb] in Hf. apply andb_prop in Hf as [_ Hf].
  destruct r as [|q r]; [discriminate|]. cbn [adjacent_ok] in Ha. apply andb_prop in Ha as [Ha _].
  cbn [forallb] in Hf. apply andb_prop in Hf as [Hq _]. apply part_ok_inv in Hq as [Hq1 [Hq2 _]].
  destruct (nonempty_flat q Hq1) as [y [r' Ey]]. unfold FF in E. cbn [map concat] in E. rewrite Ey in E.
  inversion E; subst. pose proof (allkey q Hq2) as K. rewrite Ey in K. inversion K; subst.
  intro Ek. rewrite H1 in Ek. symmetry in Ek. destruct (tkey_typeinfo p q Hnt Hq2 Ek) as [T|[n [-> _]]].
  - unfold adj_ok in Ha. rewrite T, tinfo_eqb_refl in Ha. cbn in Ha.
    destruct q; cbn in Ha; try discriminate. destruct p; cbn in T; try discriminate. exact (Hns _ eq_refl).
  - now apply (Hns n).
Qed.

Lemma normal_parts_tl p r : normal_parts (p :: r) = true -> normal_parts r = true.
Proof.
  unfold normal_parts. intro H. apply andb_prop in H as [Hf Ha]. cbn in Hf, Ha.
  apply andb_prop in Hf as [_ Hf]. apply andb_prop in Ha as [_ Ha]. now rewrite Hf, Ha.
Qed.
Lemma normal_parts_hd p r : normal_parts (p :: r) = true -> part_ok p = true.
Proof. unfold normal_parts. intro H. apply andb_prop in H as [Hf _]. cbn in Hf. now apply andb_prop in Hf as [Hf _]. Qed.

Fixpoint tsize (t : rt) : nat :=
  match t with
  | RStr _ | RSym _ => 1
  | RText ps | RTag _ ps | RHRef _ _ ps | RProt ps => S (list_sum (map tsize ps))
  end.
Definition lsize (l : list rt) : nat := list_sum (map tsize l).

Lemma tsize_pos t : 1 <= tsize t.
Proof. destruct t; cbn; lia. Qed.

Lemma str_flat_inj (s s' : str) :
  map (fun c : char => (ACh c, @nil markup)) s = map (fun c : char => (ACh c, @nil markup)) s' -> s = s'.
Proof.
  revert s'; induction s as [|c s IH]; intros [|c' s'] E; cbn in E; try discriminate; [reflexivity|].
  inversion E; subst. f_equal. now apply IH.
Qed.

Lemma push_inj m (a b : flat_text) : map (push m) a = map (push m) b -> a = b.
Proof.
  revert b; induction a as [|[x s] a IH]; intros [|[y s'] b] E; cbn in E; try discriminate; [reflexivity|].
  inversion E; subst. f_equal. now apply IH.
Qed.

Lemma parts_inj n : forall ps qs, lsize ps <= n -> normal_parts ps = true -> normal_parts qs = true ->
  FF ps = FF qs -> ps = qs.
Proof.
  induction n as [|n IH]; intros ps qs Hs Np Nq E.
  - destruct ps as [|p ps].
    + destruct qs as [|q qs]; [reflexivity|]. exfalso.
      apply normal_parts_hd, part_ok_inv in Nq as [Hq _]. destruct (nonempty_flat q Hq) as [x [r Ex]].
      unfold FF in E. cbn in E. rewrite Ex in E. discriminate.
    + exfalso. change (lsize (p :: ps)) with (tsize p + lsize ps) in Hs. pose proof (tsize_pos p). lia.
  - destruct ps as [|p ps].
    + destruct qs as [|q qs]; [reflexivity|]. exfalso.
      apply normal_parts_hd, part_ok_inv in Nq as [Hq _]. destruct (nonempty_flat q Hq) as [x [r Ex]].
      unfold FF in E. cbn in E. rewrite Ex in E. discriminate.
    + pose proof (part_ok_inv _ (normal_parts_hd _ _ Np)) as [Hp1 [Hp2 Hp3]].
      destruct (nonempty_flat p Hp1) as [x [rp Ex]].
      destruct qs as [|q qs]; [unfold FF in E; cbn in E; rewrite Ex in E; discriminate|].
      pose proof (part_ok_inv _ (normal_parts_hd _ _ Nq)) as [Hq1 [Hq2 Hq3]].
      destruct (nonempty_flat q Hq1) as [y [rq Ey]].
      assert (Exy : x = y) by (unfold FF in E; cbn in E; rewrite Ex, Ey in E; now inversion E).
      assert (Kp : pkey x = tkey p) by (pose proof (allkey p Hp2) as K; rewrite Ex in K; now inversion K).
      assert (Kq : pkey y = tkey q) by (pose proof (allkey q Hq2) as K; rewrite Ey in K; now inversion K).
      assert (Kpq : tkey p = tkey q) by congruence.
      assert (Hsz : lsize ps <= n /\ tsize p <= S n) by (change (lsize (p :: ps)) with (tsize p + lsize ps) in Hs; pose proof (tsize_pos p); lia).
      assert (Main : flat p = flat q /\ FF ps = FF qs).
      { unfold FF in E. cbn [map concat] in E. fold (FF ps) in E. fold (FF qs) in E.
        destruct p as [s|np|pp|np pp|u e pp|pp]; try discriminate.
        - (* RStr *) apply (block_unique (tkey (RStr s))); auto.
          + apply (allkey (RStr s) eq_refl).
          + rewrite Kpq. apply (allkey q Hq2).
          + apply (rest_head (RStr s) ps); [discriminate|reflexivity|exact Np].
          + rewrite Kpq. apply (rest_head q qs); [|exact Hq2|exact Nq].
            intros m ->. discriminate.
        - (* RSym *) destruct q; cbn in Kpq; try discriminate. inversion Kpq; subst.
          cbn [flat] in E |- *. inversion E. split; reflexivity.
        - apply (block_unique (tkey (RTag np pp))); auto.
          + apply allkey; reflexivity.
          + rewrite Kpq. apply (allkey q Hq2).
          + apply (rest_head _ ps); [discriminate|reflexivity|exact Np].
          + rewrite Kpq. apply (rest_head q qs); [|exact Hq2|exact Nq]. intros m ->. discriminate.
        - apply (block_unique (tkey (RHRef u e pp))); auto.
          + apply allkey; reflexivity.
          + rewrite Kpq. apply (allkey q Hq2).
          + apply (rest_head _ ps); [discriminate|reflexivity|exact Np].
          + rewrite Kpq. apply (rest_head q qs); [|exact Hq2|exact Nq]. intros m ->. discriminate.
        - apply (block_unique (tkey (RProt pp))); auto.
          + apply allkey; reflexivity.
          + rewrite Kpq. apply (allkey q Hq2).
          + apply (rest_head _ ps); [discriminate|reflexivity|exact Np].
          + rewrite Kpq. apply (rest_head q qs); [|exact Hq2|exact Nq]. intros m ->. discriminate. }
      destruct Main as [Efl Erest].
      assert (Epq : p = q).
      { destruct p as [s|np|pp|np pp|u e pp|pp], q as [s'|nq|qq|nq qq|u' e' qq|qq]; cbn in Kpq; try discriminate; inversion Kpq; subst.
        - cbn [flat] in Efl. f_equal. now apply str_flat_inj.
        - reflexivity.
        - cbn [flat] in Efl. apply push_inj in Efl. f_equal.
          apply (IH pp qq); [destruct Hsz as [_ Hsz]; cbn [tsize] in Hsz; unfold lsize; lia|exact Hp3|exact Hq3|exact Efl].
        - cbn [flat] in Efl. apply push_inj in Efl. f_equal.
          apply (IH pp qq); [destruct Hsz as [_ Hsz]; cbn [tsize] in Hsz; unfold lsize; lia|exact Hp3|exact Hq3|exact Efl].
        - cbn [flat] in Efl. apply push_inj in Efl. f_equal.
          apply (IH pp qq); [destruct Hsz as [_ Hsz]; cbn [tsize] in Hsz; unfold lsize; lia|exact Hp3|exact Hq3|exact Efl]. }
      subst q. f_equal. apply IH; [lia|eapply normal_parts_tl; eauto|eapply normal_parts_tl; eauto|exact Erest].
Qed.

(* flat_injective: two normal texts of the same class with the same rendering are the same text *)
Theorem flat_injective_lem a b : normal a = true -> normal b = true -> typeinfo a = typeinfo b ->
  flat a = flat b -> a = b.
Proof.
  intros Na Nb T E. destruct a, b; cbn in T; try discriminate; inversion T; subst; cbn [flat] in E; cbn [normal] in Na, Nb.
  - f_equal. now apply str_flat_inj.
  - inversion E. reflexivity.
  - f_equal. eapply parts_inj; eauto.
  - apply push_inj in E. f_equal. eapply parts_inj; eauto.
  - apply push_inj in E. f_equal. eapply parts_inj; eauto.
  - apply push_inj in E. f_equal. eapply parts_inj; eauto.
Qed.
