(* Proofs/WritersField.v -- a field as the BibTeX writer writes it (_write_field) is read back by the
   reader's parse_field (C02); built on the C01 value round trip (Proofs/BibValues.v). *)
From Pybtex Require Import Base.Prelude Base.PyChar Base.PyStr Model.BibtexStr Model.Names Model.Scanner Model.BibParser Model.Writers
  Proofs.BibValues Proofs.WritersQuote.
Local Open Scope N_scope.

(* an identifier the reader's NAME pattern matches as a whole *)
Definition is_ident (n : str) : Prop :=
  match n with
  | [] => False
  | c :: t => is_name_start c = true /\ forallb is_name_char t = true
  end.

Lemma walk_bal q v : forall level, (q = true -> has_quote v = false) -> walk q v level = bal level v.
Proof.
  induction v as [|c t IH]; intros level Hq; [reflexivity|]. cbn [walk bal].
  assert (Hq' : q = true -> has_quote t = false).
  { intros E. specialize (Hq E). unfold has_quote in *. cbn [existsb] in Hq. apply orb_false_iff in Hq as [_ Hq]. exact Hq. }
  destruct (is_lbrace c); [destruct (Nat.ltb nest_limit (S level)); auto|].
  destruct (is_rbrace c); [destruct level; auto|].
  assert (E : (q && Nat.eqb level 0 && (c =? c_quote)) = false).
  { destruct q; [|reflexivity]. specialize (Hq eq_refl). unfold has_quote in Hq. cbn [existsb] in Hq. apply orb_false_iff in Hq as [Hq _].
    rewrite N.eqb_sym in Hq. rewrite Hq. now rewrite andb_false_r. }
  rewrite E. auto.
Qed.

Lemma wf_body_balanced v : balanced v -> wf_body (negb (has_quote v)) v.
Proof.
  intros H. unfold wf_body. rewrite walk_bal; [exact H|]. intros E. now apply negb_true_iff in E.
Qed.

Lemma quote_as_dpart v q : quote v = Ok q ->
  q = opener (negb (has_quote v)) :: v ++ [closer (negb (has_quote v))].
Proof. intros H. apply quote_shape in H. subst q. destruct (has_quote v); reflexivity. Qed.

Lemma ident_name_match (n r : str) : is_ident n -> match_pat P_NAME (n ++ 32 :: r) = Some (n, 32 :: r).
Proof.
  destruct n as [|c t]; [contradiction|]. intros [Hc Ht]. cbn [app match_pat]. rewrite Hc.
  pose proof (span_app_stop is_name_char t 32 r Ht eq_refl) as E.
  unfold str, char in *. rewrite E. reflexivity.
Qed.

Lemma required_equals s (r : str) : sc_rest (p_sc s) = 32 :: 61 :: r ->
  exists sc', required [P_LIT 61] s = Ret (P_LIT 61, [61]) (set_sc s sc') /\ sc_rest sc' = r.
Proof.
  intros H. unfold required, get_token, eat_whitespace. rewrite H.
  assert (E : span is_space (32 :: 61 :: r) = ([32], 61 :: r)).
  { cbn [span]. change (is_space 32) with true. change (is_space 61) with false. reflexivity. }
  unfold str, char in *. rewrite E. cbn [advance sc_rest first_match match_pat].
  change (61 =? 61) with true. cbn iota. eexists. split; reflexivity.
Qed.

Section Enc.
  Variable enc : str -> str.

  (* the text of one field without the comma that separates it from what precedes:
     newline, four spaces, name, " = ", the quoted value *)
  Lemma field_roundtrip_pf m name v txt ws c t s :
    is_ident name -> balanced v -> enc v = v -> write_field enc name v = Ok txt ->
    forallb is_space ws = true -> is_space c = false -> c <> c_hash ->
    sc_rest (p_sc s) = tl txt ++ ws ++ c :: t ->
    exists s', parse_field m s = Ret tt s' /\ sc_rest (p_sc s') = c :: t /\
               p_fname s' = Some name /\ p_value s' = [v] /\
               p_fields s' = p_fields s /\ p_errs s' = p_errs s /\ p_macros s' = p_macros s /\ p_key s' = p_key s /\ p_cstart s' = p_cstart s.
  Proof.
    intros Hn Hb He Hw Hws Hc Hh Hr.
    destruct name as [|n0 nt]; [contradiction|].
    unfold write_field in Hw. rewrite He in Hw. destruct (quote v) as [q| | |] eqn:Q; try discriminate.
    cbn [bind] in Hw. inversion Hw; subst txt. clear Hw.
    apply quote_as_dpart in Q. set (qf := negb (has_quote v)) in *.
    cbn [tl s_field_sep app] in Hr.
    unfold parse_field, optional, get_token, eat_whitespace.
    rewrite Hr.
    assert (Hsp : span is_space (10 :: 32 :: 32 :: 32 :: 32 :: n0 :: (nt ++ 32 :: 61 :: 32 :: q) ++ ws ++ c :: t)
                  = ([10; 32; 32; 32; 32], n0 :: (nt ++ 32 :: 61 :: 32 :: q) ++ ws ++ c :: t)).
    { destruct Hn as [Hn0 _].
      assert (is_space n0 = false).
      { destruct (is_space n0) eqn:E; [|reflexivity]. exfalso.
        unfold is_space in E. unfold is_name_start, is_alpha, is_upper, is_lower in Hn0.
        repeat (apply orb_prop in E as [E|E]); repeat (apply andb_prop in E as [? ?]);
          repeat match goal with H : (_ <=? _) = true |- _ => apply N.leb_le in H | H : (_ =? _) = true |- _ => apply N.eqb_eq in H end;
          try subst n0; try (vm_compute in Hn0; discriminate);
          (destruct (N.leb_spec 65 n0); destruct (N.leb_spec n0 90); destruct (N.leb_spec 97 n0); destruct (N.leb_spec n0 122);
           cbn in Hn0; try lia;
           repeat match type of Hn0 with (_ || _) = true => apply orb_prop in Hn0 as [Hn0|Hn0] end;
           try discriminate; apply N.eqb_eq in Hn0; lia). }
      cbn [app span]. change (is_space 10) with true. change (is_space 32) with true. cbn iota. rewrite H. reflexivity. }
    unfold str, char in *. rewrite Hsp. cbn [advance sc_rest first_match].
    rewrite <- !app_assoc. cbn [app].
    change (n0 :: nt ++ 32 :: 61 :: 32 :: q ++ ws ++ c :: t) with ((n0 :: nt) ++ 32 :: 61 :: 32 :: q ++ ws ++ c :: t).
    rewrite (ident_name_match (n0 :: nt) _ Hn). cbn [app]. cbn [obind fst snd advance_token].
    match goal with |- context [required [P_LIT 61] ?st] =>
      destruct (required_equals st (32 :: q ++ ws ++ c :: t) eq_refl) as (sc2 & R2 & Hr2); rewrite R2 end.
    cbn [obind].
    match goal with |- context [parse_value m ?st] => set (st3 := st) end.
    assert (Hr3 : sc_rest (p_sc st3) = render_dparts [([32], qf, v, ws)] ++ c :: t).
    { unfold st3. cbn [set_sc p_sc]. rewrite Hr2. cbn [render_dparts render_dpart]. rewrite Q.
      cbn [app]. rewrite <- !app_assoc. reflexivity. }
    destruct (value_roundtrip_lemma m [([32], qf, v, ws)] st3 c t ltac:(discriminate)
                ltac:(constructor; [|constructor]; cbn; repeat split; [exact Hws|apply wf_body_balanced; exact Hb]) Hc Hh Hr3)
      as (sc' & Hp & Hrest).
    rewrite Hp. eexists. split; [reflexivity|]. cbn. repeat split; auto.
  Qed.
End Enc.
