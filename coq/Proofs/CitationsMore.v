(* Proofs/CitationsMore.v -- exactness of the min_crossrefs rule, the two engines agree, emitted spellings *)
From Pybtex Require Import Base.Prelude Base.PyChar Base.PyStr Model.Citations Spec.Citations
  Proofs.CitationsBase Proofs.Citations Proofs.CitationsFiltered.

(* k is the spelling some entry is stored under *)
Definition stored (E : edict) (k : key) : Prop := exists cr, ed_get k E = Some (k, cr).

Lemma refs_app_le E k a b : refs E k a <= refs E k (a ++ b).
Proof. rewrite !refs_unfold, filter_app, app_length. lia. Qed.
Lemma refs_cons_snoc E k pre c r : refs E k (pre ++ c :: r) = refs E k ((pre ++ [c]) ++ r).
Proof. now rewrite <- app_assoc. Qed.

Lemma parent_of_is_stored E c k : parent_of E c = Some k -> stored E k.
Proof.
  unfold parent_of. destruct (ed_get c E) as [[ck [p|]]|]; try discriminate.
  destruct (ed_get p E) as [[pk pcr]|] eqn:Ep; [|discriminate]. intros [= <-].
  exists pcr. exact (ed_get_stored _ _ _ Ep).
Qed.
Lemma stored_unique E a b : stored E a -> stored E b -> keyb a b = true -> a = b.
Proof. intros [ca Ha] [cb Hb] H. rewrite (ed_get_congr a b E H) in Ha. congruence. Qed.

Lemma threshold_hits_sound E t cited : 1 <= t -> forall rest pre k,
  In k (threshold_hits E t cited pre rest) ->
  stored E k /\ existsb (keyb k) cited = false /\ refs E k pre < t <= refs E k (pre ++ rest).
Proof.
  intros Ht. induction rest as [|c r IH]; intros pre k Hin; cbn [threshold_hits] in Hin; [contradiction|].
  apply in_app_or in Hin as [Hin|Hin].
  - destruct (parent_of E c) as [pk|] eqn:Hp; [|contradiction].
    destruct (Nat.eqb_spec (refs E pk (pre ++ [c])) t) as [Heq|]; [|contradiction].
    destruct (existsb (keyb pk) cited) eqn:Hc; [contradiction|].
    destruct Hin as [<-|[]]. split; [exact (parent_of_is_stored _ _ _ Hp)|]. split; [exact Hc|].
    rewrite refs_cons_snoc. pose proof (refs_app_le E pk (pre ++ [c]) r) as Hle.
    pose proof (refs_app E pk pre c) as Hst. unfold refs_hit in Hst. rewrite Hp, keyb_refl in Hst. lia.
  - destruct (IH _ _ Hin) as (H1 & H2 & H3). split; [exact H1|]. split; [exact H2|].
    rewrite refs_cons_snoc. pose proof (refs_app E k pre c) as Hst. lia.
Qed.

Lemma threshold_hits_complete E t cited : forall rest pre k,
  stored E k -> existsb (keyb k) cited = false -> refs E k pre < t <= refs E k (pre ++ rest) ->
  In k (threshold_hits E t cited pre rest).
Proof.
  induction rest as [|c r IH]; intros pre k Hs Hc Hr; cbn [threshold_hits].
  - rewrite app_nil_r in Hr. lia.
  - apply in_or_app. rewrite refs_cons_snoc in Hr. pose proof (refs_app E k pre c) as Hstep.
    destruct (Nat.eq_dec (refs E k (pre ++ [c])) t) as [Heq|Hne].
    + left. unfold refs_hit in Hstep. destruct (parent_of E c) as [pk|] eqn:Hp; [|lia].
      destruct (keyb k pk) eqn:Hk; [|lia].
      assert (pk = k) as -> by (symmetry; apply (stored_unique E k pk Hs (parent_of_is_stored _ _ _ Hp) Hk)).
      rewrite Heq, Nat.eqb_refl, Hc. now left.
    + right. apply IH; try assumption. destruct (refs_hit E k c); lia.
Qed.

Lemma crossrefs_exact_lemma E cs m k :
  In k (crossrefs E cs m) <-> stored E k /\ existsb (keyb k) cs = false /\ threshold m <= refs E k cs.
Proof.
  rewrite crossrefs_is_spec. unfold Spec.Citations.crossrefs_spec. split.
  - intros H. destruct (threshold_hits_sound E _ cs (threshold_ge1 m) _ _ _ H) as (H1 & H2 & H3). cbn in H3. tauto.
  - intros (H1 & H2 & H3). apply threshold_hits_complete; try assumption. pose proof (threshold_ge1 m). cbn [app]. split; [|exact H3]. rewrite refs_unfold. cbn. lia.
Qed.

(* ---- both engines select the same entries *)
Lemma stored_key_keyb E k : ed_mem k E = true -> keyb (stored_key E k) k = true.
Proof.
  unfold stored_key. rewrite ed_mem_get. destruct (ed_get k E) as [[k' cr]|] eqn:Eg; [|discriminate].
  intros _. destruct (ed_get_some_key _ _ _ Eg) as [H _]. now rewrite keyb_sym.
Qed.
Lemma py_engine_fst db cites m :
  fst (py_engine_raw db cites m) =
  map (stored_key (bd_entries (read_db (Some cites) db))) (resolve (bd_entries (read_db (Some cites) db)) cites m).
Proof.
  unfold py_engine_raw, format_bibliography_raw, resolve. destruct (add_extra _ cites m) as [cs rs]. cbn.
  now rewrite remove_missing_yields.
Qed.
Lemma engines_agree_lemma db cites m :
  map lower (fst (py_engine_raw db cites m)) = map lower (fst (command_read_raw db cites m)).
Proof.
  rewrite py_engine_fst, command_read_fst. unfold resolve.
  set (E := bd_entries (read_db (Some cites) db)). generalize (fst (add_extra E cites m)) as l.
  induction l as [|k l IH]; cbn; [reflexivity|]. destruct (ed_mem k E) eqn:Hm; [|exact IH]. cbn.
  apply stored_key_keyb, keyb_true in Hm. now rewrite Hm, IH.
Qed.

(* ---- spelling of the keys the BibTeX engine emits (the final self.citations) *)
Lemma ed_keys_in E k : In k (ed_keys E) -> exists cr, In (k, cr) E.
Proof. unfold ed_keys. intros H. apply in_map_iff in H as ([k' cr] & <- & H). now exists cr. Qed.
Lemma stored_in_keys E k : stored E k -> In k (ed_keys E).
Proof.
  intros [cr H]. apply ed_get_some_key in H as [_ H]. unfold ed_keys. apply in_map_iff. exists (k, cr). auto.
Qed.
Lemma ed_mem_stored E k : ed_mem k E = true -> exists k', stored E k' /\ keyb k k' = true.
Proof.
  rewrite ed_mem_get. destruct (ed_get k E) as [[k' cr]|] eqn:Eg; [|discriminate]. intros _.
  exists k'. split; [exists cr; exact (ed_get_stored _ _ _ Eg)|]. exact (proj1 (ed_get_some_key _ _ _ Eg)).
Qed.

Lemma emitted_spelling_lemma db cites m k c :
  consistent cites -> In k (fst (command_read_raw db cites m)) -> In c cites -> keyb c k = true -> k = c.
Proof.
  intros Hcons Hk Hc Hck. rewrite command_read_fst, resolve_spec in Hk.
  set (E := bd_entries (read_db (Some cites) db)) in *.
  set (F := flat_map (fun c => if str_eqb c star then ed_keys E else [c]) cites).
  assert (HinF : forall x, In x F -> x = c \/ keyb c x = false).
  { intros x Hx. unfold F in Hx. apply in_flat_map in Hx as (c0 & Hc0 & Hx).
    destruct (keyb c x) eqn:Hcx; [left|now right].
    destruct (str_eqb c0 star).
    - apply ed_keys_in in Hx as [cr Hx]. exact (stored_spelling_consistent db cites x cr c Hcons Hx Hc Hcx).
    - destruct Hx as [<-|[]]. symmetry. apply Hcons; assumption. }
  apply in_app_or in Hk as [Hk|Hk].
  - apply filter_In in Hk as [Hk _]. apply dedup_ci_in in Hk. destruct (HinF k Hk) as [H|H]; [exact H|congruence].
  - exfalso. unfold Spec.Citations.crossrefs_spec in Hk.
    destruct (threshold_hits_sound E _ _ (threshold_ge1 m) _ _ _ Hk) as (Hs & Hn & _).
    unfold explicit_spec in Hn. fold F in Hn. rewrite dedup_ci_mem in Hn.
    assert (Hex : existsb (keyb k) F = true); [|congruence].
    apply existsb_exists. destruct (str_eqb_spec c star) as [->|Hne].
    + exists k. split; [|apply keyb_refl]. unfold F. apply in_flat_map. exists star. split; [exact Hc|].
      rewrite str_eqb_refl. now apply stored_in_keys.
    + exists c. split; [|now rewrite keyb_sym]. unfold F. apply in_flat_map. exists c. split; [exact Hc|].
      destruct (str_eqb_spec c star); [contradiction|now left].
Qed.
