(* Proofs/BibtexStrNames.v -- round 3: split_name_list, bibtex_abbreviate on every string, and the
   BST builtin wrappers (the bst_ functions) of Model/BibtexStr.v; their tie to C03 interpreter step. *)
From Pybtex Require Import Base.Prelude Base.PyChar Base.PyStr Model.BibtexStr Spec.BibtexStrSpec
  Proofs.BibtexStr Proofs.BibtexStrSplit Proofs.BibtexStrAlg.

Definition is_and_sep (sep : str) : Prop :=
  exists b c d, sep = [c_space; b; c; d; c_space] /\ to_lower b = 97%N /\ to_lower c = 110%N /\ to_lower d = 100%N.

(* split_name_list: the names are the stripped pieces of the string cut at " and " (any case),
   and only at brace depth 0: every piece before a separator returns to clamped depth 0 *)
Lemma split_name_list_spec_lemma s names : split_name_list s = Ok names ->
  exists raw, names = map strip raw /\
    ((s = [] /\ raw = []) \/
     exists pairs lastp,
       raw = map fst pairs ++ [lastp] /\
       s = flat_map (fun ps => fst ps ++ snd ps) pairs ++ lastp /\
       Forall (fun p => cdepth_from 0 p = 0) (map fst pairs) /\
       Forall is_and_sep (map snd pairs)).
Proof.
  unfold split_name_list. intros H.
  destruct (split_strip_filter_lemma sep_and s true false names H) as (raw & Hraw & ->).
  exists raw. split; [reflexivity|].
  destruct (split_top_level_all_lemma sep_and s raw Hraw) as [?|(pairs & lastp & H1 & H2 & H3 & _ & H5)]; [left; assumption|].
  right. exists pairs, lastp. repeat split; try assumption.
  eapply Forall_impl; [|exact H5]. intros sep Hm. apply matched_and. exact Hm.
Qed.

Lemma Forall2_map_strip {Y} (P : str -> Y -> Prop) : forall raw ls,
  Forall2 P (map strip raw) ls -> Forall2 (fun p l => P (strip p) l) raw ls.
Proof.
  induction raw as [|p raw IH]; intros ls H; inversion H; subst; constructor; auto.
Qed.

(* bibtex_abbreviate, EVERY string: the word is its raw pieces joined by hyphens, each hyphen at
   (clamped) brace depth 0; each piece, stripped, contributes its first letter; the non-empty
   letters are joined by the delimiter *)
Lemma abbreviate_spec_lemma w d out : bibtex_abbreviate w d = Ok out ->
  exists raw letters,
    ((w = [] /\ raw = []) \/
     (w = join [c_hyphen] raw /\ raw <> [] /\ Forall (fun p => cdepth_from 0 p = 0) (removelast raw))) /\
    Forall2 (fun p l => bibtex_first_letter (strip p) = Ok l) raw letters /\
    out = join (match d with None => [46%N; c_hyphen] | Some d => d end)
               (filter (fun l => negb (match l with [] => true | _ => false end)) letters).
Proof.
  intros H. destruct (abbreviate_unfold_lemma w d out H) as (pieces & letters & Hp & HF & Ho).
  destruct (split_strip_filter_lemma sep_hyphen w true false pieces Hp) as (raw & Hraw & ->).
  exists raw, letters. split; [|split; [apply (Forall2_map_strip (fun p l => bibtex_first_letter p = Ok l)); exact HF|exact Ho]].
  destruct (split_top_level_all_lemma sep_hyphen w raw Hraw) as [?|(pairs & lastp & H1 & H2 & H3 & _ & H5)]; [left; assumption|].
  right. split; [|split].
  - rewrite H2, H1. apply (flat_join [c_hyphen]).
    eapply Forall_impl; [|exact H5]. intros sep Hm. apply matched_hyphen. exact Hm.
  - rewrite H1. intros E. apply app_eq_nil in E as [_ E]. discriminate.
  - rewrite H1, removelast_last. exact H3.
Qed.

(* ------------------------------------------------------------------ the BST builtin wrappers *)
Lemma bst_substring_spec s start len : bst_substring s start len = Ok (bibtex_substring s start len).
Proof. reflexivity. Qed.
Lemma bst_text_prefix_spec s l : bst_text_prefix s l = bibtex_prefix s l.
Proof. reflexivity. Qed.
Lemma bst_text_length_spec s : bst_text_length s = bibtex_len s.
Proof. reflexivity. Qed.
Lemma bst_purify_spec s : bst_purify s = bibtex_purify s.
Proof. reflexivity. Qed.
Lemma bst_width_spec cw s : bst_width cw s = bibtex_width cw s.
Proof. reflexivity. Qed.
Lemma bst_num_names_spec s : bst_num_names s = do l <- split_name_list s; Ok (length l).
Proof. reflexivity. Qed.

(* change.case$: only the first character of the mode matters, case-insensitively;
   anything else (and the empty mode) is a BibTeX error, whatever the string *)
Lemma bst_change_case_spec s mode :
  bst_change_case s mode =
  match mode with
  | [] => PyErr E_BIBTEX (-1)
  | c :: _ =>
    if N.eqb (to_lower c) 108 then change_case s 0
    else if N.eqb (to_lower c) 117 then change_case s 1
    else if N.eqb (to_lower c) 116 then change_case s 2
    else PyErr E_BIBTEX (-1)
  end.
Proof. destruct mode; reflexivity. Qed.
