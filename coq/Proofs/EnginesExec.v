(* Proofs/EnginesExec.v -- executing style code (any function, any built-in, while$ loops included)
   never changes the citation list, the database READ found, or what later READs will find:
   only the READ and SORT commands do. *)
From Pybtex Require Import Base.Prelude Base.PyChar Base.PyStr Model.BibtexStr Model.Wrap Model.Bst.

Definition pres (st st' : state) : Prop :=
  st_cites st' = st_cites st /\ st_db st' = st_db st /\ st_reads st' = st_reads st.

Lemma pres_refl st : pres st st.
Proof. repeat split. Qed.
Lemma pres_trans a b c : pres a b -> pres b c -> pres a c.
Proof. intros (H1 & H2 & H3) (K1 & K2 & K3). repeat split; congruence. Qed.
Lemma pop_pres st v st' : pop st = Ok (v, st') -> pres st st'.
Proof. unfold pop. destruct (st_stack st); [discriminate|]. intros H; inversion H; subst. repeat split. Qed.

Ltac pres_wrap := first [ apply pres_refl | repeat split; reflexivity ].

Section Exec.
  Variable fmt_name : str -> str -> res str.
  Variable cw : char -> Z.

  Lemma assign_pres st a b st' : assign st a b = Ok st' -> pres st st'.
  Proof.
    unfold assign. intros H.
    repeat match type of H with
    | match ?x with _ => _ end = Ok _ => destruct x; try discriminate
    end; inversion H; subst; pres_wrap.
  Qed.
  Lemma do_newline_pres st st' : do_newline st = Ok st' -> pres st st'.
  Proof.
    unfold do_newline. intros H.
    destruct (join_buffer (st_buf st)); cbn [bind] in H; try discriminate.
    destruct (wrap a default_width default_indent); cbn [bind] in H; try discriminate.
    inversion H; subst. pres_wrap.
  Qed.

  Section Step.
    Variable rec : state -> list instr -> res state.
    Variable wh : state -> value -> value -> res state.
    Hypothesis Hrec : forall st p st', rec st p = Ok st' -> pres st st'.
    Hypothesis Hwh : forall st a b st', wh st a b = Ok st' -> pres st st'.

    Lemma exec_value_pres st v st' : exec_value rec st v = Ok st' -> pres st st'.
    Proof. unfold exec_value. destruct v; try discriminate; apply Hrec. Qed.

    Ltac chain :=
      repeat match goal with
      | H : bind (pop ?s) _ = Ok _ |- pres ?s _ =>
          let E := fresh "E" in
          destruct (pop s) as [[? ?]| | |] eqn:E; cbn [bind] in H; try discriminate;
          apply (pres_trans _ _ _ (pop_pres _ _ _ E)); clear E
      | H : bind ?r _ = Ok _ |- _ =>
          let E := fresh "E" in destruct r as [?| | |] eqn:E; cbn [bind] in H; try discriminate; clear E
      | H : match ?x with _ => _ end = Ok _ |- _ => destruct x; try discriminate
      end.
    Ltac finish :=
      match goal with
      | H : Ok _ = Ok _ |- _ => inversion H; subst; pres_wrap
      | H : rec _ _ = Ok _ |- _ => eapply pres_trans; [|eapply Hrec; exact H]; pres_wrap
      | H : wh _ _ _ = Ok _ |- _ => eapply pres_trans; [|eapply Hwh; exact H]; pres_wrap
      | H : exec_value rec _ _ = Ok _ |- _ => eapply pres_trans; [|eapply exec_value_pres; exact H]; pres_wrap
      | H : assign _ _ _ = Ok _ |- _ => eapply pres_trans; [|eapply assign_pres; exact H]; pres_wrap
      | H : do_newline _ = Ok _ |- _ => eapply pres_trans; [|eapply do_newline_pres; exact H]; pres_wrap
      end.

    Lemma builtin_step_pres b st st' : builtin_step fmt_name cw rec wh b st = Ok st' -> pres st st'.
    Proof.
      intros H. destruct b; cbn [builtin_step] in H; chain; finish.
    Qed.

    Lemma exec_obj_pres o st st' : exec_obj fmt_name cw rec wh o st = Ok st' -> pres st st'.
    Proof.
      destruct o; cbn [exec_obj]; intros H; try (apply builtin_step_pres in H; exact H); chain; finish.
    Qed.

    Lemma step_pres st i st' : step fmt_name cw rec wh st i = Ok st' -> pres st st'.
    Proof.
      destruct i; cbn [step]; intros H.
      - inversion H; subst; pres_wrap.
      - inversion H; subst; pres_wrap.
      - destruct (vlookup name (st_vars st)); [|discriminate]. now apply exec_obj_pres in H.
      - chain; finish.
      - inversion H; subst; pres_wrap.
    Qed.
  End Step.

  Lemma exec_S f st i r : exec fmt_name cw (S f) st (i :: r) =
    (do st' <- step fmt_name cw (exec fmt_name cw f) (while_loop fmt_name cw f) st i; exec fmt_name cw f st' r).
  Proof. reflexivity. Qed.
  Lemma exec_nil fuel st : exec fmt_name cw fuel st [] = Ok st.
  Proof. destruct fuel; reflexivity. Qed.
  Lemma while_S f st pv fv : while_loop fmt_name cw (S f) st pv fv =
    (do st1 <- exec_value (exec fmt_name cw f) st pv;
     do (v, st2) <- pop st1;
     match v with
     | VInt z => if (z <=? 0)%Z then Ok st2
                 else do st3 <- exec_value (exec fmt_name cw f) st2 fv; while_loop fmt_name cw f st3 pv fv
     | _ => Crash
     end).
  Proof. reflexivity. Qed.

  Lemma exec_while_pres : forall fuel,
    (forall st p st', exec fmt_name cw fuel st p = Ok st' -> pres st st') /\
    (forall st a b st', while_loop fmt_name cw fuel st a b = Ok st' -> pres st st').
  Proof.
    induction fuel as [|f [IHe IHw]]; split.
    - intros st [|i r] st' H; cbn in H; [inversion H; subst; apply pres_refl|discriminate].
    - intros st a b st' H; cbn in H; discriminate.
    - intros st [|i r] st' H; [rewrite exec_nil in H; inversion H; subst; apply pres_refl|]. rewrite exec_S in H.
      destruct (step fmt_name cw (exec fmt_name cw f) (while_loop fmt_name cw f) st i) as [s1| | |] eqn:E; cbn [bind] in H; try discriminate.
      eapply pres_trans; [exact (step_pres (exec fmt_name cw f) (while_loop fmt_name cw f) IHe IHw _ _ _ E)|]. exact (IHe _ _ _ H).
    - intros st a b st' H; rewrite while_S in H.
      destruct (exec_value (exec fmt_name cw f) st a) as [s1| | |] eqn:E1; cbn [bind] in H; try discriminate.
      destruct (pop s1) as [[v s2]| | |] eqn:E2; cbn [bind] in H; try discriminate.
      assert (P2 : pres st s2).
      { eapply pres_trans; [exact (exec_value_pres (exec fmt_name cw f) IHe _ _ _ E1)|]. eapply pop_pres; eauto. }
      destruct v; try discriminate. destruct (z <=? 0)%Z; [inversion H; subst; exact P2|].
      destruct (exec_value (exec fmt_name cw f) s2 b) as [s3| | |] eqn:E3; cbn [bind] in H; try discriminate.
      eapply pres_trans; [exact P2|]. eapply pres_trans; [exact (exec_value_pres (exec fmt_name cw f) IHe _ _ _ E3)|]. exact (IHw _ _ _ _ H).
  Qed.

  Lemma exec_pres fuel st p st' : exec fmt_name cw fuel st p = Ok st' -> pres st st'.
  Proof. apply (proj1 (exec_while_pres fuel)). Qed.

  Lemma iterate_pres fuel f : forall keys st st', iterate fmt_name cw fuel f keys st = Ok st' -> pres st st'.
  Proof.
    induction keys as [|k r IH]; intros st st' H; cbn [iterate] in H; [inversion H; subst; apply pres_refl|].
    destruct (st_db st) as [d|]; [|discriminate].
    destruct (alookup str_eqb k (r_entries d)) as [e|]; [|discriminate].
    destruct (exec fmt_name cw fuel (set_cur st (Some (k, e))) [IId f]) as [s1| | |] eqn:E; cbn [bind] in H; try discriminate.
    eapply pres_trans; [|eapply IH; exact H].
    eapply pres_trans; [|eapply exec_pres; exact E]. pres_wrap.
  Qed.
End Exec.

(* ---------------------------------------------------------------------------------- *)
(* commands: only READ replaces the citation list, only SORT permutes it *)
From Coq Require Import Permutation.
From Pybtex Require Import Proofs.EnginesSort.

Section Commands.
  Variable fmt_name : str -> str -> res str.
  Variable cw : char -> Z.

  Lemma add_variable_pres st n o st' : add_variable st n o = Ok st' -> pres st st'.
  Proof. unfold add_variable. destruct (vlookup n (st_vars st)); [discriminate|]. intros H; inversion H; subst. pres_wrap. Qed.
  Lemma declare_pres mk : forall ids st st', declare mk ids st = Ok st' -> pres st st'.
  Proof.
    induction ids as [|i r IH]; intros st st' H; cbn [declare] in H; [inversion H; subst; apply pres_refl|].
    destruct (name_of i) as [n| | |]; cbn [bind] in H; try discriminate.
    destruct (add_variable st n (mk n)) as [s1| | |] eqn:E; cbn [bind] in H; try discriminate.
    eapply pres_trans; [eapply add_variable_pres; exact E|]. eapply IH; exact H.
  Qed.
  Lemma declare_global_pres o : forall ids st st', declare_global o ids st = Ok st' -> pres st st'.
  Proof. exact (declare_pres (fun _ => o)). Qed.

  Definition is_read_cmd (c : command) : bool := let '(Cmd name _) := c in str_eqb (lower name) nm_read.

  Lemma run_command_cites fuel st c st' : is_read_cmd c = false ->
    run_command fmt_name cw fuel st c = Ok st' ->
    Permutation (st_cites st') (st_cites st) /\ st_db st' = st_db st /\ st_reads st' = st_reads st.
  Proof.
    destruct c as [name args]. cbn [is_read_cmd]. intros Hr H.
    assert (P : pres st st' -> Permutation (st_cites st') (st_cites st) /\ st_db st' = st_db st /\ st_reads st' = st_reads st).
    { intros (H1 & H2 & H3). rewrite H1. auto. }
    unfold run_command in H. rewrite Hr in H.
    repeat match type of H with
    | (if ?b then _ else _) = Ok _ => destruct b eqn:?
    end.
    - (* ENTRY *) apply P. destruct args as [|a1 [|a2 [|a3 [|? ?]]]]; try discriminate.
      destruct (declare OField a1 st) as [s1| | |] eqn:E1; cbn [bind] in H; try discriminate.
      destruct (add_variable s1 nm_crossref OCrossref) as [s2| | |] eqn:E2; cbn [bind] in H; try discriminate.
      destruct (declare OEInt a2 s2) as [s3| | |] eqn:E3; cbn [bind] in H; try discriminate.
      eapply pres_trans; [eapply declare_pres; exact E1|]. eapply pres_trans; [eapply add_variable_pres; exact E2|].
      eapply pres_trans; [eapply declare_pres; exact E3|]. eapply declare_pres; exact H.
    - (* EXECUTE *) apply P. destruct args as [|g [|? ?]]; try discriminate.
      destruct (first_of g) as [i| | |]; cbn [bind] in H; try discriminate. eapply exec_pres; exact H.
    - (* FUNCTION *) apply P. destruct args as [|g [|b [|? ?]]]; try discriminate.
      destruct (first_of g) as [i| | |]; cbn [bind] in H; try discriminate.
      destruct (lit_of i) as [[z|s]| | |]; cbn [bind] in H; try discriminate. eapply add_variable_pres; exact H.
    - (* INTEGERS *) apply P. destruct args as [|g [|? ?]]; try discriminate. eapply declare_global_pres; exact H.
    - (* STRINGS *) apply P. destruct args as [|g [|? ?]]; try discriminate. eapply declare_global_pres; exact H.
    - (* ITERATE / REVERSE *) apply P. destruct args as [|g [|? ?]]; try discriminate.
      destruct (first_of g) as [i| | |]; cbn [bind] in H; try discriminate.
      destruct (name_of i) as [f| | |]; cbn [bind] in H; try discriminate.
      destruct (vlookup f (st_vars st)); [|discriminate]. eapply iterate_pres; exact H.
    - (* MACRO *) apply P. destruct args as [|g1 [|g2 [|? ?]]]; try discriminate.
      destruct (first_of g1) as [i1| | |]; cbn [bind] in H; try discriminate.
      destruct (lit_of i1) as [k| | |]; cbn [bind] in H; try discriminate.
      destruct (first_of g2) as [i2| | |]; cbn [bind] in H; try discriminate.
      destruct (lit_of i2) as [v| | |]; cbn [bind] in H; try discriminate.
      inversion H; subst. pres_wrap.
    - (* SORT *)
      destruct (sort_keys st (st_cites st)) as [ks| | |] eqn:E; cbn [bind] in H; try discriminate.
      inversion H; subst. split; [|split; reflexivity].
      pose proof (sort_keys_snd _ _ _ E) as Hs. rewrite <- Hs. cbn. apply Permutation_map. apply stable_sort_perm.
    - discriminate.
    - (* unknown command *) inversion H; subst. apply P, pres_refl.
  Qed.

  Lemma run_no_read_cites fuel : forall cs st st', forallb (fun c => negb (is_read_cmd c)) cs = true ->
    run fmt_name cw fuel st cs = Ok st' ->
    Permutation (st_cites st') (st_cites st) /\ st_db st' = st_db st /\ st_reads st' = st_reads st.
  Proof.
    induction cs as [|c r IH]; intros st st' Hn H; cbn [run] in H.
    - inversion H; subst. auto.
    - cbn in Hn. apply andb_prop in Hn as [Hc Hr]. apply negb_true_iff in Hc.
      destruct (run_command fmt_name cw fuel st c) as [s1| | |] eqn:E; cbn [bind] in H; try discriminate.
      destruct (run_command_cites _ _ _ _ Hc E) as (P1 & D1 & R1).
      destruct (IH _ _ Hr H) as (P2 & D2 & R2). repeat split; try congruence. now rewrite P2.
  Qed.
End Commands.
