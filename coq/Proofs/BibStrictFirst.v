(* Proofs/BibStrictFirst.v -- C10: the error strict mode raises is the first one capture mode records *)
From Pybtex Require Import Base.Prelude Base.PyChar Base.PyStr Model.BibtexStr Model.Names
  Model.Scanner Model.BibParser Proofs.BibStrict.
Local Open Scope N_scope.

(* in capture mode errors are only ever appended *)
Definition mono {A} (s : pst) (r : out A) : Prop :=
  match r with
  | Ret _ s' => exists l, p_errs s' = p_errs s ++ l
  | Exc _ s' => exists l, p_errs s' = p_errs s ++ l
  | Fatal _ => True
  end.

Lemma mono_refl_ret {A} s (a : A) s' : p_errs s' = p_errs s -> mono s (Ret a s').
Proof. intros H. exists []. rewrite app_nil_r. exact H. Qed.
Lemma mono_refl_exc {A} s e s' : p_errs s' = p_errs s -> mono s (@Exc A e s').
Proof. intros H. exists []. rewrite app_nil_r. exact H. Qed.

Lemma mono_trans {A} s s1 (r : out A) : (exists l, p_errs s1 = p_errs s ++ l) -> mono s1 r -> mono s r.
Proof.
  intros [l Hl] H. destruct r as [a s2|e s2|f]; cbn in *; auto; destruct H as [l2 H2]; exists (l ++ l2); rewrite H2, Hl, app_assoc; reflexivity.
Qed.

Lemma mono_bind {A B} s (g : out A) (k : A -> pst -> out B) :
  mono s g -> (forall a s1, mono s1 (k a s1)) -> mono s (g >>= k).
Proof.
  intros Hg Hk. destruct g as [a s1|e s1|f]; cbn in *; auto. eapply mono_trans; [exact Hg|apply Hk].
Qed.

Lemma mono_core {A} s s0 (r : out A) : p_errs s0 = p_errs s -> mono s0 r -> mono s r.
Proof. intros He. apply mono_trans. exists []. rewrite app_nil_r. exact He. Qed.

Lemma mono_required ps s : mono s (required ps s).
Proof. unfold required. destruct (get_token ps (p_sc s)) as [[| |p v] c]; cbn; exists []; rewrite app_nil_r; reflexivity. Qed.
Lemma mono_optional ps s : mono s (optional ps s).
Proof. unfold optional. destruct (get_token ps (p_sc s)) as [[| |p v] c]; cbn; exists []; rewrite app_nil_r; reflexivity. Qed.
Lemma mono_handle e s : mono s (handle_error Capture e s).
Proof. cbn. exists [e]. reflexivity. Qed.

Lemma mono_pstring fuel : forall q level acc s, mono s (pstring fuel q level acc s).
Proof.
  induction fuel as [|f IH]; intros q level acc s; cbn [pstring]; [exact I|].
  destruct (skip_to _ (p_sc s)) as [[[v c] c']|]; [|apply mono_refl_exc; reflexivity].
  destruct (c =? c_quote); [apply mono_refl_ret; reflexivity|].
  destruct (is_lbrace c).
  - destruct (Nat.ltb nest_limit (S level)); [apply mono_refl_exc; reflexivity|]. eapply mono_core; [|apply IH]. reflexivity.
  - destruct level; [destruct q; [apply mono_refl_exc|apply mono_refl_ret]; reflexivity|]. eapply mono_core; [|apply IH]. reflexivity.
Qed.

Lemma mono_substitute name s : mono s (substitute_macro Capture name s).
Proof.
  unfold substitute_macro. destruct (assoc_get (lower name) (p_macros s)); [apply mono_refl_ret; reflexivity|].
  apply mono_bind; [apply mono_handle|]. intros a s1. apply mono_refl_ret. reflexivity.
Qed.

Lemma mono_value_part s : mono s (parse_value_part Capture s).
Proof.
  unfold parse_value_part. apply mono_bind; [apply mono_required|]. intros tk s1.
  destruct (fst tk); try apply mono_substitute.
  - apply mono_refl_ret. reflexivity.
  - apply mono_bind; [apply mono_pstring|]. intros a s2. apply mono_refl_ret. reflexivity.
Qed.

Lemma mono_value_loop fuel : forall parts s, mono s (parse_value_loop fuel Capture parts s).
Proof.
  induction fuel as [|f IH]; intros parts s; cbn [parse_value_loop]; [exact I|].
  apply mono_bind; [apply mono_value_part|]. intros part s1.
  apply mono_bind; [apply mono_optional|]. intros h s2. destruct h; [apply IH|apply mono_refl_ret; reflexivity].
Qed.

Lemma mono_value s : mono s (parse_value Capture s).
Proof. unfold parse_value. apply mono_bind; [apply mono_value_loop|]. intros p s1. apply mono_refl_ret. reflexivity. Qed.

Lemma mono_field s : mono s (parse_field Capture s).
Proof.
  unfold parse_field. apply mono_bind; [apply mono_optional|]. intros name s1.
  destruct name as [tk|]; [|apply mono_refl_ret; reflexivity].
  eapply (mono_core _ (set_fname s1 (Some (snd tk)))); [reflexivity|].
  apply mono_bind; [apply mono_required|]. intros x s3. apply mono_value.
Qed.

Lemma mono_entry_fields fuel : forall s, mono s (parse_entry_fields fuel Capture s).
Proof.
  induction fuel as [|f IH]; intros s; cbn [parse_entry_fields]; [exact I|].
  eapply (mono_core _ (set_value (set_fname s None) [])); [reflexivity|].
  apply mono_bind; [apply mono_field|]. intros u s1.
  set (s2 := match p_fname s1, p_value s1 with
             | Some n, _ :: _ => set_fields s1 (p_fields s1 ++ [(n, p_value s1)])
             | _, _ => s1 end).
  assert (He : p_errs s2 = p_errs s1) by (unfold s2; destruct (p_fname s1); [destruct (p_value s1)|]; reflexivity).
  eapply (mono_core _ s2); [exact He|].
  apply mono_bind; [apply mono_optional|]. intros comma s3. destruct comma; [apply IH|apply mono_refl_ret; reflexivity].
Qed.

Lemma mono_entry_body b s : mono s (parse_entry_body Capture b s).
Proof.
  unfold parse_entry_body. apply mono_bind; [apply mono_required|]. intros tk s1.
  eapply (mono_core _ (set_key s1 (Some (snd tk)))); [reflexivity|]. apply mono_entry_fields.
Qed.

Lemma mono_string_body s : mono s (parse_string_body Capture s).
Proof.
  unfold parse_string_body. apply mono_bind; [apply mono_required|]. intros tk s1.
  eapply (mono_core _ (set_fname s1 (Some (snd tk)))); [reflexivity|].
  apply mono_bind; [apply mono_required|]. intros x s3.
  apply mono_bind; [apply mono_value|]. intros y s4. apply mono_refl_ret. reflexivity.
Qed.

(* strict vs capture: identical until the first error; then strict raises it *)
Definition first {A} (s : pst) (rs rc : out A) : Prop :=
  match rs with
  | Ret _ s' => rc = rs /\ p_errs s' = p_errs s
  | Exc _ s' => rc = rs /\ p_errs s' = p_errs s
  | Fatal (FErr c l) =>
    match rc with
    | Ret _ s' => exists e, nth_error (p_errs s') (length (p_errs s)) = Some e /\ e_cls e = c /\ e_line e = l
    | Exc _ s' => exists e, nth_error (p_errs s') (length (p_errs s)) = Some e /\ e_cls e = c /\ e_line e = l
    | Fatal _ => True
    end
  | Fatal _ => True
  end.

Lemma first_keep {A} s s1 (r : out A) c l :
  (exists e, nth_error (p_errs s1) (length (p_errs s)) = Some e /\ e_cls e = c /\ e_line e = l) ->
  mono s1 r ->
  match r with
  | Ret _ s' => exists e, nth_error (p_errs s') (length (p_errs s)) = Some e /\ e_cls e = c /\ e_line e = l
  | Exc _ s' => exists e, nth_error (p_errs s') (length (p_errs s)) = Some e /\ e_cls e = c /\ e_line e = l
  | Fatal _ => True
  end.
Proof.
  intros (e & Hn & Hc & Hl) Hm.
  assert (Hlt : (length (p_errs s) < length (p_errs s1))%nat) by (apply nth_error_Some; congruence).
  destruct r as [a s2|e2 s2|f]; cbn in Hm; auto; destruct Hm as [l2 ->]; exists e; rewrite nth_error_app1 by exact Hlt; auto.
Qed.

Lemma first_bind {A B} s (gs gc : out A) (ks kc : A -> pst -> out B) :
  first s gs gc -> (forall a s1, p_errs s1 = p_errs s -> first s1 (ks a s1) (kc a s1)) ->
  (forall a s1, mono s1 (kc a s1)) -> first s (gs >>= ks) (gc >>= kc).
Proof.
  intros Hg Hk Hm. destruct gs as [a s1|e s1|[c l| |]]; cbn in Hg |- *; auto.
  - destruct Hg as [-> He]. cbn. specialize (Hk a s1 He). unfold first in *. rewrite He in Hk.
    destruct (ks a s1) as [b s2|e2 s2|[c l| |]]; auto; destruct Hk as [-> H2]; split; congruence.
  - destruct Hg as [-> He]. cbn. auto.
  - destruct gc as [a s1|e s1|f]; cbn; auto.
    apply (first_keep s s1 (kc a s1) c l Hg (Hm a s1)).
Qed.

Lemma first_same {A} s (r : out A) :
  (forall a s', r = Ret a s' -> p_errs s' = p_errs s) -> (forall e s', r = Exc e s' -> p_errs s' = p_errs s) ->
  (forall f, r <> Fatal f) -> first s r r.
Proof.
  intros H1 H2 H3. destruct r as [a s'|e s'|f]; cbn; [split; [reflexivity|eapply H1; reflexivity]|split; [reflexivity|eapply H2; reflexivity]|].
  exfalso. eapply H3; reflexivity.
Qed.

Lemma first_required ps s : first s (required ps s) (required ps s).
Proof. apply first_same; unfold required; destruct (get_token ps (p_sc s)) as [[| |p v] c]; intros; try discriminate; match goal with H : _ = _ |- _ => inversion H; reflexivity end. Qed.
Lemma first_optional ps s : first s (optional ps s) (optional ps s).
Proof. apply first_same; unfold optional; destruct (get_token ps (p_sc s)) as [[| |p v] c]; intros; try discriminate; match goal with H : _ = _ |- _ => inversion H; reflexivity end. Qed.

Lemma first_core {A} s s0 (rs rc : out A) : p_errs s0 = p_errs s -> first s0 rs rc -> first s rs rc.
Proof. intros He H. unfold first in *. rewrite He in H. destruct rs as [? ?|? ?|[? ?| |]]; auto; destruct H; split; congruence. Qed.

Lemma first_pstring fuel : forall q level acc s, first s (pstring fuel q level acc s) (pstring fuel q level acc s).
Proof.
  induction fuel as [|f IH]; intros q level acc s; cbn [pstring]; [exact I|].
  destruct (skip_to _ (p_sc s)) as [[[v c] c']|]; [|cbn; auto].
  destruct (c =? c_quote); [cbn; auto|].
  destruct (is_lbrace c).
  - destruct (Nat.ltb nest_limit (S level)); [cbn; auto|]. eapply first_core; [|apply IH]. reflexivity.
  - destruct level; [destruct q; cbn; auto|]. eapply first_core; [|apply IH]. reflexivity.
Qed.

Lemma first_handle {B} s e (ks kc : unit -> pst -> out B) : (forall a s1, mono s1 (kc a s1)) ->
  first s (handle_error Strict e s >>= ks) (handle_error Capture e s >>= kc).
Proof.
  intros Hm. cbn [handle_error obind].
  apply (first_keep s (add_err s e) (kc tt (add_err s e)) (e_cls e) (e_line e)); [|apply Hm].
  exists e. cbn. rewrite nth_error_app2 by lia. rewrite Nat.sub_diag. auto.
Qed.

Lemma first_substitute name s : first s (substitute_macro Strict name s) (substitute_macro Capture name s).
Proof.
  unfold substitute_macro. destruct (assoc_get (lower name) (p_macros s)); [cbn; auto|].
  apply first_handle. intros a s1. apply mono_refl_ret. reflexivity.
Qed.

Lemma first_value_part s : first s (parse_value_part Strict s) (parse_value_part Capture s).
Proof.
  unfold parse_value_part. apply first_bind; [apply first_required| |].
  - intros tk s1 _. destruct (fst tk); try apply first_substitute.
    + cbn. auto.
    + apply first_bind; [apply first_pstring| |]; intros; [cbn; auto|apply mono_refl_ret; reflexivity].
  - intros tk s1. destruct (fst tk); try apply mono_substitute.
    + apply mono_refl_ret. reflexivity.
    + apply mono_bind; [apply mono_pstring|]. intros. apply mono_refl_ret. reflexivity.
Qed.

Lemma first_value_loop fuel : forall parts s, first s (parse_value_loop fuel Strict parts s) (parse_value_loop fuel Capture parts s).
Proof.
  induction fuel as [|f IH]; intros parts s; cbn [parse_value_loop]; [exact I|].
  apply first_bind; [apply first_value_part| |].
  - intros part s1 _. apply first_bind; [apply first_optional| |].
    + intros h s2 _. destruct h; [apply IH|cbn; auto].
    + intros h s2. destruct h; [apply mono_value_loop|apply mono_refl_ret; reflexivity].
  - intros part s1. apply mono_bind; [apply mono_optional|]. intros h s2. destruct h; [apply mono_value_loop|apply mono_refl_ret; reflexivity].
Qed.

Lemma first_value s : first s (parse_value Strict s) (parse_value Capture s).
Proof.
  unfold parse_value. apply first_bind; [apply first_value_loop| |]; intros; [cbn; auto|apply mono_refl_ret; reflexivity].
Qed.

Lemma first_field s : first s (parse_field Strict s) (parse_field Capture s).
Proof.
  unfold parse_field. apply first_bind; [apply first_optional| |].
  - intros name s1 _. destruct name as [tk|]; [|cbn; auto].
    eapply (first_core _ (set_fname s1 (Some (snd tk)))); [reflexivity|].
    apply first_bind; [apply first_required| |]; intros; [apply first_value|apply mono_value].
  - intros name s1. destruct name as [tk|]; [|apply mono_refl_ret; reflexivity].
    eapply (mono_core _ (set_fname s1 (Some (snd tk)))); [reflexivity|].
    apply mono_bind; [apply mono_required|]. intros. apply mono_value.
Qed.

Lemma mono_fields_tail fuel s1 :
  mono s1 (let s2 := match p_fname s1, p_value s1 with
                     | Some n, _ :: _ => set_fields s1 (p_fields s1 ++ [(n, p_value s1)])
                     | _, _ => s1 end in
           optional [P_LIT c_comma] s2 >>= fun comma s3 =>
           match comma with None => Ret tt s3 | Some _ => parse_entry_fields fuel Capture s3 end).
Proof.
  cbv zeta.
  set (s2 := match p_fname s1, p_value s1 with
             | Some n, _ :: _ => set_fields s1 (p_fields s1 ++ [(n, p_value s1)])
             | _, _ => s1 end).
  assert (He : p_errs s2 = p_errs s1) by (unfold s2; destruct (p_fname s1); [destruct (p_value s1)|]; reflexivity).
  eapply (mono_core _ s2); [exact He|].
  apply mono_bind; [apply mono_optional|]. intros comma s3. destruct comma; [apply mono_entry_fields|apply mono_refl_ret; reflexivity].
Qed.

Lemma first_entry_fields fuel : forall s, first s (parse_entry_fields fuel Strict s) (parse_entry_fields fuel Capture s).
Proof.
  induction fuel as [|f IH]; intros s; cbn [parse_entry_fields]; [exact I|].
  eapply (first_core _ (set_value (set_fname s None) [])); [reflexivity|].
  apply first_bind; [apply first_field| |].
  - intros u s1 _.
    set (s2 := match p_fname s1, p_value s1 with
               | Some n, _ :: _ => set_fields s1 (p_fields s1 ++ [(n, p_value s1)])
               | _, _ => s1 end).
    assert (He : p_errs s2 = p_errs s1) by (unfold s2; destruct (p_fname s1); [destruct (p_value s1)|]; reflexivity).
    eapply (first_core _ s2); [exact He|].
    apply first_bind; [apply first_optional| |].
    + intros comma s3 _. destruct comma; [apply IH|cbn; auto].
    + intros comma s3. destruct comma; [apply mono_entry_fields|apply mono_refl_ret; reflexivity].
  - intros u s1. apply (mono_fields_tail f s1).
Qed.

Lemma first_entry_body b s : first s (parse_entry_body Strict b s) (parse_entry_body Capture b s).
Proof.
  unfold parse_entry_body. apply first_bind; [apply first_required| |].
  - intros tk s1 _. eapply (first_core _ (set_key s1 (Some (snd tk)))); [reflexivity|]. apply first_entry_fields.
  - intros tk s1. eapply (mono_core _ (set_key s1 (Some (snd tk)))); [reflexivity|]. apply mono_entry_fields.
Qed.

Lemma first_string_body s : first s (parse_string_body Strict s) (parse_string_body Capture s).
Proof.
  unfold parse_string_body. apply first_bind; [apply first_required| |].
  - intros tk s1 _. eapply (first_core _ (set_fname s1 (Some (snd tk)))); [reflexivity|].
    apply first_bind; [apply first_required| |].
    + intros x s3 _. apply first_bind; [apply first_value| |]; intros; [cbn; auto|apply mono_refl_ret; reflexivity].
    + intros x s3. apply mono_bind; [apply mono_value|]. intros. apply mono_refl_ret. reflexivity.
  - intros tk s1. eapply (mono_core _ (set_fname s1 (Some (snd tk)))); [reflexivity|].
    apply mono_bind; [apply mono_required|]. intros x s3. apply mono_bind; [apply mono_value|]. intros. apply mono_refl_ret. reflexivity.
Qed.

Definition command_rest (m : mode) (name bs : pat * str) (s2 : pst) : out (option cmd) :=
  let command := snd name in
  let brace := match fst bs with P_LIT c => c =? c_lbrace | _ => false end in
  let body_end := if brace then c_rbrace else 41 in
  let cl := lower command in
  if str_eqb cl kw_comment then Ret None s2
  else
    let k := if str_eqb cl kw_string then KString else if str_eqb cl kw_preamble then KPreamble else KEntry in
    let body := match k with
                | KString => parse_string_body m s2
                | KPreamble => parse_preamble_body m s2
                | KEntry => parse_entry_body m brace s2
                end in
    match body >>= (fun _ s3 => required [P_LIT body_end] s3) with
    | Ret _ s4 => Ret (Some (make_result k command s4)) s4
    | Exc e s4 => handle_error m e s4 >>= fun _ s5 => Ret (Some (make_result k command s5)) s5
    | Fatal f => Fatal f
    end.

Lemma parse_command_unfold m s0 :
  parse_command m s0 =
  required [P_NAME] (set_value (set_fname (set_fields (set_key s0 None) []) None) []) >>= fun name s1 =>
  required [P_LIT 40; P_LIT c_lbrace] s1 >>= fun bs s2 => command_rest m name bs s2.
Proof. reflexivity. Qed.

Lemma mono_command_rest name bs s2 : mono s2 (command_rest Capture name bs s2).
Proof.
  unfold command_rest. cbv zeta. destruct (str_eqb (lower (snd name)) kw_comment); [apply mono_refl_ret; reflexivity|].
  set (brace := match fst bs with P_LIT c => c =? c_lbrace | _ => false end).
  set (k := if str_eqb (lower (snd name)) kw_string then KString else if str_eqb (lower (snd name)) kw_preamble then KPreamble else KEntry).
  assert (Hb : mono s2 (match k with KString => parse_string_body Capture s2 | KPreamble => parse_preamble_body Capture s2 | KEntry => parse_entry_body Capture brace s2 end
                         >>= (fun _ s3 => required [P_LIT (if brace then c_rbrace else 41)] s3))).
  { apply mono_bind; [destruct k; [apply mono_string_body|apply mono_value|apply mono_entry_body]|]. intros. apply mono_required. }
  destruct (_ >>= _) as [u s4|e s4|f] in Hb |- *; cbn in Hb |- *; auto.
  destruct Hb as [l Hl]. exists (l ++ [e]). rewrite Hl, app_assoc. reflexivity.
Qed.

Lemma mono_command s : mono s (parse_command Capture s).
Proof.
  rewrite parse_command_unfold.
  eapply (mono_core _ (set_value (set_fname (set_fields (set_key s None) []) None) [])); [reflexivity|].
  apply mono_bind; [apply mono_required|]. intros name s1.
  apply mono_bind; [apply mono_required|]. intros bs s2. apply mono_command_rest.
Qed.

Lemma first_command_rest name bs s2 : first s2 (command_rest Strict name bs s2) (command_rest Capture name bs s2).
Proof.
  unfold command_rest. cbv zeta. destruct (str_eqb (lower (snd name)) kw_comment); [cbn; auto|].
  set (brace := match fst bs with P_LIT c => c =? c_lbrace | _ => false end).
  set (k := if str_eqb (lower (snd name)) kw_string then KString else if str_eqb (lower (snd name)) kw_preamble then KPreamble else KEntry).
  assert (Hb : first s2
     (match k with KString => parse_string_body Strict s2 | KPreamble => parse_preamble_body Strict s2 | KEntry => parse_entry_body Strict brace s2 end
        >>= (fun _ s3 => required [P_LIT (if brace then c_rbrace else 41)] s3))
     (match k with KString => parse_string_body Capture s2 | KPreamble => parse_preamble_body Capture s2 | KEntry => parse_entry_body Capture brace s2 end
        >>= (fun _ s3 => required [P_LIT (if brace then c_rbrace else 41)] s3))).
  { apply first_bind.
    - destruct k; [apply first_string_body|apply first_value|apply first_entry_body].
    - intros u s3 _. apply first_required.
    - intros u s3. apply mono_required. }
  destruct (match k with KString => parse_string_body Strict s2 | KPreamble => parse_preamble_body Strict s2 | KEntry => parse_entry_body Strict brace s2 end
              >>= (fun _ s3 => required [P_LIT (if brace then c_rbrace else 41)] s3)) as [u s4|e s4|[c l| |]]; cbn in Hb.
  - destruct Hb as [-> He]. cbn. auto.
  - destruct Hb as [-> He]. cbn. exists e. rewrite <- He. rewrite nth_error_app2 by lia. rewrite Nat.sub_diag. auto.
  - destruct (_ >>= _) as [u s4|e s4|f] in Hb |- *; cbn; auto.
    destruct Hb as (e0 & Hn & Hc & Hl). exists e0. split; [|auto].
    rewrite nth_error_app1; [exact Hn|]. apply nth_error_Some. congruence.
  - exact I.
  - exact I.
Qed.

Lemma first_command s : first s (parse_command Strict s) (parse_command Capture s).
Proof.
  rewrite !parse_command_unfold.
  eapply (first_core _ (set_value (set_fname (set_fields (set_key s None) []) None) [])); [reflexivity|].
  apply first_bind; [apply first_required| |].
  - intros name s1 _. apply first_bind; [apply first_required| |].
    + intros bs s2 _. apply first_command_rest.
    + intros bs s2. apply mono_command_rest.
  - intros name s1. apply mono_bind; [apply mono_required|]. intros bs s2. apply mono_command_rest.
Qed.

(* ---- process side *)
Lemma mono_persons : forall names acc s, mono s (persons_of Capture names acc s).
Proof.
  induction names as [|n r IH]; intros acc s; cbn [persons_of]; [apply mono_refl_ret; reflexivity|].
  destruct (person_of_string n) as [[p rep]|? ?| |]; try exact I.
  apply mono_bind; [destruct rep; [apply mono_handle|apply mono_refl_ret; reflexivity]|]. intros. apply IH.
Qed.

Lemma mono_process_fields : forall fields seen fs ps s, mono s (process_fields Capture fields seen fs ps s).
Proof.
  induction fields as [|[fname parts] rest IH]; intros seen fs ps s; cbn [process_fields]; [apply mono_refl_ret; reflexivity|].
  destruct (existsb (str_eqb (lower fname)) seen).
  - apply mono_bind; [apply mono_handle|]. intros. apply IH.
  - destruct (is_person_field (lower fname)); [|apply IH].
    destruct (split_name_list (normalize_whitespace (concat parts))); try exact I.
    apply mono_bind; [apply mono_persons|]. intros. apply IH.
Qed.

Lemma mono_add_entry key typ fs ps d s : mono s (add_entry Capture key typ fs ps d s).
Proof.
  unfold add_entry. destruct (existsb _ (db_entries d)); [|apply mono_refl_ret; reflexivity].
  apply mono_bind; [apply mono_handle|]. intros. apply mono_refl_ret. reflexivity.
Qed.

Lemma mono_process c d s : mono s (process Capture c d s).
Proof.
  destruct c as [n f v|n v|typ key fields]; cbn [process]; try (apply mono_refl_ret; reflexivity).
  unfold process_entry. destruct (match key with Some k => (k, d) | None => _ end) as [k d1].
  apply mono_bind; [apply mono_process_fields|]. intros. apply mono_add_entry.
Qed.

Lemma first_persons : forall names acc s, first s (persons_of Strict names acc s) (persons_of Capture names acc s).
Proof.
  induction names as [|n r IH]; intros acc s; cbn [persons_of]; [cbn; auto|].
  destruct (person_of_string n) as [[p rep]|c l| |]; try exact I.
  destruct rep.
  - apply first_handle. intros. apply mono_persons.
  - cbn [obind]. apply IH.
Qed.

Lemma first_process_fields : forall fields seen fs ps s,
  first s (process_fields Strict fields seen fs ps s) (process_fields Capture fields seen fs ps s).
Proof.
  induction fields as [|[fname parts] rest IH]; intros seen fs ps s; cbn [process_fields]; [cbn; auto|].
  destruct (existsb (str_eqb (lower fname)) seen).
  - apply first_handle. intros. apply mono_process_fields.
  - destruct (is_person_field (lower fname)); [|apply IH].
    destruct (split_name_list (normalize_whitespace (concat parts))); try exact I.
    apply first_bind; [apply first_persons| |]; intros; [apply IH|apply mono_process_fields].
Qed.

Lemma first_process c d s : first s (process Strict c d s) (process Capture c d s).
Proof.
  destruct c as [n f v|n v|typ key fields]; cbn [process]; try (cbn; auto; fail).
  unfold process_entry. destruct (match key with Some k => (k, d) | None => _ end) as [k d1].
  apply first_bind; [apply first_process_fields| |].
  - intros r s1 _. unfold add_entry. destruct (existsb _ (db_entries d1)); [|cbn; auto].
    apply first_handle. intros. apply mono_refl_ret. reflexivity.
  - intros. apply mono_add_entry.
Qed.

Lemma mono_bib_loop : forall fuel d s, mono s (bib_loop process fuel Capture d s).
Proof.
  induction fuel as [|f IH]; intros d s; cbn [bib_loop]; [exact I|].
  destruct (skip_to _ (p_sc s)) as [[[v c] c']|]; [|apply mono_refl_ret; reflexivity].
  set (s1 := set_cstart (set_sc s c') (sc_pos c' - 1)).
  eapply (mono_core _ s1); [reflexivity|].
  pose proof (mono_command s1) as Hc.
  destruct (parse_command Capture s1) as [[c0|] s2|e s2|x]; cbn in Hc; auto.
  - eapply mono_trans; [exact Hc|]. apply mono_bind; [apply mono_process|]. intros. apply IH.
  - eapply mono_trans; [exact Hc|]. apply IH.
  - eapply mono_trans; [exact Hc|]. apply mono_bind; [apply mono_handle|]. intros. apply IH.
Qed.

Lemma first_bib_loop : forall fuel d s, first s (bib_loop process fuel Strict d s) (bib_loop process fuel Capture d s).
Proof.
  induction fuel as [|f IH]; intros d s; cbn [bib_loop]; [exact I|].
  destruct (skip_to _ (p_sc s)) as [[[v c] c']|]; [|cbn; auto].
  set (s1 := set_cstart (set_sc s c') (sc_pos c' - 1)).
  eapply (first_core _ s1); [reflexivity|].
  pose proof (first_command s1) as Hc.
  destruct (parse_command Strict s1) as [[c0|] s2|e s2|[cc ll| |]]; cbn in Hc.
  - destruct Hc as [-> He]. eapply (first_core _ s2); [exact He|].
    apply first_bind; [apply first_process| |]; intros; [apply IH|apply mono_bib_loop].
  - destruct Hc as [-> He]. eapply (first_core _ s2); [exact He|]. apply IH.
  - destruct Hc as [-> He]. eapply (first_core _ s2); [exact He|].
    apply first_handle. intros. apply mono_bib_loop.
  - destruct (parse_command Capture s1) as [[c0|] s2|e s2|x]; auto.
    + apply (first_keep s1 s2 _ cc ll Hc). apply mono_bind; [apply mono_process|]. intros. apply mono_bib_loop.
    + apply (first_keep s1 s2 _ cc ll Hc). apply mono_bib_loop.
    + apply (first_keep s1 s2 _ cc ll Hc). apply mono_bind; [apply mono_handle|]. intros. apply mono_bib_loop.
  - exact I.
  - exact I.
Qed.

(* STRICT RAISES FIRST *)
Lemma strict_raises_first_lemma text c l d s :
  parse_bib Strict text = Fatal (FErr c l) -> parse_bib Capture text = Ret d s ->
  exists e rest, p_errs s = e :: rest /\ e_cls e = c /\ e_line e = l.
Proof.
  intros Hs Hc. unfold parse_bib in *.
  pose proof (first_bib_loop (S (length text)) db_init (pst_init text month_macros)) as H.
  rewrite Hs, Hc in H. cbn in H. destruct H as (e & Hn & H1 & H2).
  destruct (p_errs s) as [|e0 rest]; [discriminate|]. cbn in Hn. injection Hn as ->. eauto.
Qed.

Lemma strict_no_error text d s : parse_bib Capture text = Ret d s -> p_errs s = [] -> parse_bib Strict text = Ret d s.
Proof.
  intros Hc He.
  destruct (Proofs.BibParser.parse_bib_total_all Strict text) as (H1 & H2 & H3).
  destruct (parse_bib Strict text) as [d' s'|e s'|[c l| |]] eqn:E; try congruence.
  - destruct (strict_success text d' s' E) as [Hc' _]. congruence.
  - destruct (strict_raises_first_lemma text c l d s E Hc) as (e & rest & Hx & _). congruence.
Qed.
