(* Proofs/CharFacts.v -- the character classes of the token patterns are disjoint where the
   grammar needs them to be *)
From Pybtex Require Import Base.Prelude Base.PyChar Base.PyStr Model.Scanner.
Local Open Scope N_scope.

Lemma name_char_small c : is_name_char c = true -> c < 128.
Proof.
  intros H. destruct (N.ltb_spec c 128) as [Hlt|Hge]; [assumption|]. exfalso.
  unfold is_name_char, is_name_start, is_alpha, is_upper, is_lower, is_digit in H. cbn [existsb] in H.
  repeat match type of H with
  | context [c <=? ?k] => replace (c <=? k) with false in H by (symmetry; apply N.leb_gt; lia)
  | context [c =? ?k] => replace (c =? k) with false in H by (symmetry; apply N.eqb_neq; lia)
  end.
  rewrite ?andb_false_r in H. cbn in H. discriminate.
Qed.

Lemma small_table (P : N -> bool) : forallb P (map N.of_nat (seq 0 128)) = true -> forall c, c < 128 -> P c = true.
Proof.
  intros H c Hc. rewrite forallb_forall in H. apply H.
  rewrite <- (N2Nat.id c). apply in_map. apply in_seq. lia.
Qed.

Lemma name_char_not_space c : is_name_char c = true -> is_space c = false.
Proof.
  intros H. pose proof (small_table (fun c => implb (is_name_char c) (negb (is_space c))) ltac:(vm_compute; reflexivity) c (name_char_small c H)) as T.
  cbn beta in T. rewrite H in T. cbn in T. destruct (is_space c); [discriminate|reflexivity].
Qed.
Lemma space_not_name_char c : is_space c = true -> is_name_char c = false.
Proof. intros H. destruct (is_name_char c) eqn:E; [|reflexivity]. rewrite (name_char_not_space c E) in H. discriminate. Qed.

Lemma name_start_not_digit c : is_name_start c = true -> is_digit c = false.
Proof.
  intros H. assert (Hn : is_name_char c = true) by (unfold is_name_char; rewrite H; reflexivity).
  pose proof (small_table (fun c => implb (is_name_start c) (negb (is_digit c))) ltac:(vm_compute; reflexivity) c (name_char_small c Hn)) as T.
  cbn beta in T. rewrite H in T. cbn in T. destruct (is_digit c); [discriminate|reflexivity].
Qed.

Lemma digit_is_name_char c : is_digit c = true -> is_name_char c = true.
Proof. intros H. unfold is_name_char. rewrite H. apply orb_true_r. Qed.
Lemma not_name_char_not_digit c : is_name_char c = false -> is_digit c = false.
Proof. intros H. destruct (is_digit c) eqn:E; [|reflexivity]. rewrite (digit_is_name_char c E) in H. discriminate. Qed.

(* a name character is none of the punctuation characters of the grammar *)
Lemma name_char_not c k : is_name_char k = false -> is_name_char c = true -> (c =? k) = false.
Proof. intros Hk Hc. apply N.eqb_neq. intros ->. congruence. Qed.
