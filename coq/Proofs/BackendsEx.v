(* Proofs/BackendsEx.v -- concrete tables and a tree used by the non-vacuity Examples of Props/C09.v *)
From Pybtex Require Import Base.Prelude Base.PyChar Base.PyStr Model.RtTypes Model.Backends.
Local Open Scope N_scope.

Definition ex_enc : enc_table :=
  [(35, (lit "\#", false)); (37, (lit "\%", false)); (38, (lit "\&", false)); (95, (lit "\_", false));
   (126, (lit "\textasciitilde", true))].

Definition ex_latex : tables :=
  mkTables [(lit "ndash", lit "--"); (lit "newblock", 10 :: lit "\newblock "); (lit "nbsp", lit "~")]
           [(lit "em", Some (lit "emph")); (lit "strong", None); (lit "b", Some (lit "textbf"))] markdown_escapable.

Definition ex_html : tables :=
  mkTables [(lit "ndash", lit "&ndash;"); (lit "newblock", [10]); (lit "nbsp", lit "&nbsp;")] [] markdown_escapable.

Definition ex_tree : rt :=
  RText [RStr (lit "a<b & {c}~"); RTag (lit "em") [RStr (lit "x_"); RProt [RStr (lit "Y")]];
         RSym (lit "nbsp"); RHRef (lit "http://x.org/a_b") true [RStr (lit "z")]; RTag (lit "strong") [RStr []]].

Definition ex_md : tables :=
  mkTables [(lit "ndash", lit "&ndash;"); (lit "newblock", [10]); (lit "nbsp", lit " ")]
           [(lit "em", Some (lit "*")); (lit "strong", Some (lit "**")); (lit "tt", Some (lit "`"))] markdown_escapable.

