(* Proofs/Utf8.v -- the UTF-8 codec of Model/EntryPoints.v decodes what it encoded: the codec
   hypotheses of entry_points_agree hold of the default encoding for every text. *)
From Pybtex Require Import Base.Prelude Base.PyChar Base.PyStr Model.Plugins Model.IO Model.EntryPoints.
Open Scope N_scope.

Ltac divmod c k :=
  let H1 := fresh "Hdm" in let H2 := fresh "Hlt" in
  assert (H1 := N.div_mod c k ltac:(discriminate));
  assert (H2 := N.mod_lt c k ltac:(discriminate));
  let q := fresh "q" in let r := fresh "r" in
  set (q := c / k) in *; set (r := c mod k) in *; clearbody q r.

(* settle the test of the head "if" by arithmetic *)
Ltac to_prop := repeat match goal with
  | H : andb _ _ = true |- _ => apply andb_prop in H; destruct H
  | H : N.leb _ _ = true |- _ => apply N.leb_le in H
  | H : N.ltb _ _ = true |- _ => apply N.ltb_lt in H
  | H : N.eqb _ _ = true |- _ => apply N.eqb_eq in H
  end.
Ltac prove_true := repeat (apply andb_true_intro; split); first [apply N.leb_le | apply N.ltb_lt | apply N.eqb_eq]; lia.
Ltac prove_false := apply not_true_is_false; let HH := fresh in intros HH; to_prop; lia.
Ltac settle := match goal with
 | |- (if ?t then _ else _) = _ =>
   first [ replace t with true by (symmetry; prove_true) | replace t with false by (symmetry; prove_false) ]
 end.
Ltac split_eqb := match goal with
 | |- context [N.eqb ?a ?b] => destruct (N.eqb_spec a b); cbv beta iota
 end.

Lemma some_inj {X} (a b : X) : Some a = Some b -> a = b.
Proof. congruence. Qed.

(* (no injection / inversion on the byte lists: they would normalise the arithmetic) *)
Lemma utf8_step_roundtrip c a rest :
  utf8_enc_char c = Some a -> exists b0 t, a = b0 :: t /\ utf8_step b0 (t ++ rest) = Some (c, rest).
Proof.
  unfold utf8_enc_char.
  destruct (N.ltb_spec c 128) as [L1|L1].
  { intros E. apply some_inj in E. subst a. eexists _, _. split; [reflexivity|].
    unfold utf8_step. settle. reflexivity. }
  destruct (N.ltb_spec c 2048) as [L2|L2].
  { intros E. apply some_inj in E. subst a. eexists _, _. split; [reflexivity|].
    cbn [app]. divmod c 64. unfold utf8_step, is_cont. repeat settle.
    do 2 f_equal. lia. }
  destruct (N.ltb_spec c 65536) as [L3|L3].
  { destruct (N.leb 55296 c && N.leb c 57343) eqn:SG; [discriminate|].
    assert (NS : c < 55296 \/ 57343 < c).
    { destruct (N.leb_spec 55296 c); destruct (N.leb_spec c 57343); cbn in SG; try discriminate; lia. }
    intros E. apply some_inj in E. subst a. eexists _, _. split; [reflexivity|]. cbn [app].
    replace (c / 4096) with ((c / 64) / 64) by (rewrite N.div_div by discriminate; reflexivity).
    divmod c 64. divmod q 64. unfold utf8_step, is_cont. do 3 settle.
    repeat split_eqb; settle; do 2 f_equal; lia. }
  destruct (N.ltb_spec c 1114112) as [L4|L4]; [|discriminate].
  intros E. apply some_inj in E. subst a. eexists _, _. split; [reflexivity|]. cbn [app].
  replace (c / 262144) with (((c / 64) / 64) / 64) by (rewrite !N.div_div by discriminate; reflexivity).
  replace (c / 4096) with ((c / 64) / 64) by (rewrite N.div_div by discriminate; reflexivity).
  divmod c 64. divmod q 64. divmod q0 64. unfold utf8_step, is_cont. do 4 settle.
  repeat split_eqb; settle; do 2 f_equal; lia.
Qed.

Lemma utf8_char_roundtrip c a rest f :
  utf8_enc_char c = Some a ->
  utf8_dec_aux (S f) (a ++ rest) = option_map (cons c) (utf8_dec_aux f rest).
Proof.
  intros E. destruct (utf8_step_roundtrip c a rest E) as (b0 & t & -> & H).
  cbn [app utf8_dec_aux]. now rewrite H.
Qed.

Lemma utf8_enc_char_length c a : utf8_enc_char c = Some a -> (1 <= length a)%nat.
Proof.
  unfold utf8_enc_char.
  repeat match goal with |- context [if ?b then _ else _] => destruct b end;
    intros [= <-]; cbn; lia.
Qed.

Lemma utf8_roundtrip_fuel s : forall b fuel,
  utf8_enc s = Some b -> (length b <= fuel)%nat -> utf8_dec_aux fuel b = Some s.
Proof.
  induction s as [|c s IH]; intros b fuel E L.
  - cbn in E. inversion E; subst. destruct fuel; reflexivity.
  - cbn [utf8_enc] in E. destruct (utf8_enc_char c) as [a|] eqn:Ec; [|discriminate].
    destruct (utf8_enc s) as [b'|] eqn:Es; [|discriminate]. inversion E; subst b.
    pose proof (utf8_enc_char_length c a Ec) as La. rewrite app_length in L.
    destruct fuel as [|f]; [lia|].
    rewrite (utf8_char_roundtrip c a b' f Ec), (IH b' f eq_refl) by lia. reflexivity.
Qed.

Close Scope N_scope.

(* str.encode('utf-8') then bytes.decode('utf-8') -- and reading a UTF-8 text file -- is the
   identity on everything that can be encoded *)
Lemma utf8_roundtrip s b : enc codec_utf8 s = Some b -> dec codec_utf8 b = Some s /\ fdec codec_utf8 b = FText s.
Proof.
  cbn. intros E. unfold fdec_of_dec. rewrite (utf8_roundtrip_fuel s b (length b) E (le_n _)). auto.
Qed.

(* hence, for the default encoding, the entry points agree on every text that can be encoded at
   all (everything but lone surrogates), for every plug-in and parser state -- no codec hypothesis *)
From Pybtex Require Import Proofs.EntryPoints.
Lemma utf8_entry_points_agree db ps u s b data :
  enc codec_utf8 s = Some b ->
  parse_bytes db ps codec_utf8 u b data = parse_string db ps codec_utf8 u s data /\
  parse_file db ps codec_utf8 u (FStream (own_stream u s b)) data = parse_string db ps codec_utf8 u s data /\
  parse_file db ps codec_utf8 u (FOpened b) data
    = parse_string db ps codec_utf8 u (if u then universal_newlines s else s) data.
Proof.
  intros E. destruct (utf8_roundtrip s b E) as [D F]. now apply entry_points_agree.
Qed.

Lemma utf8_to_bytes_is_encoded_to_string wd ws d t :
  to_string wd ws codec_utf8 true d = Ok t ->
  to_bytes wd ws codec_utf8 true d = match enc codec_utf8 t with Some b => Ok b | None => Crash end.
Proof. apply to_bytes_is_encoded_to_string. discriminate. Qed.
