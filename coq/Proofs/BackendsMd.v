(* Proofs/BackendsMd.v -- Markdown escaping (property C09) *)
From Pybtex Require Import Base.Prelude Base.PyChar Base.PyStr Model.RtTypes Model.Backends.
Local Open Scope N_scope.

Definition mem (c : char) (l : list char) : bool := existsb (N.eqb c) l.

Lemma mem_In c l : mem c l = true <-> In c l.
Proof.
  unfold mem. rewrite existsb_exists. split.
  - intros [x [Hx E]]. apply N.eqb_eq in E. subst. assumption.
  - intros H. exists c. split; [assumption|apply N.eqb_refl].
Qed.

Lemma mem_false_In c l : mem c l = false <-> ~ In c l.
Proof. rewrite <- mem_In. destruct (mem c l); split; congruence. Qed.

(* one simultaneous pass: every character satisfying P gets a backslash *)
Definition esc_by (P : char -> bool) (s : str) : str :=
  flat_map (fun c => if P c then [c_bslash; c] else [c]) s.

(* the specification: a backslash before exactly the characters of the table *)
Definition md_escape (sc : list char) (s : str) : str := esc_by (fun c => mem c sc) s.

Lemma flat_map_flat_map {X Y Z} (f : X -> list Y) (g : Y -> list Z) l :
  flat_map g (flat_map f l) = flat_map (fun x => flat_map g (f x)) l.
Proof.
  induction l as [|x l IH]; cbn [flat_map]; [reflexivity|].
  rewrite flat_map_app, IH. reflexivity.
Qed.

Lemma replace_char_flat_map {X} c new (f : X -> str) l :
  replace_char c new (flat_map f l) = flat_map (fun x => replace_char c new (f x)) l.
Proof. unfold replace_char. apply flat_map_flat_map. Qed.

(* one step of the loop on a text that is already escaped for P *)
Lemma md_step P c s :
  P c_bslash = true -> P c = false ->
  replace_char c [c_bslash; c] (esc_by P s) = esc_by (fun x => P x || (x =? c)) s.
Proof.
  intros Hbs Hc. unfold esc_by. rewrite replace_char_flat_map.
  apply flat_map_ext. intros x.
  assert (Hne : (c_bslash =? c) = false).
  { destruct (N.eqb_spec c_bslash c) as [E|E]; [|reflexivity]. congruence. }
  destruct (P x) eqn:Px.
  - cbn [orb]. unfold replace_char. cbn [flat_map]. rewrite Hne.
    assert (Hxc : (x =? c) = false).
    { destruct (N.eqb_spec x c) as [E|E]; [|reflexivity]. congruence. }
    rewrite Hxc. reflexivity.
  - cbn [orb]. unfold replace_char. cbn [flat_map].
    destruct (x =? c) eqn:Exc; [|reflexivity].
    apply N.eqb_eq in Exc. subst. reflexivity.
Qed.

Lemma md_loop_inv todo : forall P s,
  P c_bslash = true -> NoDup todo -> (forall c, In c todo -> P c = false) ->
  md_replace_loop todo (esc_by P s) = esc_by (fun x => P x || mem x todo) s.
Proof.
  induction todo as [|c todo IH]; intros P s Hbs Hnd Hfresh.
  - cbn. unfold esc_by. apply flat_map_ext. intros x. cbn. rewrite orb_false_r. reflexivity.
  - unfold md_replace_loop. cbn [fold_left]. fold (md_replace_loop todo).
    rewrite md_step; [|assumption|apply Hfresh; left; reflexivity].
    inversion Hnd as [|? ? Hnin Hnd']; subst.
    rewrite IH.
    + unfold esc_by. apply flat_map_ext. intros x. unfold mem. cbn [existsb].
      rewrite orb_assoc. reflexivity.
    + rewrite Hbs. reflexivity.
    + assumption.
    + intros d Hd. rewrite (Hfresh d (or_intror Hd)). cbn [orb].
      destruct (N.eqb_spec d c) as [E|E]; [|reflexivity]. subst. contradiction.
Qed.

(* the sequential replace loop equals ONE simultaneous pass, because the backslash comes first
   (and no character is listed twice) *)
Lemma md_replace_loop_spec rest s :
  ~ In c_bslash rest -> NoDup rest ->
  md_replace_loop (c_bslash :: rest) s = md_escape (c_bslash :: rest) s.
Proof.
  intros Hnin Hnd. unfold md_replace_loop. cbn [fold_left]. fold (md_replace_loop rest).
  assert (H0 : replace_char c_bslash [c_bslash; c_bslash] s = esc_by (fun x => x =? c_bslash) s).
  { unfold replace_char, esc_by. apply flat_map_ext. intros x.
    destruct (x =? c_bslash) eqn:E; [|reflexivity]. apply N.eqb_eq in E. subst. reflexivity. }
  rewrite H0, md_loop_inv.
  - unfold md_escape, esc_by. apply flat_map_ext. intros x. unfold mem. cbn [existsb]. reflexivity.
  - reflexivity.
  - assumption.
  - intros c Hc. destruct (N.eqb_spec c c_bslash) as [E|E]; [|reflexivity]. subst. contradiction.
Qed.

(* table shape, decidable: backslash first, not repeated, no duplicates *)
Fixpoint nodup_b (l : list char) : bool :=
  match l with [] => true | c :: r => negb (mem c r) && nodup_b r end.
Lemma nodup_b_sound l : nodup_b l = true -> NoDup l.
Proof.
  induction l as [|c r IH]; cbn [nodup_b]; intros H; [constructor|].
  apply andb_prop in H as [H1 H2]. constructor; [|auto].
  apply mem_false_In. destruct (mem c r); [discriminate|reflexivity].
Qed.
Definition md_table_shape (sc : list char) : bool :=
  match sc with c :: rest => (c =? c_bslash) && nodup_b sc | [] => false end.

Lemma md_table_shape_sound sc : md_table_shape sc = true ->
  exists rest, sc = c_bslash :: rest /\ ~ In c_bslash rest /\ NoDup rest.
Proof.
  destruct sc as [|c rest]; cbn [md_table_shape]; [discriminate|].
  intros H. apply andb_prop in H as [H1 H2]. apply N.eqb_eq in H1. subst.
  apply nodup_b_sound in H2. inversion H2; subst. eauto.
Qed.

Lemma format_str_md_spec enc T s : md_table_shape (t_special T) = true ->
  format_str enc T BMarkdown s = md_escape (t_special T) (xml_escape s).
Proof.
  intros H. apply md_table_shape_sound in H as [rest [E [H1 H2]]].
  cbn [format_str]. unfold format_str_md. rewrite E. apply md_replace_loop_spec; assumption.
Qed.

(* ---- un-escaping: the Markdown reader's view of the output ---- *)
(* md_unescape sc s: read s as Markdown text; a backslash followed by an escapable character is
   that character; an escapable character that is NOT escaped would act as markup: None *)
Fixpoint md_unescape (sc : list char) (s : str) : option str :=
  match s with
  | [] => Some []
  | c :: r =>
    if c =? c_bslash then
      match r with
      | d :: r' => if mem d sc then option_map (cons d) (md_unescape sc r') else None
      | [] => None
      end
    else if mem c sc then None
    else option_map (cons c) (md_unescape sc r)
  end.

Lemma md_unescape_escape sc s : mem c_bslash sc = true -> md_unescape sc (md_escape sc s) = Some s.
Proof.
  intros Hbs. induction s as [|c s IH]; [reflexivity|].
  unfold md_escape, esc_by in *. cbn [flat_map].
  destruct (mem c sc) eqn:Ec.
  - cbn [app md_unescape]. rewrite N.eqb_refl, Ec, IH. reflexivity.
  - cbn [app md_unescape].
    assert (Hne : (c =? c_bslash) = false).
    { destruct (N.eqb_spec c c_bslash) as [E|E]; [|reflexivity]. congruence. }
    rewrite Hne, Ec, IH. reflexivity.
Qed.

Lemma md_unescape_inverse_holds enc T s : md_table_shape (t_special T) = true ->
  md_unescape (t_special T) (format_str enc T BMarkdown s) = Some (xml_escape s).
Proof.
  intros H. rewrite format_str_md_spec by assumption. apply md_unescape_escape.
  apply md_table_shape_sound in H as [rest [E _]]. rewrite E. unfold mem. cbn [existsb].
  rewrite N.eqb_refl. reflexivity.
Qed.

(* the table of the Markdown back end as the property fixes it *)
Lemma markdown_escapable_shape : md_table_shape markdown_escapable = true.
Proof. vm_compute. reflexivity. Qed.

(* two tables with the same members escape the same characters *)
Definition same_set (a b : list char) : bool :=
  forallb (fun c => mem c b) a && forallb (fun c => mem c a) b.

Lemma same_set_mem a b : same_set a b = true -> forall c, mem c a = mem c b.
Proof.
  unfold same_set. intros H c. apply andb_prop in H as [H1 H2].
  rewrite forallb_forall in H1, H2.
  destruct (mem c a) eqn:Ea.
  - apply mem_In in Ea. symmetry. apply H1. exact Ea.
  - destruct (mem c b) eqn:Eb; [|reflexivity].
    apply mem_In in Eb. apply H2 in Eb. congruence.
Qed.

Lemma md_escape_same_set a b s : same_set a b = true -> md_escape a s = md_escape b s.
Proof.
  intros H. unfold md_escape, esc_by. apply flat_map_ext. intros c.
  rewrite (same_set_mem a b H). reflexivity.
Qed.

(* the live table, once shown to be the property's set with the backslash first, escapes exactly
   the fifteen characters of the Markdown syntax document *)
Lemma format_str_md_exact enc T s :
  md_table_shape (t_special T) = true -> same_set (t_special T) markdown_escapable = true ->
  format_str enc T BMarkdown s = md_escape markdown_escapable (xml_escape s).
Proof.
  intros H1 H2. rewrite format_str_md_spec by assumption. apply md_escape_same_set. exact H2.
Qed.
