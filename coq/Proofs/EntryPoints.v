(* Proofs/EntryPoints.v -- the reader / writer entry points of Model/EntryPoints.v are the same
   function up to the codec. *)
From Pybtex Require Import Base.Prelude Base.PyChar Base.PyStr Model.Plugins Model.IO Model.EntryPoints.

Lemma universal_newlines_id s : ~ In 13%N s -> universal_newlines s = s.
Proof.
  induction s as [|c s IH]; [reflexivity|]. intros H. cbn [universal_newlines].
  destruct (N.eqb_spec c 13) as [->|N].
  - exfalso. apply H. now left.
  - f_equal. apply IH. intros I. apply H. now right.
Qed.

Section Reader.
  Variable db : Type.
  Variable ps : stream -> db -> res db.
  Variable cd : codec.
  Variable u : bool.

  (* the stream kind the plug-in's own parse_file would open *)
  Definition own_stream (s b : str) : stream := if u then SText s else SBytes b.

  (* the string, bytes, stream and file entry points agree for every plug-in, every text the
     codec can represent, every parser state *)
  Lemma entry_points_agree s b data :
    enc cd s = Some b -> dec cd b = Some s -> fdec cd b = FText s ->
    parse_bytes db ps cd u b data = parse_string db ps cd u s data /\
    parse_file db ps cd u (FStream (own_stream s b)) data = parse_string db ps cd u s data /\
    parse_file db ps cd u (FOpened b) data
      = parse_string db ps cd u (if u then universal_newlines s else s) data.
  Proof.
    intros E D F. unfold parse_bytes, parse_string, parse_file, own_stream.
    destruct u; rewrite ?E, ?D, ?F; repeat split; reflexivity.
  Qed.

  (* without carriage returns (or for a bytes-oriented plug-in) the named file is no exception *)
  Lemma entry_points_agree_file s b data :
    enc cd s = Some b -> dec cd b = Some s -> fdec cd b = FText s -> (u = true -> ~ In 13%N s) ->
    parse_file db ps cd u (FOpened b) data = parse_string db ps cd u s data.
  Proof.
    intros E D F C. destruct (entry_points_agree s b data E D F) as (_ & _ & ->).
    destruct u; [|reflexivity]. now rewrite universal_newlines_id by auto.
  Qed.

  (* a file that cannot be opened is a pybtex error, whatever the plug-in *)
  Lemma parse_file_open_error data : parse_file db ps cd u FOpenErr data = PyErr cls_pybtex (-1).
  Proof. reflexivity. Qed.

  (* parse_files is parse_file folded over one parser object *)
  Lemma parse_files_app fs gs data :
    parse_files db ps cd u (fs ++ gs) data
    = (do d <- parse_files db ps cd u fs data; parse_files db ps cd u gs d).
  Proof.
    revert data. induction fs as [|f fs IH]; intros data; cbn; [reflexivity|].
    destruct (parse_file db ps cd u f data); cbn; auto.
  Qed.
End Reader.

Section Writer.
  Variable wd : Type.
  Variable ws : bool -> wd -> res (list str).
  Variable cd : codec.
  Variable u : bool.

  (* to_bytes is the to_string document encoded.  For a bytes-oriented writer (unicode_io =
     False) to_string is the *decoded* output, and the statement needs the codec to re-encode
     what it decoded (true of utf-8, latin-1, ascii; not of a BOM-less utf-16 stream). *)
  Lemma to_bytes_is_encoded_to_string d t :
    (u = false -> forall b t', dec cd b = Some t' -> enc cd t' = Some b) ->
    to_string wd ws cd u d = Ok t ->
    to_bytes wd ws cd u d = match enc cd t with Some b => Ok b | None => Crash end.
  Proof.
    intros RT. unfold to_string, to_bytes, to_string_or_bytes. destruct (ws u d) as [cs| | |]; cbn; try discriminate.
    destruct u.
    - intros [= ->]. reflexivity.
    - destruct (dec cd (concat cs)) as [t'|] eqn:D; [|discriminate]. intros [= ->].
      now rewrite (RT eq_refl (concat cs) t D).
  Qed.

  (* writing to a named file writes exactly the to_bytes bytes (and returns None) -- provided
     the writer writes something, or encoding the empty text gives no bytes (no byte-order mark) *)
  Lemma write_file_writes_to_bytes_partial d :
    (u = true -> ws true d = Ok [] -> enc cd [] = Some []) ->
    write_file wd ws cd u d WOpened
    = (do b <- to_bytes wd ws cd u d; Ok (None, Some (SBytes b))).
  Proof.
    intros H. unfold write_file, to_bytes, to_string_or_bytes, text_file_bytes.
    destruct u.
    - destruct (ws true d) as [cs| | |] eqn:E; cbn; try reflexivity.
      destruct cs as [|c cs]; [|destruct (enc cd (concat (c :: cs))); reflexivity].
      cbn. now rewrite (H eq_refl eq_refl).
    - destruct (ws false d) as [cs| | |]; reflexivity.
  Qed.

  (* an unopenable destination is a pybtex error, whatever the plug-in and the data *)
  Lemma write_file_open_error d : write_file wd ws cd u d WOpenErr = PyErr cls_pybtex (-1).
  Proof. reflexivity. Qed.

  (* a caller's stream of the writer's own kind receives the to_string_or_bytes document *)
  Lemma write_file_stream d :
    write_file wd ws cd u d (WStream u)
    = (do r <- to_string_or_bytes wd ws u d;
       let s := if u then SText r else SBytes r in Ok (Some s, Some s)).
  Proof. unfold write_file, to_string_or_bytes. destruct (ws u d); reflexivity. Qed.
End Writer.

(* ---- choosing the format from the file suffix equals naming it: the module-level functions
   depend on (format name, file name) only through the class find_plugin returns ---- *)
Section Module.
  Variable db : Type.
  Variable plugins : klass -> option (plugin db).
  Variable r : rt.
  Variable inst : eps.
  Variable df : dflts.
  Variable cd : codec.
  Variable empty : db.

  Lemma suffix_equals_name_read f fname n :
    find_plugin r inst df g_input NNone (Some fname) = find_plugin r inst df g_input (NStr n) (Some fname) ->
    db_parse_file db plugins r inst df cd empty f (Some fname) NNone
    = db_parse_file db plugins r inst df cd empty f (Some fname) (NStr n).
  Proof. intros H. unfold db_parse_file, instantiate. now rewrite H. Qed.

  Lemma suffix_equals_name_write d dst fname n :
    find_plugin r inst df g_output NNone (Some fname) = find_plugin r inst df g_output (NStr n) (Some fname) ->
    db_to_file db plugins r inst df cd d dst (Some fname) NNone
    = db_to_file db plugins r inst df cd d dst (Some fname) (NStr n).
  Proof. intros H. unfold db_to_file, instantiate. now rewrite H. Qed.

  (* the module-level string / bytes / file readers agree as the methods do *)
  Lemma db_entry_points_agree s b fmt :
    enc cd s = Some b -> dec cd b = Some s -> fdec cd b = FText s -> ~ In 13%N s ->
    db_parse_bytes db plugins r inst df cd empty b fmt = db_parse_string db plugins r inst df cd empty s fmt /\
    (forall fname, find_plugin r inst df g_input fmt fname = find_plugin r inst df g_input fmt None ->
       db_parse_file db plugins r inst df cd empty (FOpened b) fname fmt
       = db_parse_string db plugins r inst df cd empty s fmt).
  Proof.
    intros E D F C. unfold db_parse_bytes, db_parse_string, db_parse_file, instantiate. split.
    - destruct (find_plugin r inst df g_input fmt None) as [k| | |]; cbn; try reflexivity.
      destruct (plugins k) as [p|]; cbn; [|reflexivity].
      now destruct (entry_points_agree db (p_ps p) cd (p_unicode p) s b empty E D F) as (-> & _).
    - intros fname ->. destruct (find_plugin r inst df g_input fmt None) as [k| | |]; cbn; try reflexivity.
      destruct (plugins k) as [p|]; cbn; [|reflexivity].
      apply entry_points_agree_file; auto.
  Qed.

  Lemma db_to_bytes_is_encoded_to_string d fmt t :
    (forall b t', dec cd b = Some t' -> enc cd t' = Some b) ->
    db_to_string db plugins r inst df cd d fmt = Ok t ->
    db_to_bytes db plugins r inst df cd d fmt = match enc cd t with Some b => Ok b | None => Crash end.
  Proof.
    intros RT. unfold db_to_string, db_to_bytes, instantiate.
    destruct (find_plugin r inst df g_output fmt None) as [k| | |]; cbn; try discriminate.
    destruct (plugins k) as [p|]; cbn; [|discriminate].
    apply to_bytes_is_encoded_to_string. intros _. exact RT.
  Qed.
End Module.

(* ---- the concrete codecs of the runner: Latin-1 and ASCII satisfy the hypotheses ---- *)
Lemma latin1_roundtrip s b : enc codec_latin1 s = Some b -> dec codec_latin1 b = Some s.
Proof. cbn. destruct (all_below 256 s); [intros [= ->]; reflexivity|discriminate]. Qed.
Lemma ascii_roundtrip s b : enc codec_ascii s = Some b -> dec codec_ascii b = Some s.
Proof. cbn. destruct (all_below 128 s) eqn:E; [intros [= <-]; now rewrite E|discriminate]. Qed.
Lemma ascii_reencode b t : dec codec_ascii b = Some t -> enc codec_ascii t = Some b.
Proof. cbn. destruct (all_below 128 b) eqn:E; [intros [= <-]; now rewrite E|discriminate]. Qed.

Lemma suffix_equals_name_all : forall db plugins r inst df cd empty fname n,
  (find_plugin r inst df g_input NNone (Some fname) = find_plugin r inst df g_input (NStr n) (Some fname) ->
   forall f, db_parse_file db plugins r inst df cd empty f (Some fname) NNone
           = db_parse_file db plugins r inst df cd empty f (Some fname) (NStr n)) /\
  (find_plugin r inst df g_output NNone (Some fname) = find_plugin r inst df g_output (NStr n) (Some fname) ->
   forall d dst, db_to_file db plugins r inst df cd d dst (Some fname) NNone
               = db_to_file db plugins r inst df cd d dst (Some fname) (NStr n)).
Proof.
  intros. split; intros H; intros.
  - now apply suffix_equals_name_read.
  - now apply suffix_equals_name_write.
Qed.

(* the full statement is false of the code (finding FC17b): a writer that never calls write()
   -- the BibTeX writer on an empty database -- and an encoding with a byte-order mark *)
Lemma write_file_writes_to_bytes_refuted :
  exists (ws : bool -> unit -> res (list str)) cd u d,
    write_file unit ws cd u d WOpened <> (do b <- to_bytes unit ws cd u d; Ok (None, Some (SBytes b))).
Proof.
  exists (fun _ _ => Ok []), codec_utf16, true, tt. vm_compute. discriminate.
Qed.
Lemma utf16_empty_is_bom : enc codec_utf16 [] = Some [255; 254]%N.
Proof. reflexivity. Qed.

(* reading a file agrees with bytes.decode for these codecs; for 'utf-16' on everything the
   codec itself produced (it always writes the byte-order mark the file reader insists on) *)
Lemma latin1_fdec s b : enc codec_latin1 s = Some b -> fdec codec_latin1 b = FText s.
Proof. cbn. destruct (all_below 256 s); [intros [= ->]; reflexivity|discriminate]. Qed.
Lemma ascii_fdec s b : enc codec_ascii s = Some b -> fdec codec_ascii b = FText s.
Proof. cbn. unfold fdec_of_dec. destruct (all_below 128 s) eqn:E; [intros [= <-]; now rewrite E|discriminate]. Qed.
Lemma utf8_fdec b t : dec codec_utf8 b = Some t -> fdec codec_utf8 b = FText t.
Proof. cbn. unfold fdec_of_dec. now intros ->. Qed.
Lemma utf16_fdec_of_enc s b t : enc codec_utf16 s = Some b -> dec codec_utf16 b = Some t -> fdec codec_utf16 b = FText t.
Proof.
  cbn. unfold utf16_enc. destruct (u16_enc_body s) as [b'|]; cbn; [|discriminate].
  intros [= <-]. unfold utf16_fdec, fdec_of_dec. now intros ->.
Qed.

(* for an encoding without byte-order mark -- the modelled utf-8, latin-1 and ascii -- the FULL
   statement holds: a named file receives exactly the to_bytes bytes, for every plug-in and
   every data, also when the writer writes nothing *)
Lemma write_file_writes_to_bytes_bomless wd ws cd u d :
  enc cd [] = Some [] ->
  write_file wd ws cd u d WOpened = (do b <- to_bytes wd ws cd u d; Ok (None, Some (SBytes b))).
Proof. intros H. apply write_file_writes_to_bytes_partial. intros _ _. exact H. Qed.
Lemma write_file_writes_to_bytes_modelled wd ws n u d :
  n <> 3%N ->
  write_file wd ws (codec_of n) u d WOpened = (do b <- to_bytes wd ws (codec_of n) u d; Ok (None, Some (SBytes b))).
Proof.
  intros N. apply write_file_writes_to_bytes_bomless.
  unfold codec_of. destruct n as [|[[[]|[]|]|[[]|[]|]|]]; try reflexivity. congruence.
Qed.
