(* Proofs/BstSem.v -- the fuel-driven interpreter model computes exactly the big-step relation *)
From Pybtex Require Import Base.Prelude Base.PyChar Base.PyStr Model.BibtexStr Model.Wrap Model.Bst Proofs.Bst.
From Pybtex Require Import Spec.BstSem.

Section SemProofs.
  Variable fmt_name : str -> str -> res str.
  Variable cw : char -> Z.
  Notation exec := (exec fmt_name cw).
  Notation while_loop := (while_loop fmt_name cw).
  Notation step := (step fmt_name cw).
  Notation exec_obj := (exec_obj fmt_name cw).
  Notation builtin_step := (builtin_step fmt_name cw).
  Notation bigsteps := (bigsteps fmt_name cw (model_simple fmt_name cw)).
  Notation bigstep := (bigstep fmt_name cw (model_simple fmt_name cw)).
  Notation callv := (callv fmt_name cw (model_simple fmt_name cw)).
  Notation whilerel := (whilerel fmt_name cw (model_simple fmt_name cw)).

  (* built-ins that run no code do not look at rec / wh *)
  Lemma builtin_simple rec wh rec' wh' b st : control b = false ->
    builtin_step rec wh b st = builtin_step rec' wh' b st.
  Proof. destruct b; cbn; intros H; try discriminate; reflexivity. Qed.

  Lemma obj_simple rec wh rec' wh' o st : (forall body, o <> OFun body) -> (forall b, o <> OBuiltin b) ->
    exec_obj rec wh o st = exec_obj rec' wh' o st.
  Proof.
    intros H1 H2. destruct o; try reflexivity.
    - exfalso. eapply H2. reflexivity.
    - exfalso. eapply H1. reflexivity.
  Qed.

  Lemma pop_ok st v st2 : pop st = Ok (v, st2) -> exists r, st_stack st = v :: r /\ st2 = set_stack st r.
  Proof.
    unfold pop. destruct (st_stack st) as [|a r]; [discriminate|].
    intros H. inversion H. subst. exists r. split; reflexivity.
  Qed.

  Lemma bind_ok {A B} (r : res A) (k : A -> res B) b : bind r k = Ok b -> exists a, r = Ok a /\ k a = Ok b.
  Proof. destruct r; cbn; try discriminate. intros H. eauto. Qed.

  (* ---------------------------------------------------------------------------- *)
  (* soundness *)
  Section Sound.
    Variable rec : state -> list instr -> res state.
    Variable wh : state -> value -> value -> res state.
    Hypothesis Hrec : forall st p st', rec st p = Ok st' -> bigsteps st p st'.
    Hypothesis Hwh : forall st p f st', wh st p f = Ok st' -> whilerel st p f st'.

    Lemma single_step st i st' : bigsteps st [i] st' -> bigstep st i st'.
    Proof.
      intros H. inversion H as [|? ? st1 ? ? H1 H2]; subst. inversion H2; subst. exact H1.
    Qed.

    Lemma exec_value_sound st v st' : exec_value rec st v = Ok st' -> callv st v st'.
    Proof.
      destruct v; cbn; try discriminate; intros H.
      - constructor. apply Hrec. exact H.
      - constructor. apply single_step. apply Hrec. exact H.
    Qed.

    Lemma builtin_sound st name b st' : vlookup name (st_vars st) = Some (OBuiltin b) ->
      builtin_step rec wh b st = Ok st' -> bigstep st (IId name) st'.
    Proof.
      intros Hv H. destruct (control b) eqn:C.
      - destruct b; try discriminate C.
        + (* call.type$ *)
          cbn [Bst.builtin_step] in H. destruct (st_cur st) as [[key e]|] eqn:Ec; [|discriminate].
          destruct (vlookup (e_type e) (st_vars st)) eqn:Et.
          * eapply BS_call_type; eauto. { rewrite Et. discriminate. }
            apply single_step. apply Hrec. exact H.
          * change (st_vars (add_warn st [WType])) with (st_vars st) in H.
            destruct (vlookup nm_default_type (st_vars st)) eqn:Ed.
            -- eapply BS_call_type_default; eauto. { rewrite Ed. discriminate. }
               apply single_step. apply Hrec. exact H.
            -- inversion H; subst. eapply BS_call_type_none; eauto.
        + (* if$ *)
          cbn in H.
          apply bind_ok in H as ([f1 s1] & P1 & H). apply pop_ok in P1 as (r1 & S1 & ->).
          apply bind_ok in H as ([f2 s2] & P2 & H). apply pop_ok in P2 as (r2 & S2 & ->).
          apply bind_ok in H as ([p s3] & P3 & H). apply pop_ok in P3 as (r3 & S3 & ->).
          cbn in S2, S3. subst r1 r2. destruct p; try discriminate.
          destruct (0 <? z)%Z eqn:Z.
          * eapply BS_if_true; eauto. { apply Z.ltb_lt. exact Z. } apply exec_value_sound. exact H.
          * eapply BS_if_false; eauto. { apply Z.ltb_ge. exact Z. } apply exec_value_sound. exact H.
        + (* while$ *)
          cbn in H.
          apply bind_ok in H as ([f s1] & P1 & H). apply pop_ok in P1 as (r1 & S1 & ->).
          apply bind_ok in H as ([p s2] & P2 & H). apply pop_ok in P2 as (r2 & S2 & ->).
          cbn in S2. subst r1. eapply BS_while; eauto.
      - eapply BS_builtin; eauto. unfold model_simple. rewrite <- H. apply builtin_simple. exact C.
    Qed.

    Lemma step_sound st i st' : step rec wh st i = Ok st' -> bigstep st i st'.
    Proof.
      destruct i; cbn.
      - intros H; inversion H; constructor.
      - intros H; inversion H; constructor.
      - destruct (vlookup name (st_vars st)) as [o|] eqn:E; [|discriminate]. intros H.
        destruct o; try (eapply BS_var; [exact E|discriminate|discriminate|]; rewrite <- H; reflexivity).
        + eapply builtin_sound; eauto.
        + eapply BS_call; eauto.
      - destruct (vlookup name (st_vars st)) as [o|] eqn:E; [|discriminate].
        destruct o; intros H; inversion H; subst;
          try (eapply BS_quote_var; [exact E|discriminate]).
        eapply BS_quote_fun; eauto.
      - intros H; inversion H; constructor.
    Qed.
  End Sound.

  Lemma sound n :
    (forall st p st', exec n st p = Ok st' -> bigsteps st p st') /\
    (forall st p f st', while_loop n st p f = Ok st' -> whilerel st p f st').
  Proof.
    induction n as [|n [IHe IHw]].
    - split.
      + intros st [|i r] st' H; cbn in H; [inversion H; constructor|discriminate].
      + intros st p f st' H. discriminate.
    - split.
      + intros st [|i r] st' H; [inversion H; constructor|].
        change (exec (S n) st (i :: r)) with
          (bind (step (exec n) (while_loop n) st i) (fun s => exec n s r)) in H.
        apply bind_ok in H as (s1 & H1 & H2).
        econstructor; [eapply step_sound; eauto|]. apply IHe. exact H2.
      + intros st p f st' H. rewrite while_unfold in H.
        apply bind_ok in H as (s1 & H1 & H).
        apply bind_ok in H as ([v s2] & P & H). apply pop_ok in P as (r & S1 & ->).
        destruct v; try discriminate.
        destruct (z <=? 0)%Z eqn:Z.
        * inversion H; subst. eapply W_stop; eauto.
          { eapply exec_value_sound; eauto. } apply Z.leb_le. exact Z.
        * apply bind_ok in H as (s3 & H3 & H4).
          eapply W_loop; eauto.
          { eapply exec_value_sound; eauto. } { apply Z.leb_gt in Z. lia. }
          eapply exec_value_sound; eauto.
  Qed.

  Theorem exec_sound n st p st' : exec n st p = Ok st' -> bigsteps st p st'.
  Proof. apply (proj1 (sound n)). Qed.
  Theorem while_sound n st p f st' : while_loop n st p f = Ok st' -> whilerel st p f st'.
  Proof. apply (proj2 (sound n)). Qed.

  (* ---------------------------------------------------------------------------- *)
  (* completeness *)
  Lemma exec_mono_ok n m st p st' : n <= m -> exec n st p = Ok st' -> exec m st p = Ok st'.
  Proof. intros L H. rewrite (exec_fuel_mono fmt_name cw n m st p L); rewrite H; [reflexivity|discriminate]. Qed.
  Lemma while_mono_ok n m st p f st' : n <= m -> while_loop n st p f = Ok st' -> while_loop m st p f = Ok st'.
  Proof. intros L H. rewrite (while_fuel_mono fmt_name cw n m st p f L); rewrite H; [reflexivity|discriminate]. Qed.
  Lemma below_le n m : n <= m -> below (exec n) (exec m).
  Proof. intros L st p H. apply exec_fuel_mono; assumption. Qed.
  Lemma below_wh_le n m : n <= m -> below_wh (while_loop n) (while_loop m).
  Proof. intros L st p f H. apply while_fuel_mono; assumption. Qed.
  Lemma step_mono_ok n m st i st' : n <= m ->
    step (exec n) (while_loop n) st i = Ok st' -> step (exec m) (while_loop m) st i = Ok st'.
  Proof.
    intros L H. rewrite (step_mono fmt_name cw (exec n) (exec m) (while_loop n) (while_loop m) st i).
    - exact H.
    - apply below_le; exact L.
    - apply below_wh_le; exact L.
    - rewrite H. discriminate.
  Qed.
  Lemma value_mono_ok n m st v st' : n <= m ->
    exec_value (exec n) st v = Ok st' -> exec_value (exec m) st v = Ok st'.
  Proof.
    intros L H. rewrite (exec_value_mono (exec n) (exec m) st v).
    - exact H.
    - apply below_le; exact L.
    - rewrite H. discriminate.
  Qed.

  Lemma exec_single n st i st' : step (exec n) (while_loop n) st i = Ok st' -> exec (S n) st [i] = Ok st'.
  Proof.
    intros H. change (exec (S n) st [i]) with (bind (step (exec n) (while_loop n) st i) (fun s => exec n s [])).
    rewrite H. cbn. apply exec_nil.
  Qed.

  Lemma complete :
    (forall st p st', bigsteps st p st' -> exists n, exec n st p = Ok st') /\
    (forall st i st', bigstep st i st' -> exists n, step (exec n) (while_loop n) st i = Ok st') /\
    (forall st v st', callv st v st' -> exists n, exec_value (exec n) st v = Ok st') /\
    (forall st p f st', whilerel st p f st' -> exists n, while_loop n st p f = Ok st').
  Proof.
    apply bigstep_mutind.
    - (* nil *) intros st. exists 0. reflexivity.
    - (* cons *) intros st i st1 r st2 _ [n1 H1] _ [n2 H2].
      exists (S (Nat.max n1 n2)).
      change (exec (S (Nat.max n1 n2)) st (i :: r)) with
        (bind (step (exec (Nat.max n1 n2)) (while_loop (Nat.max n1 n2)) st i) (fun s => exec (Nat.max n1 n2) s r)).
      rewrite (step_mono_ok n1 _ _ _ _ (Nat.le_max_l _ _) H1). cbn.
      apply (exec_mono_ok n2); [apply Nat.le_max_r|exact H2].
    - intros st z. exists 0. reflexivity.
    - intros st s. exists 0. reflexivity.
    - intros st b. exists 0. reflexivity.
    - intros st name body H. exists 0. cbn. rewrite H. reflexivity.
    - intros st name o H N. exists 0. cbn. rewrite H. destruct o; try reflexivity.
      exfalso. eapply N. reflexivity.
    - (* call *) intros st name body st' Hv _ [n H]. exists n. cbn. rewrite Hv. exact H.
    - (* var *) intros st name o st' Hv N1 N2 H. exists 0. cbn. rewrite Hv.
      rewrite <- H. apply obj_simple; assumption.
    - (* simple builtin *) intros st name b st' Hv C H. unfold model_simple in H. exists 0. cbn. rewrite Hv. cbn.
      rewrite <- H. apply builtin_simple. exact C.
    - (* if true *) intros st name f1 f2 z r st' Hv Hs Hz _ [n H]. exists n. cbn. rewrite Hv.
      cbn [Bst.exec_obj]. rewrite (if_true fmt_name cw _ _ _ _ _ _ _ Hs Hz). exact H.
    - intros st name f1 f2 z r st' Hv Hs Hz _ [n H]. exists n. cbn. rewrite Hv.
      cbn [Bst.exec_obj]. rewrite (if_false fmt_name cw _ _ _ _ _ _ _ Hs Hz). exact H.
    - (* while *) intros st name f p r st' Hv Hs _ [n H]. exists n. cbn. rewrite Hv.
      cbn [Bst.exec_obj]. rewrite (while_law fmt_name cw _ _ _ _ _ _ Hs). exact H.
    - (* call.type$ *) intros st name key e st' Hv Hc Ht _ [n H]. exists (S n). cbn [Bst.step]. rewrite Hv.
      cbn [Bst.exec_obj Bst.builtin_step]. rewrite Hc.
      destruct (vlookup (e_type e) (st_vars st)); [|congruence]. apply exec_single. exact H.
    - intros st name key e st' Hv Hc Ht Hd _ [n H]. exists (S n). cbn [Bst.step]. rewrite Hv.
      cbn [Bst.exec_obj Bst.builtin_step]. rewrite Hc, Ht.
      change (st_vars (add_warn st [WType])) with (st_vars st).
      destruct (vlookup nm_default_type (st_vars st)); [|congruence]. apply exec_single. exact H.
    - intros st name key e Hv Hc Ht Hd. exists 0. cbn [Bst.step]. rewrite Hv.
      cbn [Bst.exec_obj Bst.builtin_step]. rewrite Hc, Ht.
      change (st_vars (add_warn st [WType])) with (st_vars st). rewrite Hd. reflexivity.
    - (* callv fun *) intros st body st' _ [n H]. exists n. exact H.
    - intros st n0 st' _ [n H]. exists (S n). cbn [Bst.exec_value]. apply exec_single. exact H.
    - (* while stop *) intros st p f st1 z r _ [n H] Hs Hz. exists (S n). rewrite while_unfold.
      rewrite H. cbn [bind]. rewrite (pop_cons _ _ _ Hs). cbn [bind].
      apply Z.leb_le in Hz. rewrite Hz. reflexivity.
    - (* while loop *) intros st p f st1 z r st2 st3 _ [n1 H1] Hs Hz _ [n2 H2] _ [n3 H3].
      set (m := Nat.max n1 (Nat.max n2 n3)). exists (S m). rewrite while_unfold.
      rewrite (value_mono_ok n1 m _ _ _ (Nat.le_max_l _ _) H1). cbn [bind].
      rewrite (pop_cons _ _ _ Hs). cbn [bind].
      assert (Z : (z <=? 0)%Z = false) by (apply Z.leb_gt; lia). rewrite Z.
      assert (L2 : n2 <= m) by (unfold m; lia). assert (L3 : n3 <= m) by (unfold m; lia).
      rewrite (value_mono_ok n2 m _ _ _ L2 H2). cbn [bind].
      apply (while_mono_ok n3); assumption.
  Qed.

  Theorem exec_complete st p st' : bigsteps st p st' -> exists n, exec n st p = Ok st'.
  Proof. apply (proj1 complete). Qed.
End SemProofs.
