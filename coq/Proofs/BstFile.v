(* Proofs/BstFile.v -- parse_file: universal-newline translation of a printed source is a printed
   source whose line ends are LF; then Proofs/BstStream applies. *)
From Pybtex Require Import Base.Prelude Base.PyChar Base.PyStr Model.BstParser Spec.BstPrint
  Proofs.BstLex Proofs.BstRoundtrip Proofs.BstErrors Proofs.BstSource Proofs.BstStream.
Local Open Scope N_scope.

Definition nl_brk (k : brk) : brk := match k with BrCRLF | BrCR => BrChar 10 | BrChar c => BrChar c end.
Definition nl_item (i : gitem) : gitem :=
  match i with GWs c => GWs c | GBrk k => GBrk (nl_brk k) | GCom cm k => GCom cm (nl_brk k) end.
Definition nl_gap (g : sgap) : sgap := map nl_item g.

Lemma un_prefix a b : no_cr a = true -> universal_newlines (a ++ b) = a ++ universal_newlines b.
Proof.
  induction a as [|c a IH]; intros Ha; [reflexivity|].
  unfold no_cr in Ha. cbn [forallb] in Ha. apply andb_prop in Ha as [Hc Ha]. apply negb_true_iff in Hc.
  cbn [app universal_newlines]. rewrite Hc. now rewrite (IH Ha).
Qed.
Lemma un_crlf b : universal_newlines (13 :: 10 :: b) = 10 :: universal_newlines b.
Proof. reflexivity. Qed.
Lemma un_cr b : no_lf_head b -> universal_newlines (13 :: b) = 10 :: universal_newlines b.
Proof. destruct b as [|d b']; cbn [no_lf_head]; intros H; cbn [universal_newlines]; [reflexivity|]. change (13 =? 13) with true. cbn iota. now rewrite H. Qed.

Lemma no_linebreak_no_cr a : no_linebreak a = true -> no_cr a = true.
Proof.
  unfold no_linebreak, no_cr. apply forallb_impl. intros c Hc. apply negb_true_iff in Hc. apply negb_true_iff.
  destruct (c =? 13) eqn:E; [|reflexivity]. apply N.eqb_eq in E. subst c. discriminate.
Qed.

Lemma un_brk k Y : brk_okb k = true -> cr_safe k Y ->
  universal_newlines (brk_text k ++ Y) = brk_text (nl_brk k) ++ universal_newlines Y.
Proof.
  destruct k as [| |c]; cbn [brk_okb brk_text nl_brk cr_safe app]; intros Hk Hs.
  - apply un_crlf.
  - now apply un_cr.
  - apply andb_prop in Hk as [_ Hc]. apply negb_true_iff in Hc. cbn [universal_newlines]. now rewrite Hc.
Qed.

Lemma un_gap : forall g X, forallb gitem_okb g = true -> cr_okb g = true -> no_lf_head X ->
  universal_newlines (sgap_text g ++ X) = sgap_text (nl_gap g) ++ universal_newlines X.
Proof.
  induction g as [|i r IH]; intros X Hok Hcr HX; [reflexivity|].
  cbn [forallb] in Hok. apply andb_prop in Hok as [Hi Hr].
  cbn [cr_okb] in Hcr. apply andb_prop in Hcr as [Hcr1 Hcr2]. apply negb_true_iff in Hcr1.
  unfold sgap_text, nl_gap in *. cbn [map flat_map]. rewrite <- !app_assoc.
  set (Y := flat_map gitem_text r ++ X) in *.
  assert (Hsafe : forall k, (k = BrCR -> ends_cr i = true) -> cr_safe k Y).
  { intros k Hki. destruct k; cbn [cr_safe]; auto.
    unfold Y. apply starts_lf_head; [|exact HX|exact Hr].
    specialize (Hki eq_refl). rewrite Hki in Hcr1. exact Hcr1. }
  rewrite <- (IH X Hr Hcr2 HX). fold Y.
  destruct i as [c|k|cm k]; cbn [gitem_okb gitem_text nl_item] in *.
  - apply andb_prop in Hi as [_ Hl]. apply negb_true_iff in Hl. apply (un_prefix [c]).
    unfold no_cr. cbn [forallb]. rewrite andb_true_r. apply negb_true_iff.
    destruct (c =? 13) eqn:E; [|reflexivity]. apply N.eqb_eq in E. subst c. discriminate.
  - apply un_brk; [exact Hi|]. apply Hsafe. intros ->. reflexivity.
  - apply andb_prop in Hi as [Hcm Hk].
    replace ((c_percent :: cm ++ brk_text k) ++ Y) with ((c_percent :: cm) ++ brk_text k ++ Y)
      by (cbn [app]; rewrite <- app_assoc; reflexivity).
    replace ((c_percent :: cm ++ brk_text (nl_brk k)) ++ universal_newlines Y)
      with ((c_percent :: cm) ++ brk_text (nl_brk k) ++ universal_newlines Y)
      by (cbn [app]; rewrite <- app_assoc; reflexivity).
    rewrite un_prefix.
    + rewrite un_brk; [reflexivity|exact Hk|]. apply Hsafe. intros ->. reflexivity.
    + apply (no_cr_app_intro [c_percent] cm); [reflexivity|now apply no_linebreak_no_cr].
Qed.

Lemma map_tl {X Y} (f : X -> Y) l : map f (tl l) = tl (map f l).
Proof. destruct l; reflexivity. Qed.

Lemma sgap_hd_nl gs : sgap_hd (map nl_gap gs) = nl_gap (sgap_hd gs).
Proof. destruct gs; reflexivity. Qed.

Lemma un_weave : forall ts gs prev, Forall ltok_ok ts -> slayout_okb prev gs ts = true ->
  universal_newlines (weave (map sgap_text gs) ts) = weave (map sgap_text (map nl_gap gs)) ts.
Proof.
  induction ts as [|t ts IH]; intros gs prev Hts Hlay.
  - cbn [slayout_okb] in Hlay. cbn [weave]. destruct gs as [|g gs0]; cbn [map]; [reflexivity|].
    apply andb_prop in Hlay as [Hok Hcr].
    pose proof (un_gap g [] Hok Hcr I) as H. rewrite !app_nil_r in H. exact H.
  - inversion Hts as [|? ? Ht Hts']; subst.
    cbn [slayout_okb] in Hlay. apply andb_prop in Hlay as [Hlay Hrest]. apply andb_prop in Hlay as [Hgap _].
    apply andb_prop in Hgap as [Hgap Hcr].
    destruct (ltok_src_facts t Ht) as [Hnb _].
    rewrite !weave_s_cons, sgap_hd_nl.
    assert (HX2 : no_lf_head (ltok_text t ++ weave (map sgap_text (tl gs)) ts)).
    { destruct (ltok_text_head t (proj1 Ht)) as (c & r & -> & Hc). cbn [app no_lf_head].
      destruct (c =? 10) eqn:E; [|reflexivity]. apply N.eqb_eq in E. subst c. discriminate. }
    rewrite (un_gap _ _ Hgap Hcr HX2), (un_prefix _ _ (no_linebreak_no_cr _ Hnb)).
    rewrite (IH (tl gs) (Some t) Hts' Hrest). now rewrite !map_tl.
Qed.

Lemma nl_item_ok i : gitem_okb i = true -> gitem_okb (nl_item i) = true.
Proof.
  destruct i as [c|k|cm k]; cbn [gitem_okb nl_item]; auto.
  - destruct k; cbn [brk_okb nl_brk]; auto.
  - intros H. apply andb_prop in H as [H1 H2]. rewrite H1. destruct k; cbn [brk_okb nl_brk] in *; auto.
Qed.
Lemma nl_gap_ok g : forallb gitem_okb g = true -> forallb gitem_okb (nl_gap g) = true /\ cr_okb (nl_gap g) = true.
Proof.
  induction g as [|i r IH]; cbn [forallb nl_gap map cr_okb]; [auto|]. intros H. apply andb_prop in H as [Hi Hr].
  destruct (IH Hr) as [IH1 IH2]. fold (nl_gap r). rewrite (nl_item_ok i Hi), IH1, IH2. split; [reflexivity|].
  rewrite andb_true_r. apply negb_true_iff.
  assert (ends_cr (nl_item i) = false) by (destruct i as [c|k|cm k]; [reflexivity|destruct k; reflexivity|destruct k; reflexivity]).
  now rewrite H.
Qed.

Lemma nl_layout_ok : forall ts gs prev, slayout_okb prev gs ts = true -> slayout_okb prev (map nl_gap gs) ts = true.
Proof.
  induction ts as [|t ts IH]; intros gs prev Hlay; cbn [slayout_okb] in *.
  - destruct gs as [|g gs0]; cbn [map]; [exact Hlay|]. apply andb_prop in Hlay as [Hok _].
    destruct (nl_gap_ok g Hok) as [H1 H2]. now rewrite H1, H2.
  - apply andb_prop in Hlay as [Hlay Hrest]. apply andb_prop in Hlay as [Hgap Hneed]. apply andb_prop in Hgap as [Hgap _].
    rewrite sgap_hd_nl. destruct (nl_gap_ok _ Hgap) as [H1 H2]. rewrite H1, H2. cbn [andb].
    rewrite <- map_tl, (IH _ _ Hrest), andb_true_r.
    destruct (sgap_hd gs); [exact Hneed|]. cbn [nl_gap map]. exact Hneed.
Qed.

Lemma nl_stream_ok gs : file_gaps_okb gs = true -> stream_gaps_okb (map nl_gap gs) = true.
Proof.
  unfold file_gaps_okb, stream_gaps_okb. induction gs as [|g gs IH]; cbn [forallb map]; [auto|].
  intros H. apply andb_prop in H as [Hg Hgs]. rewrite (IH Hgs), andb_true_r.
  clear - Hg. induction g as [|i r IH]; cbn [forallb nl_gap map] in *; [reflexivity|].
  apply andb_prop in Hg as [Hi Hr]. fold (nl_gap r). rewrite (IH Hr), andb_true_r.
  destruct i as [c|k|cm k]; [reflexivity|reflexivity|]. destruct k; cbn in *; auto.
Qed.

(* ---- parse_file on printed sources, and agreement of the three entry points *)
Theorem file_roundtrip : forall p gs,
  wf_programb p = true -> src_programb p = true -> slayout_okb None gs (flat_program p) = true ->
  file_gaps_okb gs = true ->
  parse_file (print_bst (map sgap_text gs) p) = Ok p.
Proof.
  intros p gs Hwf Hsrc Hlay Hf. unfold parse_file, print_bst.
  rewrite (un_weave _ gs None (flat_program_ok p Hwf Hsrc) Hlay).
  apply (stream_roundtrip p (map nl_gap gs) Hwf Hsrc (nl_layout_ok _ _ _ Hlay) (nl_stream_ok gs Hf)).
Qed.

Lemma stream_file_ok gs : stream_gaps_okb gs = true -> file_gaps_okb gs = true.
Proof.
  unfold stream_gaps_okb, file_gaps_okb. induction gs as [|g gs IH]; cbn [forallb]; [auto|].
  intros H. apply andb_prop in H as [Hg Hgs]. rewrite (IH Hgs), andb_true_r.
  clear - Hg. induction g as [|i r IH]; cbn [forallb] in *; [reflexivity|].
  apply andb_prop in Hg as [Hi Hr]. rewrite (IH Hr), andb_true_r.
  destruct i as [c|k|cm k]; [reflexivity|reflexivity|]. destruct k; cbn in *; auto.
Qed.

Theorem entry_points_agree3 : forall p gs,
  wf_programb p = true -> src_programb p = true -> slayout_okb None gs (flat_program p) = true ->
  stream_gaps_okb gs = true ->
  let src := print_bst (map sgap_text gs) p in
  parse_string src = Ok p /\ parse_stream (lines_keepends src) = Ok p /\ parse_file src = Ok p.
Proof.
  intros p gs Hwf Hsrc Hlay Hst src. split; [now apply bst_roundtrip|]. split; [now apply stream_roundtrip|].
  apply file_roundtrip; try assumption. now apply stream_file_ok.
Qed.
