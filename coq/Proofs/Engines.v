(* Proofs/Engines.v -- lemmas for property C06 *)
From Pybtex Require Import Base.Prelude Base.PyChar Base.PyStr Model.BibtexStr Model.Wrap Model.Bst Model.Engines.
From Pybtex Require Model.Citations.

Lemma splitext_root_nodot p : last_index 46%N p 0 None = None -> splitext_root p = p.
Proof. unfold splitext_root. intros ->. reflexivity. Qed.
