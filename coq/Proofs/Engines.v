(* Proofs/Engines.v -- lemmas for property C06: entry points, overrides, irrelevance of uncited entries *)
From Pybtex Require Import Base.Prelude Base.PyChar Base.PyStr Model.BibtexStr Model.Wrap Model.Bst Model.Engines.
From Pybtex Require Import Model.Citations Proofs.CitationsBase.

(* ---------------------------------------------------------------------------------- *)
(* READ sees the database only through engine_read                                     *)
Section Run.
  Variable fmt_name : str -> str -> res str.
  Variable cw : char -> Z.
  Variable fuel : nat.

  Lemma engine_run_frame fs1 fs2 prog cites srcs fmt m :
    (forall db1, parse_files fs1 fmt srcs = Ok db1 ->
       exists db2, parse_files fs2 fmt srcs = Ok db2 /\ forall c, engine_read db1 c m = engine_read db2 c m) ->
    (forall c l, parse_files fs1 fmt srcs = PyErr c l -> parse_files fs2 fmt srcs = PyErr c l) ->
    (parse_files fs1 fmt srcs = Crash -> parse_files fs2 fmt srcs = Crash) ->
    (parse_files fs1 fmt srcs = OutOfFuel -> parse_files fs2 fmt srcs = OutOfFuel) ->
    engine_run fmt_name cw fuel fs1 prog cites srcs fmt m = engine_run fmt_name cw fuel fs2 prog cites srcs fmt m.
  Proof.
    intros Hok He Hc Hf. unfold engine_run.
    destruct (split_at_read prog) as [pre post].
    destruct (run fmt_name cw fuel (initial_state cites []) pre) as [st1| | |]; cbn; try reflexivity.
    destruct post as [|[name args] post]; [reflexivity|]. destruct args; [|reflexivity].
    destruct (parse_files fs1 fmt srcs) as [db1|c l| |] eqn:E1.
    - destruct (Hok _ eq_refl) as (db2 & -> & Heq). cbn [bind]. now rewrite Heq.
    - now rewrite (He _ _ eq_refl).
    - now rewrite (Hc eq_refl).
    - now rewrite (Hf eq_refl).
  Qed.

  (* ---------------------------------------------------------------------------------- *)
  (* entry points                                                                        *)

  (* format_from_files looks at bib_format only through the default *)
  Lemma fff_format fs srcs sty cites bf m out add :
    format_from_files fmt_name cw fuel fs srcs sty cites (Some (match bf with Some f => f | None => 0 end)) m out add =
    format_from_files fmt_name cw fuel fs srcs sty cites bf m out add.
  Proof. destruct bf; reflexivity. Qed.

  (* the output stage: what is written to <name>.bbl is what the call without an output file returns *)
  Lemma fff_output fs srcs sty cites bf m name :
    match format_from_files fmt_name cw fuel fs srcs sty cites bf m None false with
    | Ok o => exists bbl, o = mkOut fs (Some bbl) (o_reports o) /\
                format_from_files fmt_name cw fuel fs srcs sty cites bf m (Some name) true =
                Ok (mkOut (fs_write fs (name ++ s_bbl) bbl) None (o_reports o))
    | PyErr c l => format_from_files fmt_name cw fuel fs srcs sty cites bf m (Some name) true = PyErr c l
    | Crash => format_from_files fmt_name cw fuel fs srcs sty cites bf m (Some name) true = Crash
    | OutOfFuel => format_from_files fmt_name cw fuel fs srcs sty cites bf m (Some name) true = OutOfFuel
    end.
  Proof.
    unfold format_from_files.
    destruct (fs_get fs (sty ++ s_bst)) as [[l|p|f es|t]|]; cbn; try reflexivity.
    destruct (engine_run fmt_name cw fuel fs p _ srcs _ m) as [st| | |]; cbn; try reflexivity.
    exists (output_of st). split; [reflexivity|].
    destruct (name ++ s_bbl) as [|c n] eqn:E; [|reflexivity].
    destruct name; discriminate.
  Qed.

  Lemma make_bibliography_explicit fs aux style bf m ad sty data :
    aux_parse_file aux_depth fs aux = Ok ad -> ax_data ad = Some data ->
    (match style with Some s => Some s | None => ax_style ad end) = Some sty ->
    let fmt := match bf with Some f => f | None => 0 end in
    match format_from_files fmt_name cw fuel fs (map (fun n => BName (n ++ suffix_of fmt)) data) sty
                            (Some (ax_cites ad)) bf m None false with
    | Ok o => exists bbl, o = mkOut fs (Some bbl) (o_reports o) /\
              make_bibliography fmt_name cw fuel fs aux style bf m =
              Ok (mkOut (fs_write fs (splitext_root aux ++ s_bbl) bbl) None (ax_reports ad + o_reports o))
    | PyErr c l => make_bibliography fmt_name cw fuel fs aux style bf m = PyErr c l
    | Crash => make_bibliography fmt_name cw fuel fs aux style bf m = Crash
    | OutOfFuel => make_bibliography fmt_name cw fuel fs aux style bf m = OutOfFuel
    end.
  Proof.
    intros Hp Hd Hs fmt. unfold make_bibliography. rewrite Hp. cbn [bind]. rewrite Hs, Hd.
    fold fmt. rewrite (fff_format fs _ sty (Some (ax_cites ad)) bf m).
    pose proof (fff_output fs (map (fun n => BName (n ++ suffix_of fmt)) data) sty (Some (ax_cites ad)) bf m (splitext_root aux)) as H.
    destruct (format_from_files fmt_name cw fuel fs _ sty (Some (ax_cites ad)) bf m None false) as [o|c l| |].
    - destruct H as (bbl & Ho & ->). exists bbl. split; [exact Ho|]. reflexivity.
    - now rewrite H.
    - now rewrite H.
    - now rewrite H.
  Qed.

  (* with an explicit style the style named in the .aux file plays no role *)
  Lemma make_bibliography_override fs aux1 aux2 s bf m ad1 ad2 :
    aux_parse_file aux_depth fs aux1 = Ok ad1 -> aux_parse_file aux_depth fs aux2 = Ok ad2 ->
    ax_data ad1 = ax_data ad2 -> ax_cites ad1 = ax_cites ad2 -> ax_reports ad1 = ax_reports ad2 ->
    splitext_root aux1 = splitext_root aux2 ->
    make_bibliography fmt_name cw fuel fs aux1 (Some s) bf m = make_bibliography fmt_name cw fuel fs aux2 (Some s) bf m.
  Proof.
    intros H1 H2 Hd Hc Hr Hn. unfold make_bibliography. rewrite H1, H2. cbn [bind]. now rewrite Hd, Hc, Hr, Hn.
  Qed.

  (* a successfully parsed .aux file states a style and a database *)
  Lemma aux_parse_file_ok fs aux ad : aux_parse_file aux_depth fs aux = Ok ad ->
    exists sty data, ax_style ad = Some sty /\ ax_data ad = Some data.
  Proof.
    unfold aux_parse_file. destruct (fs_get fs aux) as [[ls|p|f es|t]|]; try discriminate.
    destruct (aux_parse_lines aux_depth fs ls aux_init) as [a| | |]; cbn; try discriminate.
    destruct (ax_data a) as [d|] eqn:Ed; [|discriminate]. destruct (ax_style a) as [s|] eqn:Es; [|discriminate].
    intros H; inversion H; subst. eauto.
  Qed.
End Run.

(* ---------------------------------------------------------------------------------- *)
(* the filtered reading                                                                *)
Lemma read_full_app a : forall b bd acc,
  read_full (a ++ b) bd acc = let (bd', acc') := read_full a bd acc in read_full b bd' acc'.
Proof.
  induction a as [|e a IH]; intros b bd acc; [reflexivity|]. cbn [app read_full]. apply IH.
Qed.
Lemma read_full_fst db : forall bd acc, fst (read_full db bd acc) = fold_left add_entry (map proj db) bd.
Proof. induction db as [|e db IH]; intros bd acc; [reflexivity|]. cbn. apply IH. Qed.

Lemma add_entry_unwanted bd e : want_entry bd (fst e) = false -> add_entry bd e = bd.
Proof. destruct e as [k cr]. cbn. intros ->. reflexivity. Qed.

(* an entry that is not wanted when the reader reaches it leaves no trace *)
Lemma read_full_skip db1 e db2 bd acc :
  want_entry (fst (read_full db1 bd acc)) (b_key e) = false ->
  read_full (db1 ++ e :: db2) bd acc = read_full (db1 ++ db2) bd acc.
Proof.
  intros H. rewrite !read_full_app. destruct (read_full db1 bd acc) as [bd' acc']. cbn in H. cbn [read_full].
  rewrite H. cbn [andb]. now rewrite (add_entry_unwanted bd' (proj e)).
Qed.
Lemma read_db_skip cites db1 e db2 :
  want_entry (read_db (Some cites) (map proj db1)) (b_key e) = false ->
  read_db (Some cites) (map proj (db1 ++ e :: db2)) = read_db (Some cites) (map proj (db1 ++ db2)).
Proof.
  intros H. unfold read_db in *. rewrite !map_app, !fold_left_app. cbn [map fold_left].
  now rewrite (add_entry_unwanted _ (proj e)).
Qed.

Lemma engine_read_skip db1 e db2 cites m :
  want_entry (read_db (Some cites) (map proj db1)) (b_key e) = false ->
  engine_read (db1 ++ e :: db2) cites m = engine_read (db1 ++ db2) cites m.
Proof.
  intros H. unfold engine_read, command_read_raw, stored_entries.
  rewrite (read_db_skip _ _ _ _ H).
  rewrite read_full_skip; [reflexivity|].
  now rewrite read_full_fst.
Qed.

(* the wanted set never contains more than the citations and the cross-references read so far *)
Definition xrefs (db : list bentry) : list str :=
  flat_map (fun e => match fget s_crossref (b_fields e) with Some p => [p] | None => [] end) db.

Lemma wanted_bound x : forall db bd w,
  bd_wanted bd = Some w ->
  exists w', bd_wanted (fold_left add_entry (map proj db) bd) = Some w' /\
    (cis_mem x w' = true -> cis_mem x w = true \/ existsb (keyb x) (xrefs db) = true).
Proof.
  induction db as [|e db IH]; intros bd w Hw; cbn.
  - exists w. auto.
  - assert (H : exists w1, bd_wanted (add_entry bd (proj e)) = Some w1 /\
                 (cis_mem x w1 = true -> cis_mem x w = true \/
                    existsb (keyb x) (match fget s_crossref (b_fields e) with Some p => [p] | None => [] end) = true)).
    { unfold proj, add_entry.
      destruct (negb (want_entry bd (b_key e))); [exists w; auto|].
      destruct (ed_mem (b_key e) (bd_entries bd)); cbn; [exists w; auto|].
      rewrite Hw. destruct (fget s_crossref (b_fields e)) as [p|]; [|exists w; auto].
      exists (cis_add p w). split; [reflexivity|]. rewrite cis_mem_add. cbn.
      intros H. apply orb_prop in H as [H|H]; [right; now rewrite H|now left]. }
    destruct H as (w1 & Hw1 & Hb). destruct (IH _ _ Hw1) as (w' & Hw' & Hb').
    exists w'. split; [exact Hw'|]. intros Hx. change (xrefs (e :: db)) with
      ((match fget s_crossref (b_fields e) with Some p => [p] | None => [] end) ++ xrefs db).
    rewrite existsb_app.
    destruct (Hb' Hx) as [H|H].
    + destruct (Hb H) as [H'|H']; [now left|right; apply orb_true_iff; left; exact H'].
    + right. apply orb_true_iff; right; exact H.
Qed.

(* a key that is neither cited nor cross-referenced anywhere in the file, in a reading without '*',
   is never wanted *)
Definition never_wanted (db : list bentry) (cites : list str) (k : str) : Prop :=
  existsb (keyb k) (cites ++ xrefs db) = false /\ existsb (keyb star) (cites ++ xrefs db) = false.

Lemma existsb_false_app {X} (p : X -> bool) a b : existsb p (a ++ b) = false -> existsb p a = false /\ existsb p b = false.
Proof. rewrite existsb_app. intros H. now apply orb_false_elim in H. Qed.

Lemma never_wanted_prefix db1 db2 cites k :
  never_wanted (db1 ++ db2) cites k -> want_entry (read_db (Some cites) (map proj db1)) k = false.
Proof.
  intros [Hk Hs]. unfold read_db.
  assert (Hx : xrefs (db1 ++ db2) = xrefs db1 ++ xrefs db2) by (unfold xrefs; apply flat_map_app).
  rewrite Hx in Hk, Hs.
  apply existsb_false_app in Hk as [Hk1 Hk2]. apply existsb_false_app in Hk2 as [Hk2 _].
  apply existsb_false_app in Hs as [Hs1 Hs2]. apply existsb_false_app in Hs2 as [Hs2 _].
  unfold want_entry.
  destruct (wanted_bound k db1 (bd_init (Some cites)) (cis_of_list cites) eq_refl) as (w' & Hw' & Hb).
  destruct (wanted_bound star db1 (bd_init (Some cites)) (cis_of_list cites) eq_refl) as (w'' & Hw'' & Hb').
  rewrite Hw' in Hw''. inversion Hw''; subst w''. rewrite Hw'.
  destruct (cis_mem k w') eqn:E1.
  - destruct (Hb eq_refl) as [H|H]; [rewrite cis_mem_of_list in H|]; congruence.
  - destruct (cis_mem star w') eqn:E2; [|reflexivity].
    destruct (Hb' eq_refl) as [H|H]; [rewrite cis_mem_of_list in H|]; congruence.
Qed.

Lemma engine_read_uncited db1 e db2 cites m :
  never_wanted (db1 ++ db2) cites (b_key e) ->
  engine_read (db1 ++ e :: db2) cites m = engine_read (db1 ++ db2) cites m.
Proof. intros H. apply engine_read_skip. eapply never_wanted_prefix; eauto. Qed.

(* ---------------------------------------------------------------------------------- *)
(* two readings that look the same to the interpreter give the same run *)
Definition same_view (m : Z) (r1 r2 : res (list bentry)) : Prop :=
  match r1, r2 with
  | Ok a, Ok b => forall c, engine_read a c m = engine_read b c m
  | PyErr c l, PyErr c' l' => c = c' /\ l = l'
  | Crash, Crash => True
  | OutOfFuel, OutOfFuel => True
  | _, _ => False
  end.

Section Frame.
  Variable fmt_name : str -> str -> res str.
  Variable cw : char -> Z.
  Variable fuel : nat.

  Lemma engine_run_same_view fs1 fs2 srcs1 srcs2 prog cites fmt m :
    same_view m (parse_files fs1 fmt srcs1) (parse_files fs2 fmt srcs2) ->
    engine_run fmt_name cw fuel fs1 prog cites srcs1 fmt m = engine_run fmt_name cw fuel fs2 prog cites srcs2 fmt m.
  Proof.
    intros Hv. unfold engine_run.
    destruct (split_at_read prog) as [pre post].
    destruct (run fmt_name cw fuel (initial_state cites []) pre) as [st1| | |]; cbn [bind]; try reflexivity.
    destruct post as [|[name args] post]; [reflexivity|]. destruct args; [|reflexivity].
    destruct (parse_files fs1 fmt srcs1) as [db1|c l| |], (parse_files fs2 fmt srcs2) as [db2|c' l'| |]; cbn in Hv; try contradiction.
    - cbn [bind]. now rewrite Hv.
    - destruct Hv; subst. reflexivity.
    - reflexivity.
    - reflexivity.
  Qed.
End Frame.

(* ---------------------------------------------------------------------------------- *)
(* what an .aux file without \@input says: the citations are the comma-separated pieces of the
   \citation lines, in order; the style / database are those of the FIRST \bibstyle / \bibdata line *)
Definition line_cites (l : str) : list str :=
  match match_command l with Some (ACitation, v) => split_on s_comma v | _ => [] end.
Definition line_style (l : str) : option str :=
  match match_command l with Some (ABibstyle, v) => Some v | _ => None end.
Definition line_data (l : str) : option (list str) :=
  match match_command l with Some (ABibdata, v) => Some (split_on s_comma v) | _ => None end.
Definition no_input (l : str) : bool :=
  match match_command l with Some (AInput, _) => false | _ => true end.
Fixpoint first_some {X Y} (f : X -> option Y) (l : list X) : option Y :=
  match l with [] => None | x :: r => match f x with Some y => Some y | None => first_some f r end end.

Lemma handle_citation_cites : forall ks ad,
  let ad' := fold_left handle_citation_key ks ad in
  ax_cites ad' = ax_cites ad ++ ks /\ ax_style ad' = ax_style ad /\ ax_data ad' = ax_data ad.
Proof.
  induction ks as [|k r IH]; intros ad; cbn.
  - now rewrite app_nil_r.
  - destruct (IH (handle_citation_key ad k)) as (H1 & H2 & H3). rewrite H1, H2, H3. cbn. now rewrite <- app_assoc.
Qed.

Definition aux_line_step (depth : nat) (fs : fsys) (line : str) (ad : auxdata) : res auxdata :=
  match match_command line with
  | None => Ok ad
  | Some (ACitation, v) => Ok (handle_citation ad v)
  | Some (ABibstyle, v) => Ok (handle_bibstyle ad v)
  | Some (ABibdata, v) => Ok (handle_bibdata ad v)
  | Some (AInput, v) =>
    match depth with
    | O => OutOfFuel
    | S d =>
      match fs_get fs v with
      | Some (FAux ls) => aux_parse_lines d fs ls ad
      | Some _ => Unmodelled
      | None => PyErr E_IO (-1)
      end
    end
  end.
Lemma aux_parse_lines_nil depth fs ad : aux_parse_lines depth fs [] ad = Ok ad.
Proof. destruct depth; reflexivity. Qed.
Lemma aux_parse_lines_cons depth fs l r ad :
  aux_parse_lines depth fs (l :: r) ad = (do ad' <- aux_line_step depth fs l ad; aux_parse_lines depth fs r ad').
Proof. destruct depth; reflexivity. Qed.

Lemma aux_parse_lines_flat depth fs : forall lines ad ad',
  forallb no_input lines = true ->
  aux_parse_lines depth fs lines ad = Ok ad' ->
  ax_cites ad' = ax_cites ad ++ flat_map line_cites lines /\
  ax_style ad' = match ax_style ad with Some s => Some s | None => first_some line_style lines end /\
  ax_data ad' = match ax_data ad with Some d => Some d | None => first_some line_data lines end.
Proof.
  induction lines as [|l r IH]; intros ad ad' Hn H.
  - rewrite aux_parse_lines_nil in H. inversion H; subst. cbn. rewrite app_nil_r.
    destruct (ax_style ad'), (ax_data ad'); auto.
  - rewrite aux_parse_lines_cons in H. cbn in Hn. apply andb_prop in Hn as [Hl Hr].
    unfold no_input in Hl. unfold aux_line_step in H.
    cbn [flat_map first_some]. unfold line_cites at 1, line_style at 1, line_data at 1.
    destruct (match_command l) as [[[ | | | ] v]|] eqn:E; try discriminate; cbn [bind] in H;
      destruct (IH _ _ Hr H) as (H1 & H2 & H3); rewrite H1, H2, H3; clear IH H1 H2 H3.
    + unfold handle_citation. destruct (handle_citation_cites (split_on s_comma v) ad) as (K1 & K2 & K3).
      rewrite K1, K2, K3, <- app_assoc. auto.
    + unfold handle_bibdata. destruct (ax_data ad); cbn; auto.
    + unfold handle_bibstyle. destruct (ax_style ad); cbn; auto.
    + auto.
Qed.

Lemma aux_file_says depth fs name lines ad :
  fs_get fs name = Some (FAux lines) -> forallb no_input lines = true ->
  aux_parse_file depth fs name = Ok ad ->
  ax_cites ad = flat_map line_cites lines /\
  ax_style ad = first_some line_style lines /\ ax_data ad = first_some line_data lines.
Proof.
  intros Hg Hn. unfold aux_parse_file. rewrite Hg.
  destruct (aux_parse_lines depth fs lines aux_init) as [a| | |] eqn:E; cbn [bind]; try discriminate.
  destruct (aux_parse_lines_flat _ _ _ _ _ Hn E) as (H1 & H2 & H3). cbn in H1, H2, H3.
  destruct (ax_data a) eqn:Ed; [|discriminate]. destruct (ax_style a) eqn:Es; [|discriminate].
  intros H; inversion H; subst. rewrite Ed, Es. auto.
Qed.
