(* Proofs/NameFormatAbbrev.v -- hyphen-aware abbreviation on brace-free words. *)
From Pybtex Require Import Base.Prelude Base.PyChar Base.PyStr Model.BibtexStr Model.Names Model.NameFormat
  Spec.NameFormat Proofs.NameFormatParse.

Lemma partition_no_lbrace s : no_lbrace s = true -> partition_brace s = (s, false, []).
Proof.
  induction s as [|c s IH]; cbn [no_lbrace forallb partition_brace]; [reflexivity|].
  intros H. apply andb_prop in H as [H1 H2]. apply negb_true_iff in H1. rewrite lbrace_is in H1. rewrite H1.
  fold (no_lbrace s) in H2. rewrite (IH H2). reflexivity.
Qed.

Lemma re_split_hyphen fuel : forall prev s acc, length s < fuel ->
  re_split_go fuel sep_hyphen prev s acc = split_char c_hyphen s acc.
Proof.
  induction fuel as [|f IH]; intros prev s acc L; [lia|].
  cbn [re_split_go]. destruct s as [|c t]; [reflexivity|]. cbn [length] in L.
  cbn [sep_hyphen split_char]. destruct (N.eqb c c_hyphen).
  - cbn [skipn]. f_equal. apply IH. lia.
  - apply IH. lia.
Qed.

Lemma split_char_nonempty c s acc : split_char c s acc <> [].
Proof. revert acc. induction s as [|x t IH]; intros acc; cbn [split_char]; [discriminate|]. destruct (N.eqb x c); [discriminate|apply IH]. Qed.

Lemma split_char_chars (p : char -> bool) c s : forall acc, forallb p s = true -> forallb p acc = true ->
  Forall (fun piece => forallb p piece = true) (split_char c s acc).
Proof.
  induction s as [|x t IH]; intros acc Hs Ha; cbn [split_char].
  - constructor; [|constructor]. rewrite forallb_forall in *. intros y Y. apply Ha. apply in_rev. exact Y.
  - cbn [forallb] in Hs. apply andb_prop in Hs as [H1 H2]. destruct (N.eqb x c).
    + constructor; [|apply IH; auto].
      rewrite forallb_forall in *. intros y Y. apply Ha. apply in_rev. exact Y.
    + apply IH; [exact H2|]. cbn [forallb]. rewrite H1, Ha. reflexivity.
Qed.

Lemma removelast_last {X} (l : list X) d : l <> [] -> l = removelast l ++ [last l d].
Proof. intros H. apply app_removelast_last. exact H. Qed.

(* split_tex_string(w, sep='-') on a brace-free word *)
Lemma split_hyphen_no_lbrace w : no_lbrace w = true -> w <> [] ->
  split_tex_hyphen w = Ok (map strip (split_char c_hyphen w [])).
Proof.
  intros NB NE. unfold split_tex_hyphen, split_tex_string_gen. cbn [length split_loop].
  rewrite (partition_no_lbrace w NB).
  destruct w as [|c0 w0]; [contradiction|].
  unfold re_split. rewrite re_split_hyphen by lia.
  set (hp := split_char c_hyphen (c0 :: w0) []).
  assert (HN : hp <> []) by apply split_char_nonempty.
  pose proof (removelast_last hp [] HN) as E. clearbody hp.
  remember (last hp []) as lp eqn:Hl. remember (removelast hp) as rl eqn:Hr. clear Hl Hr. subst hp.
  destruct rl as [|w ws]; cbn [app concat]; rewrite ?app_nil_r; reflexivity.
Qed.

Lemma iter_go_no_lbrace s : no_lbrace s = true -> iter_go s 0 None = Ok (map (fun c => [c]) s).
Proof.
  induction s as [|c s IH]; cbn [no_lbrace forallb iter_go map]; [reflexivity|].
  intros H. apply andb_prop in H as [H1 H2]. apply negb_true_iff in H1. rewrite lbrace_is in H1. rewrite H1.
  cbn [Nat.ltb Nat.leb andb]. rewrite andb_false_r. fold (no_lbrace s) in H2. rewrite (IH H2). reflexivity.
Qed.

Lemma first_letter_of_singletons s : first_letter_of (map (fun c => [c]) s) = first_alpha s.
Proof. induction s as [|c s IH]; cbn [map first_letter_of first_alpha]; [reflexivity|]. rewrite IH. reflexivity. Qed.

Lemma first_letter_no_lbrace s : no_lbrace s = true -> bibtex_first_letter s = Ok (first_alpha s).
Proof. intros H. unfold bibtex_first_letter. rewrite iter_go_no_lbrace by exact H. cbn [bind]. rewrite first_letter_of_singletons. reflexivity. Qed.

Lemma no_lbrace_lstrip s : no_lbrace s = true -> no_lbrace (lstrip s) = true.
Proof.
  induction s as [|c s IH]; cbn [lstrip]; [auto|]. intros H. destruct (is_space c); [|exact H].
  cbn [no_lbrace forallb] in H. apply andb_prop in H as [_ H]. apply IH. exact H.
Qed.

Lemma no_lbrace_rev s : no_lbrace (rev s) = no_lbrace s.
Proof.
  unfold no_lbrace. induction s as [|c s IH]; [reflexivity|]. cbn [rev forallb].
  rewrite forallb_app, IH. cbn [forallb]. rewrite andb_true_r. apply andb_comm.
Qed.

Lemma no_lbrace_strip s : no_lbrace s = true -> no_lbrace (strip s) = true.
Proof.
  intros H. unfold strip, rstrip. rewrite no_lbrace_rev. apply no_lbrace_lstrip. rewrite no_lbrace_rev.
  apply no_lbrace_lstrip. exact H.
Qed.

Lemma map_res_first_letter l : Forall (fun t => no_lbrace t = true) l ->
  map_res bibtex_first_letter l = Ok (map first_alpha l).
Proof.
  induction 1 as [|t l H F IH]; cbn [map_res map]; [reflexivity|].
  rewrite (first_letter_no_lbrace t H). cbn [bind]. rewrite IH. reflexivity.
Qed.

Theorem abbrev_hyphen_thm w d : no_lbrace w = true ->
  bibtex_abbreviate w d =
  Ok (join (delim_or_default d) (filter nonempty (map (fun piece => first_alpha (strip piece)) (split_char c_hyphen w [])))).
Proof.
  intros NB. destruct w as [|c0 w0].
  - reflexivity.
  - unfold bibtex_abbreviate. rewrite split_hyphen_no_lbrace; [|exact NB|discriminate]. cbn [bind].
    rewrite map_res_first_letter.
    + cbn [bind]. rewrite map_map. reflexivity.
    + apply Forall_map.
      eapply Forall_impl; [|apply (split_char_chars (fun c => negb (lbrace c)) c_hyphen (c0 :: w0) [] NB eq_refl)].
      intros piece H. apply no_lbrace_strip. exact H.
Qed.
