(* Proofs/IO.v -- the open() failure matrix of Model/IO.v *)
From Pybtex Require Import Base.Prelude Base.PyChar Base.PyStr Model.Plugins Model.IO.

Lemma startswith_app (p s : str) : startswith (p ++ s) p = true.
Proof. induction p as [|c p IH]; cbn; [now destruct s|]. now rewrite N.eqb_refl. Qed.

Lemma infix_start (needle hay : str) : startswith hay needle = true -> infix needle hay = true.
Proof. intros H. destruct hay; cbn [infix]; rewrite H; reflexivity. Qed.

Lemma infix_app (needle a b : str) : infix needle (a ++ needle ++ b) = true.
Proof.
  induction a as [|c a IH]; cbn [app].
  - apply infix_start, startswith_app.
  - cbn [infix]. rewrite IH. apply orb_true_r.
Qed.

Lemma message_names_file filename e : infix filename (open_error_message filename e) = true.
Proof. unfold open_error_message. apply infix_app. Qed.

Definition is_write (mode : str) : bool := existsb (N.eqb c_w) mode.
Definition opener_st (sc : list oresult) : ost := {| script := sc; log := [] |}.

(* ---- the write matrix: every pattern (first attempt, fallback attempt) ---- *)
Lemma open_write_first_ok h rest filename mode enc tex isfile kp :
  is_write mode = true ->
  open_ (opener_st (OHandle h :: rest)) (TName filename) mode enc tex isfile kp
  = (OpenOk h, {| script := rest; log := [((filename, mode), enc)] |}).
Proof. intros W. unfold open_. fold (is_write mode). rewrite W. reflexivity. Qed.

Lemma open_write_no_texmfoutput e rest filename mode enc isfile kp :
  is_write mode = true ->
  open_ (opener_st (OEnvErr e :: rest)) (TName filename) mode enc None isfile kp
  = (OpenErr (open_error_message filename e), {| script := rest; log := [((filename, mode), enc)] |}).
Proof. intros W. unfold open_. fold (is_write mode). rewrite W. reflexivity. Qed.

Lemma open_write_fallback_ok e h rest filename mode enc d isfile kp :
  is_write mode = true ->
  open_ (opener_st (OEnvErr e :: OHandle h :: rest)) (TName filename) mode enc (Some d) isfile kp
  = (OpenOk h, {| script := rest; log := [((filename, mode), enc); ((path_join d filename, mode), enc)] |}).
Proof. intros W. unfold open_. fold (is_write mode). rewrite W. reflexivity. Qed.

Lemma open_write_both_fail e e2 rest filename mode enc d isfile kp :
  is_write mode = true ->
  open_ (opener_st (OEnvErr e :: OEnvErr e2 :: rest)) (TName filename) mode enc (Some d) isfile kp
  = (OpenErr (open_error_message filename e),
     {| script := rest; log := [((filename, mode), enc); ((path_join d filename, mode), enc)] |}).
Proof. intros W. unfold open_. fold (is_write mode). rewrite W. reflexivity. Qed.

(* ---- the read matrix ---- *)
(* the path the opener is asked for when reading *)
Definition read_path (filename : str) (isfile : bool) (kp : proc) : option str :=
  if isfile then Some filename
  else match kpsewhich kp with
       | LEnvErr _ => None
       | LPath (c :: p) => Some (c :: p)
       | _ => Some filename
       end.

Lemma open_read_ok h rest filename mode enc tex isfile kp p :
  is_write mode = false -> read_path filename isfile kp = Some p ->
  open_ (opener_st (OHandle h :: rest)) (TName filename) mode enc tex isfile kp
  = (OpenOk h, {| script := rest; log := [((p, mode), enc)] |}).
Proof.
  intros W P. unfold open_. fold (is_write mode). rewrite W. unfold open_existing, read_path in *.
  destruct isfile; [inversion P; reflexivity|].
  destruct (kpsewhich kp) as [[|c q]| |]; inversion P; reflexivity.
Qed.

Lemma open_read_fail e rest filename mode enc tex isfile kp p :
  is_write mode = false -> read_path filename isfile kp = Some p ->
  open_ (opener_st (OEnvErr e :: rest)) (TName filename) mode enc tex isfile kp
  = (OpenErr (open_error_message filename e), {| script := rest; log := [((p, mode), enc)] |}).
Proof.
  intros W P. unfold open_. fold (is_write mode). rewrite W. unfold open_existing, read_path in *.
  destruct isfile; [inversion P; reflexivity|].
  destruct (kpsewhich kp) as [[|c q]| |]; inversion P; reflexivity.
Qed.

(* kpsewhich itself cannot be started: a pybtex error naming the file, nothing is opened *)
Lemma open_read_locate_fails sc filename mode enc tex e :
  is_write mode = false ->
  open_ (opener_st sc) (TName filename) mode enc tex false (PExecFail e)
  = (OpenErr (open_error_message filename e), opener_st sc).
Proof. intros W. unfold open_. fold (is_write mode). rewrite W. reflexivity. Qed.

(* ---- every error of _open names the original file ---- *)
Lemma open_error_names_file st filename mode enc tex isfile kp msg st' :
  open_ st (TName filename) mode enc tex isfile kp = (OpenErr msg, st') ->
  infix filename msg = true.
Proof.
  unfold open_. destruct (if existsb (N.eqb c_w) mode then _ else _) as [a st1].
  destruct a; intros H; inversion H; subst. apply message_names_file.
Qed.

(* ---- open() failures (OSError) never surface as a foreign exception ---- *)
Definition env_only (o : oresult) : Prop := o <> OOther.

Lemma call_opener_env st path mode enc o st' :
  Forall env_only (script st) -> script st <> [] ->
  call_opener st path mode enc = (o, st') ->
  o <> OOther /\ script st = o :: script st'.
Proof.
  unfold call_opener. destruct (script st) as [|x rest]; [congruence|].
  intros F _ H. inversion H; subst. inversion F; subst. split; [assumption|reflexivity].
Qed.

Lemma open_no_foreign_exception sc t mode enc tex isfile kp :
  Forall env_only sc -> 2 <= length sc ->
  fst (open_ (opener_st sc) t mode enc tex isfile kp) <> OpenCrash.
Proof.
  intros F L. destruct sc as [|o1 [|o2 rest]]; cbn in L; try lia.
  inversion F as [|? ? F1 F']; subst. inversion F' as [|? ? F2 _]; subst.
  unfold env_only in *.
  destruct t as [h|filename]; [cbn; discriminate|].
  unfold open_. destruct (existsb (N.eqb c_w) mode).
  - unfold open_or_create, opener_st, call_opener. cbn.
    destruct o1; try congruence; cbn; try discriminate.
    destruct tex; cbn; try discriminate. destruct o2; try congruence; cbn; discriminate.
  - unfold open_existing, opener_st, call_opener. cbn.
    destruct isfile; cbn.
    + destruct o1; try congruence; cbn; discriminate.
    + destruct (kpsewhich kp) as [[|c q]| |]; cbn; try discriminate; destruct o1; try congruence; cbn; discriminate.
Qed.

(* open_raw / open_unicode are _open with the encoding dropped / defaulted *)
Lemma open_unicode_default st t mode tex isfile kp :
  open_unicode st t mode None tex isfile kp = open_ st t mode (Some s_UTF8) tex isfile kp.
Proof. reflexivity. Qed.

Lemma open_write_matrix_all : forall rest filename mode enc isfile kp, is_write mode = true ->
  (forall h tex, open_ (opener_st (OHandle h :: rest)) (TName filename) mode enc tex isfile kp
     = (OpenOk h, {| script := rest; log := [((filename, mode), enc)] |})) /\
  (forall e, open_ (opener_st (OEnvErr e :: rest)) (TName filename) mode enc None isfile kp
     = (OpenErr (open_error_message filename e), {| script := rest; log := [((filename, mode), enc)] |})) /\
  (forall e h d, open_ (opener_st (OEnvErr e :: OHandle h :: rest)) (TName filename) mode enc (Some d) isfile kp
     = (OpenOk h, {| script := rest; log := [((filename, mode), enc); ((path_join d filename, mode), enc)] |})) /\
  (forall e e2 d, open_ (opener_st (OEnvErr e :: OEnvErr e2 :: rest)) (TName filename) mode enc (Some d) isfile kp
     = (OpenErr (open_error_message filename e),
        {| script := rest; log := [((filename, mode), enc); ((path_join d filename, mode), enc)] |})).
Proof.
  intros rest filename mode enc isfile kp W. repeat split; intros.
  - now apply open_write_first_ok.
  - now apply open_write_no_texmfoutput.
  - now apply open_write_fallback_ok.
  - now apply open_write_both_fail.
Qed.

Lemma open_read_matrix_all : forall rest filename mode enc tex isfile kp, is_write mode = false ->
  (forall p h, read_path filename isfile kp = Some p ->
     open_ (opener_st (OHandle h :: rest)) (TName filename) mode enc tex isfile kp
     = (OpenOk h, {| script := rest; log := [((p, mode), enc)] |})) /\
  (forall p e, read_path filename isfile kp = Some p ->
     open_ (opener_st (OEnvErr e :: rest)) (TName filename) mode enc tex isfile kp
     = (OpenErr (open_error_message filename e), {| script := rest; log := [((p, mode), enc)] |})) /\
  (forall e sc, open_ (opener_st sc) (TName filename) mode enc tex false (PExecFail e)
     = (OpenErr (open_error_message filename e), opener_st sc)).
Proof.
  intros rest filename mode enc tex isfile kp W. repeat split; intros.
  - now apply open_read_ok.
  - now apply open_read_fail.
  - now apply open_read_locate_fails.
Qed.

(* ---- the read side for EVERY outcome of (isfile, kpsewhich, first open) ---- *)
(* the named file exists: it is the one and only file opened -- kpsewhich is not consulted,
   whatever it would find -- and failing to open it is a pybtex error naming it *)
Lemma open_existing_file rest filename mode enc tex kp :
  is_write mode = false ->
  (forall h, open_ (opener_st (OHandle h :: rest)) (TName filename) mode enc tex true kp
     = (OpenOk h, {| script := rest; log := [((filename, mode), enc)] |})) /\
  (forall e, open_ (opener_st (OEnvErr e :: rest)) (TName filename) mode enc tex true kp
     = (OpenErr (open_error_message filename e), {| script := rest; log := [((filename, mode), enc)] |})).
Proof.
  intros W. split; intros; unfold open_; fold (is_write mode); rewrite W; reflexivity.
Qed.

(* whatever isfile says, whatever kpsewhich does (cannot be started / exit status / output),
   whatever the one open() attempt yields short of a foreign exception: reading either returns
   exactly the scripted handle, or raises a pybtex error that names the file asked for; at most
   one file is opened *)
Lemma open_read_total o rest filename mode enc tex isfile kp :
  is_write mode = false -> o <> OOther ->
  let '(r, st) := open_ (opener_st (o :: rest)) (TName filename) mode enc tex isfile kp in
  ((exists h, r = OpenOk h /\ o = OHandle h) \/ (exists msg, r = OpenErr msg /\ infix filename msg = true))
  /\ (length (log st) <= 1)%nat.
Proof.
  intros W NO. unfold open_. fold (is_write mode). rewrite W. unfold open_existing.
  destruct isfile; [|destruct (kpsewhich kp) as [[|c q]| |]];
    unfold opener_st, call_opener; cbn [script log app];
    destruct o as [h|e|]; try congruence; cbn;
    (split; [|lia]);
    first [ left; eexists; split; reflexivity
          | right; eexists; split; [reflexivity|apply message_names_file] ].
Qed.
