(* Proofs/Backends.v -- lemmas about Model/Backends.v (property C09) *)
From Pybtex Require Import Base.Prelude Base.PyChar Base.PyStr Model.RtTypes Model.Backends.
Local Open Scope N_scope.

(* ---- induction over rich-text trees (nested lists) ---- *)
Section RtInd.
Variable P : rt -> Prop.
Hypothesis Hstr : forall s, P (RStr s).
Hypothesis Hsym : forall n, P (RSym n).
Hypothesis Htext : forall ps, Forall P ps -> P (RText ps).
Hypothesis Htag : forall n ps, Forall P ps -> P (RTag n ps).
Hypothesis Hhref : forall u e ps, Forall P ps -> P (RHRef u e ps).
Hypothesis Hprot : forall ps, Forall P ps -> P (RProt ps).
Fixpoint rt_ind' (t : rt) : P t :=
  let fix all (ps : list rt) : Forall P ps :=
    match ps with
    | [] => Forall_nil P
    | p :: r => Forall_cons p (rt_ind' p) (all r)
    end in
  match t with
  | RStr s => Hstr s
  | RSym n => Hsym n
  | RText ps => Htext ps (all ps)
  | RTag n ps => Htag n ps (all ps)
  | RHRef u e ps => Hhref u e ps (all ps)
  | RProt ps => Hprot ps (all ps)
  end.
End RtInd.

(* the local fix inside render is render_parts *)
Lemma render_unfold enc T b t :
  render enc T b t =
  match t with
  | RStr s => Ok (format_str enc T b s)
  | RSym n => match lookup n (t_symbols T) with Some v => Ok v | None => Crash end
  | RText ps => render_parts enc T b ps
  | RTag n ps => do x <- render_parts enc T b ps; Ok (format_tag T b n x)
  | RHRef u e ps => do x <- render_parts enc T b ps; Ok (format_href enc b u x e)
  | RProt ps => do x <- render_parts enc T b ps; Ok (format_protected b x)
  end.
Proof.
  assert (H : forall ps,
    (fix rp (ps : list rt) : res str :=
       match ps with
       | [] => Ok []
       | p :: r => do x <- render enc T b p; do y <- rp r; Ok (x ++ y)
       end) ps = render_parts enc T b ps).
  { induction ps as [|p r IH]; cbn [render_parts]; [reflexivity|]. rewrite IH. reflexivity. }
  destruct t; cbn [render]; rewrite ?H; reflexivity.
Qed.

(* ---- plain text: the output is the text with symbols replaced by their plain equivalents ---- *)
Fixpoint plain_with_symbols (T : tables) (t : rt) : res str :=
  let fix go (ps : list rt) : res str :=
    match ps with
    | [] => Ok []
    | p :: r => do x <- plain_with_symbols T p; do y <- go r; Ok (x ++ y)
    end in
  match t with
  | RStr s => Ok s
  | RSym n => match lookup n (t_symbols T) with Some v => Ok v | None => Crash end
  | RText ps | RTag _ ps | RHRef _ _ ps | RProt ps => go ps
  end.

Lemma bind_ok_id {X} (r : res X) : (do x <- r; Ok x) = r.
Proof. destruct r; reflexivity. Qed.

Lemma plain_render_holds enc T t : render enc T BPlain t = plain_with_symbols T t.
Proof.
  induction t using rt_ind'; rewrite render_unfold; cbn [plain_with_symbols]; try reflexivity.
  all: cbn [format_tag format_href format_protected]; rewrite ?bind_ok_id.
  all: induction H as [|p r Hp Hr IH]; cbn [render_parts]; [reflexivity|]; rewrite Hp, IH; reflexivity.
Qed.

(* ---- empty tagged or linked fragments render as nothing, in every back end ---- *)
Lemma empty_fragments_vanish_holds enc T b n u e ps :
  render_parts enc T b ps = Ok [] ->
  render enc T b (RTag n ps) = Ok [] /\ render enc T b (RHRef u e ps) = Ok [].
Proof.
  intros H. rewrite !render_unfold, H. cbn [bind]. split; f_equal.
  - destruct b; cbn [format_tag html_tag is_empty]; try reflexivity;
      destruct (lookup n (t_tags T)) as [[tag|]|]; reflexivity.
  - destruct b; reflexivity.
Qed.
