(* Proofs/CitationsBase.v -- keys up to letter case, case-insensitive sets / dicts: basic lemmas *)
From Pybtex Require Import Base.Prelude Base.PyChar Base.PyStr Model.Citations Spec.Citations.

Lemma keyb_true a b : keyb a b = true <-> lower a = lower b.
Proof. unfold keyb. destruct (str_eqb_spec (lower a) (lower b)); split; congruence. Qed.
Lemma keyb_refl a : keyb a a = true.
Proof. apply keyb_true; reflexivity. Qed.
Lemma keyb_sym a b : keyb a b = keyb b a.
Proof.
  destruct (keyb a b) eqn:E1, (keyb b a) eqn:E2; try reflexivity.
  - apply keyb_true in E1. symmetry in E1. apply keyb_true in E1. congruence.
  - apply keyb_true in E2. symmetry in E2. apply keyb_true in E2. congruence.
Qed.
(* congruence: equivalent keys behave alike *)
Lemma keyb_congr_l a b c : keyb a b = true -> keyb a c = keyb b c.
Proof. intros H. apply keyb_true in H. unfold keyb. rewrite H. reflexivity. Qed.
Lemma keyb_congr_r a b c : keyb a b = true -> keyb c a = keyb c b.
Proof. intros H. apply keyb_true in H. unfold keyb. rewrite H. reflexivity. Qed.
Lemma keyb_trans a b c : keyb a b = true -> keyb b c = true -> keyb a c = true.
Proof. intros H1 H2. rewrite (keyb_congr_l _ _ _ H1). exact H2. Qed.

Lemma existsb_keyb_congr a b l : keyb a b = true -> existsb (keyb a) l = existsb (keyb b) l.
Proof. intros H. induction l as [|x l IH]; cbn; [reflexivity|]. rewrite IH, (keyb_congr_l _ _ _ H). reflexivity. Qed.

Lemma cis_mem_congr a b s : keyb a b = true -> cis_mem a s = cis_mem b s.
Proof. apply existsb_keyb_congr. Qed.

Lemma cis_mem_add x k s : cis_mem x (cis_add k s) = keyb x k || cis_mem x s.
Proof.
  unfold cis_add. destruct (cis_mem k s) eqn:Hk.
  - assert (E : cis_mem x (map (fun y => if keyb k y then k else y) s) = cis_mem x s).
    { unfold cis_mem. clear Hk. induction s as [|y s IH]; cbn; [reflexivity|]. rewrite IH. f_equal.
      destruct (keyb k y) eqn:Eky; [|reflexivity]. apply keyb_congr_r. exact Eky. }
    rewrite E. destruct (keyb x k) eqn:Exk; [|reflexivity]. cbn.
    rewrite (cis_mem_congr _ _ _ Exk). exact Hk.
  - unfold cis_mem. rewrite existsb_app. cbn. rewrite orb_false_r. apply orb_comm.
Qed.

Lemma cis_mem_of_list_gen x l s : cis_mem x (fold_left (fun s k => cis_add k s) l s) = cis_mem x s || existsb (keyb x) l.
Proof.
  revert s. induction l as [|k l IH]; intros s; cbn [fold_left existsb]; [now rewrite orb_false_r|].
  rewrite IH, cis_mem_add. destruct (keyb x k), (cis_mem x s); reflexivity.
Qed.
Lemma cis_mem_of_list x l : cis_mem x (cis_of_list l) = existsb (keyb x) l.
Proof. unfold cis_of_list. rewrite cis_mem_of_list_gen. reflexivity. Qed.

Lemma filter_filter {X} (p q : X -> bool) l : filter p (filter q l) = filter (fun x => p x && q x) l.
Proof. induction l as [|x l IH]; cbn; [reflexivity|]. destruct (q x), (p x) eqn:Ep; cbn; rewrite ?Ep, ?IH; reflexivity. Qed.
Lemma filter_ext_strong {X} (p q : X -> bool) l : (forall x, In x l -> p x = q x) -> filter p l = filter q l.
Proof.
  induction l as [|x l IH]; cbn; intros H; [reflexivity|].
  rewrite (H x (or_introl eq_refl)), IH; [reflexivity|]. intros; apply H; now right.
Qed.
Lemma filter_true {X} (l : list X) : filter (fun _ => true) l = l.
Proof. induction l; cbn; congruence. Qed.

(* entries *)
Lemma ed_get_congr a b E : keyb a b = true -> ed_get a E = ed_get b E.
Proof.
  intros H. unfold ed_get. induction E as [|e E IH]; cbn; [reflexivity|].
  rewrite (keyb_congr_l _ _ _ H), IH. reflexivity.
Qed.
Lemma ed_mem_congr a b E : keyb a b = true -> ed_mem a E = ed_mem b E.
Proof.
  intros H. unfold ed_mem. induction E as [|e E IH]; cbn; [reflexivity|].
  rewrite (keyb_congr_l _ _ _ H), IH. reflexivity.
Qed.
Lemma ed_get_some_key k E e : ed_get k E = Some e -> keyb k (fst e) = true /\ In e E.
Proof. intros H. apply find_some in H. tauto. Qed.
Lemma ed_mem_get k E : ed_mem k E = match ed_get k E with Some _ => true | None => false end.
Proof.
  unfold ed_mem, ed_get. induction E as [|e E IH]; cbn; [reflexivity|].
  destruct (keyb k (fst e)); cbn; [reflexivity|exact IH].
Qed.
Lemma ed_mem_keys k E : ed_mem k E = existsb (keyb k) (ed_keys E).
Proof. unfold ed_mem, ed_keys. induction E as [|e E IH]; cbn; [reflexivity|]. now rewrite IH. Qed.
(* the stored key of an entry finds that same entry *)
Lemma ed_get_stored k E e : ed_get k E = Some e -> ed_get (fst e) E = Some e.
Proof.
  intros H. destruct (ed_get_some_key _ _ _ H) as [Hk _].
  rewrite <- (ed_get_congr _ _ E Hk). exact H.
Qed.
