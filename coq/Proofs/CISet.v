(* Proofs/CISet.v -- invariant of CaseInsensitiveSet (_set / _keys) and refinement to the reference
   "lower-cased key -> last written spelling" map of Spec/CIMap.v. *)
From Pybtex Require Import Base.Prelude Model.CIDict Spec.CIMap Spec.CIRel.
Require Import Permutation.

Section P.
Variable K : Type.
Variable keqb : K -> K -> bool.
Variable lower : K -> K.
Variable ksort : list K -> list K.
Hypothesis keqb_spec : forall a b, reflect (a = b) (keqb a b).
Hypothesis lower_idem : forall k, lower (lower k) = lower k.

Local Notation cis := (cis K).
Local Notation aget := (@al_get K keqb K).
Local Notation aset := (@al_set K keqb K).
Local Notation amem := (@al_mem K keqb K).
Local Notation aremove := (@al_remove K keqb K).
Local Notation kmem := (kmem K keqb).
Local Notation kremove := (kremove K keqb).
Local Notation set_inv := (set_inv K lower).
Local Notation add := (cs_add K keqb lower).
Local Notation discard := (cs_discard K keqb lower).

Lemma keqb_refl k : keqb k k = true.
Proof. destruct (keqb_spec k k); congruence. Qed.

(* the reference functions are the dict functions *)
Lemma ss_find_eq kl m : ss_find K keqb kl m = aget kl m.
Proof. induction m as [|[k' e] m IH]; cbn; [reflexivity|]. rewrite IH. reflexivity. Qed.
Lemma ss_put_eq kl sp m : ss_put K keqb kl sp m = aset kl sp m.
Proof. induction m as [|[k' e] m IH]; cbn; [reflexivity|]. rewrite IH. reflexivity. Qed.
Lemma ss_drop_eq kl m : ss_drop K keqb kl m = aremove kl m.
Proof. induction m as [|[k' e] m IH]; cbn; [reflexivity|]. rewrite IH. reflexivity. Qed.

Lemma kmem_fst k (l : list (K * K)) : kmem k (map fst l) = amem k l.
Proof.
  unfold al_mem. induction l as [|[k' e] l IH]; cbn; [reflexivity|]. destruct (keqb k k'); [reflexivity | exact IH].
Qed.
Lemma kremove_fst k (l : list (K * K)) : kremove k (map fst l) = map fst (aremove k l).
Proof.
  induction l as [|[k' e] l IH]; cbn; [reflexivity|]. destruct (keqb k k'); [reflexivity|]. cbn. rewrite IH. reflexivity.
Qed.
Lemma amem_notin k (l : list (K * K)) : amem k l = false <-> ~ In k (map fst l).
Proof.
  unfold al_mem. induction l as [|[k' e] l IH]; cbn; [tauto|].
  destruct (keqb_spec k k') as [->|N].
  - split; [discriminate | intros H; exfalso; apply H; auto].
  - rewrite IH. split; [intros H [E|I]; [congruence | tauto] | tauto].
Qed.
Lemma aset_fst k x (l : list (K * K)) : map fst (aset k x l) = if amem k l then map fst l else map fst l ++ [k].
Proof.
  unfold al_mem. induction l as [|[k' e] l IH]; cbn; [reflexivity|].
  destruct (keqb k k'); cbn; [reflexivity|]. rewrite IH. destruct (aget k l); reflexivity.
Qed.
Lemma aset_forall (P : K * K -> Prop) k x (l : list (K * K)) :
  (forall k', k' = k -> P (k', x)) -> Forall P l -> Forall P (aset k x l).
Proof.
  intros Hk F. induction l as [|[k' e] l IH]; cbn.
  - constructor; [apply Hk; reflexivity | constructor].
  - inversion F; subst. destruct (keqb_spec k k') as [->|N]; constructor; auto.
Qed.
Lemma aremove_incl k (l : list (K * K)) x : In x (map fst (aremove k l)) -> In x (map fst l).
Proof.
  induction l as [|[k' e] l IH]; cbn; [tauto|]. destruct (keqb k k'); cbn; [tauto|]. intros [E|I]; auto.
Qed.
Lemma aremove_nodup k (l : list (K * K)) : NoDup (map fst l) -> NoDup (map fst (aremove k l)).
Proof.
  induction l as [|[k' e] l IH]; cbn; intros ND; [constructor|]. inversion ND; subst.
  destruct (keqb k k'); [assumption|]. cbn. constructor; [|apply IH; assumption].
  intros I. apply aremove_incl in I. tauto.
Qed.
Lemma aremove_forall (P : K * K -> Prop) k (l : list (K * K)) : Forall P l -> Forall P (aremove k l).
Proof.
  induction l as [|[k' e] l IH]; cbn; intros F; [constructor|]. inversion F; subst.
  destruct (keqb k k'); [assumption|]. constructor; auto.
Qed.
Lemma aremove_mem k (l : list (K * K)) : NoDup (map fst l) -> amem k (aremove k l) = false.
Proof.
  intros ND. apply amem_notin. induction l as [|[k' e] l IH]; cbn; [tauto|]. cbn in ND. inversion ND; subst.
  destruct (keqb_spec k k') as [->|N]; [assumption|]. cbn. intros [E|I]; [congruence|]. apply IH; assumption.
Qed.

(* ---- the invariant is established by the constructor and kept by add / discard *)
Lemma add_inv s k : set_inv s -> set_inv (add s k) /\ s_keys K (add s k) = ss_add K keqb lower (s_keys K s) k.
Proof.
  intros (E & ND & F). unfold cs_add, CIRel.set_inv, ss_add. cbn. rewrite ss_put_eq. split; [|reflexivity].
  rewrite E, kmem_fst, aset_fst. split; [|split].
  - destruct (amem (lower k) (s_keys K s)); reflexivity.
  - destruct (amem (lower k) (s_keys K s)) eqn:M; [exact ND|].
    apply amem_notin in M. clear - ND M. induction (map fst (s_keys K s)) as [|x l IH]; cbn; [constructor; [tauto|constructor]|].
    inversion ND; subst. constructor.
    + rewrite in_app_iff. cbn. intros [I|[I|[]]]; [tauto | subst; apply M; cbn; auto].
    + apply IH; [assumption | cbn in M; tauto].
  - apply aset_forall; [intros k' ->; reflexivity | exact F].
Qed.
Lemma discard_inv s k : set_inv s -> set_inv (discard s k) /\ s_keys K (discard s k) = ss_discard K keqb lower (s_keys K s) k.
Proof.
  intros (E & ND & F). unfold cs_discard, CIRel.set_inv, ss_discard. cbn. rewrite ss_drop_eq. split; [|reflexivity].
  rewrite E, kremove_fst. split; [reflexivity|]. split; [apply aremove_nodup; exact ND | apply aremove_forall; exact F].
Qed.
Lemma empty_inv : set_inv (mkcis K [] []).
Proof. split; [reflexivity|]. split; constructor. Qed.
Lemma fold_add_inv l : forall s, set_inv s ->
  set_inv (fold_left add l s) /\ s_keys K (fold_left add l s) = fold_left (ss_add K keqb lower) l (s_keys K s).
Proof.
  induction l as [|k l IH]; intros s I; cbn; [auto|].
  destruct (add_inv s k I) as [I' E]. destruct (IH _ I') as [I'' E']. rewrite E', E. auto.
Qed.
Lemma fold_discard_inv l : forall s, set_inv s ->
  set_inv (fold_left discard l s) /\ s_keys K (fold_left discard l s) = fold_left (ss_discard K keqb lower) l (s_keys K s).
Proof.
  induction l as [|k l IH]; intros s I; cbn; [auto|].
  destruct (discard_inv s k I) as [I' E]. destruct (IH _ I') as [I'' E']. rewrite E', E. auto.
Qed.
Lemma init_inv l : set_inv (cs_init K keqb lower l).
Proof. apply fold_add_inv, empty_inv. Qed.

(* members are lower-cased keys *)
Lemma member_normal s x : set_inv s -> In x (s_set K s) -> lower x = x.
Proof.
  intros (E & _ & F) I. rewrite E in I. apply in_map_iff in I. destruct I as ([kl sp] & <- & I).
  rewrite Forall_forall in F. specialize (F _ I). cbn in *. rewrite <- F. apply lower_idem.
Qed.

(* ---- clear *)
Lemma clear_abs : forall fuel s, set_inv s -> length (s_set K s) < fuel ->
  exists s', cs_clear_loop K keqb lower fuel s = Some s' /\ s_keys K s' = [] /\ set_inv s'.
Proof.
  induction fuel as [|f IH]; intros s I Hl; [inversion Hl|]. cbn.
  destruct (s_set K s) as [|x r] eqn:Es.
  - exists s. split; [reflexivity|]. split; [|exact I]. destruct I as (E & _). rewrite Es in E.
    destruct (s_keys K s); [reflexivity | discriminate].
  - destruct (discard_inv s x I) as [I' _].
    assert (Hx : lower x = x) by (apply (member_normal s x I); rewrite Es; left; reflexivity).
    apply IH; [exact I'|]. unfold cs_discard. cbn. rewrite Es, Hx. cbn. rewrite keqb_refl. cbn in Hl. lia.
Qed.

(* ---- lower *)
Lemma fold_add_fresh l : forall s, set_inv s -> NoDup (map fst (s_keys K s) ++ l) -> Forall (fun k => lower k = k) l ->
  s_keys K (fold_left add l s) = s_keys K s ++ map (fun k => (k, k)) l.
Proof.
  induction l as [|k l IH]; intros s I ND F; cbn; [rewrite app_nil_r; reflexivity|].
  inversion F as [|? ? Fk Fl]; subst.
  destruct (add_inv s k I) as [I' E].
  assert (Ek : s_keys K (add s k) = s_keys K s ++ [(k, k)]).
  { unfold cs_add. cbn. rewrite Fk. clear - ND keqb_spec. apply NoDup_remove_2 in ND.
    assert (N : ~ In k (map fst (s_keys K s))) by (intros H; apply ND; apply in_or_app; left; exact H).
    clear ND. induction (s_keys K s) as [|[k' e] m IH]; cbn; [reflexivity|].
    destruct (keqb_spec k k') as [->|Nk]; [exfalso; apply N; cbn; auto|]. rewrite IH; [reflexivity|]. cbn in N. tauto. }
  rewrite IH; [rewrite Ek, <- app_assoc; reflexivity | exact I' | | exact Fl].
  rewrite Ek, map_app, <- app_assoc. exact ND.
Qed.
Lemma lower_abs s : set_inv s ->
  s_keys K (cs_lower K keqb lower s) = map (fun e => (fst e, fst e)) (s_keys K s) /\ set_inv (cs_lower K keqb lower s).
Proof.
  intros I. split; [|apply init_inv]. unfold cs_lower, cs_init.
  rewrite fold_add_fresh; [| apply empty_inv | | ].
  - cbn. destruct I as (E & _). rewrite E, map_map. reflexivity.
  - cbn. destruct I as (E & ND & _). rewrite E. exact ND.
  - apply Forall_forall. intros x Hx. apply (member_normal s x I Hx).
Qed.

(* ---- one step *)
Theorem set_step_refines s o : set_inv s ->
  match sstep K keqb lower s o, sspec_step K keqb lower (s_keys K s) o with
  | Some (s', r), Some (m', r') => m' = s_keys K s' /\ r = r' /\ set_inv s'
  | None, None => True
  | _, _ => False
  end.
Proof.
  intros I. destruct o as [k|k|k|k|k| | |l|l|ch]; cbn [sstep sspec_step].
  - destruct (add_inv s k I) as [I' E]. rewrite E. auto.
  - destruct (discard_inv s k I) as [I' E]. rewrite E. auto.
  - unfold cs_remove, cs_contains, ss_has. destruct I as (E & ND & F). rewrite ss_find_eq, E, kmem_fst. unfold al_mem.
    destruct (aget (lower k) (s_keys K s)).
    + destruct (discard_inv s k (conj E (conj ND F))) as [I' E']. rewrite E'. auto.
    + cbn. repeat split; auto.
  - unfold cs_contains, ss_has. destruct I as (E & ND & F). rewrite ss_find_eq, E, kmem_fst. unfold al_mem.
    destruct (aget (lower k) (s_keys K s)); repeat split; auto.
  - unfold cs_canonical. rewrite ss_find_eq. destruct (aget (lower k) (s_keys K s)); cbn; auto.
  - destruct (lower_abs s I) as [E I']. rewrite E. auto.
  - unfold cs_clear. destruct (clear_abs (S (length (s_set K s))) s I) as (s' & R & E & I'); [lia|].
    rewrite R, E. auto.
  - unfold cs_ior. destruct (fold_add_inv l s I) as [I' E]. rewrite E. auto.
  - unfold cs_isub. destruct (fold_discard_inv l s I) as [I' E]. rewrite E. auto.
  - unfold cs_pop. pose proof I as (E & ND & F).
    destruct (s_set K s) as [|x r] eqn:Es.
    + assert (Ek : s_keys K s = []) by (destruct (s_keys K s); [reflexivity | discriminate]).
      rewrite Ek. cbn. rewrite <- Ek at 1. auto.
    + assert (Hm : forall (A : Type) (a b : A), match s_keys K s with [] => a | _ :: _ => b end = b).
      { intros A a b. destruct (s_keys K s); [discriminate | reflexivity]. }
      rewrite Hm, E, kmem_fst, ss_find_eq. unfold al_mem. destruct (aget ch (s_keys K s)) eqn:G; [|exact Logic.I].
      assert (Hn : lower ch = ch).
      { apply (member_normal s ch I). rewrite Es, E.
        destruct (in_dec (fun a b => reflect_dec _ _ (keqb_spec a b)) ch (map fst (s_keys K s))) as [i|n]; [exact i|].
        apply amem_notin in n. unfold al_mem in n. rewrite G in n. discriminate. }
      destruct (discard_inv s ch I) as [I' E']. cbn [ebind]. rewrite E'. unfold ss_discard. rewrite Hn. auto.
Qed.

(* ---- histories *)
Theorem set_run_refines probes : forall ops s, set_inv s ->
  match sspec_run K keqb lower (s_keys K s) ops with
  | Some (xs, mf) =>
    exists l sf, srun K keqb lower ksort probes s ops = Some l /\ map fst l = xs /\
                 srun_state K keqb lower s ops = Some sf /\ s_keys K sf = mf /\ set_inv sf
  | None => srun K keqb lower ksort probes s ops = None /\ srun_state K keqb lower s ops = None
  end.
Proof.
  induction ops as [|o r IH]; intros s I; cbn [sspec_run srun srun_state].
  - exists [], s. auto.
  - pose proof (set_step_refines s o I) as H.
    destruct (sstep K keqb lower s o) as [[s' x]|]; destruct (sspec_step K keqb lower (s_keys K s) o) as [[m' x']|]; try contradiction.
    + destruct H as (-> & -> & I'). specialize (IH s' I').
      destruct (sspec_run K keqb lower (s_keys K s') r) as [[xs mf]|].
      * destruct IH as (l & sf & R1 & R2 & R3 & R4 & R5). rewrite R1.
        exists ((x', sobserve K keqb lower ksort probes s') :: l), sf. cbn. rewrite R2. auto.
      * destruct IH as [R1 R2]. rewrite R1. auto.
    + auto.
Qed.

(* ---- what the protocol shows agrees with the reference map *)
Theorem set_observe_agree s : set_inv s ->
  cs_len K s = length (s_keys K s) /\ cs_iter K s = map fst (s_keys K s) /\ NoDup (cs_iter K s) /\
  map lower (map snd (s_keys K s)) = cs_iter K s /\
  (forall k, cs_contains K keqb lower s k = ss_has K keqb lower (s_keys K s) k) /\
  (forall k, cs_canonical K keqb lower s k = match ss_find K keqb (lower k) (s_keys K s) with Some sp => EOk sp | None => EExn KeyError end) /\
  (forall k, cs_contains K keqb lower s k = true <-> exists sp, cs_canonical K keqb lower s k = EOk sp /\ lower sp = lower k).
Proof.
  intros (E & ND & F). unfold cs_len, cs_iter, cs_contains, cs_canonical, ss_has. rewrite E.
  split; [apply map_length|]. split; [reflexivity|]. split; [exact ND|]. split; [|split; [|split]].
  - clear - F. induction F as [|e m He F IH]; cbn; [reflexivity|]. rewrite He, IH. reflexivity.
  - intros k. rewrite kmem_fst, ss_find_eq. reflexivity.
  - intros k. rewrite ss_find_eq. reflexivity.
  - intros k. rewrite kmem_fst. unfold al_mem. destruct (aget (lower k) (s_keys K s)) as [sp|] eqn:G.
    + split; [intros _|reflexivity]. exists sp. split; [reflexivity|].
      assert (H : In (lower k, sp) (s_keys K s)).
      { clear - G keqb_spec. induction (s_keys K s) as [|[k' e] m IH]; cbn in *; [discriminate|].
        destruct (keqb_spec (lower k) k') as [->|N]; [injection G as ->; auto | auto]. }
      rewrite Forall_forall in F. apply (F _ H).
    + split; [discriminate | intros (sp & H & _); discriminate].
Qed.

Theorem set_reachable_inv s : set_reachable K keqb lower s -> set_inv s.
Proof.
  induction 1 as [l|s o s' r _ IH H].
  - apply init_inv.
  - pose proof (set_step_refines s o IH) as R. rewrite H in R.
    destruct (sspec_step K keqb lower (s_keys K s) o) as [[m' r']|]; [|contradiction]. apply R.
Qed.

(* from the constructor: every history of the set refines the reference map *)
Theorem set_refines l probes ops :
  match sspec_run K keqb lower (fold_left (ss_add K keqb lower) l []) ops with
  | Some (xs, mf) =>
    exists rs sf, srun K keqb lower ksort probes (cs_init K keqb lower l) ops = Some rs /\ map fst rs = xs /\
                  srun_state K keqb lower (cs_init K keqb lower l) ops = Some sf /\ s_keys K sf = mf
  | None => srun K keqb lower ksort probes (cs_init K keqb lower l) ops = None
  end.
Proof.
  pose proof (set_run_refines probes ops (cs_init K keqb lower l) (init_inv l)) as H.
  destruct (fold_add_inv l (mkcis K [] []) empty_inv) as [_ E]. unfold cs_init in *. rewrite E in H. cbn in H.
  destruct (sspec_run K keqb lower (fold_left (ss_add K keqb lower) l []) ops) as [[xs mf]|].
  - destruct H as (rs & sf & H1 & H2 & H3 & H4 & _). exists rs, sf. auto.
  - apply H.
Qed.

(* length, containment, iteration and the remembered spellings of a reachable set agree with each other *)
Theorem set_observe_agree_r s : set_reachable K keqb lower s ->
  cs_len K s = length (s_keys K s) /\ Permutation (cs_iter K s) (map fst (s_keys K s)) /\ NoDup (cs_iter K s) /\
  Permutation (map lower (map snd (s_keys K s))) (cs_iter K s) /\
  (forall k, cs_contains K keqb lower s k = ss_has K keqb lower (s_keys K s) k) /\
  (forall k, cs_canonical K keqb lower s k = match ss_find K keqb (lower k) (s_keys K s) with Some sp => EOk sp | None => EExn KeyError end) /\
  (forall k, cs_contains K keqb lower s k = true <-> exists sp, cs_canonical K keqb lower s k = EOk sp /\ lower sp = lower k) /\
  (forall k1 k2, lower k1 = lower k2 -> cs_contains K keqb lower s k1 = cs_contains K keqb lower s k2 /\
                                        cs_canonical K keqb lower s k1 = cs_canonical K keqb lower s k2).
Proof.
  intros R. destruct (set_observe_agree s (set_reachable_inv s R)) as (H1 & H2 & H3 & H4 & H5 & H6 & H7).
  split; [exact H1|]. split; [rewrite H2; apply Permutation_refl|]. split; [exact H3|].
  split; [rewrite H4; apply Permutation_refl|]. split; [exact H5|]. split; [exact H6|]. split; [exact H7|].
  intros k1 k2 E. unfold cs_contains, cs_canonical. rewrite E. auto.
Qed.

End P.
