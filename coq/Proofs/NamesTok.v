(* Proofs/NamesTok.v -- split_tex_string(s) (separator BIBTEX_SPACE_RE) IS the brace-level tokenizer of the
   property text (Spec/Names.v spec_tokens) on every string whose braces are all closed: it splits at
   every brace-level-0 whitespace character, unescaped tie and control space, and nowhere else. *)
From Pybtex Require Import Base.Prelude Base.PyChar Base.PyStr Model.BibtexStr Spec.Names
  Proofs.NamesSplit Proofs.Names Proofs.NamesAtomic Proofs.NamesLevel0.

Definition NE (l : list str) : list str := filter (fun p => negb (match p with [] => true | _ => false end)) l.
Definition pbof (prev : option char) : bool := match prev with Some p => N.eqb p c_bslash | None => false end.

Lemma NE_app a b : NE (a ++ b) = NE a ++ NE b.
Proof. apply filter_app. Qed.

Lemma NE_cons_flush x l : NE (x :: l) = flush (rev x) (NE l).
Proof.
  unfold NE. cbn [filter]. destruct x as [|c x']; [reflexivity|]. cbn [negb].
  unfold flush. destruct (rev (c :: x')) eqn:E.
  - apply (f_equal (@length _)) in E. rewrite rev_length in E. discriminate.
  - now rewrite <- E, rev_involutive.
Qed.

Lemma flush_flush_nil cur X : flush cur (flush [] X) = flush cur X.
Proof. reflexivity. Qed.

Lemma space_not_bslash c : is_space c = true -> N.eqb c c_bslash = false.
Proof. intros H. apply N.eqb_neq. intros ->. vm_compute in H. discriminate. Qed.

(* at brace level 0, on a continuation that is empty or starts with '{', pb does not matter *)
Definition brace_or_end (R : str) : Prop := R = [] \/ exists R', R = c_lbrace :: R'.
Lemma spec_tok_pb R pb cur : brace_or_end R -> spec_tok R 0 pb cur = spec_tok R 0 false cur.
Proof. intros [->|[R' ->]]; reflexivity. Qed.

Lemma hd_error_app_R (t R : str) : brace_or_end R ->
  match hd_error (t ++ R) with Some n => N.eqb n c_space | None => false end =
  match t with d :: _ => N.eqb d c_space | [] => false end.
Proof. intros [->|[R' ->]]; destruct t; reflexivity. Qed.

Lemma spec_tok_step0 c t pb cur : spec_tok (c :: t) 0 pb cur =
  if is_sep_at pb c (hd_error t) then flush cur (spec_tok t 0 (N.eqb c c_bslash) [])
  else spec_tok t (bl_step 0 c) (N.eqb c c_bslash) (c :: cur).
Proof. reflexivity. Qed.

(* a run of BIBTEX_SPACE_RE matches: the specification drops exactly these characters *)
Lemma run_spec : forall s prev R cur, brace_or_end R -> 0 < space_run prev s ->
  spec_tok (s ++ R) 0 (pbof prev) cur = flush cur (spec_tok (skipn (space_run prev s) s ++ R) 0 false [])
  /\ forall dflt, N.eqb (nth (pred (space_run prev s)) s dflt) c_bslash = false.
Proof.
  induction s as [|c t IH]; intros prev R cur HR Hn; [cbn in Hn; lia|].
  (* after a first separator character [c], with [n'] more to come from [t] *)
  assert (Hnext : forall pb0 prev', is_sep_at pb0 c (hd_error (t ++ R)) = true ->
     pbof prev' = N.eqb c c_bslash ->
     (space_run prev' t = 0 -> N.eqb c c_bslash = false) ->
     spec_tok ((c :: t) ++ R) 0 pb0 cur = flush cur (spec_tok (skipn (S (space_run prev' t)) (c :: t) ++ R) 0 false [])
     /\ forall dflt, N.eqb (nth (pred (S (space_run prev' t))) (c :: t) dflt) c_bslash = false).
  { intros pb0 prev' Hsep Hpb H0. cbn [app]. rewrite spec_tok_step0, Hsep. cbn [skipn pred].
    destruct (space_run prev' t) as [|k] eqn:Ek.
    - rewrite (H0 eq_refl). split; [reflexivity|]. intros dflt. exact (H0 eq_refl).
    - destruct (IH prev' R [] HR) as [H1 H2]; [rewrite Ek; lia|]. rewrite Ek in H1, H2.
      rewrite <- Hpb, H1. split; [reflexivity|]. intros dflt. cbn [nth]. apply (H2 dflt). }
  cbn [space_run] in *.
  destruct (is_space c) eqn:Es.
  - apply (Hnext (pbof prev) (Some c)).
    + unfold is_sep_at. now rewrite Es.
    + reflexivity.
    + intros _. now apply space_not_bslash.
  - destruct (N.eqb c c_tilde) eqn:Et.
    + assert (Hb : N.eqb c c_bslash = false) by (apply N.eqb_eq in Et; subst c; reflexivity).
      assert (Hp : pbof prev = false).
      { destruct prev as [p|]; [|reflexivity]. cbn [pbof]. destruct (N.eqb p c_bslash); [lia|reflexivity]. }
      assert (Hrun : space_run prev (c :: t) = S (space_run (Some c) t)).
      { cbn [space_run]. rewrite Es, Et. destruct prev as [p|]; [|reflexivity]. cbn [pbof] in Hp. now rewrite Hp. }
      assert (G := Hnext (pbof prev) (Some c)). cbn [space_run] in Hrun. rewrite Es, Et in Hrun. rewrite Hrun.
      apply G; [unfold is_sep_at; rewrite Es, Et, Hp; reflexivity|reflexivity|intros _; exact Hb].
    + destruct (N.eqb c c_bslash) eqn:Eb; [|lia].
      destruct t as [|d t']; [lia|]. destruct (N.eqb d c_space) eqn:Ed; [|lia].
      apply N.eqb_eq in Ed. subst d.
      change (S (S (space_run (Some c_space) t'))) with (S (space_run (Some c_bslash) (c_space :: t'))).
      apply (Hnext (pbof prev) (Some c_bslash)).
      * unfold is_sep_at. rewrite Es, Et, Eb. reflexivity.
      * reflexivity.
      * intros H. cbn in H. discriminate.
Qed.

(* where BIBTEX_SPACE_RE does not match, the specification sees no separator *)
Lemma sep_zero prev c t R : brace_or_end R -> space_run prev (c :: t) = 0 ->
  is_sep_at (pbof prev) c (hd_error (t ++ R)) = false.
Proof.
  intros HR. cbn [space_run]. unfold is_sep_at.
  destruct (is_space c); [discriminate|]. cbn [orb].
  destruct (N.eqb c c_tilde) eqn:Et.
  - assert (Hb : N.eqb c c_bslash = false) by (apply N.eqb_eq in Et; subst c; reflexivity).
    rewrite Hb. cbn [andb orb]. destruct prev as [p|]; [|discriminate]. cbn [pbof].
    destruct (N.eqb p c_bslash); [reflexivity|discriminate].
  - cbn [andb orb]. destruct (N.eqb c c_bslash); [|reflexivity]. cbn [andb].
    rewrite (hd_error_app_R t R HR). destruct t as [|d t']; [reflexivity|].
    destruct (N.eqb d c_space); [discriminate|reflexivity].
Qed.

(* re.split on a brace-free head, started with the current token [acc], against the specification *)
Lemma re_split_go_spec : forall fuel prev h acc R, length h < fuel -> forallb nolb h = true -> brace_or_end R ->
  exists firsts lastp, re_split_go fuel sep_space prev h acc = firsts ++ [lastp] /\
    spec_tok (h ++ R) 0 (pbof prev) acc = NE firsts ++ spec_tok R 0 false (rev lastp).
Proof.
  induction fuel as [|f IH]; intros prev h acc R Hl Hh HR; [lia|]. cbn [re_split_go].
  destruct h as [|c t].
  - exists [], (rev acc). split; [reflexivity|]. cbn [app NE filter]. rewrite rev_involutive. now apply spec_tok_pb.
  - cbn [forallb] in Hh. apply andb_prop in Hh as [Hc Ht]. cbn [length] in Hl.
    destruct (sep_space prev (c :: t)) as [|k] eqn:E.
    + destruct (IH (Some c) t (c :: acc) R) as (firsts & lastp & E1 & E2); [lia|exact Ht|exact HR|].
      exists firsts, lastp. split; [exact E1|]. rewrite <- E2. cbn [app]. rewrite spec_tok_step0.
      unfold sep_space in E. rewrite (sep_zero prev c t R HR E).
      unfold nolb, is_lbrace in Hc. apply negb_true_iff in Hc.
      assert (Hb : bl_step 0 c = 0) by (unfold bl_step; rewrite Hc; destruct (N.eqb c c_rbrace); reflexivity).
      rewrite Hb. reflexivity.
    + unfold sep_space in E.
      destruct (run_spec (c :: t) prev R acc HR) as [H1 H2]; [rewrite E; lia|]. rewrite E in H1, H2.
      destruct (IH (Some (nth k (c :: t) c)) (skipn (S k) (c :: t)) [] R) as (firsts & lastp & E1 & E2).
      * assert (H := skipn_length (S k) (c :: t)). cbn [length] in H. lia.
      * apply forallb_skipn. cbn [forallb]. now rewrite Hc, Ht.
      * exact HR.
      * exists (rev acc :: firsts), lastp. split; [cbn [app]; now rewrite E1|].
        rewrite H1. cbn [app]. rewrite NE_cons_flush, rev_involutive.
        cbn [pbof] in E2. cbn [pred] in H2. rewrite (H2 c) in E2. rewrite E2.
        unfold flush. destruct acc; reflexivity.
Qed.

(* the current token only prefixes the first piece *)
Lemma re_split_go_acc m : forall fuel prev h a b,
  re_split_go fuel m prev h (a ++ b) =
  match re_split_go fuel m prev h a with p :: ps => (rev b ++ p) :: ps | [] => [] end.
Proof.
  induction fuel as [|f IH]; intros prev h a b; cbn [re_split_go].
  - now rewrite rev_app_distr, <- app_assoc.
  - destruct h as [|c t]; [now rewrite rev_app_distr|].
    destruct (m prev (c :: t)) as [|k].
    + change (c :: a ++ b) with ((c :: a) ++ b). apply IH.
    + now rewrite rev_app_distr.
Qed.

(* a group: from level S l down to the first return to level 0, everything joins the current token *)
Fixpoint grp (u : str) (d : nat) : bool :=
  match u with
  | [] => false
  | c :: t => match bl_step d c with O => match t with [] => true | _ => false end | S d' => grp t (S d') end
  end.

Lemma fcb_first_zero_grp : forall s l i lst, lvl s (S l) = 0 ->
  exists k, fcb_pos s (S l) i lst = i + S k /\ grp (firstn (S k) s) (S l) = true.
Proof.
  induction s as [|c t IH]; intros l i lst H; [discriminate|].
  rewrite lvl_cons in H. cbn [fcb_pos]. unfold is_lbrace, is_rbrace. unfold bl_step in H.
  destruct (N.eqb c c_lbrace) eqn:El.
  - destruct (IH (S l) (S i) (S i) H) as (k & Hp & H1).
    exists (S k). split; [rewrite Hp; lia|]. cbn [firstn grp]. unfold bl_step. rewrite El. exact H1.
  - destruct (N.eqb c c_rbrace) eqn:Er.
    + destruct l as [|l'].
      * exists 0. split; [lia|]. cbn [firstn grp]. unfold bl_step. rewrite El, Er. reflexivity.
      * cbn [pred] in H. destruct (IH l' (S i) (S i) H) as (k & Hp & H1).
        exists (S k). split; [rewrite Hp; lia|]. cbn [firstn grp]. unfold bl_step. rewrite El, Er. exact H1.
    + destruct (IH l (S i) lst H) as (k & Hp & H1).
      exists (S k). split; [rewrite Hp; lia|]. cbn [firstn grp]. unfold bl_step. rewrite El, Er. exact H1.
Qed.

(* a group that is never closed: the level stays >= 1 to the end of the string *)
Fixpoint nz (u : str) (d : nat) : bool :=
  match u with
  | [] => true
  | c :: t => match bl_step d c with O => false | S d' => nz t (S d') end
  end.

Lemma fcb_cases : forall s l i lst,
  (exists k, fcb_pos s (S l) i lst = i + S k /\ grp (firstn (S k) s) (S l) = true) \/
  (fcb_pos s (S l) i lst = i + length s /\ nz s (S l) = true).
Proof.
  induction s as [|c t IH]; intros l i lst; [right; cbn; split; [lia|reflexivity]|].
  cbn [fcb_pos]. unfold is_lbrace, is_rbrace.
  assert (Hstep : forall l' lst', bl_step (S l) c = S l' ->
     fcb_pos t (S l') (S i) lst' = fcb_pos t (S l') (S i) lst' ->
     (exists k, fcb_pos t (S l') (S i) lst' = i + S k /\ grp (firstn (S k) (c :: t)) (S l) = true) \/
     (fcb_pos t (S l') (S i) lst' = i + length (c :: t) /\ nz (c :: t) (S l) = true)).
  { intros l' lst' Hb _. destruct (IH l' (S i) lst') as [(k & Hp & Hg)|[Hp Hn]].
    - left. exists (S k). split; [rewrite Hp; lia|]. cbn [firstn grp]. rewrite Hb. exact Hg.
    - right. split; [rewrite Hp; cbn [length]; lia|]. cbn [nz]. rewrite Hb. exact Hn. }
  destruct (N.eqb c c_lbrace) eqn:El.
  - apply (Hstep (S l) (S i)); [unfold bl_step; now rewrite El|reflexivity].
  - destruct (N.eqb c c_rbrace) eqn:Er.
    + destruct l as [|l'].
      * left. exists 0. split; [lia|]. cbn [firstn grp]. unfold bl_step. rewrite El, Er. reflexivity.
      * apply (Hstep l' (S i)); [unfold bl_step; now rewrite El, Er|reflexivity].
    + apply (Hstep l lst); [unfold bl_step; now rewrite El, Er|reflexivity].
Qed.

Lemma nz_spec : forall u l pb cur, nz u (S l) = true -> spec_tok u (S l) pb cur = flush (rev u ++ cur) [].
Proof.
  induction u as [|c t IH]; intros l pb cur H; [reflexivity|].
  cbn [nz] in H. cbn [spec_tok Nat.eqb andb].
  destruct (bl_step (S l) c) as [|d'] eqn:Eb; [discriminate|].
  rewrite (IH d' (N.eqb c c_bslash) (c :: cur) H). cbn [rev]. now rewrite <- app_assoc.
Qed.

Lemma find_closing_brace_cases rest u r' : find_closing_brace rest = (u, r') ->
  rest = u ++ r' /\ (grp u 1 = true \/ (r' = [] /\ nz u 1 = true)).
Proof.
  intros F. split; [now apply find_closing_brace_app|].
  unfold find_closing_brace in F.
  destruct (fcb_cases rest 0 0 0) as [(k & Hp & Hg)|[Hp Hn]]; rewrite Hp in F.
  - change ((firstn (S k) rest, skipn (S k) rest) = (u, r')) in F.
    assert (Eu : u = firstn (S k) rest) by congruence. left. now rewrite Eu.
  - right. cbn [Nat.add] in F. destruct rest as [|c t].
    + cbn in F. injection F as <- <-. auto.
    + change (Nat.eqb (length (c :: t)) 0) with false in F. cbv iota in F.
      rewrite firstn_all, skipn_all in F. injection F as <- <-. auto.
Qed.

Lemma step_to_zero_not_bslash l c : bl_step (S l) c = 0 -> N.eqb c c_bslash = false.
Proof.
  unfold bl_step. destruct (N.eqb c c_lbrace); [discriminate|].
  destruct (N.eqb c c_rbrace) eqn:E; [|discriminate]. intros _. apply N.eqb_eq in E. now subst c.
Qed.

Lemma grp_spec : forall u l R pb cur, grp u (S l) = true ->
  spec_tok (u ++ R) (S l) pb cur = spec_tok R 0 false (rev u ++ cur).
Proof.
  induction u as [|c t IH]; intros l R pb cur H; [discriminate|].
  cbn [grp] in H. cbn [app spec_tok Nat.eqb andb].
  destruct (bl_step (S l) c) as [|d'] eqn:Eb.
  - destruct t; [|discriminate]. now rewrite (step_to_zero_not_bslash l c Eb).
  - rewrite (IH d' R (N.eqb c c_bslash) (c :: cur) H). cbn [rev]. now rewrite <- app_assoc.
Qed.

Lemma find_closing_brace_grp rest u r' : closed (c_lbrace :: rest) -> find_closing_brace rest = (u, r') ->
  rest = u ++ r' /\ grp u 1 = true.
Proof.
  intros H F. split; [now apply find_closing_brace_app|].
  change (lvl (c_lbrace :: rest) 0 = 0) in H. rewrite lvl_cons in H. change (bl_step 0 c_lbrace) with 1 in H.
  destruct (fcb_first_zero_grp rest 0 0 0 H) as (k & Hp & H1).
  unfold find_closing_brace in F. rewrite Hp in F.
  change ((firstn (S k) rest, skipn (S k) rest) = (u, r')) in F.
  assert (Eu : u = firstn (S k) rest) by congruence. now rewrite Eu.
Qed.

Lemma rev_concat_snoc (wp : list str) (x : str) : rev (concat (wp ++ [x])) = rev x ++ rev (concat wp).
Proof. rewrite concat_snoc_str. apply rev_app_distr. Qed.

(* the loop of split_tex_string against the specification *)
Lemma split_loop_spec : forall fuel s result wp r,
  split_loop fuel sep_space s result wp = Some r ->
  NE r = NE result ++ spec_tok s 0 false (rev (concat wp)).
Proof.
  induction fuel as [|f IH]; intros s result wp r; cbn [split_loop]; [discriminate|].
  destruct (partition_brace s) as [[h b] rest] eqn:P.
  intros H.
  assert (Hh : forallb nolb h = true).
  { destruct b; [apply partition_brace_true in P|apply partition_brace_false in P]; apply P. }
  set (R := if b then c_lbrace :: rest else @nil char).
  assert (HR : brace_or_end R) by (destruct b; [right; eexists; reflexivity|left; reflexivity]).
  assert (Es : s = h ++ R).
  { destruct b; [apply partition_brace_true in P|apply partition_brace_false in P]; unfold R.
    - apply P. - destruct P as (-> & _). now rewrite app_nil_r. }
  assert (Hhead : forall result1 wp1,
    match h with
    | [] => (result, wp)
    | _ :: _ => match removelast (re_split sep_space h) with
                | [] => (result, wp ++ [last (re_split sep_space h) []])
                | w :: ws => (result ++ [concat (wp ++ [w])] ++ ws, [last (re_split sep_space h) []])
                end
    end = (result1, wp1) ->
    NE result ++ spec_tok s 0 false (rev (concat wp)) = NE result1 ++ spec_tok R 0 false (rev (concat wp1))).
  { intros result1 wp1. rewrite Es. destruct h as [|c h'].
    - intros [= <- <-]. reflexivity.
    - destruct (re_split_go_spec (S (length (c :: h'))) None (c :: h') (rev (concat wp)) R
                  (Nat.lt_succ_diag_r _) Hh HR) as (firsts' & lastp' & E1 & E2).
      cbn [pbof] in E2. rewrite E2. clear E2.
      change (rev (concat wp)) with ([] ++ rev (concat wp)) in E1. rewrite re_split_go_acc in E1.
      fold (re_split sep_space (c :: h')) in E1. rewrite rev_involutive in E1.
      assert (Hne : re_split sep_space (c :: h') <> []) by apply re_split_go_nonempty.
      destruct (exists_last Hne) as (firsts & lastp & Ehp). rewrite Ehp in *. clear Ehp Hne.
      rewrite removelast_app by discriminate. cbn [removelast]. rewrite app_nil_r, last_last.
      destruct firsts as [|w ws].
      + cbn [app] in E1. intros [= <- <-].
        change ([concat wp ++ lastp]) with ([] ++ [concat wp ++ lastp]) in E1.
        apply app_inj_tail in E1 as [<- <-]. cbn [NE filter app]. now rewrite concat_snoc_str.
      + cbn [app] in E1. intros [= <- <-].
        assert (E3 : firsts' = (concat wp ++ w) :: ws /\ lastp' = lastp).
        { change ((concat wp ++ w) :: ws ++ [lastp]) with (((concat wp ++ w) :: ws) ++ [lastp]) in E1.
          apply app_inj_tail in E1. destruct E1; split; congruence. }
        destruct E3 as [-> ->]. rewrite !NE_app, <- app_assoc. f_equal.
        cbn [concat]. rewrite app_nil_r. rewrite concat_snoc_str.
        change ([concat wp ++ w] ++ ws) with ((concat wp ++ w) :: ws). reflexivity. }
  match type of H with context [let '(_, _) := ?e in _] => destruct e as [result1 wp1] eqn:Eh end.
  rewrite (Hhead result1 wp1 eq_refl). clear Hhead.
  destruct b; unfold R.
  - destruct (find_closing_brace rest) as [u r'] eqn:F.
    destruct (find_closing_brace_cases _ _ _ F) as [-> [Hgr|[-> Hnz]]].
    + apply IH in H. rewrite H. f_equal.
      rewrite spec_tok_step0. change (is_sep_at false c_lbrace (hd_error (u ++ r'))) with false. cbv iota.
      change (bl_step 0 c_lbrace) with 1.
      rewrite (grp_spec u 0 r' (N.eqb c_lbrace c_bslash) (c_lbrace :: rev (concat wp1)) Hgr). f_equal.
      rewrite concat_app. cbn [concat]. rewrite app_nil_r, !rev_app_distr. cbn [rev app]. now rewrite <- app_assoc.
    + apply IH in H. rewrite H. f_equal. rewrite app_nil_r.
      rewrite spec_tok_step0. change (is_sep_at false c_lbrace (hd_error u)) with false. cbv iota.
      change (bl_step 0 c_lbrace) with 1.
      rewrite (nz_spec u 0 (N.eqb c_lbrace c_bslash) (c_lbrace :: rev (concat wp1)) Hnz).
      cbn [spec_tok]. f_equal.
      rewrite concat_app. cbn [concat]. rewrite app_nil_r, !rev_app_distr. cbn [rev app]. now rewrite <- app_assoc.
  - injection H as <-. destruct wp1 as [|x wp1'].
    + cbn [concat rev spec_tok flush]. now rewrite app_nil_r.
    + rewrite NE_app. f_equal. cbn [spec_tok]. rewrite NE_cons_flush. cbn [NE filter].
      unfold flush. now rewrite rev_involutive.
Qed.

(* split_tex_string(s) = the tokenizer of the property text, for every string whose braces are all closed *)
Lemma tokenizer_spec_pf s : closed s -> split_tex_space s = Ok (spec_tokens s).
Proof.
  intros Hs. unfold split_tex_space, split_tex_string_gen.
  destruct (split_loop_fuel sep_space (S (length s)) s [] [] (Nat.lt_succ_diag_r _)) as [r0 E]. rewrite E.
  assert (HG := split_loop_G _ _ _ _ _ E Hs (Forall_nil _) G_nil).
  assert (Hm : map strip r0 = r0).
  { clear E. induction HG as [|x l Hx Hl IH]; [reflexivity|]. cbn [map]. now rewrite IH, (G_strip x Hx). }
  rewrite Hm. f_equal. fold (NE r0). now rewrite (split_loop_spec _ _ _ _ _ E).
Qed.

(* ---- every string: split_tex_string(s) = [t.strip() for t in spec_tokens(s)].  (Only a token that ends inside a
   never-closed group can end in whitespace; for closed strings strip changes nothing, see above.) ---- *)
Definition fns (x : str) : Prop := match x with [] => False | c :: _ => is_space c = false end.

Lemma fns_snoc x c : fns x -> fns (x ++ [c]).
Proof. destruct x; [contradiction|exact (fun H => H)]. Qed.

Lemma spec_tok_fns : forall s d pb cur, (d = 0 \/ cur <> []) -> (cur = [] \/ fns (rev cur)) ->
  Forall fns (spec_tok s d pb cur).
Proof.
  induction s as [|c t IH]; intros d pb cur Hd Hc; cbn [spec_tok].
  - destruct cur; [constructor|]. destruct Hc as [Hc|Hc]; [discriminate|]. constructor; [exact Hc|constructor].
  - destruct (Nat.eqb d 0 && is_sep_at pb c (hd_error t)) eqn:E.
    + assert (Hr : Forall fns (spec_tok t 0 (N.eqb c c_bslash) [])) by (apply IH; auto).
      destruct cur; [exact Hr|]. destruct Hc as [Hc|Hc]; [discriminate|]. constructor; assumption.
    + apply IH; [right; discriminate|]. right. cbn [rev].
      destruct Hc as [->|Hc]; [|now apply fns_snoc].
      destruct Hd as [->|Hd]; [|congruence]. cbn [Nat.eqb andb] in E. cbn [rev app fns].
      unfold is_sep_at in E. destruct (is_space c); [discriminate|reflexivity].
Qed.

Lemma lstrip_snoc_nonspace a c : is_space c = false -> lstrip (a ++ [c]) <> [].
Proof.
  intros Hc. induction a as [|x a IH]; cbn [app lstrip]; [rewrite Hc; discriminate|].
  destruct (is_space x); [exact IH|discriminate].
Qed.

Lemma fns_strip_nonempty x : fns x -> strip x <> [].
Proof.
  destruct x as [|c t]; [contradiction|]. cbn [fns]. intros Hc. unfold strip. cbn [lstrip]. rewrite Hc.
  unfold rstrip. cbn [rev]. intros E. apply (f_equal (@rev _)) in E. rewrite rev_involutive in E.
  now apply (lstrip_snoc_nonspace (rev t) c Hc).
Qed.

Lemma NE_map_strip (r : list str) : (forall x, In x r -> x <> [] -> strip x <> []) ->
  NE (map strip r) = map strip (NE r).
Proof.
  induction r as [|x r IH]; intros H; [reflexivity|]. cbn [map]. unfold NE in *. cbn [filter].
  rewrite IH by (intros y Hy; apply H; now right).
  destruct x as [|c x']; [reflexivity|]. cbn [negb].
  destruct (strip (c :: x')) eqn:E; [exfalso; apply (H (c :: x')); [now left|discriminate|exact E]|].
  cbn [negb map]. now rewrite E.
Qed.

Lemma tokenizer_spec_all_pf s : split_tex_space s = Ok (map strip (spec_tokens s)).
Proof.
  unfold split_tex_space, split_tex_string_gen.
  destruct (split_loop_fuel sep_space (S (length s)) s [] [] (Nat.lt_succ_diag_r _)) as [r0 E]. rewrite E.
  assert (Hs := split_loop_spec _ _ _ _ _ E). cbn [NE filter app concat rev] in Hs. fold (spec_tokens s) in Hs.
  f_equal. fold (NE (map strip r0)). rewrite <- Hs. apply NE_map_strip.
  intros x Hx Hne. apply fns_strip_nonempty.
  assert (Hin : In x (NE r0)) by (apply filter_In; split; [exact Hx|destruct x; [congruence|reflexivity]]).
  rewrite Hs in Hin. assert (HF := spec_tok_fns s 0 false [] (or_introl eq_refl) (or_introl eq_refl)).
  rewrite Forall_forall in HF. now apply HF.
Qed.

(* the specification on its own terms: a few values *)
Example spec_tokens_ex1 : spec_tokens (s2l "a~b\ c  {d e}f\~g ~ h") = [s2l "a"; s2l "b"; s2l "c"; s2l "{d e}f\~g"; s2l "h"].
Proof. vm_compute. reflexivity. Qed.

(* ---- at the level of Person(string) ---- *)
From Pybtex Require Import Model.Names.

Lemma person_tokens_spec_pf s parts p rep : closed s ->
  split_tex_comma (strip s) = Ok parts -> person_of_string s = Ok (p, rep) ->
  (length parts <= 1 -> p_first p ++ p_middle p ++ p_prelast p ++ p_last p = spec_tokens (strip s)) /\
  (2 <= length parts ->
     p_prelast p ++ p_last p = spec_tokens (nth 0 parts []) /\ p_lineage p = spec_tokens (jr_part parts) /\
     p_first p ++ p_middle p = spec_tokens (first_part parts)).
Proof.
  intros Hs Hc H. apply closed_strip in Hs.
  assert (Hp : Forall closed parts) by (eapply split_gen_closed; eauto).
  destruct (tokens_preserved_pf _ _ _ _ Hc H) as [H0 H2]. split.
  - intros Hl. destruct (H0 Hl) as (ts & Hts & E & _). rewrite (tokenizer_spec_pf _ Hs) in Hts. congruence.
  - intros Hl. destruct (H2 Hl) as (ta & tj & tf & Ha & Hj & Hf & Ea & Ej & Ef & _).
    rewrite tokenizer_spec_pf in Ha by now apply Forall_nth_closed.
    rewrite tokenizer_spec_pf in Hj by (unfold jr_part; destruct (Nat.eqb _ 2); [reflexivity|now apply Forall_nth_closed]).
    rewrite tokenizer_spec_pf in Hf
      by (unfold first_part; destruct (Nat.eqb _ 2); [now apply Forall_nth_closed|apply closed_join_space; now apply Forall_skipn]).
    repeat split; congruence.
Qed.
