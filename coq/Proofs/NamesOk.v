(* Proofs/NamesOk.v -- parsing SUCCEEDS (not merely: raises no foreign exception) for every name with
   at most 100 opening braces: the recursion guard of BibTeXString (max_level = 100) cannot fire. *)
From Pybtex Require Import Base.Prelude Base.PyChar Base.PyStr Model.BibtexStr Model.Names Spec.Names
  Proofs.NamesSplit Proofs.Names Proofs.NamesAtomic.

Definition isok {X} (r : res X) : Prop := match r with Ok _ => True | _ => False end.

Lemma isok_bind {X Y} (r : res X) (f : X -> res Y) : isok r -> (forall a, r = Ok a -> isok (f a)) -> isok (bind r f).
Proof. destruct r; cbn; auto; contradiction. Qed.

Lemma isok_ex {X} (r : res X) : isok r -> exists a, r = Ok a.
Proof. destruct r; cbn; try contradiction. eauto. Qed.

(* number of opening braces *)
Definition lbc (s : str) : nat := length (filter is_lbrace s).

Lemma lbc_cons c t : lbc (c :: t) = (if is_lbrace c then 1 else 0) + lbc t.
Proof. unfold lbc. cbn [filter]. destruct (is_lbrace c); reflexivity. Qed.

Lemma ltb_max_false n : n <= 100 -> Nat.ltb max_level n = false.
Proof. intros H. apply Nat.ltb_ge. unfold max_level. exact H. Qed.

Lemma scan_go_ok : forall s level sp,
  match sp with None => level + lbc s <= 100 | Some (d, _) => S d + lbc s <= 100 end ->
  isok (scan_go s level sp).
Proof.
  induction s as [|c t IH]; intros level sp H; cbn [scan_go].
  - destruct sp as [[d acc]|]; exact I.
  - rewrite lbc_cons in H. destruct sp as [[d acc]|].
    + destruct (is_lbrace c) eqn:El.
      * rewrite ltb_max_false by lia. apply IH. lia.
      * destruct (is_rbrace c).
        -- destruct d as [|d'].
           ++ apply isok_bind; [apply IH; lia|]. intros; exact I.
           ++ apply IH. lia.
        -- apply IH. lia.
    + destruct (is_lbrace c) eqn:El.
      * destruct (_ && _) eqn:Es.
        -- apply andb_prop in Es as [Es _]. apply Nat.eqb_eq in Es. subst level.
           apply isok_bind; [apply IH; lia|]. intros; exact I.
        -- rewrite ltb_max_false by lia. apply isok_bind; [apply IH; lia|]. intros; exact I.
      * destruct (_ && _) eqn:Es.
        -- apply isok_bind; [apply IH; lia|]. intros; exact I.
        -- apply isok_bind; [apply IH; lia|]. intros; exact I.
Qed.

Lemma is_von_name_ok t : t <> [] -> lbc t <= 100 -> isok (is_von_name t).
Proof.
  destruct t as [|c t]; [congruence|]. intros _ H. unfold is_von_name.
  destruct (uni_is_upper c); [exact I|]. destruct (uni_is_lower c); [exact I|].
  apply isok_bind; [apply scan_go_ok; exact H|intros; exact I].
Qed.

Definition vok (t : str) : Prop := isok (is_von_name t).

Lemma find_pos_ok l : Forall vok l -> isok (find_pos l).
Proof.
  induction 1 as [|x l Hx Hl IH]; cbn [find_pos]; [exact I|].
  apply isok_bind; [exact Hx|]. intros b _. destruct b; [exact I|].
  apply isok_bind; [exact IH|]. intros; exact I.
Qed.

Lemma rsplit_at_ok l : Forall vok l -> isok (rsplit_at l).
Proof.
  intros H. unfold rsplit_at. apply isok_bind; [|intros; exact I]. apply find_pos_ok. now apply Forall_rev.
Qed.

Lemma process_von_last_ok p parts : Forall vok parts -> isok (process_von_last p parts).
Proof.
  intros H. unfold process_von_last. apply isok_bind; [|intros; exact I].
  destruct (snoc_cases parts) as [->|(init & z & ->)]; [exact I|].
  rewrite removelast_snoc. apply Forall_app in H as [H _].
  destruct init; [exact I|]. now apply rsplit_at_ok.
Qed.

(* tokens and comma parts have no more opening braces than the string *)
Definition notlb (c : char) : bool := negb (is_lbrace c).
Lemma lbc_keep s : lbc s = length (keep notlb s).
Proof.
  unfold lbc, keep, notlb. f_equal. apply filter_ext. intros c. now rewrite negb_involutive.
Qed.
Lemma notlb_space c : is_space c = true -> notlb c = true.
Proof. intros H. unfold notlb, is_lbrace. destruct (space_not_brace c H) as [-> _]. reflexivity. Qed.

Lemma lbc_in_concat (l : list str) t : In t l -> lbc t <= lbc (concat l).
Proof.
  induction l as [|x l IH]; [contradiction|]. intros [->|Hi]; cbn [concat]; unfold lbc; rewrite filter_app, app_length.
  - lia.
  - specialize (IH Hi). unfold lbc in IH. lia.
Qed.

Lemma space_tokens_lbc s ts : split_tex_space s = Ok ts -> Forall (fun t => lbc t <= lbc s) ts.
Proof.
  intros H. apply Forall_forall. intros t Ht. apply lbc_in_concat in Ht.
  rewrite (lbc_keep (concat ts)), (split_space_keep notlb s ts notlb_space eq_refl eq_refl H), <- lbc_keep in Ht. exact Ht.
Qed.

Lemma comma_parts_lbc s ts : split_tex_comma s = Ok ts -> Forall (fun t => lbc t <= lbc s) ts.
Proof.
  intros H. apply Forall_forall. intros t Ht. apply lbc_in_concat in Ht.
  rewrite (lbc_keep (concat ts)), (split_comma_keep notlb s ts notlb_space eq_refl H), <- lbc_keep in Ht. exact Ht.
Qed.

Lemma lbc_strip s : lbc (strip s) = lbc s.
Proof. rewrite !lbc_keep. f_equal. apply keep_strip. exact notlb_space. Qed.

Lemma tokens_vok s : lbc s <= 100 -> exists ts, split_tex_space s = Ok ts /\ Forall vok ts.
Proof.
  intros H. destruct (split_space_ok s) as (ts & Hts & Hne). exists ts. split; [exact Hts|].
  assert (Hb := space_tokens_lbc _ _ Hts). rewrite Forall_forall in *. intros t Ht.
  apply is_von_name_ok; [now apply Hne|]. specialize (Hb t Ht). cbn in Hb. lia.
Qed.

Lemma nth_lbc (parts : list str) n k : Forall (fun t => lbc t <= k) parts -> lbc (nth n parts []) <= k.
Proof.
  intros H. destruct (nth_in_or_default n parts []) as [Hi| ->]; [|cbn; lia].
  rewrite Forall_forall in H. now apply H.
Qed.

Lemma parse_string_ok name : name <> [] -> lbc name <= 100 -> isok (parse_string empty_person name).
Proof.
  intros Hn Hb. unfold parse_string.
  destruct (split_gen_good sep_comma name true false) as [parts0 Hc]. fold (split_tex_comma name) in Hc.
  rewrite Hc. cbn [bind]. assert (Hp := split_comma_nonempty _ _ Hn Hc).
  assert (Hpb := comma_parts_lbc _ _ Hc).
  assert (G3 : forall a jr f (rep0 : bool), lbc a <= 100 -> isok
    (do ta <- split_tex_space a; do tb <- split_tex_space jr; do tc <- split_tex_space f;
     do p1 <- process_von_last empty_person ta;
     let p2 := mkPerson (p_first p1) (p_middle p1) (p_prelast p1) (p_last p1) (p_lineage p1 ++ tb) in
     Ok (process_first_middle p2 tc, rep0))).
  { intros a jr f rep0 Ha. destruct (tokens_vok a Ha) as (ta & -> & Hta). destruct (split_space_ok jr) as (tj & -> & _).
    destruct (split_space_ok f) as (tf & -> & _). cbn [bind].
    apply isok_bind; [now apply process_von_last_ok|]. intros; exact I. }
  assert (Ha0 : lbc (nth 0 parts0 []) <= 100).
  { assert (H := nth_lbc parts0 0 _ Hpb). lia. }
  destruct parts0 as [|a [|b [|c [|d rest]]]]; [congruence| | | |]; cbn [nth] in Ha0.
  - cbn [length Nat.ltb Nat.leb]. destruct (tokens_vok name Hb) as (ts & -> & Hts). cbn [bind].
    apply isok_bind.
    + unfold split_at. apply isok_bind; [now apply find_pos_ok|]. intros; exact I.
    + intros [fm vl] SA. apply split_at_spec in SA as (E & _ & _).
      subst ts. apply Forall_app in Hts as [Hfm Hvl].
      match goal with |- context [let '(_, _) := ?e in _] => destruct e as [fm' vl''] eqn:Em end.
      apply isok_bind; [|intros; exact I]. apply process_von_last_ok.
      destruct vl as [|v0 vl0].
      * destruct (snoc_cases fm) as [->|(i & z & ->)]; [inversion Em; constructor|].
        assert (vl'' = [z]).
        { destruct (i ++ [z]) eqn:Ez; [destruct i; discriminate|]. rewrite <- Ez in Em. rewrite last_last in Em. congruence. }
        subst vl''. apply Forall_app in Hfm as [_ Hz]. exact Hz.
      * inversion Em; subst. exact Hvl.
  - cbn [length Nat.ltb Nat.leb].
    destruct (tokens_vok a Ha0) as (ta & -> & Hta). destruct (split_space_ok b) as (tb & -> & _). cbn [bind].
    apply isok_bind; [now apply process_von_last_ok|]. intros; exact I.
  - cbn [length Nat.ltb Nat.leb]. now apply G3.
  - assert (Et : Nat.ltb 3 (length (a :: b :: c :: d :: rest)) = true) by reflexivity.
    rewrite Et. cbn [firstn app]. now apply G3.
Qed.

Lemma parse_name_ok_pf s : lbc s <= 100 -> exists p rep, person_of_string s = Ok (p, rep).
Proof.
  intros H. rewrite person_of_string_eq. destruct (strip s) as [|c t] eqn:E; [eauto|].
  assert (Hk : isok (parse_string empty_person (c :: t))).
  { apply parse_string_ok; [discriminate|]. rewrite <- E, lbc_strip. exact H. }
  apply isok_ex in Hk as [[p rep] ->]. eauto.
Qed.

(* ... and the guard does fire beyond that *)
Lemma parse_name_guard_pf : exists s line, person_of_string s = PyErr E_BIBTEX line.
Proof. exists (s2l "x " ++ repeat c_lbrace 101 ++ repeat c_rbrace 101 ++ s2l " y"), (-1)%Z. vm_compute. reflexivity. Qed.
