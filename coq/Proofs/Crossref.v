(* Proofs/Crossref.v -- lemmas about Model/Crossref.v (property C14). *)
From Pybtex Require Import Base.Prelude Base.PyChar Base.PyStr Model.Crossref.

(* ---- own fields and person roles win ------------------------------------------------- *)
Lemma own_field_wins_l : forall n bd e f vis v,
  ci_get (e_fields e) f = Some v -> find_field (S n) bd e f vis = Ok (Some v).
Proof. intros n bd e f vis v H. cbn [find_field]. rewrite H. reflexivity. Qed.

Lemma person_role_as_field_l : forall n bd e f vis ps,
  ci_get (e_fields e) f = None -> ci_get (e_persons e) f = Some ps ->
  find_field (S n) bd e f vis = Ok (Some (join s_and ps)).
Proof.
  intros n bd e f vis ps H1 H2. cbn [find_field]. rewrite H1.
  unfold find_person_field. rewrite H2. reflexivity.
Qed.
