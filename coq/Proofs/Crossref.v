(* Proofs/Crossref.v -- lemmas about Model/Crossref.v (property C14). *)
From Pybtex Require Import Base.Prelude Base.PyChar Base.PyStr Model.Crossref Spec.Crossref.

(* ---- own fields and person roles win ------------------------------------------------- *)
Lemma own_field_wins_l : forall n bd e f vis v,
  ci_get (e_fields e) f = Some v -> find_field (S n) bd e f vis = Ok (Some v).
Proof. intros n bd e f vis v H. cbn [find_field]. rewrite H. reflexivity. Qed.

Lemma person_role_as_field_l : forall n bd e f vis ps,
  ci_get (e_fields e) f = None -> ci_get (e_persons e) f = Some ps ->
  find_field (S n) bd e f vis = Ok (Some (join s_and ps)).
Proof.
  intros n bd e f vis ps H1 H2. cbn [find_field]. rewrite H1.
  unfold find_person_field. rewrite H2. reflexivity.
Qed.

(* ---- the measure: entries (slots of U) whose identity is not yet in the visited tuple -- *)
Definition unvis (vis : list nat) (x : entry) : bool := negb (existsb (Nat.eqb (e_id x)) vis).
Definition unvisited (U : list entry) (vis : list nat) : nat := length (filter (unvis vis) U).

Lemma unvisited_le U vis : unvisited U vis <= length U.
Proof.
  unfold unvisited. induction U as [|x U IH]; cbn [filter length]; [lia|].
  destruct (unvis vis x); cbn [length]; lia.
Qed.

Lemma unvis_app vis i x : unvis (vis ++ [i]) x = unvis vis x && negb (Nat.eqb (e_id x) i).
Proof.
  unfold unvis. rewrite existsb_app. cbn [existsb]. rewrite orb_false_r.
  rewrite negb_orb. reflexivity.
Qed.

Lemma unvisited_mono U vis i : unvisited U (vis ++ [i]) <= unvisited U vis.
Proof.
  unfold unvisited. induction U as [|x U IH]; cbn [filter length]; [lia|].
  rewrite unvis_app. destruct (unvis vis x); cbn [andb].
  - destruct (negb (e_id x =? i)); cbn [length]; lia.
  - exact IH.
Qed.

Lemma unvisited_step U vis e :
  In e U -> existsb (Nat.eqb (e_id e)) vis = false ->
  unvisited U (vis ++ [e_id e]) < unvisited U vis.
Proof.
  unfold unvisited. induction U as [|x U IH]; intros Hin Hnv; [destruct Hin|].
  cbn [filter]. rewrite unvis_app. destruct Hin as [->|Hin].
  - assert (Hu : unvis vis e = true) by (unfold unvis; rewrite Hnv; reflexivity).
    rewrite Hu, Nat.eqb_refl. cbn [andb negb length].
    pose proof (unvisited_mono U vis (e_id e)) as Hm. unfold unvisited in Hm. lia.
  - specialize (IH Hin Hnv). destruct (unvis vis x); cbn [andb].
    + destruct (negb (e_id x =? e_id e)); cbn [length]; lia.
    + exact IH.
Qed.

Lemma ci_get_In {V} (d : list (str * V)) k v : ci_get d k = Some v -> exists k', In (k', v) d.
Proof.
  induction d as [|[k' v'] d IH]; cbn [ci_get]; [discriminate|].
  destruct (str_eqb (lower k') (lower k)).
  - intros [= ->]. exists k'. left. reflexivity.
  - intros H. destruct (IH H) as [k2 H2]. exists k2. right. exact H2.
Qed.

Lemma ci_get_In_snd (d : db) k e : ci_get d k = Some e -> In e (map snd d).
Proof.
  intros H. destruct (ci_get_In d k e H) as [k' Hin].
  apply in_map_iff. exists (k', e). split; [reflexivity|exact Hin].
Qed.

(* ---- termination: for every graph the lookup returns (a value or "missing") ----------- *)
Lemma find_field_terminates_from : forall n d U e f vis,
  (forall x, In x (map snd d) -> In x U) -> In e U ->
  unvisited U vis < n ->
  exists v, find_field n (Some d) e f vis = Ok v.
Proof.
  induction n as [|n IH]; intros d U e f vis HU He Hn; [lia|].
  cbn [find_field].
  destruct (ci_get (e_fields e) f) as [v|]; [eexists; reflexivity|].
  destruct (find_person_field e f) as [v|]; [eexists; reflexivity|].
  unfold find_crossref_field.
  destruct (ci_get (e_fields e) s_crossref) as [cr|]; [|eexists; reflexivity].
  destruct (existsb (Nat.eqb (e_id e)) vis) eqn:Ev; [eexists; reflexivity|].
  destruct (ci_get d cr) as [e'|] eqn:Ed; [|eexists; reflexivity].
  apply IH with (U := U).
  - exact HU.
  - apply HU. eapply ci_get_In_snd. exact Ed.
  - pose proof (unvisited_step U vis e He Ev). lia.
Qed.

Lemma find_terminates_l : forall bd e f, exists v, entry_find_field bd e f = Ok v.
Proof.
  intros [d|] e f; unfold entry_find_field, fuel_for.
  - apply find_field_terminates_from with (U := e :: map snd d).
    + intros x Hx. right. exact Hx.
    + left. reflexivity.
    + pose proof (unvisited_le (e :: map snd d) []) as H. cbn [length] in H.
      rewrite map_length in H. lia.
  - cbn [find_field].
    destruct (ci_get (e_fields e) f); [eexists; reflexivity|].
    destruct (find_person_field e f); eexists; reflexivity.
Qed.

(* ---- the lookup computes the value of the nearest definition along the chain ---------- *)
Lemma defines_split e f :
  defines e f = match ci_get (e_fields e) f with Some v => Some v | None => find_person_field e f end.
Proof. unfold defines, find_person_field. destruct (ci_get (e_fields e) f); reflexivity. Qed.

(* on a set of entries closed under `parent`, none of which defines f, nothing is ever found *)
Lemma chain_find_closed_none : forall d f (C : list entry),
  (forall x, In x C -> defines x f = None /\ exists y, parent d x = Some y /\ In y C) ->
  forall M x, In x C -> chain_find M d x f = None.
Proof.
  intros d f C HC. induction M as [|M IH]; intros x Hx; cbn [chain_find];
    destruct (HC x Hx) as [Hd [y [Hp Hy]]]; rewrite Hd; [reflexivity|].
  rewrite Hp. apply IH. exact Hy.
Qed.

Lemma existsb_eqb_In (vis : list nat) (path : list entry) e :
  vis = map e_id path -> existsb (Nat.eqb (e_id e)) vis = true ->
  exists x, In x path /\ e_id x = e_id e.
Proof.
  intros -> H. apply existsb_exists in H. destruct H as [i [Hi He]].
  apply in_map_iff in Hi. destruct Hi as [x [Hx Hin]]. exists x. split; [exact Hin|].
  apply Nat.eqb_eq in He. congruence.
Qed.

Lemma find_field_chain : forall n d f U,
  (forall x, In x (map snd d) -> In x U) ->
  (forall x y, In x U -> In y U -> e_id x = e_id y -> x = y) ->
  forall e vis path M,
  In e U ->
  vis = map e_id path ->
  (forall x, In x path -> In x U /\ defines x f = None /\
                          exists y, parent d x = Some y /\ (In y path \/ y = e)) ->
  unvisited U vis < n -> unvisited U vis <= M ->
  find_field n (Some d) e f vis = Ok (chain_find M d e f).
Proof.
  induction n as [|n IH]; intros d f U HU Hwf e vis path M He Hvis Hpath Hn HM; [lia|].
  cbn [find_field].
  assert (Hcf : forall m, chain_find m d e f =
            match defines e f with Some v => Some v | None =>
              match m with O => None | S m' =>
                match parent d e with None => None | Some p => chain_find m' d p f end end end)
    by (intros [|m]; reflexivity).
  rewrite (Hcf M). rewrite defines_split.
  destruct (ci_get (e_fields e) f) as [v|] eqn:Ef; [reflexivity|].
  destruct (find_person_field e f) as [v|] eqn:Ep; [reflexivity|].
  assert (Hdef : defines e f = None) by (rewrite defines_split, Ef, Ep; reflexivity).
  unfold find_crossref_field, parent.
  destruct (ci_get (e_fields e) s_crossref) as [cr|] eqn:Ec; [|destruct M; reflexivity].
  destruct (existsb (Nat.eqb (e_id e)) vis) eqn:Ev.
  - (* the chain has closed: e is one of the visited entries *)
    destruct (existsb_eqb_In vis path e Hvis Ev) as [x [Hx Hid]].
    assert (x = e) by (apply Hwf; [apply (Hpath x Hx)|exact He|exact Hid]). subst x.
    assert (Hnone : forall m, chain_find m d e f = None).
    { intros m. apply chain_find_closed_none with (C := path); [|exact Hx].
      intros x Hxp. destruct (Hpath x Hxp) as [_ [Hd [y [Hp Hy]]]]. split; [exact Hd|].
      exists y. split; [exact Hp|]. destruct Hy as [Hy| ->]; [exact Hy|exact Hx]. }
    destruct M as [|M']; [reflexivity|].
    destruct (ci_get d cr) as [e'|] eqn:Ed; [|reflexivity].
    specialize (Hnone (S M')). rewrite (Hcf (S M')), Hdef in Hnone. unfold parent in Hnone.
    rewrite Ec, Ed in Hnone. rewrite Hnone. reflexivity.
  - destruct (ci_get d cr) as [e'|] eqn:Ed; [|destruct M; reflexivity].
    pose proof (unvisited_step U vis e He Ev) as Hstep.
    destruct M as [|M']; [lia|].
    apply IH with (U := U) (path := path ++ [e]).
    + exact HU.
    + exact Hwf.
    + apply HU. eapply ci_get_In_snd. exact Ed.
    + rewrite map_app, Hvis. reflexivity.
    + intros x Hx. apply in_app_or in Hx. destruct Hx as [Hx|[<-|[]]].
      * destruct (Hpath x Hx) as [HxU [Hd [y [Hp Hy]]]]. split; [exact HxU|]. split; [exact Hd|].
        exists y. split; [exact Hp|]. left. apply in_or_app.
        destruct Hy as [Hy| ->]; [left; exact Hy|right; left; reflexivity].
      * split; [exact He|]. split; [exact Hdef|]. exists e'. split; [|right; reflexivity].
        unfold parent. rewrite Ec. exact Ed.
    + lia.
    + lia.
Qed.

Lemma find_field_spec_l : forall d e f M, ids_wf d e -> length d + 1 <= M ->
  entry_find_field (Some d) e f = Ok (chain_find M d e f).
Proof.
  intros d e f M Hwf HM. unfold entry_find_field, fuel_for.
  pose proof (unvisited_le (e :: map snd d) []) as Hle. cbn [length] in Hle. rewrite map_length in Hle.
  apply find_field_chain with (U := e :: map snd d) (path := []).
  - intros x Hx. right. exact Hx.
  - exact Hwf.
  - left. reflexivity.
  - reflexivity.
  - intros x [].
  - lia.
  - lia.
Qed.

(* declarative corollaries *)
Lemma chain_find_nearest : forall d f k e a v,
  ancestor d k e = Some a -> defines a f = Some v ->
  (forall j x, j < k -> ancestor d j e = Some x -> defines x f = None) ->
  forall M, k <= M -> chain_find M d e f = Some v.
Proof.
  intros d f. induction k as [|k IH]; intros e a v Ha Hv Hbefore M HM.
  - cbn [ancestor] in Ha. injection Ha as ->. destruct M; cbn [chain_find]; rewrite Hv; reflexivity.
  - destruct M as [|M]; [lia|]. cbn [chain_find].
    rewrite (Hbefore 0 e); [|lia|reflexivity].
    cbn [ancestor] in Ha. destruct (parent d e) as [p|] eqn:Ep; [|discriminate].
    apply IH with (a := a); [exact Ha|exact Hv| |lia].
    intros j x Hj Hx. apply (Hbefore (S j) x); [lia|]. cbn [ancestor]. rewrite Ep. exact Hx.
Qed.

Lemma chain_find_none : forall d f M e,
  (forall k x, ancestor d k e = Some x -> defines x f = None) -> chain_find M d e f = None.
Proof.
  intros d f. induction M as [|M IH]; intros e H; cbn [chain_find];
    rewrite (H 0 e eq_refl); [reflexivity|].
  destruct (parent d e) as [p|] eqn:Ep; [|reflexivity].
  apply IH. intros k x Hx. apply (H (S k) x). cbn [ancestor]. rewrite Ep. exact Hx.
Qed.

Lemma inherits_nearest_l : forall d e f k a v, ids_wf d e ->
  ancestor d k e = Some a -> defines a f = Some v ->
  (forall j x, j < k -> ancestor d j e = Some x -> defines x f = None) ->
  entry_find_field (Some d) e f = Ok (Some v).
Proof.
  intros d e f k a v Hwf Ha Hv Hb.
  rewrite (find_field_spec_l d e f (Nat.max k (length d + 1)) Hwf); [|lia].
  f_equal. apply chain_find_nearest with (k := k) (a := a); [exact Ha|exact Hv|exact Hb|lia].
Qed.

Lemma missing_along_chain_l : forall d e f, ids_wf d e ->
  (forall k x, ancestor d k e = Some x -> defines x f = None) ->
  entry_find_field (Some d) e f = Ok None.
Proof.
  intros d e f Hwf H. rewrite (find_field_spec_l d e f (length d + 1) Hwf); [|lia].
  f_equal. apply chain_find_none. exact H.
Qed.

(* ---- the two engines see the same thing ------------------------------------------------ *)
(* the value both engines observe for field f of entry e *)
Definition seen (d : db) (e : entry) (f : str) : option str :=
  match entry_find_field (Some d) e f with Ok v => v | _ => None end.

Lemma py_var_seen d e f : py_var (Some d) e f = Ok (seen d e f).
Proof.
  unfold py_var, template_field, seen.
  destruct (find_terminates_l (Some d) e f) as [v ->]. destruct v; reflexivity.
Qed.

Lemma bst_var_seen d e f : str_eqb f s_crossref = false -> bst_var d e f = Ok (seen d e f).
Proof.
  intros Hf. unfold bst_var, field_value, seen. rewrite Hf.
  destruct (find_terminates_l (Some d) e f) as [v ->]. destruct v; reflexivity.
Qed.

Lemma bst_var_total d e f : exists v, bst_var d e f = Ok v.
Proof.
  unfold bst_var. destruct (str_eqb f s_crossref) eqn:Hf.
  - unfold crossref_value. destruct (ci_get (e_fields e) s_crossref) as [v|]; [|eexists; reflexivity].
    destruct (ci_get d v); eexists; reflexivity.
  - unfold field_value. destruct (find_terminates_l (Some d) e f) as [v ->]. destruct v; eexists; reflexivity.
Qed.

Lemma engines_agree_field_l : forall d e f, str_eqb f s_crossref = false ->
  bst_var d e f = py_var (Some d) e f.
Proof. intros d e f Hf. rewrite py_var_seen, bst_var_seen; [reflexivity|exact Hf]. Qed.

Lemma mapM_ok {X Y} (f : X -> res Y) (g : X -> Y) (l : list X) :
  (forall x, In x l -> f x = Ok (g x)) -> mapM f l = Ok (map g l).
Proof.
  induction l as [|x l IH]; intros H; cbn [mapM map]; [reflexivity|].
  rewrite (H x (or_introl eq_refl)). cbn [bind]. rewrite IH; [reflexivity|].
  intros y Hy. apply H. right. exact Hy.
Qed.

Lemma mapM_total {X Y} (f : X -> res Y) (l : list X) :
  (forall x, exists y, f x = Ok y) -> exists ys, mapM f l = Ok ys.
Proof.
  intros H. induction l as [|x l [ys IH]]; cbn [mapM]; [eexists; reflexivity|].
  destruct (H x) as [y ->]. cbn [bind]. rewrite IH. cbn [bind]. eexists; reflexivity.
Qed.

Definition no_crossref_var (fs : list str) : bool := forallb (fun f => negb (str_eqb f s_crossref)) fs.

Lemma entries_agree : forall d cs,
  py_entries d cs = (map snd (fst (bst_entries d cs)), snd (bst_entries d cs)) /\
  Forall (fun ce => ci_get d (fst ce) = Some (snd ce)) (fst (bst_entries d cs)).
Proof.
  intros d. induction cs as [|c cs [IH1 IH2]]; cbn [py_entries bst_entries]; [split; [reflexivity|constructor]|].
  rewrite IH1. destruct (bst_entries d cs) as [es rs]. cbn [fst snd] in *.
  destruct (ci_get d c) as [e|] eqn:Ec; cbn [fst snd map]; split; try reflexivity; try exact IH2.
  constructor; [exact Ec|exact IH2].
Qed.

Lemma engines_agree_l : forall d cits minx fs, no_crossref_var fs = true ->
  exists reports ob op,
    bst_run d cits minx fs = Ok (reports, ob) /\
    format_bibliography d cits minx fs = Ok (reports, op) /\
    map snd ob = map snd op /\
    Forall2 (fun b p => exists e, ci_get d (fst b) = Some e /\ fst p = e_key e) ob op.
Proof.
  intros d cits minx fs Hfs. unfold bst_run, format_bibliography.
  destruct (add_extra_citations d cits minx) as [cs errs].
  destruct (entries_agree d cs) as [Hpy Hkeys]. rewrite Hpy.
  destruct (bst_entries d cs) as [es miss]. cbn [fst snd] in *.
  pose (vals := fun e : entry => map (seen d e) fs).
  assert (Hb : mapM (bst_entry_obs d fs) es = Ok (map (fun ce => (fst ce, vals (snd ce))) es)).
  { apply mapM_ok. intros ce _. unfold bst_entry_obs.
    rewrite (mapM_ok (bst_var d (snd ce)) (seen d (snd ce)) fs); [reflexivity|].
    intros f Hf. apply bst_var_seen. unfold no_crossref_var in Hfs.
    rewrite forallb_forall in Hfs. specialize (Hfs f Hf). destruct (str_eqb f s_crossref); [discriminate|reflexivity]. }
  assert (Hp : format_entries fs (map snd es) (Some d) = Ok (map (fun e => (e_key e, vals e)) (map snd es))).
  { unfold format_entries. apply mapM_ok. intros e _. unfold format_entry.
    rewrite (mapM_ok (py_var (Some d) e) (seen d e) fs); [reflexivity|].
    intros f _. apply py_var_seen. }
  rewrite Hb, Hp. cbn [bind].
  eexists; eexists; eexists. split; [reflexivity|]. split; [reflexivity|]. split.
  - rewrite !map_map. reflexivity.
  - rewrite map_map. clear Hb Hp Hpy. induction Hkeys as [|ce es Hce _ IH]; cbn [map]; constructor.
    + exists (snd ce). split; [exact Hce|reflexivity].
    + exact IH.
Qed.

(* ---- a dangling reference: missing, and reported as a bad cross-reference -------------- *)
Lemma ci_get_lower {V} (d : list (str * V)) k k' : lower k' = lower k -> ci_get d k' = ci_get d k.
Proof. intros H. induction d as [|[a v] d IH]; cbn [ci_get]; [reflexivity|]. rewrite H, IH. reflexivity. Qed.

Lemma ci_mem_lower s k k' : lower k' = lower k -> ci_mem s k' = ci_mem s k.
Proof. intros H. unfold ci_mem. rewrite H. reflexivity. Qed.

Lemma ci_mem_app s t k : ci_mem (s ++ t) k = ci_mem s k || ci_mem t k.
Proof. unfold ci_mem. apply existsb_app. Qed.

Lemma ci_mem_single a k : ci_mem [a] k = true -> lower a = lower k.
Proof.
  unfold ci_mem. cbn [existsb]. rewrite orb_false_r. intros H.
  destruct (str_eqb_spec (lower a) (lower k)); [assumption|discriminate].
Qed.

Lemma expand_keys_spec : forall keys cset out cs, expand_keys keys cset = (out, cs) ->
  (forall k, ci_mem cset k = true -> ci_mem cs k = true) /\
  (forall k, ci_mem cs k = true -> ci_mem cset k = true \/ exists k', In k' out /\ lower k' = lower k).
Proof.
  induction keys as [|a keys IH]; intros cset out cs; cbn [expand_keys].
  - intros [= <- <-]. split; auto.
  - destruct (ci_mem cset a) eqn:Ea.
    + intros H. destruct (IH _ _ _ H) as [H1 H2]. split; auto.
    + destruct (expand_keys keys (cset ++ [a])) as [out' cs'] eqn:E. intros [= <- <-].
      destruct (IH _ _ _ E) as [H1 H2]. split.
      * intros k Hk. apply H1. rewrite ci_mem_app, Hk. reflexivity.
      * intros k Hk. destruct (H2 k Hk) as [H|[k' [Hin Hl]]].
        -- rewrite ci_mem_app in H. apply orb_true_iff in H. destruct H as [H|H]; [left; exact H|].
           right. exists a. split; [left; reflexivity|apply ci_mem_single; exact H].
        -- right. exists k'. split; [right; exact Hin|exact Hl].
Qed.

Lemma expand_wildcard_keeps : forall d cits cset k,
  In k cits -> str_eqb k s_star = false ->
  ci_mem cset k = true \/ exists k', In k' (expand_wildcard d cits cset) /\ lower k' = lower k.
Proof.
  intros d. induction cits as [|c cits IH]; intros cset k Hin Hk; [destruct Hin|].
  cbn [expand_wildcard]. destruct Hin as [->|Hin].
  - rewrite Hk. destruct (ci_mem cset k) eqn:Em; [left; reflexivity|].
    right. exists k. split; [left; reflexivity|reflexivity].
  - destruct (str_eqb c s_star).
    + destruct (expand_keys (map fst d) cset) as [out cs] eqn:E.
      destruct (expand_keys_spec _ _ _ _ E) as [_ H2].
      destruct (IH cs k Hin Hk) as [H|[k' [Hk' Hl]]].
      * destruct (H2 k H) as [H'|[k' [Hk' Hl]]]; [left; exact H'|].
        right. exists k'. split; [apply in_or_app; left; exact Hk'|exact Hl].
      * right. exists k'. split; [apply in_or_app; right; exact Hk'|exact Hl].
    + destruct (ci_mem cset c) eqn:Ec.
      * apply IH; assumption.
      * destruct (IH (cset ++ [c]) k Hin Hk) as [H|[k' [Hk' Hl]]].
        -- rewrite ci_mem_app in H. apply orb_true_iff in H. destruct H as [H|H]; [left; exact H|].
           right. exists c. split; [left; reflexivity|apply ci_mem_single; exact H].
        -- right. exists k'. split; [right; exact Hk'|exact Hl].
Qed.

Lemma crossreferenced_reports : forall d minx cits cnt cset c e cr,
  In c cits -> ci_get d c = Some e -> ci_get (e_fields e) s_crossref = Some cr -> ci_get d cr = None ->
  In (BadCrossref c cr) (snd (crossreferenced d minx cits cnt cset)).
Proof.
  intros d minx. induction cits as [|a cits IH]; intros cnt cset c e cr Hin Hc Hcr Hd; [destruct Hin|].
  cbn [crossreferenced]. destruct Hin as [->|Hin].
  - rewrite Hc, Hcr, Hd. destruct (crossreferenced d minx cits cnt cset) as [ys es]. left. reflexivity.
  - destruct (ci_get d a) as [ea|]; [|eapply IH; eassumption].
    destruct (ci_get (e_fields ea) s_crossref) as [cra|]; [|eapply IH; eassumption].
    destruct (ci_get d cra) as [ce|].
    + destruct (count_incr cnt (e_key ce)) as [cnt' n].
      destruct ((minx <=? n)%Z && negb (ci_mem cset (e_key ce))).
      * specialize (IH cnt' (cset ++ [e_key ce]) c e cr Hin Hc Hcr Hd).
        destruct (crossreferenced d minx cits cnt' (cset ++ [e_key ce])) as [ys es]. exact IH.
      * eapply IH; eassumption.
    + specialize (IH cnt cset c e cr Hin Hc Hcr Hd).
      destruct (crossreferenced d minx cits cnt cset) as [ys es]. right. exact IH.
Qed.

Lemma dangling_is_missing_and_reported_l : forall d cits minx k e cr f,
  In k cits -> str_eqb k s_star = false ->
  ci_get d k = Some e -> ci_get (e_fields e) s_crossref = Some cr -> ci_get d cr = None ->
  defines e f = None ->
  entry_find_field (Some d) e f = Ok None /\
  exists k', lower k' = lower k /\ In (BadCrossref k' cr) (snd (add_extra_citations d cits minx)).
Proof.
  intros d cits minx k e cr f Hin Hk Hd Hcr Hdang Hdef. split.
  - unfold entry_find_field, fuel_for. rewrite Nat.add_comm. cbn [Nat.add find_field].
    rewrite defines_split in Hdef.
    destruct (ci_get (e_fields e) f); [discriminate|]. rewrite Hdef.
    unfold find_crossref_field. rewrite Hcr. cbn [existsb]. rewrite Hdang. reflexivity.
  - destruct (expand_wildcard_keeps d cits [] k Hin Hk) as [H|[k' [Hk' Hl]]]; [discriminate|].
    exists k'. split; [exact Hl|]. unfold add_extra_citations.
    pose proof (crossreferenced_reports d minx (expand_wildcard d cits []) [] (expand_wildcard d cits []) k' e cr Hk') as H.
    rewrite (ci_get_lower d k k' Hl) in H. specialize (H Hd Hcr Hdang).
    destruct (crossreferenced d minx (expand_wildcard d cits []) [] (expand_wildcard d cits [])) as [xs es].
    exact H.
Qed.

(* in strict mode both engines then stop with a pybtex error (never a foreign exception) *)
Lemma runs_total : forall d cits minx fs,
  exists ob op, bst_run d cits minx fs = Ok (snd (add_extra_citations d cits minx) ++ snd (bst_entries d (fst (add_extra_citations d cits minx))), ob) /\
                format_bibliography d cits minx fs = Ok (snd (add_extra_citations d cits minx) ++ snd (bst_entries d (fst (add_extra_citations d cits minx))), op).
Proof.
  intros d cits minx fs. unfold bst_run, format_bibliography.
  destruct (add_extra_citations d cits minx) as [cs errs]. cbn [fst snd].
  destruct (entries_agree d cs) as [Hpy _]. rewrite Hpy.
  destruct (bst_entries d cs) as [es miss]. cbn [fst snd].
  destruct (mapM_total (bst_entry_obs d fs) es) as [ob Hob].
  { intros ce. unfold bst_entry_obs.
    destruct (mapM_total (bst_var d (snd ce)) fs (bst_var_total d (snd ce))) as [vs ->]. eexists; reflexivity. }
  destruct (mapM_total (fun e => format_entry fs e (Some d)) (map snd es)) as [op Hop].
  { intros e. unfold format_entry.
    rewrite (mapM_ok (py_var (Some d) e) (seen d e) fs); [eexists; reflexivity|].
    intros f _. apply py_var_seen. }
  unfold format_entries. rewrite Hob, Hop. cbn [bind]. eexists; eexists; split; reflexivity.
Qed.

Lemma strictly_reported {X} (rs : list report) (x : X) r : In r rs -> exists c l, strictly (Ok (rs, x)) = PyErr c l.
Proof. intros H. destruct rs as [|[a b|a] rs]; [destruct H| |]; cbn [strictly]; eexists; eexists; reflexivity. Qed.

Lemma dangling_strict_l : forall d cits minx fs k e cr,
  In k cits -> str_eqb k s_star = false ->
  ci_get d k = Some e -> ci_get (e_fields e) s_crossref = Some cr -> ci_get d cr = None ->
  (exists c l, strictly (bst_run d cits minx fs) = PyErr c l) /\
  (exists c l, strictly (format_bibliography d cits minx fs) = PyErr c l).
Proof.
  intros d cits minx fs k e cr Hin Hk Hd Hcr Hdang.
  destruct (expand_wildcard_keeps d cits [] k Hin Hk) as [H|[k' [Hk' Hl]]]; [discriminate|].
  assert (Hrep : In (BadCrossref k' cr) (snd (add_extra_citations d cits minx))).
  { unfold add_extra_citations.
    pose proof (crossreferenced_reports d minx (expand_wildcard d cits []) [] (expand_wildcard d cits []) k' e cr Hk') as H.
    rewrite (ci_get_lower d k k' Hl) in H. specialize (H Hd Hcr Hdang).
    destruct (crossreferenced d minx (expand_wildcard d cits []) [] (expand_wildcard d cits [])) as [xs es]. exact H. }
  destruct (runs_total d cits minx fs) as [ob [op [-> ->]]].
  split; eapply strictly_reported; apply in_or_app; left; exact Hrep.
Qed.

(* ---- sensitivity: the two repairs (fix: c83cdd0, 17ffa16) are what the theorems rest on ---- *)
(* _find_field as it was before c83cdd0: no test of the visited tuple *)
Fixpoint find_field_unguarded (fuel : nat) (d : db) (e : entry) (name : str) : lookup :=
  match fuel with
  | O => OutOfFuel
  | S f =>
    match ci_get (e_fields e) name with
    | Some v => Ok (Some v)
    | None =>
      match find_person_field e name with
      | Some v => Ok (Some v)
      | None =>
        match ci_get (e_fields e) s_crossref with
        | None => Ok None
        | Some cr => match ci_get d cr with
                     | None => Ok None
                     | Some e' => find_field_unguarded f d e' name
                     end
        end
      end
    end
  end.

Definition loop_entry : entry := mkEntry 0 [97%N] [(s_crossref, [97%N])] [].   (* @misc{a, crossref = {a}} *)
Definition loop_db : db := [([97%N], loop_entry)].

Lemma unguarded_diverges_l : forall fuel, find_field_unguarded fuel loop_db loop_entry [116%N] = OutOfFuel.
Proof. induction fuel as [|fuel IH]; [reflexivity|]. cbn -[find_field_unguarded] in *. cbn [find_field_unguarded]. exact IH. Qed.

(* format_bibliography as it was before 17ffa16: format_entries(entries) without bib_data *)
Definition format_bibliography_nobd (d : db) (cits : list str) (minx : Z) (fs : list str) : res (list report * list obs) :=
  let '(cs, errs) := add_extra_citations d cits minx in
  let '(es, miss) := py_entries d cs in
  do os <- format_entries fs es None;
  Ok (errs ++ miss, os).

Definition f5_child : entry := mkEntry 0 [99%N] [(s_crossref, [112%N])] [].          (* @misc{c, crossref = {p}} *)
Definition f5_parent : entry := mkEntry 1 [112%N] [([116%N], [84%N])] [].             (* @misc{p, t = {T}} *)
Definition f5_db : db := [([99%N], f5_child); ([112%N], f5_parent)].

Lemma nobd_disagrees_l :
  map snd (match bst_run f5_db [[99%N]] 2 [[116%N]] with Ok (_, o) => o | _ => [] end) = [[Some [84%N]]] /\
  map snd (match format_bibliography_nobd f5_db [[99%N]] 2 [[116%N]] with Ok (_, o) => o | _ => [] end) = [[None]] /\
  map snd (match format_bibliography f5_db [[99%N]] 2 [[116%N]] with Ok (_, o) => o | _ => [] end) = [[Some [84%N]]].
Proof. vm_compute. repeat split. Qed.

(* ---- the BST variable crossref ------------------------------------------------------------ *)
Lemma crossref_value_spec_l : forall d e,
  crossref_value d e = Ok (match parent d e with Some p => BStr (e_key p) | None => BMissing s_crossref end).
Proof.
  intros d e. unfold crossref_value, parent.
  destruct (ci_get (e_fields e) s_crossref) as [v|]; [|reflexivity].
  destruct (ci_get d v); reflexivity.
Qed.

(* ======================================================================================
   names(): the stock styles do not see an inherited person role (finding FC14a)
   ====================================================================================== *)
Definition fc14a_child : entry := mkEntry 0 [99%N] [(s_crossref, [112%N])] [].          (* @misc{c, crossref = {p}} *)
Definition fc14a_parent : entry := mkEntry 1 [112%N] [] [([97%N], [[65%N]])].          (* @misc{p, a = {A}} : role a *)
Definition fc14a_db : db := [([99%N], fc14a_child); ([112%N], fc14a_parent)].

Lemma names_inherit_refuted_l :
  exists d e role v, bst_var d e role = Ok (Some v) /\ py_var (Some d) e role = Ok (Some v) /\
                     names_var e role = Ok None.
Proof. exists fc14a_db, fc14a_child, [97%N], [65%N]. vm_compute. repeat split. Qed.

Lemma names_own_partial_l : forall bd e role ps,
  ci_get (e_fields e) role = None -> ci_get (e_persons e) role = Some ps ->
  names_var e role = py_var bd e role.
Proof.
  intros bd e role ps Hf Hp. unfold names_var, template_names, py_var, template_field, entry_find_field.
  rewrite Hp.
  assert (H : exists n, fuel_for bd = S n) by (destruct bd; cbn [fuel_for]; [exists (length d + 1); lia|exists 0; reflexivity]).
  destruct H as [n ->]. rewrite (person_role_as_field_l n bd e role [] ps Hf Hp). reflexivity.
Qed.

(* ======================================================================================
   reading filtered by the citations keeps the whole chain (children first)
   ====================================================================================== *)
Lemma ci_get_app {V} (a b : list (str * V)) k :
  ci_get (a ++ b) k = match ci_get a k with Some v => Some v | None => ci_get b k end.
Proof.
  induction a as [|[k0 v0] a IH]; cbn [app ci_get]; [reflexivity|].
  destruct (str_eqb (lower k0) (lower k)); [reflexivity|exact IH].
Qed.

Lemma canonical_key_lower cits k : lower (canonical_key cits k) = lower k.
Proof.
  unfold canonical_key. destruct (find _ (rev cits)) as [c|] eqn:E; [|reflexivity].
  apply find_some in E. destruct E as [_ E].
  destruct (str_eqb_spec (lower c) (lower k)); [assumption|discriminate].
Qed.

Lemma want_lower w k k' : lower k' = lower k -> want_entry w k' = want_entry w k.
Proof. intros H. destruct w as [ws|]; cbn [want_entry]; [|reflexivity]. rewrite (ci_mem_lower ws k k' H). reflexivity. Qed.

Lemma want_mono ws more k : want_entry (Some ws) k = true -> want_entry (Some (ws ++ more)) k = true.
Proof.
  cbn [want_entry]. rewrite !ci_mem_app. intros H. apply orb_true_iff in H.
  destruct H as [->| ->]; cbn [orb]; [reflexivity|]. rewrite orb_true_r. reflexivity.
Qed.

Lemma want_added ws cr c : lower c = lower cr -> want_entry (Some (ws ++ [cr])) c = true.
Proof.
  intros H. cbn [want_entry]. rewrite ci_mem_app. unfold ci_mem at 2. cbn [existsb]. rewrite H, str_eqb_refl.
  cbn [orb]. rewrite orb_true_r. reflexivity.
Qed.

Definition rdb (st : rstate) : db := fst (fst st).

(* one step of the reader on a key that is not yet in the database *)
Lemma add_entry_fresh cits d ws rep k e : ci_get d k = None ->
  add_entry cits (d, Some ws, rep) (k, e) =
  if want_entry (Some ws) k
  then (d ++ [(canonical_key cits k, rekey (canonical_key cits k) e)],
        Some (match ci_get (e_fields e) s_crossref with Some c => ws ++ [c] | None => ws end), rep)
  else (d, Some ws, rep).
Proof.
  intros H. cbn [add_entry]. destruct (want_entry (Some ws) k); cbn [negb]; [|reflexivity].
  rewrite H. destruct (ci_get (e_fields e) s_crossref); reflexivity.
Qed.

Lemma read_fold_spec : forall cits post d ws rep,
  (forall k e, In (k, e) post -> ci_get d k = None) ->
  NoDup (map (fun ke => lower (fst ke)) post) ->
  let d' := rdb (fold_left (add_entry cits) post (d, Some ws, rep)) in
  (forall k v, ci_get d k = Some v -> ci_get d' k = Some v) /\
  (forall k e, In (k, e) post -> want_entry (Some ws) k = true -> exists k', ci_get d' k = Some (rekey k' e)) /\
  (forall p1 k e p2 k' cr c p, post = p1 ++ (k, e) :: p2 -> ci_get d' k = Some (rekey k' e) ->
       ci_get (e_fields e) s_crossref = Some cr -> In (c, p) p2 -> lower c = lower cr ->
       exists k'', ci_get d' c = Some (rekey k'' p)) /\
  (forall k v, ci_get d' k = Some v ->
       ci_get d k = Some v \/ exists k0 e0 k', In (k0, e0) post /\ lower k0 = lower k /\ v = rekey k' e0).
Proof.
  intros cits. induction post as [|[kx ex] rest IH]; intros d ws rep Hfresh Hnd d'.
  - subst d'. cbn [fold_left rdb fst]. repeat split.
    + auto.
    + intros k e [].
    + intros p1 k e p2 k' cr c p Heq. destruct p1; discriminate Heq.
    + intros k v H. left. exact H.
  - cbn [map] in Hnd. inversion Hnd as [|? ? Hnotin Hnd']; subst.
    assert (Hkx : ci_get d kx = None) by (apply (Hfresh kx ex); left; reflexivity).
    subst d'. cbn [fold_left]. rewrite (add_entry_fresh cits d ws rep kx ex Hkx).
    assert (Hrest_ne : forall k e, In (k, e) rest -> lower k <> lower kx).
    { intros k e Hin Heq. apply Hnotin. apply in_map_iff. exists (k, e). split; [exact Heq|exact Hin]. }
    destruct (want_entry (Some ws) kx) eqn:Hw.
    + (* the entry is added *)
      set (k1 := canonical_key cits kx).
      set (ws1 := match ci_get (e_fields ex) s_crossref with Some c => ws ++ [c] | None => ws end).
      assert (Hk1 : lower k1 = lower kx) by apply canonical_key_lower.
      assert (Hfresh1 : forall k e, In (k, e) rest -> ci_get (d ++ [(k1, rekey k1 ex)]) k = None).
      { intros k e Hin. rewrite ci_get_app, (Hfresh k e (or_intror Hin)). cbn [ci_get].
        destruct (str_eqb_spec (lower k1) (lower k)) as [E|_]; [|reflexivity].
        exfalso. apply (Hrest_ne k e Hin). congruence. }
      destruct (IH (d ++ [(k1, rekey k1 ex)]) ws1 rep Hfresh1 Hnd') as [I1 [I2 [I3 I4]]].
      assert (Hx : ci_get (d ++ [(k1, rekey k1 ex)]) kx = Some (rekey k1 ex)).
      { rewrite ci_get_app, Hkx. cbn [ci_get]. rewrite Hk1, str_eqb_refl. reflexivity. }
      assert (Hmono : forall k, want_entry (Some ws) k = true -> want_entry (Some ws1) k = true).
      { intros k H. unfold ws1. destruct (ci_get (e_fields ex) s_crossref); [apply want_mono; exact H|exact H]. }
      repeat split.
      * intros k v H. apply I1. rewrite ci_get_app, H. reflexivity.
      * intros k e [Heq|Hin] Hwant.
        -- injection Heq as <- <-. exists k1. apply I1. exact Hx.
        -- apply I2; [exact Hin|apply Hmono; exact Hwant].
      * intros p1 k e p2 k' cr c p Heq Hkept Hcr Hin Hl. destruct p1 as [|x p1].
        -- cbn [app] in Heq. injection Heq as <- <- <-.
           apply I2; [exact Hin|]. unfold ws1. rewrite Hcr. apply want_added. exact Hl.
        -- cbn [app] in Heq. injection Heq as _ Heq. eapply I3; eassumption.
      * intros k v H. destruct (I4 k v H) as [H0|[k0 [e0 [k' [Hin [Hl Hv]]]]]].
        -- rewrite ci_get_app in H0. destruct (ci_get d k) as [v0|] eqn:Ed; [left; exact H0|].
           cbn [ci_get] in H0. destruct (str_eqb_spec (lower k1) (lower k)) as [E|_]; [|discriminate].
           injection H0 as <-. right. exists kx, ex, k1. split; [left; reflexivity|]. split; [congruence|reflexivity].
        -- right. exists k0, e0, k'. split; [right; exact Hin|]. split; assumption.
    + (* the entry is skipped *)
      assert (Hfresh1 : forall k e, In (k, e) rest -> ci_get d k = None) by (intros k e Hin; apply (Hfresh k e); right; exact Hin).
      destruct (IH d ws rep Hfresh1 Hnd') as [I1 [I2 [I3 I4]]].
      assert (Hnone : ci_get (rdb (fold_left (add_entry cits) rest (d, Some ws, rep))) kx = None).
      { destruct (ci_get (rdb (fold_left (add_entry cits) rest (d, Some ws, rep))) kx) as [v|] eqn:E; [|reflexivity].
        exfalso. destruct (I4 kx v E) as [H0|[k0 [e0 [k' [Hin [Hl _]]]]]]; [congruence|].
        apply (Hrest_ne k0 e0 Hin Hl). }
      repeat split.
      * exact I1.
      * intros k e [Heq|Hin] Hwant; [injection Heq as <- <-; congruence|apply I2; assumption].
      * intros p1 k e p2 k' cr c p Heq Hkept Hcr Hin Hl. destruct p1 as [|x p1].
        -- cbn [app] in Heq. injection Heq as <- <- <-. congruence.
        -- cbn [app] in Heq. injection Heq as _ Heq. eapply I3; eassumption.
      * intros k v H. destruct (I4 k v H) as [H0|[k0 [e0 [k' [Hin [Hl Hv]]]]]]; [left; exact H0|].
        right. exists k0, e0, k'. split; [right; exact Hin|]. split; assumption.
Qed.

Lemma ci_get_In_lower {V} (d : list (str * V)) k v :
  ci_get d k = Some v -> exists k0, In (k0, v) d /\ lower k0 = lower k.
Proof.
  induction d as [|[k' v'] d IH]; cbn [ci_get]; [discriminate|].
  destruct (str_eqb_spec (lower k') (lower k)) as [E|_].
  - intros [= ->]. exists k'. split; [left; reflexivity|exact E].
  - intros H. destruct (IH H) as [k0 [Hin Hl]]. exists k0. split; [right; exact Hin|exact Hl].
Qed.

Lemma In_ci_get_some {V} (d : list (str * V)) k v : In (k, v) d -> exists v', ci_get d k = Some v'.
Proof.
  induction d as [|[k' v'] d IH]; intros Hin; [destruct Hin|]. cbn [ci_get].
  destruct (str_eqb_spec (lower k') (lower k)) as [_|N]; [eexists; reflexivity|].
  destruct Hin as [Heq|Hin]; [injection Heq as -> _; congruence|apply IH; exact Hin].
Qed.

Lemma find_field_S n bd e name vis :
  find_field (S n) bd e name vis =
  match ci_get (e_fields e) name with
  | Some v => Ok (Some v)
  | None => match find_person_field e name with
            | Some v => Ok (Some v)
            | None => find_crossref_field (fun e' vis' => find_field n bd e' name vis') e bd vis
            end
  end.
Proof. reflexivity. Qed.

Lemma find_field_more : forall n bd e f vis v,
  find_field n bd e f vis = Ok v -> find_field (S n) bd e f vis = Ok v.
Proof.
  induction n as [|n IH]; intros bd e f vis v H; [discriminate H|].
  rewrite find_field_S in H. rewrite find_field_S.
  destruct (ci_get (e_fields e) f); [exact H|].
  destruct (find_person_field e f); [exact H|].
  unfold find_crossref_field in *. destruct bd as [d|]; [|exact H].
  destruct (ci_get (e_fields e) s_crossref); [|exact H].
  destruct (existsb (Nat.eqb (e_id e)) vis); [exact H|].
  destruct (ci_get d s); [|exact H]. apply IH. exact H.
Qed.

Lemma find_field_mono : forall m n bd e f vis v,
  find_field n bd e f vis = Ok v -> find_field (n + m) bd e f vis = Ok v.
Proof.
  induction m as [|m IH]; intros n bd e f vis v H.
  - rewrite Nat.add_0_r. exact H.
  - rewrite Nat.add_succ_r. apply find_field_more. apply IH. exact H.
Qed.

Section Filtered.
  Variables (cits : list str) (file : db).
  Hypothesis Hnd : keys_distinct file.
  Hypothesis Hcf : children_first file.
  Let dF := read_filtered (Some cits) file.

  Definition keptP (k0 : str) (e : entry) : Prop :=
    exists p1 p2 k', file = p1 ++ (k0, e) :: p2 /\ ci_get dF k0 = Some (rekey k' e).

  Lemma read_spec_file :
    (forall k e, In (k, e) file -> want_entry (Some cits) k = true -> exists k', ci_get dF k = Some (rekey k' e)) /\
    (forall p1 k e p2 k' cr c p, file = p1 ++ (k, e) :: p2 -> ci_get dF k = Some (rekey k' e) ->
         ci_get (e_fields e) s_crossref = Some cr -> In (c, p) p2 -> lower c = lower cr ->
         exists k'', ci_get dF c = Some (rekey k'' p)) /\
    (forall k v, ci_get dF k = Some v -> exists k0 e0 k', In (k0, e0) file /\ lower k0 = lower k /\ v = rekey k' e0).
  Proof.
    destruct (read_fold_spec cits file [] cits [] (fun _ _ _ => eq_refl) Hnd) as [_ [I2 [I3 I4]]].
    split; [exact I2|]. split; [exact I3|].
    intros k v H. destruct (I4 k v H) as [H0|H0]; [discriminate H0|exact H0].
  Qed.

  Lemma kept_parent : forall k0 e cr, keptP k0 e -> ci_get (e_fields e) s_crossref = Some cr ->
    match ci_get file cr with
    | Some p => exists c k'', keptP c p /\ ci_get dF cr = Some (rekey k'' p)
    | None => ci_get dF cr = None
    end.
  Proof.
    intros k0 e cr [p1 [p2 [k' [Hfile Hk]]]] Hcr.
    destruct read_spec_file as [_ [I3 I4]].
    destruct (ci_get file cr) as [p|] eqn:Ep.
    - pose proof (Hcf p1 k0 e p2 cr Hfile Hcr) as Hbefore.
      assert (Hsplit : file = (p1 ++ [(k0, e)]) ++ p2) by (rewrite <- app_assoc; exact Hfile).
      rewrite Hsplit, ci_get_app, Hbefore in Ep.
      destruct (ci_get_In_lower p2 cr p Ep) as [c [Hin Hl]].
      destruct (I3 p1 k0 e p2 k' cr c p Hfile Hk Hcr Hin Hl) as [k'' Hc].
      exists c, k''. split.
      + destruct (in_split _ _ Hin) as [q1 [q2 Hq]].
        exists (p1 ++ (k0, e) :: q1), q2, k''. split; [|exact Hc].
        rewrite Hfile, Hq, <- app_assoc. reflexivity.
      + rewrite <- (ci_get_lower dF cr c Hl). exact Hc.
    - destruct (ci_get dF cr) as [v|] eqn:Ev; [|reflexivity].
      exfalso. destruct (I4 cr v Ev) as [c [e0 [k'' [Hin [Hl _]]]]].
      destruct (In_ci_get_some file c e0 Hin) as [v' Hv'].
      rewrite (ci_get_lower file cr c Hl) in Hv'. congruence.
  Qed.

  Lemma filtered_sim : forall f n vis k0 e kk, keptP k0 e ->
    find_field n (Some dF) (rekey kk e) f vis = find_field n (Some file) e f vis.
  Proof.
    intros f. induction n as [|n IH]; intros vis k0 e kk Hk; [reflexivity|].
    rewrite !find_field_S. cbn [rekey e_fields].
    destruct (ci_get (e_fields e) f); [reflexivity|].
    change (find_person_field (rekey kk e) f) with (find_person_field e f).
    destruct (find_person_field e f); [reflexivity|].
    unfold find_crossref_field. cbn [rekey e_fields e_id].
    destruct (ci_get (e_fields e) s_crossref) as [cr|] eqn:Ecr; [|reflexivity].
    destruct (existsb (Nat.eqb (e_id e)) vis); [reflexivity|].
    pose proof (kept_parent k0 e cr Hk Ecr) as Hp.
    destruct (ci_get file cr) as [p|].
    - destruct Hp as [c [k'' [Hkp ->]]]. cbn [rekey e_id]. apply (IH _ c). exact Hkp.
    - rewrite Hp. reflexivity.
  Qed.

  Lemma filtered_chain_inherits_l : forall k e f,
    want_entry (Some cits) k = true -> ci_get file k = Some e ->
    exists k', ci_get dF k = Some (rekey k' e) /\
               entry_find_field (Some dF) (rekey k' e) f = entry_find_field (Some file) e f.
  Proof.
    intros k e f Hw Hk.
    destruct (ci_get_In_lower file k e Hk) as [k0 [Hin Hl]].
    destruct read_spec_file as [I2 _].
    destruct (I2 k0 e Hin) as [k' Hk'].
    { rewrite (want_lower (Some cits) k k0 Hl). exact Hw. }
    exists k'. split; [rewrite <- (ci_get_lower dF k k0 Hl); exact Hk'|].
    assert (Hkept : keptP k0 e).
    { destruct (in_split _ _ Hin) as [p1 [p2 Hs]]. exists p1, p2, k'. split; assumption. }
    destruct (find_terminates_l (Some dF) (rekey k' e) f) as [v Hv].
    destruct (find_terminates_l (Some file) e f) as [v2 Hv2].
    rewrite Hv, Hv2. unfold entry_find_field in Hv, Hv2.
    pose proof (find_field_mono (fuel_for (Some file)) _ _ _ _ _ _ Hv) as H1.
    pose proof (find_field_mono (fuel_for (Some dF)) _ _ _ _ _ _ Hv2) as H2.
    rewrite (filtered_sim f _ [] k0 e k' Hkept) in H1.
    rewrite (Nat.add_comm (fuel_for (Some file))) in H2. congruence.
  Qed.
End Filtered.

Lemma filtered_engines_agree_l : forall file cits minx fs, no_crossref_var fs = true ->
  exists reports ob op,
    bst_run_file file cits minx fs = Ok (reports, ob) /\
    format_bibliography_file file cits minx fs = Ok (reports, op) /\
    map snd ob = map snd op.
Proof.
  intros file cits minx fs H. unfold bst_run_file, format_bibliography_file.
  destruct (engines_agree_l (read_filtered (Some cits) file) cits minx fs H) as [r [ob [op [H1 [H2 [H3 _]]]]]].
  exists r, ob, op. repeat split; assumption.
Qed.

(* a chain child -> mid -> top, children first, and the same file with the parents first *)
Definition fl_child : entry := mkEntry 0 [99%N] [(s_crossref, [109%N])] [].                (* c: crossref = m *)
Definition fl_mid : entry := mkEntry 1 [109%N] [(s_crossref, [116%N])] [].                 (* m: crossref = t *)
Definition fl_top : entry := mkEntry 2 [116%N] [([120%N], [88%N])] [].                      (* t: x = X *)
Definition fl_good : db := [([99%N], fl_child); ([109%N], fl_mid); ([116%N], fl_top)].
Definition fl_bad : db := [([116%N], fl_top); ([109%N], fl_mid); ([99%N], fl_child)].

Lemma fl_good_ok : keys_distinct fl_good /\ children_first fl_good.
Proof.
  split.
  - unfold keys_distinct. vm_compute. repeat constructor; cbn; intuition discriminate.
  - intros pre k e post cr Heq Hcr.
    destruct pre as [|a [|b [|c [|x pre]]]]; cbn in Heq; try discriminate Heq;
      injection Heq; intros; subst; vm_compute in Hcr; try discriminate Hcr;
      injection Hcr as <-; vm_compute; reflexivity.
Qed.

(* ======================================================================================
   histories: a look-up depends only on the current graph
   ====================================================================================== *)
Definition is_lookup (op : hop) : bool := match op with HLookup _ _ => true | _ => false end.

Lemma run_history_snoc_l : forall ops d k f,
  run_history d (ops ++ [HLookup k f]) = run_history d ops ++ [lookup_now (graph_after d ops) k f].
Proof.
  induction ops as [|op ops IH]; intros d k f; [reflexivity|].
  destruct op; cbn [app run_history graph_after apply_hop]; rewrite IH; reflexivity.
Qed.

Lemma graph_after_ignores_lookups_l : forall ops d,
  graph_after d ops = graph_after d (filter (fun op => negb (is_lookup op)) ops).
Proof.
  induction ops as [|op ops IH]; intros d; [reflexivity|].
  destruct op; cbn [filter is_lookup negb graph_after apply_hop]; apply IH.
Qed.

Lemma lookup_depends_only_on_current_graph_l : forall d ops ops' k f,
  filter (fun op => negb (is_lookup op)) ops = filter (fun op => negb (is_lookup op)) ops' ->
  last (run_history d (ops ++ [HLookup k f])) None = lookup_now (graph_after d (filter (fun op => negb (is_lookup op)) ops)) k f /\
  last (run_history d (ops ++ [HLookup k f])) None = last (run_history d (ops' ++ [HLookup k f])) None.
Proof.
  intros d ops ops' k f H.
  rewrite !run_history_snoc_l, !last_last.
  rewrite (graph_after_ignores_lookups_l ops), (graph_after_ignores_lookups_l ops'), H. split; reflexivity.
Qed.

(* ======================================================================================
   several sources = their concatenation
   ====================================================================================== *)
Lemma read_sources_fold : forall (cits : list str) (sources : list db) (st : rstate),
  fold_left (fun st src => fold_left (add_entry cits) src st) sources st
  = fold_left (add_entry cits) (concat sources) st.
Proof.
  intros cits. induction sources as [|src sources IH]; intros st; [reflexivity|].
  cbn [fold_left concat]. rewrite fold_left_app. apply IH.
Qed.

Lemma multi_source_is_concatenation_l : forall wanted sources,
  read_sources_state wanted sources = read_state wanted (concat sources).
Proof. intros wanted sources. unfold read_sources_state, read_state. apply read_sources_fold. Qed.

Lemma multi_source_chain_inherits_l : forall cits sources,
  keys_distinct (concat sources) -> children_first (concat sources) ->
  forall k e f, want_entry (Some cits) k = true -> ci_get (concat sources) k = Some e ->
  exists k', ci_get (read_sources (Some cits) sources) k = Some (rekey k' e) /\
             entry_find_field (Some (read_sources (Some cits) sources)) (rekey k' e) f
             = entry_find_field (Some (concat sources)) e f.
Proof.
  intros cits sources Hnd Hcf k e f Hw Hk. unfold read_sources.
  rewrite multi_source_is_concatenation_l.
  exact (filtered_chain_inherits_l cits (concat sources) Hnd Hcf k e f Hw Hk).
Qed.
