(* Proofs/BstLast.v -- F21 sharpened: a command with fewer groups than its arity is accepted only
   when another command follows it; the last command of an accepted program is always complete. *)
From Pybtex Require Import Base.Prelude Base.PyChar Base.PyStr Model.BstParser Spec.BstPrint
  Proofs.BstLex Proofs.BstErrors Proofs.BstArity Proofs.BstTotal.
Local Open Scope N_scope.

Lemma get_token_false_cls ps s ln c l : get_token ps false s ln = PyErr c l -> c = cls_premature.
Proof.
  unfold get_token. destruct (eat_whitespace s ln) as [r l0]. destruct r as [|x r].
  - intros H. injection H as <- _. reflexivity.
  - destruct (first_match ps (x :: r)) as [[[? ?] ?]|]; discriminate.
Qed.
Lemma required_false_cls ps s ln c l : required ps false s ln = PyErr c l -> c <> cls_eof.
Proof.
  unfold required. destruct (get_token ps false s ln) as [[o st]|c0 l0| |] eqn:E; cbn [bind fst snd]; try discriminate.
  - destruct o; [discriminate|]. intros H. injection H as <- _. discriminate.
  - intros H. injection H as <- _. apply get_token_false_cls in E. subst. discriminate.
Qed.

Lemma parse_group_cls : forall fuel s ln c l, parse_group fuel s ln = PyErr c l -> c <> cls_eof.
Proof.
  induction fuel as [|f IH]; intros s ln c l; cbn [parse_group]; [discriminate|].
  destruct (required group_pats false s ln) as [[[p v] [s1 ln1]]|c0 l0| |] eqn:E; cbn [bind]; try discriminate.
  2:{ intros H. injection H as <- <-. eapply required_false_cls; exact E. }
  assert (Hrest : forall hd : tok, (do r <- parse_group f s1 ln1; Ok (hd :: fst r, snd r)) = PyErr c l -> c <> cls_eof).
  { intros hd. destruct (parse_group f s1 ln1) as [[items st]|c1 l1| |] eqn:E1; cbn [bind]; try discriminate.
    intros H. injection H as <- <-. eapply IH; exact E1. }
  destruct p.
  - destruct (literal P_NAME v) as [t|c1 l1| |] eqn:El; cbn [bind]; try discriminate; [apply Hrest|].
    exfalso. eapply literal_no_pyerr; exact El.
  - destruct (literal P_STRING v) as [t|c1 l1| |] eqn:El; cbn [bind]; try discriminate; [apply Hrest|].
    exfalso. eapply literal_no_pyerr; exact El.
  - destruct (literal P_INTEGER v) as [t|c1 l1| |] eqn:El; cbn [bind]; try discriminate; [apply Hrest|].
    exfalso. eapply literal_no_pyerr; exact El.
  - destruct (parse_group f s1 ln1) as [[body [s2 ln2]]|c1 l1| |] eqn:E1; cbn [bind]; try discriminate.
    2:{ intros H. injection H as <- <-. eapply IH; exact E1. }
    destruct (parse_group f s2 ln2) as [[items st]|c1 l1| |] eqn:E2; cbn [bind]; try discriminate.
    intros H. injection H as <- <-. eapply IH; exact E2.
  - discriminate.
Qed.

Lemma parse_args_cls fuel : forall n s ln c l, parse_args fuel n s ln = PyErr c l -> c <> cls_eof.
Proof.
  induction n as [|k IH]; intros s ln c l; cbn [parse_args]; [discriminate|]. unfold optional.
  destruct (get_token [P_LBRACE] false s ln) as [[o [s1 ln1]]|c0 l0| |] eqn:E; cbn [bind]; try discriminate.
  2:{ intros H. injection H as <- <-. apply get_token_false_cls in E. subst. discriminate. }
  destruct o as [t|]; [|discriminate].
  destruct (parse_group fuel s1 ln1) as [[grp [s2 ln2]]|c1 l1| |] eqn:E1; cbn [bind]; try discriminate.
  2:{ intros H. injection H as <- <-. eapply parse_group_cls; exact E1. }
  destruct (parse_args fuel k s2 ln2) as [[gs st]|c1 l1| |] eqn:E2; cbn [bind]; try discriminate.
  intros H. injection H as <- <-. eapply IH; exact E2.
Qed.

(* after a short argument list the scanner stands on a character that is not whitespace *)
Lemma parse_args_short fuel : forall n s ln gs s' ln', parse_args fuel n s ln = Ok (gs, (s', ln')) ->
  length gs = n \/ (s' <> [] /\ stops is_space s').
Proof.
  induction n as [|k IH]; intros s ln gs s' ln'; cbn [parse_args].
  - intros H. injection H as <- _ _. left; reflexivity.
  - unfold optional.
    destruct (get_token [P_LBRACE] false s ln) as [[o [s1 ln1]]|c0 l0| |] eqn:E; cbn [bind]; try discriminate.
    destruct o as [t|].
    2:{ intros H. injection H as <- <- <-. right. apply get_token_len in E as (_ & _ & H). now apply H. }
    destruct (parse_group fuel s1 ln1) as [[grp [s2 ln2]]|c1 l1| |]; cbn [bind]; try discriminate.
    destruct (parse_args fuel k s2 ln2) as [[gs2 [s3 ln3]]|c1 l1| |] eqn:E2; cbn [bind]; try discriminate.
    intros H. injection H as <- <- <-. cbn [fst length].
    destruct (IH _ _ _ _ _ E2) as [->|H]; [left; reflexivity|right; exact H].
Qed.

Lemma parse_command_not_eof fuel s ln l : s <> [] -> stops is_space s -> parse_command fuel s ln <> PyErr cls_eof l.
Proof.
  intros Hne Hst. destruct s as [|x r]; [congruence|]. cbn [stops] in Hst.
  assert (Hsp : span is_space (x :: r) = ([], x :: r)) by (apply span_nil_head; exact Hst).
  unfold parse_command, required, get_token, eat_whitespace. rewrite Hsp.
  destruct (first_match [P_NAME] (x :: r)) as [[[p v] r']|]; cbn [bind fst snd]; [|discriminate].
  destruct (arity v) as [n|]; [|discriminate].
  destruct (parse_args fuel n r' (ln + nl_count [])%Z) as [[gs st]|c1 l1| |] eqn:E; cbn [bind]; try discriminate.
  intros H. injection H as -> _. apply parse_args_cls in E. congruence.
Qed.

Lemma parse_loop_last : forall fuel s ln p, parse_loop fuel s ln = Ok p ->
  forall pre c, p = pre ++ [c] -> arity_exact c.
Proof.
  induction fuel as [|f IH]; intros s ln p; cbn [parse_loop]; [discriminate|].
  destruct (parse_command (S (length s)) s ln) as [[c0 [s1 ln1]]|c1 l1| |] eqn:E; try discriminate.
  2:{ destruct (c1 =? cls_eof); [|discriminate]. intros H pre c Hp. injection H as <-. destruct pre; discriminate. }
  destruct (parse_loop f s1 ln1) as [rest|c1 l1| |] eqn:E2; cbn [bind]; try discriminate.
  intros H pre c Hp. injection H as <-.
  destruct pre as [|c' pre'].
  - (* c0 is the last command: the loop ended right after it *)
    cbn [app] in Hp. injection Hp as -> ->.
    destruct f as [|f']; [discriminate|]. cbn [parse_loop] in E2.
    destruct (parse_command (S (length s1)) s1 ln1) as [[c2 [s2 ln2]]|c1 l1| |] eqn:E3; try discriminate.
    { destruct (parse_loop f' s2 ln2); cbn [bind] in E2; discriminate. }
    destruct (c1 =? cls_eof) eqn:Ec; [|discriminate]. apply N.eqb_eq in Ec. subst c1.
    unfold parse_command in E.
    destruct (required [P_NAME] true s ln) as [[[p name] [s0 ln0]]|? ?| |]; cbn [bind] in E; try discriminate.
    destruct (arity name) as [n|] eqn:Ear; [|discriminate].
    destruct (parse_args (S (length s)) n s0 ln0) as [[gs [s3 ln3]]|? ?| |] eqn:Ea; cbn [bind fst snd] in E; try discriminate.
    injection E as <- <- <-.
    destruct (parse_args_short _ _ _ _ _ _ _ Ea) as [Hlen|[Hne Hst]].
    + unfold arity_exact. cbn [fst snd]. now rewrite Hlen.
    + exfalso. eapply parse_command_not_eof; eassumption.
  - cbn [app] in Hp. injection Hp as _ Hp. eapply IH; eassumption.
Qed.

Theorem last_command_complete : forall src p pre c,
  parse_string src = Ok p -> p = pre ++ [c] -> arity_exact c.
Proof. intros src p pre c H Hp. unfold parse_string, parse_text in H. eapply parse_loop_last; eassumption. Qed.
