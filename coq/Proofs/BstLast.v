(* Proofs/BstLast.v -- which error classes the group / argument parsers can raise: never the
   EOFError (class 0) that ends BstParser.parse.  (Before fix 135237f this file also held the
   sharpened form of finding F21.) *)
From Pybtex Require Import Base.Prelude Base.PyChar Base.PyStr Model.BstParser Spec.BstPrint
  Proofs.BstLex Proofs.BstErrors Proofs.BstArity Proofs.BstTotal.
Local Open Scope N_scope.

Lemma get_token_false_cls ps s ln c l : get_token ps false s ln = PyErr c l -> c = cls_premature.
Proof.
  unfold get_token. destruct (eat_whitespace s ln) as [r l0]. destruct r as [|x r].
  - intros H. injection H as <- _. reflexivity.
  - destruct (first_match ps (x :: r)) as [[[? ?] ?]|]; discriminate.
Qed.
Lemma required_false_cls ps s ln c l : required ps false s ln = PyErr c l -> c <> cls_eof.
Proof.
  unfold required. destruct (get_token ps false s ln) as [[o st]|c0 l0| |] eqn:E; cbn [bind fst snd]; try discriminate.
  - destruct o; [discriminate|]. intros H. injection H as <- _. discriminate.
  - intros H. injection H as <- _. apply get_token_false_cls in E. subst. discriminate.
Qed.

Lemma parse_group_cls : forall fuel s ln c l, parse_group fuel s ln = PyErr c l -> c <> cls_eof.
Proof.
  induction fuel as [|f IH]; intros s ln c l; cbn [parse_group]; [discriminate|].
  destruct (required group_pats false s ln) as [[[p v] [s1 ln1]]|c0 l0| |] eqn:E; cbn [bind]; try discriminate.
  2:{ intros H. injection H as <- <-. eapply required_false_cls; exact E. }
  assert (Hrest : forall hd : tok, (do r <- parse_group f s1 ln1; Ok (hd :: fst r, snd r)) = PyErr c l -> c <> cls_eof).
  { intros hd. destruct (parse_group f s1 ln1) as [[items st]|c1 l1| |] eqn:E1; cbn [bind]; try discriminate.
    intros H. injection H as <- <-. eapply IH; exact E1. }
  destruct p.
  - destruct (literal P_NAME v) as [t|c1 l1| |] eqn:El; cbn [bind]; try discriminate; [apply Hrest|].
    exfalso. eapply literal_no_pyerr; exact El.
  - destruct (literal P_STRING v) as [t|c1 l1| |] eqn:El; cbn [bind]; try discriminate; [apply Hrest|].
    exfalso. eapply literal_no_pyerr; exact El.
  - destruct (literal P_INTEGER v) as [t|c1 l1| |] eqn:El; cbn [bind]; try discriminate; [apply Hrest|].
    exfalso. eapply literal_no_pyerr; exact El.
  - destruct (parse_group f s1 ln1) as [[body [s2 ln2]]|c1 l1| |] eqn:E1; cbn [bind]; try discriminate.
    2:{ intros H. injection H as <- <-. eapply IH; exact E1. }
    destruct (parse_group f s2 ln2) as [[items st]|c1 l1| |] eqn:E2; cbn [bind]; try discriminate.
    intros H. injection H as <- <-. eapply IH; exact E2.
  - discriminate.
Qed.

Lemma parse_args_cls fuel : forall n s ln c l, parse_args fuel n s ln = PyErr c l -> c <> cls_eof.
Proof.
  induction n as [|k IH]; intros s ln c l; cbn [parse_args]; [discriminate|].
  destruct (required [P_LBRACE] false s ln) as [[[p v] [s1 ln1]]|c0 l0| |] eqn:E; cbn [bind]; try discriminate.
  2:{ intros H. injection H as <- <-. eapply required_false_cls; exact E. }
  destruct (parse_group fuel s1 ln1) as [[grp [s2 ln2]]|c1 l1| |] eqn:E1; cbn [bind]; try discriminate.
  2:{ intros H. injection H as <- <-. eapply parse_group_cls; exact E1. }
  destruct (parse_args fuel k s2 ln2) as [[gs st]|c1 l1| |] eqn:E2; cbn [bind]; try discriminate.
  intros H. injection H as <- <-. eapply IH; exact E2.
Qed.
