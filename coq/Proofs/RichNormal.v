(* Proofs/RichNormal.v -- every value the smart constructor returns is in normal form; hence the
   grouping / nesting of the parts affects neither the object built, nor ==, nor any rendering. *)
From Pybtex Require Import Base.Prelude Base.PyChar Base.PyStr Model.RtTypes Model.RichText
  Spec.Flat Spec.FlatOps Proofs.RichText Proofs.RichSlice Proofs.RichOps Proofs.RichWf Proofs.RichInj.

Definition goodp (t : rt) : Prop := part_ok t = true /\ wf t.

Lemma goodp_good t : goodp t -> good t.
Proof. intros [H W]. apply part_ok_inv in H as [_ [_ H]]. split; assumption. Qed.

Lemma good_parts t : good t -> is_multipart t = true -> Forall goodp (parts_of t).
Proof.
  intros [N W] Hm. pose proof (wf_parts t W) as Wp.
  assert (Forall (fun p => part_ok p = true) (parts_of t)).
  { destruct t; cbn in Hm; try discriminate; cbn [normal parts_of] in *;
      apply andb_prop in N as [N _]; apply Forall_forall; intros x Hx; rewrite forallb_forall in N; apply N, Hx. }
  rewrite Forall_forall in *. intros x Hx. split; auto.
Qed.

(* ---- rlen of a constructed value ---- *)
Lemma mk_rlen f k raw v : mk f k raw = Some v -> rlen v = list_sum (map rlen raw).
Proof.
  intro H. pose proof (mk_flat_e f k raw v H) as E. apply (f_equal (@length _)) in E.
  rewrite flat_e_length, pushk_e_length in E. rewrite E. clear.
  induction raw as [|p r IH]; cbn; [reflexivity|]. rewrite app_length, flat_e_length.
  unfold list_sum in IH. now rewrite IH.
Qed.

(* ---- groupby: neighbouring groups have different keys ---- *)
Definition gkey (g : list rt) : tinfo := match g with x :: _ => typeinfo x | [] => TINone end.
Fixpoint chain (gs : list (list rt)) : Prop :=
  match gs with
  | g1 :: r => match r with g2 :: _ => tinfo_eqb (gkey g1) (gkey g2) = false | [] => True end /\ chain r
  | [] => True
  end.
Lemma groupby_chain l : chain (groupby l).
Proof.
  induction l as [|x r IH]; cbn [groupby]; [exact I|].
  destruct (groupby r) as [|[|y g] gs] eqn:E.
  - cbn. auto.
  - cbn. auto.
  - destruct (tinfo_eqb (typeinfo x) (typeinfo y)) eqn:T.
    + apply tinfo_eqb_eq in T. cbn [chain] in *. destruct IH as [H1 H2]. split; [|exact H2].
      destruct gs; [exact I|]. cbn [gkey] in *. now rewrite T.
    + cbn [chain] in *. split; [exact T|exact IH].
Qed.

(* ---- adjacency of concatenations ---- *)
Lemma adjacent_ok_app a b : adjacent_ok a = true -> adjacent_ok b = true ->
  (forall p q a0 b0, a = a0 ++ [p] -> b = q :: b0 -> adj_ok p q = true) ->
  adjacent_ok (a ++ b) = true.
Proof.
  intros Ha Hb Hj. induction a as [|p a IH]; [exact Hb|].
  cbn [app adjacent_ok] in *. apply andb_prop in Ha as [H1 H2].
  rewrite IH; [|exact H2|intros p0 q a0 b0 E1 E2; apply (Hj p0 q (p :: a0) b0); [now rewrite E1|exact E2]].
  rewrite andb_true_r. destruct a as [|p' a'].
  - cbn [app]. destruct b as [|q b0]; [reflexivity|]. apply (Hj p q [] b0); reflexivity.
  - exact H1.
Qed.

Lemma tinfo_eqb_sym a b : tinfo_eqb a b = tinfo_eqb b a.
Proof.
  destruct (tinfo_eqb a b) eqn:E.
  - apply tinfo_eqb_eq in E. subst. symmetry. apply tinfo_eqb_refl.
  - destruct (tinfo_eqb b a) eqn:E2; [|reflexivity]. apply tinfo_eqb_eq in E2. subst. now rewrite tinfo_eqb_refl in E.
Qed.

(* ---- one group ---- *)
Ltac split4 := split; [|split; [|split]].

Definition rec_good (rec : kind -> list rt -> option rt) : Prop :=
  forall k raw v, Forall good raw -> rec k raw = Some v ->
    good v /\ rlen v = list_sum (map rlen raw) /\ typeinfo v = typeinfo (build k []).

Lemma rlen_parts t : is_multipart t = true -> list_sum (map rlen (parts_of t)) = rlen t.
Proof. destruct t; cbn; try discriminate; reflexivity. Qed.

Lemma sum_parts_pos g : g <> [] -> Forall (fun x => nonempty x = true /\ is_multipart x = true) g ->
  list_sum (map rlen (flat_map parts_of g)) <> 0.
Proof.
  intros Hne H. destruct H as [|x g [Hx Hm] _]; [congruence|]. cbn [flat_map].
  rewrite map_app, list_sum_app, (rlen_parts x Hm). unfold nonempty in Hx.
  destruct (Nat.eqb_spec (rlen x) 0); [discriminate|lia].
Qed.

Lemma merge_group_good rec g a : rec_good rec -> g <> [] -> homog g -> Forall goodp g ->
  merge_group rec g = Some a ->
  a <> [] /\ Forall goodp a /\ Forall (fun x => typeinfo x = gkey g) a /\ adjacent_ok a = true.
Proof.
  intros Hrec Hne Hh Hg Hm. destruct g as [|x [|y r]]; [congruence| |].
  - cbn in Hm. inversion Hm; subst. split4; [discriminate|exact Hg|constructor; [reflexivity|constructor]|reflexivity].
  - unfold merge_group in Hm. cbn [homog] in Hh.
    assert (Hall : Forall (fun z => typeinfo z = typeinfo x) (x :: y :: r)) by (constructor; [reflexivity|exact Hh]).
    remember (x :: y :: r) as g eqn:Eg. cbn [gkey]. replace (gkey g) with (typeinfo x) by (subst g; reflexivity).
    assert (Hgood : Forall good (flat_map parts_of g)).
    { clear - Hg. induction Hg as [|z g Hz _ IH]; cbn; [constructor|]. apply Forall_app; split; [|exact IH].
      destruct (is_multipart z) eqn:Hm.
      - eapply Forall_impl; [apply goodp_good|]. apply good_parts; [now apply goodp_good|exact Hm].
      - destruct z; cbn in Hm; try discriminate; cbn; repeat constructor. }
    assert (Hrc : forall k, typeinfo (build k []) = typeinfo x ->
              (forall z, typeinfo z = typeinfo x -> is_multipart z = true) ->
              forall t, rec k (flat_map parts_of g) = Some t ->
              [t] <> [] /\ Forall goodp [t] /\ Forall (fun z => typeinfo z = typeinfo x) [t] /\ adjacent_ok [t] = true).
    { intros k Hk Hmp t Ht. destruct (Hrec k _ t Hgood Ht) as [[Nt Wt] [Lt Tt]].
      split4; [discriminate| |constructor; [congruence|constructor]|reflexivity].
      constructor; [|constructor]. split; [|exact Wt]. unfold part_ok. rewrite Nt, andb_true_r.
      assert (Hnz : rlen t <> 0).
      { rewrite Lt. apply sum_parts_pos; [subst g; discriminate|].
        rewrite Forall_forall in *. intros z Hz. destruct (Hg z Hz) as [Hp _]. apply part_ok_inv in Hp as [Hp _].
        split; [exact Hp|apply Hmp, Hall, Hz]. }
      unfold nonempty. destruct (Nat.eqb_spec (rlen t) 0); [contradiction|]. cbn.
      destruct t; try reflexivity. exfalso. rewrite <- Tt in Hk. cbn in Hk.
      assert (Hx : goodp x) by (subst g; now inversion Hg). destruct Hx as [Hx _].
      apply part_ok_inv in Hx as [_ [Hx _]]. destruct x; cbn in Hk, Hx; discriminate. }
    assert (Wx : wf x) by (subst g; inversion Hg as [|? ? [_ W] _]; exact W).
    destruct (typeinfo x) eqn:Tx.
    + inversion Hm; subst a. split4; [subst g; discriminate|exact Hg| |].
      * eapply Forall_impl; [|exact Hall]. cbn. intros z Hz. congruence.
      * clear - Hall Tx. induction Hall as [|z l Hz Hl IH]; [reflexivity|]. cbn [adjacent_ok]. rewrite IH, andb_true_r.
        destruct l; [reflexivity|]. unfold adj_ok. rewrite Hz. apply orb_true_r.
    + inversion Hm; subst a. split4; [discriminate| |constructor; [reflexivity|constructor]|reflexivity].
      constructor; [|constructor]. split; [|reflexivity]. unfold part_ok. cbn [not_text normal]. rewrite !andb_true_r.
      (* non-empty: the first string of the group is non-empty *)
      assert (Hx : goodp x) by (subst g; now inversion Hg). destruct Hx as [Hx _]. apply part_ok_inv in Hx as [Hx _].
      destruct x; cbn in Tx; try discriminate. subst g. cbn [flat_map parts_of str_val app].
      unfold nonempty in *. cbn [rlen] in *. rewrite app_length.
      destruct (Nat.eqb_spec (length s) 0); [discriminate|].
      destruct (Nat.eqb_spec (length s + length (flat_map str_val (parts_of y ++ flat_map parts_of r))) 0); [lia|reflexivity].
    + exfalso. assert (Hx : goodp x) by (subst g; now inversion Hg). destruct Hx as [Hx _].
      apply part_ok_inv in Hx as [_ [Hx _]]. destruct x; cbn in Tx, Hx; discriminate.
    + destruct (rec (KTag n) _) as [t|] eqn:R; inversion Hm; subst a. apply (Hrc (KTag n)); [| |exact R].
      * cbn. destruct x; cbn in Tx; try discriminate. inversion Tx; subst. unfold wf in Wx. cbn in Wx.
        apply andb_prop in Wx as [Wn _]. destruct (str_eqb_spec (canon_name n) n) as [E|]; [|discriminate].
        change (check_name n) with (canon_name n). now rewrite E.
      * intros z Hz. destruct z; cbn in Hz; try discriminate; reflexivity.
    + destruct (rec (KHRef u e) _) as [t|] eqn:R; inversion Hm; subst a. apply (Hrc (KHRef u e)); [reflexivity| |exact R].
      intros z Hz. destruct z; cbn in Hz; try discriminate; reflexivity.
    + destruct (rec KProt _) as [t|] eqn:R; inversion Hm; subst a. apply (Hrc KProt); [reflexivity| |exact R].
      intros z Hz. destruct z; cbn in Hz; try discriminate; reflexivity.
Qed.

(* ---- all groups ---- *)
Lemma merge_all_good rec gs : rec_good rec ->
  Forall (fun g => g <> []) gs -> Forall homog gs -> Forall (Forall goodp) gs -> chain gs ->
  forall a, merge_all rec gs = Some a ->
  Forall goodp a /\ adjacent_ok a = true /\
  match gs with g :: _ => exists x a', a = x :: a' /\ typeinfo x = gkey g | [] => a = [] end.
Proof.
  intros Hrec Hne. induction Hne as [|g gs Hg Hgs IH]; intros Hh Hp Hc a Hm; cbn [merge_all] in Hm.
  - inversion Hm. repeat split; constructor.
  - inversion Hh as [|? ? Hhg Hhs]; subst. inversion Hp as [|? ? Hpg Hps]; subst.
    destruct (merge_group rec g) as [a1|] eqn:G; [|discriminate].
    destruct (merge_all rec gs) as [a2|] eqn:A; [|discriminate]. inversion Hm; subst a.
    destruct (merge_group_good rec g a1 Hrec Hg Hhg Hpg G) as [N1 [P1 [T1 A1]]].
    cbn [chain] in Hc. destruct Hc as [Hc1 Hc2].
    destruct (IH Hhs Hps Hc2 a2 eq_refl) as [P2 [A2 Hd2]].
    split; [apply Forall_app; split; assumption|]. split.
    + apply adjacent_ok_app; [exact A1|exact A2|]. intros p q a0 b0 E1 E2.
      assert (Tp : typeinfo p = gkey g).
      { rewrite Forall_forall in T1. apply T1. rewrite E1. apply in_or_app. right. now left. }
      destruct gs as [|g2 gs']; [subst a2; discriminate|].
      destruct Hd2 as [x [a' [Ea Tx]]]. rewrite Ea in E2. inversion E2; subst q.
      unfold adj_ok. rewrite Tp, Tx, Hc1. reflexivity.
    + destruct a1 as [|x a1']; [congruence|]. exists x, (a1' ++ a2). split; [reflexivity|].
      now inversion T1.
Qed.

Lemma good_unpacked raw : Forall good raw -> Forall goodp (flat_map unpack (filter nonempty raw)).
Proof.
  induction 1 as [|t raw Ht _ IH]; cbn [filter flat_map]; [constructor|].
  destruct (nonempty t) eqn:Ne; [|exact IH]. cbn [flat_map]. apply Forall_app; split; [|exact IH].
  destruct t; try (constructor; [|constructor]; destruct Ht as [N W]; split; [unfold part_ok; now rewrite Ne, N|exact W]).
  cbn [unpack]. now apply (good_parts (RText parts) Ht).
Qed.

Lemma typeinfo_build k a : typeinfo (build k a) = typeinfo (build k []).
Proof. destruct k; reflexivity. Qed.

Theorem mk_good fuel : rec_good (mk fuel).
Proof.
  induction fuel as [|f IH]; intros k raw v Hraw H; [discriminate|].
  pose proof (mk_rlen _ _ _ _ H) as L. rewrite mk_S in H.
  destruct (merge_all (mk f) _) as [a|] eqn:M; [|discriminate]. inversion H; subst v.
  pose proof (good_unpacked raw Hraw) as Hu.
  destruct (merge_all_good (mk f) _ IH (groupby_nonnil _) (groupby_homog _) (P_groups goodp _ Hu) (groupby_chain _) a M)
    as [Pa [Aa _]].
  split; [|split; [exact L|apply typeinfo_build]]. split.
  - assert (F : forallb (fun p => nonempty p && not_text p && normal p) a = true).
    { apply forallb_forall. intros x Hx. rewrite Forall_forall in Pa. exact (proj1 (Pa x Hx)). }
    destruct k; cbn [build normal]; now rewrite F, Aa.
  - apply wf_build. eapply Forall_impl; [|exact Pa]. intros x Hx. exact (proj2 Hx).
Qed.

(* mk_normal: whatever normal texts are given as parts, in whatever grouping or nesting, the
   value the constructor returns is in normal form *)
Theorem mkc_good k raw v : Forall good raw -> mkc k raw = Ok v -> good v.
Proof.
  unfold mkc. destruct (mk _ k raw) as [t|] eqn:E; cbn; [|discriminate]. intros Hr H; inversion H; subst.
  exact (proj1 (mk_good _ _ _ _ Hr E)).
Qed.

(* ---- how the parts were grouped or nested affects neither the object, nor ==, nor rendering ---- *)
Theorem grouping_irrelevant_lem k raw1 raw2 v1 v2 : Forall good raw1 -> Forall good raw2 ->
  concat (map flat raw1) = concat (map flat raw2) ->
  mkc k raw1 = Ok v1 -> mkc k raw2 = Ok v2 -> v1 = v2.
Proof.
  intros G1 G2 E H1 H2.
  destruct (mkc_good _ _ _ G1 H1) as [N1 W1]. destruct (mkc_good _ _ _ G2 H2) as [N2 W2].
  assert (Wr1 : Forall wf raw1) by (eapply Forall_impl; [|exact G1]; intros x Hx; exact (proj2 Hx)).
  assert (Wr2 : Forall wf raw2) by (eapply Forall_impl; [|exact G2]; intros x Hx; exact (proj2 Hx)).
  destruct (ctor_flat_x k raw1 Wr1) as [v1' [H1' [_ F1]]]. rewrite H1 in H1'. inversion H1'; subst v1'.
  destruct (ctor_flat_x k raw2 Wr2) as [v2' [H2' [_ F2]]]. rewrite H2 in H2'. inversion H2'; subst v2'.
  apply flat_injective_lem; [exact N1|exact N2| |now rewrite F1, F2, E].
  unfold mkc in H1, H2. destruct (mk _ k raw1) as [t1|] eqn:E1; cbn in H1; [|discriminate].
  destruct (mk _ k raw2) as [t2|] eqn:E2; cbn in H2; [|discriminate]. inversion H1; inversion H2; subst.
  rewrite (proj2 (proj2 (mk_good _ _ _ _ G1 E1))), (proj2 (proj2 (mk_good _ _ _ _ G2 E2))). reflexivity.
Qed.

(* == is structural equality in the model, so equal texts render equally through every back end *)
Lemma list_eqb_eq ps : Forall (fun p => forall q, rt_eqb p q = true -> p = q) ps ->
  forall qs, list_eqb rt_eqb ps qs = true -> ps = qs.
Proof.
  induction 1 as [|p ps Hp _ IH]; intros [|q qs]; cbn; try discriminate; [reflexivity|].
  intro H. apply andb_prop in H as [H1 H2]. f_equal; [now apply Hp|now apply IH].
Qed.
Lemma rt_eqb_eq a : forall b, rt_eqb a b = true -> a = b.
Proof.
  induction a using rt_ind'; intros [] E; cbn [rt_eqb] in E; try discriminate.
  - destruct (str_eqb_spec s s0); [now subst|discriminate].
  - destruct (str_eqb_spec n name); [now subst|discriminate].
  - f_equal. now apply list_eqb_eq.
  - apply andb_prop in E as [E1 E2]. destruct (str_eqb_spec n name); [subst|discriminate]. f_equal. now apply list_eqb_eq.
  - apply andb_prop in E as [E1 E2]. apply andb_prop in E1 as [E0 E1]. apply Bool.eqb_prop in E1.
    destruct (str_eqb_spec u url); [subst|discriminate]. f_equal. now apply list_eqb_eq.
  - f_equal. now apply list_eqb_eq.
Qed.
