(* Proofs/RichOps.v -- capfirst / capitalize, and operations applied on top of one another. *)
From Pybtex Require Import Base.Prelude Base.PyChar Base.PyStr Model.RtTypes Model.RichText
  Spec.Flat Spec.FlatOps Proofs.RichText Proofs.RichSlice.

Lemma pyslice_first {X} (l : list X) : pyslice l None (Some 1%Z) = firstn 1 l.
Proof.
  rewrite pyslice_to. unfold clamp_idx. cbn [Z.ltb Z.compare].
  destruct l as [|x l]; [reflexivity|]. cbn [length]. rewrite Z.min_l by lia. reflexivity.
Qed.
Lemma pyslice_rest {X} (l : list X) : pyslice l (Some 1%Z) None = skipn 1 l.
Proof.
  rewrite pyslice_from. unfold clamp_idx. cbn [Z.ltb Z.compare].
  destruct l as [|x l]; [reflexivity|]. cbn [length]. rewrite Z.min_l by lia. reflexivity.
Qed.

Lemma conv_all_protected up f : forallb protected f = true -> map (conv_pair up) f = f.
Proof.
  induction f as [|p f IH]; cbn; [reflexivity|]. intro H. apply andb_prop in H as [H1 H2].
  unfold conv_pair at 1. rewrite H1, IH by exact H2. reflexivity.
Qed.
Lemma prot_all_protected ps : forallb protected (flat_e (RProt ps)) = true.
Proof.
  rewrite flat_e_prot. unfold push_m. rewrite forallb_forall. intros p Hp.
  apply in_map_iff in Hp as [q [<- _]]. reflexivity.
Qed.
Lemma forallb_firstn {X} (g : X -> bool) n l : forallb g l = true -> forallb g (firstn n l) = true.
Proof.
  revert l; induction n as [|n IH]; intros [|x l]; cbn; auto.
  intro H. apply andb_prop in H as [H1 H2]. now rewrite H1, IH.
Qed.
Lemma forallb_skipn {X} (g : X -> bool) n l : forallb g l = true -> forallb g (skipn n l) = true.
Proof.
  revert l; induction n as [|n IH]; intros [|x l]; cbn; auto.
  intro H. apply andb_prop in H as [H1 H2]. now apply IH.
Qed.

Theorem capfirst_flat_e t : exists v, capfirst t = Ok v /\ erase (flat v) = capfirst_flat (erase (flat t)).
Proof.
  assert (G : exists v, (do a <- getitem_c t (KSlice None (Some 1%Z)); do a' <- case_c true a;
                do b <- getitem_c t (KSlice (Some 1%Z) None); add a' b) = Ok v /\
              erase (flat v) = capfirst_flat (erase (flat t))).
  { destruct (slice_flat_e t None (Some 1%Z)) as [a [Ha Hfa]]. rewrite Ha; cbn [bind].
    destruct (case_flat_e true a) as [a' [Ha' Hfa']]. rewrite Ha'; cbn [bind].
    destruct (slice_flat_e t (Some 1%Z) None) as [b [Hb Hfb]]. rewrite Hb; cbn [bind].
    destruct (add_flat_e a' b) as [v [Hv Hfv]]. exists v. split; [exact Hv|].
    rewrite Hfv, erase_app, Hfa', conv_erase, Hfa, Hfb, pyslice_first, pyslice_rest. reflexivity. }
  destruct t; try exact G.
  exists (RProt parts). split; [reflexivity|]. fold (flat_e (RProt parts)). unfold capfirst_flat.
  rewrite conv_all_protected by (apply forallb_firstn, prot_all_protected).
  symmetry. apply firstn_skipn.
Qed.

Theorem capitalize_flat_e t : exists v, capitalize t = Ok v /\ erase (flat v) = capitalize_flat (erase (flat t)).
Proof.
  assert (G : exists v, (do a <- getitem_c t (KSlice None (Some 1%Z)); do a' <- case_c true a;
                do b <- getitem_c t (KSlice (Some 1%Z) None); do b' <- case_c false b; add a' b') = Ok v /\
              erase (flat v) = capitalize_flat (erase (flat t))).
  { destruct (slice_flat_e t None (Some 1%Z)) as [a [Ha Hfa]]. rewrite Ha; cbn [bind].
    destruct (case_flat_e true a) as [a' [Ha' Hfa']]. rewrite Ha'; cbn [bind].
    destruct (slice_flat_e t (Some 1%Z) None) as [b [Hb Hfb]]. rewrite Hb; cbn [bind].
    destruct (case_flat_e false b) as [b' [Hb' Hfb']]. rewrite Hb'; cbn [bind].
    destruct (add_flat_e a' b') as [v [Hv Hfv]]. exists v. split; [exact Hv|].
    rewrite Hfv, erase_app, Hfa', Hfb', !conv_erase, Hfa, Hfb, pyslice_first, pyslice_rest. reflexivity. }
  destruct t; try exact G.
  exists (RProt parts). split; [reflexivity|]. fold (flat_e (RProt parts)). unfold capitalize_flat.
  rewrite !conv_all_protected by (first [apply forallb_firstn | apply forallb_skipn]; apply prot_all_protected).
  symmetry. apply firstn_skipn.
Qed.

(* ------------------------------------------------------------------------------ *)
(* operations applied on top of one another: an independent evaluator on pair sequences *)

Lemma mkc_top k raw v : mkc k raw = Ok v -> top_e v = option_map erase_m (km k).
Proof.
  unfold mkc. destruct (mk _ k raw) as [t|] eqn:E; cbn; [|discriminate]. intro H; inversion H; subst.
  cbn in E. destruct (merge_all _ _); cbn in E; [|discriminate]. inversion E.
  destruct k; cbn; try reflexivity. change (check_name n) with (canon_name n). now rewrite canon_name_idem.
Qed.

Lemma create_similar_top t ps v : is_multipart t = true -> create_similar t ps = Ok v -> top_e v = top_e t.
Proof.
  intros Hm H. unfold create_similar in H. rewrite (mkc_top _ _ _ H).
  destruct t; cbn in Hm; try discriminate; reflexivity.
Qed.

Lemma case_c_top up t v : case_c up t = Ok v -> top_e v = top_e t.
Proof.
  unfold case_c. cbn [case_conv]. destruct t; try (intro H; inversion H; reflexivity);
    (destruct (mapM _ _); cbn [bind]; try discriminate); apply create_similar_top; reflexivity.
Qed.

Lemma bind_ok {X Y} (r : res X) (k : X -> res Y) v : bind r k = Ok v -> exists x, r = Ok x /\ k x = Ok v.
Proof. destruct r; cbn; try discriminate. intro H. eauto. Qed.

Lemma slice_top t i j v : getitem_c t (KSlice i j) = Ok v -> top_e v = top_e t.
Proof.
  unfold getitem_c. cbn [getitem]. destruct t.
  - intro H; inversion H; reflexivity.
  - destruct (pyslice [0%N] i j); intro H; inversion H; reflexivity.
  - cbv zeta. destruct (slice_indices _ i j) as [a b].
    intro H. apply bind_ok in H as [x [Hx Hv]]. unfold slice_end in Hx. apply bind_ok in Hx as [ps [_ Hx]].
    unfold slice_beginning in Hv. apply bind_ok in Hv as [qs [_ Hv]].
    assert (Hm : is_multipart x = true) by (unfold create_similar in Hx; eapply mkc_multipart; exact Hx).
    rewrite (create_similar_top _ _ _ Hm Hv). match type of Hx with create_similar ?t0 _ = _ => apply (create_similar_top t0 _ _ eq_refl Hx) end.
  - cbv zeta. destruct (slice_indices _ i j) as [a b].
    intro H. apply bind_ok in H as [x [Hx Hv]]. unfold slice_end in Hx. apply bind_ok in Hx as [ps [_ Hx]].
    unfold slice_beginning in Hv. apply bind_ok in Hv as [qs [_ Hv]].
    assert (Hm : is_multipart x = true) by (unfold create_similar in Hx; eapply mkc_multipart; exact Hx).
    rewrite (create_similar_top _ _ _ Hm Hv). match type of Hx with create_similar ?t0 _ = _ => apply (create_similar_top t0 _ _ eq_refl Hx) end.
  - cbv zeta. destruct (slice_indices _ i j) as [a b].
    intro H. apply bind_ok in H as [x [Hx Hv]]. unfold slice_end in Hx. apply bind_ok in Hx as [ps [_ Hx]].
    unfold slice_beginning in Hv. apply bind_ok in Hv as [qs [_ Hv]].
    assert (Hm : is_multipart x = true) by (unfold create_similar in Hx; eapply mkc_multipart; exact Hx).
    rewrite (create_similar_top _ _ _ Hm Hv). match type of Hx with create_similar ?t0 _ = _ => apply (create_similar_top t0 _ _ eq_refl Hx) end.
  - cbv zeta. destruct (slice_indices _ i j) as [a b].
    intro H. apply bind_ok in H as [x [Hx Hv]]. unfold slice_end in Hx. apply bind_ok in Hx as [ps [_ Hx]].
    unfold slice_beginning in Hv. apply bind_ok in Hv as [qs [_ Hv]].
    assert (Hm : is_multipart x = true) by (unfold create_similar in Hx; eapply mkc_multipart; exact Hx).
    rewrite (create_similar_top _ _ _ Hm Hv). match type of Hx with create_similar ?t0 _ = _ => apply (create_similar_top t0 _ _ eq_refl Hx) end.
Qed.

Lemma erase_push_opt t f : erase (push_top t f) = push_opt (top_e t) (erase f).
Proof. unfold push_top, push_opt, top_e. destruct (top_markup t); cbn; [apply erase_push|reflexivity]. Qed.

Lemma esize_in p ps : In p ps -> esize p <= list_sum (map esize ps).
Proof.
  induction ps as [|q ps IH]; cbn; [tauto|]. unfold list_sum in IH.
  intros [->|H]; [lia|]. specialize (IH H). lia.
Qed.

