(* Proofs/RichOps.v -- capfirst / capitalize, and operations applied on top of one another. *)
From Pybtex Require Import Base.Prelude Base.PyChar Base.PyStr Model.RtTypes Model.RichText
  Spec.Flat Spec.FlatOps Proofs.RichText Proofs.RichSlice.

Lemma pyslice_first {X} (l : list X) : pyslice l None (Some 1%Z) = firstn 1 l.
Proof.
  rewrite pyslice_to. unfold clamp_idx. cbn [Z.ltb Z.compare].
  destruct l as [|x l]; [reflexivity|]. cbn [length]. rewrite Z.min_l by lia. reflexivity.
Qed.
Lemma pyslice_rest {X} (l : list X) : pyslice l (Some 1%Z) None = skipn 1 l.
Proof.
  rewrite pyslice_from. unfold clamp_idx. cbn [Z.ltb Z.compare].
  destruct l as [|x l]; [reflexivity|]. cbn [length]. rewrite Z.min_l by lia. reflexivity.
Qed.

Lemma conv_all_protected up f : forallb protected f = true -> map (conv_pair up) f = f.
Proof.
  induction f as [|p f IH]; cbn; [reflexivity|]. intro H. apply andb_prop in H as [H1 H2].
  unfold conv_pair at 1. rewrite H1, IH by exact H2. reflexivity.
Qed.
Lemma prot_all_protected ps : forallb protected (flat_e (RProt ps)) = true.
Proof.
  rewrite flat_e_prot. unfold push_m. rewrite forallb_forall. intros p Hp.
  apply in_map_iff in Hp as [q [<- _]]. reflexivity.
Qed.
Lemma forallb_firstn {X} (g : X -> bool) n l : forallb g l = true -> forallb g (firstn n l) = true.
Proof.
  revert l; induction n as [|n IH]; intros [|x l]; cbn; auto.
  intro H. apply andb_prop in H as [H1 H2]. now rewrite H1, IH.
Qed.
Lemma forallb_skipn {X} (g : X -> bool) n l : forallb g l = true -> forallb g (skipn n l) = true.
Proof.
  revert l; induction n as [|n IH]; intros [|x l]; cbn; auto.
  intro H. apply andb_prop in H as [H1 H2]. now apply IH.
Qed.

Theorem capfirst_flat_e t : exists v, capfirst t = Ok v /\ erase (flat v) = capfirst_flat (erase (flat t)).
Proof.
  assert (G : exists v, (do a <- getitem_c t (KSlice None (Some 1%Z)); do a' <- case_c true a;
                do b <- getitem_c t (KSlice (Some 1%Z) None); add a' b) = Ok v /\
              erase (flat v) = capfirst_flat (erase (flat t))).
  { destruct (slice_flat_e t None (Some 1%Z)) as [a [Ha Hfa]]. rewrite Ha; cbn [bind].
    destruct (case_flat_e true a) as [a' [Ha' Hfa']]. rewrite Ha'; cbn [bind].
    destruct (slice_flat_e t (Some 1%Z) None) as [b [Hb Hfb]]. rewrite Hb; cbn [bind].
    destruct (add_flat_e a' b) as [v [Hv Hfv]]. exists v. split; [exact Hv|].
    rewrite Hfv, erase_app, Hfa', conv_erase, Hfa, Hfb, pyslice_first, pyslice_rest. reflexivity. }
  destruct t; try exact G.
  exists (RProt parts). split; [reflexivity|]. fold (flat_e (RProt parts)). unfold capfirst_flat.
  rewrite conv_all_protected by (apply forallb_firstn, prot_all_protected).
  symmetry. apply firstn_skipn.
Qed.

Theorem capitalize_flat_e t : exists v, capitalize t = Ok v /\ erase (flat v) = capitalize_flat (erase (flat t)).
Proof.
  assert (G : exists v, (do a <- getitem_c t (KSlice None (Some 1%Z)); do a' <- case_c true a;
                do b <- getitem_c t (KSlice (Some 1%Z) None); do b' <- case_c false b; add a' b') = Ok v /\
              erase (flat v) = capitalize_flat (erase (flat t))).
  { destruct (slice_flat_e t None (Some 1%Z)) as [a [Ha Hfa]]. rewrite Ha; cbn [bind].
    destruct (case_flat_e true a) as [a' [Ha' Hfa']]. rewrite Ha'; cbn [bind].
    destruct (slice_flat_e t (Some 1%Z) None) as [b [Hb Hfb]]. rewrite Hb; cbn [bind].
    destruct (case_flat_e false b) as [b' [Hb' Hfb']]. rewrite Hb'; cbn [bind].
    destruct (add_flat_e a' b') as [v [Hv Hfv]]. exists v. split; [exact Hv|].
    rewrite Hfv, erase_app, Hfa', Hfb', !conv_erase, Hfa, Hfb, pyslice_first, pyslice_rest. reflexivity. }
  destruct t; try exact G.
  exists (RProt parts). split; [reflexivity|]. fold (flat_e (RProt parts)). unfold capitalize_flat.
  rewrite !conv_all_protected by (first [apply forallb_firstn | apply forallb_skipn]; apply prot_all_protected).
  symmetry. apply firstn_skipn.
Qed.

(* ------------------------------------------------------------------------------ *)
(* operations applied on top of one another: an independent evaluator on pair sequences *)

Lemma mkc_top k raw v : mkc k raw = Ok v -> top_e v = option_map erase_m (km k).
Proof.
  unfold mkc. destruct (mk _ k raw) as [t|] eqn:E; cbn; [|discriminate]. intro H; inversion H; subst.
  cbn in E. destruct (merge_all _ _); cbn in E; [|discriminate]. inversion E.
  destruct k; cbn; try reflexivity. change (check_name n) with (canon_name n). now rewrite canon_name_idem.
Qed.

Lemma create_similar_top t ps v : is_multipart t = true -> create_similar t ps = Ok v -> top_e v = top_e t.
Proof.
  intros Hm H. unfold create_similar in H. rewrite (mkc_top _ _ _ H).
  destruct t; cbn in Hm; try discriminate; reflexivity.
Qed.

Lemma case_c_top up t v : case_c up t = Ok v -> top_e v = top_e t.
Proof.
  unfold case_c. cbn [case_conv]. destruct t; try (intro H; inversion H; reflexivity);
    (destruct (mapM _ _); cbn [bind]; try discriminate); apply create_similar_top; reflexivity.
Qed.

Lemma bind_ok {X Y} (r : res X) (k : X -> res Y) v : bind r k = Ok v -> exists x, r = Ok x /\ k x = Ok v.
Proof. destruct r; cbn; try discriminate. intro H. eauto. Qed.

Lemma slice_top t i j v : getitem_c t (KSlice i j) = Ok v -> top_e v = top_e t.
Proof.
  unfold getitem_c. cbn [getitem]. destruct t.
  - intro H; inversion H; reflexivity.
  - destruct (pyslice [0%N] i j); intro H; inversion H; reflexivity.
  - cbv zeta. destruct (slice_indices _ i j) as [a b].
    intro H. apply bind_ok in H as [x [Hx Hv]]. unfold slice_end in Hx. apply bind_ok in Hx as [ps [_ Hx]].
    unfold slice_beginning in Hv. apply bind_ok in Hv as [qs [_ Hv]].
    assert (Hm : is_multipart x = true) by (unfold create_similar in Hx; eapply mkc_multipart; exact Hx).
    rewrite (create_similar_top _ _ _ Hm Hv). match type of Hx with create_similar ?t0 _ = _ => apply (create_similar_top t0 _ _ eq_refl Hx) end.
  - cbv zeta. destruct (slice_indices _ i j) as [a b].
    intro H. apply bind_ok in H as [x [Hx Hv]]. unfold slice_end in Hx. apply bind_ok in Hx as [ps [_ Hx]].
    unfold slice_beginning in Hv. apply bind_ok in Hv as [qs [_ Hv]].
    assert (Hm : is_multipart x = true) by (unfold create_similar in Hx; eapply mkc_multipart; exact Hx).
    rewrite (create_similar_top _ _ _ Hm Hv). match type of Hx with create_similar ?t0 _ = _ => apply (create_similar_top t0 _ _ eq_refl Hx) end.
  - cbv zeta. destruct (slice_indices _ i j) as [a b].
    intro H. apply bind_ok in H as [x [Hx Hv]]. unfold slice_end in Hx. apply bind_ok in Hx as [ps [_ Hx]].
    unfold slice_beginning in Hv. apply bind_ok in Hv as [qs [_ Hv]].
    assert (Hm : is_multipart x = true) by (unfold create_similar in Hx; eapply mkc_multipart; exact Hx).
    rewrite (create_similar_top _ _ _ Hm Hv). match type of Hx with create_similar ?t0 _ = _ => apply (create_similar_top t0 _ _ eq_refl Hx) end.
  - cbv zeta. destruct (slice_indices _ i j) as [a b].
    intro H. apply bind_ok in H as [x [Hx Hv]]. unfold slice_end in Hx. apply bind_ok in Hx as [ps [_ Hx]].
    unfold slice_beginning in Hv. apply bind_ok in Hv as [qs [_ Hv]].
    assert (Hm : is_multipart x = true) by (unfold create_similar in Hx; eapply mkc_multipart; exact Hx).
    rewrite (create_similar_top _ _ _ Hm Hv). match type of Hx with create_similar ?t0 _ = _ => apply (create_similar_top t0 _ _ eq_refl Hx) end.
Qed.

Lemma erase_push_opt t f : erase (push_top t f) = push_opt (top_e t) (erase f).
Proof. unfold push_top, push_opt, top_e. destruct (top_markup t); cbn; [apply erase_push|reflexivity]. Qed.

Lemma esize_in p ps : In p ps -> esize p <= list_sum (map esize ps).
Proof.
  induction ps as [|q ps IH]; cbn; [tauto|]. unfold list_sum in IH.
  intros [->|H]; [lia|]. specialize (IH H). lia.
Qed.

(* evaluating a list of operands *)
Lemma mapM_agrees n (ps : list expr) rs :
  (forall p r, In p ps -> spec p = Some r -> exists v, eval n p = Ok v /\ agrees v r) ->
  mapO spec ps = Some rs ->
  exists vs, mapM (eval n) ps = Ok vs /\ Forall2 agrees vs rs.
Proof.
  revert rs. induction ps as [|p ps IH]; cbn; intros rs H Hm.
  - inversion Hm. exists []. split; [reflexivity|constructor].
  - destruct (spec p) as [r|] eqn:Sp; [|discriminate].
    destruct (mapO spec ps) as [rs'|] eqn:Sps; [|discriminate]. inversion Hm; subst rs.
    destruct (H p r (or_introl eq_refl) Sp) as [v [Hv Ha]]. rewrite Hv; cbn.
    destruct (IH rs' (fun q r' Hq => H q r' (or_intror Hq)) eq_refl) as [vs [Hvs HF]]. rewrite Hvs; cbn.
    exists (v :: vs). split; [reflexivity|now constructor].
Qed.

Lemma agrees_concat vs rs : Forall2 agrees vs rs -> concat (map flat_e vs) = concat (map snd rs).
Proof. induction 1 as [|v r vs rs [_ Hf] _ IH]; cbn; [reflexivity|]. unfold flat_e at 1. now rewrite Hf, IH. Qed.

Lemma ctor_agrees k vs rs m : Forall2 agrees vs rs -> option_map erase_m (km k) = m ->
  exists v, mkc k vs = Ok v /\ agrees v (sctor m rs).
Proof.
  intros HF Hm. destruct (mkc_total k vs) as [v [Hv _]]. exists v. split; [exact Hv|]. split.
  - cbn. now rewrite (mkc_top _ _ _ Hv).
  - cbn [sctor snd]. change (erase (flat v)) with (flat_e v).
    rewrite (mkc_flat_e _ _ _ Hv), (agrees_concat _ _ HF). subst m. unfold pushk_e, push_opt.
    destruct (km k); reflexivity.
Qed.

Lemma eval_S f e : eval (S f) e =
    let ev := eval f in
    match e with
    | EStr s => Ok (RStr s)
    | ESym n => Ok (RSym n)
    | EBad => Crash
    | EText ps => do vs <- mapM ev ps; mkc KText vs
    | ETag n ps => do vs <- mapM ev ps; mkc (KTag n) vs
    | EHRef u x ps => do vs <- mapM ev ps; mkc (KHRef u x) vs
    | EProt ps => do vs <- mapM ev ps; mkc KProt vs
    | EUpper a => do v <- ev a; case_c true v
    | ELower a => do v <- ev a; case_c false v
    | ECapitalize a => do v <- ev a; capitalize v
    | ECapfirst a => do v <- ev a; capfirst v
    | EAddPeriod a p => do v <- ev a; add_period v p
    | EAbbrev a => do v <- ev a; abbreviate v
    | ESlice a i j => do v <- ev a; getitem_c v (KSlice i j)
    | EIndex a i => do v <- ev a; getitem_c v (KInt i)
    | EAdd a b => do v <- ev a; do w <- ev b; add v w
    | EAppend a b => do v <- ev a; do w <- ev b; append v w
    | EJoin s es => do v <- ev s; do ws <- mapM ev es; rjoin v ws
    | ESplitNth a sep keep k =>
      do v <- ev a; do l <- split_c v sep keep;
      match nth_error l k with Some x => Ok x | None => Crash end
    end.
Proof. reflexivity. Qed.

Theorem ops_compose_lem n : forall e r, esize e <= n -> spec e = Some r ->
  exists v, eval (S n) e = Ok v /\ agrees v r.
Proof.
  induction n as [|n IH]; intros e r Hs Hsp; [destruct e; cbn in Hs; lia|].
  assert (IHl : forall ps, list_sum (map esize ps) <= n ->
            forall p r, In p ps -> spec p = Some r -> exists v, eval (S n) p = Ok v /\ agrees v r).
  { intros ps Hps p r' Hin. apply IH. pose proof (esize_in p ps Hin). lia. }
  destruct e; cbn [spec] in Hsp; try discriminate; cbn [esize] in Hs; rewrite eval_S; cbv beta iota zeta.
  - inversion Hsp; subst r. eexists. split; [reflexivity|]. split; [reflexivity|]. cbn. unfold erase. now rewrite map_map.
  - inversion Hsp; subst r. eexists. split; [reflexivity|]. split; reflexivity.
  - destruct (mapO spec ps) as [rs|] eqn:M; [|discriminate]. inversion Hsp; subst r.
    destruct (mapM_agrees (S n) ps rs (IHl ps ltac:(lia)) M) as [vs [Hvs HF]]. rewrite Hvs; cbn [bind].
    apply ctor_agrees; [exact HF|reflexivity].
  - destruct (mapO spec ps) as [rs|] eqn:M; [|discriminate]. inversion Hsp; subst r.
    destruct (mapM_agrees (S n) ps rs (IHl ps ltac:(lia)) M) as [vs [Hvs HF]]. rewrite Hvs; cbn [bind].
    apply ctor_agrees; [exact HF|reflexivity].
  - destruct (mapO spec ps) as [rs|] eqn:M; [|discriminate]. inversion Hsp; subst r.
    destruct (mapM_agrees (S n) ps rs (IHl ps ltac:(lia)) M) as [vs [Hvs HF]]. rewrite Hvs; cbn [bind].
    apply ctor_agrees; [exact HF|reflexivity].
  - destruct (mapO spec ps) as [rs|] eqn:M; [|discriminate]. inversion Hsp; subst r.
    destruct (mapM_agrees (S n) ps rs (IHl ps ltac:(lia)) M) as [vs [Hvs HF]]. rewrite Hvs; cbn [bind].
    apply ctor_agrees; [exact HF|reflexivity].
  - (* upper *)
    destruct (spec e) as [ra|] eqn:Sa; [|discriminate]. inversion Hsp; subst r.
    destruct (IH e ra ltac:(lia) Sa) as [a [Ha [Ht Hf]]]. rewrite Ha; cbn [bind].
    destruct (case_flat_e true a) as [v [Hv Hfv]]. exists v. split; [exact Hv|]. split; cbn [fst snd].
    + now rewrite (case_c_top _ _ _ Hv).
    + now rewrite Hfv, conv_erase, Hf.
  - (* lower *)
    destruct (spec e) as [ra|] eqn:Sa; [|discriminate]. inversion Hsp; subst r.
    destruct (IH e ra ltac:(lia) Sa) as [a [Ha [Ht Hf]]]. rewrite Ha; cbn [bind].
    destruct (case_flat_e false a) as [v [Hv Hfv]]. exists v. split; [exact Hv|]. split; cbn [fst snd].
    + now rewrite (case_c_top _ _ _ Hv).
    + now rewrite Hfv, conv_erase, Hf.
  - (* capitalize *)
    destruct (spec e) as [ra|] eqn:Sa; [|discriminate]. inversion Hsp; subst r.
    destruct (IH e ra ltac:(lia) Sa) as [a [Ha [Ht Hf]]]. rewrite Ha; cbn [bind].
    destruct (capitalize_flat_e a) as [v [Hv Hfv]]. exists v. split; [exact Hv|]. split; cbn [fst snd].
    + rewrite <- Ht. destruct a; cbn in Hv |- *;
        try (inversion Hv; reflexivity);
        repeat (apply bind_ok in Hv as [? [_ Hv]]); unfold add in Hv; now rewrite (mkc_top _ _ _ Hv).
    + now rewrite Hfv, Hf.
  - (* capfirst *)
    destruct (spec e) as [ra|] eqn:Sa; [|discriminate]. inversion Hsp; subst r.
    destruct (IH e ra ltac:(lia) Sa) as [a [Ha [Ht Hf]]]. rewrite Ha; cbn [bind].
    destruct (capfirst_flat_e a) as [v [Hv Hfv]]. exists v. split; [exact Hv|]. split; cbn [fst snd].
    + rewrite <- Ht. destruct a; cbn in Hv |- *;
        try (inversion Hv; reflexivity);
        repeat (apply bind_ok in Hv as [? [_ Hv]]); unfold add in Hv; now rewrite (mkc_top _ _ _ Hv).
    + now rewrite Hfv, Hf.
  - (* slice *)
    destruct (spec e) as [ra|] eqn:Sa; [|discriminate]. inversion Hsp; subst r.
    destruct (IH e ra ltac:(lia) Sa) as [a [Ha [Ht Hf]]]. rewrite Ha; cbn [bind].
    destruct (slice_flat_e a i j) as [v [Hv Hfv]]. exists v. split; [exact Hv|]. split; cbn [fst snd].
    + now rewrite (slice_top _ _ _ _ Hv).
    + now rewrite Hfv, Hf.
  - (* + *)
    destruct (spec e1) as [ra|] eqn:Sa; [|discriminate]. destruct (spec e2) as [rb|] eqn:Sb; [|discriminate].
    inversion Hsp; subst r.
    destruct (IH e1 ra ltac:(lia) Sa) as [a [Ha [Hta Hfa]]]. rewrite Ha; cbn [bind].
    destruct (IH e2 rb ltac:(lia) Sb) as [b [Hb [Htb Hfb]]]. rewrite Hb; cbn [bind].
    destruct (add_flat_e a b) as [v [Hv Hfv]]. exists v. split; [exact Hv|]. split; cbn [fst snd].
    + unfold add in Hv. now rewrite (mkc_top _ _ _ Hv).
    + now rewrite Hfv, erase_app, Hfa, Hfb.
  - (* append *)
    destruct (spec e1) as [ra|] eqn:Sa; [|discriminate]. destruct (spec e2) as [rb|] eqn:Sb; [|discriminate].
    inversion Hsp; subst r.
    destruct (IH e1 ra ltac:(lia) Sa) as [a [Ha [Hta Hfa]]]. rewrite Ha; cbn [bind].
    destruct (IH e2 rb ltac:(lia) Sb) as [b [Hb [Htb Hfb]]]. rewrite Hb; cbn [bind].
    destruct (append_flat_e a b) as [v [Hv Hfv]]. exists v. split; [exact Hv|]. split; cbn [fst snd].
    + rewrite <- Hta. unfold append in Hv. destruct (is_multipart a) eqn:Hm.
      * now apply (create_similar_top _ _ _ Hm Hv).
      * unfold add in Hv. rewrite (mkc_top _ _ _ Hv). destruct a; cbn in Hm; try discriminate; reflexivity.
    + now rewrite Hfv, erase_app, erase_push_opt, Hfa, Hfb, Hta.
  - (* join *)
    destruct (spec e) as [rs|] eqn:Ss; [|discriminate]. destruct (mapO spec es) as [rl|] eqn:M; [|discriminate].
    inversion Hsp; subst r.
    destruct (IH e rs ltac:(lia) Ss) as [s [Hs' [Hts Hfs]]]. rewrite Hs'; cbn [bind].
    destruct (mapM_agrees (S n) es rl (IHl es ltac:(lia)) M) as [vs [Hvs HF]]. rewrite Hvs; cbn [bind].
    destruct (join_flat_e s vs) as [v [Hv Hfv]]. exists v. split; [exact Hv|]. split; cbn [fst snd].
    + unfold rjoin in Hv. now rewrite (mkc_top _ _ _ Hv).
    + rewrite Hfv, erase_join, map_map, Hfs. f_equal.
      clear - HF. induction HF as [|x y l l' [_ Hxy] _ IHF]; cbn; [reflexivity|]. now rewrite Hxy, IHF.
Qed.

(* ops_compose: any expression built from constructors, upper, lower, capitalize, capfirst,
   slices, +, append and join, applied on top of one another in any way, evaluates without error
   and renders as the same operations carried out on plain sequences of pairs *)
Theorem ops_compose_e e r : spec e = Some r -> exists v, eval_c e = Ok v /\ agrees v r.
Proof. intro H. unfold eval_c. now apply ops_compose_lem. Qed.
