(* Proofs/CitationsReports.v -- under the ordering rule the filtered reading reports exactly what the whole reading reports *)
From Pybtex Require Import Base.Prelude Base.PyChar Base.PyStr Model.Citations Spec.Citations
  Proofs.CitationsBase Proofs.Citations Proofs.CitationsFiltered.

Definition lowpair (cp : key * key) : key * key := (lower (fst cp), lower (snd cp)).

Definition drel (E1 E2 : edict) (a b : key) : Prop :=
  keyb a b = true /\ ed_mem a E1 = ed_mem b E2 /\
  match ed_get a E1, ed_get b E2 with
  | Some (_, Some p1), Some (_, Some p2) => p1 = p2 /\ ed_mem p1 E1 = ed_mem p2 E2
  | Some (_, None), Some (_, None) => True
  | None, None => True
  | _, _ => False
  end.

Lemma dangling_congr E1 E2 l1 l2 : Forall2 (drel E1 E2) l1 l2 ->
  map lowpair (dangling_of E1 l1) = map lowpair (dangling_of E2 l2).
Proof.
  unfold dangling_of. induction 1 as [|a b l1 l2 (Hab & _ & Hd) _ IH]; cbn [flat_map]; [reflexivity|].
  rewrite !map_app, IH. f_equal.
  destruct (ed_get a E1) as [[k1 [p1|]]|], (ed_get b E2) as [[k2 [p2|]]|]; try contradiction; try reflexivity.
  destruct Hd as [<- Hm]. rewrite Hm. destruct (ed_mem p1 E2); [reflexivity|]. cbn [map]. unfold lowpair. cbn [fst snd].
  apply keyb_true in Hab. now rewrite Hab.
Qed.
Lemma missing_congr E1 E2 l1 l2 : Forall2 (drel E1 E2) l1 l2 ->
  map lower (missing_of E1 l1) = map lower (missing_of E2 l2).
Proof.
  unfold missing_of. induction 1 as [|a b l1 l2 (Hab & Hm & _) _ IH]; cbn [filter]; [reflexivity|].
  rewrite Hm. destruct (ed_mem b E2); cbn; [exact IH|]. apply keyb_true in Hab. now rewrite Hab, IH.
Qed.

Lemma drel_ent_eq E1 E2 a b : Forall2 ent_eq E1 E2 -> keyb a b = true -> drel E1 E2 a b.
Proof.
  intros H Hab. split; [exact Hab|]. split; [now apply ed_mem_ent_eq|].
  pose proof (ed_get_ent_eq E1 E2 a b H Hab) as G.
  destruct (ed_get a E1) as [[k1 cr1]|], (ed_get b E2) as [[k2 cr2]|]; try contradiction; [|exact I].
  destruct G as [_ G]. cbn in G. subst cr2. destruct cr1 as [p|]; [|exact I].
  split; [reflexivity|]. apply ed_mem_ent_eq; [exact H|apply keyb_refl].
Qed.

(* the parent of a cited entry is found alike, by the ordering rule *)
Lemma found_parent_pfc db cites x ck p :
  parents_follow_children db cites -> existsb (keyb star) cites = false ->
  existsb (keyb x) cites = true -> db_find x db = Some (ck, Some p) ->
  found_like p (bd_entries (read_db (Some cites) db)) (db_find p db).
Proof.
  intros Hpfc Hstar Hc Hf.
  destruct (existsb (keyb p) cites) eqn:Hp; [now apply found_cited|].
  apply (found_parent db cites x ck p Hc Hf). intros pre post Hdb Hpre.
  destruct (db_find_split _ _ _ Hf) as (_ & _ & _ & _ & Hk). cbn [fst] in Hk.
  assert (Hck : cited_by cites ck = true).
  { unfold cited_by. rewrite keyb_sym in Hk. now rewrite (existsb_keyb_congr _ _ _ Hk), Hc. }
  destruct (pfc_split db cites pre ck p post Hpfc Hdb Hpre Hck) as [H|H]; [|exact H].
  unfold cited_by in H. rewrite Hp, Hstar in H. discriminate.
Qed.

Lemma drel_cited db cites x :
  parents_follow_children db cites -> existsb (keyb star) cites = false -> existsb (keyb x) cites = true ->
  drel (bd_entries (read_db (Some cites) db)) (bd_entries (read_db None db)) x x.
Proof.
  intros Hpfc Hstar Hc.
  pose proof (found_cited db cites x Hc) as Hf. pose proof (found_all db x) as Ha.
  split; [apply keyb_refl|]. split; [exact (found_like_mem _ _ _ _ Hf Ha)|].
  destruct (db_find x db) as [[ck cr]|] eqn:Hdb.
  - pose proof (fun p => found_parent_pfc db cites x ck p Hpfc Hstar Hc) as Hpar. rewrite Hdb in Hpar.
    destruct Hf as (k1 & -> & _), Ha as (k2 & -> & _). cbn [snd]. destruct cr as [p|]; [|exact I].
    split; [reflexivity|]. exact (found_like_mem _ _ _ _ (Hpar p eq_refl) (found_all db p)).
  - rewrite (found_like_none _ _ Hf), (found_like_none _ _ Ha). exact I.
Qed.

Lemma select_unfiltered_reports db cites m :
  let E := bd_entries (read_db None db) in
  missing_reports (snd (select_unfiltered db cites m)) = missing_of E (explicit_spec E cites) /\
  badxref_reports (snd (select_unfiltered db cites m)) = dangling_of E (explicit_spec E cites).
Proof.
  cbn zeta. unfold select_unfiltered.
  set (E := bd_entries (read_db None db)).
  pose proof (selection_reports E cites m) as G.
  destruct (add_extra E cites m) as [cs rs].
  destruct (G _ (bd_reports (read_db None db)) _ (read_db_reports None db) eq_refl) as (_ & H2 & H3).
  cbn [snd]. auto.
Qed.
Lemma command_read_snd db cites m :
  let E := bd_entries (read_db (Some cites) db) in
  missing_reports (snd (command_read_raw db cites m)) = missing_of E (explicit_spec E cites) /\
  badxref_reports (snd (command_read_raw db cites m)) = dangling_of E (explicit_spec E cites).
Proof.
  cbn zeta. destruct (command_read_raw db cites m) as [final rs] eqn:Hc.
  destruct (command_read_reports _ _ _ _ _ Hc) as (_ & H2 & H3 & _). cbn [snd]. auto.
Qed.

Theorem filtered_reports db cites m : parents_follow_children db cites ->
  map lower (missing_reports (snd (command_read_raw db cites m))) =
  map lower (missing_reports (snd (select_unfiltered db cites m))) /\
  map lowpair (badxref_reports (snd (command_read_raw db cites m))) =
  map lowpair (badxref_reports (snd (select_unfiltered db cites m))).
Proof.
  intros Hpfc.
  destruct (command_read_snd db cites m) as [-> ->]. destruct (select_unfiltered_reports db cites m) as [-> ->].
  set (Ef := bd_entries (read_db (Some cites) db)). set (Ea := bd_entries (read_db None db)).
  assert (Hrel : Forall2 (drel Ef Ea) (explicit_spec Ef cites) (explicit_spec Ea cites)).
  { destruct (existsb (keyb star) cites) eqn:Hstar.
    - pose proof (star_entries db cites Hstar) as HE. fold Ef Ea in HE.
      eapply Forall2_imp; [|exact (explicit_congr Ef Ea cites HE)]. intros a b Hab. now apply drel_ent_eq.
    - unfold explicit_spec. rewrite !no_star_flat by exact Hstar. apply Forall2_diag. intros x Hx.
      apply dedup_ci_in in Hx. apply drel_cited; try assumption.
      apply existsb_exists. exists x. split; [exact Hx|apply keyb_refl]. }
  split; [exact (missing_congr _ _ _ _ Hrel)|exact (dangling_congr _ _ _ _ Hrel)].
Qed.
