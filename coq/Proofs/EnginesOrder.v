(* Proofs/EnginesOrder.v -- re-ordering the database file does not change what READ finds, provided
   the file obeys BibTeX's ordering rule (a cross-referenced entry that is not itself cited comes
   after the entries referring to it), has no repeated keys, and '*' is not in play.
   Route: the one-pass filtered reader is first reduced to a simple function `scan` over the
   entries (bridge), `scan` is characterised by an order-independent reachability relation, and
   everything READ computes afterwards uses the stored entries only through key look-ups. *)
From Pybtex Require Import Base.Prelude Base.PyChar Base.PyStr Model.BibtexStr Model.Wrap Model.Bst Model.Engines.
From Pybtex Require Import Model.Citations Proofs.CitationsBase Proofs.Engines.
From Coq Require Import Permutation.

Definition xref_of (e : bentry) : option str := fget s_crossref (b_fields e).
Definition lkey (e : bentry) : str := lower (b_key e).

(* ---- the simple reader *)
Definition wanted_b (cites : list str) (acc : list bentry) (k : str) : bool :=
  existsb (keyb k) (cites ++ xrefs acc) || existsb (keyb star) (cites ++ xrefs acc).
Definition has_key_b (k : str) (acc : list bentry) : bool := existsb (fun a => keyb k (b_key a)) acc.
Fixpoint scan (cites : list str) (db acc : list bentry) : list bentry :=
  match db with
  | [] => acc
  | e :: r => if wanted_b cites acc (b_key e) && negb (has_key_b (b_key e) acc)
              then scan cites r (acc ++ [e]) else scan cites r acc
  end.
Definition ckey (cites : list str) (k : str) : str := get_canonical_key (bd_init (Some cites)) k.

Lemma ckey_keyb cites k : keyb (ckey cites k) k = true.
Proof.
  unfold ckey, get_canonical_key. cbn [bd_init bd_cites]. unfold cis_canon.
  destruct (find (keyb k) (cis_of_list cites)) as [c|] eqn:E; [|apply keyb_refl].
  apply find_some in E as [_ E]. rewrite keyb_sym. exact E.
Qed.

Lemma xrefs_app a b : xrefs (a ++ b) = xrefs a ++ xrefs b.
Proof. unfold xrefs. apply flat_map_app. Qed.

(* ---- bridge: BibliographyData.add_entry over the file = scan *)
Record inv (cites : list str) (bd : bibdata) (acc : list bentry) (sacc : list (str * bentry)) : Prop := mkInv {
  inv_w : exists w, bd_wanted bd = Some w /\ forall x, cis_mem x w = existsb (keyb x) (cites ++ xrefs acc);
  inv_e : bd_entries bd = map (fun e => (ckey cites (b_key e), xref_of e)) acc;
  inv_c : bd_cites bd = cis_of_list cites;
  inv_s : sacc = map (fun e => (ckey cites (b_key e), e)) acc;
  inv_r : bd_reports bd = [] }.

Lemma inv_init cites : inv cites (bd_init (Some cites)) [] [].
Proof.
  constructor; cbn; try reflexivity.
  exists (cis_of_list cites). split; [reflexivity|]. intros x. now rewrite app_nil_r, cis_mem_of_list.
Qed.

Lemma has_key_ed_mem cites k acc :
  ed_mem k (map (fun e => (ckey cites (b_key e), xref_of e)) acc) = has_key_b k acc.
Proof.
  unfold ed_mem, has_key_b. induction acc as [|a acc IH]; cbn; [reflexivity|].
  rewrite IH. f_equal. apply keyb_congr_r. apply ckey_keyb.
Qed.

Lemma bridge cites : forall db bd acc sacc,
  inv cites bd acc sacc ->
  (forall e, In e db -> has_key_b (b_key e) acc = false) -> NoDup (map lkey db) ->
  inv cites (fst (read_full db bd sacc)) (scan cites db acc) (snd (read_full db bd sacc)).
Proof.
  induction db as [|e r IH]; intros bd acc sacc Hi Hfresh Hnd; [exact Hi|].
  cbn [read_full scan].
  destruct Hi as [(w & Hw & Hm) He Hc Hs Hr].
  assert (Hwant : want_entry bd (b_key e) = wanted_b cites acc (b_key e)).
  { unfold want_entry, wanted_b. now rewrite Hw, !Hm. }
  assert (Hmem : ed_mem (b_key e) (bd_entries bd) = false).
  { rewrite He, has_key_ed_mem. apply Hfresh. now left. }
  rewrite Hwant, Hmem. rewrite (Hfresh e (or_introl eq_refl)). cbn [negb]. rewrite andb_true_r.
  inversion Hnd as [|? ? Hnotin Hnd']; subst.
  destruct (wanted_b cites acc (b_key e)) eqn:Ew.
  - apply IH; [|intros e' He'|exact Hnd'].
    + unfold add_entry, proj. rewrite Hwant, Hmem. cbn [negb].
      assert (Hck : get_canonical_key bd (b_key e) = ckey cites (b_key e)).
      { unfold ckey, get_canonical_key. now rewrite Hc. }
      constructor; cbn.
      * rewrite Hw. fold (xref_of e). rewrite xrefs_app. unfold xrefs at 2. cbn. fold (xref_of e).
        destruct (xref_of e) as [p|].
        -- exists (cis_add p w). split; [reflexivity|]. intros x. rewrite cis_mem_add, Hm, !existsb_app. cbn.
           destruct (keyb x p); cbn; [now rewrite !orb_true_r|now rewrite !orb_false_r].
        -- exists w. split; [reflexivity|]. intros x. rewrite Hm, !existsb_app. cbn. now rewrite orb_false_r.
      * rewrite He, map_app, Hck. reflexivity.
      * exact Hc.
      * rewrite map_app, Hck. reflexivity.
      * exact Hr.
    + unfold has_key_b. rewrite existsb_app. cbn. rewrite orb_false_r.
      fold (has_key_b (b_key e') acc). rewrite (Hfresh e' (or_intror He')). cbn.
      destruct (keyb (b_key e') (b_key e)) eqn:Ek; [|reflexivity].
      exfalso. apply Hnotin. apply keyb_true in Ek. unfold lkey in *. rewrite <- Ek. now apply in_map with (f := lkey) in He'.
  - apply IH; [|intros e' He'; apply Hfresh; now right|exact Hnd'].
    unfold add_entry, proj. rewrite Hwant. cbn [negb].
    constructor; eauto.
Qed.

Lemma bridge_top cites db : NoDup (map lkey db) ->
  let bd := read_db (Some cites) (map proj db) in
  bd_entries bd = map (fun e => (ckey cites (b_key e), xref_of e)) (scan cites db []) /\
  stored_entries db cites = map (fun e => (ckey cites (b_key e), e)) (scan cites db []) /\
  bd_reports bd = [].
Proof.
  intros Hnd bd.
  pose proof (bridge cites db (bd_init (Some cites)) [] [] (inv_init cites) (fun _ _ => eq_refl) Hnd) as [_ He _ Hs Hr].
  unfold bd, read_db. rewrite <- read_full_fst with (acc := []). unfold stored_entries. auto.
Qed.

(* ---- general list facts *)
Lemma NoDup_map_inj {X Y} (f : X -> Y) l a b : NoDup (map f l) -> In a l -> In b l -> f a = f b -> a = b.
Proof.
  induction l as [|x l IH]; cbn; intros Hnd Ha Hb Hf; [contradiction|].
  inversion Hnd as [|? ? Hn Hnd']; subst.
  destruct Ha as [->|Ha], Hb as [->|Hb]; auto.
  - exfalso. apply Hn. rewrite Hf. now apply in_map.
  - exfalso. apply Hn. rewrite <- Hf. now apply in_map.
Qed.
Lemma NoDup_of_map {X Y} (f : X -> Y) l : NoDup (map f l) -> NoDup l.
Proof.
  induction l as [|x l IH]; cbn; intros H; [constructor|]. inversion H; subst.
  constructor; auto. intros Hin. apply H2. now apply in_map.
Qed.

Lemma NoDup_app_disjoint {X} (a b : list X) x : NoDup (a ++ b) -> In x a -> In x b -> False.
Proof.
  induction a as [|y a IH]; cbn; intros Hnd Ha Hb; [contradiction|].
  inversion Hnd as [|? ? Hn Hnd']; subst. destruct Ha as [->|Ha]; [|now apply IH].
  apply Hn. apply in_or_app. now right.
Qed.

Lemma existsb_perm_local {X} (p : X -> bool) a b : Permutation a b -> existsb p a = existsb p b.
Proof. induction 1; cbn; try congruence. destruct (p y), (p x); reflexivity. Qed.

Lemma find_perm {X} (p : X -> bool) l l' : Permutation l l' ->
  (forall x y, In x l -> In y l -> p x = true -> p y = true -> x = y) -> find p l = find p l'.
Proof.
  induction 1 as [|x l l' Hp IH|x y l|l l' l'' Hp1 IH1 Hp2 IH2]; intros Hu; cbn.
  - reflexivity.
  - destruct (p x); [reflexivity|]. apply IH. intros a b Ha Hb. apply Hu; now right.
  - destruct (p y) eqn:Ey, (p x) eqn:Ex; try reflexivity.
    f_equal. apply Hu; cbn; auto.
  - rewrite IH1 by exact Hu. apply IH2. intros a b Ha Hb.
    apply Hu; (eapply Permutation_in; [apply Permutation_sym; exact Hp1|assumption]).
Qed.

(* ---- scan: structure *)
Lemma scan_app cites l1 : forall l2 acc, scan cites (l1 ++ l2) acc = scan cites l2 (scan cites l1 acc).
Proof. induction l1 as [|e l1 IH]; intros l2 acc; cbn; [reflexivity|]. destruct (_ && _); apply IH. Qed.

Lemma scan_prefix cites : forall l acc, exists t, scan cites l acc = acc ++ t /\ incl t l.
Proof.
  induction l as [|e l IH]; intros acc; cbn.
  - exists []. split; [now rewrite app_nil_r|apply incl_refl].
  - destruct (_ && _).
    + destruct (IH (acc ++ [e])) as (t & Ht & Hi). exists (e :: t). split.
      * now rewrite Ht, <- app_assoc.
      * intros x [->|Hx]; [now left|right; auto].
    + destruct (IH acc) as (t & Ht & Hi). exists t. split; [exact Ht|]. intros x Hx. right; auto.
Qed.
Lemma scan_in cites l acc a : In a (scan cites l acc) -> In a acc \/ In a l.
Proof.
  destruct (scan_prefix cites l acc) as (t & -> & Hi). intros H. apply in_app_or in H as [H|H]; auto.
Qed.
Lemma scan_keeps cites l acc a : In a acc -> In a (scan cites l acc).
Proof. destruct (scan_prefix cites l acc) as (t & -> & _). intros H. apply in_or_app; auto. Qed.

Lemma has_key_b_false k acc : has_key_b k acc = false -> ~ In (lower k) (map lkey acc).
Proof.
  unfold has_key_b. intros H Hin. apply in_map_iff in Hin as (a & Ha & Hin).
  assert (existsb (fun a => keyb k (b_key a)) acc = true).
  { apply existsb_exists. exists a. split; [exact Hin|]. apply keyb_true. unfold lkey in Ha. now rewrite Ha. }
  congruence.
Qed.
Lemma scan_nodup cites : forall l acc, NoDup (map lkey acc) -> NoDup (map lkey (scan cites l acc)).
Proof.
  induction l as [|e l IH]; intros acc Hnd; cbn; [exact Hnd|].
  destruct (wanted_b cites acc (b_key e) && negb (has_key_b (b_key e) acc)) eqn:E; [|now apply IH].
  apply IH. apply andb_prop in E as [_ E]. apply negb_true_iff in E.
  rewrite map_app. cbn.
  apply Permutation_NoDup with (l := lkey e :: map lkey acc).
  - apply Permutation_cons_append.
  - constructor; [|exact Hnd]. now apply has_key_b_false.
Qed.

(* ---- no '*' in play *)
Definition nostar (cites : list str) (db : list bentry) : Prop := existsb (keyb star) (cites ++ xrefs db) = false.

Lemma xrefs_incl acc db : incl acc db -> incl (xrefs acc) (xrefs db).
Proof.
  intros Hi p Hp. unfold xrefs in *. apply in_flat_map in Hp as (a & Ha & Hp). apply in_flat_map. exists a. auto.
Qed.
Lemma existsb_incl {X} (p : X -> bool) a b : incl a b -> existsb p b = false -> existsb p a = false.
Proof.
  intros Hi Hb. destruct (existsb p a) eqn:E; [|reflexivity].
  apply existsb_exists in E as (x & Hx & Hp).
  assert (existsb p b = true) by (apply existsb_exists; exists x; auto). congruence.
Qed.
Lemma wanted_nostar cites db acc k : nostar cites db -> incl acc db ->
  wanted_b cites acc k = existsb (keyb k) (cites ++ xrefs acc).
Proof.
  intros Hs Hi. unfold wanted_b.
  rewrite (existsb_incl (keyb star) (cites ++ xrefs acc) (cites ++ xrefs db)); [apply orb_false_r| |exact Hs].
  apply incl_app; [apply incl_appl, incl_refl|apply incl_appr, xrefs_incl, Hi].
Qed.

(* ---- reachability: the order-independent description of what the one-pass reader keeps *)
Inductive reach (cites : list str) (db : list bentry) : str -> Prop :=
| reach_cite k : existsb (keyb k) cites = true -> reach cites db k
| reach_xref c e p k : reach cites db c -> In e db -> keyb c (b_key e) = true -> xref_of e = Some p ->
                       keyb k p = true -> reach cites db k.

Lemma reach_congr cites db k k' : reach cites db k -> keyb k k' = true -> reach cites db k'.
Proof.
  intros H Hk. destruct H as [k H|c e p k Hc He Hce Hx Hkp].
  - apply reach_cite. now rewrite <- (existsb_keyb_congr _ _ _ Hk).
  - eapply reach_xref; eauto. rewrite keyb_sym in Hk. eapply keyb_trans; eauto.
Qed.
Lemma reach_perm cites db db' k : (forall e, In e db -> In e db') -> reach cites db k -> reach cites db' k.
Proof. intros Hi. induction 1; [now apply reach_cite|eapply reach_xref; eauto]. Qed.

Lemma scan_sound cites db : nostar cites db -> forall l acc, incl l db -> incl acc db ->
  (forall a, In a acc -> reach cites db (b_key a)) ->
  forall a, In a (scan cites l acc) -> reach cites db (b_key a).
Proof.
  intros Hs. induction l as [|e l IH]; intros acc Hl Ha Hr a Hin; cbn in Hin; [auto|].
  assert (Hl' : incl l db) by (intros x Hx; apply Hl; now right).
  destruct (wanted_b cites acc (b_key e) && negb (has_key_b (b_key e) acc)) eqn:E; [|apply (IH acc); auto].
  apply andb_prop in E as [E _]. rewrite (wanted_nostar _ _ _ _ Hs Ha), existsb_app in E.
  apply (IH (acc ++ [e])); [exact Hl'| | |exact Hin].
  - apply incl_app; [exact Ha|]. intros x [<-|[]]. apply Hl. now left.
  - intros x Hx. apply in_app_or in Hx as [Hx|[<-|[]]]; [auto|].
    apply orb_prop in E as [E|E]; [now apply reach_cite|].
    apply existsb_exists in E as (p & Hp & Hk). unfold xrefs in Hp. apply in_flat_map in Hp as (b & Hb & Hp).
    fold (xref_of b) in Hp. destruct (xref_of b) as [q|] eqn:Eq; [|contradiction]. destruct Hp as [<-|[]].
    eapply reach_xref with (c := b_key b) (e := b); eauto using keyb_refl.
Qed.

(* BibTeX's ordering rule, for the entries that matter: an entry that is reached through a
   cross-reference, and is not itself cited, comes after the reached entries referring to it *)
Definition children_first (cites : list str) (db : list bentry) : Prop :=
  forall l1 e l2 c p, db = l1 ++ e :: l2 -> In c db -> reach cites db (b_key c) -> xref_of c = Some p ->
    keyb p (b_key e) = true -> In c l1 \/ existsb (keyb (b_key e)) cites = true.

Lemma scan_accepts cites db l1 e l2 : db = l1 ++ e :: l2 -> NoDup (map lkey db) ->
  wanted_b cites (scan cites l1 []) (b_key e) = true -> In e (scan cites db []).
Proof.
  intros -> Hnd Hw. rewrite scan_app. cbn [scan]. rewrite Hw.
  assert (Hk : has_key_b (b_key e) (scan cites l1 []) = false).
  { unfold has_key_b. destruct (existsb _ _) eqn:E; [|reflexivity].
    apply existsb_exists in E as (a & Ha & Hk). apply scan_in in Ha as [[]|Ha].
    rewrite map_app in Hnd. cbn in Hnd. apply NoDup_remove_2 in Hnd. exfalso. apply Hnd.
    apply in_or_app. left. apply keyb_true in Hk. unfold lkey. rewrite Hk. now apply in_map with (f := lkey) in Ha. }
  rewrite Hk. cbn. apply scan_keeps. apply in_or_app. right. now left.
Qed.

Lemma scan_in_prefix cites db l1 e l2 c : db = l1 ++ e :: l2 -> NoDup (map lkey db) ->
  In c (scan cites db []) -> In c l1 -> In c (scan cites l1 []).
Proof.
  intros -> Hnd Hin Hc. rewrite scan_app in Hin.
  destruct (scan_prefix cites (e :: l2) (scan cites l1 [])) as (t & Ht & Hi). rewrite Ht in Hin.
  apply in_app_or in Hin as [Hin|Hin]; [exact Hin|]. exfalso.
  apply NoDup_of_map in Hnd. apply (NoDup_app_disjoint _ _ c Hnd Hc). now apply Hi.
Qed.

Lemma scan_complete cites db : nostar cites db -> NoDup (map lkey db) -> children_first cites db ->
  forall k, reach cites db k -> forall e, In e db -> keyb k (b_key e) = true -> In e (scan cites db []).
Proof.
  intros Hs Hnd Hcf. induction 1 as [k Hk|c ec p k Hc IH Hec Hcec Hx Hkp]; intros e He Hke.
  - apply in_split in He as (l1 & l2 & Hdb). eapply scan_accepts; eauto.
    unfold wanted_b. rewrite existsb_app. apply orb_true_iff; left. apply orb_true_iff; left.
    rewrite <- (existsb_keyb_congr _ _ _ Hke). exact Hk.
  - pose proof (IH ec Hec Hcec) as Hin.
    apply in_split in He as (l1 & l2 & Hdb).
    assert (Hpe : keyb p (b_key e) = true).
    { rewrite keyb_sym in Hkp. eapply keyb_trans; eauto. }
    destruct (Hcf l1 e l2 ec p Hdb Hec (reach_congr _ _ _ _ Hc Hcec) Hx Hpe) as [Hl1|Hcited].
    + eapply scan_accepts; eauto.
      assert (Hin1 : In ec (scan cites l1 [])) by (eapply scan_in_prefix; eauto).
      unfold wanted_b. rewrite existsb_app.
      assert (Hx' : existsb (keyb (b_key e)) (xrefs (scan cites l1 [])) = true).
      { apply existsb_exists. exists p. split; [|now rewrite keyb_sym].
        unfold xrefs. apply in_flat_map. exists ec. split; [exact Hin1|]. fold (xref_of ec). rewrite Hx. now left. }
      apply orb_true_iff; left. apply orb_true_iff; right. exact Hx'.
    + eapply scan_accepts; eauto. unfold wanted_b. rewrite existsb_app.
      apply orb_true_iff; left. apply orb_true_iff; left. exact Hcited.
Qed.

(* what the reader keeps = the entries of the file whose key is reachable *)
Lemma scan_char cites db e : nostar cites db -> NoDup (map lkey db) -> children_first cites db ->
  (In e (scan cites db []) <-> In e db /\ reach cites db (b_key e)).
Proof.
  intros Hs Hnd Hcf. split.
  - intros H. split.
    + apply scan_in in H as [[]|H]. exact H.
    + eapply (scan_sound cites db Hs db []); eauto using incl_refl. intros x []. intros x [].
  - intros [H1 H2]. eapply scan_complete; eauto using keyb_refl.
Qed.

Lemma scan_permutation cites db db' : Permutation db db' -> nostar cites db -> NoDup (map lkey db) ->
  children_first cites db -> children_first cites db' ->
  Permutation (scan cites db []) (scan cites db' []).
Proof.
  intros Hp Hs Hnd Hc Hc'.
  assert (Hs' : nostar cites db').
  { unfold nostar in *. rewrite <- Hs. apply existsb_perm_local. apply Permutation_app_head.
    unfold xrefs. apply Permutation_flat_map. now apply Permutation_sym. }
  assert (Hnd' : NoDup (map lkey db')) by (eapply Permutation_NoDup; [apply Permutation_map; exact Hp|exact Hnd]).
  apply NoDup_Permutation.
  - apply NoDup_of_map with (f := lkey). apply scan_nodup. constructor.
  - apply NoDup_of_map with (f := lkey). apply scan_nodup. constructor.
  - intros e. rewrite (scan_char cites db e Hs Hnd Hc), (scan_char cites db' e Hs' Hnd' Hc'). split; intros [H1 H2]; split.
    + eapply Permutation_in; eauto.
    + eapply reach_perm; [|exact H2]. intros x. apply Permutation_in. exact Hp.
    + eapply Permutation_in; [apply Permutation_sym; exact Hp|exact H1].
    + eapply reach_perm; [|exact H2]. intros x. apply Permutation_in. now apply Permutation_sym.
Qed.

(* ---- everything READ computes afterwards uses the stored entries through key look-ups only *)
Definition Emap (cites : list str) (L : list bentry) : edict := map (fun e => (ckey cites (b_key e), xref_of e)) L.
Definition Smap (cites : list str) (L : list bentry) : list (str * bentry) := map (fun e => (ckey cites (b_key e), e)) L.

Lemma lkey_of_keyb a b : keyb (b_key a) (b_key b) = true -> lkey a = lkey b.
Proof. intros H. now apply keyb_true in H. Qed.

Lemma ed_get_Emap_perm cites L L' k : Permutation L L' -> NoDup (map lkey L) ->
  ed_get k (Emap cites L) = ed_get k (Emap cites L').
Proof.
  intros Hp Hnd. unfold ed_get, Emap. apply find_perm; [now apply Permutation_map|].
  intros x y Hx Hy Px Py. apply in_map_iff in Hx as (a & <- & Ha). apply in_map_iff in Hy as (b & <- & Hb).
  cbn in Px, Py. assert (a = b); [|now subst].
  apply (NoDup_map_inj lkey L a b Hnd Ha Hb). apply lkey_of_keyb.
  pose proof (ckey_keyb cites (b_key a)) as Ca. pose proof (ckey_keyb cites (b_key b)) as Cb.
  rewrite keyb_sym in Ca. apply (keyb_trans _ (ckey cites (b_key a))); [exact Ca|].
  rewrite keyb_sym in Px. apply (keyb_trans _ k); [exact Px|]. apply (keyb_trans _ (ckey cites (b_key b))); assumption.
Qed.
Lemma sget_Smap_perm cites L L' k : Permutation L L' -> NoDup (map lkey L) ->
  sget k (Smap cites L) = sget k (Smap cites L').
Proof.
  intros Hp Hnd. unfold sget, Smap. apply find_perm; [now apply Permutation_map|].
  intros x y Hx Hy Px Py. apply in_map_iff in Hx as (a & <- & Ha). apply in_map_iff in Hy as (b & <- & Hb).
  cbn in Px, Py. assert (a = b); [|now subst].
  apply (NoDup_map_inj lkey L a b Hnd Ha Hb). apply lkey_of_keyb.
  pose proof (ckey_keyb cites (b_key a)) as Ca. pose proof (ckey_keyb cites (b_key b)) as Cb.
  rewrite keyb_sym in Ca. apply (keyb_trans _ (ckey cites (b_key a))); [exact Ca|].
  rewrite keyb_sym in Px. apply (keyb_trans _ k); [exact Px|]. apply (keyb_trans _ (ckey cites (b_key b))); assumption.
Qed.

Section Lookup.
  Variables E E' : edict.
  Hypothesis Hget : forall k, ed_get k E = ed_get k E'.

  Lemma ed_mem_same k : ed_mem k E = ed_mem k E'.
  Proof. now rewrite !ed_mem_get, Hget. Qed.

  Lemma expand_loop_nostar : forall cites cset, (forall c, In c cites -> str_eqb c star = false) ->
    expand_loop E cites cset = expand_loop E' cites cset.
  Proof.
    induction cites as [|c r IH]; intros cset Hn; cbn; [reflexivity|].
    rewrite (Hn c (or_introl eq_refl)). destruct (cis_mem c cset); [|f_equal]; apply IH; intros x Hx; apply Hn; now right.
  Qed.

  Lemma xref_loop_same m : forall cites cnt cset, xref_loop E m cites cnt cset = xref_loop E' m cites cnt cset.
  Proof.
    induction cites as [|c r IH]; intros cnt cset; cbn; [reflexivity|].
    rewrite <- Hget. destruct (ed_get c E) as [[k [p|]]|]; auto.
    rewrite <- Hget. destruct (ed_get p E) as [[pk cr]|]; [|now rewrite IH].
    destruct (_ && _); now rewrite IH.
  Qed.

  Lemma remove_missing_same : forall cs, remove_missing E cs = remove_missing E' cs.
  Proof. induction cs as [|c r IH]; cbn; [reflexivity|]. now rewrite ed_mem_same, IH. Qed.

  Lemma add_extra_same cites m : (forall c, In c cites -> str_eqb c star = false) ->
    add_extra E cites m = add_extra E' cites m.
  Proof.
    intros Hn. unfold add_extra, expand, xref_events. rewrite (expand_loop_nostar _ _ Hn). now rewrite xref_loop_same.
  Qed.
End Lookup.

Section SLookup.
  Variables S S' : list (str * bentry).
  Hypothesis Hget : forall k, sget k S = sget k S'.

  Lemma chain_fields_same : forall fuel k e visited, chain_fields fuel S k e visited = chain_fields fuel S' k e visited.
  Proof.
    induction fuel as [|f IH]; intros k e visited; cbn; [reflexivity|].
    destruct (fget s_crossref (b_fields e)) as [p|]; [|reflexivity].
    destruct (existsb (str_eqb k) visited); [reflexivity|].
    rewrite <- Hget. destruct (sget p S) as [[pk pe]|]; [|reflexivity]. now rewrite IH.
  Qed.
  Lemma to_entry_same k e : length S = length S' -> to_entry S k e = to_entry S' k e.
  Proof.
    intros Hl. unfold to_entry. rewrite Hl, chain_fields_same.
    destruct (fget s_crossref (b_fields e)) as [p|]; [|reflexivity]. now rewrite Hget.
  Qed.
End SLookup.

Lemma nostar_cites cites db : nostar cites db -> forall c, In c cites -> str_eqb c star = false.
Proof.
  unfold nostar. rewrite existsb_app. intros H c Hc. apply orb_false_elim in H as [H _].
  destruct (str_eqb_spec c star) as [->|]; [|reflexivity].
  assert (H' : existsb (keyb star) cites = true) by (apply existsb_exists; exists star; split; [exact Hc|apply keyb_refl]).
  assert (Hf : true = false) by (eapply eq_trans; [symmetry; exact H'|exact H]). discriminate.
Qed.

(* re-ordering the file: same READ *)
Lemma engine_read_reorder db db' cites m :
  Permutation db db' -> NoDup (map lkey db) -> nostar cites db ->
  children_first cites db -> children_first cites db' ->
  engine_read db cites m = engine_read db' cites m.
Proof.
  intros Hp Hnd Hs Hc Hc'.
  assert (Hnd' : NoDup (map lkey db')) by (eapply Permutation_NoDup; [apply Permutation_map; exact Hp|exact Hnd]).
  pose proof (scan_permutation cites db db' Hp Hs Hnd Hc Hc') as HpL.
  assert (HndL : NoDup (map lkey (scan cites db []))) by (apply scan_nodup; constructor).
  destruct (bridge_top cites db Hnd) as (HE & HS & HR). destruct (bridge_top cites db' Hnd') as (HE' & HS' & HR').
  fold (Emap cites (scan cites db [])) in HE. fold (Emap cites (scan cites db' [])) in HE'.
  fold (Smap cites (scan cites db [])) in HS. fold (Smap cites (scan cites db' [])) in HS'.
  assert (Hg : forall k, ed_get k (Emap cites (scan cites db [])) = ed_get k (Emap cites (scan cites db' [])))
    by (intros k; now apply ed_get_Emap_perm).
  assert (Hsg : forall k, sget k (Smap cites (scan cites db [])) = sget k (Smap cites (scan cites db' [])))
    by (intros k; now apply sget_Smap_perm).
  assert (Hraw : command_read_raw (map proj db) cites m = command_read_raw (map proj db') cites m).
  { unfold command_read_raw. rewrite HE, HE', HR, HR'.
    rewrite (add_extra_same _ _ Hg cites m (nostar_cites _ _ Hs)).
    destruct (add_extra (Emap cites (scan cites db' [])) cites m) as [cs rs].
    now rewrite (remove_missing_same _ _ Hg). }
  unfold engine_read. rewrite Hraw, HS, HS'.
  f_equal. apply flat_map_ext. intros c. rewrite <- Hsg.
  destruct (sget c (Smap cites (scan cites db []))) as [[k e]|]; [|reflexivity].
  rewrite (to_entry_same _ _ Hsg); [reflexivity|].
  unfold Smap. rewrite !map_length. now apply Permutation_length.
Qed.

(* ---- a checkable sufficient condition for the ordering rule (used for the non-vacuity examples,
        and it is the form the rule usually takes: every entry that cross-references an uncited
        entry of the file stands before it) *)
Fixpoint cf_check (cites : list str) (db rest pre : list bentry) : bool :=
  match rest with
  | [] => true
  | e :: r =>
    (existsb (keyb (b_key e)) cites
     || forallb (fun c => match xref_of c with
                          | Some p => if keyb p (b_key e) then existsb (fun x => str_eqb (lkey x) (lkey c)) pre else true
                          | None => true
                          end) db)
    && cf_check cites db r (pre ++ [e])
  end.
Definition children_first_b (cites : list str) (db : list bentry) : bool := cf_check cites db db [].

Lemma cf_check_sound cites db : NoDup (map lkey db) -> forall rest pre, db = pre ++ rest ->
  cf_check cites db rest pre = true ->
  forall l1 e l2 c p, db = l1 ++ e :: l2 -> length pre <= length l1 -> In c db -> xref_of c = Some p ->
    keyb p (b_key e) = true -> In c l1 \/ existsb (keyb (b_key e)) cites = true.
Proof.
  intros Hnd. induction rest as [|e0 r IH]; intros pre Hdb Hchk l1 e l2 c p Hsplit Hlen Hc Hx Hk.
  - exfalso. rewrite app_nil_r in Hdb. subst pre. rewrite Hsplit, app_length in Hlen. cbn in Hlen. lia.
  - cbn [cf_check] in Hchk. apply andb_prop in Hchk as [H1 H2].
    destruct (Nat.eq_dec (length pre) (length l1)) as [Heq|Hne].
    + (* e0 is e *)
      assert (Hpre : pre = l1 /\ e0 = e).
      { rewrite Hdb in Hsplit. clear - Hsplit Heq. revert l1 Hsplit Heq.
        induction pre as [|x pre IHp]; intros [|y l1] Hs Hl; cbn in *; try discriminate.
        - inversion Hs; auto.
        - inversion Hs; subst. destruct (IHp l1 H1) as [-> ->]; auto. }
      destruct Hpre as [-> ->].
      apply orb_prop in H1 as [H1|H1]; [now right|]. left.
      rewrite forallb_forall in H1. specialize (H1 c Hc). rewrite Hx, Hk in H1.
      apply existsb_exists in H1 as (x & Hx1 & Hx2).
      destruct (str_eqb_spec (lkey x) (lkey c)) as [El|]; [|discriminate].
      assert (x = c); [|now subst].
      apply (NoDup_map_inj lkey db x c Hnd); auto. rewrite Hsplit. apply in_or_app. now left.
    + apply (IH (pre ++ [e0])) with (l2 := l2) (p := p); auto.
      * now rewrite <- app_assoc.
      * rewrite app_length. cbn. lia.
Qed.

Lemma children_first_b_sound cites db : NoDup (map lkey db) -> children_first_b cites db = true -> children_first cites db.
Proof.
  intros Hnd H l1 e l2 c p Hs Hc _ Hx Hk.
  eapply (cf_check_sound cites db Hnd db [] eq_refl H); eauto. cbn. lia.
Qed.

Lemma reader_is_scan_lemma cites db : NoDup (map lkey db) ->
  stored_entries db cites = map (fun e => (ckey cites (b_key e), e)) (scan cites db []) /\
  bd_reports (read_db (Some cites) (map proj db)) = [].
Proof. intros H. destruct (bridge_top cites db H) as (_ & H1 & H2). auto. Qed.

(* ---- F13: the ordering rule is needed *)
Definition f13_child : bentry := mkB [99%N] [97%N] [(s_crossref, [112%N])].     (* c, type a, crossref = p *)
Definition f13_parent : bentry := mkB [112%N] [97%N] [].                          (* p *)
Lemma file_order_counterexample : exists db db' cites m,
  Permutation db db' /\ NoDup (map lkey db) /\ nostar cites db /\ children_first cites db /\
  r_cites (engine_read db cites m) <> r_cites (engine_read db' cites m).
Proof.
  exists [f13_child; f13_parent], [f13_parent; f13_child], [[99%N]], 1%Z.
  assert (Hnd : NoDup (map lkey [f13_child; f13_parent])).
  { repeat constructor; cbn; intuition discriminate. }
  repeat split.
  - apply perm_swap.
  - exact Hnd.
  - apply children_first_b_sound; [exact Hnd|reflexivity].
  - vm_compute. discriminate.
Qed.
