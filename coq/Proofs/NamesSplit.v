(* Proofs/NamesSplit.v -- lemmas about Model/BibtexStr.v's split_tex_string (split_loop, re_split,
   find_closing_brace, partition_brace) and scan, as far as the name-parsing theorems (C04) need them.
   (Model/BibtexStr.v belongs to C12; these lemmas live here so that file stays untouched.) *)
From Pybtex Require Import Base.Prelude Base.PyChar Base.PyStr Model.BibtexStr.

(* ---- results that are neither a foreign exception nor fuel exhaustion ---- *)
Definition good {X} (r : res X) : Prop :=
  match r with Ok _ => True | PyErr _ _ => True | Crash => False | OutOfFuel => False end.

Lemma good_bind {X Y} (r : res X) (f : X -> res Y) :
  good r -> (forall a, r = Ok a -> good (f a)) -> good (bind r f).
Proof. destruct r; cbn; auto. Qed.

(* ---- partition_brace ---- *)
Lemma partition_brace_true s h r : partition_brace s = (h, true, r) -> s = h ++ c_lbrace :: r /\ forallb (fun c => negb (is_lbrace c)) h = true.
Proof.
  revert h r; induction s as [|c s IH]; intros h r; cbn; [discriminate|].
  destruct (is_lbrace c) eqn:E.
  - intros [= <- <-]. apply N.eqb_eq in E. subst c. auto.
  - destruct (partition_brace s) as [[h' b'] r'] eqn:P. intros [= <- -> <-].
    destruct (IH h' r' eq_refl) as [-> Hh]. cbn. rewrite E. auto.
Qed.

Lemma partition_brace_false s h r : partition_brace s = (h, false, r) -> s = h /\ r = [] /\ forallb (fun c => negb (is_lbrace c)) h = true.
Proof.
  revert h r; induction s as [|c s IH]; intros h r; cbn.
  - intros [= <- <-]. auto.
  - destruct (is_lbrace c) eqn:E; [discriminate|].
    destruct (partition_brace s) as [[h' b'] r'] eqn:P. intros [= <- -> <-].
    destruct (IH h' r' eq_refl) as (-> & -> & Hh). cbn. rewrite E. auto.
Qed.

(* ---- find_closing_brace ---- *)
Lemma find_closing_brace_app s u r : find_closing_brace s = (u, r) -> s = u ++ r.
Proof.
  unfold find_closing_brace. destruct (Nat.eqb _ 0); intros [= <- <-].
  - now rewrite app_nil_r.
  - now rewrite firstn_skipn.
Qed.

(* ---- split_loop terminates: each round consumes at least the opening brace ---- *)
Lemma split_loop_fuel m : forall fuel s result wp, length s < fuel -> exists r, split_loop fuel m s result wp = Some r.
Proof.
  induction fuel as [|f IH]; intros s result wp Hl; [lia|].
  cbn [split_loop].
  destruct (partition_brace s) as [[h b] rest] eqn:P.
  match goal with |- context [let '(_, _) := ?e in _] => destruct e as [result1 wp1] end.
  destruct b.
  - apply partition_brace_true in P as [-> _].
    destruct (find_closing_brace rest) as [u r'] eqn:F. apply find_closing_brace_app in F. subst rest.
    apply IH. rewrite !app_length in Hl. cbn in Hl. rewrite app_length in Hl. lia.
  - eauto.
Qed.

Lemma split_gen_good m s st fe : exists r, split_tex_string_gen m s st fe = Ok r.
Proof.
  unfold split_tex_string_gen.
  destruct (split_loop_fuel m (S (length s)) s [] [] (Nat.lt_succ_diag_r _)) as [r ->]. eauto.
Qed.

(* ---- the result is non-empty as soon as there is anything to split ---- *)
Lemma split_loop_nonempty m : forall fuel s result wp r, split_loop fuel m s result wp = Some r ->
  (result <> [] \/ wp <> [] \/ s <> []) -> r <> [].
Proof.
  induction fuel as [|f IH]; intros s result wp r; cbn [split_loop]; [discriminate|].
  destruct (partition_brace s) as [[h b] rest] eqn:P.
  destruct b.
  - destruct h as [|c h'].
    + destruct (find_closing_brace rest) as [u r'] eqn:F. intros H _. eapply IH; [exact H|].
      right; left. destruct wp; discriminate.
    + destruct (removelast (re_split m (c :: h'))) as [|w ws];
      destruct (find_closing_brace rest) as [u r'] eqn:F; intros H _; (eapply IH; [exact H|]);
      right; left; intros E; apply app_eq_nil in E as [_ E]; discriminate.
  - apply partition_brace_false in P as (-> & -> & _).
    destruct h as [|c h'].
    + intros [= <-] [H|[H|H]]; try congruence.
      * destruct wp; [assumption|]. intros E; apply app_eq_nil in E as [_ E]; discriminate.
      * destruct wp; [congruence|]. intros E; apply app_eq_nil in E as [_ E]; discriminate.
    + destruct (removelast (re_split m (c :: h'))) as [|w ws].
      * destruct (wp ++ [last (re_split m (c :: h')) []]) eqn:E; [apply app_eq_nil in E as [_ E]; discriminate|].
        intros [= <-] _. intros E'; apply app_eq_nil in E' as [_ E']; discriminate.
      * intros [= <-] _. intros E'; apply app_eq_nil in E' as [_ E']; discriminate.
Qed.

Lemma split_comma_nonempty s parts : s <> [] -> split_tex_comma s = Ok parts -> parts <> [].
Proof.
  unfold split_tex_comma, split_tex_string_gen. intros Hs.
  destruct (split_loop _ _ _ _ _) as [r|] eqn:E; [|discriminate].
  intros [= <-]. apply split_loop_nonempty in E; [|auto].
  destruct r; [congruence|]. discriminate.
Qed.

Lemma split_space_tokens_nonempty s ts : split_tex_space s = Ok ts -> Forall (fun t => t <> []) ts.
Proof.
  unfold split_tex_space, split_tex_string_gen.
  destruct (split_loop _ _ _ _ _) as [r|]; [|discriminate].
  intros [= <-]. apply Forall_forall. intros t Ht. apply filter_In in Ht as [_ Ht].
  destruct t; [discriminate|congruence].
Qed.

(* ------------------------------------------------------------------------------------ *)
(* split_tex_string drops only separator characters: for any class [dr] of "droppable" characters
   that contains the whitespace and everything the separator can match, the other characters of the
   string come out exactly, in order. *)
Section Conservation.
Variable dr : char -> bool.
Hypothesis dr_space : forall c, is_space c = true -> dr c = true.
Definition keep (s : str) : str := filter (fun c => negb (dr c)) s.

Lemma keep_app a b : keep (a ++ b) = keep a ++ keep b.
Proof. apply filter_app. Qed.

Lemma keep_lstrip s : keep (lstrip s) = keep s.
Proof.
  induction s as [|c s IH]; cbn [lstrip]; [reflexivity|].
  destruct (is_space c) eqn:E; [|reflexivity]. rewrite IH. unfold keep. cbn [filter].
  rewrite (dr_space c E). reflexivity.
Qed.

Lemma keep_rev s : keep (rev s) = rev (keep s).
Proof.
  induction s as [|c s IH]; cbn [rev]; [reflexivity|]. rewrite keep_app, IH. unfold keep. cbn [filter].
  destruct (dr c); cbn [negb rev]; [now rewrite app_nil_r|reflexivity].
Qed.

Lemma keep_strip s : keep (strip s) = keep s.
Proof.
  unfold strip, rstrip. rewrite keep_rev, keep_lstrip, keep_rev, rev_involutive. apply keep_lstrip.
Qed.

Lemma keep_concat_strip_filter (r : list str) :
  keep (concat (filter (fun p => negb (match p with [] => true | _ => false end)) (map strip r))) = keep (concat r).
Proof.
  induction r as [|x r IH]; [reflexivity|]. cbn [map filter concat].
  rewrite keep_app, <- IH, <- (keep_strip x).
  destruct (strip x) as [|c x']; cbn [negb concat]; [reflexivity|]. now rewrite keep_app.
Qed.

Lemma keep_concat_strip (r : list str) : keep (concat (map strip r)) = keep (concat r).
Proof.
  induction r as [|x r IH]; [reflexivity|]. cbn [map concat]. now rewrite !keep_app, IH, keep_strip.
Qed.

(* a separator matcher that only matches droppable characters *)
Definition sep_droppable (m : sep_matcher) : Prop :=
  forall prev s, keep (firstn (m prev s) s) = [].

Lemma re_split_go_keep m (Hm : sep_droppable m) : forall fuel prev s acc,
  keep (concat (re_split_go fuel m prev s acc)) = keep (rev acc ++ s).
Proof.
  induction fuel as [|f IH]; intros prev s acc; cbn [re_split_go].
  - cbn. now rewrite app_nil_r.
  - destruct s as [|c t]; [cbn; now rewrite !app_nil_r|].
    destruct (m prev (c :: t)) as [|k] eqn:E.
    + rewrite IH. cbn [rev]. now rewrite <- app_assoc.
    + cbn [concat]. rewrite keep_app, IH. cbn [rev app]. rewrite keep_app. f_equal.
      rewrite <- (firstn_skipn (S k) (c :: t)) at 2. rewrite keep_app.
      specialize (Hm prev (c :: t)). rewrite E in Hm. rewrite Hm. reflexivity.
Qed.

Lemma re_split_keep m (Hm : sep_droppable m) s : keep (concat (re_split m s)) = keep s.
Proof. unfold re_split. now rewrite re_split_go_keep. Qed.

Lemma re_split_go_nonempty m : forall fuel prev s acc, re_split_go fuel m prev s acc <> [].
Proof.
  induction fuel as [|f IH]; intros prev s acc; cbn [re_split_go]; [discriminate|].
  destruct s as [|c t]; [discriminate|]. destruct (m prev (c :: t)); [apply IH|discriminate].
Qed.

Lemma removelast_last_eq {X} (l : list X) d : l <> [] -> l = removelast l ++ [last l d].
Proof. apply app_removelast_last. Qed.

Lemma concat_snoc_str (l : list str) (x : str) : concat (l ++ [x]) = concat l ++ x.
Proof. rewrite concat_app. cbn. now rewrite app_nil_r. Qed.
Lemma concat_snoc {X} (l : list (list X)) (x : list X) : concat (l ++ [x]) = concat l ++ x.
Proof. rewrite concat_app. cbn. now rewrite app_nil_r. Qed.
Ltac csn := repeat first [rewrite concat_snoc | rewrite concat_snoc_str].
Ltac csn_in H := repeat first [rewrite concat_snoc in H | rewrite concat_snoc_str in H].

Lemma split_loop_keep m (Hm : sep_droppable m) : forall fuel s result wp r,
  split_loop fuel m s result wp = Some r ->
  keep (concat r) = keep (concat result ++ concat wp ++ s).
Proof.
  induction fuel as [|f IH]; intros s result wp r; cbn [split_loop]; [discriminate|].
  destruct (partition_brace s) as [[h b] rest] eqn:P.
  (* the effect of the head on (result, word_parts) *)
  assert (Hhead : forall result1 wp1,
    match h with
    | [] => (result, wp)
    | _ :: _ => match removelast (re_split m h) with
                | [] => (result, wp ++ [last (re_split m h) []])
                | w :: ws => (result ++ [concat (wp ++ [w])] ++ ws, [last (re_split m h) []])
                end
    end = (result1, wp1) ->
    keep (concat result1 ++ concat wp1) = keep (concat result ++ concat wp ++ h)).
  { intros result1 wp1. destruct h as [|c h'].
    - intros [= <- <-]. now rewrite app_nil_r.
    - assert (Hne : re_split m (c :: h') <> []) by apply re_split_go_nonempty.
      assert (Hk := re_split_keep m Hm (c :: h')).
      destruct (exists_last Hne) as (firsts & lastp & Ehp). rewrite Ehp in *. clear Ehp.
      rewrite removelast_app by discriminate. cbn [removelast]. rewrite app_nil_r, last_last.
      csn_in Hk.
      destruct firsts as [|w ws].
      + intros [= <- <-]. cbn [concat app] in Hk. csn. rewrite !keep_app, Hk. reflexivity.
      + intros [= <- <-]. rewrite !concat_app. cbn [concat]. csn. rewrite !app_nil_r.
        cbn [concat] in Hk. rewrite !keep_app in *. rewrite <- Hk. now rewrite <- !app_assoc. }
  match goal with |- context [let '(_, _) := ?e in _] => destruct e as [result1 wp1] eqn:Eh end.
  specialize (Hhead result1 wp1 eq_refl).
  destruct b.
  - apply partition_brace_true in P as [-> _].
    destruct (find_closing_brace rest) as [u r'] eqn:F. apply find_closing_brace_app in F. subst rest.
    intros H. apply IH in H. rewrite H. rewrite concat_app. cbn [concat]. rewrite app_nil_r.
    replace (concat result1 ++ (concat wp1 ++ [c_lbrace] ++ u) ++ r')
      with ((concat result1 ++ concat wp1) ++ [c_lbrace] ++ u ++ r') by (now rewrite <- !app_assoc).
    replace (concat result ++ concat wp ++ h ++ c_lbrace :: u ++ r')
      with ((concat result ++ concat wp ++ h) ++ [c_lbrace] ++ u ++ r') by (now rewrite <- !app_assoc).
    rewrite keep_app, Hhead, <- keep_app. reflexivity.
  - apply partition_brace_false in P as (-> & -> & _).
    destruct wp1 as [|x wp1'].
    + intros [= <-]. cbn [concat] in Hhead. rewrite app_nil_r in Hhead. now rewrite Hhead, !keep_app.
    + intros [= <-]. csn. exact Hhead.
Qed.

Lemma split_gen_keep m (Hm : sep_droppable m) s fe r :
  split_tex_string_gen m s true fe = Ok r -> keep (concat r) = keep s.
Proof.
  unfold split_tex_string_gen. destruct (split_loop _ _ _ _ _) as [r0|] eqn:E; [|discriminate].
  apply split_loop_keep in E; [|exact Hm]. cbn in E. intros [= <-].
  destruct fe; [rewrite keep_concat_strip_filter|rewrite keep_concat_strip]; exact E.
Qed.
End Conservation.

(* BIBTEX_SPACE_RE only matches whitespace, ties and the backslash of a control space *)
Lemma space_run_droppable dr : (forall c, is_space c = true -> dr c = true) -> dr c_tilde = true -> dr c_bslash = true ->
  sep_droppable dr sep_space.
Proof.
  intros Hs Ht Hb prev s. unfold sep_space. revert prev.
  induction s as [|c t IH]; intros prev; cbn [space_run]; [reflexivity|].
  destruct (is_space c) eqn:Es.
  - cbn [firstn keep filter]. rewrite (Hs c Es). cbn. apply IH.
  - destruct (N.eqb c c_tilde) eqn:Et.
    + apply N.eqb_eq in Et. subst c.
      assert (Hgo : keep dr (firstn (S (space_run (Some c_tilde) t)) (c_tilde :: t)) = []).
      { cbn [firstn keep filter]. rewrite Ht. cbn. apply IH. }
      destruct prev as [p|]; [destruct (N.eqb p c_bslash); [reflexivity|]|]; exact Hgo.
    + destruct (N.eqb c c_bslash) eqn:Eb; [|reflexivity].
      destruct t as [|d t']; [reflexivity|]. destruct (N.eqb d c_space) eqn:Ed; [|reflexivity].
      apply N.eqb_eq in Eb, Ed. subst c d.
      cbn [firstn keep filter]. rewrite Hb, (Hs c_space eq_refl). cbn [negb].
      assert (IH' := IH None). change (space_run None (c_space :: t')) with (S (space_run (Some c_space) t')) in IH'.
      cbn [firstn] in IH'. unfold keep in IH'. cbn [filter] in IH'. rewrite (Hs c_space eq_refl) in IH'. exact IH'.
Qed.

Lemma sep_comma_droppable dr : dr c_comma = true -> sep_droppable dr sep_comma.
Proof.
  intros Hc prev s. unfold sep_comma. destruct s as [|c t]; [reflexivity|].
  destruct (N.eqb c c_comma) eqn:E; [|reflexivity]. apply N.eqb_eq in E. subst c.
  cbn. now rewrite Hc.
Qed.

Lemma split_space_keep dr s ts : (forall c, is_space c = true -> dr c = true) -> dr c_tilde = true -> dr c_bslash = true ->
  split_tex_space s = Ok ts -> keep dr (concat ts) = keep dr s.
Proof. intros Hs Ht Hb. apply split_gen_keep; [exact Hs|now apply space_run_droppable]. Qed.

Lemma split_comma_keep dr s ts : (forall c, is_space c = true -> dr c = true) -> dr c_comma = true ->
  split_tex_comma s = Ok ts -> keep dr (concat ts) = keep dr s.
Proof. intros Hs Hc. apply split_gen_keep; [exact Hs|now apply sep_comma_droppable]. Qed.
