(* Proofs/NamesSplit.v -- lemmas about Model/BibtexStr.v's split_tex_string (split_loop, re_split,
   find_closing_brace, partition_brace) and scan, as far as the name-parsing theorems (C04) need them.
   (Model/BibtexStr.v belongs to C12; these lemmas live here so that file stays untouched.) *)
From Pybtex Require Import Base.Prelude Base.PyChar Base.PyStr Model.BibtexStr.

(* ---- results that are neither a foreign exception nor fuel exhaustion ---- *)
Definition good {X} (r : res X) : Prop :=
  match r with Ok _ => True | PyErr _ _ => True | Crash => False | OutOfFuel => False end.

Lemma good_bind {X Y} (r : res X) (f : X -> res Y) :
  good r -> (forall a, r = Ok a -> good (f a)) -> good (bind r f).
Proof. destruct r; cbn; auto. Qed.

(* ---- partition_brace ---- *)
Lemma partition_brace_true s h r : partition_brace s = (h, true, r) -> s = h ++ c_lbrace :: r /\ forallb (fun c => negb (is_lbrace c)) h = true.
Proof.
  revert h r; induction s as [|c s IH]; intros h r; cbn; [discriminate|].
  destruct (is_lbrace c) eqn:E.
  - intros [= <- <-]. apply N.eqb_eq in E. subst c. auto.
  - destruct (partition_brace s) as [[h' b'] r'] eqn:P. intros [= <- -> <-].
    destruct (IH h' r' eq_refl) as [-> Hh]. cbn. rewrite E. auto.
Qed.

Lemma partition_brace_false s h r : partition_brace s = (h, false, r) -> s = h /\ r = [] /\ forallb (fun c => negb (is_lbrace c)) h = true.
Proof.
  revert h r; induction s as [|c s IH]; intros h r; cbn.
  - intros [= <- <-]. auto.
  - destruct (is_lbrace c) eqn:E; [discriminate|].
    destruct (partition_brace s) as [[h' b'] r'] eqn:P. intros [= <- -> <-].
    destruct (IH h' r' eq_refl) as (-> & -> & Hh). cbn. rewrite E. auto.
Qed.

(* ---- find_closing_brace ---- *)
Lemma find_closing_brace_app s u r : find_closing_brace s = (u, r) -> s = u ++ r.
Proof.
  unfold find_closing_brace. destruct (Nat.eqb _ 0); intros [= <- <-].
  - now rewrite app_nil_r.
  - now rewrite firstn_skipn.
Qed.

(* ---- split_loop terminates: each round consumes at least the opening brace ---- *)
Lemma split_loop_fuel m : forall fuel s result wp, length s < fuel -> exists r, split_loop fuel m s result wp = Some r.
Proof.
  induction fuel as [|f IH]; intros s result wp Hl; [lia|].
  cbn [split_loop].
  destruct (partition_brace s) as [[h b] rest] eqn:P.
  match goal with |- context [let '(_, _) := ?e in _] => destruct e as [result1 wp1] end.
  destruct b.
  - apply partition_brace_true in P as [-> _].
    destruct (find_closing_brace rest) as [u r'] eqn:F. apply find_closing_brace_app in F. subst rest.
    apply IH. rewrite !app_length in Hl. cbn in Hl. rewrite app_length in Hl. lia.
  - eauto.
Qed.

Lemma split_gen_good m s st fe : exists r, split_tex_string_gen m s st fe = Ok r.
Proof.
  unfold split_tex_string_gen.
  destruct (split_loop_fuel m (S (length s)) s [] [] (Nat.lt_succ_diag_r _)) as [r ->]. eauto.
Qed.

(* ---- the result is non-empty as soon as there is anything to split ---- *)
Lemma split_loop_nonempty m : forall fuel s result wp r, split_loop fuel m s result wp = Some r ->
  (result <> [] \/ wp <> [] \/ s <> []) -> r <> [].
Proof.
  induction fuel as [|f IH]; intros s result wp r; cbn [split_loop]; [discriminate|].
  destruct (partition_brace s) as [[h b] rest] eqn:P.
  destruct b.
  - destruct h as [|c h'].
    + destruct (find_closing_brace rest) as [u r'] eqn:F. intros H _. eapply IH; [exact H|].
      right; left. destruct wp; discriminate.
    + destruct (removelast (re_split m (c :: h'))) as [|w ws];
      destruct (find_closing_brace rest) as [u r'] eqn:F; intros H _; (eapply IH; [exact H|]);
      right; left; intros E; apply app_eq_nil in E as [_ E]; discriminate.
  - apply partition_brace_false in P as (-> & -> & _).
    destruct h as [|c h'].
    + intros [= <-] [H|[H|H]]; try congruence.
      * destruct wp; [assumption|]. intros E; apply app_eq_nil in E as [_ E]; discriminate.
      * destruct wp; [congruence|]. intros E; apply app_eq_nil in E as [_ E]; discriminate.
    + destruct (removelast (re_split m (c :: h'))) as [|w ws].
      * destruct (wp ++ [last (re_split m (c :: h')) []]) eqn:E; [apply app_eq_nil in E as [_ E]; discriminate|].
        intros [= <-] _. intros E'; apply app_eq_nil in E' as [_ E']; discriminate.
      * intros [= <-] _. intros E'; apply app_eq_nil in E' as [_ E']; discriminate.
Qed.

Lemma split_comma_nonempty s parts : s <> [] -> split_tex_comma s = Ok parts -> parts <> [].
Proof.
  unfold split_tex_comma, split_tex_string_gen. intros Hs.
  destruct (split_loop _ _ _ _ _) as [r|] eqn:E; [|discriminate].
  intros [= <-]. apply split_loop_nonempty in E; [|auto].
  destruct r; [congruence|]. discriminate.
Qed.

Lemma split_space_tokens_nonempty s ts : split_tex_space s = Ok ts -> Forall (fun t => t <> []) ts.
Proof.
  unfold split_tex_space, split_tex_string_gen.
  destruct (split_loop _ _ _ _ _) as [r|]; [|discriminate].
  intros [= <-]. apply Forall_forall. intros t Ht. apply filter_In in Ht as [_ Ht].
  destruct t; [discriminate|congruence].
Qed.
