(* Proofs/WritersNameG.v -- bibtex_name_roundtrip for names whose tokens are braced groups / special characters / any
   closed string without brace-level-0 separators and commas (comma forms, with a first name), through the C04
   builder's comma_split_spec (Proofs/NamesComma.v) and tokenizer_spec_all (via Proofs/WritersTokens.v) (C02). *)
From Pybtex Require Import Base.Prelude Base.PyChar Base.PyStr Model.BibtexStr Model.Names Model.Scanner Model.BibParser Model.Writers
  Spec.Names Proofs.NamesComma Proofs.WritersTree Proofs.WritersPerson Proofs.WritersName Proofs.WritersTokens.
Local Open Scope N_scope.

(* no comma at brace level 0, walking from depth d *)
Fixpoint nc (t : str) (d : nat) : bool :=
  match t with
  | [] => true
  | c :: r => negb (Nat.eqb d 0 && (c =? c_comma)) && nc r (bl_step d c)
  end.
Definition dw (t : str) (d : nat) : nat := fold_left bl_step t d.

(* a general name token *)
Definition gtok (t : str) : Prop :=
  t <> [] /\ nosep t 0 false = true /\ closed t /\ starts_nospace t /\ ends_nospace t /\ nc t 0 = true.

Lemma gtok_good t : gtok t -> good_tok' t.
Proof. intros (A & B & C & D & E & _). repeat split; auto. now apply strip_nice. Qed.

Lemma nc_app a b d : nc (a ++ b) d = nc a d && nc b (dw a d).
Proof. revert d; induction a as [|c a IH]; intros d; [reflexivity|]. cbn [app nc dw fold_left]. rewrite IH. unfold dw. now rewrite andb_assoc. Qed.
Lemma dw_app a b d : dw (a ++ b) d = dw b (dw a d).
Proof. unfold dw. apply fold_left_app. Qed.

Lemma spec_cp_piece : forall x d cur rest, nc x d = true ->
  spec_cp (x ++ rest) d cur = spec_cp rest (dw x d) (rev x ++ cur).
Proof.
  induction x as [|c x IH]; intros d cur rest H; [reflexivity|]. cbn [nc] in H. apply andb_prop in H as [Hc H]. apply negb_true_iff in Hc.
  cbn [app spec_cp]. rewrite Hc. rewrite IH by exact H. cbn [rev dw fold_left]. now rewrite <- app_assoc.
Qed.

(* ---- texts of token lists *)
Lemma ptextG_props l : Forall gtok l -> l <> [] ->
  starts_nospace (part_text l) /\ ends_nospace (part_text l) /\ nc (part_text l) 0 = true /\ dw (part_text l) 0 = 0%nat.
Proof.
  intros H Hne. destruct l as [|t r]; [congruence|]. unfold part_text. rewrite join_sepjoin.
  inversion H as [|? ? (Tne & _ & Tcl & Ts & Te & Tnc) Hr]; subst.
  assert (G : forall r, Forall gtok r -> nc (sepjoin r) 0 = true /\ dw (sepjoin r) 0 = 0%nat /\ (r <> [] -> ends_nospace (sepjoin r))).
  { clear. induction 1 as [|u us (Une & _ & Ucl & _ & Ue & Unc) Hus (I1 & I2 & I3)]; [repeat split; congruence|].
    cbn [sepjoin flat_map]. fold (sepjoin us). change (c_space :: u ++ sepjoin us) with ((c_space :: u) ++ sepjoin us).
    rewrite nc_app, dw_app.
    assert (N1 : nc (c_space :: u) 0 = nc u 0) by reflexivity.
    assert (D1 : dw (c_space :: u) 0 = dw u 0) by reflexivity.
    unfold closed, brace_level_after in Ucl. fold (dw u 0) in Ucl. rewrite N1, D1, Ucl, Unc, I1, I2. repeat split; try reflexivity.
    intros _. destruct us as [|v vs]; [cbn [sepjoin flat_map]; rewrite app_nil_r; now apply (ends_app [c_space])|].
    apply ends_app. apply I3. discriminate. }
  destruct (G r Hr) as (G1 & G2 & G3).
  unfold closed, brace_level_after in Tcl. fold (dw t 0) in Tcl.
  repeat split.
  - destruct t as [|c t']; [congruence|exact Ts].
  - destruct r as [|u us]; [cbn [sepjoin flat_map]; now rewrite app_nil_r|]. apply ends_app. apply G3. discriminate.
  - now rewrite nc_app, Tnc, Tcl, G1.
  - now rewrite dw_app, Tcl, G2.
Qed.

Lemma ptextG_nonnil l : Forall gtok l -> l <> [] -> part_text l <> [].
Proof. intros H Hne E. destruct (ptextG_props l H Hne) as (S & _). rewrite E in S. exact S. Qed.

Lemma jn2G a b : Forall gtok a -> Forall gtok b -> join_nonempty [part_text a; part_text b] = part_text (a ++ b).
Proof.
  intros Ha Hb. unfold join_nonempty.
  destruct a as [|a0 a'].
  - change (part_text []) with (@nil char). cbn [filter nonempty app]. destruct b as [|b0 b']; [reflexivity|].
    destruct (part_text (b0 :: b')) eqn:E; [exfalso; eapply ptextG_nonnil; [exact Hb|discriminate|exact E]|]. reflexivity.
  - destruct b as [|b0 b'].
    + rewrite app_nil_r. cbn [filter].
      destruct (part_text (a0 :: a')) eqn:E; [exfalso; eapply ptextG_nonnil; [exact Ha|discriminate|exact E]|]. reflexivity.
    + rewrite ptext_app by discriminate. cbn [filter].
      destruct (part_text (a0 :: a')) eqn:E; [exfalso; eapply ptextG_nonnil; [exact Ha|discriminate|exact E]|].
      destruct (part_text (b0 :: b')) eqn:E2; [exfalso; eapply ptextG_nonnil; [exact Hb|discriminate|exact E2]|].
      reflexivity.
Qed.

Definition expressibleG (p : person) : Prop :=
  Forall gtok (p_first p) /\ Forall gtok (p_middle p) /\ Forall gtok (p_prelast p) /\
  Forall gtok (p_last p) /\ Forall gtok (p_lineage p) /\
  (exists f, p_first p = [f]) /\ p_last p <> [] /\
  (p_prelast p = [] \/ isvon (last (p_prelast p) [])) /\
  Forall nonvon (removelast (p_last p)).

Lemma format_name_shapeG p : expressibleG p ->
  format_name p = part_text (p_prelast p ++ p_last p) ++ cjoin (name_pieces p).
Proof.
  intros (Hf & Hm & Hv & Hl & Hj & (f & Ef) & Hne & _ & _).
  unfold format_name, name_pieces.
  assert (N1 : nonempty (part_text (p_last p)) = true).
  { destruct (part_text (p_last p)) eqn:E; [exfalso; eapply ptextG_nonnil; [exact Hl|exact Hne|exact E]|reflexivity]. }
  assert (N2 : nonempty (part_text (p_first p)) = true).
  { rewrite Ef in *. destruct (part_text [f]) eqn:E; [exfalso; eapply ptextG_nonnil; [exact Hf|discriminate|exact E]|reflexivity]. }
  rewrite N1, N2. cbn [orb]. rewrite !jn2G by assumption.
  destruct (p_lineage p) as [|j js] eqn:EJ.
  - cbn [part_text join nonempty cjoin flat_map comma_space app]. now rewrite app_nil_r.
  - assert (N3 : nonempty (part_text (j :: js)) = true).
    { destruct (part_text (j :: js)) eqn:E; [exfalso; eapply ptextG_nonnil; [exact Hj|discriminate|exact E]|reflexivity]. }
    rewrite N3. cbn [cjoin flat_map comma_space app]. rewrite <- !app_assoc. cbn [app]. now rewrite app_nil_r.
Qed.

Lemma spec_cp_cjoin : forall ps, Forall (fun u => nc u 0 = true /\ dw u 0 = 0%nat) ps ->
  forall x cur, nc x 0 = true -> dw x 0 = 0%nat -> spec_cp (x ++ cjoin ps) 0 cur = (rev cur ++ x) :: ps.
Proof.
  induction ps as [|u us IH]; intros Hps x cur Hx Hd.
  - cbn [cjoin flat_map]. rewrite (spec_cp_piece x 0 cur [] Hx). cbn [spec_cp]. now rewrite rev_app_distr, rev_involutive.
  - inversion Hps as [|? ? [Hu Hud] Hus]; subst. cbn [cjoin flat_map]. fold (cjoin us).
    rewrite (spec_cp_piece x 0 cur _ Hx), Hd. cbn [app spec_cp]. change (Nat.eqb 0 0 && (c_comma =? c_comma)) with true. cbv iota.
    rewrite rev_app_distr, rev_involutive. f_equal. rewrite (IH Hus u [] Hu Hud). reflexivity.
Qed.

Lemma name_comma_partsG p : expressibleG p ->
  split_tex_comma (format_name p) =
  Ok (part_text (p_prelast p ++ p_last p) ::
      match p_lineage p with
      | [] => [part_text (p_first p ++ p_middle p)]
      | _ => [part_text (p_lineage p); part_text (p_first p ++ p_middle p)]
      end).
Proof.
  intros E. pose proof (format_name_shapeG p E) as Sh.
  destruct E as (Hf & Hm & Hv & Hl & Hj & (f & Ef) & Hne & _ & _).
  assert (Hvl : Forall gtok (p_prelast p ++ p_last p)) by (apply Forall_app; auto).
  assert (Hfm : Forall gtok (p_first p ++ p_middle p)) by (apply Forall_app; auto).
  assert (Nvl : p_prelast p ++ p_last p <> []) by (destruct (p_prelast p); [exact Hne|discriminate]).
  assert (Nfm : p_first p ++ p_middle p <> []) by (rewrite Ef; discriminate).
  destruct (ptextG_props _ Hvl Nvl) as (V1 & V2 & V3 & V4).
  destruct (ptextG_props _ Hfm Nfm) as (F1 & F2 & F3 & F4).
  rewrite comma_split_spec_pf.
  2:{ rewrite Sh. intros E0. apply app_eq_nil in E0 as [E0 _]. eapply ptextG_nonnil; [exact Hvl|exact Nvl|exact E0]. }
  rewrite Sh. unfold spec_comma_pieces.
  assert (SP : forall l, nc l 0 = true -> dw l 0 = 0%nat -> nc (c_space :: l) 0 = true /\ dw (c_space :: l) 0 = 0%nat).
  { intros l A B. split; [exact A|exact B]. }
  unfold name_pieces. destruct (p_lineage p) as [|j js] eqn:EJ.
  - rewrite spec_cp_cjoin; [|repeat constructor; apply SP; assumption|exact V3|exact V4].
    cbn [rev app map]. f_equal. f_equal; [now apply strip_nice|]. f_equal. now apply strip_sp_nice.
  - destruct (ptextG_props (j :: js) Hj ltac:(discriminate)) as (J1 & J2 & J3 & J4).
    rewrite spec_cp_cjoin; [|repeat constructor; apply SP; assumption|exact V3|exact V4].
    cbn [rev app map]. f_equal. f_equal; [now apply strip_nice|]. f_equal; [now apply strip_sp_nice|]. f_equal. now apply strip_sp_nice.
Qed.

Lemma bibtex_name_roundtripG_pf p : expressibleG p -> person_of_string (format_name p) = Ok (p, false).
Proof.
  intros E. pose proof (name_comma_partsG p E) as CP. pose proof (format_name_shapeG p E) as Sh.
  destruct E as (Hf & Hm & Hv & Hl & Hj & (f & Ef) & Hne & Hvon & Hnv).
  assert (Hvl : Forall gtok (p_prelast p ++ p_last p)) by (apply Forall_app; auto).
  assert (Hfm : Forall gtok (p_first p ++ p_middle p)) by (apply Forall_app; auto).
  assert (Nvl : p_prelast p ++ p_last p <> []) by (destruct (p_prelast p); [exact Hne|discriminate]).
  assert (Nfm : p_first p ++ p_middle p <> []) by (rewrite Ef; discriminate).
  destruct (ptextG_props _ Hvl Nvl) as (V1 & V2 & _ & _).
  destruct (ptextG_props _ Hfm Nfm) as (F1 & F2 & _ & _).
  assert (GG : forall l, Forall gtok l -> Forall good_tok' l) by (intros l H; eapply Forall_impl; [|exact H]; apply gtok_good).
  assert (St : strip (format_name p) = format_name p).
  { apply strip_nice; rewrite Sh.
    - destruct (part_text (p_prelast p ++ p_last p)); [contradiction|exact V1].
    - apply ends_app. apply cjoin_ends.
      + unfold name_pieces. destruct (p_lineage p); discriminate.
      + unfold name_pieces. destruct (p_lineage p) as [|j js] eqn:EJ; repeat constructor; apply (ends_app [c_space]); auto.
        destruct (ptextG_props (j :: js) Hj ltac:(discriminate)) as (_ & J2 & _). exact J2. }
  assert (Nn : format_name p <> []).
  { rewrite Sh. intros E0. apply app_eq_nil in E0 as [E0 _]. eapply ptextG_nonnil; [exact Hvl|exact Nvl|exact E0]. }
  unfold person_of_string, person_init. rewrite St.
  destruct (format_name p) as [|c0 r0] eqn:EF; [congruence|]. rewrite <- EF in *. clear EF c0 r0.
  unfold parse_string. rewrite CP. cbn [bind].
  rewrite split_space_nil'. cbn [bind].
  destruct (p_lineage p) as [|j js] eqn:EJ.
  - cbn [length Nat.ltb Nat.leb]. cbv iota.
    rewrite !split_space_good by (apply GG; assumption). cbn [bind].
    rewrite von_last_ok by assumption. cbn [bind]. rewrite Ef. cbn [app process_first_middle p_first p_middle p_prelast p_last p_lineage].
    rewrite !app_nil_r. destruct p; cbn in *; subst; reflexivity.
  - cbn [length Nat.ltb Nat.leb]. cbv iota.
    rewrite !split_space_good by (apply GG; assumption). cbn [bind].
    rewrite von_last_ok by assumption. cbn [bind]. rewrite Ef. cbn [app process_first_middle p_first p_middle p_prelast p_last p_lineage].
    rewrite !app_nil_r. destruct p; cbn in *; subst; reflexivity.
Qed.

(* a computable form of the token predicate *)
Definition gtokb (t : str) : bool :=
  negb (match t with [] => true | _ => false end) && nosep t 0 false && Nat.eqb (dw t 0) 0 &&
  negb (is_space (hd 0 t)) && negb (is_space (last t 0)) && nc t 0.
Lemma gtokb_ok t : gtokb t = true -> gtok t.
Proof.
  unfold gtokb. intros H. repeat (apply andb_prop in H as [H ?]).
  assert (Hne : t <> []) by (destruct t; [discriminate|discriminate]).
  repeat split; auto.
  - unfold closed, brace_level_after. fold (dw t 0). now apply Nat.eqb_eq.
  - destruct t as [|c t']; [congruence|]. cbn in *. now apply negb_true_iff.
  - exists (removelast t), (last t 0). split; [now apply app_removelast_last|now apply negb_true_iff].
Qed.
Definition braced_name : person :=
  mkPerson [[65; 46]] [[123; 66; 32; 67; 125]] [[100; 101]; [123; 92; 39; 101; 125; 97]]
           [[123; 92; 34; 79; 125; 122; 116; 123; 92; 34; 117; 125; 114; 107]; [123; 66; 97; 114; 110; 101; 115; 32; 97; 110; 100; 32; 78; 111; 98; 108; 101; 44; 32; 73; 110; 99; 46; 125]] [[74; 114; 46]].
Lemma braced_name_ok : expressibleG braced_name.
Proof.
  unfold expressibleG. repeat match goal with |- _ /\ _ => split | |- Forall gtok _ => constructor end;
    try (apply gtokb_ok; vm_compute; reflexivity); try discriminate; try (eexists; reflexivity).
  - right. vm_compute. reflexivity.
  - cbn [braced_name p_last removelast]. constructor; [vm_compute; reflexivity|constructor].
Qed.

(* ---- the no-first-name form with general tokens *)
Definition expressible0G (p : person) : Prop :=
  p_first p = [] /\ p_middle p = [] /\ p_lineage p = [] /\
  Forall gtok (p_prelast p) /\ Forall gtok (p_last p) /\
  ((p_prelast p = [] /\ exists z b, p_last p = [z] /\ is_von_name z = Ok b) \/
   (isvon (hd [] (p_prelast p)) /\ isvon (last (p_prelast p) []) /\ p_prelast p <> [] /\ p_last p <> [] /\
    Forall nonvon (removelast (p_last p)))).

Lemma bibtex_name_roundtrip0G_pf p : expressible0G p -> person_of_string (format_name p) = Ok (p, false).
Proof.
  intros (Hf & Hm & Hj & Hv & Hl & Hc).
  assert (Hne : p_last p <> []) by (destruct Hc as [(_ & z & b & -> & _)|(_ & _ & _ & H & _)]; [discriminate|exact H]).
  assert (Hvl : Forall gtok (p_prelast p ++ p_last p)) by (apply Forall_app; auto).
  assert (Nvl : p_prelast p ++ p_last p <> []) by (destruct (p_prelast p); [exact Hne|discriminate]).
  assert (FN : format_name p = part_text (p_prelast p ++ p_last p)).
  { unfold format_name. rewrite Hf, Hm, Hj. change (part_text []) with (@nil char). cbn [nonempty orb].
    assert (N1 : nonempty (part_text (p_last p)) = true).
    { destruct (part_text (p_last p)) eqn:E; [exfalso; eapply ptextG_nonnil; [exact Hl|exact Hne|exact E]|reflexivity]. }
    rewrite N1. now apply jn2G. }
  rewrite FN. set (N := part_text (p_prelast p ++ p_last p)).
  destruct (ptextG_props _ Hvl Nvl) as (S1 & S2 & S3 & S4). fold N in S1, S2, S3, S4.
  assert (NN : N <> []) by (now apply ptextG_nonnil).
  assert (CO : split_tex_comma N = Ok [N]).
  { rewrite comma_split_spec_pf by exact NN. unfold spec_comma_pieces.
    pose proof (spec_cp_cjoin [] (Forall_nil _) N [] S3 S4) as R. cbn [cjoin flat_map] in R. rewrite app_nil_r in R. rewrite R.
    cbn [rev app map]. now rewrite strip_nice. }
  unfold person_of_string, person_init. rewrite (strip_nice N S1 S2).
  destruct N as [|c0 r0] eqn:EN; [congruence|]. rewrite <- EN in *. clear EN c0 r0.
  unfold parse_string. rewrite CO. cbn [bind length Nat.ltb Nat.leb]. cbv iota.
  assert (GG : Forall good_tok' (p_prelast p ++ p_last p)) by (eapply Forall_impl; [|exact Hvl]; apply gtok_good).
  unfold N at 1. rewrite (split_space_good _ GG). cbn [bind].
  rewrite split_space_nil'. cbn [bind].
  destruct Hc as [(Ev & z & b & El & Hz)|(Hh & Hlast & Hvne & _ & Hnv)].
  - rewrite Ev, El. cbn [app]. unfold split_at. cbn [find_pos]. rewrite Hz. cbn [bind].
    destruct b; cbn [bind find_pos firstn skipn removelast last process_first_middle];
      (unfold process_von_last; cbn [removelast last app bind fst snd empty_person p_first p_middle p_prelast p_last p_lineage];
       destruct p; cbn in *; subst; reflexivity).
  - destruct (p_prelast p) as [|x v'] eqn:EV; [congruence|]. cbn [hd] in Hh. unfold isvon in Hh.
    unfold split_at. cbn [app find_pos]. rewrite Hh. cbn [bind firstn skipn process_first_middle].
    change (x :: v' ++ p_last p) with ((x :: v') ++ p_last p).
    pose proof (von_last_ok (x :: v') (p_last p) Hne (or_intror Hlast) Hnv) as VL. unfold str, char in *. rewrite VL. cbn [bind].
    rewrite !app_nil_r. destruct p; cbn in *; subst; reflexivity.
Qed.
