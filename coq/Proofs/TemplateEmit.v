(* Proofs/TemplateEmit.v -- every live leaf of a template appears in the text it evaluates to,
   up to the case transformations (property C07: "every field the style prints ... appears"). *)
From Pybtex Require Import Base.Prelude Base.PyChar Base.PyStr Model.RtTypes Model.Template Proofs.Template.

(* the characters of a flat text with their case folded and their markup forgotten *)
Definition fold_atom (a : atom) : atom := match a with ACh c => ACh (to_lower c) | ASym n => ASym n end.
Definition chars (f : ftext) : list atom := map (fun p : pair => fold_atom (fst p)) f.

Definition infix {X} (a b : list X) : Prop := exists p s, b = p ++ a ++ s.

Lemma infix_refl {X} (a : list X) : infix a a.
Proof. exists [], []. now rewrite app_nil_r. Qed.
Lemma infix_nil {X} (b : list X) : infix [] b.
Proof. exists [], b. reflexivity. Qed.
Lemma infix_app_r {X} (a b c : list X) : infix a b -> infix a (b ++ c).
Proof. intros (p & s & ->). exists p, (s ++ c). now rewrite <- !app_assoc. Qed.
Lemma infix_app_l {X} (a b c : list X) : infix a b -> infix a (c ++ b).
Proof. intros (p & s & ->). exists (c ++ p), s. now rewrite <- !app_assoc. Qed.
Lemma infix_trans {X} (a b c : list X) : infix a b -> infix b c -> infix a c.
Proof. intros (p & s & ->) (p' & s' & ->). exists (p' ++ p), (s ++ s'). now rewrite <- !app_assoc. Qed.
Lemma infix_of_nil {X} (a : list X) : infix a [] -> a = [].
Proof. intros (p & s & H). destruct p; [destruct a; [reflexivity|discriminate]|discriminate]. Qed.

Lemma chars_app a b : chars (a ++ b) = chars a ++ chars b.
Proof. apply map_app. Qed.

Lemma to_lower_upper c : to_lower (to_upper c) = to_lower c.
Proof.
  unfold to_lower, to_upper, is_upper, is_lower.
  destruct ((97 <=? c) && (c <=? 122))%N eqn:E.
  - apply andb_prop in E as [E1 E2]. apply N.leb_le in E1, E2.
    assert (H1 : ((65 <=? c - 32) && (c - 32 <=? 90))%N = true).
    { apply andb_true_intro; split; apply N.leb_le; lia. }
    rewrite H1. assert (H2 : ((65 <=? c) && (c <=? 90))%N = false).
    { apply andb_false_intro2. apply N.leb_gt. lia. }
    rewrite H2. lia.
  - reflexivity.
Qed.

Lemma fold_conv up p : fold_atom (fst (conv_pair up p)) = fold_atom (fst p).
Proof.
  unfold conv_pair. destruct (protected p); [reflexivity|]. destruct p as [[c|n] ms]; cbn; [|reflexivity].
  destruct up; [now rewrite to_lower_upper | now rewrite to_lower_idem].
Qed.

Lemma chars_map_conv up f : chars (map (conv_pair up) f) = chars f.
Proof. unfold chars. rewrite map_map. apply map_ext. intros p. apply fold_conv. Qed.
Lemma chars_capfirst f : chars (f_capfirst f) = chars f.
Proof. destruct f as [|p r]; [reflexivity|]. unfold f_capfirst, chars. cbn [map]. now rewrite fold_conv. Qed.
Lemma chars_capitalize f : chars (f_capitalize f) = chars f.
Proof.
  destruct f as [|p r]; [reflexivity|]. unfold f_capitalize. change (chars (conv_pair true p :: f_lower r)) with
    (fold_atom (fst (conv_pair true p)) :: chars (f_lower r)).
  rewrite fold_conv. unfold f_lower. now rewrite chars_map_conv.
Qed.
Lemma chars_push m f : chars (push_m m f) = chars f.
Proof. unfold chars, push_m. rewrite map_map. reflexivity. Qed.

(* the case transformations do not change the folded characters *)
Lemma apply_afunc_chars a f g : a <> ADashify -> apply_afunc a f = TOk g -> chars g = chars f.
Proof.
  intros Hd. destruct a; cbn; intros H; inversion H; subst; clear H; try congruence.
  - apply chars_map_conv.
  - apply chars_map_conv.
  - apply chars_capitalize.
  - apply chars_capfirst.
Qed.

(* the dash transformation: everything that is not an unprotected hyphen is kept, in order; the
   hyphens become ndash symbols *)
Definition is_ndash (p : pair) : bool :=
  match p with (ASym n, []) => str_eqb n ndash_name | _ => false end.
Definition nodash (f : ftext) : ftext := filter (fun p => negb (is_dash p || is_ndash p)) f.

Lemma dashify_nodash f b : nodash (dashify_go f b) = nodash f.
Proof.
  revert b; induction f as [|p r IH]; intros b; [reflexivity|]. cbn [dashify_go].
  destruct (is_dash p) eqn:D.
  - unfold nodash in *. cbn [filter]. rewrite D. cbn [orb negb].
    destruct b; [apply IH|]. cbn [filter]. cbn. apply IH.
  - unfold nodash in *. cbn [filter]. rewrite D. rewrite IH. reflexivity.
Qed.

(* after dashify no unprotected hyphen is left *)
Lemma dashify_no_dash f b : Forall (fun p => is_dash p = false) (dashify_go f b).
Proof.
  revert b; induction f as [|p r IH]; intros b; cbn [dashify_go]; [constructor|].
  destruct (is_dash p) eqn:D; [destruct b; [apply IH|constructor; [reflexivity|apply IH]]|constructor; [exact D|apply IH]].
Qed.

(* ------------------------------------------------------------------------------ *)
(* joins contain their truthy members *)
Lemma join_flat_infix sep items x : In x items -> infix x (join_flat sep items).
Proof.
  induction items as [|y r IH]; [contradiction|]. intros [->|Hin].
  - destruct r; [apply infix_refl|]. cbn [join_flat]. apply infix_app_r. apply infix_refl.
  - destruct r as [|z r']; [contradiction|]. change (join_flat sep (y :: z :: r')) with (y ++ sep ++ join_flat sep (z :: r')).
    apply infix_app_l, infix_app_l. now apply IH.
Qed.

Lemma in_truthy_parts v vs : In v vs -> truthy v = true -> In (vflat v) (map vflat (filter truthy vs)).
Proof. intros Hin Ht. apply in_map. apply filter_In. split; assumption. Qed.

Lemma vflat_falsy v : truthy v = false -> vflat v = [].
Proof. destruct v as [f|]; [|reflexivity]. cbn. destruct f; [reflexivity|discriminate]. Qed.

Lemma in_removelast_or_last {X} (l : list X) d x : In x l -> In x (removelast l) \/ x = last l d.
Proof.
  induction l as [|y r IH]; [contradiction|]. intros [->|Hin].
  - destruct r; [right; reflexivity|left; left; reflexivity].
  - destruct r as [|z r']; [contradiction|]. destruct (IH Hin) as [H|H]; [left; right; exact H|right; exact H].
Qed.

Lemma join_vals_infix sep sep2 ls vs v : In v vs -> infix (vflat v) (join_vals sep sep2 ls vs).
Proof.
  intros Hin. destruct (truthy v) eqn:Ht; [|rewrite (vflat_falsy _ Ht); apply infix_nil].
  pose proof (in_truthy_parts _ _ Hin Ht) as Hp. unfold join_vals.
  set (parts := map vflat (filter truthy vs)) in *.
  destruct parts as [|p0 [|p1 [|p2 r]]].
  - contradiction.
  - destruct Hp as [<-|[]]. apply infix_refl.
  - now apply join_flat_infix.
  - set (l := p0 :: p1 :: p2 :: r) in *.
    destruct (in_removelast_or_last l [] _ Hp) as [H|H].
    + eapply infix_trans; [apply (join_flat_infix sep _ _ H)|]. apply join_flat_infix. left; reflexivity.
    + rewrite H. apply join_flat_infix. right; left; reflexivity.
Qed.

Lemma together_vals_infix lt vs v : In v vs -> infix (vflat v) (together_vals lt vs).
Proof.
  intros Hin. destruct (truthy v) eqn:Ht; [|rewrite (vflat_falsy _ Ht); apply infix_nil].
  pose proof (in_truthy_parts _ _ Hin Ht) as Hp. unfold together_vals.
  set (parts := map vflat (filter truthy vs)) in *.
  destruct parts as [|p0 rest] eqn:E; [contradiction|].
  destruct (Nat.leb (length (p0 :: rest)) 2).
  - now apply join_flat_infix.
  - destruct Hp as [<-|Hp]; [apply infix_app_r, infix_refl|].
    destruct (in_removelast_or_last rest [] _ Hp) as [H|H].
    + apply infix_app_l, infix_app_l, infix_app_r. now apply join_flat_infix.
    + assert (HL : last (p0 :: rest) [] = last rest []) by (destruct rest; [contradiction|reflexivity]).
      rewrite HL, <- H. apply infix_app_l, infix_app_l, infix_app_l, infix_app_l, infix_refl.
Qed.

Lemma chars_infix a b : infix a b -> infix (chars a) (chars b).
Proof. intros (p & s & ->). exists (chars p), (chars s). now rewrite !chars_app. Qed.

Lemma add_period_chars_infix x f : infix x (chars f) -> infix x (chars (f_add_period f)).
Proof.
  intros H. destruct (add_period_spec f) as [-> | (-> & _ & _)]; [exact H|]. rewrite chars_app. now apply infix_app_r.
Qed.

Lemma sentence_vals_infix cf cp ap sep vs v :
  In v vs -> infix (chars (vflat v)) (chars (sentence_vals cf cp ap sep vs)).
Proof.
  intros Hin. pose proof (chars_infix _ _ (join_vals_infix sep None None vs v Hin)) as H.
  unfold sentence_vals. set (t0 := join_vals sep None None vs) in *.
  assert (H1 : infix (chars (vflat v)) (chars (if cf then f_capfirst t0 else t0))) by (destruct cf; [now rewrite chars_capfirst|exact H]).
  set (t1 := if cf then f_capfirst t0 else t0) in *.
  assert (H2 : infix (chars (vflat v)) (chars (if cp then f_capitalize t1 else t1))) by (destruct cp; [now rewrite chars_capitalize|exact H1]).
  destruct ap; [now apply add_period_chars_infix|exact H2].
Qed.

Lemma name_part_vals_infix b t vs v : In v vs -> infix (vflat v) (name_part_vals b t vs).
Proof.
  intros Hin. pose proof (together_vals_infix true vs v Hin) as H. unfold name_part_vals.
  destruct (is_nil (together_vals true vs)) eqn:E.
  - destruct (together_vals true vs); [|discriminate]. apply infix_of_nil in H. rewrite H. apply infix_nil.
  - destruct t; [apply infix_app_l, infix_app_r, H|apply infix_app_l, H].
Qed.

Lemma concat_infix {X} (l : list (list X)) x : In x l -> infix x (concat l).
Proof.
  induction l as [|y r IH]; [contradiction|]. intros [->|Hin]; cbn [concat].
  - apply infix_app_r, infix_refl.
  - apply infix_app_l. now apply IH.
Qed.

(* ------------------------------------------------------------------------------ *)
(* live leaves *)
Inductive live (c : ctx) : tnode -> ftext -> Prop :=
| LvField n a r f : eval_field c n a r = TOk (VT f) -> live c (TField n a r) f
| LvOptField n a r f : eval_field c n a r = TOk (VT f) -> live c (TOptionalField n a r) f
| LvNames role s s2 ls f : eval_names c role s s2 ls = TOk (VT f) -> live c (TNames role s s2 ls) f
| LvJoin s s2 ls cs t f : In t cs -> live c t f -> live c (TJoin s s2 ls cs) f
| LvWords s cs t f : In t cs -> live c t f -> live c (TWords s cs) f
| LvTogether lt cs t f : In t cs -> live c t f -> live c (TTogether lt cs) f
| LvSentence a b p s cs t f : In t cs -> live c t f -> live c (TSentence a b p s cs) f
| LvToplevel cs t f : In t cs -> live c t f -> live c (TToplevel cs) f
| LvTag n cs t f : In t cs -> live c t f -> live c (TTag n cs) f
| LvHRef u e cs t f : In t cs -> live c t f -> live c (THRef (Some u) e cs) f
| LvOptional cs t f g : In t cs -> live c t f -> text_of c cs = TOk g -> live c (TOptional cs) f
| LvFirstOf pre t post f v :
    Forall (fun x => exists w, eval c x = TOk w /\ truthy w = false) pre ->
    eval c t = TOk v -> truthy v = true -> live c t f -> live c (TFirstOf (pre ++ t :: post)) f
| LvNamePart b ti cs t f : In t cs -> live c t f -> live c (TNamePart b ti false cs) f.

Lemma evals_in c cs vs t : evals c cs = TOk vs -> In t cs -> exists v, eval c t = TOk v /\ In v vs.
Proof.
  intros H Hin. apply tmapM_ok in H. induction H as [|x y l l' Hxy HF IH]; [contradiction|].
  destruct Hin as [->|Hin]; [exists y; split; [exact Hxy|now left]|].
  destruct (IH Hin) as (v & Hv & Hv'). exists v; split; [exact Hv|now right].
Qed.

Lemma text_of_in c cs g t : text_of c cs = TOk g -> In t cs -> exists v, eval c t = TOk v /\ infix (vflat v) g.
Proof.
  unfold text_of. intros H Hin. apply tbind_ok in H as (vs & Hvs & H). apply tbind_ok in H as (fs & Hfs & H).
  inversion H; subst. destruct (evals_in _ _ _ _ Hvs Hin) as (v & Hv & Hvin). exists v; split; [exact Hv|].
  apply tmapM_ok in Hfs. clear Hvs H. induction Hfs as [|x y l l' Hxy HF IH]; [contradiction|].
  destruct Hvin as [->|Hvin].
  - destruct v; cbn in Hxy; inversion Hxy; subst. cbn [concat vflat]. apply infix_app_r, infix_refl.
  - cbn [concat]. apply infix_app_l. now apply IH.
Qed.

Lemma first_eval_chosen c pre t post v :
  Forall (fun x => exists w, eval c x = TOk w /\ truthy w = false) pre ->
  eval c t = TOk v -> truthy v = true -> first_eval c (pre ++ t :: post) = TOk v.
Proof.
  induction 1 as [|x r (w & Hw & Hf) Hr IH]; intros Hv Ht; cbn [app first_eval].
  - rewrite Hv. cbn. now rewrite Ht.
  - rewrite Hw. cbn. rewrite Hf. now apply IH.
Qed.

Lemma eval_emits_leaves_lemma c t f :
  live c t f -> forall v, eval c t = TOk v -> infix (chars f) (chars (vflat v)).
Proof.
  induction 1 as [n a r f Hf | n a r f Hf | role s s2 ls f Hf
                  | s s2 ls cs t f Hin Hl IH | s cs t f Hin Hl IH | lt cs t f Hin Hl IH | a b p s cs t f Hin Hl IH
                  | cs t f Hin Hl IH | n cs t f Hin Hl IH | u e cs t f Hin Hl IH | cs t f g Hin Hl IH Hg
                  | pre t post f v0 Hpre Hv0 Ht0 Hl IH | b ti cs t f Hin Hl IH]; intros v Hv.
  - cbn [eval] in Hv. rewrite Hf in Hv. inversion Hv. apply infix_refl.
  - cbn [eval] in Hv. rewrite Hf in Hv. cbn in Hv. inversion Hv. apply infix_refl.
  - cbn [eval] in Hv. rewrite Hf in Hv. inversion Hv. apply infix_refl.
  - rewrite eval_join in Hv. apply tbind_ok in Hv as (vs & Hvs & Hv). inversion Hv; subst.
    destruct (evals_in _ _ _ _ Hvs Hin) as (w & Hw & Hwin). eapply infix_trans; [apply (IH _ Hw)|].
    apply chars_infix. now apply join_vals_infix.
  - rewrite eval_words in Hv. apply tbind_ok in Hv as (vs & Hvs & Hv). inversion Hv; subst.
    destruct (evals_in _ _ _ _ Hvs Hin) as (w & Hw & Hwin). eapply infix_trans; [apply (IH _ Hw)|].
    apply chars_infix. now apply join_vals_infix.
  - rewrite eval_together in Hv. apply tbind_ok in Hv as (vs & Hvs & Hv). inversion Hv; subst.
    destruct (evals_in _ _ _ _ Hvs Hin) as (w & Hw & Hwin). eapply infix_trans; [apply (IH _ Hw)|].
    apply chars_infix. now apply together_vals_infix.
  - rewrite eval_sentence in Hv. apply tbind_ok in Hv as (vs & Hvs & Hv). inversion Hv; subst.
    destruct (evals_in _ _ _ _ Hvs Hin) as (w & Hw & Hwin). eapply infix_trans; [apply (IH _ Hw)|].
    now apply sentence_vals_infix.
  - rewrite eval_toplevel in Hv. apply tbind_ok in Hv as (vs & Hvs & Hv). inversion Hv; subst.
    destruct (evals_in _ _ _ _ Hvs Hin) as (w & Hw & Hwin). eapply infix_trans; [apply (IH _ Hw)|].
    apply chars_infix. now apply join_vals_infix.
  - rewrite eval_tag in Hv. apply tbind_ok in Hv as (g & Hg & Hv). inversion Hv; subst.
    destruct (text_of_in _ _ _ _ Hg Hin) as (w & Hw & Hwin). eapply infix_trans; [apply (IH _ Hw)|].
    cbn [vflat]. rewrite chars_push. now apply chars_infix.
  - rewrite eval_href_some in Hv. apply tbind_ok in Hv as (uv & Huv & Hv). destruct uv; [|discriminate].
    apply tbind_ok in Hv as (g & Hg & Hv). inversion Hv; subst.
    destruct (text_of_in _ _ _ _ Hg Hin) as (w & Hw & Hwin). eapply infix_trans; [apply (IH _ Hw)|].
    cbn [vflat]. rewrite chars_push. now apply chars_infix.
  - rewrite eval_optional in Hv. rewrite Hg in Hv. cbn in Hv. inversion Hv; subst.
    destruct (text_of_in _ _ _ _ Hg Hin) as (w & Hw & Hwin). eapply infix_trans; [apply (IH _ Hw)|].
    now apply chars_infix.
  - rewrite eval_firstof in Hv. rewrite (first_eval_chosen _ _ _ _ _ Hpre Hv0 Ht0) in Hv. inversion Hv; subst.
    now apply IH.
  - rewrite eval_namepart in Hv. apply tbind_ok in Hv as (vs & Hvs & Hv). inversion Hv; subst.
    destruct (evals_in _ _ _ _ Hvs Hin) as (w & Hw & Hwin). eapply infix_trans; [apply (IH _ Hw)|].
    apply chars_infix. now apply name_part_vals_infix.
Qed.

(* what a field leaf evaluates to: the stored value (found in the entry or along crossref), parsed
   unless raw, with the apply function on top *)
Lemma eval_field_spec c n a raw g :
  eval_field c n a raw = TOk (VT g) ->
  exists v f,
    find_field (ff_fuel (c_db c)) (c_db c) (c_entry c) n [] = Some (Some v) /\
    (if raw then f = plain v else from_latex (c_dec c) v = TOk f) /\
    apply_afunc a f = TOk g.
Proof.
  unfold eval_field. destruct (find_field _ _ _ _ _) as [[v|]|]; try discriminate.
  intros H. apply tbind_ok in H as (f & Hf & H). exists v, f. split; [reflexivity|]. split.
  - destruct raw; [now inversion Hf | exact Hf].
  - destruct a; cbn in *; try (inversion H; reflexivity);
      try (destruct raw; [discriminate|]; cbn in H; inversion H; reflexivity).
Qed.

(* Text.from_latex keeps every character of the decoded value except the braces, in order *)
Definition not_brace (ch : char) : bool := negb (N.eqb ch c_lbrace || N.eqb ch c_rbrace).
Lemma parse_latex_chars s level f :
  parse_latex s level = TOk f -> map fst f = map ACh (filter not_brace s).
Proof.
  revert level f; induction s as [|ch t IH]; intros level f H; cbn [parse_latex] in H.
  - destruct level; inversion H. reflexivity.
  - cbn [filter]. unfold not_brace at 1. destruct (N.eqb ch c_lbrace) eqn:E1; cbn [orb negb].
    + eapply IH; eauto.
    + destruct (N.eqb ch c_rbrace) eqn:E2; cbn [orb negb].
      * destruct level; [discriminate|]. eapply IH; eauto.
      * apply tbind_ok in H as (r & Hr & H). inversion H; subst. cbn [map fst]. f_equal. eapply IH; eauto.
Qed.

Lemma eval_emits_leaves_stmt c t f v : live c t f -> eval c t = TOk v -> infix (chars f) (chars (vflat v)).
Proof. intros Hl Hv. eapply eval_emits_leaves_lemma; eauto. Qed.

Lemma dashify_spec_lemma f :
  nodash (f_dashify f) = nodash f /\ Forall (fun p => is_dash p = false) (f_dashify f).
Proof. exact (conj (dashify_nodash f false) (dashify_no_dash f false)). Qed.
