(* Proofs/RichObs.v -- contains / startswith / endswith (property C08): sound, exact when the
   needle lies inside one part, refuted across part boundaries (finding F17). *)
From Pybtex Require Import Base.Prelude Base.PyChar Base.PyStr Model.RtTypes Model.RichText
  Spec.Flat Spec.FlatOps Proofs.RichText.

Lemma startswith_iff s p : startswith s p = true <-> prefix_of p s.
Proof.
  revert s; induction p as [|x p IH]; intros s; cbn.
  - split; [intros _; now exists s|intros _; destruct s; reflexivity].
  - destruct s as [|y s]; cbn.
    + split; [discriminate|intros [b H]; discriminate].
    + split.
      * intro H. apply andb_prop in H as [H1 H2]. apply N.eqb_eq in H1. subst.
        apply IH in H2 as [b ->]. now exists b.
      * intros [b H]. inversion H; subst. rewrite N.eqb_refl. cbn. apply IH. now exists b.
Qed.

Lemma substr_iff p : forall f s, length s <= f -> (substr f s p = true <-> occurs p s).
Proof.
  induction f as [|f IH]; intros s Hl.
  - destruct s; [|cbn in Hl; lia]. cbn [substr]. rewrite orb_false_r. split.
    + intro H. apply startswith_iff in H as [b H]. exists [], b. exact H.
    + intros [a [b H]]. destruct a; [|discriminate]. destruct p; [reflexivity|discriminate H].
  - cbn [substr]. split.
    + intro H. apply orb_prop in H as [H|H].
      * apply startswith_iff in H as [b H]. exists [], b. exact H.
      * destruct s as [|c t]; [discriminate|]. apply IH in H; [|cbn in Hl; lia].
        destruct H as [a [b ->]]. exists (c :: a), b. reflexivity.
    + intros [a [b H]]. destruct a as [|c a].
      * apply orb_true_intro. left. apply startswith_iff. exists b. exact H.
      * apply orb_true_intro. right. subst s. apply IH; [cbn in Hl; rewrite !app_length in *; cbn in Hl; lia|].
        now exists a, b.
Qed.
Lemma str_contains_iff s p : str_contains s p = true <-> occurs p s.
Proof. apply substr_iff. lia. Qed.

(* ---- atoms of renderings ---- *)
Lemma atoms_push m f : atoms (map (push m) f) = atoms f.
Proof. unfold atoms. rewrite map_map. reflexivity. Qed.
Lemma atoms_app a b : atoms (a ++ b) = atoms a ++ atoms b.
Proof. apply map_app. Qed.
Lemma atoms_str s : atoms (flat (RStr s)) = map ACh s.
Proof. unfold atoms. cbn [flat]. rewrite map_map. reflexivity. Qed.

Definition inner (t : rt) : flat_text := concat (map flat (parts_of t)).
Lemma atoms_multi t : is_multipart t = true -> atoms (flat t) = atoms (inner t).
Proof. destruct t; cbn [is_multipart]; try discriminate; intros _; cbn [flat]; rewrite ?atoms_push; reflexivity. Qed.

Lemma occurs_app_l {X} (n a b : list X) : occurs n a -> occurs n (a ++ b).
Proof. intros [x [y ->]]. exists x, (y ++ b). now rewrite <- !app_assoc. Qed.
Lemma occurs_app_r {X} (n a b : list X) : occurs n b -> occurs n (a ++ b).
Proof. intros [x [y ->]]. exists (a ++ x), y. now rewrite <- !app_assoc. Qed.

(* a String leaf occurs, as a block of characters, in the rendering *)
Lemma leaf_occurs t : forall s, In s (leaves t) -> occurs (map ACh s) (atoms (flat t)).
Proof.
  induction t using rt_ind'; intros s0 Hin; cbn [leaves] in Hin.
  - destruct Hin as [<-|[]]. rewrite atoms_str. exists [], []. now rewrite app_nil_r.
  - destruct Hin.
  - rewrite (atoms_multi (RText ps) eq_refl). unfold inner; cbn [parts_of].
    induction H as [|p ps Hp _ IH]; cbn in Hin |- *; [destruct Hin|].
    rewrite atoms_app. apply in_app_or in Hin as [Hin|Hin]; [apply occurs_app_l, Hp, Hin|apply occurs_app_r, IH, Hin].
  - rewrite (atoms_multi (RTag n ps) eq_refl). unfold inner; cbn [parts_of].
    induction H as [|p ps Hp _ IH]; cbn in Hin |- *; [destruct Hin|].
    rewrite atoms_app. apply in_app_or in Hin as [Hin|Hin]; [apply occurs_app_l, Hp, Hin|apply occurs_app_r, IH, Hin].
  - rewrite (atoms_multi (RHRef u e ps) eq_refl). unfold inner; cbn [parts_of].
    induction H as [|p ps Hp _ IH]; cbn in Hin |- *; [destruct Hin|].
    rewrite atoms_app. apply in_app_or in Hin as [Hin|Hin]; [apply occurs_app_l, Hp, Hin|apply occurs_app_r, IH, Hin].
  - rewrite (atoms_multi (RProt ps) eq_refl). unfold inner; cbn [parts_of].
    induction H as [|p ps Hp _ IH]; cbn in Hin |- *; [destruct Hin|].
    rewrite atoms_app. apply in_app_or in Hin as [Hin|Hin]; [apply occurs_app_l, Hp, Hin|apply occurs_app_r, IH, Hin].
Qed.

(* ---- contains: exactly "the needle lies inside one String part" ---- *)
Lemma contains_parts p ps :
  Forall (fun t => rcontains t p = true <-> (p = [] /\ is_multipart t = true) \/ (exists s, In s (leaves t) /\ occurs p s)) ps ->
  p <> [] ->
  (existsb (fun q => rcontains q p) ps = true <-> exists s, In s (flat_map leaves ps) /\ occurs p s).
Proof.
  intros H Hp. induction H as [|t ps Ht _ IH]; cbn.
  - split; [discriminate|intros [s [[] _]]].
  - rewrite orb_true_iff, Ht, IH. split.
    + intros [[[E _]|[s [Hin Ho]]]|[s [Hin Ho]]]; [contradiction| |]; exists s; (split; [apply in_or_app; auto|exact Ho]).
    + intros [s [Hin Ho]]. apply in_app_or in Hin as [Hin|Hin]; [left; right|right]; exists s; auto.
Qed.

Theorem contains_exact_lem t p :
  rcontains t p = true <-> (p = [] /\ is_multipart t = true) \/ (exists s, In s (leaves t) /\ occurs p s).
Proof.
  induction t using rt_ind'; cbn [rcontains leaves is_multipart].
  - rewrite str_contains_iff. split.
    + intro H. right. exists s. split; [now left|exact H].
    + intros [[_ H]|[s' [[<-|[]] H]]]; [discriminate|exact H].
  - split; [discriminate|]. intros [[_ H]|[s [[] _]]]; discriminate.
  - destruct p as [|c p]; [split; [intros _; left; auto|reflexivity]|].
    rewrite (contains_parts (c :: p) ps H ltac:(discriminate)). split; [intro; right; assumption|intros [[E _]|E]; [discriminate|exact E]].
  - destruct p as [|c p]; [split; [intros _; left; auto|reflexivity]|].
    rewrite (contains_parts (c :: p) ps H ltac:(discriminate)). split; [intro; right; assumption|intros [[E _]|E]; [discriminate|exact E]].
  - destruct p as [|c p]; [split; [intros _; left; auto|reflexivity]|].
    rewrite (contains_parts (c :: p) ps H ltac:(discriminate)). split; [intro; right; assumption|intros [[E _]|E]; [discriminate|exact E]].
  - destruct p as [|c p]; [split; [intros _; left; auto|reflexivity]|].
    rewrite (contains_parts (c :: p) ps H ltac:(discriminate)). split; [intro; right; assumption|intros [[E _]|E]; [discriminate|exact E]].
Qed.

Lemma occurs_map {X Y} (g : X -> Y) n h : occurs n h -> occurs (map g n) (map g h).
Proof. intros [a [b ->]]. exists (map g a), (map g b). now rewrite !map_app. Qed.
Lemma occurs_trans {X} (a b c : list X) : occurs a b -> occurs b c -> occurs a c.
Proof.
  intros [x [y ->]] [u [v ->]]. exists (u ++ x), (y ++ v). now rewrite <- !app_assoc.
Qed.

(* never a false positive: what is found is really there, as characters of the rendering *)
Theorem contains_sound_lem t p : rcontains t p = true -> occurs (map ACh p) (atoms (flat t)).
Proof.
  intro H. apply contains_exact_lem in H as [[-> _]|[s [Hin Ho]]].
  - exists [], (atoms (flat t)). reflexivity.
  - eapply occurs_trans; [apply occurs_map, Ho|apply leaf_occurs, Hin].
Qed.

(* across a part boundary the characters are there but not found (F17) *)
Lemma contains_complete_refuted : exists t p, occurs (map ACh p) (atoms (flat t)) /\ rcontains t p = false.
Proof.
  exists (RText [RStr [97; 98; 99]%N; RTag [101; 109]%N [RStr [100; 101; 102]%N]]), [99; 100]%N.
  split; [|reflexivity]. exists [ACh 97; ACh 98]%N, [ACh 101; ACh 102]%N. reflexivity.
Qed.

(* ---- startswith / endswith: only the first / last String leaf is looked at ---- *)
Theorem startswith_exact_lem t ps :
  rstartswith t ps = match first_leaf t with Some s => existsb (startswith s) ps | None => false end.
Proof.
  induction t using rt_ind'; cbn [rstartswith first_leaf]; try reflexivity;
    (destruct ps0 as [|q qs]; [reflexivity|inversion H; assumption]).
Qed.

Lemma first_leaf_prefix t : forall s, first_leaf t = Some s -> prefix_of (map ACh s) (atoms (flat t)).
Proof.
  induction t using rt_ind'; intros s0 E; cbn [first_leaf] in E; try discriminate.
  - inversion E; subst. rewrite atoms_str. exists []. now rewrite app_nil_r.
  - destruct ps as [|q qs]; [discriminate|]. inversion H as [|? ? Hq _]; subst.
    rewrite (atoms_multi (RText (q :: qs)) eq_refl). unfold inner; cbn [parts_of map concat]. rewrite atoms_app.
    destruct (Hq _ E) as [b ->]. exists (b ++ atoms (concat (map flat qs))). now rewrite app_assoc.
  - destruct ps as [|q qs]; [discriminate|]. inversion H as [|? ? Hq _]; subst.
    rewrite (atoms_multi (RTag n (q :: qs)) eq_refl). unfold inner; cbn [parts_of map concat]. rewrite atoms_app.
    destruct (Hq _ E) as [b ->]. exists (b ++ atoms (concat (map flat qs))). now rewrite app_assoc.
  - destruct ps as [|q qs]; [discriminate|]. inversion H as [|? ? Hq _]; subst.
    rewrite (atoms_multi (RHRef u e (q :: qs)) eq_refl). unfold inner; cbn [parts_of map concat]. rewrite atoms_app.
    destruct (Hq _ E) as [b ->]. exists (b ++ atoms (concat (map flat qs))). now rewrite app_assoc.
  - destruct ps as [|q qs]; [discriminate|]. inversion H as [|? ? Hq _]; subst.
    rewrite (atoms_multi (RProt (q :: qs)) eq_refl). unfold inner; cbn [parts_of map concat]. rewrite atoms_app.
    destruct (Hq _ E) as [b ->]. exists (b ++ atoms (concat (map flat qs))). now rewrite app_assoc.
Qed.

Theorem startswith_sound_lem t ps : rstartswith t ps = true ->
  exists p, In p ps /\ prefix_of (map ACh p) (atoms (flat t)).
Proof.
  rewrite startswith_exact_lem. destruct (first_leaf t) as [s|] eqn:E; [|discriminate].
  intro H. apply existsb_exists in H as [p [Hin Hp]]. exists p. split; [exact Hin|].
  apply startswith_iff in Hp as [b ->]. destruct (first_leaf_prefix t _ E) as [c Hc].
  exists (map ACh b ++ c). rewrite Hc, map_app, <- app_assoc. reflexivity.
Qed.

Lemma startswith_complete_refuted : exists t p, prefix_of (map ACh p) (atoms (flat t)) /\ rstartswith t [p] = false.
Proof.
  exists (RText [RTag [101; 109]%N [RStr [76; 111]%N]; RStr [99; 97; 116]%N]), [76; 111; 99]%N.
  split; [|reflexivity]. exists [ACh 97; ACh 116]%N. reflexivity.
Qed.

Theorem endswith_exact_lem t ps :
  rendswith t ps = match last_leaf t with Some s => existsb (fun p => startswith (rev s) (rev p)) ps | None => false end.
Proof.
  induction t using rt_ind'; cbn [rendswith last_leaf]; try reflexivity;
    (induction H as [|q qs Hq _ IH]; [reflexivity|]; destruct qs as [|q' qs']; [exact Hq|exact IH]).
Qed.

Lemma suffix_app {X} (p a b : list X) : suffix_of p b -> suffix_of p (a ++ b).
Proof. intros [x ->]. exists (a ++ x). now rewrite app_assoc. Qed.

Lemma last_leaf_suffix t : forall s, last_leaf t = Some s -> suffix_of (map ACh s) (atoms (flat t)).
Proof.
  induction t using rt_ind'; intros s0 E; cbn [last_leaf] in E; try discriminate.
  - inversion E; subst. rewrite atoms_str. now exists [].
  - rewrite (atoms_multi (RText ps) eq_refl). unfold inner; cbn [parts_of].
    induction H as [|q qs Hq _ IH]; [discriminate|]. cbn [map concat]. rewrite atoms_app.
    destruct qs as [|q' qs']; [cbn; rewrite app_nil_r; now apply Hq|apply suffix_app, IH, E].
  - rewrite (atoms_multi (RTag n ps) eq_refl). unfold inner; cbn [parts_of].
    induction H as [|q qs Hq _ IH]; [discriminate|]. cbn [map concat]. rewrite atoms_app.
    destruct qs as [|q' qs']; [cbn; rewrite app_nil_r; now apply Hq|apply suffix_app, IH, E].
  - rewrite (atoms_multi (RHRef u e ps) eq_refl). unfold inner; cbn [parts_of].
    induction H as [|q qs Hq _ IH]; [discriminate|]. cbn [map concat]. rewrite atoms_app.
    destruct qs as [|q' qs']; [cbn; rewrite app_nil_r; now apply Hq|apply suffix_app, IH, E].
  - rewrite (atoms_multi (RProt ps) eq_refl). unfold inner; cbn [parts_of].
    induction H as [|q qs Hq _ IH]; [discriminate|]. cbn [map concat]. rewrite atoms_app.
    destruct qs as [|q' qs']; [cbn; rewrite app_nil_r; now apply Hq|apply suffix_app, IH, E].
Qed.

Theorem endswith_sound_lem t ps : rendswith t ps = true ->
  exists p, In p ps /\ suffix_of (map ACh p) (atoms (flat t)).
Proof.
  rewrite endswith_exact_lem. destruct (last_leaf t) as [s|] eqn:E; [|discriminate].
  intro H. apply existsb_exists in H as [p [Hin Hp]]. exists p. split; [exact Hin|].
  apply startswith_iff in Hp as [b Hb]. assert (Es : s = rev b ++ p).
  { rewrite <- (rev_involutive s), Hb, rev_app_distr, rev_involutive. reflexivity. }
  destruct (last_leaf_suffix t _ E) as [c Hc]. exists (c ++ map ACh (rev b)).
  rewrite Hc, Es, map_app, <- app_assoc. reflexivity.
Qed.

Lemma endswith_complete_refuted : exists t p, suffix_of (map ACh p) (atoms (flat t)) /\ rendswith t [p] = false.
Proof.
  exists (RText [RStr [76; 111]%N; RTag [101; 109]%N [RStr [99; 97; 116]%N]; RStr [33]%N]), [116; 33]%N.
  split; [|reflexivity]. exists [ACh 76; ACh 111; ACh 99; ACh 97]%N. reflexivity.
Qed.

(* ------------------------------------------------------------------------------ *)
(* on a one-String text, however deeply wrapped in Text / Tag / HRef / Protected, the three
   observers are exactly the str operations on the characters of the rendering *)
Lemma chain_atoms t s : chain t s -> atoms (flat t) = map ACh s.
Proof.
  induction 1; [apply atoms_str| | | |];
    (rewrite atoms_multi by reflexivity; unfold inner; cbn [parts_of map concat]; now rewrite app_nil_r).
Qed.

Lemma startswith_nil' s : startswith s [] = true.
Proof. destruct s; reflexivity. Qed.
Lemma str_contains_nil s : str_contains s [] = true.
Proof. unfold str_contains. destruct (length s); cbn [substr]; now rewrite startswith_nil'. Qed.

Lemma chain_contains t s p : chain t s -> rcontains t p = str_contains s p.
Proof.
  induction 1; [reflexivity| | | |]; cbn [rcontains existsb]; rewrite IHchain, orb_false_r;
    (destruct p; [now rewrite str_contains_nil|reflexivity]).
Qed.
Lemma chain_first t s : chain t s -> first_leaf t = Some s.
Proof. induction 1; [reflexivity| | | |]; exact IHchain. Qed.
Lemma chain_last t s : chain t s -> last_leaf t = Some s.
Proof. induction 1; [reflexivity| | | |]; exact IHchain. Qed.

Lemma ACh_inj (a b : str) : map ACh a = map ACh b -> a = b.
Proof.
  revert b; induction a as [|x a IH]; intros [|y b] E; cbn in E; try discriminate; [reflexivity|].
  inversion E; subst. f_equal. now apply IH.
Qed.
Lemma occurs_ACh p s : occurs (map ACh p) (map ACh s) <-> occurs p s.
Proof.
  split; [|apply occurs_map]. intros [a [b E]].
  apply map_eq_app in E as [a' [r [-> [Ea Er]]]]. apply map_eq_app in Er as [p' [b' [-> [Ep Eb]]]].
  apply ACh_inj in Ep. subst p'. now exists a', b'.
Qed.
Lemma prefix_ACh p s : prefix_of (map ACh p) (map ACh s) <-> prefix_of p s.
Proof.
  split.
  - intros [b E]. apply map_eq_app in E as [p' [b' [-> [Ep Eb]]]]. apply ACh_inj in Ep. subst p'. now exists b'.
  - intros [b ->]. exists (map ACh b). apply map_app.
Qed.
Lemma suffix_ACh p s : suffix_of (map ACh p) (map ACh s) <-> suffix_of p s.
Proof.
  split.
  - intros [a E]. apply map_eq_app in E as [a' [p' [-> [Ea Ep]]]]. apply ACh_inj in Ep. subst p'. now exists a'.
  - intros [a ->]. exists (map ACh a). apply map_app.
Qed.

Theorem contains_chain_lem t s p : chain t s ->
  (rcontains t p = true <-> occurs (map ACh p) (atoms (flat t))).
Proof. intro C. now rewrite (chain_contains t s p C), (chain_atoms t s C), str_contains_iff, occurs_ACh. Qed.

Theorem startswith_chain_lem t s ps : chain t s ->
  (rstartswith t ps = true <-> exists p, In p ps /\ prefix_of (map ACh p) (atoms (flat t))).
Proof.
  intro C. rewrite startswith_exact_lem, (chain_first t s C), (chain_atoms t s C), existsb_exists.
  split; intros [p [Hin H]]; exists p; (split; [exact Hin|]).
  - apply prefix_ACh. now apply startswith_iff.
  - apply startswith_iff. now apply prefix_ACh.
Qed.

Lemma suffix_rev (p s : str) : startswith (rev s) (rev p) = true <-> suffix_of p s.
Proof.
  rewrite startswith_iff. split.
  - intros [b E]. exists (rev b). rewrite <- (rev_involutive s), E, rev_app_distr, rev_involutive. reflexivity.
  - intros [a ->]. exists (rev a). apply rev_app_distr.
Qed.

Theorem endswith_chain_lem t s ps : chain t s ->
  (rendswith t ps = true <-> exists p, In p ps /\ suffix_of (map ACh p) (atoms (flat t))).
Proof.
  intro C. rewrite endswith_exact_lem, (chain_last t s C), (chain_atoms t s C), existsb_exists.
  split; intros [p [Hin H]]; exists p; (split; [exact Hin|]).
  - apply suffix_ACh. now apply suffix_rev.
  - apply suffix_rev. now apply suffix_ACh.
Qed.
