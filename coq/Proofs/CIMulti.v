(* Proofs/CIMulti.v -- several live containers: independence, and the refinement of Proofs/CIDict.v
   lifted pointwise to the list of containers. *)
From Pybtex Require Import Base.Prelude Model.CIDict Model.CIMulti Spec.CIMap Spec.CIRel Spec.CIMultiSpec Proofs.CIDict Proofs.CISet.

Section Lists.
Context {X Y : Type}.
Lemma nth_upd_neq (l : list X) i j x : j <> i -> nth_error (upd_nth i x l) j = nth_error l j.
Proof.
  revert i j. induction l as [|y l IH]; intros [|i] [|j] N; cbn; try reflexivity; try congruence.
  apply IH. congruence.
Qed.
Lemma nth_app_neq (l : list X) x j : j <> length l -> nth_error (l ++ [x]) j = nth_error l j.
Proof.
  revert j. induction l as [|y l IH]; intros [|j] N; cbn in *; try reflexivity; try congruence.
  - destruct j; reflexivity.
  - apply IH. congruence.
Qed.
Lemma F2_nth (P : X -> Y -> Prop) l l' i a : Forall2 P l l' -> nth_error l i = Some a ->
  exists b, nth_error l' i = Some b /\ P a b.
Proof.
  intros F. revert i. induction F as [|x y l l' H F IH]; intros [|i] E; cbn in *; try discriminate.
  - injection E as <-. eauto.
  - apply IH. exact E.
Qed.
Lemma F2_nth_none (P : X -> Y -> Prop) l l' i : Forall2 P l l' -> nth_error l i = None -> nth_error l' i = None.
Proof.
  intros F. revert i. induction F as [|x y l l' H F IH]; intros [|i] E; cbn in *; try discriminate; auto.
Qed.
Lemma F2_upd (P : X -> Y -> Prop) l l' i a b : Forall2 P l l' -> P a b -> Forall2 P (upd_nth i a l) (upd_nth i b l').
Proof.
  intros F H. revert i. induction F as [|x y l l' Hxy F IH]; intros [|i]; cbn; constructor; auto.
Qed.
Lemma F2_snoc (P : X -> Y -> Prop) l l' a b : Forall2 P l l' -> P a b -> Forall2 P (l ++ [a]) (l' ++ [b]).
Proof. intros F H. apply Forall2_app; [exact F | constructor; [exact H | constructor]]. Qed.
End Lists.

Section P.
Variables K V : Type.
Variable keqb : K -> K -> bool.
Variable lower : K -> K.
Hypothesis keqb_spec : forall a b, reflect (a = b) (keqb a b).
Hypothesis lower_idem : forall k, lower (lower k) = lower k.

Local Notation mstep := (mstep K V keqb lower).
Local Notation mspec_step := (mspec_step K V keqb lower).
Local Notation mrel := (mrel K V lower).

(* INDEPENDENCE: an operation changes at most the container it names (an appending operation: only the new
   slot); every other live container is the same value afterwards -- a fortiori its abstraction. *)
Theorem containers_independent st m j : j <> mtarget K V (length st) m ->
  nth_error (fst (mstep st m)) j = nth_error st j.
Proof.
  intros N. destruct m as [i o|i|i cl|i cl|i k|cl pairs|d0]; cbn in *.
  - destruct (nth_error st i) as [c|]; [|reflexivity]. destruct (step K V keqb lower c o). cbn. apply nth_upd_neq. exact N.
  - destruct (nth_error st i) as [c|]; [|reflexivity]. destruct (ci_lower K V keqb lower c); cbn; [apply nth_app_neq; exact N | reflexivity].
  - destruct (nth_error st i) as [c|]; [|reflexivity]. destruct (ci_items K V keqb lower c); cbn; [apply nth_app_neq; exact N | reflexivity].
  - destruct (nth_error st i) as [c|]; [|reflexivity]. destruct (ci_items K V keqb lower c); cbn; [apply nth_app_neq; exact N | reflexivity].
  - destruct (nth_error st i) as [c|]; [|reflexivity]. destruct (nth_error st k) as [c'|]; [|reflexivity].
    destruct (ci_items K V keqb lower c'); cbn; [apply nth_upd_neq; exact N | reflexivity].
  - apply nth_app_neq. exact N.
  - apply nth_app_neq. exact N.
Qed.
Corollary containers_independent_abs st m j : j <> mtarget K V (length st) m ->
  option_map (abs K V) (nth_error (fst (mstep st m)) j) = option_map (abs K V) (nth_error st j).
Proof. intros N. rewrite containers_independent; auto. Qed.

Theorem containers_independent_full st m j : j <> mtarget K V (length st) m ->
  nth_error (fst (mstep st m)) j = nth_error st j /\
  option_map (abs K V) (nth_error (fst (mstep st m)) j) = option_map (abs K V) (nth_error st j).
Proof. intros N. split; [apply containers_independent | apply containers_independent_abs]; exact N. Qed.

(* one step, all containers *)
Lemma mstep_refines st sp m : mrel st sp -> mop_wf K V m = true ->
  mrel (fst (mstep st m)) (fst (mspec_step sp m)) /\ snd (mstep st m) = snd (mspec_step sp m).
Proof.
  intros R WF. destruct m as [i o|i|i cl|i cl|i j|cl pairs|d0]; cbn [CIMulti.mstep CIMultiSpec.mspec_step].
  - destruct (nth_error st i) as [c|] eqn:E.
    + destruct (F2_nth _ _ _ _ _ R E) as ([d mm] & E' & I & C & A). rewrite E'. cbn in C, A. subst mm.
      destruct (step_refines K V keqb lower keqb_spec lower_idem c o d I C) as (S1 & I' & C').
      rewrite S1. destruct (step K V keqb lower c o) as [c' r]. cbn in *. split; [|reflexivity].
      apply F2_upd; [exact R | cbn; auto].
    + rewrite (F2_nth_none _ _ _ _ R E). auto.
  - destruct (nth_error st i) as [c|] eqn:E.
    + destruct (F2_nth _ _ _ _ _ R E) as ([d mm] & E' & I & C & A). rewrite E'. cbn in C, A. subst mm.
      destruct (Proofs.CIDict.lower_abs K V keqb lower keqb_spec lower_idem c d I C) as (c' & L & A' & I' & C'). rewrite L. cbn.
      split; [|reflexivity]. apply F2_snoc; [exact R | cbn; auto].
    + rewrite (F2_nth_none _ _ _ _ R E). auto.
  - destruct (nth_error st i) as [c|] eqn:E.
    + destruct (F2_nth _ _ _ _ _ R E) as ([d mm] & E' & I & C & A). rewrite E'. cbn in C, A. subst mm.
      rewrite (items_abs K V keqb lower keqb_spec c d I C). cbn. split; [|reflexivity].
      apply F2_snoc; [exact R|]. cbn.
      destruct (init_abs K V keqb lower keqb_spec cl (sm_items K V (abs K V c))) as [A' I'].
      split; [exact I'|]. split; [apply init_cls_ok; [exact keqb_spec | destruct cl; cbn in WF; congruence]|].
      rewrite A'. apply copy_identity; [exact keqb_spec | apply I].
    + rewrite (F2_nth_none _ _ _ _ R E). auto.
  - destruct (nth_error st i) as [c|] eqn:E.
    + destruct (F2_nth _ _ _ _ _ R E) as ([d mm] & E' & I & C & A). rewrite E'. cbn in C, A. subst mm.
      rewrite (items_abs K V keqb lower keqb_spec c d I C). cbn. split; [|reflexivity].
      apply F2_snoc; [exact R|]. cbn.
      destruct (init_abs K V keqb lower keqb_spec cl (sm_items K V (abs K V c))) as [A' I'].
      split; [exact I'|]. split; [apply init_cls_ok; [exact keqb_spec | destruct cl; cbn in WF; congruence]|].
      rewrite A'. apply copy_identity; [exact keqb_spec | apply I].
    + rewrite (F2_nth_none _ _ _ _ R E). auto.
  - destruct (nth_error st i) as [ci|] eqn:Ei.
    + destruct (F2_nth _ _ _ _ _ R Ei) as ([d mi] & Ei' & Ii & Ci & Ai). rewrite Ei'. cbn in Ci, Ai. subst mi.
      destruct (nth_error st j) as [cj|] eqn:Ej.
      * destruct (F2_nth _ _ _ _ _ R Ej) as ([d' mj] & Ej' & Ij & Cj & Aj). rewrite Ej'. cbn in Cj, Aj. subst mj.
        rewrite (items_abs K V keqb lower keqb_spec cj d' Ij Cj). cbn. split; [|reflexivity].
        destruct (update_abs K V keqb lower keqb_spec (sm_items K V (abs K V cj)) ci Ii) as (A' & I' & SK).
        apply F2_upd; [exact R|]. cbn. split; [exact I'|]. split; [exact (cls_ok_same K V _ _ _ SK Ci) | exact A'].
      * rewrite (F2_nth_none _ _ _ _ R Ej). auto.
    + rewrite (F2_nth_none _ _ _ _ R Ei). destruct (nth_error st j); auto.
  - cbn. split; [|reflexivity]. apply F2_snoc; [exact R|]. cbn.
    destruct (init_abs K V keqb lower keqb_spec cl pairs) as [A' I'].
    split; [exact I'|]. split; [apply init_cls_ok; [exact keqb_spec | destruct cl; cbn in WF; congruence] | exact A'].
  - cbn. split; [|reflexivity]. apply F2_snoc; [exact R|]. cbn.
    split; [apply Proofs.CIDict.empty_inv|]. split; reflexivity.
Qed.

Lemma mobserve_refines probes st sp : mrel st sp ->
  map (observe K V keqb lower probes) st = map (fun dm => spec_observe K V keqb lower (fst dm) probes (snd dm)) sp.
Proof.
  induction 1 as [|c [d mm] st sp (I & C & A) F IH]; cbn; [reflexivity|]. cbn in C, A. subst mm.
  rewrite (observe_abs K V keqb lower keqb_spec c d probes I C), IH. reflexivity.
Qed.

(* the refinement, lifted pointwise: every history over several live containers *)
Theorem mrun_refines_gen probes : forall ops st sp, mrel st sp -> forallb (mop_wf K V) ops = true ->
  mrun K V keqb lower probes st ops = mspec_run K V keqb lower probes sp ops.
Proof.
  induction ops as [|m r IH]; intros st sp R WF; cbn [mrun mspec_run forallb] in *; [reflexivity|].
  apply andb_true_iff in WF. destruct WF as [W1 W2].
  destruct (mstep_refines st sp m R W1) as [R' E].
  destruct (mstep st m) as [st' x]. destruct (mspec_step sp m) as [sp' x']. cbn in *. subst x'.
  rewrite (mobserve_refines probes st' sp' R'), (IH st' sp' R' W2). reflexivity.
Qed.
Theorem multi_run_refines probes ops : forallb (mop_wf K V) ops = true ->
  mrun K V keqb lower probes [] ops = mspec_run K V keqb lower probes [] ops.
Proof. apply mrun_refines_gen. constructor. Qed.

End P.

Section PS.
Variable K : Type.
Variable keqb : K -> K -> bool.
Variable lower : K -> K.
Variable ksort : list K -> list K.
Hypothesis keqb_spec : forall a b, reflect (a = b) (keqb a b).
Hypothesis lower_idem : forall k, lower (lower k) = lower k.

Local Notation smstep := (smstep K keqb lower).
Local Notation smspec_step := (smspec_step K keqb lower).
Local Notation smrel := (smrel K lower).

(* INDEPENDENCE for sets: an operation changes at most the set it names / the new slot *)
Theorem sets_independent st m st' r j : smstep st m = Some (st', r) -> j <> smtarget K (length st) m ->
  nth_error st' j = nth_error st j.
Proof.
  intros E N. destruct m as [i o|i|i|i k|i k|l]; cbn in *.
  - destruct (nth_error st i) as [s|]; [|discriminate]. destruct (sstep K keqb lower s o) as [[s' x]|]; [|discriminate].
    injection E as <- _. apply nth_upd_neq. exact N.
  - destruct (nth_error st i) as [s|]; [|discriminate]. injection E as <- _. apply nth_app_neq. exact N.
  - destruct (nth_error st i) as [s|]; [|discriminate]. injection E as <- _. apply nth_app_neq. exact N.
  - destruct (nth_error st i) as [s|]; [|discriminate]. destruct (nth_error st k) as [s'|]; [|discriminate].
    injection E as <- _. apply nth_upd_neq. exact N.
  - destruct (nth_error st i) as [s|]; [|discriminate]. destruct (nth_error st k) as [s'|]; [|discriminate].
    injection E as <- _. apply nth_upd_neq. exact N.
  - injection E as <- _. apply nth_app_neq. exact N.
Qed.

Lemma smstep_refines st sp m : smrel st sp ->
  match smstep st m, smspec_step sp m with
  | Some (st', r), Some (sp', r') => smrel st' sp' /\ r = r'
  | None, None => True
  | _, _ => False
  end.
Proof.
  intros R. unfold CIMultiSpec.smrel in R. destruct m as [i o|i|i|i j|i j|l]; cbn [CIMulti.smstep CIMultiSpec.smspec_step]; unfold sset in *.
  - destruct (nth_error st i) as [s|] eqn:E.
    + destruct (F2_nth _ _ _ _ _ R E) as (mm & E' & I & A). rewrite E'. subst mm.
      pose proof (set_step_refines K keqb lower keqb_spec lower_idem s o I) as H.
      destruct (sstep K keqb lower s o) as [[s' x]|]; destruct (sspec_step K keqb lower (s_keys K s) o) as [[m' x']|]; try contradiction; auto.
      destruct H as (-> & -> & I'). split; [|reflexivity]. apply F2_upd; [exact R | auto].
    + rewrite (F2_nth_none _ _ _ _ R E). exact Logic.I.
  - destruct (nth_error st i) as [s|] eqn:E.
    + destruct (F2_nth _ _ _ _ _ R E) as (mm & E' & I & A). rewrite E'. subst mm.
      destruct (Proofs.CISet.lower_abs K keqb lower keqb_spec lower_idem s I) as [A' I'].
      split; [|reflexivity]. apply F2_snoc; [exact R | auto].
    + rewrite (F2_nth_none _ _ _ _ R E). exact Logic.I.
  - destruct (nth_error st i) as [s|] eqn:E.
    + destruct (F2_nth _ _ _ _ _ R E) as (mm & E' & I & A). rewrite E'. subst mm.
      destruct (Proofs.CISet.lower_abs K keqb lower keqb_spec lower_idem s I) as [A' I'].
      split; [|reflexivity]. apply F2_snoc; [exact R | auto].
    + rewrite (F2_nth_none _ _ _ _ R E). exact Logic.I.
  - destruct (nth_error st i) as [si|] eqn:Ei.
    + destruct (F2_nth _ _ _ _ _ R Ei) as (mi & Ei' & Ii & Ai). rewrite Ei'. subst mi.
      destruct (nth_error st j) as [sj|] eqn:Ej.
      * destruct (F2_nth _ _ _ _ _ R Ej) as (mj & Ej' & Ij & Aj). rewrite Ej'. subst mj.
        split; [|reflexivity]. apply F2_upd; [exact R|].
        destruct (fold_add_inv K keqb lower keqb_spec (cs_iter K sj) si Ii) as [I' A'].
        split; [exact I'|]. unfold cs_ior. rewrite A'. unfold cs_iter. destruct Ij as (Es & _). rewrite Es. reflexivity.
      * rewrite (F2_nth_none _ _ _ _ R Ej). exact Logic.I.
    + rewrite (F2_nth_none _ _ _ _ R Ei). destruct (nth_error st j); exact Logic.I.
  - destruct (nth_error st i) as [si|] eqn:Ei.
    + destruct (F2_nth _ _ _ _ _ R Ei) as (mi & Ei' & Ii & Ai). rewrite Ei'. subst mi.
      destruct (nth_error st j) as [sj|] eqn:Ej.
      * destruct (F2_nth _ _ _ _ _ R Ej) as (mj & Ej' & Ij & Aj). rewrite Ej'. subst mj.
        split; [|reflexivity]. apply F2_upd; [exact R|].
        destruct (fold_discard_inv K keqb lower (cs_iter K sj) si Ii) as [I' A'].
        split; [exact I'|]. unfold cs_isub. rewrite A'. unfold cs_iter. destruct Ij as (Es & _). rewrite Es. reflexivity.
      * rewrite (F2_nth_none _ _ _ _ R Ej). exact Logic.I.
    + rewrite (F2_nth_none _ _ _ _ R Ei). destruct (nth_error st j); exact Logic.I.
  - split; [|reflexivity]. apply F2_snoc; [exact R|].
    destruct (fold_add_inv K keqb lower keqb_spec l (mkcis K [] []) (Proofs.CISet.empty_inv K lower)) as [I' A'].
    split; [exact I' | exact A'].
Qed.

(* every history over several live sets: results and final reference maps agree; impossible histories coincide *)
Theorem multiset_run_refines probes : forall ops st sp, smrel st sp ->
  match smspec_run K keqb lower sp ops with
  | Some (xs, spf) =>
    exists rs stf, smrun K keqb lower ksort probes st ops = Some rs /\ map fst rs = xs /\
                   smrun_state K keqb lower st ops = Some stf /\ smrel stf spf
  | None => smrun K keqb lower ksort probes st ops = None
  end.
Proof.
  induction ops as [|m r IH]; intros st sp R; cbn [smspec_run smrun smrun_state].
  - exists [], st. auto.
  - pose proof (smstep_refines st sp m R) as H.
    destruct (smstep st m) as [[st' x]|]; destruct (smspec_step sp m) as [[sp' x']|]; try contradiction; [|reflexivity].
    destruct H as [R' ->]. specialize (IH st' sp' R').
    destruct (smspec_run K keqb lower sp' r) as [[xs spf]|].
    + destruct IH as (rs & stf & H1 & H2 & H3 & H4). rewrite H1.
      exists ((x', map (sobserve K keqb lower ksort probes) st') :: rs), stf. cbn. rewrite H2. auto.
    + rewrite IH. reflexivity.
Qed.
Theorem multiset_run_refines_empty probes ops :
  match smspec_run K keqb lower [] ops with
  | Some (xs, spf) =>
    exists rs stf, smrun K keqb lower ksort probes [] ops = Some rs /\ map fst rs = xs /\
                   smrun_state K keqb lower [] ops = Some stf /\ smrel stf spf
  | None => smrun K keqb lower ksort probes [] ops = None
  end.
Proof. apply (multiset_run_refines probes ops [] []). constructor. Qed.
End PS.
