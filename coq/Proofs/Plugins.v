(* Proofs/Plugins.v -- the registry of Model/Plugins.v: what is registered is found, nothing is
   replaced unless forced (for all states and all histories of calls), run-time plug-ins are
   looked up exactly like installed ones. *)
From Pybtex Require Import Base.Prelude Base.PyChar Base.PyStr Model.Plugins.

(* ---- str_eqb as an equivalence ---- *)
Lemma str_eqb_eq a b : str_eqb a b = true <-> a = b.
Proof. destruct (str_eqb_spec a b); split; congruence. Qed.
Lemma str_eqb_neq a b : str_eqb a b = false <-> a <> b.
Proof. destruct (str_eqb_spec a b); split; congruence. Qed.
Lemma str_eqb_sym a b : str_eqb a b = str_eqb b a.
Proof.
  destruct (str_eqb_spec a b) as [->|H]; [now rewrite str_eqb_refl|].
  symmetry. apply str_eqb_neq. congruence.
Qed.

(* ---- dict laws ---- *)
Lemma dget_dset_same {V} (d : list (str * V)) k v : dget (dset d k v) k = Some v.
Proof.
  induction d as [|[k' v'] d IH]; cbn.
  - now rewrite str_eqb_refl.
  - destruct (str_eqb k' k) eqn:E; cbn; rewrite E; auto.
Qed.
Lemma dget_dset_other {V} (d : list (str * V)) k v k' : k <> k' -> dget (dset d k v) k' = dget d k'.
Proof.
  intros N. induction d as [|[k0 v0] d IH]; cbn.
  - assert (str_eqb k k' = false) as -> by now apply str_eqb_neq. reflexivity.
  - destruct (str_eqb k0 k) eqn:E; cbn.
    + apply str_eqb_eq in E; subst k0.
      assert (str_eqb k k' = false) as -> by now apply str_eqb_neq. reflexivity.
    + destruct (str_eqb k0 k'); auto.
Qed.

(* the state after a successful registration *)
Definition registered (r : rt) (g n : str) (k : klass) : rt :=
  dset r g (dset (match dget r g with Some d => d | None => [] end) n k).

Lemma rt_lookup_registered_same r g n k : k_is_none k = false -> rt_lookup (registered r g n k) g n = Some k.
Proof.
  intros K. unfold rt_lookup, registered. rewrite dget_dset_same, dget_dset_same, K. reflexivity.
Qed.
Lemma rt_lookup_registered_other r g n k g' n' :
  (g, n) <> (g', n') -> rt_lookup (registered r g n k) g' n' = rt_lookup r g' n'.
Proof.
  intros N. unfold rt_lookup, registered.
  destruct (str_eqb_spec g g') as [->|NG].
  - rewrite dget_dset_same. assert (n <> n') by congruence.
    rewrite dget_dset_other by assumption. destruct (dget r g'); reflexivity.
  - now rewrite dget_dset_other.
Qed.
Lemma lookup1_registered_same r inst g n k : k_is_none k = false -> lookup1 (registered r g n k) inst g n = Some k.
Proof. intros K. unfold lookup1. now rewrite rt_lookup_registered_same. Qed.
Lemma lookup1_registered_other r inst g n k g' n' :
  (g, n) <> (g', n') -> lookup1 (registered r g n k) inst g' n' = lookup1 r inst g' n'.
Proof. intros N. unfold lookup1. now rewrite rt_lookup_registered_other. Qed.

(* what a call of register_plugin can do *)
Lemma register_cases r inst df g n k force o r' :
  register_plugin r inst df g n k force = (o, r') ->
  (r' = r /\ o <> Ok true) \/
  (o = Ok true /\ r' = registered r g n k /\ (force = true \/ already_registered r inst g n = false)
   /\ (exists d, dget df (base_group_of g) = Some d)
   /\ (endswith g s_suffixes = true -> startswith n [c_dot] = true)).
Proof.
  unfold register_plugin. intros H.
  destruct (endswith g s_suffixes && negb (startswith n [c_dot])) eqn:E1.
  { inversion H; subst. left. split; [reflexivity|discriminate]. }
  destruct (dget df (base_group_of g)) as [d|] eqn:E2.
  2:{ inversion H; subst. left. split; [reflexivity|discriminate]. }
  destruct (already_registered r inst g n && negb force) eqn:E3.
  { inversion H; subst. left. split; [reflexivity|discriminate]. }
  inversion H; subst. right. split; [reflexivity|]. split; [reflexivity|]. split.
  - destruct force; [now left|right]. cbn in E3. now rewrite andb_true_r in E3.
  - split; [now exists d|]. intros ES. rewrite ES in E1. cbn in E1. now destruct (startswith n [c_dot]).
Qed.

(* ---- T1: a plug-in registered under a name is found by that name ---- *)
Lemma register_then_find_name r inst df g n k force r' fl d :
  register_plugin r inst df g n k force = (Ok true, r') ->
  dget df g = Some d -> n <> [] -> k_is_none k = false ->
  find_plugin r' inst df g (NStr n) fl = Ok k.
Proof.
  intros H D N K. apply register_cases in H as [[_ C]|(_ & -> & _)]; [congruence|].
  unfold find_plugin. rewrite D. destruct n as [|c n]; [congruence|].
  unfold load_entry_point. now rewrite lookup1_registered_same.
Qed.

Lemma app_neq_self (g s : str) : s <> [] -> g ++ s <> g.
Proof.
  intros N E. assert (L : length (g ++ s) = length g) by now rewrite E.
  rewrite app_length in L. destruct s; [congruence|cbn in L; lia].
Qed.

(* ---- T2: ... under an alias, by the alias (names take precedence over aliases, exactly as
   for installed plug-ins: the hypothesis says no plug-in of that *name* exists) ---- *)
Lemma register_then_find_alias r inst df g n k force r' fl d :
  register_plugin r inst df (g ++ s_aliases) n k force = (Ok true, r') ->
  dget df g = Some d -> n <> [] -> k_is_none k = false ->
  lookup1 r inst g n = None ->
  find_plugin r' inst df g (NStr n) fl = Ok k.
Proof.
  intros H D N K L. apply register_cases in H as [[_ C]|(_ & -> & _)]; [congruence|].
  unfold find_plugin. rewrite D. destruct n as [|c n]; [congruence|].
  unfold load_entry_point.
  rewrite lookup1_registered_other, L.
  - now rewrite lookup1_registered_same.
  - intros E. assert (E1 : g ++ s_aliases = g) by congruence. revert E1. apply app_neq_self. discriminate.
Qed.

(* ---- T3: ... under a suffix, by every file name with that suffix ---- *)
Lemma register_then_find_suffix r inst df g sfx k force r' name fl d :
  register_plugin r inst df (g ++ s_suffixes) sfx k force = (Ok true, r') ->
  dget df g = Some d -> k_is_none k = false ->
  (name = NNone \/ name = NStr []) -> fl <> [] -> snd (splitext fl) = sfx ->
  find_plugin r' inst df g name (Some fl) = Ok k.
Proof.
  intros H D K NM F SX. apply register_cases in H as [[_ C]|(_ & -> & _)]; [congruence|].
  unfold find_plugin. destruct fl as [|c fl]; [congruence|].
  destruct NM as [->| ->]; rewrite D, SX; unfold load_entry_point; now rewrite lookup1_registered_same.
Qed.

(* ---- T4: no silent replacement ---- *)
Lemma no_silent_replace r inst df g n k :
  already_registered r inst g n = true ->
  snd (register_plugin r inst df g n k false) = r /\
  fst (register_plugin r inst df g n k false) <> Ok true.
Proof.
  intros H. unfold register_plugin.
  destruct (endswith g s_suffixes && negb (startswith n [c_dot])); [split; [reflexivity|discriminate]|].
  destruct (dget df (base_group_of g)); [|split; [reflexivity|discriminate]].
  rewrite H. cbn. split; [reflexivity|discriminate].
Qed.
(* ... and when the group is known and the name well-formed the answer is False *)
Lemma no_silent_replace_false r inst df g n k d :
  already_registered r inst g n = true ->
  dget df (base_group_of g) = Some d ->
  (endswith g s_suffixes = true -> startswith n [c_dot] = true) ->
  register_plugin r inst df g n k false = (Ok false, r).
Proof.
  intros H D W. unfold register_plugin.
  destruct (endswith g s_suffixes) eqn:E; cbn.
  - rewrite (W eq_refl). cbn. rewrite D, H. reflexivity.
  - rewrite D, H. reflexivity.
Qed.

Lemma lookup1_already r inst g n k : lookup1 r inst g n = Some k -> already_registered r inst g n = true.
Proof.
  unfold lookup1, rt_lookup, already_registered.
  destruct (dget r g) as [d|]; [destruct (dget d n) as [k0|]|]; cbn; try reflexivity;
    intros H; destruct (ep_lookup inst g n); cbn; try reflexivity; try discriminate; now rewrite ?orb_true_r.
Qed.

(* ---- T5: for all histories: what a (group, name) pair resolves to changes only at a forced
   registration of exactly that pair ---- *)
Definition forces (g n : str) (c : call) : Prop :=
  match c with CReg g' n' _ true => g' = g /\ n' = n | _ => False end.

Lemma step_preserves inst df r c g n k :
  lookup1 r inst g n = Some k -> ~ forces g n c ->
  lookup1 (snd (step inst df r c)) inst g n = Some k.
Proof.
  intros L NF. destruct c as [g' n' k' force|g' nm fl|g']; cbn; try assumption.
  destruct (register_plugin r inst df g' n' k' force) as [o r'] eqn:E. cbn.
  apply register_cases in E as [[-> _]|(_ & -> & FA & _)]; [assumption|].
  destruct (str_eqb_spec g' g) as [->|NG].
  - destruct (str_eqb_spec n' n) as [->|NN].
    + exfalso. destruct FA as [->|A].
      * apply NF. cbn. auto.
      * apply lookup1_already in L. congruence.
    + rewrite lookup1_registered_other by congruence. assumption.
  - rewrite lookup1_registered_other by congruence. assumption.
Qed.

Lemma run_snd_cons inst df r c cs :
  snd (run inst df r (c :: cs)) = snd (run inst df (snd (step inst df r c)) cs).
Proof.
  cbn [run]. destruct (step inst df r c) as [o r'] eqn:E. cbn [snd].
  destruct (run inst df r' cs) as [os r'']. reflexivity.
Qed.

Lemma replaced_only_when_forced inst df cs : forall r g n k,
  lookup1 r inst g n = Some k ->
  Forall (fun c => ~ forces g n c) cs ->
  lookup1 (snd (run inst df r cs)) inst g n = Some k.
Proof.
  induction cs as [|c cs IH]; intros r g n k L F.
  - exact L.
  - rewrite run_snd_cons. inversion F; subst. apply IH; [|assumption].
    now apply step_preserves.
Qed.

(* the same at the level of find_plugin: a name that resolved in its own group keeps resolving
   to the same class through any history without a forced registration of that name *)
Lemma find_by_name_stable inst df cs r g c n k d fl :
  dget df g = Some d -> lookup1 r inst g (c :: n) = Some k ->
  Forall (fun x => ~ forces g (c :: n) x) cs ->
  find_plugin r inst df g (NStr (c :: n)) fl = Ok k /\
  find_plugin (snd (run inst df r cs)) inst df g (NStr (c :: n)) fl = Ok k.
Proof.
  intros D L F. unfold find_plugin, load_entry_point. rewrite D, L.
  now rewrite (replaced_only_when_forced inst df cs r g (c :: n) k L F).
Qed.

(* ---- T6: run-time plug-ins are found exactly like installed ones: a well-formed
   _RUNTIME_PLUGINS (a dict of dicts: no repeated keys, no None values) can be moved in front
   of the installed table without changing any look-up ---- *)
Definition flatten (r : rt) : eps :=
  concat (map (fun gd => map (fun nk => ((fst gd, fst nk), snd nk)) (snd gd)) r).

Fixpoint nodup_keys {V} (d : list (str * V)) : Prop :=
  match d with
  | [] => True
  | (k, _) :: t => dget t k = None /\ nodup_keys t
  end.
Definition wf (r : rt) : Prop :=
  nodup_keys r /\ Forall (fun gd => Forall (fun nk => k_is_none (snd nk) = false) (snd gd)) r.

Lemma ep_lookup_app a b g n :
  ep_lookup (a ++ b) g n = match ep_lookup a g n with Some k => Some k | None => ep_lookup b g n end.
Proof.
  induction a as [|[[g' n'] k] a IH]; cbn; [reflexivity|].
  destruct (str_eqb g' g && str_eqb n' n); auto.
Qed.

Lemma ep_lookup_inner g' (d : list (str * klass)) g n :
  ep_lookup (map (fun nk => ((g', fst nk), snd nk)) d) g n =
  if str_eqb g' g then dget d n else None.
Proof.
  induction d as [|[n' k] d IH]; cbn.
  - now destruct (str_eqb g' g).
  - rewrite IH. destruct (str_eqb g' g); cbn; [|reflexivity]. reflexivity.
Qed.

Lemma ep_lookup_flatten_absent r g n : dget r g = None -> ep_lookup (flatten r) g n = None.
Proof.
  induction r as [|[g' d] r IH]; cbn; [reflexivity|].
  destruct (str_eqb g' g) eqn:E; [discriminate|]. intros H.
  fold (flatten r). rewrite ep_lookup_app, ep_lookup_inner, E. cbn. auto.
Qed.

Lemma dget_no_none (d : list (str * klass)) n k :
  Forall (fun nk => k_is_none (snd nk) = false) d -> dget d n = Some k -> k_is_none k = false.
Proof.
  induction d as [|[n' k'] d IH]; cbn; [discriminate|].
  intros F. inversion F; subst. destruct (str_eqb n' n); [intros [= <-]; assumption|auto].
Qed.

Lemma rt_lookup_flatten r g n : wf r -> rt_lookup r g n = ep_lookup (flatten r) g n.
Proof.
  intros [ND NN]. unfold rt_lookup. induction r as [|[g' d] r IH]; [reflexivity|].
  cbn [dget]. cbn [flatten map concat]. fold (flatten r).
  rewrite ep_lookup_app, ep_lookup_inner. cbn [fst snd]. destruct ND as [A ND]. inversion NN as [|? ? Hd NN']; subst. cbn in Hd.
  destruct (str_eqb g' g) eqn:E.
  - apply str_eqb_eq in E; subst g'.
    destruct (dget d n) as [k|] eqn:Ed.
    + now rewrite (dget_no_none d n k Hd Ed).
    + now rewrite ep_lookup_flatten_absent.
  - apply IH; assumption.
Qed.

Lemma lookup1_flatten r inst g n : wf r -> lookup1 r inst g n = lookup1 [] (flatten r ++ inst) g n.
Proof.
  intros W. unfold lookup1. cbn. rewrite ep_lookup_app, (rt_lookup_flatten r g n W).
  destruct (ep_lookup (flatten r) g n); reflexivity.
Qed.

Lemma runtime_like_installed r inst df g name fl :
  wf r -> find_plugin r inst df g name fl = find_plugin [] (flatten r ++ inst) df g name fl.
Proof.
  intros W. unfold find_plugin, load_entry_point.
  destruct name as [|s|k]; [| |reflexivity];
    destruct (dget df g); try reflexivity;
    repeat match goal with
           | |- context [lookup1 r inst ?a ?b] => rewrite (lookup1_flatten r inst a b W)
           | |- context [match ?x with _ => _ end] => destruct x
           end; reflexivity.
Qed.

(* every state reachable from a well-formed one by API calls that register classes (not None)
   is well-formed: in particular every state reachable from the empty registry *)
Lemma nodup_dset {V} (d : list (str * V)) k v : nodup_keys d -> nodup_keys (dset d k v).
Proof.
  induction d as [|[k' v'] d IH]; cbn; [auto|].
  intros [A ND]. destruct (str_eqb k' k) eqn:E; cbn; [auto|]. split; [|auto].
  rewrite dget_dset_other; [assumption|]. apply str_eqb_neq. now rewrite str_eqb_sym.
Qed.
Lemma forall_dset {V} (P : str * V -> Prop) (d : list (str * V)) k v :
  (forall k', P (k', v)) -> Forall P d -> Forall P (dset d k v).
Proof.
  intros Pv. induction d as [|[k' v'] d IH]; cbn; intros F.
  - constructor; auto.
  - inversion F; subst. destruct (str_eqb k' k); constructor; auto.
Qed.
Lemma dget_forall {V} (P : str * V -> Prop) (d : list (str * V)) k v :
  Forall P d -> dget d k = Some v -> exists k', P (k', v).
Proof.
  induction d as [|[k' v'] d IH]; cbn; [discriminate|].
  intros F. inversion F as [|? ? Hx F']; subst. destruct (str_eqb k' k); [intros [= ->]; eauto|auto].
Qed.

Lemma wf_registered r g n k : wf r -> k_is_none k = false -> wf (registered r g n k).
Proof.
  intros [ND NN] K. unfold registered. split.
  - now apply nodup_dset.
  - apply forall_dset; [|assumption]. intros k0. cbn.
    destruct (dget r g) as [d|] eqn:E.
    + apply forall_dset; [intros; exact K|].
      destruct (dget_forall _ r g d NN E) as [k' H]. exact H.
    + cbn. constructor; [exact K|constructor].
Qed.

Definition registers_class (c : call) : Prop :=
  match c with CReg _ _ k _ => k_is_none k = false | _ => True end.

Lemma wf_run inst df cs : forall r, wf r -> Forall registers_class cs -> wf (snd (run inst df r cs)).
Proof.
  induction cs as [|c cs IH]; intros r W F; [exact W|].
  rewrite run_snd_cons. inversion F; subst. apply IH; [|assumption].
  destruct c as [g n k force|g nm fl|g]; cbn; try assumption.
  destruct (register_plugin r inst df g n k force) as [o r'] eqn:E. cbn.
  apply register_cases in E as [[-> _]|(_ & -> & _)]; [assumption|].
  now apply wf_registered.
Qed.

Lemma wf_empty : wf [].
Proof. split; [exact I|constructor]. Qed.

(* enumerate_plugin_names lists a registered name (not aliases: they live in another group) *)
Lemma registered_is_enumerated r inst g n k :
  In n (enumerate_plugin_names (registered r g n k) inst g).
Proof.
  unfold enumerate_plugin_names, registered. rewrite dget_dset_same. apply in_or_app. left.
  generalize (match dget r g with Some d => d | None => [] end). intros d.
  induction d as [|[n' k'] d IH]; cbn; [auto|].
  destruct (str_eqb n' n) eqn:E; cbn; [left; now apply str_eqb_eq|auto].
Qed.

Lemma runtime_like_installed_all : forall inst df cs g name fl,
  Forall registers_class cs ->
  let r := snd (run inst df [] cs) in
  find_plugin r inst df g name fl = find_plugin [] (flatten r ++ inst) df g name fl.
Proof.
  intros inst df cs g name fl F r. apply runtime_like_installed.
  apply wf_run; [apply wf_empty|exact F].
Qed.

(* ---- a checker for a concrete installed table (run on the regenerated table of /repo's
   environment on every check run): every installed suffix, and every installed alias,
   resolves through find_plugin to a class that some format *name* resolves to as well ---- *)
Definition finds (inst : eps) (df : dflts) (g : str) (name : pname) (fl : option str) (k : klass) : bool :=
  match find_plugin [] inst df g name fl with Ok k' => N.eqb k' k | _ => false end.
Definition has_name (inst : eps) (df : dflts) (base : str) (k : klass) : bool :=
  existsb (fun e' => str_eqb (fst (fst e')) base && finds inst df base (NStr (snd (fst e'))) None k) inst.
Definition suffix_entry_ok (inst : eps) (df : dflts) (e : (str * str) * klass) : bool :=
  let g := fst (fst e) in
  if endswith g s_suffixes then
    let base := strip_suffix g s_suffixes in
    match find_plugin [] inst df base NNone (Some (97%N :: snd (fst e))) with
    | Ok k => has_name inst df base k
    | _ => false
    end
  else if endswith g s_aliases then
    let base := strip_suffix g s_aliases in
    match find_plugin [] inst df base (NStr (snd (fst e))) None with
    | Ok k => has_name inst df base k
    | _ => false
    end
  else true.
Definition installed_table_ok (inst : eps) (df : dflts) : bool := forallb (suffix_entry_ok inst df) inst.

Lemma has_name_sound inst df base k :
  has_name inst df base k = true -> exists n, find_plugin [] inst df base (NStr n) None = Ok k.
Proof.
  unfold has_name. intros H. apply existsb_exists in H as [e [_ H]].
  apply andb_prop in H as [_ H]. unfold finds in H. exists (snd (fst e)).
  destruct (find_plugin [] inst df base (NStr (snd (fst e))) None); try discriminate.
  apply N.eqb_eq in H. now subst.
Qed.

(* choosing the format from an installed suffix equals naming some installed format *)
Lemma installed_suffix_has_name inst df g sfx k0 :
  installed_table_ok inst df = true -> In ((g, sfx), k0) inst -> endswith g s_suffixes = true ->
  exists n k, find_plugin [] inst df (strip_suffix g s_suffixes) NNone (Some (97%N :: sfx)) = Ok k
           /\ find_plugin [] inst df (strip_suffix g s_suffixes) (NStr n) None = Ok k.
Proof.
  intros T I E. unfold installed_table_ok in T. rewrite forallb_forall in T. specialize (T _ I).
  unfold suffix_entry_ok in T. cbn [fst snd] in T. rewrite E in T.
  destruct (find_plugin [] inst df (strip_suffix g s_suffixes) NNone (Some (97%N :: sfx))) as [k| | |]; try discriminate.
  apply has_name_sound in T as [n Hn]. now exists n, k.
Qed.

(* a file-name suffix that resolved keeps resolving to the same class through any history
   without a forced registration of that suffix *)
Lemma find_by_suffix_stable inst df cs r g fl k d :
  dget df g = Some d -> fl <> [] ->
  lookup1 r inst (g ++ s_suffixes) (snd (splitext fl)) = Some k ->
  Forall (fun x => ~ forces (g ++ s_suffixes) (snd (splitext fl)) x) cs ->
  find_plugin r inst df g NNone (Some fl) = Ok k /\
  find_plugin (snd (run inst df r cs)) inst df g NNone (Some fl) = Ok k.
Proof.
  intros D N L F. unfold find_plugin, load_entry_point. rewrite D. destruct fl as [|c fl]; [congruence|].
  rewrite L. now rewrite (replaced_only_when_forced inst df cs r _ _ k L F).
Qed.

(* register_then_find for all later histories: once registered, a name stays found -- as the
   registered class -- until somebody forces a replacement of exactly that name *)
Lemma registered_stays_found inst df cs r g c n k force r' d fl :
  register_plugin r inst df g (c :: n) k force = (Ok true, r') ->
  dget df g = Some d -> k_is_none k = false ->
  Forall (fun x => ~ forces g (c :: n) x) cs ->
  find_plugin (snd (run inst df r' cs)) inst df g (NStr (c :: n)) fl = Ok k.
Proof.
  intros H D K F. apply register_cases in H as [[_ C]|(_ & -> & _)]; [congruence|].
  eapply find_by_name_stable; eauto. now apply lookup1_registered_same.
Qed.

(* a NAME wins over an ALIAS whichever side (installed table or run-time registry) holds either:
   when the name group resolves the name, find_plugin answers that class whatever the alias
   groups contain ... *)
Lemma name_shadows_alias r inst df g c n k d fl :
  dget df g = Some d -> lookup1 r inst g (c :: n) = Some k ->
  find_plugin r inst df g (NStr (c :: n)) fl = Ok k.
Proof. intros D L. unfold find_plugin, load_entry_point. now rewrite D, L. Qed.

(* ... and registering an alias of that spelling -- forced or not, any class -- changes nothing *)
Lemma alias_registration_cannot_replace_name inst df r g c n k d fl k' force :
  dget df g = Some d -> lookup1 r inst g (c :: n) = Some k ->
  find_plugin (snd (register_plugin r inst df (g ++ s_aliases) (c :: n) k' force)) inst df g (NStr (c :: n)) fl = Ok k.
Proof.
  intros D L.
  assert (F : Forall (fun x => ~ forces g (c :: n) x) [CReg (g ++ s_aliases) (c :: n) k' force]).
  { constructor; [|constructor]. cbn. destruct force; [|tauto]. intros [E _]. revert E. apply app_neq_self. discriminate. }
  destruct (find_by_name_stable inst df _ r g c n k d fl D L F) as [_ H].
  cbn [run step] in H. destruct (register_plugin r inst df (g ++ s_aliases) (c :: n) k' force) as [o r']. exact H.
Qed.

(* find_plugin never lets a foreign exception out: it answers a class or raises a pybtex error
   (PluginGroupNotFound / PluginNotFound), whatever the state, the tables and the arguments --
   also for names that start with a period (fix 3f5a30c) *)
Lemma find_plugin_no_foreign_exception r inst df g name fl :
  find_plugin r inst df g name fl <> Crash /\ find_plugin r inst df g name fl <> OutOfFuel.
Proof.
  unfold find_plugin, load_entry_point, plugin_not_found.
  destruct name as [|s|k]; [| |split; discriminate];
    destruct (dget df g); try (split; discriminate);
    repeat match goal with
           | |- context [match ?x with _ => _ end] => destruct x
           end; split; discriminate.
Qed.
