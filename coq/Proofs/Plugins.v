(* Proofs/Plugins.v -- the registry of Model/Plugins.v *)
From Pybtex Require Import Base.Prelude Base.PyChar Base.PyStr Model.Plugins.

(* an un-forced registration of a (group, name) pair that is installed or already registered
   at run time returns False and leaves _RUNTIME_PLUGINS alone *)
Lemma no_silent_replace r inst df g n k :
  already_registered r inst g n = true ->
  register_plugin r inst df g n k false = (Ok false, r)
  \/ (exists e, register_plugin r inst df g n k false = (e, r) /\ is_ok e = false).
Proof.
  intros H. unfold register_plugin.
  destruct (endswith g s_suffixes && negb (startswith n [c_dot])); [right; eexists; split; [reflexivity|reflexivity]|].
  destruct (dget df (base_group_of g)); [|right; eexists; split; reflexivity].
  rewrite H. cbn. now left.
Qed.
