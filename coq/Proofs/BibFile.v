(* Proofs/BibFile.v -- C01: entries in both spellings (with / without a comma after the key),
   @string / @preamble / @comment items, junk between items; from the command list to the
   database; the file-level round trip *)
From Pybtex Require Import Base.Prelude Base.PyChar Base.PyStr Model.BibtexStr Model.Names
  Model.Scanner Model.BibParser Proofs.Scanner Proofs.CharFacts Proofs.BibValues Proofs.BibEntry.
Local Open Scope N_scope.

(* what follows the key: ',' fields ... or directly the closing delimiter (then no fields) *)
Definition after_key (brace comma : bool) (fs : list sfield) (trailing : bool) (wsend rest : str) : str :=
  if comma then c_comma :: fields_text fs trailing wsend (cl_char brace) rest else cl_char brace :: rest.
Definition entry_text_gen (brace : bool) (ws0 typ ws1 ws2 key wsk : str) (comma : bool) (fs : list sfield)
           (trailing : bool) (wsend rest : str) : str :=
  ws0 ++ typ ++ ws1 ++ op_char brace :: ws2 ++ key ++ wsk ++ after_key brace comma fs trailing wsend rest.

Lemma entry_reads_gen m st brace ws0 typ ws1 ws2 key wsk (comma : bool) fs trailing wsend rest :
  forallb is_space ws0 = true -> forallb is_space ws1 = true -> forallb is_space ws2 = true ->
  forallb is_space wsk = true -> forallb is_space wsend = true ->
  is_entry_type typ = true -> is_key brace key = true -> Forall (wf_sfield (p_macros st)) fs ->
  (comma = false -> fs = [] /\ (brace = true \/ wsk <> [])) ->
  sc_rest (p_sc st) = entry_text_gen brace ws0 typ ws1 ws2 key wsk comma fs trailing wsend rest ->
  exists st', parse_command m st = Ret (Some (CEntry typ (Some key) (map (field_result (p_macros st)) fs))) st'
    /\ sc_rest (p_sc st') = rest /\ p_errs st' = p_errs st /\ p_macros st' = p_macros st.
Proof.
  intros H0 H1 H2 Hk Hend Htyp Hkey Hwf Hcomma Hr. unfold entry_text_gen in Hr.
  set (AK := after_key brace comma fs trailing wsend rest) in *.
  unfold is_entry_type in Htyp. apply andb_prop in Htyp as [Htyp Hp]. apply andb_prop in Htyp as [Htyp Hs].
  apply andb_prop in Htyp as [Hname Hc]. apply negb_true_iff in Hp, Hs, Hc.
  destruct (name_head typ Hname) as (t0 & t' & Ht0 & Hts & Htc).
  unfold parse_command.
  (* type *)
  assert (Hf1 : first_match [P_NAME] (typ ++ ws1 ++ op_char brace :: ws2 ++ key ++ wsk ++ AK)
                = Some (P_NAME, typ, ws1 ++ op_char brace :: ws2 ++ key ++ wsk ++ AK)).
  { cbn [first_match]. rewrite (match_name typ _ Hname (head_ok_ws_then ws1 (op_char brace) _ H1 ltac:(destruct brace; reflexivity))). reflexivity. }
  rewrite Ht0 in Hr, Hf1. cbn [app] in Hr, Hf1.
  match goal with |- context [required [P_NAME] ?s0] =>
    destruct (required_after_ws [P_NAME] s0 ws0 t0 _ _ _ _ H0 (name_char_not_space t0 Htc) Hr Hf1) as (sc1 & E1 & Hr1) end.
  rewrite E1. cbn [obind]. cbv zeta. cbn [snd fst].
  (* opening delimiter *)
  assert (Hf2 : first_match [P_LIT 40; P_LIT c_lbrace] (op_char brace :: ws2 ++ key ++ wsk ++ AK)
                = Some (P_LIT (op_char brace), [op_char brace], ws2 ++ key ++ wsk ++ AK))
    by (destruct brace; reflexivity).
  match goal with |- context [required [P_LIT 40; P_LIT c_lbrace] ?s1] =>
    destruct (required_after_ws _ s1 ws1 (op_char brace) _ _ _ _ H1 ltac:(destruct brace; reflexivity) Hr1 Hf2) as (sc2 & E2 & Hr2) end.
  rewrite E2. cbn [obind fst snd]. rewrite <- Ht0. rewrite Hc, Hs, Hp.
  assert (Hb : (op_char brace =? c_lbrace) = brace) by (destruct brace; reflexivity). rewrite Hb.
  (* key *)
  unfold parse_entry_body.
  destruct key as [|k0 k']; [discriminate|].
  assert (Hk0 : is_space k0 = false).
  { cbn [is_key forallb] in Hkey. apply andb_prop in Hkey as [Hx _]. unfold keyp in Hx.
    destruct brace; apply negb_true_iff in Hx.
    - apply orb_false_iff in Hx as [Hx _]. apply orb_false_iff in Hx as [Hx _]. exact Hx.
    - apply orb_false_iff in Hx as [Hx _]. exact Hx. }
  assert (HAK : (exists a0 ar, AK = a0 :: ar /\ is_space a0 = false /\ is_name_start a0 = false /\ keyp brace a0 = false) \/
                (exists ar, wsk <> [] /\ AK = cl_char brace :: ar /\ comma = false)).
  { unfold AK, after_key. destruct comma.
    - left. exists c_comma. eexists. split; [reflexivity|]. destruct brace; repeat split; reflexivity.
    - destruct (Hcomma eq_refl) as [_ [Hbr|Hw]].
      + left. rewrite Hbr. exists c_rbrace. eexists. split; [reflexivity|]. repeat split; reflexivity.
      + right. eexists. split; [exact Hw|]. split; reflexivity. }
  assert (Hhead : head_ok (keyp brace) (wsk ++ AK)).
  { destruct wsk as [|w wsk']; cbn.
    - destruct HAK as [(a0 & ar & -> & _ & _ & Hkp)|(ar & Hw & _)]; [exact Hkp|congruence].
    - cbn in Hk. apply andb_prop in Hk as [Hw _]. destruct brace; cbn; rewrite Hw; reflexivity. }
  assert (Hf3 : first_match [if brace then P_KEY_BRACE else P_KEY_PAREN] ((k0 :: k') ++ wsk ++ AK)
                = Some (if brace then P_KEY_BRACE else P_KEY_PAREN, k0 :: k', wsk ++ AK)).
  { cbn [first_match]. rewrite (match_key brace (k0 :: k') _ Hkey Hhead). reflexivity. }
  cbn [app] in Hf3, Hr2.
  match goal with |- context [required [if brace then P_KEY_BRACE else P_KEY_PAREN] ?s2] =>
    destruct (required_after_ws _ s2 ws2 k0 _ _ _ _ H2 Hk0 Hr2 Hf3) as (sc3 & E3 & Hr3) end.
  rewrite E3. cbn [obind snd].
  (* the first round of parse_entry_fields: no field before the first comma / the closing delimiter *)
  match goal with |- context [parse_entry_fields (S ?n) m ?s3] => remember s3 as s3v eqn:Es3; remember n as fuel0 eqn:Efu end.
  assert (Hr3' : sc_rest (p_sc s3v) = wsk ++ AK) by (subst s3v; exact Hr3).
  assert (HAK2 : exists a0 ar, AK = a0 :: ar /\ is_space a0 = false /\ is_name_start a0 = false).
  { unfold AK, after_key. destruct comma; [exists c_comma|exists (cl_char brace)]; eexists; (split; [reflexivity|]); destruct brace; split; reflexivity. }
  destruct HAK2 as (a0 & ar & HAKe & Ha1 & Ha2). rewrite HAKe in Hr3'.
  cbn [parse_entry_fields]. unfold parse_field.
  match goal with |- context [optional [P_NAME] ?s] =>
    destruct (optional_none_after_ws [P_NAME] s wsk a0 ar Hk Ha1 Hr3') as (sc4 & E4 & Hr4) end.
  { cbn [first_match match_pat]. rewrite Ha2. reflexivity. }
  rewrite E4. cbn [obind p_fname set_sc set_value set_fname].
  assert (Hf7 : first_match [P_LIT (if brace then c_rbrace else 41)] (cl_char brace :: rest) = Some (P_LIT (cl_char brace), [cl_char brace], rest))
    by (destruct brace; reflexivity).
  destruct comma.
  - unfold AK, after_key in HAKe. injection HAKe as <- <-.
    match goal with |- context [optional [P_LIT c_comma] ?s] =>
      destruct (optional_after_ws [P_LIT c_comma] s [] c_comma _ (P_LIT c_comma) [c_comma] _ eq_refl eq_refl Hr4 eq_refl) as (sc5 & E5 & Hr5);
      rewrite E5; cbn [obind];
      destruct (fields_loop m fs fuel0 (set_sc s sc5) trailing wsend (cl_char brace) rest) as (st6 & E6 & Hr6 & Hfs & Hky & Her & Hma & Hcs)
    end.
    { subst fuel0. cbn [p_sc set_key set_sc]. rewrite Hr3. unfold AK, after_key. rewrite !app_length. cbn [length].
      assert (Hl : forall fs' tr, (length fs' <= length (fields_text fs' tr wsend (cl_char brace) rest))%nat).
      { induction fs' as [|f r IHf]; intros tr; cbn [fields_text length]; [lia|].
        rewrite app_length. destruct f as [[[wsn nm] wse] pts]. cbn [render_sfield]. rewrite !app_length. cbn [length].
        destruct r as [|f2 r']; [cbn [length]; destruct tr; cbn [length]; lia|]. specialize (IHf tr). cbn [length] in *. lia. }
      specialize (Hl fs trailing). lia. }
    { subst s3v. cbn. exact Hwf. }
    { exact Hend. }
    { apply cl_closer. }
    { exact Hr5. }
    rewrite E6. cbn [obind].
    destruct (required_after_ws _ st6 [] (cl_char brace) rest _ _ _ eq_refl ltac:(destruct brace; reflexivity) Hr6 Hf7) as (sc7 & E7 & Hr7).
    rewrite E7. eexists. split.
    + unfold make_result. cbn [p_key p_fields set_sc]. rewrite Hky, Hfs. subst s3v. cbn. reflexivity.
    + cbn [p_sc set_sc p_errs p_macros]. rewrite Her, Hma. subst s3v. cbn. auto.
  - unfold AK, after_key in HAKe. injection HAKe as <- <-. destruct (Hcomma eq_refl) as [-> _].
    match goal with |- context [optional [P_LIT c_comma] ?s] =>
      destruct (optional_none_after_ws [P_LIT c_comma] s [] (cl_char brace) rest eq_refl Ha1 Hr4) as (sc5 & E5 & Hr5) end.
    { destruct brace; reflexivity. }
    rewrite E5. cbn [obind].
    match goal with |- context [required _ ?s6] =>
      destruct (required_after_ws _ s6 [] (cl_char brace) rest _ _ _ eq_refl Ha1 Hr5 Hf7) as (sc7 & E7 & Hr7) end.
    rewrite E7. eexists. split.
    + unfold make_result. subst s3v. cbn. reflexivity.
    + subst s3v. cbn. auto.
Qed.

(* ---- @string, @preamble, @comment *)
Definition is_kw (kw target : str) : bool := is_name kw && str_eqb (lower kw) target.

Lemma kw_lower kw target : is_kw kw target = true -> is_name kw = true /\ lower kw = target.
Proof.
  unfold is_kw. intros H. apply andb_prop in H as [H1 H2]. split; [exact H1|].
  destruct (str_eqb_spec (lower kw) target); [assumption|discriminate].
Qed.

(* the first two tokens of parse_command: '@' has been consumed; ws kw ws ( '{' | '(' ) *)
Ltac command_head kw ws0 ws1 brace X H0 H1 Hname Hr :=
  let t0 := fresh "t0" in let t' := fresh "t'" in let Ht0 := fresh "Ht0" in let Hts := fresh "Hts" in let Htc := fresh "Htc" in
  let Hf1 := fresh "Hf1" in let Hf2 := fresh "Hf2" in
  destruct (name_head kw Hname) as (t0 & t' & Ht0 & Hts & Htc);
  assert (Hf1 : first_match [P_NAME] (kw ++ ws1 ++ op_char brace :: X) = Some (P_NAME, kw, ws1 ++ op_char brace :: X))
    by (cbn [first_match]; rewrite (match_name kw _ Hname (head_ok_ws_then ws1 (op_char brace) _ H1 ltac:(destruct brace; reflexivity))); reflexivity);
  rewrite Ht0 in Hr, Hf1; cbn [app] in Hr, Hf1;
  match goal with |- context [required [P_NAME] ?s0] =>
    let sc1 := fresh "sc1" in let E1 := fresh "E1" in let Hr1 := fresh "Hr1" in
    destruct (required_after_ws [P_NAME] s0 ws0 t0 _ _ _ _ H0 (name_char_not_space t0 Htc) Hr Hf1) as (sc1 & E1 & Hr1);
    rewrite E1; cbn [obind]; cbv zeta; cbn [snd fst];
    assert (Hf2 : first_match [P_LIT 40; P_LIT c_lbrace] (op_char brace :: X) = Some (P_LIT (op_char brace), [op_char brace], X))
      by (destruct brace; reflexivity);
    match goal with |- context [required [P_LIT 40; P_LIT c_lbrace] ?s1] =>
      let sc2 := fresh "sc2" in let E2 := fresh "E2" in let Hr2 := fresh "Hr2" in
      destruct (required_after_ws _ s1 ws1 (op_char brace) _ _ _ _ H1 ltac:(destruct brace; reflexivity) Hr1 Hf2) as (sc2 & E2 & Hr2);
      rewrite E2; cbn [obind fst snd]; rewrite <- Ht0
    end
  end.

Lemma op_is_brace brace : (op_char brace =? c_lbrace) = brace.
Proof. destruct brace; reflexivity. Qed.

Lemma comment_reads m st brace ws0 kw ws1 rest :
  forallb is_space ws0 = true -> forallb is_space ws1 = true -> is_kw kw kw_comment = true ->
  sc_rest (p_sc st) = ws0 ++ kw ++ ws1 ++ op_char brace :: rest ->
  exists st', parse_command m st = Ret None st' /\ sc_rest (p_sc st') = rest /\ p_errs st' = p_errs st /\ p_macros st' = p_macros st.
Proof.
  intros H0 H1 Hkw Hr. destruct (kw_lower _ _ Hkw) as [Hname Hl]. unfold parse_command.
  command_head kw ws0 ws1 brace rest H0 H1 Hname Hr.
  rewrite Hl. cbn [str_eqb kw_comment N.eqb Pos.eqb andb]. eexists. split; [reflexivity|]. cbn. auto.
Qed.

Lemma preamble_reads m st brace ws0 kw ws1 parts rest :
  forallb is_space ws0 = true -> forallb is_space ws1 = true -> is_kw kw kw_preamble = true ->
  parts <> [] -> Forall (wf_gpart (p_macros st)) parts ->
  sc_rest (p_sc st) = ws0 ++ kw ++ ws1 ++ op_char brace :: render_gparts parts ++ cl_char brace :: rest ->
  exists st', parse_command m st = Ret (Some (CPreamble kw (map (gpart_value (p_macros st)) parts))) st'
    /\ sc_rest (p_sc st') = rest /\ p_errs st' = p_errs st /\ p_macros st' = p_macros st.
Proof.
  intros H0 H1 Hkw Hne Hwf Hr. destruct (kw_lower _ _ Hkw) as [Hname Hl]. unfold parse_command.
  command_head kw ws0 ws1 brace (render_gparts parts ++ cl_char brace :: rest) H0 H1 Hname Hr.
  rewrite Hl. cbn [str_eqb kw_comment kw_string kw_preamble N.eqb Pos.eqb andb]. rewrite op_is_brace.
  unfold parse_preamble_body.
  destruct (cl_closer brace) as ((Hc1 & Hc2 & Hc3) & _).
  match goal with |- context [parse_value m ?s2] =>
    destruct (value_roundtrip_general m parts s2 (cl_char brace) rest Hne Hwf Hc1 Hc2 Hc3 Hr2) as (sc3 & E3 & Hr3) end.
  rewrite E3. cbn [obind].
  assert (Hf7 : first_match [P_LIT (if brace then c_rbrace else 41)] (cl_char brace :: rest) = Some (P_LIT (cl_char brace), [cl_char brace], rest))
    by (destruct brace; reflexivity).
  match goal with |- context [required _ ?s6] =>
    destruct (required_after_ws _ s6 [] (cl_char brace) rest _ _ _ eq_refl Hc1 Hr3 Hf7) as (sc7 & E7 & Hr7) end.
  rewrite E7. eexists. split; [reflexivity|]. cbn. auto.
Qed.

Lemma string_reads m st brace ws0 kw ws1 ws2 name wse parts rest :
  forallb is_space ws0 = true -> forallb is_space ws1 = true -> forallb is_space ws2 = true -> forallb is_space wse = true ->
  is_kw kw kw_string = true -> is_name name = true -> parts <> [] -> Forall (wf_gpart (p_macros st)) parts ->
  sc_rest (p_sc st) = ws0 ++ kw ++ ws1 ++ op_char brace :: ws2 ++ name ++ wse ++ 61 :: render_gparts parts ++ cl_char brace :: rest ->
  exists st', parse_command m st = Ret (Some (CString kw (Some name) (map (gpart_value (p_macros st)) parts))) st'
    /\ sc_rest (p_sc st') = rest /\ p_errs st' = p_errs st
    /\ p_macros st' = assoc_set (lower name) (concat (map (gpart_value (p_macros st)) parts)) (p_macros st).
Proof.
  intros H0 H1 H2 He Hkw Hnm Hne Hwf Hr. destruct (kw_lower _ _ Hkw) as [Hname Hl]. unfold parse_command.
  command_head kw ws0 ws1 brace (ws2 ++ name ++ wse ++ 61 :: render_gparts parts ++ cl_char brace :: rest) H0 H1 Hname Hr.
  rewrite Hl. cbn [str_eqb kw_comment kw_string kw_preamble N.eqb Pos.eqb andb]. rewrite op_is_brace.
  unfold parse_string_body.
  destruct (name_head name Hnm) as (n0 & n' & Hn0 & Hns & Hnc).
  assert (Hf3 : first_match [P_NAME] (name ++ wse ++ 61 :: render_gparts parts ++ cl_char brace :: rest)
                = Some (P_NAME, name, wse ++ 61 :: render_gparts parts ++ cl_char brace :: rest)).
  { cbn [first_match]. rewrite (match_name name _ Hnm (head_ok_ws_then wse 61 _ He eq_refl)). reflexivity. }
  rewrite Hn0 in Hr2, Hf3. cbn [app] in Hr2, Hf3.
  match goal with |- context [required [P_NAME] ?s2] =>
    destruct (required_after_ws [P_NAME] s2 ws2 n0 _ _ _ _ H2 (name_char_not_space n0 Hnc) Hr2 Hf3) as (sc3 & E3 & Hr3) end.
  rewrite E3. cbn [obind]. cbv zeta. cbn [snd].
  assert (Hf4 : first_match [P_LIT 61] (61 :: render_gparts parts ++ cl_char brace :: rest) = Some (P_LIT 61, [61], render_gparts parts ++ cl_char brace :: rest)) by reflexivity.
  destruct (cl_closer brace) as ((Hc1 & Hc2 & Hc3) & _).
  match goal with |- context [required [P_LIT 61] ?s4 >>= _] =>
    destruct (required_after_ws [P_LIT 61] s4 wse 61 _ _ _ _ He eq_refl Hr3 Hf4) as (sc5 & E5 & Hr5);
    rewrite E5; cbn [obind];
    destruct (value_roundtrip_general m parts (set_sc s4 sc5) (cl_char brace) rest Hne Hwf Hc1 Hc2 Hc3 Hr5) as (sc6 & E6 & Hr6)
  end.
  rewrite E6. cbn [obind].
  assert (Hf7 : first_match [P_LIT (if brace then c_rbrace else 41)] (cl_char brace :: rest) = Some (P_LIT (cl_char brace), [cl_char brace], rest))
    by (destruct brace; reflexivity).
  match goal with |- context [required _ ?s6] =>
    destruct (required_after_ws _ s6 [] (cl_char brace) rest _ _ _ eq_refl Hc1 Hr6 Hf7) as (sc7 & E7 & Hr7) end.
  rewrite E7. subst name. eexists. split; [reflexivity|]. cbn. auto.
Qed.

(* ---- items of a file and what they denote *)
Inductive sitem :=
| IEntry (brace : bool) (ws0 typ ws1 ws2 key wsk : str) (comma : bool) (fs : list sfield) (trailing : bool) (wsend : str)
| IString (brace : bool) (ws0 kw ws1 ws2 name wse : str) (parts : list gpart)
| IPreamble (brace : bool) (ws0 kw ws1 : str) (parts : list gpart)
| IComment (brace : bool) (ws0 kw ws1 : str).

(* the text of an item after its '@', followed by rest *)
Definition item_text (i : sitem) (rest : str) : str :=
  match i with
  | IEntry brace ws0 typ ws1 ws2 key wsk comma fs trailing wsend =>
    entry_text_gen brace ws0 typ ws1 ws2 key wsk comma fs trailing wsend rest
  | IString brace ws0 kw ws1 ws2 name wse parts =>
    ws0 ++ kw ++ ws1 ++ op_char brace :: ws2 ++ name ++ wse ++ 61 :: render_gparts parts ++ cl_char brace :: rest
  | IPreamble brace ws0 kw ws1 parts =>
    ws0 ++ kw ++ ws1 ++ op_char brace :: render_gparts parts ++ cl_char brace :: rest
  | IComment brace ws0 kw ws1 => ws0 ++ kw ++ ws1 ++ op_char brace :: rest
  end.

Definition sp (ws : str) : Prop := forallb is_space ws = true.
Definition wf_item (macros : list (str * str)) (i : sitem) : Prop :=
  match i with
  | IEntry brace ws0 typ ws1 ws2 key wsk comma fs trailing wsend =>
    sp ws0 /\ sp ws1 /\ sp ws2 /\ sp wsk /\ sp wsend /\ is_entry_type typ = true /\ is_key brace key = true /\
    Forall (wf_sfield macros) fs /\ (comma = false -> fs = [] /\ (brace = true \/ wsk <> []))
  | IString brace ws0 kw ws1 ws2 name wse parts =>
    sp ws0 /\ sp ws1 /\ sp ws2 /\ sp wse /\ is_kw kw kw_string = true /\ is_name name = true /\
    parts <> [] /\ Forall (wf_gpart macros) parts
  | IPreamble brace ws0 kw ws1 parts =>
    sp ws0 /\ sp ws1 /\ is_kw kw kw_preamble = true /\ parts <> [] /\ Forall (wf_gpart macros) parts
  | IComment brace ws0 kw ws1 => sp ws0 /\ sp ws1 /\ is_kw kw kw_comment = true
  end.
Definition item_macros (macros : list (str * str)) (i : sitem) : list (str * str) :=
  match i with
  | IString _ _ _ _ _ name _ parts => assoc_set (lower name) (concat (map (gpart_value macros) parts)) macros
  | _ => macros
  end.
Definition item_cmd (macros : list (str * str)) (i : sitem) : option cmd :=
  match i with
  | IEntry _ _ typ _ _ key _ _ fs _ _ => Some (CEntry typ (Some key) (map (field_result macros) fs))
  | IString _ _ kw _ _ name _ parts => Some (CString kw (Some name) (map (gpart_value macros) parts))
  | IPreamble _ _ kw _ parts => Some (CPreamble kw (map (gpart_value macros) parts))
  | IComment _ _ _ _ => None
  end.

Lemma item_reads m st i rest : wf_item (p_macros st) i -> sc_rest (p_sc st) = item_text i rest ->
  exists st', parse_command m st = Ret (item_cmd (p_macros st) i) st' /\ sc_rest (p_sc st') = rest /\
              p_errs st' = p_errs st /\ p_macros st' = item_macros (p_macros st) i.
Proof.
  destruct i; cbn [wf_item item_text item_cmd item_macros]; unfold sp.
  - intros (H0 & H1 & H2 & Hk & He & Ht & Hky & Hf & Hc) Hr. exact (entry_reads_gen m st brace ws0 typ ws1 ws2 key wsk comma fs trailing wsend rest H0 H1 H2 Hk He Ht Hky Hf Hc Hr).
  - intros (H0 & H1 & H2 & He & Hkw & Hn & Hne & Hf) Hr. exact (string_reads m st brace ws0 kw ws1 ws2 name wse parts rest H0 H1 H2 He Hkw Hn Hne Hf Hr).
  - intros (H0 & H1 & Hkw & Hne & Hf) Hr. exact (preamble_reads m st brace ws0 kw ws1 parts rest H0 H1 Hkw Hne Hf Hr).
  - intros (H0 & H1 & Hkw) Hr. exact (comment_reads m st brace ws0 kw ws1 rest H0 H1 Hkw Hr).
Qed.

(* a file: items, each preceded by junk text that contains no '@' *)
Definition no_at (j : str) : Prop := forall x, In x j -> (x =? c_at) = false.
Fixpoint file_text2 (items : list (str * sitem)) (tail : str) : str :=
  match items with
  | [] => tail
  | (junk, i) :: r => junk ++ c_at :: item_text i (file_text2 r tail)
  end.
Fixpoint wf_file (macros : list (str * str)) (items : list (str * sitem)) : Prop :=
  match items with
  | [] => True
  | (junk, i) :: r => no_at junk /\ wf_item macros i /\ wf_file (item_macros macros i) r
  end.

(* ---- the database, up to the model's bookkeeping (dirty flags, error marks) *)
Definition eview := (str * str * str * list (str * str) * list (str * list person))%type.
Definition entry_view (e : entry) : eview := (en_key e, en_type e, en_otype e, en_fields e, en_persons e).
Definition ev_key (e : eview) : str := fst (fst (fst (fst e))).
Definition dbview := (list eview * list str)%type.
Definition view (d : db) : dbview := (map entry_view (db_entries d), map snd (db_preamble d)).

(* what a command adds to the database: nothing for @string; the normalised concatenation for
   @preamble; for an entry whose key is new (ignoring case): key, lower-cased type, written type,
   the first field of each name (ignoring case) in source order with parts concatenated and
   normalised.  (Domain: fields other than author / editor.) *)
Definition denote_cmd (c : cmd) (v : dbview) : dbview :=
  match c with
  | CString _ _ _ => v
  | CPreamble _ vals => (fst v, snd v ++ [normalize_whitespace (concat vals)])
  | CEntry typ (Some key) fields =>
    if existsb (fun e => str_eqb (lower (ev_key e)) (lower key)) (fst v) then v
    else (fst v ++ [(key, lower typ, typ, map field_value (keep_first [] fields), [])], snd v)
  | CEntry _ None _ => v
  end.
Fixpoint denote_items (macros : list (str * str)) (items : list (str * sitem)) (v : dbview) : dbview :=
  match items with
  | [] => v
  | (_, i) :: r =>
    denote_items (item_macros macros i) r (match item_cmd macros i with Some c => denote_cmd c v | None => v end)
  end.
Definition plain_item (macros : list (str * str)) (i : sitem) : Prop :=
  match item_cmd macros i with Some (CEntry _ _ fields) => plain_fields fields | _ => True end.
Fixpoint plain_file (macros : list (str * str)) (items : list (str * sitem)) : Prop :=
  match items with
  | [] => True
  | (_, i) :: r => plain_item macros i /\ plain_file (item_macros macros i) r
  end.

Lemma existsb_map {X Y} (g : Y -> bool) (h : X -> Y) l : existsb g (map h l) = existsb (fun x => g (h x)) l.
Proof. induction l as [|x l IH]; cbn; [reflexivity|rewrite IH; reflexivity]. Qed.

Lemma add_errs_core s l : p_sc (add_errs s l) = p_sc s /\ p_macros (add_errs s l) = p_macros s.
Proof. revert s. induction l as [|e l IH]; intros s; [cbn; auto|]. unfold add_errs in *. cbn [fold_left]. destruct (IH (add_err s e)) as [H1 H2]. rewrite H1, H2. auto. Qed.

Lemma process_denotes c d s : (match c with CEntry _ (Some _) fields => plain_fields fields | CEntry _ None _ => False | _ => True end) ->
  exists d' s', process Capture c d s = Ret d' s' /\ view d' = denote_cmd c (view d) /\
                p_sc s' = p_sc s /\ p_macros s' = p_macros s.
Proof.
  destruct c as [n f v|n v|typ [key|] fields]; cbn [process]; intros Hp; try contradiction.
  - exists d, s. auto.
  - unfold process_preamble. eexists. eexists. split; [reflexivity|]. unfold view. cbn. rewrite map_app. auto.
  - unfold process_entry. rewrite (process_fields_spec fields [] [] [] s Hp). cbn [obind fst snd app].
    destruct (add_errs_core s (repeat (data_err E_DUPFIELD) (count_dups [] fields))) as [Hc1 Hc2].
    unfold add_entry, denote_cmd, view. cbn [fst snd]. rewrite existsb_map. cbn [ev_key entry_view fst].
    destruct (existsb _ (db_entries d)).
    + cbn [handle_error obind]. eexists. eexists. split; [reflexivity|]. cbn. auto.
    + eexists. eexists. split; [reflexivity|]. cbn. rewrite map_app. cbn. auto.
Qed.

Lemma cmd_in_domain macros i : plain_item macros i ->
  match item_cmd macros i with
  | Some c => match c with CEntry _ (Some _) fields => plain_fields fields | CEntry _ None _ => False | _ => True end
  | None => True
  end.
Proof. unfold plain_item. destruct i; cbn; auto. Qed.

Lemma file_loop2 : forall items fuel d st tail,
  (length items < fuel)%nat -> wf_file (p_macros st) items -> plain_file (p_macros st) items -> no_at tail ->
  sc_rest (p_sc st) = file_text2 items tail ->
  exists d' st', bib_loop process fuel Capture d st = Ret d' st' /\ view d' = denote_items (p_macros st) items (view d).
Proof.
  induction items as [|[junk i] r IH]; intros fuel d st tail Hf Hwf Hpl Htail Hr; (destruct fuel as [|fu]; [cbn in Hf; lia|]); cbn [bib_loop].
  - cbn [file_text2] in Hr. unfold skip_to. rewrite Hr, (find_first_all_false _ tail Htail). eexists. eexists. split; reflexivity.
  - destruct Hwf as (Hj & Hi & Hwr). destruct Hpl as (Hpi & Hpr).
    cbn [file_text2] in Hr. unfold skip_to. rewrite Hr, (find_first_app _ junk c_at _ Hj eq_refl).
    match goal with |- context [parse_command Capture ?s1] =>
      destruct (item_reads Capture s1 i (file_text2 r tail) Hi eq_refl) as (st2 & E & Hr2 & Her & Hma)
    end.
    rewrite E. cbn [p_macros set_cstart set_sc] in *.
    pose proof (cmd_in_domain _ i Hpi) as Hdom.
    destruct (item_cmd (p_macros st) i) as [c|] eqn:Ec.
    + destruct (process_denotes c d st2 Hdom) as (d2 & s3 & Ep & Hv & Hsc & Hm3).
      rewrite Ep. cbn [obind].
      destruct (IH fu d2 s3 tail ltac:(cbn [length] in *; lia)) as (d' & st' & E' & Hv').
      * rewrite Hm3, Hma. exact Hwr.
      * rewrite Hm3, Hma. exact Hpr.
      * exact Htail.
      * rewrite Hsc. exact Hr2.
      * exists d', st'. split; [exact E'|]. rewrite Hv'. cbn [denote_items]. rewrite Ec, Hm3, Hma, Hv. reflexivity.
    + destruct (IH fu d st2 tail ltac:(cbn [length] in *; lia)) as (d' & st' & E' & Hv').
      * rewrite Hma. exact Hwr.
      * rewrite Hma. exact Hpr.
      * exact Htail.
      * exact Hr2.
      * exists d', st'. split; [exact E'|]. rewrite Hv'. cbn [denote_items]. rewrite Ec, Hma. reflexivity.
Qed.

Lemma file_text2_len items tail : (length items <= length (file_text2 items tail))%nat.
Proof.
  induction items as [|[junk i] r IH]; cbn [file_text2 length]; [lia|]. rewrite app_length. cbn [length].
  assert (Hl : forall rest, (length rest <= length (item_text i rest))%nat).
  { intros rest. destruct i; cbn [item_text]; unfold entry_text_gen, after_key; repeat (rewrite ?app_length; cbn [length]); try lia.
    destruct comma; cbn [length]; [|lia].
    assert (Hft : forall fs tr ws cl rs, (length rs <= length (fields_text fs tr ws cl rs))%nat).
    { induction fs0 as [|f fr IHf]; intros; cbn [fields_text]; rewrite app_length; cbn [length]; [lia|].
      destruct fr; [destruct tr; cbn [length]; rewrite ?app_length; cbn [length]; lia|]. specialize (IHf tr ws cl rs). cbn [length]. lia. }
    specialize (Hft fs trailing wsend (cl_char brace) rest). lia. }
  specialize (Hl (file_text2 r tail)). lia.
Qed.

(* FILE ROUND TRIP: reading the rendering of a file yields the database the items denote *)
Lemma file_roundtrip_lemma items tail :
  wf_file month_macros items -> plain_file month_macros items -> no_at tail ->
  exists d s, parse_bib Capture (file_text2 items tail) = Ret d s /\ view d = denote_items month_macros items ([], []).
Proof.
  intros Hwf Hpl Htail. unfold parse_bib.
  apply (file_loop2 items _ db_init (pst_init (file_text2 items tail) month_macros) tail); auto.
  pose proof (file_text2_len items tail). lia.
Qed.

(* SURFACE INDEPENDENCE: two files (any delimiters, quoting, concatenation splits, letter case of
   macro uses and keywords, whitespace and line ends, trailing commas, junk text, @comment
   items) whose items denote the same database are read as the same database *)
Lemma surface_independence_lemma items1 tail1 items2 tail2 :
  wf_file month_macros items1 -> plain_file month_macros items1 -> no_at tail1 ->
  wf_file month_macros items2 -> plain_file month_macros items2 -> no_at tail2 ->
  denote_items month_macros items1 ([], []) = denote_items month_macros items2 ([], []) ->
  exists d1 s1 d2 s2, parse_bib Capture (file_text2 items1 tail1) = Ret d1 s1 /\
                      parse_bib Capture (file_text2 items2 tail2) = Ret d2 s2 /\ view d1 = view d2.
Proof.
  intros W1 P1 T1 W2 P2 T2 Hd.
  destruct (file_roundtrip_lemma items1 tail1 W1 P1 T1) as (d1 & s1 & E1 & V1).
  destruct (file_roundtrip_lemma items2 tail2 W2 P2 T2) as (d2 & s2 & E2 & V2).
  exists d1, s1, d2, s2. repeat split; auto. congruence.
Qed.

(* ==== the full denotation: person fields and the reported problems ==== *)
Lemma add_errs_app s a b : add_errs s (a ++ b) = add_errs (add_errs s a) b.
Proof. unfold add_errs. apply fold_left_app. Qed.
Lemma add_errs_errs s l : p_errs (add_errs s l) = p_errs s ++ l.
Proof.
  revert s. induction l as [|e l IH]; intros s; [cbn; rewrite app_nil_r; reflexivity|].
  unfold add_errs in *. cbn [fold_left]. rewrite IH. cbn. rewrite <- app_assoc. reflexivity.
Qed.

(* the persons a list of name strings denotes (each name through Person, C04) and the
   InvalidNameString problems; None: a name on which Person raises a BibTeXError *)
Fixpoint denote_persons (names : list str) (acc : list person) : option (list person * list N) :=
  match names with
  | [] => Some (acc, [])
  | n :: r =>
    match person_of_string n with
    | Ok (p, rep) =>
      match denote_persons r (acc ++ [p]) with
      | Some (pl, e) => Some (pl, (if rep then [E_NAME] else []) ++ e)
      | None => None
      end
    | _ => None
    end
  end.

Lemma persons_denote : forall names acc pl e s, denote_persons names acc = Some (pl, e) ->
  persons_of Capture names acc s = Ret pl (add_errs s (map data_err e)).
Proof.
  induction names as [|n r IH]; intros acc pl e s H; cbn [denote_persons persons_of] in *.
  - injection H as <- <-. reflexivity.
  - destruct (person_of_string n) as [[p rep]|? ?| |]; try discriminate.
    destruct (denote_persons r (acc ++ [p])) as [[pl' e']|] eqn:E; [|discriminate]. injection H as <- <-.
    destruct rep; cbn [handle_error obind app map].
    + rewrite (IH _ _ _ (add_err s (data_err E_NAME)) E). reflexivity.
    + rewrite (IH _ _ _ s E). reflexivity.
Qed.

(* what the fields of an entry denote: the first field of each name (ignoring case) in source
   order; a field other than author / editor denotes its normalised concatenation; an author /
   editor field denotes the persons of the names split_name_list (C12 / C04) finds in it;
   problems: one duplicate-field report per later duplicate, one bad-name report per name
   with too many commas *)
Fixpoint denote_fields (fields : list (str * list str)) (seen : list str)
         (fs : list (str * str)) (ps : list (str * list person))
  : option (list (str * str) * list (str * list person) * list N) :=
  match fields with
  | [] => Some (fs, ps, [])
  | (fname, parts) :: rest =>
    let lname := lower fname in
    if existsb (str_eqb lname) seen then
      match denote_fields rest seen fs ps with
      | Some (f', p', e) => Some (f', p', E_DUPFIELD :: e)
      | None => None
      end
    else
      let value := normalize_whitespace (concat parts) in
      if is_person_field lname then
        match split_name_list value with
        | Ok names =>
          match denote_persons names [] with
          | Some (pl, e1) =>
            match denote_fields rest (seen ++ [lname]) fs (match pl with [] => ps | _ => ps ++ [(fname, pl)] end) with
            | Some (f', p', e) => Some (f', p', e1 ++ e)
            | None => None
            end
          | None => None
          end
        | _ => None
        end
      else denote_fields rest (seen ++ [lname]) (fs ++ [(fname, value)]) ps
  end.

Lemma fields_denote : forall fields seen fs ps f' p' e s, denote_fields fields seen fs ps = Some (f', p', e) ->
  process_fields Capture fields seen fs ps s = Ret (f', p') (add_errs s (map data_err e)).
Proof.
  induction fields as [|[fname parts] rest IH]; intros seen fs ps f' p' e s H; cbn [denote_fields process_fields] in *.
  - injection H as <- <- <-. reflexivity.
  - destruct (existsb (str_eqb (lower fname)) seen).
    + destruct (denote_fields rest seen fs ps) as [[[f2 p2] e2]|] eqn:E; [|discriminate]. injection H as <- <- <-.
      cbn [handle_error obind map]. rewrite (IH _ _ _ _ _ _ (add_err s (data_err E_DUPFIELD)) E). reflexivity.
    + destruct (is_person_field (lower fname)); [|apply IH; exact H].
      destruct (split_name_list (normalize_whitespace (concat parts))) as [names|? ?| |]; try discriminate.
      destruct (denote_persons names []) as [[pl e1]|] eqn:Ep; [|discriminate].
      destruct (denote_fields rest (seen ++ [lower fname]) fs _) as [[[f2 p2] e2]|] eqn:E; [|discriminate]. injection H as <- <- <-.
      rewrite (persons_denote _ _ _ _ s Ep). cbn [obind].
      rewrite (IH _ _ _ _ _ _ _ E). rewrite map_app, add_errs_app. reflexivity.
Qed.

Definition denote_cmd2 (c : cmd) (v : dbview) : option (dbview * list N) :=
  match c with
  | CString _ _ _ => Some (v, [])
  | CPreamble _ vals => Some ((fst v, snd v ++ [normalize_whitespace (concat vals)]), [])
  | CEntry typ (Some key) fields =>
    match denote_fields fields [] [] [] with
    | Some (fs, ps, e) =>
      if existsb (fun x => str_eqb (lower (ev_key x)) (lower key)) (fst v) then Some (v, e ++ [E_REPEATED])
      else Some ((fst v ++ [(key, lower typ, typ, fs, ps)], snd v), e)
    | None => None
    end
  | CEntry _ None _ => None
  end.

Lemma process_denotes2 c d s v' e : denote_cmd2 c (view d) = Some (v', e) ->
  exists d', process Capture c d s = Ret d' (add_errs s (map data_err e)) /\ view d' = v'.
Proof.
  destruct c as [n f v|n v|typ [key|] fields]; cbn [process denote_cmd2]; intros H; try discriminate.
  - injection H as <- <-. exists d. auto.
  - injection H as <- <-. unfold process_preamble. eexists. split; [reflexivity|]. unfold view. cbn. rewrite map_app. reflexivity.
  - destruct (denote_fields fields [] [] []) as [[[fs ps] e1]|] eqn:E; [|discriminate].
    unfold process_entry. rewrite (fields_denote _ _ _ _ _ _ _ s E). cbn [obind fst snd].
    unfold add_entry. unfold view in H. cbn [fst snd] in H. rewrite existsb_map in H. cbn [ev_key entry_view fst] in H.
    destruct (existsb _ (db_entries d)).
    + injection H as <- <-. cbn [handle_error obind]. eexists. split.
      * rewrite map_app, add_errs_app. reflexivity.
      * reflexivity.
    + injection H as <- <-. eexists. split; [reflexivity|]. unfold view. cbn. rewrite map_app. reflexivity.
Qed.

Fixpoint denote_items2 (macros : list (str * str)) (items : list (str * sitem)) (v : dbview) : option (dbview * list N) :=
  match items with
  | [] => Some (v, [])
  | (_, i) :: r =>
    match (match item_cmd macros i with Some c => denote_cmd2 c v | None => Some (v, []) end) with
    | Some (v1, e1) =>
      match denote_items2 (item_macros macros i) r v1 with
      | Some (v2, e2) => Some (v2, e1 ++ e2)
      | None => None
      end
    | None => None
    end
  end.

Lemma file_loop3 : forall items fuel d st tail v' e,
  (length items < fuel)%nat -> wf_file (p_macros st) items -> no_at tail ->
  sc_rest (p_sc st) = file_text2 items tail ->
  denote_items2 (p_macros st) items (view d) = Some (v', e) ->
  exists d' st', bib_loop process fuel Capture d st = Ret d' st' /\ view d' = v' /\ p_errs st' = p_errs st ++ map data_err e.
Proof.
  induction items as [|[junk i] r IH]; intros fuel d st tail v' e Hf Hwf Htail Hr Hd; (destruct fuel as [|fu]; [cbn in Hf; lia|]); cbn [bib_loop].
  - cbn [file_text2] in Hr. unfold skip_to. rewrite Hr, (find_first_all_false _ tail Htail).
    cbn in Hd. injection Hd as <- <-. eexists. eexists. split; [reflexivity|]. cbn. rewrite app_nil_r. auto.
  - destruct Hwf as (Hj & Hi & Hwr).
    cbn [file_text2] in Hr. unfold skip_to. rewrite Hr, (find_first_app _ junk c_at _ Hj eq_refl).
    match goal with |- context [parse_command Capture ?s1] =>
      destruct (item_reads Capture s1 i (file_text2 r tail) Hi eq_refl) as (st2 & E & Hr2 & Her & Hma)
    end.
    rewrite E. cbn [p_macros p_errs set_cstart set_sc] in *. cbn [denote_items2] in Hd.
    destruct (item_cmd (p_macros st) i) as [c|] eqn:Ec.
    + destruct (denote_cmd2 c (view d)) as [[v1 e1]|] eqn:Ed; [|discriminate].
      destruct (denote_items2 (item_macros (p_macros st) i) r v1) as [[v2 e2]|] eqn:Ed2; [|discriminate]. injection Hd as <- <-.
      destruct (process_denotes2 c d st2 v1 e1 Ed) as (d2 & Ep & Hv).
      rewrite Ep. cbn [obind].
      destruct (add_errs_core st2 (map data_err e1)) as [Hc1 Hc2].
      destruct (IH fu d2 (add_errs st2 (map data_err e1)) tail v2 e2 ltac:(cbn [length] in *; lia)) as (d' & st' & E' & Hv' & He').
      * rewrite Hc2, Hma. exact Hwr.
      * exact Htail.
      * rewrite Hc1. exact Hr2.
      * rewrite Hc2, Hma, Hv. exact Ed2.
      * exists d', st'. split; [exact E'|]. split; [exact Hv'|].
        rewrite He', add_errs_errs, Her, map_app, app_assoc. reflexivity.
    + destruct (denote_items2 (item_macros (p_macros st) i) r (view d)) as [[v2 e2]|] eqn:Ed2; [|discriminate]. injection Hd as <- <-.
      destruct (IH fu d st2 tail v2 e2 ltac:(cbn [length] in *; lia)) as (d' & st' & E' & Hv' & He').
      * rewrite Hma. exact Hwr.
      * exact Htail.
      * exact Hr2.
      * rewrite Hma. exact Ed2.
      * exists d', st'. split; [exact E'|]. split; [exact Hv'|]. rewrite He', Her. reflexivity.
Qed.

(* FILE ROUND TRIP with persons and reported problems *)
Lemma file_roundtrip_full items tail v e :
  wf_file month_macros items -> no_at tail -> denote_items2 month_macros items ([], []) = Some (v, e) ->
  exists d s, parse_bib Capture (file_text2 items tail) = Ret d s /\ view d = v /\ p_errs s = map data_err e.
Proof.
  intros Hwf Htail Hd. unfold parse_bib.
  destruct (file_loop3 items (S (length (file_text2 items tail))) db_init (pst_init (file_text2 items tail) month_macros) tail v e) as (d & s & E & Hv & He); auto.
  - pose proof (file_text2_len items tail). lia.
  - exists d, s. auto.
Qed.

Lemma surface_independence_full items1 tail1 items2 tail2 v e :
  wf_file month_macros items1 -> no_at tail1 -> wf_file month_macros items2 -> no_at tail2 ->
  denote_items2 month_macros items1 ([], []) = Some (v, e) -> denote_items2 month_macros items2 ([], []) = Some (v, e) ->
  exists d1 s1 d2 s2, parse_bib Capture (file_text2 items1 tail1) = Ret d1 s1 /\
                      parse_bib Capture (file_text2 items2 tail2) = Ret d2 s2 /\ view d1 = view d2 /\ p_errs s1 = p_errs s2.
Proof.
  intros W1 T1 W2 T2 D1 D2.
  destruct (file_roundtrip_full items1 tail1 v e W1 T1 D1) as (d1 & s1 & E1 & V1 & R1).
  destruct (file_roundtrip_full items2 tail2 v e W2 T2 D2) as (d2 & s2 & E2 & V2 & R2).
  exists d1, s1, d2, s2. repeat split; auto; congruence.
Qed.
