(* Proofs/NamesComma.v -- split_tex_string(s, ',') IS the list of the pieces of s between its brace-level-0
   commas (Spec/Names.v spec_comma_pieces), each stripped, for every non-empty string; hence the name form
   is decided by the number of brace-level-0 commas. *)
From Pybtex Require Import Base.Prelude Base.PyChar Base.PyStr Model.BibtexStr Model.Names Spec.Names
  Proofs.NamesSplit Proofs.Names Proofs.NamesAtomic Proofs.NamesLevel0 Proofs.NamesTok.

Lemma spec_cp_step0 c t cur : spec_cp (c :: t) 0 cur =
  if N.eqb c c_comma then rev cur :: spec_cp t 0 [] else spec_cp t (bl_step 0 c) (c :: cur).
Proof. reflexivity. Qed.

(* re.split(',') on a brace-free head, started with the current piece [acc], against the specification *)
Lemma re_split_go_comma_spec : forall fuel prev h acc R, length h < fuel -> forallb nolb h = true ->
  exists firsts lastp, re_split_go fuel sep_comma prev h acc = firsts ++ [lastp] /\
    spec_cp (h ++ R) 0 acc = firsts ++ spec_cp R 0 (rev lastp).
Proof.
  induction fuel as [|f IH]; intros prev h acc R Hl Hh; [lia|]. cbn [re_split_go].
  destruct h as [|c t].
  - exists [], (rev acc). split; [reflexivity|]. cbn [app]. now rewrite rev_involutive.
  - cbn [forallb] in Hh. apply andb_prop in Hh as [Hc Ht]. cbn [length] in Hl.
    unfold sep_comma at 1. cbn [app]. rewrite spec_cp_step0.
    destruct (N.eqb c c_comma) eqn:E.
    + cbn [nth skipn]. destruct (IH (Some c) t [] R) as (firsts & lastp & E1 & E2); [lia|exact Ht|].
      exists (rev acc :: firsts), lastp. split; [cbn [app]; now rewrite E1|]. cbn [app]. now rewrite E2.
    + destruct (IH (Some c) t (c :: acc) R) as (firsts & lastp & E1 & E2); [lia|exact Ht|].
      exists firsts, lastp. split; [exact E1|]. rewrite <- E2.
      unfold nolb, is_lbrace in Hc. apply negb_true_iff in Hc.
      assert (Hb : bl_step 0 c = 0) by (unfold bl_step; rewrite Hc; destruct (N.eqb c c_rbrace); reflexivity).
      now rewrite Hb.
Qed.

Lemma grp_cp : forall u l R cur, grp u (S l) = true -> spec_cp (u ++ R) (S l) cur = spec_cp R 0 (rev u ++ cur).
Proof.
  induction u as [|c t IH]; intros l R cur H; [discriminate|].
  cbn [grp] in H. cbn [app spec_cp Nat.eqb andb].
  destruct (bl_step (S l) c) as [|d'] eqn:Eb.
  - destruct t; [|discriminate]. reflexivity.
  - rewrite (IH d' R (c :: cur) H). cbn [rev]. now rewrite <- app_assoc.
Qed.

Lemma nz_cp : forall u l cur, nz u (S l) = true -> spec_cp u (S l) cur = [rev (rev u ++ cur)].
Proof.
  induction u as [|c t IH]; intros l cur H; [reflexivity|].
  cbn [nz] in H. cbn [spec_cp Nat.eqb andb].
  destruct (bl_step (S l) c) as [|d'] eqn:Eb; [discriminate|].
  rewrite (IH d' (c :: cur) H). cbn [rev]. now rewrite <- app_assoc.
Qed.

Lemma split_loop_comma_spec : forall fuel s result wp r,
  split_loop fuel sep_comma s result wp = Some r -> (wp <> [] \/ s <> []) ->
  r = result ++ spec_cp s 0 (rev (concat wp)).
Proof.
  induction fuel as [|f IH]; intros s result wp r; cbn [split_loop]; [discriminate|].
  destruct (partition_brace s) as [[h b] rest] eqn:P.
  intros H Hne.
  assert (Hh : forallb nolb h = true).
  { destruct b; [apply partition_brace_true in P|apply partition_brace_false in P]; apply P. }
  set (R := if b then c_lbrace :: rest else @nil char).
  assert (Es : s = h ++ R).
  { destruct b; [apply partition_brace_true in P|apply partition_brace_false in P]; unfold R.
    - apply P. - destruct P as (-> & _). now rewrite app_nil_r. }
  assert (Hhead : forall result1 wp1,
    match h with
    | [] => (result, wp)
    | _ :: _ => match removelast (re_split sep_comma h) with
                | [] => (result, wp ++ [last (re_split sep_comma h) []])
                | w :: ws => (result ++ [concat (wp ++ [w])] ++ ws, [last (re_split sep_comma h) []])
                end
    end = (result1, wp1) ->
    result ++ spec_cp s 0 (rev (concat wp)) = result1 ++ spec_cp R 0 (rev (concat wp1))
    /\ (wp <> [] \/ h <> [] -> wp1 <> [])).
  { intros result1 wp1. rewrite Es. destruct h as [|c h'].
    - intros [= <- <-]. split; [reflexivity|]. intros [Hw|Hw]; congruence.
    - destruct (re_split_go_comma_spec (S (length (c :: h'))) None (c :: h') (rev (concat wp)) R
                  (Nat.lt_succ_diag_r _) Hh) as (firsts' & lastp' & E1 & E2).
      rewrite E2. clear E2.
      change (rev (concat wp)) with ([] ++ rev (concat wp)) in E1. rewrite re_split_go_acc in E1.
      fold (re_split sep_comma (c :: h')) in E1. rewrite rev_involutive in E1.
      assert (Hn : re_split sep_comma (c :: h') <> []) by apply re_split_go_nonempty.
      destruct (exists_last Hn) as (firsts & lastp & Ehp). rewrite Ehp in *. clear Ehp Hn.
      rewrite removelast_app by discriminate. cbn [removelast]. rewrite app_nil_r, last_last.
      destruct firsts as [|w ws].
      + cbn [app] in E1. intros [= <- <-].
        change ([concat wp ++ lastp]) with ([] ++ [concat wp ++ lastp]) in E1.
        apply app_inj_tail in E1 as [<- <-]. split.
        * cbn [app]. now rewrite concat_snoc_str.
        * intros _ E. apply app_eq_nil in E as [_ E]. discriminate.
      + cbn [app] in E1. intros [= <- <-].
        assert (E3 : firsts' = (concat wp ++ w) :: ws /\ lastp' = lastp).
        { change ((concat wp ++ w) :: ws ++ [lastp]) with (((concat wp ++ w) :: ws) ++ [lastp]) in E1.
          apply app_inj_tail in E1. destruct E1; split; congruence. }
        destruct E3 as [-> ->]. split; [|discriminate].
        rewrite <- app_assoc. f_equal. cbn [concat]. rewrite app_nil_r, concat_snoc_str. reflexivity. }
  match type of H with context [let '(_, _) := ?e in _] => destruct e as [result1 wp1] eqn:Eh end.
  destruct (Hhead result1 wp1 eq_refl) as [Hspec Hw1]. rewrite Hspec. clear Hhead Hspec.
  destruct b; unfold R.
  - destruct (find_closing_brace rest) as [u r'] eqn:F.
    assert (Hw2 : wp1 ++ [[c_lbrace]; u] <> []) by (intros E; apply app_eq_nil in E as [_ E]; discriminate).
    destruct (find_closing_brace_cases _ _ _ F) as [-> [Hgr|[-> Hnz]]].
    + apply IH in H; [|left; exact Hw2]. rewrite H. f_equal.
      rewrite spec_cp_step0. change (N.eqb c_lbrace c_comma) with false. cbv iota. change (bl_step 0 c_lbrace) with 1.
      rewrite (grp_cp u 0 r' (c_lbrace :: rev (concat wp1)) Hgr). f_equal.
      rewrite concat_app. cbn [concat]. rewrite app_nil_r, !rev_app_distr. cbn [rev app]. now rewrite <- app_assoc.
    + apply IH in H; [|left; exact Hw2]. rewrite H. f_equal. rewrite app_nil_r.
      rewrite spec_cp_step0. change (N.eqb c_lbrace c_comma) with false. cbv iota. change (bl_step 0 c_lbrace) with 1.
      rewrite (nz_cp u 0 (c_lbrace :: rev (concat wp1)) Hnz). cbn [spec_cp]. do 2 f_equal.
      rewrite concat_app. cbn [concat]. rewrite app_nil_r, !rev_app_distr. cbn [rev app]. now rewrite <- app_assoc.
  - injection H as <-.
    assert (Hne1 : wp1 <> []).
    { apply Hw1. destruct Hne as [Hne|Hne]; [now left|right]. rewrite Es in Hne. unfold R in Hne. now rewrite app_nil_r in Hne. }
    destruct wp1 as [|x wp1']; [congruence|]. cbn [spec_cp]. now rewrite rev_involutive.
Qed.

Lemma comma_split_spec_pf s : s <> [] -> split_tex_comma s = Ok (map strip (spec_comma_pieces s)).
Proof.
  intros Hs. unfold split_tex_comma, split_tex_string_gen.
  destruct (split_loop_fuel sep_comma (S (length s)) s [] [] (Nat.lt_succ_diag_r _)) as [r0 E]. rewrite E.
  apply split_loop_comma_spec in E; [|now right]. cbn [app concat rev] in E. now rewrite E.
Qed.

Lemma spec_cp_length : forall s d cur, length (spec_cp s d cur) = S (level0_commas_from s d).
Proof.
  induction s as [|c t IH]; intros d cur; [reflexivity|]. cbn [spec_cp level0_commas_from].
  destruct (Nat.eqb d 0 && N.eqb c c_comma); cbn [length]; now rewrite IH.
Qed.

(* the name form is decided by the number of brace-level-0 commas of the stripped string *)
Lemma name_form_by_commas_pf s p rep : strip s <> [] -> person_of_string s = Ok (p, rep) ->
  let ps := map strip (spec_comma_pieces (strip s)) in
  let n := level0_commas (strip s) in
  let toks := fun x => map strip (spec_tokens x) in
  (n = 0 -> toks (strip s) = p_first p ++ p_middle p ++ p_prelast p ++ p_last p /\ p_lineage p = [] /\ rep = false) /\
  (n = 1 -> toks (nth 0 ps []) = p_prelast p ++ p_last p /\ toks (nth 1 ps []) = p_first p ++ p_middle p /\
            p_lineage p = [] /\ rep = false) /\
  (n = 2 -> toks (nth 0 ps []) = p_prelast p ++ p_last p /\ toks (nth 1 ps []) = p_lineage p /\
            toks (nth 2 ps []) = p_first p ++ p_middle p /\ rep = false) /\
  (3 <= n -> toks (nth 0 ps []) = p_prelast p ++ p_last p /\ toks (nth 1 ps []) = p_lineage p /\
             toks (join [c_space] (skipn 2 ps)) = p_first p ++ p_middle p /\ rep = true).
Proof.
  intros Hs H ps n toks.
  assert (Hc := comma_split_spec_pf _ Hs). fold ps in Hc.
  assert (Hl : length ps = S n).
  { unfold ps, n, level0_commas, spec_comma_pieces. now rewrite map_length, spec_cp_length. }
  destruct (tokens_preserved_pf _ _ _ _ Hc H) as [H0 H2].
  assert (Ht : forall x ts, split_tex_space x = Ok ts -> toks x = ts).
  { intros x ts Hx. rewrite tokenizer_spec_all_pf in Hx. unfold toks. congruence. }
  split; [|split; [|split]]; intros Hn.
  - destruct H0 as (ts & Hts & E & Hj & Hr); [lia|]. rewrite (Ht _ _ Hts). auto.
  - destruct H2 as (ta & tj & tf & Ha & Hj & Hf & Ea & Ej & Ef & Er); [lia|].
    unfold jr_part, first_part in *. rewrite Hl, Hn in *. cbn [Nat.eqb] in *.
    rewrite split_space_nil in Hj. injection Hj as <-.
    rewrite (Ht _ _ Ha), (Ht _ _ Hf). repeat split; auto.
  - destruct H2 as (ta & tj & tf & Ha & Hj & Hf & Ea & Ej & Ef & Er); [lia|].
    unfold jr_part, first_part in *. rewrite Hl, Hn in *. cbn [Nat.eqb] in *.
    assert (Ejoin : join [c_space] (skipn 2 ps) = nth 2 ps []).
    { destruct ps as [|a [|b [|c [|d r]]]]; cbn in Hl; try lia. reflexivity. }
    rewrite Ejoin in Hf. rewrite (Ht _ _ Ha), (Ht _ _ Hj), (Ht _ _ Hf). repeat split; auto.
  - destruct H2 as (ta & tj & tf & Ha & Hj & Hf & Ea & Ej & Ef & Er); [lia|].
    unfold jr_part, first_part in *. rewrite Hl in *.
    assert (E2 : Nat.eqb (S n) 2 = false) by (apply Nat.eqb_neq; lia). rewrite E2 in *.
    rewrite (Ht _ _ Ha), (Ht _ _ Hj), (Ht _ _ Hf). repeat split; auto.
    rewrite Er. apply Nat.ltb_lt. lia.
Qed.
