(* Proofs/NamesCase.v -- is_von_name (Model/Names.v, through scan_bibtex_string) against the case
   rule of the property text (Spec/Names.v token_case). *)
From Pybtex Require Import Base.Prelude Base.PyChar Base.PyStr Model.BibtexStr Model.Names Spec.Names.

Lemma upper_not_lower c : is_upper c = true -> is_lower c = false.
Proof.
  unfold is_upper, is_lower. intros H. apply andb_prop in H as [_ H]. apply N.leb_le in H.
  apply andb_false_intro1. apply N.leb_gt. lia.
Qed.

Lemma alpha_not_brace c : is_alpha c = true -> N.eqb c c_lbrace = false /\ N.eqb c c_rbrace = false.
Proof.
  unfold is_alpha, is_upper, is_lower, c_lbrace, c_rbrace. intros H.
  apply orb_prop in H as [H|H]; apply andb_prop in H as [H1 H2]; apply N.leb_le in H1, H2;
  split; apply N.eqb_neq; lia.
Qed.

(* special_char_islower = "first letter after the control sequence" *)
Lemma scil_go_spec s : scil_go s true = first_letter_lower (skip_control_word s) /\ scil_go s false = first_letter_lower s.
Proof.
  induction s as [|c t [IH1 IH2]]; cbn; [auto|].
  destruct (is_alpha c); auto.
Qed.

Lemma special_char_islower_spec body : special_char_islower body = special_is_lower body.
Proof. unfold special_char_islower, special_is_lower. apply scil_go_spec. Qed.

(* inside a special character the scanner collects exactly special_body *)
Lemma scan_special : forall t d acc level r, scan_go t level (Some (d, acc)) = Ok r ->
  exists rest, r = (rev acc ++ special_body t d, 1) :: ([c_rbrace], 0) :: rest.
Proof.
  induction t as [|c t IH]; intros d acc level r; cbn [scan_go special_body].
  - intros [= <-]. exists []. now rewrite app_nil_r.
  - unfold is_lbrace, is_rbrace. destruct (N.eqb c c_lbrace) eqn:El.
    + destruct (Nat.ltb _ _); [discriminate|]. intros H. apply IH in H as [rest ->].
      exists rest. cbn [rev]. now rewrite <- app_assoc.
    + destruct (N.eqb c c_rbrace) eqn:Er.
      * destruct d as [|d'].
        -- destruct (scan_go t 0 None) as [r0| | |]; cbn [bind]; try discriminate.
           intros [= <-]. exists r0. now rewrite app_nil_r.
        -- intros H. apply IH in H as [rest ->]. exists rest. cbn [rev]. now rewrite <- app_assoc.
      * intros H. apply IH in H as [rest ->]. exists rest. cbn [rev]. now rewrite <- app_assoc.
Qed.

Definition case_bool (o : option bool) : bool := match o with Some b => b | None => false end.

Lemma von_scan_token_case : forall s d ts, no_stray_backslash s d = true -> scan_go s d None = Ok ts ->
  von_scan ts = case_bool (token_case s d).
Proof.
  induction s as [|c t IH]; intros d ts Hn; cbn [scan_go token_case].
  - intros [= <-]. reflexivity.
  - cbn [no_stray_backslash] in Hn. unfold is_lbrace, is_rbrace.
    destruct (N.eqb c c_lbrace) eqn:El.
    + (* opening brace *)
      assert (Hplain : forall r, no_stray_backslash t (S d) = true ->
                (do r <- scan_go t (S d) None; Ok (([c_lbrace], S d) :: r)) = Ok r ->
                von_scan r = case_bool (token_case t (S d))).
      { intros r Hn'. destruct (scan_go t (S d) None) as [r0| | |] eqn:Sc; cbn [bind]; try discriminate.
        intros [= <-]. rewrite <- (IH (S d) r0 Hn' Sc).
        destruct d as [|[|d]]; reflexivity. }
      destruct d as [|d].
      * destruct t as [|b t'].
        -- cbn [Nat.eqb andb]. destruct (Nat.ltb max_level 1); [discriminate|]. apply Hplain. exact Hn.
        -- destruct (N.eqb b c_bslash) eqn:Eb.
           ++ cbn [Nat.eqb andb].
              destruct (scan_go (b :: t') 0 (Some (0, []))) as [r0| | |] eqn:Sc; cbn [bind]; try discriminate.
              intros [= <-]. apply scan_special in Sc as [rest ->]. cbn [rev app].
              apply N.eqb_eq in Eb. subst b.
              cbn [special_body]. change (N.eqb c_bslash c_lbrace) with false. change (N.eqb c_bslash c_rbrace) with false.
              cbv iota. cbn [von_scan]. change (N.eqb c_lbrace c_bslash) with false. cbv iota.
              rewrite N.eqb_refl. cbn [case_bool]. apply special_char_islower_spec.
           ++ cbn [Nat.eqb andb]. destruct (Nat.ltb max_level 1); [discriminate|]. apply Hplain. exact Hn.
      * cbn [Nat.eqb andb]. destruct (Nat.ltb max_level (S (S d))); [discriminate|].
        assert (Ht : token_case t (S (S d)) = match t with [] => token_case t (S (S d)) | _ :: _ => token_case t (S (S d)) end)
          by (destruct t; reflexivity).
        assert (Hn2 : no_stray_backslash t (S (S d)) = true) by (destruct t; exact Hn).
        intros H. rewrite (Hplain ts Hn2 H). destruct t; reflexivity.
    + destruct (N.eqb c c_rbrace) eqn:Er.
      * (* closing brace *)
        destruct d as [|d]; cbn [Nat.ltb Nat.leb andb pred].
        -- destruct (scan_go t 0 None) as [r0| | |] eqn:Sc; cbn [bind]; try discriminate.
           intros [= <-]. cbn [von_scan]. apply N.eqb_eq in Er. subst c.
           change (is_alpha c_rbrace) with false. cbv iota. apply IH; assumption.
        -- change (Nat.ltb 0 (S d)) with true. cbv iota.
           destruct (scan_go t d None) as [r0| | |] eqn:Sc; cbn [bind]; try discriminate.
           intros [= <-]. rewrite <- (IH d r0 Hn Sc).
           destruct d as [|[|d]]; reflexivity.
      * (* an ordinary character *)
        rewrite andb_false_l.
        destruct (scan_go t d None) as [r0| | |] eqn:Sc; cbn [bind]; try discriminate.
        intros [= <-]. cbn [von_scan].
        destruct d as [|[|d]].
        -- destruct (is_alpha c); [reflexivity|]. apply IH; assumption.
        -- destruct (N.eqb c c_bslash); [discriminate|]. apply IH; assumption.
        -- apply IH; assumption.
Qed.

Lemma token_case_rule_partial_pf tok b : no_stray_backslash tok 0 = true ->
  is_von_name tok = Ok b -> b = spec_is_von tok.
Proof.
  destruct tok as [|c t]; [discriminate|]. intros Hn. unfold is_von_name, spec_is_von.
  destruct (is_upper c) eqn:Eu.
  - intros [= <-]. cbn [token_case].
    assert (Ha : is_alpha c = true) by (unfold is_alpha; rewrite Eu; reflexivity).
    destruct (alpha_not_brace c Ha) as [-> ->]. rewrite Ha. cbn. symmetry. now apply upper_not_lower.
  - destruct (is_lower c) eqn:Elo.
    + intros [= <-]. cbn [token_case].
      assert (Ha : is_alpha c = true) by (unfold is_alpha; rewrite Elo; apply orb_true_r).
      destruct (alpha_not_brace c Ha) as [-> ->]. rewrite Ha. cbn. now rewrite Elo.
    + unfold scan. destruct (scan_go (c :: t) 0 None) as [ts| | |] eqn:Sc; cbn [bind]; try discriminate.
      intros [= <-]. fold (case_bool (token_case (c :: t) 0)). now apply von_scan_token_case.
Qed.

(* the code deviates from the property text: {a\b}c has the lowercase letter c at brace level 0
   (and no special character), but is_von_name says "not von" *)
Lemma token_case_rule_refuted_pf : exists tok, is_von_name tok = Ok false /\ spec_is_von tok = true.
Proof. exists (s2l "{a\b}c"). vm_compute. auto. Qed.
