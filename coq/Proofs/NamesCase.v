(* Proofs/NamesCase.v -- is_von_name (Model/Names.v, through scan_bibtex_string) against the case
   rule of the property text (Spec/Names.v token_case), in full (after the repair of FC04a). *)
From Pybtex Require Import Base.Prelude Base.PyChar Base.PyStr Model.BibtexStr Model.NamesUni Model.Names Spec.Names.

Lemma upper_not_lower c : uni_is_upper c = true -> uni_is_lower c = false.
Proof. unfold uni_is_upper, uni_is_lower. intros H. apply N.eqb_eq in H. now rewrite H. Qed.

Lemma upper_alpha c : uni_is_upper c = true -> uni_is_alpha c = true.
Proof. unfold uni_is_upper, uni_is_alpha. intros H. apply N.eqb_eq in H. now rewrite H. Qed.

Lemma lower_alpha c : uni_is_lower c = true -> uni_is_alpha c = true.
Proof. unfold uni_is_lower, uni_is_alpha. intros H. apply N.eqb_eq in H. now rewrite H. Qed.

Lemma alpha_not_brace c : uni_is_alpha c = true -> N.eqb c c_lbrace = false /\ N.eqb c c_rbrace = false.
Proof.
  intros H. split; apply N.eqb_neq; intros ->; vm_compute in H; discriminate.
Qed.

(* special_char_islower = "first letter after the control sequence" *)
Lemma scil_go_spec s : scil_go s true = first_letter_lower (skip_control_word s) /\ scil_go s false = first_letter_lower s.
Proof.
  induction s as [|c t [IH1 IH2]]; cbn; [auto|].
  destruct (uni_is_alpha c); auto.
Qed.

Lemma special_char_islower_spec body : special_char_islower body = special_is_lower body.
Proof. unfold special_char_islower, special_is_lower. apply scil_go_spec. Qed.

(* inside a special character the scanner collects exactly special_body *)
Lemma scan_special : forall t d acc level r, scan_go t level (Some (d, acc)) = Ok r ->
  exists rest, r = (rev acc ++ special_body t d, 1) :: ([c_rbrace], 0) :: rest.
Proof.
  induction t as [|c t IH]; intros d acc level r; cbn [scan_go special_body].
  - intros [= <-]. exists []. now rewrite app_nil_r.
  - unfold is_lbrace, is_rbrace. destruct (N.eqb c c_lbrace) eqn:El.
    + destruct (Nat.ltb _ _); [discriminate|]. intros H. apply IH in H as [rest ->].
      exists rest. cbn [rev]. now rewrite <- app_assoc.
    + destruct (N.eqb c c_rbrace) eqn:Er.
      * destruct d as [|d'].
        -- destruct (scan_go t 0 None) as [r0| | |]; cbn [bind]; try discriminate.
           intros [= <-]. exists r0. now rewrite app_nil_r.
        -- intros H. apply IH in H as [rest ->]. exists rest. cbn [rev]. now rewrite <- app_assoc.
      * intros H. apply IH in H as [rest ->]. exists rest. cbn [rev]. now rewrite <- app_assoc.
Qed.

Definition case_bool (o : option bool) : bool := match o with Some b => b | None => false end.

Lemma von_scan_token_case : forall s d po ts,
  (po = true -> match s with b :: _ => N.eqb b c_bslash = false | [] => True end) ->
  scan_go s d None = Ok ts ->
  von_scan ts po = case_bool (token_case s d).
Proof.
  induction s as [|c t IH]; intros d po ts Hpo; cbn [scan_go token_case].
  - intros [= <-]. reflexivity.
  - unfold is_lbrace, is_rbrace.
    destruct (N.eqb c c_lbrace) eqn:El.
    + (* opening brace *)
      assert (Ec : c = c_lbrace) by now apply N.eqb_eq. subst c.
      assert (Hplain : forall r, (d = 0 -> match t with b :: _ => N.eqb b c_bslash = false | [] => True end) ->
                (do r <- scan_go t (S d) None; Ok (([c_lbrace], S d) :: r)) = Ok r ->
                von_scan r po = case_bool (token_case t (S d))).
      { intros r Hd. destruct (scan_go t (S d) None) as [r0| | |] eqn:Sc; cbn [bind]; try discriminate.
        intros [= <-].
        assert (Hgo : von_scan (([c_lbrace], S d) :: r0) po = von_scan r0 (Nat.eqb d 0)).
        { destruct d as [|[|d]]; reflexivity. }
        rewrite Hgo. apply IH; [|exact Sc]. intros Hd0. apply Nat.eqb_eq in Hd0. now apply Hd. }
      destruct d as [|d].
      * destruct t as [|b t'].
        -- cbn [Nat.eqb andb]. destruct (Nat.ltb max_level 1); [discriminate|]. apply Hplain. auto.
        -- destruct (N.eqb b c_bslash) eqn:Eb.
           ++ cbn [Nat.eqb andb].
              destruct (scan_go (b :: t') 0 (Some (0, []))) as [r0| | |] eqn:Sc; cbn [bind]; try discriminate.
              intros [= <-]. apply scan_special in Sc as [rest ->]. cbn [rev app].
              apply N.eqb_eq in Eb. subst b.
              cbn [special_body]. change (N.eqb c_bslash c_lbrace) with false. change (N.eqb c_bslash c_rbrace) with false.
              cbv iota. cbn [von_scan]. change (N.eqb c_lbrace c_bslash) with false. cbn [andb].
              change (is_open1 ([c_lbrace], 1)) with true. rewrite N.eqb_refl. cbn [andb case_bool].
              apply special_char_islower_spec.
           ++ cbn [Nat.eqb andb]. destruct (Nat.ltb max_level 1); [discriminate|]. apply Hplain. intros _. reflexivity.
      * cbn [Nat.eqb andb]. destruct (Nat.ltb max_level (S (S d))); [discriminate|].
        intros H. rewrite (Hplain ts ltac:(discriminate) H). destruct t; reflexivity.
    + destruct (N.eqb c c_rbrace) eqn:Er.
      * (* closing brace *)
        assert (Ec : c = c_rbrace) by now apply N.eqb_eq. subst c.
        destruct d as [|d]; cbn [Nat.ltb Nat.leb andb pred].
        -- destruct (scan_go t 0 None) as [r0| | |] eqn:Sc; cbn [bind]; try discriminate.
           intros [= <-]. cbn [von_scan]. change (uni_is_alpha c_rbrace) with false. cbv iota.
           apply IH; [discriminate|exact Sc].
        -- change (Nat.ltb 0 (S d)) with true. cbv iota.
           destruct (scan_go t d None) as [r0| | |] eqn:Sc; cbn [bind]; try discriminate.
           intros [= <-].
           assert (Hgo : von_scan (([c_rbrace], d) :: r0) po = von_scan r0 false).
           { destruct d as [|[|d]]; reflexivity. }
           rewrite Hgo. apply IH; [discriminate|exact Sc].
      * (* an ordinary character *)
        rewrite andb_false_l.
        destruct (scan_go t d None) as [r0| | |] eqn:Sc; cbn [bind]; try discriminate.
        intros [= <-].
        assert (Ho : forall l, is_open1 ([c], l) = false).
        { intros l. unfold is_open1. cbn [fst snd]. rewrite El. apply andb_false_r. }
        destruct d as [|[|d]]; cbn [von_scan]; rewrite ?Ho.
        -- destruct (uni_is_alpha c); [reflexivity|]. apply IH; [discriminate|exact Sc].
        -- assert (Hb : N.eqb c c_bslash && po = false).
           { destruct po; [|apply andb_false_r]. rewrite (Hpo eq_refl). reflexivity. }
           rewrite Hb. apply IH; [discriminate|exact Sc].
        -- apply IH; [discriminate|exact Sc].
Qed.

(* each token's case is decided by its first brace-level-0 letter or special character -- in full *)
Lemma token_case_rule_pf tok b : is_von_name tok = Ok b -> b = spec_is_von tok.
Proof.
  destruct tok as [|c t]; [discriminate|]. unfold is_von_name, spec_is_von.
  destruct (uni_is_upper c) eqn:Eu.
  - intros [= <-]. cbn [token_case].
    assert (Ha : uni_is_alpha c = true) by now apply upper_alpha.
    destruct (alpha_not_brace c Ha) as [-> ->]. rewrite Ha. cbn. symmetry. now apply upper_not_lower.
  - destruct (uni_is_lower c) eqn:Elo.
    + intros [= <-]. cbn [token_case].
      assert (Ha : uni_is_alpha c = true) by now apply lower_alpha.
      destruct (alpha_not_brace c Ha) as [-> ->]. rewrite Ha. cbn. now rewrite Elo.
    + unfold scan. destruct (scan_go (c :: t) 0 None) as [ts| | |] eqn:Sc; cbn [bind]; try discriminate.
      intros [= <-]. fold (case_bool (token_case (c :: t) 0)).
      apply von_scan_token_case; [discriminate|exact Sc].
Qed.

(* the former counterexample of finding FC04a (fixed by 82be377) *)
Example fixed_on_counterexample : is_von_name (s2l "{a\b}c") = Ok true.
Proof. vm_compute. auto. Qed.

(* a token that begins with a caseless letter (Hebrew, Arabic, CJK ...: a letter that is neither upper- nor
   lower-case) is not a von token: its first brace-level-0 letter is not lowercase *)
Lemma caseless_first_letter_not_von_pf c t b : uni_class c = 1%N -> is_von_name (c :: t) = Ok b -> b = false.
Proof.
  intros Hc H. apply token_case_rule_pf in H. subst b. unfold spec_is_von. cbn [token_case].
  assert (Ha : uni_is_alpha c = true) by (unfold uni_is_alpha; now rewrite Hc).
  destruct (alpha_not_brace c Ha) as [-> ->]. rewrite Ha. unfold uni_is_lower. now rewrite Hc.
Qed.
