(* Proofs/BstDoc.v -- the interpreter model does what the documentation says: every step of the documented
   semantics of a built-in is the step the model takes, hence every derivation of the big-step semantics
   over the documented rules is a run of the interpreter. *)
From Pybtex Require Import Base.Prelude Base.PyChar Base.PyStr Model.BibtexStr Model.Wrap Model.Bst
  Spec.BstSem Spec.BstDoc Spec.BstTyping Proofs.Bst Proofs.BstSem Proofs.BstTyping.
Local Open Scope Z_scope.

Section DocProofs.
  Variable fmt_name : str -> str -> res str.
  Variable cw : char -> Z.
  Variable rec : state -> list instr -> res state.
  Variable wh : state -> value -> value -> res state.
  Notation bs := (builtin_step fmt_name cw rec wh).

  Lemma str_of_as_str v s : str_of v s -> as_str v = Some s.
  Proof. intros [->|[[n ->] ->]]; reflexivity. Qed.
  Lemma join_buffer_all l ss : all_strs l ss -> join_buffer l = Ok (concat ss).
  Proof.
    induction 1 as [|v s l ss Hv _ IH]; cbn; [reflexivity|].
    rewrite (str_of_as_str _ _ Hv), IH. reflexivity.
  Qed.

  Ltac run H := cbn [Bst.builtin_step]; rewrite (pop_cons _ _ _ H); cbn [bind]; repeat (rewrite pop_set_stack; cbn [bind]).
  Ltac sv H := let E := fresh in pose proof (str_of_as_str _ _ H) as E.

  Lemma doc_step b st st' : builtin_doc fmt_name cw b st st' -> bs b st = Ok st'.
  Proof.
    destruct 1.
    - run H. reflexivity.
    - run H. reflexivity.
    - run H. reflexivity.
    - run H. sv H0. sv H1. unfold py_eq.
      destruct H0 as [->|[[n ->] ->]], H1 as [->|[[m ->] ->]]; reflexivity.
    - run H. reflexivity.
    - run H. reflexivity.
    - run H. destruct H0 as [->|[[n ->] ->]], H1 as [->|[[m ->] ->]]; reflexivity.
    - run H. unfold assign. cbn. rewrite H0. reflexivity.
    - run H. unfold assign. cbn. rewrite H1. sv H0. rewrite H2. reflexivity.
    - run H. unfold assign. cbn. rewrite H0, H1. reflexivity.
    - run H. unfold assign. cbn. rewrite H1. sv H0. rewrite H3, H2. reflexivity.
    - run H. destruct H0 as [->|[[n ->] _]]; cbn; f_equal; destruct st; cbn in *; subst; reflexivity.
    - run H. destruct (ends_with_terminator (c :: s)); reflexivity.
    - run H. sv H0. cbn [to_lower] in *.
      destruct H1 as [[L ->]|[[L ->]|[L ->]]]; rewrite L; cbn; rewrite H3, H2; reflexivity.
    - run H. reflexivity.
    - run H. destruct H0 as [L1 L2].
      assert (E3 : (z <? 0) = false) by (apply Z.ltb_ge; lia).
      assert (E4 : (1114111 <? z) = false) by (apply Z.ltb_ge; lia).
      rewrite E3, E4. reflexivity.
    - run H. reflexivity.
    - cbn. rewrite H. reflexivity.
    - cbn. rewrite H. reflexivity.
    - cbn. rewrite H. reflexivity.
    - run H. reflexivity.
    - run H. reflexivity.
    - run H. reflexivity.
    - reflexivity.
    - reflexivity.
    - run H. destruct H0 as [->|[[n ->] ->]]; reflexivity.
    - run H. destruct H0 as [->|[[n ->] ->]]; reflexivity.
    - run H. unfold format_name_call.
      assert (Hh : hashable (st_vars st) v && hashable (st_vars st) (VInt k) && hashable (st_vars st) f = true)
        by (destruct H0 as [->|[[n ->] _]], H1 as [->|[[m ->] _]]; reflexivity).
      cbn [st_vars set_stack]. rewrite Hh. cbn [negb].
      rewrite (str_of_as_str _ _ H1), (str_of_as_str _ _ H0), H2. cbn [bind].
      destruct H3 as [K1 K2]. apply Z.leb_le in K1, K2. rewrite K1, K2. cbn [andb]. rewrite H4. reflexivity.
    - run H. sv H0. rewrite H2, H1. reflexivity.
    - run H. sv H0. rewrite H2, H1. reflexivity.
    - run H. sv H0. rewrite H2, H1. reflexivity.
    - run H. sv H0. rewrite H2, H1. reflexivity.
    - run H. sv H0. rewrite H1. destruct start; reflexivity.
    - run H. sv H0. unfold bibtex_prefix in H1. destruct (0 <? n) eqn:E.
      + rewrite H2. unfold bibtex_prefix. rewrite E. cbn in H1. rewrite H1. reflexivity.
      + inversion H1; subst. reflexivity.
    - run H. reflexivity.
    - cbn. unfold do_newline. rewrite (join_buffer_all _ _ H). cbn [bind].
      unfold default_width, default_indent. rewrite H0. reflexivity.
    - run H. reflexivity.
    - run H. destruct H0 as [->|[[n ->] ->]]; reflexivity.
    - cbn [Bst.builtin_step].
      assert (P : print_all (st_stack st) = Ok (concat (map (fun t => t ++ [c_nl]) ts))).
      { induction H as [|v t l ts' Hv _ IHl]; [reflexivity|]. cbn [print_all map concat].
        assert (Pv : py_str v = Ok t) by (destruct Hv as [(z & -> & ->)|[->|[[n ->] ->]]]; reflexivity).
        rewrite Pv, IHl. cbn. rewrite <- app_assoc. reflexivity. }
      rewrite P. reflexivity.
    - run H. reflexivity.
  Qed.
End DocProofs.

Section DocSem.
  Variable fmt_name : str -> str -> res str.
  Variable cw : char -> Z.

  (* the big-step relation is monotone in what the code-free built-ins do *)
  Lemma bigstep_mono (R1 R2 : builtin -> state -> state -> Prop) :
    (forall b st st', R1 b st st' -> R2 b st st') ->
    (forall st p st', bigsteps fmt_name cw R1 st p st' -> bigsteps fmt_name cw R2 st p st') /\
    (forall st i st', bigstep fmt_name cw R1 st i st' -> bigstep fmt_name cw R2 st i st') /\
    (forall st v st', callv fmt_name cw R1 st v st' -> callv fmt_name cw R2 st v st') /\
    (forall st p f st', whilerel fmt_name cw R1 st p f st' -> whilerel fmt_name cw R2 st p f st').
  Proof.
    intros HR. apply bigstep_mutind; intros; try (econstructor; eauto; fail).
  Qed.

  (* every run the documentation derives is a run of the interpreter *)
  Theorem doc_complete st p st' :
    bigsteps fmt_name cw (builtin_doc fmt_name cw) st p st' -> exists n, exec fmt_name cw n st p = Ok st'.
  Proof.
    intros H. apply exec_complete.
    refine (proj1 (bigstep_mono _ _ _) _ _ _ H).
    intros b s s' D. unfold model_simple. apply doc_step. exact D.
  Qed.
End DocSem.

(* ---------------------------------------------------------------------------------- *)
Section DocSound.
  Variable fmt_name : str -> str -> res str.
  Variable cw : char -> Z.
  Variable G : list (str * obj).
  Variable ent : bool.
  Variable tys : list str.
  Variable rec : state -> list instr -> res state.
  Variable wh : state -> value -> value -> res state.
  Variable call : list aval -> aval -> option (list aval).
  Variable cid : list aval -> str -> option (list aval).
  Notation bs := (builtin_step fmt_name cw rec wh).
  Notation doc := (builtin_doc fmt_name cw).

  Lemma strlike_str_of v : strlike v = true -> exists s, str_of v s /\ as_str v = Some s.
  Proof. destruct v; try discriminate; intros _; eexists; (split; [|reflexivity]); [left; reflexivity|right; eauto]. Qed.

  Ltac pop1 Hs v l E V Hs' := destruct (sabs_cons_inv _ _ _ Hs) as (v & l & E & V & Hs').
  Ltac as_int V H := let z := fresh "z" in destruct (vabs_int _ _ V H) as [z ->].
  Ltac as_sv V H s So Sa := destruct (strlike_str_of _ (vabs_str _ _ V H)) as (s & So & Sa).
  Ltac bools := repeat match goal with
    | H : (_ && _)%bool = true |- _ => apply andb_prop in H; destruct H
    end.
  Ltac cond C := match type of C with (if ?b then _ else _) = Some _ =>
    let B := fresh "B" in destruct b eqn:B; [|discriminate C]; cbn [orb] in B; bools; clear C end.
  Ltac okinv H := inversion H; subst; clear H.
  Ltac viabind H v E := match type of H with bind ?r _ = Ok _ => destruct r as [v| | |] eqn:E; cbn [bind] in H; try discriminate H end.
  Lemma doc_ext b st st1 st2 : doc b st st1 -> st1 = st2 -> doc b st st2.
  Proof. intros H <-. exact H. Qed.
  Ltac by_rule c := eapply doc_ext; [eapply c; eauto|try reflexivity].
  Opaque bibtex_purify bibtex_len change_case bibtex_width bibtex_prefix split_name_list wrap bibtex_substring.

  (* on operands of the kinds the type checker accepts, a successful step of a code-free built-in is exactly
     the documented rule *)
  Lemma doc_sound_step b s s1 st st' :
    check_builtin G ent tys call cid b s = Some s1 -> control b = false ->
    state_ok G ent tys st -> sabs (st_stack st) s ->
    bs b st = Ok st' -> doc b st st'.
  Proof.
    intros C Ctl Hok Hs H. destruct b; try discriminate Ctl.
    - (* > *) destruct s as [|x [|y r]]; cbn in C; try discriminate C;
      pop1 Hs v1 l1 E1 V1 Hs1; pop1 Hs1 v2 l2 E2 V2 Hs2; subst l1; revert H;
      cbn [Bst.builtin_step]; rewrite (pop_cons _ _ _ E1); cbn [bind]; rewrite pop_set_stack; cbn [bind]; intros H.
      cond C. as_int V1 H0. as_int V2 H1. cbn in H. okinv H. by_rule D_gt.
    - (* < *) destruct s as [|x [|y r]]; cbn in C; try discriminate C;
      pop1 Hs v1 l1 E1 V1 Hs1; pop1 Hs1 v2 l2 E2 V2 Hs2; subst l1; revert H;
      cbn [Bst.builtin_step]; rewrite (pop_cons _ _ _ E1); cbn [bind]; rewrite pop_set_stack; cbn [bind]; intros H.
      cond C. as_int V1 H0. as_int V2 H1. cbn in H. okinv H. by_rule D_lt.
    - (* = *) destruct s as [|x [|y r]]; cbn in C; try discriminate C;
      pop1 Hs v1 l1 E1 V1 Hs1; pop1 Hs1 v2 l2 E2 V2 Hs2; subst l1; revert H;
      cbn [Bst.builtin_step]; rewrite (pop_cons _ _ _ E1); cbn [bind]; rewrite pop_set_stack; cbn [bind]; intros H.
      destruct (is_aint x && is_aint y)%bool eqn:B1.
      + bools. as_int V1 H0. as_int V2 H1. cbn in H. okinv H. by_rule D_eq_int.
      + cond C. as_sv V1 H0 sa Sa Aa. as_sv V2 H1 sb Sb Ab.
        assert (Hp : py_eq (st_vars (set_stack st l2)) v2 v1 = Ok (str_eqb sb sa)).
        { unfold py_eq. destruct Sa as [->|[[n ->] ->]], Sb as [->|[[m ->] ->]]; reflexivity. }
        rewrite Hp in H. cbn in H. okinv H. by_rule D_eq_str.
    - (* * *) destruct s as [|x [|y r]]; cbn in C; try discriminate C;
      pop1 Hs v1 l1 E1 V1 Hs1; pop1 Hs1 v2 l2 E2 V2 Hs2; subst l1; revert H;
      cbn [Bst.builtin_step]; rewrite (pop_cons _ _ _ E1); cbn [bind]; rewrite pop_set_stack; cbn [bind]; intros H.
      cond C. as_sv V1 H0 sa Sa Aa. as_sv V2 H1 sb Sb Ab.
      assert (X : exists z, v2 = VInt z -> False) by (exists 0; intros ->; destruct Sb as [?|[[? ?] _]]; discriminate).
      destruct v2 as [zz| | | |]; try (destruct Sb as [Q|[[? Q] _]]; discriminate Q);
      destruct v1 as [zz'| | | |]; try (destruct Sa as [Q|[[? Q] _]]; discriminate Q);
        cbn in H, Aa, Ab; okinv H; okinv Aa; okinv Ab; by_rule D_concat.
    - (* := *)
      destruct s as [|x [|y r]]; cbn in C; try discriminate C; destruct x as [| | | |nm]; cbn in C; try discriminate C.
      pop1 Hs v1 l1 E1 V1 Hs1. pop1 Hs1 v2 l2 E2 V2 Hs2. subst l1.
      assert (v1 = VRef nm) by (inversion V1; reflexivity). subst v1. revert H.
      cbn [Bst.builtin_step]. rewrite (pop_cons _ _ _ E1). cbn [bind]. rewrite pop_set_stack. cbn [bind].
      unfold assign. change (st_vars (set_stack st l2)) with (st_vars st).
      destruct (alookup str_eqb nm G) as [o|] eqn:EG; [|discriminate C].
      destruct (G_lookup G ent tys st nm o Hok EG) as (o' & Eo & K). rewrite Eo.
      destruct o as [bb|vv|vv|en|en|fn| |fb]; try discriminate C; cbn in K.
      + destruct K as [z0 ->]. cond C. as_int V2 B. intros H. okinv H. by_rule D_assign_int.
      + destruct K as (v0 & -> & Sv0). cond C. as_sv V2 B sa Sa Aa. rewrite Aa. intros H. okinv H.
        by_rule D_assign_str.
      + subst o'. cond C. as_int V2 H0. destruct (ok_ent G ent tys st Hok H) as [(key & e & Ec & Ety) _].
        change (st_cur (set_stack st l2)) with (st_cur st). rewrite Ec. intros H1. okinv H1.
        by_rule D_assign_eint.
      + subst o'. cond C. as_sv V2 H0 sa Sa Aa. rewrite Aa. destruct (ok_ent G ent tys st Hok H) as [(key & e & Ec & Ety) _].
        change (st_cur (set_stack st l2)) with (st_cur st). rewrite Ec. intros H1. okinv H1.
        by_rule D_assign_estr.
    - (* + *) destruct s as [|x [|y r]]; cbn in C; try discriminate C;
      pop1 Hs v1 l1 E1 V1 Hs1; pop1 Hs1 v2 l2 E2 V2 Hs2; subst l1; revert H;
      cbn [Bst.builtin_step]; rewrite (pop_cons _ _ _ E1); cbn [bind]; rewrite pop_set_stack; cbn [bind]; intros H.
      cond C. as_int V1 H0. as_int V2 H1. cbn in H. okinv H. by_rule D_plus.
    - (* - *) destruct s as [|x [|y r]]; cbn in C; try discriminate C;
      pop1 Hs v1 l1 E1 V1 Hs1; pop1 Hs1 v2 l2 E2 V2 Hs2; subst l1; revert H;
      cbn [Bst.builtin_step]; rewrite (pop_cons _ _ _ E1); cbn [bind]; rewrite pop_set_stack; cbn [bind]; intros H.
      cond C. as_int V1 H0. as_int V2 H1. cbn in H. okinv H. by_rule D_minus.
    - (* add.period$ *) destruct s as [|x r]; cbn in C; try discriminate C;
      pop1 Hs v1 l1 E1 V1 Hs1; revert H;
      cbn [Bst.builtin_step]; rewrite (pop_cons _ _ _ E1); cbn [bind]; intros H.
      cond C. as_sv V1 B sa Sa Aa. destruct v1 as [| t | n | |]; try discriminate Aa.
      + destruct t as [|c t].
        * okinv H. replace (push (VStr []) (set_stack st l1)) with st by (destruct st; cbn in *; subst; reflexivity).
          by_rule D_add_period_empty. left; reflexivity.
        * assert (H' : Ok (set_stack st (VStr (if ends_with_terminator (c :: t) then c :: t else (c :: t) ++ [46%N]) :: l1)) = Ok st')
            by (rewrite <- H; destruct (ends_with_terminator (c :: t)); reflexivity).
          okinv H'. by_rule D_add_period.
      + okinv H. replace (push (VMissing n) (set_stack st l1)) with st by (destruct st; cbn in *; subst; reflexivity).
        by_rule D_add_period_empty. right; eauto.
    - (* change.case$ *) destruct s as [|x [|y r]]; cbn in C; try discriminate C;
      pop1 Hs v1 l1 E1 V1 Hs1; pop1 Hs1 v2 l2 E2 V2 Hs2; subst l1; revert H;
      cbn [Bst.builtin_step]; rewrite (pop_cons _ _ _ E1); cbn [bind]; rewrite pop_set_stack; cbn [bind]; intros H.
      cond C. as_sv V1 H0 sm Sm Am. as_sv V2 H1 sa Sa Aa.
      destruct v1 as [| m | n | |]; try discriminate Am; [|discriminate H].
      destruct m as [|c m]; [discriminate H|].
      destruct (N.eqb (to_lower c) 108) eqn:E1'; cbn [orb] in H.
      { rewrite Aa in H. viabind H t Et. okinv H. apply N.eqb_eq in E1'. by_rule D_change_case. }
      destruct (N.eqb (to_lower c) 117) eqn:E2'; cbn [orb] in H.
      { rewrite Aa in H. viabind H t Et. okinv H. apply N.eqb_eq in E2'. by_rule D_change_case. }
      destruct (N.eqb (to_lower c) 116) eqn:E3'; cbn [orb] in H; [|discriminate H].
      rewrite Aa in H. viabind H t Et. okinv H. apply N.eqb_eq in E3'. by_rule D_change_case.
    - (* chr.to.int$ *) destruct s as [|x r]; cbn in C; try discriminate C;
      pop1 Hs v1 l1 E1 V1 Hs1; revert H;
      cbn [Bst.builtin_step]; rewrite (pop_cons _ _ _ E1); cbn [bind]; intros H.
      cond C. as_sv V1 B sa Sa Aa. rewrite Aa in H. destruct sa as [|c [|c2 sa]]; try discriminate H. okinv H.
      destruct Sa as [->|[_ Q]]; [|discriminate Q]. by_rule D_chr_to_int.
    - (* cite$ *) cbn in C. cond C. destruct (ok_ent _ _ _ _ Hok eq_refl) as [(key & e & Ec & Ety) _].
      cbn in H. rewrite Ec in H. okinv H. by_rule D_cite.
    - (* duplicate$ *) destruct s as [|x r]; cbn in C; try discriminate C;
      pop1 Hs v1 l1 E1 V1 Hs1; revert H;
      cbn [Bst.builtin_step]; rewrite (pop_cons _ _ _ E1); cbn [bind]; intros H.
      okinv H. by_rule D_duplicate.
    - (* empty$ *) destruct s as [|x r]; cbn in C; try discriminate C;
      pop1 Hs v1 l1 E1 V1 Hs1; revert H;
      cbn [Bst.builtin_step]; rewrite (pop_cons _ _ _ E1); cbn [bind]; intros H.
      cond C. as_sv V1 B sa Sa Aa. destruct v1 as [| t | n | |]; try discriminate Aa; cbn in H, Aa; okinv H; okinv Aa.
      + by_rule (D_empty fmt_name cw st (VStr sa) sa).
      + by_rule (D_empty fmt_name cw st (VMissing n) []).
    - (* format.name$ *) destruct s as [|x [|y [|w r]]]; cbn in C; try discriminate C;
      pop1 Hs v1 l1 E1 V1 Hs1; pop1 Hs1 v2 l2 E2 V2 Hs2; subst l1; pop1 Hs2 v3 l3 E3 V3 Hs3; subst l2; revert H;
      cbn [Bst.builtin_step]; rewrite (pop_cons _ _ _ E1); cbn [bind]; rewrite pop_set_stack; cbn [bind];
      rewrite pop_set_stack; cbn [bind]; intros H.
      cond C. as_sv V1 H0 sf Sf Af. as_int V2 H2. as_sv V3 H1 sn Sn An. revert H. unfold format_name_call.
      assert (Hh : hashable (st_vars st) v3 && hashable (st_vars st) (VInt z) && hashable (st_vars st) v1 = true)
        by (destruct Sf as [->|[[? ->] _]], Sn as [->|[[? ->] _]]; reflexivity).
      cbn [st_vars set_stack]. rewrite Hh. cbn [negb]. rewrite An, Af. intros H.
      destruct (split_name_list sn) as [parts| | |] eqn:Ep; cbn [bind] in H; try discriminate H.
      destruct ((1 <=? z) && (z <=? Z.of_nat (length parts)))%bool eqn:Er; cbn [bind] in H; [|discriminate H].
      destruct (fmt_name (nth (Z.to_nat (z - 1)) parts []) sf) as [t| | |] eqn:Ef; cbn [bind] in H; try discriminate H.
      okinv H. apply andb_prop in Er as [R1 R2]. apply Z.leb_le in R1, R2.
      by_rule D_format_name.
    - (* int.to.chr$ *) destruct s as [|x r]; cbn in C; try discriminate C;
      pop1 Hs v1 l1 E1 V1 Hs1; revert H;
      cbn [Bst.builtin_step]; rewrite (pop_cons _ _ _ E1); cbn [bind]; intros H.
      cond C. as_int V1 B. destruct ((z <? 0) || (1114111 <? z))%bool eqn:Ez; [discriminate H|]. okinv H.
      apply orb_false_elim in Ez as [Z1 Z2]. apply Z.ltb_ge in Z1, Z2. by_rule D_int_to_chr.
    - (* int.to.str$ *) destruct s as [|x r]; cbn in C; try discriminate C;
      pop1 Hs v1 l1 E1 V1 Hs1; revert H;
      cbn [Bst.builtin_step]; rewrite (pop_cons _ _ _ E1); cbn [bind]; intros H.
      cond C. as_int V1 B. cbn in H. okinv H. by_rule D_int_to_str.
    - (* missing$ *) destruct s as [|x r]; cbn in C; try discriminate C;
      pop1 Hs v1 l1 E1 V1 Hs1; revert H;
      cbn [Bst.builtin_step]; rewrite (pop_cons _ _ _ E1); cbn [bind]; intros H.
      cond C. as_sv V1 B sa Sa Aa. okinv H. by_rule D_missing.
    - (* newline$ *) cbn in C. clear C. cbn [Bst.builtin_step] in H. unfold do_newline in H.
      assert (J : exists ss, all_strs (st_buf st) ss).
      { clear H. pose proof (ok_buf G ent tys st Hok) as Bf. induction Bf as [|v b Sv _ IHb]; [exists []; constructor|].
        destruct (strlike_str_of _ Sv) as (t & St & _). destruct IHb as [ss Hss]. exists (t :: ss). constructor; assumption. }
      destruct J as [ss Hss]. rewrite (join_buffer_all _ _ Hss) in H. cbn [bind] in H.
      unfold default_width, default_indent in H.
      destruct (wrap (concat ss) 79 [c_space; c_space]) as [w| | |] eqn:Ew; cbn [bind] in H; try discriminate H.
      okinv H. by_rule D_newline.
    - (* num.names$ *) destruct s as [|x r]; cbn in C; try discriminate C;
      pop1 Hs v1 l1 E1 V1 Hs1; revert H;
      cbn [Bst.builtin_step]; rewrite (pop_cons _ _ _ E1); cbn [bind]; intros H.
      cond C. as_sv V1 B sa Sa Aa. rewrite Aa in H. viabind H ps Ep. okinv H. by_rule D_num_names.
    - (* pop$ *) destruct s as [|x r]; cbn in C; try discriminate C;
      pop1 Hs v1 l1 E1 V1 Hs1; revert H;
      cbn [Bst.builtin_step]; rewrite (pop_cons _ _ _ E1); cbn [bind]; intros H.
      okinv H. by_rule D_pop.
    - (* preamble$ *) cbn in C. cond C. destruct (ok_ent _ _ _ _ Hok eq_refl) as [_ [d Ed]].
      cbn in H. rewrite Ed in H. okinv H. by_rule D_preamble.
    - (* purify$ *) destruct s as [|x r]; cbn in C; try discriminate C;
      pop1 Hs v1 l1 E1 V1 Hs1; revert H;
      cbn [Bst.builtin_step]; rewrite (pop_cons _ _ _ E1); cbn [bind]; intros H.
      cond C. as_sv V1 B sa Sa Aa. rewrite Aa in H. viabind H t Et. okinv H. by_rule D_purify.
    - (* quote$ *) cbn in H. okinv H. apply D_quote.
    - (* skip$ *) cbn in H. okinv H. apply D_skip.
    - (* substring$ *) destruct s as [|x [|y [|w r]]]; cbn in C; try discriminate C;
      pop1 Hs v1 l1 E1 V1 Hs1; pop1 Hs1 v2 l2 E2 V2 Hs2; subst l1; pop1 Hs2 v3 l3 E3 V3 Hs3; subst l2; revert H;
      cbn [Bst.builtin_step]; rewrite (pop_cons _ _ _ E1); cbn [bind]; rewrite pop_set_stack; cbn [bind];
      rewrite pop_set_stack; cbn [bind]; intros H.
      cond C. as_int V1 H0. as_int V2 H2. as_sv V3 H1 sa Sa Aa.
      assert (H' : Ok (set_stack st (VStr (bibtex_substring sa z0 z) :: l3)) = Ok st').
      { rewrite <- H. destruct z0; [|rewrite Aa; reflexivity|rewrite Aa; reflexivity].
        Transparent bibtex_substring. reflexivity. Opaque bibtex_substring. }
      okinv H'. by_rule D_substring.
    - (* stack$ *) cbn in C. cond C. cbn [Bst.builtin_step] in H.
      assert (J : exists ts, Forall2 (prints_as) (st_stack st) ts /\ print_all (st_stack st) = Ok (concat (map (fun t => t ++ [c_nl]) ts))).
      { clear H Hok. revert B. generalize (st_stack st) Hs. clear Hs. intros l Hl.
        induction Hl as [|v a l s' Hv _ IHl]; cbn; intros B; [exists []; split; [constructor|reflexivity]|].
        apply andb_prop in B as [B1 B2]. destruct (IHl B2) as (ts & F & Et). rewrite Et.
        apply orb_prop in B1 as [B1|B1].
        - destruct (vabs_int _ _ Hv B1) as [z ->]. exists (Z_to_str z :: ts). split; [constructor; [left; eauto|exact F]|].
          cbn. rewrite <- app_assoc. reflexivity.
        - destruct (strlike_str_of _ (vabs_str _ _ Hv B1)) as (t & St & At).
          assert (Pv : py_str v = Ok t) by (destruct St as [->|[[n ->] ->]]; reflexivity).
          exists (t :: ts). split; [constructor; [right; exact St|exact F]|]. rewrite Pv. cbn. rewrite <- app_assoc. reflexivity. }
      destruct J as (ts & F & P). rewrite P in H. cbn in H. okinv H. by_rule D_stack.
    - (* swap$ *) destruct s as [|x [|y r]]; cbn in C; try discriminate C;
      pop1 Hs v1 l1 E1 V1 Hs1; pop1 Hs1 v2 l2 E2 V2 Hs2; subst l1; revert H;
      cbn [Bst.builtin_step]; rewrite (pop_cons _ _ _ E1); cbn [bind]; rewrite pop_set_stack; cbn [bind]; intros H.
      okinv H. by_rule D_swap.
    - (* text.length$ *) destruct s as [|x r]; cbn in C; try discriminate C;
      pop1 Hs v1 l1 E1 V1 Hs1; revert H;
      cbn [Bst.builtin_step]; rewrite (pop_cons _ _ _ E1); cbn [bind]; intros H.
      cond C. as_sv V1 B sa Sa Aa. rewrite Aa in H. viabind H t Et. okinv H. by_rule D_text_length.
    - (* text.prefix$ *) destruct s as [|x [|y r]]; cbn in C; try discriminate C;
      pop1 Hs v1 l1 E1 V1 Hs1; pop1 Hs1 v2 l2 E2 V2 Hs2; subst l1; revert H;
      cbn [Bst.builtin_step]; rewrite (pop_cons _ _ _ E1); cbn [bind]; rewrite pop_set_stack; cbn [bind]; intros H.
      cond C. as_int V1 H0. as_sv V2 H1 sa Sa Aa.
      destruct (0 <? z) eqn:Ez.
      + rewrite Aa in H. viabind H t Et. okinv H. by_rule D_text_prefix.
      + okinv H. by_rule D_text_prefix.
        Transparent bibtex_prefix. unfold bibtex_prefix. rewrite Ez. reflexivity. Opaque bibtex_prefix.
    - (* top$ *) destruct s as [|x r]; cbn in C; try discriminate C;
      pop1 Hs v1 l1 E1 V1 Hs1; revert H;
      cbn [Bst.builtin_step]; rewrite (pop_cons _ _ _ E1); cbn [bind]; intros H.
      cond C. apply orb_prop in B as [B|B].
      + as_int V1 B. cbn in H. okinv H. by_rule D_top_int.
      + as_sv V1 B sa Sa Aa.
        assert (Hp : py_str v1 = Ok sa) by (destruct Sa as [->|[[n ->] ->]]; reflexivity).
        rewrite Hp in H. cbn in H. okinv H. by_rule D_top_str.
    - (* type$ *) cbn in C. cond C. destruct (ok_ent _ _ _ _ Hok eq_refl) as [(key & e & Ec & Ety) _].
      cbn in H. rewrite Ec in H. okinv H. by_rule D_type.
    - (* warning$ *) destruct s as [|x r]; cbn in C; try discriminate C;
      pop1 Hs v1 l1 E1 V1 Hs1; revert H;
      cbn [Bst.builtin_step]; rewrite (pop_cons _ _ _ E1); cbn [bind]; intros H.
      cond C. as_sv V1 B sa Sa Aa. okinv H. by_rule D_warning.
    - (* width$ *) destruct s as [|x r]; cbn in C; try discriminate C;
      pop1 Hs v1 l1 E1 V1 Hs1; revert H;
      cbn [Bst.builtin_step]; rewrite (pop_cons _ _ _ E1); cbn [bind]; intros H.
      cond C. as_sv V1 B sa Sa Aa. rewrite Aa in H. viabind H t Et. okinv H. by_rule D_width.
    - (* write$ *) destruct s as [|x r]; cbn in C; try discriminate C;
      pop1 Hs v1 l1 E1 V1 Hs1; revert H;
      cbn [Bst.builtin_step]; rewrite (pop_cons _ _ _ E1); cbn [bind]; intros H.
      cond C. as_sv V1 B sa Sa Aa. okinv H. by_rule D_write.
  Qed.
End DocSound.
