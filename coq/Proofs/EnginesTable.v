(* Proofs/EnginesTable.v -- the program-to-variable-table link for items_per_citation: a FUNCTION command of the
   style program is what the interpreter's variable table holds under that name at every later command, and a built-in
   stays what it is (every declaring command goes through add_variable: a bound name cannot be re-declared). *)
From Pybtex Require Import Base.Prelude Base.PyChar Base.PyStr Model.BibtexStr Model.Wrap Model.Bst.
From Pybtex Require Import Proofs.EnginesSort Proofs.EnginesProbe Proofs.EnginesItems.

Definition code_kept (avoid : str -> bool) (st st' : state) : Prop :=
  forall n o, is_code o = true -> avoid n = false ->
    alookup str_eqb n (st_vars st) = Some o -> alookup str_eqb n (st_vars st') = Some o.

Lemma code_kept_refl a st : code_kept a st st.
Proof. intros n o _ _ H. exact H. Qed.
Lemma code_kept_trans a s1 s2 s3 : code_kept a s1 s2 -> code_kept a s2 s3 -> code_kept a s1 s3.
Proof. intros H1 H2 n o Ho Ha H. apply (H2 n o Ho Ha). now apply (H1 n o Ho Ha). Qed.
Lemma keeps_code_kept a st st' : keeps st st' -> code_kept a st st'.
Proof. intros K n o Ho _ H. now apply (k_code _ _ K). Qed.

Lemma aset_absent {V} n (v : V) l x o : alookup str_eqb n l = None ->
  alookup str_eqb x l = Some o -> alookup str_eqb x (aset str_eqb n v l) = Some o.
Proof.
  intros Hn Hx. destruct (str_eqb x n) eqn:E.
  - destruct (str_eqb_spec x n) as [->|]; [congruence|discriminate].
  - now rewrite (alookup_aset_other _ _ _ _ E).
Qed.

Section Table.
  Variable fmt_name : str -> str -> res str.
  Variable cw : char -> Z.

  Lemma add_variable_kept a st n o st' : add_variable st n o = Ok st' -> code_kept a st st'.
  Proof.
    unfold add_variable, vlookup, vset. destruct (alookup str_eqb (lower n) (st_vars st)) eqn:E; [discriminate|].
    intros H; inversion H; subst. intros x c _ _ Hx. cbn [st_vars set_vars]. now apply aset_absent.
  Qed.
  Lemma add_variable_binds st n o st' : add_variable st n o = Ok st' -> alookup str_eqb (lower n) (st_vars st') = Some o.
  Proof.
    unfold add_variable, vlookup, vset. destruct (alookup str_eqb (lower n) (st_vars st)); [discriminate|].
    intros H; inversion H; subst. cbn [st_vars set_vars]. apply alookup_aset_same.
  Qed.
  Lemma declare_kept a mk : forall ids st st', declare mk ids st = Ok st' -> code_kept a st st'.
  Proof.
    induction ids as [|i r IH]; intros st st' H; cbn [declare] in H; [inversion H; subst; apply code_kept_refl|].
    destruct (name_of i) as [n| | |]; cbn [bind] in H; try discriminate.
    destruct (add_variable st n (mk n)) as [s1| | |] eqn:E; cbn [bind] in H; try discriminate.
    eapply code_kept_trans; [eapply add_variable_kept; exact E|eapply IH; exact H].
  Qed.

  (* INTEGERS / STRINGS declare like ENTRY and FUNCTION (add_variable: an already bound name is an error) *)
  Lemma declare_global_kept a o ids st st' : declare_global o ids st = Ok st' -> code_kept a st st'.
  Proof. unfold declare_global. apply declare_kept. Qed.
  Definition nothing (_ : str) : bool := false.

  Lemma iterate_code_kept a fuel f : forall keys st st', iterate fmt_name cw fuel f keys st = Ok st' -> code_kept a st st'.
  Proof.
    induction keys as [|k r IH]; intros st st' H; cbn [iterate] in H; [inversion H; subst; apply code_kept_refl|].
    destruct (st_db st) as [d|]; [|discriminate].
    destruct (alookup str_eqb k (r_entries d)) as [e|]; [|discriminate].
    destruct (exec fmt_name cw fuel (set_cur st (Some (k, e))) [IId f]) as [s1| | |] eqn:E; cbn [bind] in H; try discriminate.
    eapply code_kept_trans; [|eapply IH; exact H].
    intros n o Ho Ha Hn. apply (keeps_code_kept a _ _ (exec_keeps fmt_name cw _ _ _ _ E) n o Ho Ha). exact Hn.
  Qed.

  Lemma run_command_code_kept fuel st c st' : run_command fmt_name cw fuel st c = Ok st' ->
    code_kept nothing st st'.
  Proof.
    destruct c as [name args]. unfold run_command. intros H.
    destruct (str_eqb (lower name) nm_entry) eqn:E1.
    { destruct args as [|a1 [|a2 [|a3 [|? ?]]]]; try discriminate.
      destruct (declare OField a1 st) as [s1| | |] eqn:D1; cbn [bind] in H; try discriminate.
      destruct (add_variable s1 nm_crossref OCrossref) as [s2| | |] eqn:D2; cbn [bind] in H; try discriminate.
      destruct (declare OEInt a2 s2) as [s3| | |] eqn:D3; cbn [bind] in H; try discriminate.
      eapply code_kept_trans; [eapply declare_kept; exact D1|]. eapply code_kept_trans; [eapply add_variable_kept; exact D2|].
      eapply code_kept_trans; [eapply declare_kept; exact D3|eapply declare_kept; exact H]. }
    destruct (str_eqb (lower name) nm_execute) eqn:E2.
    { destruct args as [|g [|? ?]]; try discriminate.
      destruct (first_of g) as [i| | |]; cbn [bind] in H; try discriminate.
      apply keeps_code_kept. eapply exec_keeps; exact H. }
    destruct (str_eqb (lower name) nm_function) eqn:E3.
    { destruct args as [|g [|b [|? ?]]]; try discriminate.
      destruct (first_of g) as [i| | |]; cbn [bind] in H; try discriminate.
      destruct (lit_of i) as [[z|s]| | |]; cbn [bind] in H; try discriminate. eapply add_variable_kept; exact H. }
    destruct (str_eqb (lower name) nm_integers) eqn:E4.
    { destruct args as [|g [|? ?]]; try discriminate. eapply declare_global_kept; exact H. }
    destruct (str_eqb (lower name) nm_strings) eqn:E5.
    { destruct args as [|g [|? ?]]; try discriminate. eapply declare_global_kept; exact H. }
    destruct (str_eqb (lower name) nm_iterate || str_eqb (lower name) nm_reverse) eqn:E6.
    { destruct args as [|g [|? ?]]; try discriminate.
      destruct (first_of g) as [i| | |]; cbn [bind] in H; try discriminate.
      destruct (name_of i) as [f| | |]; cbn [bind] in H; try discriminate.
      destruct (vlookup f (st_vars st)); [|discriminate]. eapply iterate_code_kept; exact H. }
    destruct (str_eqb (lower name) nm_macro) eqn:E7.
    { destruct args as [|g1 [|g2 [|? ?]]]; try discriminate.
      destruct (first_of g1) as [i1| | |]; cbn [bind] in H; try discriminate.
      destruct (lit_of i1) as [k| | |]; cbn [bind] in H; try discriminate.
      destruct (first_of g2) as [i2| | |]; cbn [bind] in H; try discriminate.
      destruct (lit_of i2) as [v| | |]; cbn [bind] in H; try discriminate.
      inversion H; subst. intros n o _ _ Hn; exact Hn. }
    destruct (str_eqb (lower name) nm_read) eqn:E8.
    { destruct args; [|discriminate]. destruct (st_reads st); [discriminate|]. inversion H; subst. intros n o _ _ Hn; exact Hn. }
    destruct (str_eqb (lower name) nm_sort) eqn:E9.
    { destruct args; [|discriminate].
      destruct (sort_keys st (st_cites st)) as [ks| | |]; cbn [bind] in H; try discriminate. inversion H; subst. intros n o _ _ Hn; exact Hn. }
    inversion H; subst. apply code_kept_refl.
  Qed.

  (* a FUNCTION command binds its name to its body *)
  Lemma function_binds fuel st nm body st' :
    run_command fmt_name cw fuel st (Cmd nm_function [[IId nm]; body]) = Ok st' ->
    alookup str_eqb (lower nm) (st_vars st') = Some (OFun body).
  Proof. intros H. cbn in H. eapply add_variable_binds; exact H. Qed.

  (* ... and the binding is still there after any later commands that do not re-declare the name *)
  Lemma run_keeps_binding fuel n o : is_code o = true -> forall cs st st',
    run fmt_name cw fuel st cs = Ok st' ->
    alookup str_eqb n (st_vars st) = Some o -> alookup str_eqb n (st_vars st') = Some o.
  Proof.
    intros Ho. induction cs as [|c r IH]; intros st st' H Hl; cbn [run] in H; [inversion H; subst; exact Hl|].
    destruct (run_command fmt_name cw fuel st c) as [s1| | |] eqn:E; cbn [bind] in H; try discriminate.
    apply (IH s1 st' H). exact (run_command_code_kept fuel st c s1 E n o Ho eq_refl Hl).
  Qed.

  Theorem function_in_table fuel pre nm body post st0 st :
    run fmt_name cw fuel st0 (pre ++ Cmd nm_function [[IId nm]; body] :: post) = Ok st ->
    alookup str_eqb (lower nm) (st_vars st) = Some (OFun body).
  Proof.
    intros H.
    assert (Happ : forall a b s, run fmt_name cw fuel s (a ++ b) = (do s1 <- run fmt_name cw fuel s a; run fmt_name cw fuel s1 b)).
    { induction a as [|c a IHa]; intros b s; cbn [app run bind]; [reflexivity|].
      destruct (run_command fmt_name cw fuel s c); cbn [bind]; auto. }
    rewrite Happ in H. destruct (run fmt_name cw fuel st0 pre) as [s1| | |]; cbn [bind] in H; try discriminate.
    cbn [run] in H. destruct (run_command fmt_name cw fuel s1 (Cmd nm_function [[IId nm]; body])) as [s2| | |] eqn:E; cbn [bind] in H; try discriminate.
    eapply (run_keeps_binding fuel (lower nm) (OFun body) eq_refl post s2 st H).
    eapply function_binds; exact E.
  Qed.

  (* from the start of a run: write$ / cite$ stay the built-ins, so the interpreter "has the code" of its own table *)
  Theorem table_has_code fuel cs cites reads st :
    run fmt_name cw fuel (initial_state cites reads) cs = Ok st -> has_code (st_vars st) st.
  Proof.
    intros H. split; [|split; auto]. split.
    - apply (run_keeps_binding fuel n_cite_ (OBuiltin B_cite) eq_refl cs _ st H). reflexivity.
    - apply (run_keeps_binding fuel n_write_ (OBuiltin B_write) eq_refl cs _ st H). reflexivity.
  Qed.
End Table.
