(* Proofs/CIDict.v -- lock-step invariant of (_dict, _keys) and refinement of the model of the
   mapping classes (Model/CIDict.v) to the reference map (Spec/CIMap.v), for an abstract key type
   with a boolean equality that decides equality and an idempotent `lower`. *)
From Pybtex Require Import Base.Prelude Model.CIDict Spec.CIMap Spec.CIRel.

Section P.
Variables K V : Type.
Variable keqb : K -> K -> bool.
Variable lower : K -> K.
Hypothesis keqb_spec : forall a b, reflect (a = b) (keqb a b).
Hypothesis lower_idem : forall k, lower (lower k) = lower k.

Local Notation cid := (cid K V).
Local Notation smap := (smap K V).
Local Notation aget := (al_get K keqb).
Local Notation aset := (al_set K keqb).
Local Notation amem := (al_mem K keqb).
Local Notation aremove := (al_remove K keqb).
Local Notation adel := (al_del K keqb).
Local Notation pydict := (py_dict K keqb).
Local Notation sfind := (sm_find K V keqb).
Local Notation sput := (sm_put K V keqb).
Local Notation sdrop := (sm_drop K V keqb).
Local Notation sset := (sm_set K V keqb lower).
Local Notation sget := (sm_get K V keqb lower).
Local Notation shas := (sm_has K V keqb lower).
Local Notation zip3 := (zip3 K V).
Local Notation abs := (abs K V).
Local Notation lock := (lock K V).
Local Notation sinv := (sinv K V lower).
Local Notation inv := (inv K V lower).
Local Notation same_kind := (same_kind K V).
Local Notation cls_ok := (cls_ok K V).
Local Notation lookup_spec := (lookup_spec K V keqb lower).

Lemma keqb_refl k : keqb k k = true.
Proof. destruct (keqb_spec k k); congruence. Qed.
Lemma keqb_eq a b : keqb a b = true -> a = b.
Proof. destruct (keqb_spec a b); congruence. Qed.
Lemma keqb_neq a b : keqb a b = false -> a <> b.
Proof. destruct (keqb_spec a b); congruence. Qed.

(* ------------------------------------------------------------------ abstraction *)

Lemma zip3_fst d ks : lock d ks -> map fst (zip3 d ks) = map fst ks.
Proof.
  revert ks. induction d as [|[kl v] d IH]; intros [|[kl' sp] ks] H; cbn in *; try congruence; try discriminate.
  injection H as -> H. f_equal. apply IH; exact H.
Qed.
Lemma zip3_keys d ks : lock d ks -> sm_keys K V (zip3 d ks) = map snd ks.
Proof.
  revert ks. induction d as [|[kl v] d IH]; intros [|[kl' sp] ks] H; cbn in *; try congruence; try discriminate.
  injection H as -> H. f_equal. apply IH; exact H.
Qed.
Lemma zip3_length d ks : lock d ks -> length (zip3 d ks) = length d /\ length d = length ks.
Proof.
  revert ks. induction d as [|[kl v] d IH]; intros [|[kl' sp] ks] H; cbn in *; try discriminate; auto.
  injection H as -> H. destruct (IH ks H). split; congruence.
Qed.
Lemma zip3_get_dict d ks kl : lock d ks -> aget kl d = option_map snd (sfind kl (zip3 d ks)).
Proof.
  revert ks. induction d as [|[k' v] d IH]; intros [|[k'' sp] ks] H; cbn in *; try discriminate; auto.
  injection H as -> H. destruct (keqb kl k''); cbn; auto.
Qed.
Lemma zip3_get_keys d ks kl : lock d ks -> aget kl ks = option_map fst (sfind kl (zip3 d ks)).
Proof.
  revert ks. induction d as [|[k' v] d IH]; intros [|[k'' sp] ks] H; cbn in *; try discriminate; auto.
  injection H as -> H. destruct (keqb kl k''); cbn; auto.
Qed.
Lemma zip3_set d ks kl sp v : lock d ks ->
  lock (aset kl v d) (aset kl sp ks) /\ zip3 (aset kl v d) (aset kl sp ks) = sput kl sp v (zip3 d ks).
Proof.
  revert ks. induction d as [|[k' v'] d IH]; intros [|[k'' sp'] ks] H; cbn in *; try discriminate.
  - split; reflexivity.
  - injection H as -> H. destruct (keqb kl k'') eqn:E; cbn.
    + split; [unfold lock; cbn; f_equal; exact H | reflexivity].
    + destruct (IH ks H) as [L Z]. split; [unfold lock in *; cbn; f_equal; exact L | f_equal; exact Z].
Qed.
Lemma zip3_remove d ks kl : lock d ks ->
  lock (aremove kl d) (aremove kl ks) /\ zip3 (aremove kl d) (aremove kl ks) = sdrop kl (zip3 d ks).
Proof.
  revert ks. induction d as [|[k' v'] d IH]; intros [|[k'' sp'] ks] H; cbn in *; try discriminate.
  - split; reflexivity.
  - injection H as -> H. destruct (keqb kl k'') eqn:E; cbn.
    + split; [exact H | reflexivity].
    + destruct (IH ks H) as [L Z]. split; [unfold lock in *; cbn; f_equal; exact L | f_equal; exact Z].
Qed.

(* ------------------------------------------------------------------ the reference map's own invariant *)

Lemma sfind_none_notin kl m : sfind kl m = None <-> ~ In kl (map fst m).
Proof.
  induction m as [|[k' e] m IH]; cbn; [tauto|].
  destruct (keqb_spec kl k') as [->|N].
  - split; [discriminate | intros H; exfalso; apply H; auto].
  - rewrite IH. split; [intros H [E|I]; [congruence | tauto] | tauto].
Qed.
Lemma sfind_in e m : NoDup (map fst m) -> In e m -> sfind (fst e) m = Some (snd e).
Proof.
  induction m as [|[k' e'] m IH]; cbn; [tauto|]. intros ND [<-|I]; cbn.
  - rewrite keqb_refl. reflexivity.
  - inversion ND as [|? ? NI ND']; subst. destruct (keqb_spec (fst e) k') as [E|N].
    + exfalso. apply NI. rewrite <- E. apply in_map. exact I.
    + apply IH; assumption.
Qed.
Lemma sput_fst kl sp v m :
  map fst (sput kl sp v m) = match sfind kl m with Some _ => map fst m | None => map fst m ++ [kl] end.
Proof.
  induction m as [|[k' e] m IH]; cbn; [reflexivity|].
  destruct (keqb kl k'); cbn; [reflexivity|]. rewrite IH. destruct (sfind kl m); reflexivity.
Qed.
Lemma sput_inv kl sp v m : sinv m -> lower sp = kl -> sinv (sput kl sp v m).
Proof.
  intros [ND F] L. subst kl. set (kl := lower sp) in *. assert (L : lower sp = kl) by reflexivity. clearbody kl. split.
  - rewrite sput_fst. destruct (sfind kl m) eqn:E; [exact ND|].
    apply sfind_none_notin in E. clear F.
    induction (map fst m) as [|x l IHl]; cbn; [constructor; [tauto|constructor]|].
    inversion ND; subst. constructor.
    + rewrite in_app_iff. cbn. intros [I|[I|[]]]; [tauto | subst; apply E; cbn; auto].
    + apply IHl; [assumption | cbn in E; tauto].
  - clear ND. induction m as [|[k' e] m IH]; cbn.
    + constructor; [exact L | constructor].
    + inversion F as [|? ? Fe Fm]. destruct (keqb_spec kl k') as [Ek|N]; constructor; cbn; auto. congruence.
Qed.
Lemma sdrop_incl kl m x : In x (map fst (sdrop kl m)) -> In x (map fst m).
Proof.
  induction m as [|[k' e] m IH]; cbn; [tauto|]. destruct (keqb kl k'); cbn; [tauto|]. intros [E|I]; auto.
Qed.
Lemma sdrop_inv kl m : sinv m -> sinv (sdrop kl m).
Proof.
  intros [ND F]. split.
  - induction m as [|[k' e] m IH]; cbn; [constructor|]. cbn in ND. inversion ND; subst. inversion F; subst.
    destruct (keqb kl k'); [assumption|]. cbn. constructor; [|apply IH; assumption].
    intros I. apply sdrop_incl in I. tauto.
  - clear ND. induction m as [|[k' e] m IH]; cbn; [constructor|]. inversion F; subst.
    destruct (keqb kl k'); [assumption|]. constructor; auto.
Qed.
Lemma sdrop_find kl m : NoDup (map fst m) -> forall k, sfind k (sdrop kl m) = if keqb k kl then None else sfind k m.
Proof.
  induction m as [|[k' e] m IH]; cbn; intros ND k.
  - destruct (keqb k kl); reflexivity.
  - inversion ND as [|? ? NI ND']; subst. destruct (keqb_spec kl k') as [->|N].
    + destruct (keqb_spec k k') as [->|N']; [apply sfind_none_notin; exact NI | reflexivity].
    + cbn. destruct (keqb_spec k k') as [->|N'].
      * destruct (keqb_spec k' kl); [congruence | reflexivity].
      * apply IH; assumption.
Qed.
Lemma sput_find kl sp v m k : sfind k (sput kl sp v m) = if keqb k kl then Some (sp, v) else sfind k m.
Proof.
  induction m as [|[k' e] m IH]; cbn.
  - destruct (keqb k kl); reflexivity.
  - destruct (keqb_spec kl k') as [->|N]; cbn.
    + destruct (keqb k k'); reflexivity.
    + destruct (keqb_spec k k') as [->|N'].
      * destruct (keqb_spec k' kl); [congruence | reflexivity].
      * exact IH.
Qed.
Lemma slower_inv m : sinv m -> sinv (sm_lower K V m).
Proof.
  intros [ND F]. split.
  - unfold sm_lower. rewrite map_map. cbn. exact ND.
  - unfold sm_lower. clear ND. induction m as [|[k' [sp v]] m IH]; cbn; constructor; inversion F; subst; cbn in *; auto.
    match goal with H : lower sp = k' |- _ => rewrite <- H; apply lower_idem end.
Qed.

(* ------------------------------------------------------------------ the model's invariant *)

Lemma cls_ok_same c c' dflt : same_kind c c' -> cls_ok c dflt -> cls_ok c' dflt.
Proof. unfold same_kind, cls_ok. intros [-> ->]. auto. Qed.
Lemma same_kind_refl c : same_kind c c.
Proof. split; reflexivity. Qed.
Lemma same_kind_trans a b c : same_kind a b -> same_kind b c -> same_kind a c.
Proof. unfold same_kind. intros [-> ->] [-> ->]. auto. Qed.

Local Notation getitem := (ci_getitem K V keqb lower).
Local Notation setitem := (ci_setitem K V keqb lower).
Local Notation delitem := (ci_delitem K V keqb lower).
Local Notation contains := (ci_contains K V keqb lower).


Lemma base_getitem_abs c k : inv c ->
  base_getitem K V keqb lower c k = match sget (abs c) k with Some v => EOk v | None => EExn KeyError end.
Proof.
  intros [L _]. unfold base_getitem, sm_get, abs. rewrite (zip3_get_dict _ _ _ L).
  destruct (sfind (lower k) _); reflexivity.
Qed.
Lemma getitem_abs c k dflt : inv c -> cls_ok c dflt -> getitem c k = lookup_spec dflt (abs c) k.
Proof.
  intros I C. unfold ci_getitem, lookup_spec. rewrite (base_getitem_abs c k I). unfold cls_ok in C.
  destruct (c_cls K V c); subst; destruct (sget (abs c) k); try reflexivity.
  destruct dflt; [rewrite C; reflexivity | contradiction].
Qed.
Lemma contains_abs c k : inv c -> contains c k = shas (abs c) k.
Proof.
  intros [L _]. unfold ci_contains, al_mem, sm_has, abs. rewrite (zip3_get_dict _ _ _ L).
  destruct (sfind (lower k) _); reflexivity.
Qed.
Lemma setitem_abs c k v : inv c ->
  abs (setitem c k v) = sset (abs c) k v /\ inv (setitem c k v) /\ same_kind c (setitem c k v).
Proof.
  intros [L S]. unfold ci_setitem, abs, inv, sm_set. cbn.
  destruct (zip3_set (c_dict K V c) (c_keys K V c) (lower k) k v L) as [L' Z].
  split; [exact Z|]. split; [|split; reflexivity].
  split; [exact L'|]. unfold abs. cbn. rewrite Z. apply sput_inv; auto.
Qed.
Lemma delitem_abs c k : inv c ->
  exists c', delitem c k = (c', if shas (abs c) k then EOk tt else EExn KeyError) /\
             abs c' = (if shas (abs c) k then sdrop (lower k) (abs c) else abs c) /\ inv c' /\ same_kind c c'.
Proof.
  intros [L S]. unfold ci_delitem, al_del, al_mem, sm_has.
  rewrite (zip3_get_dict _ _ _ L), (zip3_get_keys _ _ _ L). fold (abs c).
  destruct (sfind (lower k) (abs c)) as [[sp v]|] eqn:E; cbn.
  - destruct (zip3_remove _ _ (lower k) L) as [L' Z]. eexists. split; [reflexivity|].
    unfold abs, inv. cbn. split; [exact Z|]. split; [|split; reflexivity].
    split; [exact L'|]. unfold abs. cbn. rewrite Z. apply sdrop_inv. exact S.
  - exists c. split; [reflexivity|]. split; [reflexivity|]. split; [split; assumption | apply same_kind_refl].
Qed.

(* ------------------------------------------------------------------ iteration, items, repr *)
Lemma iter_abs c : inv c -> ci_iter K V c = sm_keys K V (abs c).
Proof. intros [L _]. unfold ci_iter, abs. symmetry. apply zip3_keys. exact L. Qed.
Lemma len_abs c : inv c -> ci_len K V c = sm_len K V (abs c).
Proof. intros [L _]. unfold ci_len, sm_len, abs. destruct (zip3_length _ _ L). congruence. Qed.

Lemma items_of_abs c dflt m' : inv c -> cls_ok c dflt -> incl m' (abs c) ->
  items_of K V keqb lower c (sm_keys K V m') = EOk (sm_items K V m').
Proof.
  intros I C. induction m' as [|[kl [sp v]] m' IH]; intros IN; cbn; [reflexivity|].
  rewrite (getitem_abs c sp dflt I C). unfold lookup_spec, sm_get.
  assert (H : In (kl, (sp, v)) (abs c)) by (apply IN; left; reflexivity).
  destruct I as [_ [ND F]]. rewrite Forall_forall in F. specialize (F _ H). cbn in F. rewrite F.
  pose proof (sfind_in (kl, (sp, v)) (abs c) ND H) as Hf. cbn in Hf. rewrite Hf. cbn.
  fold (sm_keys K V m'). rewrite IH; [reflexivity|]. intros x Hx. apply IN. right. exact Hx.
Qed.
Lemma items_abs c dflt : inv c -> cls_ok c dflt -> ci_items K V keqb lower c = EOk (sm_items K V (abs c)).
Proof.
  intros I C. unfold ci_items. rewrite (iter_abs c I). apply (items_of_abs c dflt); auto. apply incl_refl.
Qed.

(* generic facts about Python dicts as association lists *)
Lemma aget_none_notin {X} k (l : list (K * X)) : aget k l = None <-> ~ In k (map fst l).
Proof.
  induction l as [|[k' e] l IH]; cbn; [tauto|].
  destruct (keqb_spec k k') as [->|N].
  - split; [discriminate | intros H; exfalso; apply H; auto].
  - rewrite IH. split; [intros H [E|I]; [congruence | tauto] | tauto].
Qed.
Lemma aset_fresh {X} k (x : X) l : aget k l = None -> aset k x l = l ++ [(k, x)].
Proof.
  induction l as [|[k' e] l IH]; cbn; [reflexivity|]. destruct (keqb k k'); [discriminate|].
  intros H. rewrite IH; auto.
Qed.
Lemma pydict_fold_nodup {X} (l : list (K * X)) : forall acc, NoDup (map fst (acc ++ l)) ->
  fold_left (fun a p => aset (fst p) (snd p) a) l acc = acc ++ l.
Proof.
  induction l as [|[k x] l IH]; intros acc ND; cbn; [rewrite app_nil_r; reflexivity|].
  rewrite aset_fresh.
  - rewrite IH; rewrite <- app_assoc; [reflexivity | exact ND].
  - apply aget_none_notin. rewrite map_app in ND. cbn in ND. apply NoDup_remove_2 in ND.
    intros I. apply ND. apply in_or_app. left. exact I.
Qed.
Lemma pydict_nodup {X} (l : list (K * X)) : NoDup (map fst l) -> pydict l = l.
Proof. intros ND. unfold py_dict. rewrite pydict_fold_nodup; [reflexivity | exact ND]. Qed.

Lemma sinv_keys_nodup m : sinv m -> NoDup (sm_keys K V m).
Proof.
  intros [ND F]. apply (NoDup_map_inv lower). unfold sm_keys. rewrite map_map.
  replace (map (fun x => lower (fst (snd x))) m) with (map fst m); [exact ND|].
  clear ND. induction F as [|e m He F IH]; cbn; [reflexivity|]. rewrite He, IH. reflexivity.
Qed.
Lemma items_fst m : map fst (sm_items K V m) = sm_keys K V m.
Proof. unfold sm_items, sm_keys. rewrite map_map. reflexivity. Qed.
Lemma repr_abs c dflt : inv c -> cls_ok c dflt -> ci_repr_data K V keqb lower c = EOk (sm_items K V (abs c)).
Proof.
  intros I C. unfold ci_repr_data. rewrite (items_abs c dflt I C). cbn.
  destruct (c_cls K V c); try reflexivity; rewrite pydict_nodup; try reflexivity;
    rewrite items_fst; apply sinv_keys_nodup; apply I.
Qed.

(* ------------------------------------------------------------------ popitem, clear, update *)
Lemma shas_sget m k : shas m k = match sget m k with Some _ => true | None => false end.
Proof. unfold sm_has, sm_get. destruct (sfind (lower k) m); reflexivity. Qed.

Lemma popitem_abs c dflt : inv c -> cls_ok c dflt ->
  exists c', inv c' /\ same_kind c c' /\
    match abs c with
    | [] => ci_popitem K V keqb lower c = (c', EExn KeyError) /\ c' = c
    | (_, (sp, v)) :: r => ci_popitem K V keqb lower c = (c', EOk (sp, v)) /\ abs c' = r
    end.
Proof.
  intros I C. unfold ci_popitem. rewrite (iter_abs c I).
  destruct (abs c) as [|[kl [sp v]] r] eqn:E; cbn.
  - exists c. split; [exact I|]. split; [apply same_kind_refl|]. split; reflexivity.
  - rewrite (getitem_abs c sp dflt I C). unfold lookup_spec, sm_get.
    assert (Hl : lower sp = kl).
    { destruct I as [_ [_ F]]. rewrite E in F. inversion F; subst. assumption. }
    rewrite E. cbn. rewrite Hl, keqb_refl. cbn.
    destruct (delitem_abs c sp I) as (c' & D & A & I' & SK). rewrite D.
    rewrite shas_sget in *. unfold sm_get in *. rewrite E in *. cbn in *. rewrite Hl, keqb_refl in *. cbn in *.
    exists c'. split; [exact I'|]. split; [exact SK|]. split; [reflexivity | exact A].
Qed.

Lemma clear_abs dflt : forall fuel c, inv c -> cls_ok c dflt -> length (abs c) < fuel ->
  exists c', clear_loop K V keqb lower fuel c = (c', EOk tt) /\ abs c' = [] /\ inv c' /\ same_kind c c'.
Proof.
  induction fuel as [|f IH]; intros c I C Hlen; [inversion Hlen|]. cbn.
  destruct (popitem_abs c dflt I C) as (c' & I' & SK & H).
  destruct (abs c) as [|[kl [sp v]] r] eqn:E.
  - destruct H as [-> ->]. exists c. split; [reflexivity|]. split; [exact E|]. split; [exact I | apply same_kind_refl].
  - destruct H as [-> A]. cbn in Hlen.
    destruct (IH c' I' (cls_ok_same _ _ _ SK C)) as (c'' & R & A' & I'' & SK'); [rewrite A; lia|].
    exists c''. rewrite R. split; [reflexivity|]. split; [exact A'|]. split; [exact I''|].
    exact (same_kind_trans _ _ _ SK SK').
Qed.

Lemma update_abs : forall kvs c, inv c ->
  abs (ci_update K V keqb lower c kvs) = sm_update K V keqb lower (abs c) kvs /\
  inv (ci_update K V keqb lower c kvs) /\ same_kind c (ci_update K V keqb lower c kvs).
Proof.
  induction kvs as [|[k v] kvs IH]; intros c I; cbn.
  - split; [reflexivity|]. split; [exact I | apply same_kind_refl].
  - destruct (setitem_abs c k v I) as (A & I' & SK). destruct (IH _ I') as (A' & I'' & SK').
    unfold ci_update, sm_update in *. cbn. rewrite A', A. split; [reflexivity|]. split; [exact I''|].
    exact (same_kind_trans _ _ _ SK SK').
Qed.

(* ------------------------------------------------------------------ constructor and lower() *)
Lemma empty_inv cl f : inv (mkcid K V cl [] [] f).
Proof. split; [reflexivity | split; constructor]. Qed.
Lemma init_abs cl pairs :
  abs (ci_init K V keqb lower cl pairs) = sm_update K V keqb lower [] pairs /\
  inv (ci_init K V keqb lower cl pairs).
Proof.
  unfold ci_init. destruct (update_abs pairs _ (empty_inv cl FacNone)) as (A & I & _). split; [exact A | exact I].
Qed.

Lemma sput_fresh kl sp v m : sfind kl m = None -> sput kl sp v m = m ++ [(kl, (sp, v))].
Proof.
  induction m as [|[k' e] m IH]; cbn; [reflexivity|]. destruct (keqb kl k'); [discriminate|].
  intros H. rewrite IH; auto.
Qed.
Lemma supdate_fresh : forall (l : list (K * V)) acc, NoDup (map fst acc ++ map fst l) ->
  Forall (fun p => lower (fst p) = fst p) l ->
  sm_update K V keqb lower acc l = acc ++ map (fun p => (fst p, (fst p, snd p))) l.
Proof.
  induction l as [|[k v] l IH]; intros acc ND F; cbn; [rewrite app_nil_r; reflexivity|].
  inversion F as [|? ? Fk Fl]; subst. cbn in Fk.
  unfold sm_update in *. cbn. unfold sm_set at 2. rewrite Fk. rewrite sput_fresh.
  - rewrite IH; [rewrite <- app_assoc; reflexivity | | exact Fl].
    rewrite map_app, <- app_assoc. exact ND.
  - apply sfind_none_notin. cbn in ND. apply NoDup_remove_2 in ND. intros I. apply ND. apply in_or_app. left. exact I.
Qed.

Lemma lower_abs c dflt : inv c -> cls_ok c dflt ->
  exists c', ci_lower K V keqb lower c = EOk c' /\ abs c' = sm_lower K V (abs c) /\ inv c' /\ cls_ok c' dflt.
Proof.
  intros I C. unfold ci_lower, ci_items_lower. rewrite (items_abs c dflt I C). cbn.
  set (L1 := map (fun p : K * V => (lower (fst p), snd p)) (sm_items K V (abs c))).
  assert (HF : Forall (fun e => lower (fst (snd e)) = fst e) (abs c)) by apply I.
  assert (Hfst : map fst L1 = map fst (abs c)).
  { unfold L1, sm_items. rewrite !map_map. cbn. clear - HF.
    induction HF as [|e m He F IH]; cbn; [reflexivity|]. rewrite He, IH. reflexivity. }
  assert (ND : NoDup (map fst L1)) by (rewrite Hfst; apply I).
  assert (FL : Forall (fun p : K * V => lower (fst p) = fst p) L1).
  { unfold L1, sm_items. rewrite map_map. apply Forall_forall. intros p Hp. apply in_map_iff in Hp.
    destruct Hp as (e & <- & _). cbn. apply lower_idem. }
  assert (R : forall cl f, abs (ci_update K V keqb lower (mkcid K V cl [] [] f) L1) = sm_lower K V (abs c) /\
                           inv (ci_update K V keqb lower (mkcid K V cl [] [] f) L1) /\
                           same_kind (mkcid K V cl [] [] f) (ci_update K V keqb lower (mkcid K V cl [] [] f) L1)).
  { intros cl f. destruct (update_abs L1 _ (empty_inv cl f)) as (A & I' & SK). split; [|split; assumption].
    rewrite A. cbn. rewrite supdate_fresh; [| cbn; exact ND | exact FL]. cbn.
    unfold L1, sm_items, sm_lower. rewrite !map_map. cbn. clear - HF.
    induction HF as [|e m He F IH]; cbn; [reflexivity|]. rewrite He, IH. reflexivity. }
  unfold cls_ok in C.
  destruct (c_cls K V c) eqn:EC.
  - destruct (R ClsPlain FacNone) as (A & I' & _). eexists. split; [reflexivity|]. split; [exact A|]. split; [exact I'|].
    subst dflt. apply (cls_ok_same (mkcid K V ClsPlain [] [] FacNone)); [apply R | reflexivity].
  - destruct (R ClsOrdered FacNone) as (A & I' & _). eexists. split; [reflexivity|]. split; [exact A|]. split; [exact I'|].
    subst dflt. apply (cls_ok_same (mkcid K V ClsOrdered [] [] FacNone)); [apply R | reflexivity].
  - destruct (R ClsDefault (c_fac K V c)) as (A & I' & _). eexists. split; [reflexivity|]. split; [exact A|]. split; [exact I'|].
    apply (cls_ok_same (mkcid K V ClsDefault [] [] (c_fac K V c))); [apply R|]. unfold CIRel.cls_ok. cbn. exact C.
Qed.

(* ------------------------------------------------------------------ one step, observations, histories *)
Local Notation step := (step K V keqb lower).
Local Notation spec_step := (spec_step K V keqb lower).

(* in-place mutation of a stored value *)
Lemma sfind_some_in kl e m : sfind kl m = Some e -> In (kl, e) m.
Proof.
  induction m as [|[k' e'] m IH]; cbn; [discriminate|].
  destruct (keqb_spec kl k') as [->|N]; [intros H; injection H as ->; auto | auto].
Qed.
Lemma aset_same {X} k (x : X) l : aget k l = Some x -> aset k x l = l.
Proof.
  induction l as [|[k' e] l IH]; cbn; [discriminate|].
  destruct (keqb k k'); [intros H; injection H as ->; reflexivity | intros H; rewrite IH; auto].
Qed.
Lemma mutate_abs c k sp v v' : inv c -> sfind (lower k) (abs c) = Some (sp, v) ->
  let c' := upd K V c (aset (lower k) v' (c_dict K V c)) (c_keys K V c) in
  abs c' = sput (lower k) sp v' (abs c) /\ inv c' /\ same_kind c c'.
Proof.
  intros [L S] G c'. 
  assert (Hk : aget (lower k) (c_keys K V c) = Some sp).
  { rewrite (zip3_get_keys _ _ _ L). fold (abs c). rewrite G. reflexivity. }
  destruct (zip3_set (c_dict K V c) (c_keys K V c) (lower k) sp v' L) as [L' Z].
  rewrite (aset_same _ _ _ Hk) in L', Z.
  assert (Hl : lower sp = lower k).
  { destruct S as [_ F]. rewrite Forall_forall in F. apply (F _ (sfind_some_in _ _ _ G)). }
  unfold c', abs, inv. cbn. split; [exact Z|]. split; [|split; reflexivity].
  split; [exact L'|]. unfold abs. cbn. rewrite Z. apply sput_inv; [split; apply S | exact Hl].
Qed.

Theorem step_refines c o dflt : inv c -> cls_ok c dflt ->
  spec_step dflt (abs c) o = (abs (fst (step c o)), snd (step c o)) /\
  inv (fst (step c o)) /\ cls_ok (fst (step c o)) dflt.
Proof.
  intros I C. destruct o as [k v|k|k|k|k d|k d| |k d|kvs| | |k f]; cbn [step spec_step CIDict.step CIMap.spec_step fst snd].
  - (* setitem *) destruct (setitem_abs c k v I) as (A & I' & SK). rewrite A.
    split; [reflexivity|]. split; [exact I' | exact (cls_ok_same _ _ _ SK C)].
  - (* getitem *) cbn. rewrite (getitem_abs c k dflt I C). unfold lookup_spec, ret_val.
    split; [|split; assumption]. destruct (sget (abs c) k); [reflexivity|]. destruct dflt; reflexivity.
  - (* delitem *) destruct (delitem_abs c k I) as (c' & D & A & I' & SK). rewrite D. cbn. rewrite A.
    split; [|split; [exact I' | exact (cls_ok_same _ _ _ SK C)]]. destruct (shas (abs c) k); reflexivity.
  - (* contains *) cbn. rewrite (contains_abs c k I). split; [reflexivity | split; assumption].
  - (* get *) cbn. unfold ci_get. rewrite (getitem_abs c k dflt I C). unfold lookup_spec.
    split; [|split; assumption].
    destruct (sget (abs c) k); [reflexivity|]. destruct dflt; reflexivity.
  - (* pop *)
    assert (BP : forall d', (dflt = None \/ d' = None \/ shas (abs c) k = true) ->
              spec_step dflt (abs c) (OPop k d') =
                (abs (fst (base_pop K V keqb lower c k d')), ret_val K V (snd (base_pop K V keqb lower c k d'))) /\
              inv (fst (base_pop K V keqb lower c k d')) /\ cls_ok (fst (base_pop K V keqb lower c k d')) dflt).
    { intros d' Hd. cbn [spec_step CIMap.spec_step]. unfold base_pop. rewrite (getitem_abs c k dflt I C). unfold lookup_spec.
      destruct (delitem_abs c k I) as (c' & D & A & I' & SK). rewrite shas_sget in D, A. rewrite shas_sget in Hd.
      destruct (sget (abs c) k) as [v|] eqn:G.
      + rewrite D. cbn. rewrite A. split; [reflexivity|]. split; [exact I' | exact (cls_ok_same _ _ _ SK C)].
      + destruct dflt as [d0|].
        * destruct Hd as [Hd|[->|Hd]]; try discriminate. rewrite D. cbn. rewrite A. split; [reflexivity|].
          split; [exact I' | exact (cls_ok_same _ _ _ SK C)].
        * cbn. split; [|split; assumption]. destruct d'; reflexivity. }
    assert (E : (let (c', r) := ci_pop K V keqb lower c k d in (c', ret_val K V r)) =
                (fst (ci_pop K V keqb lower c k d), ret_val K V (snd (ci_pop K V keqb lower c k d)))).
    { destruct (ci_pop K V keqb lower c k d). reflexivity. }
    rewrite E. cbn [fst snd]. unfold ci_pop. unfold CIRel.cls_ok in C.
    destruct (c_cls K V c) eqn:EC.
    + subst dflt. exact (BP d (or_introl eq_refl)).
    + subst dflt. exact (BP d (or_introl eq_refl)).
    + destruct dflt as [d0|]; [|contradiction]. destruct d as [dv|]; [|exact (BP None (or_intror (or_introl eq_refl)))].
      rewrite (contains_abs c k I). destruct (shas (abs c) k) eqn:H.
      * destruct (BP None) as (B1 & B2 & B3); [auto|]. split; [|split; [exact B2 | unfold CIRel.cls_ok; exact B3]].
        rewrite <- B1. cbn. rewrite shas_sget in H. destruct (sget (abs c) k); [reflexivity | discriminate].
      * cbn. split; [|split; [exact I | unfold CIRel.cls_ok; rewrite EC; exact C]].
        rewrite shas_sget in H. destruct (sget (abs c) k); [discriminate | reflexivity].
  - (* popitem *) destruct (popitem_abs c dflt I C) as (c' & I' & SK & H).
    destruct (abs c) as [|[kl [sp v]] r] eqn:E.
    + destruct H as [-> ->]. cbn. rewrite E. split; [reflexivity | split; assumption].
    + destruct H as [-> A]. cbn. rewrite A. split; [reflexivity|]. split; [exact I' | exact (cls_ok_same _ _ _ SK C)].
  - (* setdefault *)
    assert (E : (let (c', r) := ci_setdefault K V keqb lower c k d in (c', ret_val K V r)) =
                (fst (ci_setdefault K V keqb lower c k d), ret_val K V (snd (ci_setdefault K V keqb lower c k d)))).
    { destruct (ci_setdefault K V keqb lower c k d). reflexivity. }
    rewrite E. cbn [fst snd]. clear E.
    destruct (setitem_abs c k d I) as (A & I' & SK).
    assert (BS : dflt = None ->
              (match sget (abs c) k with Some v => (abs c, EOk (RVal v)) | None => (sset (abs c) k d, EOk (RVal d)) end) =
                (abs (fst (base_setdefault K V keqb lower c k d)), ret_val K V (snd (base_setdefault K V keqb lower c k d))) /\
              inv (fst (base_setdefault K V keqb lower c k d)) /\ cls_ok (fst (base_setdefault K V keqb lower c k d)) dflt).
    { intros ->. unfold base_setdefault. rewrite (getitem_abs c k None I C). unfold lookup_spec.
      destruct (sget (abs c) k) as [v|] eqn:G.
      + cbn. split; [reflexivity | split; assumption].
      + cbn [fst snd]. rewrite A. split; [reflexivity|]. split; [exact I' | exact (cls_ok_same _ _ _ SK C)]. }
    unfold ci_setdefault. pose proof C as C0. unfold CIRel.cls_ok in C0.
    destruct (c_cls K V c) eqn:EC; [apply BS; exact C0 | apply BS; exact C0 |].
    rewrite (contains_abs c k I), shas_sget. cbn [fst snd].
    destruct (sget (abs c) k) as [v|] eqn:G.
    + rewrite (getitem_abs c k dflt I C). unfold lookup_spec. rewrite G. cbn. split; [reflexivity | split; assumption].
    + pose proof (cls_ok_same _ _ _ SK C) as C'. rewrite (getitem_abs _ k dflt I' C'). unfold lookup_spec, sm_get.
      rewrite A. unfold sm_set. rewrite sput_find, keqb_refl. cbn. split; [reflexivity | split; assumption].
  - (* update *) destruct (update_abs kvs c I) as (A & I' & SK). rewrite A.
    split; [reflexivity|]. split; [exact I' | exact (cls_ok_same _ _ _ SK C)].
  - (* clear *) unfold ci_clear.
    destruct (clear_abs dflt (S (length (c_keys K V c))) c I C) as (c' & R & A & I' & SK).
    { destruct I as [L _]. unfold abs. destruct (zip3_length _ _ L) as [H1 H2]. rewrite H1, H2. lia. }
    rewrite R. cbn. rewrite A. split; [reflexivity|]. split; [exact I' | exact (cls_ok_same _ _ _ SK C)].
  - (* lower *) destruct (lower_abs c dflt I C) as (c' & R & A & I' & C'). rewrite R. cbn. rewrite A. auto.
  - (* mutate *) unfold ci_mutate. rewrite (getitem_abs c k dflt I C), (contains_abs c k I). unfold lookup_spec, sm_get, sm_has.
    destruct (sfind (lower k) (abs c)) as [[sp v]|] eqn:G; cbn [option_map snd].
    + destruct (f v) as [v'|]; [|cbn; split; [reflexivity | split; assumption]]. cbn [fst snd ret_unit ebind].
      destruct (mutate_abs c k sp v v' I G) as (A & I' & SK). rewrite A.
      split; [reflexivity|]. split; [exact I' | exact (cls_ok_same _ _ _ SK C)].
    + destruct dflt as [d0|]; [|cbn; split; [reflexivity | split; assumption]].
      destruct (f d0); cbn; split; try reflexivity; split; assumption.
Qed.

Local Notation observe := (observe K V keqb lower).
Local Notation spec_observe := (spec_observe K V keqb lower).

Lemma observe_abs c dflt probes : inv c -> cls_ok c dflt -> observe probes c = spec_observe dflt probes (abs c).
Proof.
  intros I C. unfold CIDict.observe, CIMap.spec_observe.
  rewrite (iter_abs c I), (items_abs c dflt I C), (len_abs c I), (repr_abs c dflt I C). f_equal.
  - apply map_ext. intros p. apply contains_abs. exact I.
  - apply map_ext. intros p. apply (getitem_abs c p dflt I C).
Qed.

Theorem run_refines_gen dflt probes : forall ops c, inv c -> cls_ok c dflt ->
  run K V keqb lower probes c ops = spec_run K V keqb lower dflt probes (abs c) ops /\
  abs (run_state K V keqb lower c ops) = spec_state K V keqb lower dflt (abs c) ops /\
  inv (run_state K V keqb lower c ops).
Proof.
  induction ops as [|o r IH]; intros c I C; cbn [run spec_run run_state spec_state] in *.
  - auto.
  - destruct (step_refines c o dflt I C) as (E & I' & C').
    rewrite E in *. cbn [fst snd] in *.
    destruct (step c o) as [c' x] eqn:ES. cbn [fst snd] in *.
    destruct (IH c' I' C') as (R1 & R2 & R3).
    rewrite R1, (observe_abs c' dflt probes I' C'). auto.
Qed.

(* ------------------------------------------------------------------ the invariant holds unconditionally *)
Lemma popitem_inv c : inv c -> inv (fst (ci_popitem K V keqb lower c)).
Proof.
  intros I. unfold ci_popitem. destruct (ci_iter K V c) as [|k r]; [exact I|].
  destruct (getitem c k); [|exact I].
  destruct (delitem_abs c k I) as (c' & D & _ & I' & _). rewrite D.
  destruct (shas (abs c) k); exact I'.
Qed.
Lemma clear_inv : forall fuel c, inv c -> inv (fst (clear_loop K V keqb lower fuel c)).
Proof.
  induction fuel as [|f IH]; intros c I; cbn; [exact I|].
  pose proof (popitem_inv c I) as P. destruct (ci_popitem K V keqb lower c) as [c' [x|[|]]]; cbn in *; auto.
Qed.
Lemma step_inv c o : inv c -> inv (fst (step c o)).
Proof.
  intros I. destruct o as [k v|k|k|k|k d|k d| |k d|kvs| | |k f]; cbn [step CIDict.step fst snd]; try exact I.
  - apply setitem_abs. exact I.
  - destruct (delitem_abs c k I) as (c' & D & _ & I' & _). rewrite D. exact I'.
  - assert (BP : forall d', inv (fst (base_pop K V keqb lower c k d'))).
    { intros d'. unfold base_pop. destruct (delitem_abs c k I) as (c' & D & _ & I' & _).
      destruct (getitem c k) as [v|[|]]; [rewrite D; destruct (shas (abs c) k); exact I' | exact I | exact I]. }
    assert (E : fst (let (c', r) := ci_pop K V keqb lower c k d in (c', ret_val K V r)) = fst (ci_pop K V keqb lower c k d))
      by (destruct (ci_pop K V keqb lower c k d); reflexivity).
    rewrite E. unfold ci_pop. destruct (c_cls K V c); try apply BP.
    destruct d; [|apply BP]. destruct (contains c k); [apply BP | exact I].
  - pose proof (popitem_inv c I) as P. destruct (ci_popitem K V keqb lower c). exact P.
  - assert (E : fst (let (c', r) := ci_setdefault K V keqb lower c k d in (c', ret_val K V r)) = fst (ci_setdefault K V keqb lower c k d))
      by (destruct (ci_setdefault K V keqb lower c k d); reflexivity).
    rewrite E. unfold ci_setdefault, base_setdefault.
    destruct (c_cls K V c); try (destruct (getitem c k) as [v|[|]]; [exact I | apply setitem_abs; exact I | exact I]).
    cbn. destruct (contains c k); [exact I | apply setitem_abs; exact I].
  - apply update_abs. exact I.
  - unfold ci_clear. pose proof (clear_inv (S (length (c_keys K V c))) c I) as P.
    destruct (clear_loop K V keqb lower (S (length (c_keys K V c))) c). exact P.
  - unfold ci_lower. destruct (c_cls K V c).
    + destruct (ci_items_lower K V keqb lower c); cbn; [apply init_abs | exact I].
    + destruct (ci_items_lower K V keqb lower c); cbn; [apply init_abs | exact I].
    + destruct (ci_items_lower K V keqb lower c); cbn; [apply update_abs; apply empty_inv | exact I].
  - unfold ci_mutate. destruct (getitem c k) as [v|e]; [|exact I]. destruct (f v) as [v'|]; [|exact I].
    rewrite (contains_abs c k I). unfold sm_has. destruct (sfind (lower k) (abs c)) as [[sp v0]|] eqn:G; [|exact I].
    cbn. apply (mutate_abs c k sp v0 v' I G).
Qed.

Lemma zip3_forall d ks : lock d ks ->
  Forall (fun e => lower (fst (snd e)) = fst e) (zip3 d ks) -> Forall (fun p : K * K => lower (snd p) = fst p) ks.
Proof.
  revert ks. induction d as [|[kl v] d IH]; intros [|[kl' sp] ks] H F; cbn in *; try discriminate; constructor.
  - injection H as -> H. inversion F; subst. assumption.
  - injection H as -> H. inversion F; subst. apply IH; assumption.
Qed.
Lemma inv_lockstep c : inv c -> lockstep K V lower c.
Proof.
  intros [L [ND F]]. unfold lockstep. split; [exact L|]. split.
  - unfold abs in ND. rewrite (zip3_fst _ _ L) in ND. exact ND.
  - apply (zip3_forall _ _ L F).
Qed.
Lemma reachable_inv c : reachable K V keqb lower c -> inv c.
Proof.
  induction 1 as [cl pairs _|d0|c o _ IH].
  - apply init_abs.
  - apply empty_inv.
  - apply step_inv. exact IH.
Qed.
(* THE INVARIANT: in every state reachable through the public protocol (any class, any operations,
   including the defective ones) _dict and _keys are in lock step *)
Theorem lockstep_inv c : reachable K V keqb lower c -> lockstep K V lower c.
Proof. intros R. apply inv_lockstep, reachable_inv, R. Qed.

(* ------------------------------------------------------------------ refinement of whole histories *)
Theorem run_refines cl pairs probes ops : cl <> ClsDefault ->
  run K V keqb lower probes (ci_init K V keqb lower cl pairs) ops =
  spec_run K V keqb lower None probes (sm_update K V keqb lower [] pairs) ops.
Proof.
  intros N. destruct (init_abs cl pairs) as [A I]. rewrite <- A.
  apply run_refines_gen; [exact I |].
  destruct (update_abs pairs _ (empty_inv cl FacNone)) as (_ & _ & SK).
  apply (cls_ok_same _ _ _ SK). unfold CIRel.cls_ok. cbn. destruct cl; congruence.
Qed.
(* the constructor is the sequence of insertions of its pairs *)
Theorem init_refines cl pairs : abs (ci_init K V keqb lower cl pairs) = sm_update K V keqb lower [] pairs.
Proof. apply init_abs. Qed.
(* the defaulting variant: every history refines the reference map with default d0 *)
Theorem default_run_refines d0 probes ops :
  run K V keqb lower probes (default_init K V (FacVal d0)) ops =
  spec_run K V keqb lower (Some d0) probes [] ops.
Proof.
  apply (run_refines_gen (Some d0) probes ops (default_init K V (FacVal d0))).
  - apply empty_inv.
  - reflexivity.
Qed.

(* ------------------------------------------------------------------ the property's words *)
(* lookups ignore case *)
Theorem lookup_ignores_case c k1 k2 : lower k1 = lower k2 ->
  getitem c k1 = getitem c k2 /\ contains c k1 = contains c k2.
Proof. intros E. unfold ci_getitem, base_getitem, ci_contains. rewrite E. auto. Qed.

(* what a present / an absent key looks like *)
Lemma shas_in m k : sinv m -> (shas m k = true <-> exists sp, In sp (sm_keys K V m) /\ lower sp = lower k).
Proof.
  intros [ND F]. unfold sm_has. split.
  - destruct (sfind (lower k) m) as [[sp v]|] eqn:E; [|discriminate]. intros _.
    assert (H : In (lower k, (sp, v)) m).
    { clear - E keqb_spec. induction m as [|[k' e] m IH]; cbn in *; [discriminate|].
      destruct (keqb_spec (lower k) k') as [->|N]; [injection E as ->; auto | auto]. }
    exists sp. split; [unfold sm_keys; apply (in_map (fun e => fst (snd e)) _ _ H)|].
    rewrite Forall_forall in F. apply (F _ H).
  - intros (sp & IN & E). unfold sm_keys in IN. apply in_map_iff in IN. destruct IN as ([kl [sp' v]] & <- & IN).
    rewrite Forall_forall in F. pose proof (F _ IN) as Fe. cbn in *.
    pose proof (sfind_in _ _ ND IN) as Hf. cbn in Hf. rewrite <- E, Fe, Hf. reflexivity.
Qed.

(* length, containment, iteration, items and repr agree with each other *)
Theorem len_iter_contains_repr_agree c dflt : inv c -> cls_ok c dflt ->
  exists its, ci_items K V keqb lower c = EOk its /\ ci_repr_data K V keqb lower c = EOk its /\
    map fst its = ci_iter K V c /\ ci_len K V c = length (ci_iter K V c) /\
    NoDup (map lower (ci_iter K V c)) /\
    (forall k, contains c k = true <-> exists sp, In sp (ci_iter K V c) /\ lower sp = lower k) /\
    (forall sp v, In (sp, v) its -> getitem c sp = EOk v).
Proof.
  intros I C. exists (sm_items K V (abs c)).
  rewrite (items_abs c dflt I C), (repr_abs c dflt I C), (iter_abs c I), (len_abs c I), items_fst.
  split; [reflexivity|]. split; [reflexivity|]. split; [reflexivity|].
  split; [unfold sm_len, sm_keys; rewrite map_length; reflexivity|].
  destruct I as [L [ND F]]. split; [|split].
  - unfold sm_keys. rewrite map_map. replace (map (fun x => lower (fst (snd x))) (abs c)) with (map fst (abs c)); [exact ND|].
    clear - F. induction F as [|e m He F IH]; cbn; [reflexivity|]. rewrite He, IH. reflexivity.
  - intros k. rewrite (contains_abs c k (conj L (conj ND F))). apply shas_in. split; assumption.
  - intros sp v IN. rewrite (getitem_abs c sp dflt (conj L (conj ND F)) C). unfold CIRel.lookup_spec, sm_get.
    unfold sm_items in IN. apply in_map_iff in IN. destruct IN as ([kl [sp' v']] & E & IN). cbn in E. injection E as -> ->.
    rewrite Forall_forall in F. pose proof (F _ IN) as Fe. cbn in Fe. rewrite Fe.
    pose proof (sfind_in _ _ ND IN) as Hf. cbn in Hf. rewrite Hf. reflexivity.
Qed.

(* overwriting keeps the position and replaces spelling and value; a new key goes last *)
Theorem overwrite_keeps_position c k v dflt : inv c -> cls_ok c dflt ->
  let c' := setitem c k v in
  (contains c k = true ->
     ci_iter K V c' = map (fun sp => if keqb (lower k) (lower sp) then k else sp) (ci_iter K V c)) /\
  (contains c k = false -> ci_iter K V c' = ci_iter K V c ++ [k]) /\
  getitem c' k = EOk v /\
  (forall k', lower k' <> lower k -> getitem c' k' = getitem c k').
Proof.
  intros I C c'. destruct (setitem_abs c k v I) as (A & I' & SK). fold c' in A, I', SK.
  pose proof (cls_ok_same _ _ _ SK C) as C'.
  rewrite (iter_abs c' I'), (iter_abs c I), (contains_abs c k I), A. unfold sm_set.
  destruct I as [L [ND F]].
  split; [|split; [|split]].
  - unfold sm_has. intros H. clear - H ND F keqb_spec. induction (abs c) as [|[k' [sp' v']] m IH]; cbn in *; [discriminate|].
    inversion ND as [|? ? NI ND']; subst. inversion F as [|? ? Fe Fm]; subst. cbn in Fe.
    destruct (keqb_spec (lower k) k') as [<-|N]; cbn.
    + rewrite Fe, keqb_refl. f_equal.
      clear - NI Fm keqb_spec. induction m as [|[k2 [sp2 v2]] m IH]; cbn in *; [reflexivity|].
      inversion Fm as [|? ? Fe2 Fm2]; subst. cbn in Fe2. rewrite Fe2.
      destruct (keqb_spec (lower k) k2) as [E2|N]; [exfalso; apply NI; left; auto|]. f_equal. apply IH; auto.
    + rewrite Fe. destruct (keqb_spec (lower k) k') as [E|_]; [congruence|]. f_equal. apply IH; auto.
  - unfold sm_has. intros H. destruct (sfind (lower k) (abs c)) eqn:E; [discriminate|].
    rewrite sput_fresh; [|exact E]. unfold sm_keys. rewrite map_app. reflexivity.
  - rewrite (getitem_abs c' k dflt I' C'). unfold CIRel.lookup_spec, sm_get. rewrite A. unfold sm_set.
    rewrite sput_find, keqb_refl. reflexivity.
  - intros k' N. rewrite (getitem_abs c' k' dflt I' C'), (getitem_abs c k' dflt (conj L (conj ND F)) C).
    unfold CIRel.lookup_spec, sm_get. rewrite A. unfold sm_set. rewrite sput_find.
    destruct (keqb_spec (lower k') (lower k)); [contradiction | reflexivity].
Qed.

(* deletion removes exactly that key *)
Theorem delete_exactly_that_key c k dflt : inv c -> cls_ok c dflt -> contains c k = true ->
  exists c', delitem c k = (c', EOk tt) /\ contains c' k = false /\
    ci_iter K V c' = filter (fun sp => negb (keqb (lower k) (lower sp))) (ci_iter K V c) /\
    (forall k', lower k' <> lower k -> getitem c' k' = getitem c k' /\ contains c' k' = contains c k').
Proof.
  intros I C H. rewrite (contains_abs c k I) in H.
  destruct (delitem_abs c k I) as (c' & D & A & I' & SK). rewrite H in D, A.
  pose proof (cls_ok_same _ _ _ SK C) as C'.
  exists c'. split; [exact D|]. destruct I as [L [ND F]].
  split; [|split].
  - rewrite (contains_abs c' k I'), A. unfold sm_has. rewrite (sdrop_find _ _ ND), keqb_refl. reflexivity.
  - rewrite (iter_abs c' I'), (iter_abs c (conj L (conj ND F))), A.
    clear - ND F keqb_spec. induction (abs c) as [|[k' [sp' v']] m IH]; cbn; [reflexivity|].
    inversion ND as [|? ? NI ND']; subst. inversion F as [|? ? Fe Fm]; subst. cbn in Fe. rewrite Fe.
    destruct (keqb_spec (lower k) k') as [<-|N]; cbn.
    + clear - NI Fm keqb_spec. induction m as [|[k2 [sp2 v2]] m IH]; cbn in *; [reflexivity|].
      inversion Fm as [|? ? Fe2 Fm2]; subst. cbn in Fe2. rewrite Fe2.
      destruct (keqb_spec (lower k) k2) as [E2|N]; [exfalso; apply NI; left; auto|]. cbn. f_equal. apply IH; auto.
    + f_equal. apply IH; auto.
  - intros k' N. rewrite (getitem_abs c' k' dflt I' C'), (getitem_abs c k' dflt (conj L (conj ND F)) C).
    rewrite (contains_abs c' k' I'), (contains_abs c k' (conj L (conj ND F))).
    unfold CIRel.lookup_spec, sm_get, sm_has. rewrite A, (sdrop_find _ _ ND).
    destruct (keqb_spec (lower k') (lower k)); [contradiction | auto].
Qed.

(* the defaulting variant yields its default for an absent key and does not insert it *)
Theorem default_no_insert c k d0 : inv c -> cls_ok c (Some d0) -> contains c k = false ->
  step c (OGet k) = (c, EOk (RVal d0)).
Proof.
  intros I C H. cbn. rewrite (getitem_abs c k (Some d0) I C). rewrite (contains_abs c k I), shas_sget in H.
  unfold CIRel.lookup_spec. destruct (sget (abs c) k); [discriminate | reflexivity].
Qed.
(* ... and so does its get(k, d): it yields the factory's default, not d, and does not insert *)
Theorem default_get_no_insert c k d d0 : inv c -> cls_ok c (Some d0) -> contains c k = false ->
  step c (OGetD k d) = (c, EOk (RVal d0)).
Proof.
  intros I C H. cbn. unfold ci_get. rewrite (getitem_abs c k (Some d0) I C).
  rewrite (contains_abs c k I), shas_sget in H.
  unfold CIRel.lookup_spec. destruct (sget (abs c) k); [discriminate | auto].
Qed.
(* ... while setdefault(k, x) inserts x and returns it, in every class *)
Theorem setdefault_absent_inserts c k x dflt : inv c -> cls_ok c dflt -> contains c k = false ->
  step c (OSetdefault k x) = (setitem c k x, EOk (RVal x)).
Proof.
  intros I C H. destruct (step_refines c (OSetdefault k x) dflt I C) as (E & _).
  cbn [spec_step CIMap.spec_step] in E. rewrite (contains_abs c k I), shas_sget in H.
  destruct (sget (abs c) k) eqn:G; [discriminate|].
  destruct (step c (OSetdefault k x)) as [c' r] eqn:ES. cbn [fst snd] in E. injection E as E1 E2. rewrite <- E2. f_equal.
  cbn in ES. unfold ci_setdefault, base_setdefault in ES. rewrite (getitem_abs c k dflt I C) in ES.
  unfold CIRel.lookup_spec in ES. rewrite G in ES.
  rewrite (contains_abs c k I), shas_sget, G in ES.
  unfold CIRel.cls_ok in C. destruct (c_cls K V c); destruct dflt; try discriminate; try contradiction; cbn in ES; congruence.
Qed.

(* lower() lower-cases the spellings and nothing else: same keys, same order, same values, same lookups *)
Theorem lower_lowers_keys_only c dflt : inv c -> cls_ok c dflt ->
  exists c' its, step c OLower = (c', EOk RNone) /\ ci_items K V keqb lower c = EOk its /\
    ci_items K V keqb lower c' = EOk (map (fun p => (lower (fst p), snd p)) its) /\
    ci_len K V c' = ci_len K V c /\
    (forall k, getitem c' k = getitem c k /\ contains c' k = contains c k) /\
    inv c' /\ cls_ok c' dflt.
Proof.
  intros I C. destruct (lower_abs c dflt I C) as (c' & R & A & I' & C').
  exists c', (sm_items K V (abs c)). cbn [step CIDict.step]. rewrite R.
  split; [reflexivity|]. split; [apply (items_abs c dflt I C)|].
  rewrite (items_abs c' dflt I' C'), A, (len_abs c' I'), (len_abs c I), A.
  destruct I as [L [ND F]].
  split; [|split; [|split; [|split; assumption]]].
  - f_equal. unfold sm_items, sm_lower. rewrite !map_map. cbn. clear - F.
    induction F as [|e m He F IH]; cbn; [reflexivity|]. rewrite He, IH. reflexivity.
  - unfold sm_len, sm_lower. apply map_length.
  - intros k. rewrite (getitem_abs c' k dflt I' C'), (getitem_abs c k dflt (conj L (conj ND F)) C).
    rewrite (contains_abs c' k I'), (contains_abs c k (conj L (conj ND F))), A.
    unfold CIRel.lookup_spec, sm_get, sm_has.
    assert (H : forall kl, sfind kl (sm_lower K V (abs c)) = option_map (fun e => (kl, snd e)) (sfind kl (abs c))).
    { intros kl. clear - keqb_spec. induction (abs c) as [|[k' [sp v]] m IH]; cbn; [reflexivity|].
      destruct (keqb_spec kl k') as [->|N]; cbn; [reflexivity | exact IH]. }
    rewrite H. destruct (sfind (lower k) (abs c)); cbn; auto.
Qed.

(* ------------------------------------------------------------------ the same, for reachable states *)
Lemma reachable_run c ops : reachable K V keqb lower c -> reachable K V keqb lower (run_state K V keqb lower c ops).
Proof. revert c. induction ops as [|o r IH]; intros c R; cbn; [exact R|]. apply IH. constructor. exact R. Qed.

Theorem len_iter_contains_repr_agree_r c dflt : reachable K V keqb lower c -> cls_ok c dflt ->
  exists its, ci_items K V keqb lower c = EOk its /\ ci_repr_data K V keqb lower c = EOk its /\
    map fst its = ci_iter K V c /\ ci_len K V c = length (ci_iter K V c) /\
    NoDup (map lower (ci_iter K V c)) /\
    (forall k, contains c k = true <-> exists sp, In sp (ci_iter K V c) /\ lower sp = lower k) /\
    (forall sp v, In (sp, v) its -> getitem c sp = EOk v).
Proof. intros R. apply len_iter_contains_repr_agree. apply reachable_inv, R. Qed.
Theorem overwrite_keeps_position_r c k v dflt : reachable K V keqb lower c -> cls_ok c dflt ->
  let c' := setitem c k v in
  (contains c k = true ->
     ci_iter K V c' = map (fun sp => if keqb (lower k) (lower sp) then k else sp) (ci_iter K V c)) /\
  (contains c k = false -> ci_iter K V c' = ci_iter K V c ++ [k]) /\
  getitem c' k = EOk v /\
  (forall k', lower k' <> lower k -> getitem c' k' = getitem c k').
Proof. intros R. apply overwrite_keeps_position. apply reachable_inv, R. Qed.
Theorem delete_exactly_that_key_r c k dflt : reachable K V keqb lower c -> cls_ok c dflt -> contains c k = true ->
  exists c', delitem c k = (c', EOk tt) /\ contains c' k = false /\
    ci_iter K V c' = filter (fun sp => negb (keqb (lower k) (lower sp))) (ci_iter K V c) /\
    (forall k', lower k' <> lower k -> getitem c' k' = getitem c k' /\ contains c' k' = contains c k').
Proof. intros R. apply delete_exactly_that_key. apply reachable_inv, R. Qed.
Theorem lower_lowers_keys_only_r c dflt : reachable K V keqb lower c -> cls_ok c dflt ->
  exists c' its, step c OLower = (c', EOk RNone) /\ ci_items K V keqb lower c = EOk its /\
    ci_items K V keqb lower c' = EOk (map (fun p => (lower (fst p), snd p)) its) /\
    ci_len K V c' = ci_len K V c /\
    (forall k, getitem c' k = getitem c k /\ contains c' k = contains c k).
Proof.
  intros R C. destruct (lower_lowers_keys_only c dflt (reachable_inv c R) C) as (c' & its & H1 & H2 & H3 & H4 & H5 & _).
  exists c', its. auto.
Qed.
Theorem default_no_insert_r c k d0 : reachable K V keqb lower c -> cls_ok c (Some d0) -> contains c k = false ->
  step c (OGet k) = (c, EOk (RVal d0)).
Proof. intros R. apply default_no_insert. apply reachable_inv, R. Qed.
Theorem default_get_no_insert_r c k d d0 : reachable K V keqb lower c -> cls_ok c (Some d0) -> contains c k = false ->
  step c (OGetD k d) = (c, EOk (RVal d0)).
Proof. intros R. apply default_get_no_insert. apply reachable_inv, R. Qed.
Theorem setdefault_absent_inserts_r c k x dflt : reachable K V keqb lower c -> cls_ok c dflt -> contains c k = false ->
  step c (OSetdefault k x) = (setitem c k x, EOk (RVal x)).
Proof. intros R. apply setdefault_absent_inserts. apply reachable_inv, R. Qed.

(* a default yielded for an absent key is a fresh one: mutating it in place changes nothing, the next miss
   yields the pristine default again *)
Theorem default_is_fresh c k f d0 v' : inv c -> cls_ok c (Some d0) -> contains c k = false -> f d0 = Some v' ->
  step c (OMutate k f) = (c, EOk RNone) /\ forall k', contains c k' = false -> getitem c k' = EOk d0.
Proof.
  intros I C H F. split.
  - cbn. unfold ci_mutate. rewrite (getitem_abs c k (Some d0) I C), H.
    rewrite (contains_abs c k I), shas_sget in H. unfold CIRel.lookup_spec. destruct (sget (abs c) k); [discriminate|].
    rewrite F. reflexivity.
  - intros k' H'. rewrite (getitem_abs c k' (Some d0) I C). rewrite (contains_abs c k' I), shas_sget in H'.
    unfold CIRel.lookup_spec. destruct (sget (abs c) k'); [discriminate | reflexivity].
Qed.
(* mutating a stored value in place touches neither the keys, nor the spellings, nor the order, nor the length *)
Theorem mutate_keeps_keys c k f : c_keys K V (fst (step c (OMutate k f))) = c_keys K V c /\
  ci_iter K V (fst (step c (OMutate k f))) = ci_iter K V c.
Proof.
  cbn. unfold ci_mutate, ci_iter. destruct (getitem c k); [|auto]. destruct (f a); [|auto].
  destruct (contains c k); auto.
Qed.
Theorem default_is_fresh_r c k f d0 v' : reachable K V keqb lower c -> cls_ok c (Some d0) -> contains c k = false -> f d0 = Some v' ->
  step c (OMutate k f) = (c, EOk RNone) /\ forall k', contains c k' = false -> getitem c k' = EOk d0.
Proof. intros R. apply default_is_fresh. apply reachable_inv, R. Qed.

(* ------------------------------------------------------------------ helpers for several live containers *)
Lemma init_cls_ok cl pairs : cl <> ClsDefault -> cls_ok (ci_init K V keqb lower cl pairs) None.
Proof.
  intros N. destruct (update_abs pairs _ (empty_inv cl FacNone)) as (_ & _ & SK).
  apply (cls_ok_same _ _ _ SK). unfold CIRel.cls_ok. cbn. destruct cl; congruence.
Qed.
Lemma supdate_fresh_gen : forall (l : list (K * V)) acc, NoDup (map fst acc ++ map (fun p => lower (fst p)) l) ->
  sm_update K V keqb lower acc l = acc ++ map (fun p => (lower (fst p), (fst p, snd p))) l.
Proof.
  induction l as [|[k v] l IH]; intros acc ND; cbn; [rewrite app_nil_r; reflexivity|].
  unfold sm_update in *. cbn. unfold sm_set at 2. rewrite sput_fresh.
  - rewrite IH; [rewrite <- app_assoc; reflexivity|]. rewrite map_app, <- app_assoc. exact ND.
  - apply sfind_none_notin. cbn in ND. apply NoDup_remove_2 in ND. intros I. apply ND. apply in_or_app. left. exact I.
Qed.
(* inserting the items of a reference map into an empty one gives the same map: a copy is a copy *)
Lemma copy_identity m : sinv m -> sm_update K V keqb lower [] (sm_items K V m) = m.
Proof.
  intros [ND F]. rewrite supdate_fresh_gen.
  - cbn. unfold sm_items. rewrite map_map. clear ND. induction F as [|[kl [sp v]] m He F IH]; cbn in *; [reflexivity|].
    rewrite He. f_equal. exact IH.
  - cbn. unfold sm_items. rewrite map_map. cbn.
    replace (map (fun x => lower (fst (snd x))) m) with (map fst m); [exact ND|].
    clear ND. induction F as [|e m He F IH]; cbn; [reflexivity|]. rewrite He, IH. reflexivity.
Qed.

(* every reachable container has a working class/default pairing: the hypothesis cls_ok of the corollaries
   is always satisfiable *)
Theorem reachable_cls_ok c : reachable K V keqb lower c -> exists dflt, cls_ok c dflt.
Proof.
  induction 1 as [cl pairs N|d0|c o R [dflt C]].
  - exists None. destruct (update_abs pairs _ (empty_inv cl FacNone)) as (_ & _ & SK).
    apply (cls_ok_same _ _ _ SK). unfold CIRel.cls_ok. cbn. destruct cl; congruence.
  - exists (Some d0). reflexivity.
  - exists dflt. apply (step_refines c o dflt (reachable_inv c R) C).
Qed.

End P.
